import NmlVerif.Model.Builder
/-!
Helper lemmas for C15 (`Props/C15.lean`): the builder invariant and its preservation by every operation.
Core Lean only.
-/
namespace NmlVerif.Builder

/-! ### de-duplication loops -/

theorem mem_dedupAux (l acc : List Int) (i : Int) : i ∈ dedupAux acc l ↔ i ∈ acc ∨ i ∈ l := by
  induction l generalizing acc with
  | nil => simp [dedupAux]
  | cons x xs ih =>
    unfold dedupAux
    split
    · rename_i h
      rw [ih]
      constructor
      · rintro (h1 | h1)
        · exact Or.inl h1
        · exact Or.inr (List.mem_cons_of_mem _ h1)
      · rintro (h1 | h1)
        · exact Or.inl h1
        · rcases List.mem_cons.mp h1 with rfl | h2
          · exact Or.inl h
          · exact Or.inr h2
    · rw [ih]
      simp only [List.mem_append, List.mem_cons, List.not_mem_nil, or_false]
      constructor
      · rintro ((h1 | h1) | h1)
        · exact Or.inl h1
        · exact Or.inr (Or.inl h1)
        · exact Or.inr (Or.inr h1)
      · rintro (h1 | h1 | h1)
        · exact Or.inl (Or.inl h1)
        · exact Or.inl (Or.inr h1)
        · exact Or.inr h1

theorem mem_dedup (l : List Int) (i : Int) : i ∈ dedup l ↔ i ∈ l := by
  unfold dedup; rw [mem_dedupAux]; simp

theorem mem_dedupStrAux (l acc : List String) (i : String) : i ∈ dedupStrAux acc l ↔ i ∈ acc ∨ i ∈ l := by
  induction l generalizing acc with
  | nil => simp [dedupStrAux]
  | cons x xs ih =>
    unfold dedupStrAux
    split
    · rename_i h
      rw [ih]
      constructor
      · rintro (h1 | h1)
        · exact Or.inl h1
        · exact Or.inr (List.mem_cons_of_mem _ h1)
      · rintro (h1 | h1)
        · exact Or.inl h1
        · rcases List.mem_cons.mp h1 with rfl | h2
          · exact Or.inl h
          · exact Or.inr h2
    · rw [ih]
      simp only [List.mem_append, List.mem_cons, List.not_mem_nil, or_false]
      constructor
      · rintro ((h1 | h1) | h1)
        · exact Or.inl h1
        · exact Or.inr (Or.inl h1)
        · exact Or.inr (Or.inr h1)
      · rintro (h1 | h1 | h1)
        · exact Or.inl (Or.inl h1)
        · exact Or.inl (Or.inr h1)
        · exact Or.inr h1

theorem mem_dedupStr (l : List String) (i : String) : i ∈ dedupStr l ↔ i ∈ l := by
  unfold dedupStr; rw [mem_dedupStrAux]; simp

theorem mem_insertSorted (a : Int) (l : List Int) (i : Int) : i ∈ insertSorted a l ↔ i = a ∨ i ∈ l := by
  induction l with
  | nil => simp [insertSorted]
  | cons b l ih =>
    unfold insertSorted
    split
    · simp
    · simp only [List.mem_cons, ih]
      constructor
      · rintro (h | h | h)
        · exact Or.inr (Or.inl h)
        · exact Or.inl h
        · exact Or.inr (Or.inr h)
      · rintro (h | h | h)
        · exact Or.inr (Or.inl h)
        · exact Or.inl h
        · exact Or.inr (Or.inr h)

theorem mem_natSort (l : List Int) (i : Int) : i ∈ natSort l ↔ i ∈ l := by
  unfold natSort
  induction l with
  | nil => simp
  | cons a l ih => simp only [List.foldr_cons, mem_insertSorted, ih, List.mem_cons]

/-! ### lookups -/

theorem look_nil (h : String) : look [] h = none := rfl

theorem look_cons (G : Group) (gs : List Group) (h : String) :
    look (G :: gs) h = if G.id = h then some G else look gs h := by
  unfold look
  rw [List.find?_cons]
  by_cases e : G.id = h
  · simp [e]
  · have e' : (G.id == h) = false := by simpa using e
    simp [e, e']

theorem look_append (a b : List Group) (h : String) : look (a ++ b) h = (look a h).or (look b h) := by
  unfold look; exact List.find?_append

theorem look_some_id {gs : List Group} {h : String} {G : Group} (e : look gs h = some G) : G.id = h := by
  have := List.find?_some e
  simpa using this

theorem look_some_mem {gs : List Group} {h : String} {G : Group} (e : look gs h = some G) : G ∈ gs :=
  List.mem_of_find?_eq_some e

theorem look_none_iff {gs : List Group} {h : String} : look gs h = none ↔ ∀ G ∈ gs, G.id ≠ h := by
  unfold look
  rw [List.find?_eq_none]
  constructor
  · intro H G hG e; exact H G hG (by simp [e])
  · intro H G hG e; exact H G hG (by simpa using e)

theorem look_isSome_iff {gs : List Group} {h : String} : (look gs h).isSome ↔ ∃ G ∈ gs, G.id = h := by
  cases e : look gs h with
  | none =>
    simp only [Option.isSome_none, Bool.false_eq_true, false_iff]
    rintro ⟨G, hG, hid⟩
    exact look_none_iff.mp e G hG hid
  | some G => simp only [Option.isSome_some, true_iff]; exact ⟨G, look_some_mem e, look_some_id e⟩

theorem look_none_count {gs : List Group} {h : String} (e : look gs h = none) : (gs.map (·.id)).count h = 0 := by
  rw [List.count_eq_zero]
  intro hm
  rcases List.mem_map.mp hm with ⟨G, hG, hid⟩
  exact look_none_iff.mp e G hG hid

theorem look_updGroup (g : String) (f : Group → Group) (hf : ∀ G, (f G).id = G.id) (gs : List Group) (h : String) :
    look (updGroup g f gs) h = if h = g then (look gs g).map f else look gs h := by
  induction gs with
  | nil => simp [updGroup, look_nil]
  | cons G gs ih =>
    unfold updGroup
    by_cases e : G.id = g
    · simp only [e, beq_self_eq_true, ↓reduceIte, look_cons, hf]
      by_cases e2 : h = g
      · simp [e2]
      · have : ¬ g = h := fun x => e2 x.symm
        simp [e2, this]
    · have e' : (G.id == g) = false := by simpa using e
      simp only [e', Bool.false_eq_true, ↓reduceIte, look_cons, ih, e]
      by_cases e2 : h = g
      · subst e2; simp [e]
      · simp only [e2, ↓reduceIte]

theorem map_id_updGroup (g : String) (f : Group → Group) (hf : ∀ G, (f G).id = G.id) (gs : List Group) :
    (updGroup g f gs).map (·.id) = gs.map (·.id) := by
  induction gs with
  | nil => rfl
  | cons G gs ih =>
    unfold updGroup
    split
    · simp [hf]
    · simp [ih]

theorem mem_updGroup {g : String} {f : Group → Group} {gs : List Group} {G' : Group} (h : G' ∈ updGroup g f gs) :
    G' ∈ gs ∨ ∃ G ∈ gs, G.id = g ∧ G' = f G := by
  induction gs with
  | nil => simp [updGroup] at h
  | cons G gs ih =>
    unfold updGroup at h
    split at h
    · rename_i e
      rcases List.mem_cons.mp h with rfl | h2
      · exact Or.inr ⟨G, List.mem_cons_self, by simpa using e, rfl⟩
      · exact Or.inl (List.mem_cons_of_mem _ h2)
    · rcases List.mem_cons.mp h with rfl | h2
      · exact Or.inl List.mem_cons_self
      · rcases ih h2 with h3 | ⟨G0, hG0, e1, e2⟩
        · exact Or.inl (List.mem_cons_of_mem _ h3)
        · exact Or.inr ⟨G0, List.mem_cons_of_mem _ hG0, e1, e2⟩

/-! ### the two-level reading of a cell's groups -/

/-- direct members of the first group with id `g` (none if there is no such group) -/
def mems (gs : List Group) (g : String) : List Int :=
  match look gs g with
  | some G => G.members
  | none => []

def incs (gs : List Group) (g : String) : List String :=
  match look gs g with
  | some G => G.includes
  | none => []

/-- `i` is a member of `g` or of a group that `g` includes -/
def FlatMem (gs : List Group) (g : String) (i : Int) : Prop :=
  i ∈ mems gs g ∨ ∃ u ∈ incs gs g, i ∈ mems gs u

/-- only default groups include, and they include existing non-default groups -/
def FlatStr (gs : List Group) : Prop :=
  ∀ G ∈ gs, ∀ u ∈ G.includes, isDefaultName G.id = true ∧ isDefaultName u = false ∧ (look gs u).isSome

def Once (gs : List Group) : Prop := ∀ d, isDefaultName d = true → (gs.map (·.id)).count d ≤ 1

theorem incs_nondefault {gs : List Group} (hf : FlatStr gs) {u : String} (hu : isDefaultName u = false) : incs gs u = [] := by
  unfold incs
  cases e : look gs u with
  | none => rfl
  | some U =>
    simp only
    cases hi : U.includes with
    | nil => rfl
    | cons v vs =>
      have := (hf U (look_some_mem e) v (by simp [hi])).1
      rw [look_some_id e, hu] at this
      cases this

theorem flatMem_nondefault {gs : List Group} (hf : FlatStr gs) {u : String} (hu : isDefaultName u = false) (i : Int) :
    FlatMem gs u i ↔ i ∈ mems gs u := by
  unfold FlatMem
  rw [incs_nondefault hf hu]
  simp

/-! ### `get_all_segments_in_group` on a flat cell -/

theorem resolveIncs_ok (rec : String → Except Err (List Int)) (f : String → List Int) :
    ∀ (us : List String) (acc : List Int), (∀ u ∈ us, rec u = .ok (f u)) →
      ∃ l, resolveIncs rec us acc = .ok l ∧ ∀ i, i ∈ l ↔ i ∈ acc ∨ ∃ u ∈ us, i ∈ f u
  | [], acc, _ => ⟨acc, rfl, by simp⟩
  | u :: us, acc, h => by
    unfold resolveIncs
    rw [h u (by simp)]
    simp only
    obtain ⟨l, hl, hm⟩ := resolveIncs_ok rec f us (dedupAux acc (f u)) (fun v hv => h v (by simp [hv]))
    refine ⟨l, hl, ?_⟩
    intro i
    rw [hm, mem_dedupAux]
    simp only [List.mem_cons, exists_eq_or_imp]
    constructor
    · rintro ((h1 | h1) | h1)
      · exact Or.inl h1
      · exact Or.inr (Or.inl h1)
      · exact Or.inr (Or.inr h1)
    · rintro (h1 | h1 | h1)
      · exact Or.inl (Or.inl h1)
      · exact Or.inl (Or.inr h1)
      · exact Or.inr h1

theorem resolveAux_leaf (ids : List Int) (gs : List Group) (n : Nat) (u : String) (U : Group)
    (e : look gs u = some U) (hU : U.includes = []) : resolveAux ids gs (n + 1) u = .ok (dedup U.members) := by
  unfold resolveAux
  rw [e]
  simp only [hU]
  rfl

/-- on a flat cell a group that exists resolves (no error) to its members and those of its includes -/
theorem resolve_flat (ids : List Int) {gs : List Group} (hf : FlatStr gs) {g : String} {G : Group} (e : look gs g = some G) :
    ∃ l, resolveAux ids gs (gs.length + 1) g = .ok l ∧ ∀ i, i ∈ l ↔ FlatMem gs g i := by
  have hpos : ∃ n, gs.length = n + 1 := by
    cases gs with
    | nil => simp [look_nil] at e
    | cons a b => exact ⟨b.length, rfl⟩
  obtain ⟨n, hn⟩ := hpos
  rw [hn]
  unfold resolveAux
  rw [e]
  simp only
  have hleaf : ∀ u ∈ G.includes, resolveAux ids gs (n + 1) u = .ok (dedup (mems gs u)) := by
    intro u hu
    obtain ⟨_, hnd, hs⟩ := hf G (look_some_mem e) u hu
    cases eu : look gs u with
    | none => rw [eu] at hs; cases hs
    | some U =>
      have hU : U.includes = [] := by
        have := incs_nondefault hf hnd
        unfold incs at this
        rw [eu] at this
        exact this
      rw [resolveAux_leaf ids gs n u U eu hU]
      unfold mems
      rw [eu]
  obtain ⟨l, hl, hm⟩ := resolveIncs_ok (resolveAux ids gs (n + 1)) (fun u => dedup (mems gs u)) G.includes (dedup G.members) hleaf
  refine ⟨l, hl, ?_⟩
  intro i
  rw [hm]
  unfold FlatMem
  have e1 : mems gs g = G.members := by unfold mems; rw [e]
  have e2 : incs gs g = G.includes := by unfold incs; rw [e]
  rw [e1, e2, mem_dedup]
  constructor
  · rintro (h | ⟨u, hu, h⟩)
    · exact Or.inl h
    · exact Or.inr ⟨u, hu, (mem_dedup _ _).mp h⟩
  · rintro (h | ⟨u, hu, h⟩)
    · exact Or.inl h
    · exact Or.inr ⟨u, hu, (mem_dedup _ _).mpr h⟩

/-! ### effect of the primitive mutations on the two-level reading -/

theorem look_isSome_iff_mem_ids {gs : List Group} {h : String} : (look gs h).isSome ↔ h ∈ gs.map (·.id) := by
  rw [look_isSome_iff, List.mem_map]

theorem look_isSome_of_ids {gs gs' : List Group} (hid : gs'.map (·.id) = gs.map (·.id)) (h : String) :
    (look gs' h).isSome = (look gs h).isSome := by
  rw [Bool.eq_iff_iff, look_isSome_iff_mem_ids, look_isSome_iff_mem_ids, hid]

structure Str (gs : List Group) : Prop where
  flat : FlatStr gs
  once : Once gs

theorem flatStr_of_updGroup {gs : List Group} (hf : FlatStr gs) (g : String) (f : Group → Group)
    (hid : ∀ G, (f G).id = G.id)
    (hinc : ∀ G ∈ gs, G.id = g → ∀ u ∈ (f G).includes, u ∈ G.includes ∨
      (isDefaultName g = true ∧ isDefaultName u = false ∧ (look gs u).isSome)) :
    FlatStr (updGroup g f gs) := by
  intro G' hG' u hu
  have hs : ∀ v, (look (updGroup g f gs) v).isSome = (look gs v).isSome :=
    fun v => look_isSome_of_ids (map_id_updGroup g f hid gs) v
  rcases mem_updGroup hG' with h | ⟨G, hG, hg, rfl⟩
  · obtain ⟨a, b, c⟩ := hf G' h u hu
    exact ⟨a, b, by rw [hs]; exact c⟩
  · rcases hinc G hG hg u hu with h | ⟨a, b, c⟩
    · obtain ⟨a, b, c⟩ := hf G hG u h
      exact ⟨by rw [hid]; exact a, b, by rw [hs]; exact c⟩
    · exact ⟨by rw [hid, hg]; exact a, b, by rw [hs]; exact c⟩

theorem once_of_ids {gs gs' : List Group} (hid : gs'.map (·.id) = gs.map (·.id)) (h : Once gs) : Once gs' := by
  intro d hd; rw [hid]; exact h d hd

theorem mems_updGroup (g : String) (f : Group → Group) (hid : ∀ G, (f G).id = G.id) (gs : List Group) (h : String) :
    mems (updGroup g f gs) h = if h = g then (match look gs g with | some G => (f G).members | none => []) else mems gs h := by
  unfold mems
  rw [look_updGroup g f hid]
  by_cases e : h = g
  · subst e; simp only [↓reduceIte]; cases look gs h <;> rfl
  · simp only [e, ↓reduceIte]

theorem incs_updGroup (g : String) (f : Group → Group) (hid : ∀ G, (f G).id = G.id) (gs : List Group) (h : String) :
    incs (updGroup g f gs) h = if h = g then (match look gs g with | some G => (f G).includes | none => []) else incs gs h := by
  unfold incs
  rw [look_updGroup g f hid]
  by_cases e : h = g
  · subst e; simp only [↓reduceIte]; cases look gs h <;> rfl
  · simp only [e, ↓reduceIte]

/-- `addMember` -/
theorem mems_addMember (s : State) (g : String) (i : Int) (h : String) :
    mems (addMember s g i).groups h = if h = g ∧ (look s.groups g).isSome then mems s.groups g ++ [i] else mems s.groups h := by
  unfold addMember
  simp only
  rw [mems_updGroup g (fun G => { G with members := G.members ++ [i] }) (fun _ => rfl)]
  by_cases e : h = g
  · subst e
    unfold mems
    cases look s.groups h <;> simp
  · simp [e]

theorem incs_addMember (s : State) (g : String) (i : Int) (h : String) :
    incs (addMember s g i).groups h = incs s.groups h := by
  unfold addMember
  simp only
  rw [incs_updGroup g (fun G => { G with members := G.members ++ [i] }) (fun _ => rfl)]
  by_cases e : h = g
  · subst e
    unfold incs
    cases look s.groups h <;> simp
  · simp [e]

theorem ids_addMember (s : State) (g : String) (i : Int) :
    (addMember s g i).groups.map (·.id) = s.groups.map (·.id) := by
  unfold addMember; exact map_id_updGroup g (fun G => { G with members := G.members ++ [i] }) (fun _ => rfl) _

theorem str_addMember {s : State} (h : Str s.groups) (g : String) (i : Int) : Str (addMember s g i).groups := by
  refine ⟨?_, once_of_ids (ids_addMember s g i) h.once⟩
  unfold addMember
  exact flatStr_of_updGroup h.flat g (fun G => { G with members := G.members ++ [i] }) (fun _ => rfl) (fun G _ _ u hu => Or.inl hu)

/-- `addInclude` -/
theorem mems_addInclude (s : State) (g u : String) (h : String) :
    mems (addInclude s g u).groups h = mems s.groups h := by
  unfold addInclude
  simp only
  rw [mems_updGroup g (fun G => { G with includes := G.includes ++ [u] }) (fun _ => rfl)]
  by_cases e : h = g
  · subst e
    unfold mems
    cases look s.groups h <;> simp
  · simp [e]

theorem incs_addInclude (s : State) (g u : String) (h : String) :
    incs (addInclude s g u).groups h = if h = g ∧ (look s.groups g).isSome then incs s.groups g ++ [u] else incs s.groups h := by
  unfold addInclude
  simp only
  rw [incs_updGroup g (fun G => { G with includes := G.includes ++ [u] }) (fun _ => rfl)]
  by_cases e : h = g
  · subst e
    unfold incs
    cases look s.groups h <;> simp
  · simp [e]

theorem ids_addInclude (s : State) (g u : String) :
    (addInclude s g u).groups.map (·.id) = s.groups.map (·.id) := by
  unfold addInclude; exact map_id_updGroup g (fun G => { G with includes := G.includes ++ [u] }) (fun _ => rfl) _

theorem str_addInclude {s : State} (h : Str s.groups) (g u : String) (hg : isDefaultName g = true)
    (hu : isDefaultName u = false) (hs : (look s.groups u).isSome) : Str (addInclude s g u).groups := by
  refine ⟨?_, once_of_ids (ids_addInclude s g u) h.once⟩
  unfold addInclude
  refine flatStr_of_updGroup h.flat g (fun G => { G with includes := G.includes ++ [u] }) (fun _ => rfl) ?_
  intro G _ _ v hv
  simp only [List.mem_append, List.mem_singleton] at hv
  rcases hv with hv | rfl
  · exact Or.inl hv
  · exact Or.inr ⟨hg, hu, hs⟩

/-- `ensureGroup` -/
theorem ensureGroup_cases (s : State) (g : String) (nlx : Option String) {b : Bool} :
    ensureGroup s g nlx b = s ∨
      ((g = "" ∨ look s.groups g = none) ∧
        ensureGroup s g nlx b = { s with groups := s.groups ++ [{ id := g, members := [], includes := [], nlx := nlx, idNone := b }] }) := by
  unfold ensureGroup
  cases e : findGroup s.groups g with
  | some G => exact Or.inl rfl
  | none =>
    simp only
    split
    · exact Or.inl rfl
    · refine Or.inr ⟨?_, rfl⟩
      unfold findGroup at e
      split at e
      · rename_i h; exact Or.inl h
      · exact Or.inr e

theorem look_snoc_new (gs : List Group) (g : String) (nlx : Option String) (h : String) {b : Bool} :
    look (gs ++ [{ id := g, members := [], includes := [], nlx := nlx, idNone := b }]) h =
      match look gs h with
      | some G => some G
      | none => if g = h then some { id := g, members := [], includes := [], nlx := nlx, idNone := b } else none := by
  rw [look_append]
  cases look gs h with
  | some G => rfl
  | none => simp [look_cons, look_nil]

theorem mems_ensureGroup (s : State) (g : String) (nlx : Option String) (h : String) {b : Bool} :
    mems (ensureGroup s g nlx b).groups h = mems s.groups h := by
  rcases ensureGroup_cases s g nlx with e | ⟨_, e⟩
  · rw [e]
  · rw [e]; simp only
    unfold mems
    rw [look_snoc_new]
    cases look s.groups h with
    | some G => rfl
    | none => simp only; by_cases e3 : g = h <;> simp [e3]

theorem incs_ensureGroup (s : State) (g : String) (nlx : Option String) (h : String) {b : Bool} :
    incs (ensureGroup s g nlx b).groups h = incs s.groups h := by
  rcases ensureGroup_cases s g nlx with e | ⟨_, e⟩
  · rw [e]
  · rw [e]; simp only
    unfold incs
    rw [look_snoc_new]
    cases look s.groups h with
    | some G => rfl
    | none => simp only; by_cases e3 : g = h <;> simp [e3]

theorem isSome_ensureGroup_mono (s : State) (g : String) (nlx : Option String) (h : String) {b : Bool}
    (hs : (look s.groups h).isSome) : (look (ensureGroup s g nlx b).groups h).isSome := by
  rcases ensureGroup_cases s g nlx with e | ⟨_, e⟩
  · rw [e]; exact hs
  · rw [e]; simp only
    rw [look_snoc_new]
    cases e2 : look s.groups h with
    | some G => rfl
    | none => rw [e2] at hs; cases hs

theorem isSome_ensureGroup_self (s : State) (g : String) (nlx : Option String) (hg : g ≠ "") {b : Bool} :
    (look (ensureGroup s g nlx b).groups g).isSome := by
  unfold ensureGroup findGroup
  simp only [hg, ↓reduceIte]
  cases e : look s.groups g with
  | some G => simp [e]
  | none =>
    simp only
    have hnot : ¬ ({ id := g, members := [], includes := [], nlx := nlx, idNone := b } : Group) ∈ s.groups :=
      fun hm => look_none_iff.mp e _ hm rfl
    simp only [hnot, ↓reduceIte]
    rw [look_snoc_new, e]
    simp

theorem segs_ensureGroup (s : State) (g : String) (nlx : Option String) {b : Bool} : (ensureGroup s g nlx b).segs = s.segs := by
  rcases ensureGroup_cases s g nlx with e | ⟨_, e⟩ <;> rw [e]

theorem str_ensureGroup {s : State} (h : Str s.groups) (g : String) (nlx : Option String) {b : Bool} :
    Str (ensureGroup s g nlx b).groups := by
  rcases ensureGroup_cases s g nlx with e | ⟨hn, e⟩
  · rw [e]; exact h
  · have hmono := fun h hs => isSome_ensureGroup_mono s g nlx h (b := b) hs
    rw [e] at hmono ⊢
    simp only at hmono ⊢
    constructor
    · intro G hG u hu
      rcases List.mem_append.mp hG with hG | hG
      · obtain ⟨a, b, c⟩ := h.flat G hG u hu
        exact ⟨a, b, hmono u c⟩
      · simp only [List.mem_singleton] at hG
        subst hG
        simp at hu
    · intro d hd
      rw [List.map_append, List.count_append]
      simp only [List.map_cons, List.map_nil, List.count_cons, List.count_nil]
      by_cases e2 : g = d
      · subst e2
        rcases hn with hn | hn
        · subst hn; simp [isDefaultName] at hd
        · rw [look_none_count hn]; simp
      · have : (g == d) = false := by simpa using e2
        simp only [this, Bool.false_eq_true, ↓reduceIte]
        exact h.once d hd

/-! ### `reorder_segment_groups` -/

theorem moveToEnd_none {gs : List Group} {d : String} (e : look gs d = none) : moveToEnd gs d = gs := by
  unfold moveToEnd; rw [e]

theorem moveToEnd_some {gs : List Group} {d : String} {G : Group} (e : look gs d = some G) :
    ∃ A C, gs = A ++ G :: C ∧ (∀ X ∈ A, X.id ≠ d) ∧ moveToEnd gs d = A ++ C ++ [G] := by
  unfold moveToEnd
  rw [e]
  simp only
  obtain ⟨hp, A, C, hgs, hA⟩ := List.find?_eq_some_iff_append.mp e
  refine ⟨A, C, hgs, ?_, ?_⟩
  · intro X hX hid
    have := hA X hX
    simp [hid] at this
  · have h1 : ∀ b ∈ A, ¬ (fun G : Group => G.id == d) b = true := by
      intro b hb
      have := hA b hb
      simpa using this
    rw [hgs, List.eraseP_append_right _ h1, List.eraseP_cons_of_pos (p := fun G : Group => G.id == d) hp]

theorem moveToEnd_perm (gs : List Group) (d : String) : (moveToEnd gs d).Perm gs := by
  cases e : look gs d with
  | none => rw [moveToEnd_none e]
  | some G =>
    obtain ⟨A, C, hgs, _, hm⟩ := moveToEnd_some e
    rw [hm, hgs]
    have h1 : (A ++ C ++ [G]).Perm (G :: (A ++ C)) := List.perm_append_comm
    exact h1.trans List.perm_middle.symm

theorem once_perm {gs gs' : List Group} (hp : gs'.Perm gs) (h : Once gs) : Once gs' := by
  intro d hd
  rw [(hp.map (·.id)).count_eq]
  exact h d hd

theorem look_isSome_perm {gs gs' : List Group} (hp : gs'.Perm gs) (h : String) :
    (look gs' h).isSome = (look gs h).isSome := by
  rw [Bool.eq_iff_iff, look_isSome_iff, look_isSome_iff]
  constructor
  · rintro ⟨G, hG, e⟩; exact ⟨G, hp.mem_iff.mp hG, e⟩
  · rintro ⟨G, hG, e⟩; exact ⟨G, hp.mem_iff.mpr hG, e⟩

theorem flatStr_perm {gs gs' : List Group} (hp : gs'.Perm gs) (h : FlatStr gs) : FlatStr gs' := by
  intro G hG u hu
  obtain ⟨a, b, c⟩ := h G (hp.mem_iff.mp hG) u hu
  exact ⟨a, b, by rw [look_isSome_perm hp]; exact c⟩

theorem str_perm {gs gs' : List Group} (hp : gs'.Perm gs) (h : Str gs) : Str gs' :=
  ⟨flatStr_perm hp h.flat, once_perm hp h.once⟩

/-- with at most one group called `d`, moving it to the end does not change what any id refers to -/
theorem look_moveToEnd {gs : List Group} {d : String} (h1 : (gs.map (·.id)).count d ≤ 1) (h : String) :
    look (moveToEnd gs d) h = look gs h := by
  cases e : look gs d with
  | none => rw [moveToEnd_none e]
  | some G =>
    obtain ⟨A, C, hgs, hA, hm⟩ := moveToEnd_some e
    have hGid : G.id = d := look_some_id e
    have hC : ∀ X ∈ C, X.id ≠ d := by
      intro X hX hid
      rw [hgs] at h1
      simp only [List.map_append, List.map_cons, List.count_append, List.count_cons, hGid, beq_self_eq_true,
        ↓reduceIte] at h1
      have : 1 ≤ (C.map (·.id)).count d := List.one_le_count_iff.mpr (List.mem_map.mpr ⟨X, hX, hid⟩)
      omega
    rw [hm, hgs]
    simp only [look_append, look_cons, look_nil]
    by_cases e2 : d = h
    · subst e2
      rw [look_none_iff.mpr hA, look_none_iff.mpr hC]
      simp [hGid]
    · have : ¬ G.id = h := by rw [hGid]; exact e2
      simp only [this, ↓reduceIte]
      cases look A h <;> cases look C h <;> simp

theorem look_foldl_moveToEnd (ds : List String) (hds : ∀ d ∈ ds, isDefaultName d = true) :
    ∀ (gs : List Group), Once gs → ∀ h, look (ds.foldl moveToEnd gs) h = look gs h := by
  induction ds with
  | nil => intro gs _ h; rfl
  | cons d ds ih =>
    intro gs ho h
    simp only [List.foldl_cons]
    rw [ih (fun x hx => hds x (by simp [hx])) _ (once_perm (moveToEnd_perm gs d) ho)]
    exact look_moveToEnd (ho d (hds d (by simp))) h

theorem foldl_moveToEnd_perm (ds : List String) : ∀ (gs : List Group), (ds.foldl moveToEnd gs).Perm gs := by
  induction ds with
  | nil => intro gs; exact List.Perm.refl _
  | cons d ds ih => intro gs; simp only [List.foldl_cons]; exact (ih _).trans (moveToEnd_perm gs d)

theorem defaultOrder_default : ∀ d ∈ defaultOrder, isDefaultName d = true := by
  intro d hd
  simp only [defaultOrder, List.mem_cons, List.not_mem_nil, or_false] at hd
  rcases hd with rfl | rfl | rfl | rfl <;> rfl

theorem look_reorder {s : State} (ho : Once s.groups) (h : String) : look (reorder s).groups h = look s.groups h := by
  unfold reorder reorderGroups
  exact look_foldl_moveToEnd _ defaultOrder_default _ ho h

theorem reorder_perm (s : State) : (reorder s).groups.Perm s.groups := by
  unfold reorder reorderGroups
  exact foldl_moveToEnd_perm _ _

theorem mems_reorder {s : State} (ho : Once s.groups) (h : String) : mems (reorder s).groups h = mems s.groups h := by
  unfold mems; rw [look_reorder ho]

theorem incs_reorder {s : State} (ho : Once s.groups) (h : String) : incs (reorder s).groups h = incs s.groups h := by
  unfold incs; rw [look_reorder ho]

theorem str_reorder {s : State} (h : Str s.groups) : Str (reorder s).groups := str_perm (reorder_perm s) h

/-- after the moves: a front part without the processed names, a back part with only them -/
theorem foldl_moveToEnd_split (ds : List String) :
    ∀ (D : List String) (A B : List Group), (∀ d ∈ ds, ((A ++ B).map (·.id)).count d ≤ 1) →
      (∀ X ∈ A, X.id ∉ D) → (∀ X ∈ B, X.id ∈ D) →
      ∃ A' B', ds.foldl moveToEnd (A ++ B) = A' ++ B' ∧ (∀ X ∈ A', X.id ∉ D ++ ds) ∧ (∀ X ∈ B', X.id ∈ D ++ ds) := by
  induction ds with
  | nil => intro D A B _ hA hB; exact ⟨A, B, rfl, by simpa using hA, by simpa using hB⟩
  | cons d ds ih =>
    intro D A B hc hA hB
    simp only [List.foldl_cons]
    have hcd := hc d (by simp)
    have key : ∃ A1 B1, moveToEnd (A ++ B) d = A1 ++ B1 ∧ (∀ X ∈ A1, X.id ∉ D ++ [d]) ∧ (∀ X ∈ B1, X.id ∈ D ++ [d]) := by
      cases eA : look A d with
      | some G =>
        have e : look (A ++ B) d = some G := by rw [look_append, eA]; rfl
        obtain ⟨A0, C0, hA0, hno, _⟩ := moveToEnd_some eA
        have hGid : G.id = d := look_some_id eA
        have hm : moveToEnd (A ++ B) d = (A0 ++ C0) ++ (B ++ [G]) := by
          unfold moveToEnd
          rw [e]
          simp only
          have hGA : G ∈ A := look_some_mem eA
          rw [List.eraseP_append_left (p := fun G : Group => G.id == d) (a := G) (by simp [hGid]) B hGA]
          have h1 : ∀ b ∈ A0, ¬ (fun G : Group => G.id == d) b = true := by
            intro b hb; simpa using hno b hb
          rw [hA0, List.eraseP_append_right _ h1, List.eraseP_cons_of_pos (p := fun G : Group => G.id == d) (by simp [hGid])]
          simp
        refine ⟨A0 ++ C0, B ++ [G], hm, ?_, ?_⟩
        · intro X hX
          have hXA : X ∈ A := by
            rw [hA0]
            rcases List.mem_append.mp hX with h | h
            · exact List.mem_append.mpr (Or.inl h)
            · exact List.mem_append.mpr (Or.inr (List.mem_cons_of_mem _ h))
          simp only [List.mem_append, List.mem_singleton, not_or]
          refine ⟨hA X hXA, ?_⟩
          intro hid
          rcases List.mem_append.mp hX with h | h
          · exact hno X h hid
          · rw [hA0] at hcd
            simp only [List.map_append, List.map_cons, List.count_append, List.count_cons, hGid, beq_self_eq_true,
              ↓reduceIte] at hcd
            have : 1 ≤ (C0.map (·.id)).count d := List.one_le_count_iff.mpr (List.mem_map.mpr ⟨X, h, hid⟩)
            omega
        · intro X hX
          rcases List.mem_append.mp hX with h | h
          · exact List.mem_append.mpr (Or.inl (hB X h))
          · simp only [List.mem_singleton] at h
            subst h
            simp [hGid]
      | none =>
        have hAd : ∀ X ∈ A, X.id ∉ D ++ [d] := by
          intro X hX
          simp only [List.mem_append, List.mem_singleton, not_or]
          exact ⟨hA X hX, look_none_iff.mp eA X hX⟩
        cases eB : look B d with
        | none =>
          have e : look (A ++ B) d = none := by rw [look_append, eA, eB]; rfl
          rw [moveToEnd_none e]
          exact ⟨A, B, rfl, hAd, fun X hX => List.mem_append.mpr (Or.inl (hB X hX))⟩
        | some G =>
          have e : look (A ++ B) d = some G := by rw [look_append, eA, eB]; rfl
          have hGid : G.id = d := look_some_id eB
          refine ⟨A, B.eraseP (fun G => G.id == d) ++ [G], ?_, hAd, ?_⟩
          · unfold moveToEnd
            rw [e]
            simp only
            have h1 : ∀ b ∈ A, ¬ (fun G : Group => G.id == d) b = true := by
              intro b hb; simpa using look_none_iff.mp eA b hb
            rw [List.eraseP_append_right _ h1, List.append_assoc]
          · intro X hX
            rcases List.mem_append.mp hX with h | h
            · exact List.mem_append.mpr (Or.inl (hB X (List.mem_of_mem_eraseP h)))
            · simp only [List.mem_singleton] at h
              subst h
              simp [hGid]
    obtain ⟨A1, B1, hm, hA1, hB1⟩ := key
    rw [hm]
    have hc' : ∀ d' ∈ ds, ((A1 ++ B1).map (·.id)).count d' ≤ 1 := by
      intro d' hd'
      rw [← hm, ((moveToEnd_perm (A ++ B) d).map (·.id)).count_eq]
      exact hc d' (by simp [hd'])
    obtain ⟨A', B', h1, h2, h3⟩ := ih (D ++ [d]) A1 B1 hc' hA1 hB1
    refine ⟨A', B', h1, ?_, ?_⟩
    · intro X hX; simpa using h2 X hX
    · intro X hX; simpa using h3 X hX

/-- every group is defined (strictly earlier in the list) before a group that includes it -/
def DefinedBeforeUse (gs : List Group) : Prop :=
  ∀ pre G post, gs = pre ++ G :: post → ∀ u ∈ G.includes, u ∈ pre.map (·.id)

theorem mem_defaultOrder_iff (g : String) : g ∈ defaultOrder ↔ isDefaultName g = true := by
  simp [defaultOrder, isDefaultName]
  constructor
  · rintro (h | h | h | h) <;> simp [h]
  · rintro (((h | h) | h) | h) <;> simp [h]

theorem definedBeforeUse_reorder {s : State} (h : Str s.groups) : DefinedBeforeUse (reorder s).groups := by
  obtain ⟨A, B, hsplit, hA, hB⟩ := foldl_moveToEnd_split defaultOrder [] s.groups []
    (by intro d hd; simpa using h.once d (defaultOrder_default d hd)) (by simp) (by simp)
  have hgs : (reorder s).groups = A ++ B := by
    unfold reorder reorderGroups
    simpa using hsplit
  have hstr := str_reorder h
  rw [hgs] at hstr
  intro pre G post hsp u hu
  rw [hgs] at hsp
  have hG : G ∈ A ++ B := by rw [hsp]; simp
  obtain ⟨hGd, hud, hus⟩ := hstr.flat G hG u hu
  obtain ⟨U, hU, hUid⟩ := look_isSome_iff.mp hus
  -- `U` is a non-default group, hence in the front part; `G` is default, hence in the back part
  have hUA : U ∈ A := by
    rcases List.mem_append.mp hU with h1 | h1
    · exact h1
    · have := hB U h1
      simp only [List.nil_append] at this
      rw [mem_defaultOrder_iff, hUid, hud] at this
      cases this
  have hGA : ∀ X ∈ A, isDefaultName X.id = false := by
    intro X hX
    have := hA X hX
    simp only [List.nil_append] at this
    rw [mem_defaultOrder_iff] at this
    simpa using this
  -- `pre` contains all of `A`: `G` is not in `A`
  have hpre : ∃ B1, pre = A ++ B1 := by
    rcases List.append_eq_append_iff.mp hsp with ⟨a', h1, h2⟩ | ⟨c', h1, h2⟩
    · exact ⟨a', h1⟩
    · -- A = pre ++ c', c' ++ B = G :: post
      cases c' with
      | nil => exact ⟨[], by simpa using h1.symm⟩
      | cons X c'' =>
        simp only [List.cons_append, List.cons.injEq] at h2
        have hX : G ∈ A := by rw [h1]; simp [h2.1]
        rw [hGA G hX] at hGd
        cases hGd
  obtain ⟨B1, hB1⟩ := hpre
  rw [hB1]
  simp only [List.map_append, List.mem_append]
  exact Or.inl (List.mem_map.mpr ⟨U, hUA, hUid⟩)

/-! ### the invariant -/

structure Inv (s : State) : Prop where
  str : Str s.groups
  idsNodup : s.ids.Nodup
  parents : ∀ seg ∈ s.segs, ∀ p, seg.parent = some p → p ∈ s.ids
  ugrp : ∀ seg ∈ s.segs, ∀ u, seg.ugroup = some u → isDefaultName u = false ∨ ∃ t, seg.stype = some t ∧ u = t.group
  user : ∀ u, isDefaultName u = false → ∀ i, i ∈ mems s.groups u ↔ ∃ seg ∈ s.segs, seg.id = i ∧ seg.ugroup = some u
  typed : ∀ t i, FlatMem s.groups (SegType.group t) i ↔ ∃ seg ∈ s.segs, seg.id = i ∧ seg.stype = some t
  all : ∀ i, FlatMem s.groups "all" i ↔ i ∈ s.ids
  incT : ∀ t, ∀ u ∈ incs s.groups (SegType.group t), ∃ seg ∈ s.segs, seg.ugroup = some u ∧ seg.stype = some t

theorem flatMem_congr {gs gs' : List Group} (hm : ∀ g, mems gs' g = mems gs g) (hi : ∀ g, incs gs' g = incs gs g)
    (g : String) (i : Int) : FlatMem gs' g i ↔ FlatMem gs g i := by
  unfold FlatMem
  rw [hm, hi]
  constructor
  · rintro (h | ⟨u, hu, h⟩)
    · exact Or.inl h
    · exact Or.inr ⟨u, hu, by rw [← hm]; exact h⟩
  · rintro (h | ⟨u, hu, h⟩)
    · exact Or.inl h
    · exact Or.inr ⟨u, hu, by rw [hm]; exact h⟩

/-- a change of the group list that keeps what every id refers to (members, includes) keeps the invariant -/
theorem inv_of_same {s s' : State} (h : Inv s) (hsegs : s'.segs = s.segs) (hstr : Str s'.groups)
    (hm : ∀ g, mems s'.groups g = mems s.groups g) (hi : ∀ g, incs s'.groups g = incs s.groups g) : Inv s' := by
  have hids : s'.ids = s.ids := by unfold State.ids; rw [hsegs]
  refine ⟨hstr, by rw [hids]; exact h.idsNodup, ?_, ?_, ?_, ?_, ?_, ?_⟩
  · rw [hsegs, hids]; exact h.parents
  · rw [hsegs]; exact h.ugrp
  · intro u hu i; rw [hm, hsegs]; exact h.user u hu i
  · intro t i; rw [flatMem_congr hm hi, hsegs]; exact h.typed t i
  · intro i; rw [flatMem_congr hm hi, hids]; exact h.all i
  · intro t u hu; rw [hi] at hu; rw [hsegs]; exact h.incT t u hu

theorem inv_ensureGroup {s : State} (h : Inv s) (g : String) (nlx : Option String) {b : Bool} : Inv (ensureGroup s g nlx b) :=
  inv_of_same h (segs_ensureGroup s g nlx) (str_ensureGroup h.str g nlx) (fun h => mems_ensureGroup s g nlx h) (fun h => incs_ensureGroup s g nlx h)

theorem inv_reorder {s : State} (h : Inv s) : Inv (reorder s) :=
  inv_of_same h rfl (str_reorder h.str) (mems_reorder h.str.once) (incs_reorder h.str.once)

/-! ### what the proofs need of `optimise_segment_groups` -/

/-- position by position: same id, same set of includes -/
inductive Aligned : List Group → List Group → Prop where
  | nil : Aligned [] []
  | cons {G' G : Group} {gs' gs : List Group} : G'.id = G.id → (∀ u, u ∈ G'.includes ↔ u ∈ G.includes) →
      Aligned gs' gs → Aligned (G' :: gs') (G :: gs)

theorem Aligned.refl : ∀ gs, Aligned gs gs
  | [] => .nil
  | _ :: gs => .cons rfl (fun _ => Iff.rfl) (Aligned.refl gs)

theorem Aligned.trans {a b c : List Group} (h1 : Aligned a b) (h2 : Aligned b c) : Aligned a c := by
  induction h1 generalizing c with
  | nil => cases h2; exact .nil
  | cons e1 i1 _ ih =>
    cases h2 with
    | cons e2 i2 t2 => exact .cons (e1.trans e2) (fun u => (i1 u).trans (i2 u)) (ih t2)

theorem Aligned.ids {gs' gs : List Group} (h : Aligned gs' gs) : gs'.map (·.id) = gs.map (·.id) := by
  induction h with
  | nil => rfl
  | cons e _ _ ih => simp [e, ih]

theorem Aligned.look {gs' gs : List Group} (h : Aligned gs' gs) (g : String) :
    (look gs' g = none ∧ look gs g = none) ∨
    ∃ G' G, look gs' g = some G' ∧ look gs g = some G ∧ ∀ u, u ∈ G'.includes ↔ u ∈ G.includes := by
  induction h with
  | nil => exact Or.inl ⟨rfl, rfl⟩
  | @cons G' G gs' gs e i _ ih =>
    rw [look_cons, look_cons, e]
    by_cases e2 : G.id = g
    · simp only [e2, ↓reduceIte]
      exact Or.inr ⟨G', G, rfl, rfl, i⟩
    · simp only [e2, ↓reduceIte]
      exact ih

theorem Aligned.mem {gs' gs : List Group} (h : Aligned gs' gs) {G' : Group} (hG : G' ∈ gs') :
    ∃ G ∈ gs, G'.id = G.id ∧ ∀ u, u ∈ G'.includes ↔ u ∈ G.includes := by
  induction h with
  | nil => cases hG
  | @cons X' X gs' gs e i _ ih =>
    rcases List.mem_cons.mp hG with rfl | h2
    · exact ⟨X, List.mem_cons_self, e, i⟩
    · obtain ⟨Y, hY, a, b⟩ := ih h2
      exact ⟨Y, List.mem_cons_of_mem _ hY, a, b⟩

def DefinedFrom (seen : List String) (gs : List Group) : Prop :=
  ∀ pre G post, gs = pre ++ G :: post → ∀ u ∈ G.includes, u ∈ seen ∨ u ∈ pre.map (·.id)

theorem Aligned.definedFrom {gs' gs : List Group} (h : Aligned gs' gs) :
    ∀ seen, DefinedFrom seen gs → DefinedFrom seen gs' := by
  induction h with
  | nil => intro seen _ pre G post hsp; cases pre <;> cases hsp
  | @cons X' X gs' gs e i t ih =>
    intro seen hd pre G post hsp u hu
    cases pre with
    | nil =>
      simp only [List.nil_append, List.cons.injEq] at hsp
      obtain ⟨rfl, rfl⟩ := hsp
      exact hd [] X gs rfl u ((i u).mp hu)
    | cons Y pre' =>
      simp only [List.cons_append, List.cons.injEq] at hsp
      obtain ⟨rfl, hsp⟩ := hsp
      have hd' : DefinedFrom (seen ++ [X.id]) gs := by
        intro pre2 G2 post2 h2 v hv
        have := hd (X :: pre2) G2 post2 (by rw [h2]; rfl) v hv
        simp only [List.map_cons, List.mem_cons] at this
        simp only [List.mem_append, List.mem_singleton]
        rcases this with h1 | h1 | h1
        · exact Or.inl (Or.inl h1)
        · exact Or.inl (Or.inr h1)
        · exact Or.inr h1
      have := ih (seen ++ [X.id]) hd' pre' G post hsp u hu
      simp only [List.mem_append, List.mem_singleton] at this
      simp only [List.map_cons, List.mem_cons, e]
      rcases this with (h1 | h1) | h1
      · exact Or.inl h1
      · exact Or.inr (Or.inl h1)
      · exact Or.inr (Or.inr h1)

theorem Aligned.definedBeforeUse {gs' gs : List Group} (h : Aligned gs' gs) (hd : DefinedBeforeUse gs) :
    DefinedBeforeUse gs' := by
  have h1 : DefinedFrom [] gs := fun pre G post hsp u hu => Or.inr (hd pre G post hsp u hu)
  intro pre G post hsp u hu
  rcases h.definedFrom [] h1 pre G post hsp u hu with h2 | h2
  · cases h2
  · exact h2

/-- What the invariant proof needs to know about `optimise_segment_groups()` when it returns normally: segments and
    properties untouched, the groups keep their positions, ids and include sets, and every group resolves to the same
    set of segments as before (the last is property C14's theorem).  Required on flat cells only. -/
structure OptSpec (opt : State → Except Err State) : Prop where
  segs : ∀ s s', opt s = .ok s' → s'.segs = s.segs
  memb : ∀ s s', opt s = .ok s' → s'.memb = s.memb
  intra : ∀ s s', opt s = .ok s' → s'.intra = s.intra
  aligned : ∀ s s', opt s = .ok s' → Aligned s'.groups s.groups
  res : ∀ s s', Str s.groups → opt s = .ok s' → ∀ g l, resolve s g = .ok l →
    ∃ l', resolve s' g = .ok l' ∧ ∀ i, i ∈ l' ↔ i ∈ l

theorem str_aligned {gs' gs : List Group} (ha : Aligned gs' gs) (h : Str gs) : Str gs' := by
  refine ⟨?_, once_of_ids ha.ids h.once⟩
  intro G' hG' u hu
  obtain ⟨G, hG, e, i⟩ := ha.mem hG'
  obtain ⟨a, b, c⟩ := h.flat G hG u ((i u).mp hu)
  exact ⟨by rw [e]; exact a, b, by rw [look_isSome_of_ids ha.ids]; exact c⟩

theorem flatMem_none {gs : List Group} {g : String} (e : look gs g = none) (i : Int) : ¬ FlatMem gs g i := by
  unfold FlatMem mems incs
  rw [e]
  simp

theorem flatMem_opt {opt : State → Except Err State} (ho : OptSpec opt) {s s' : State} (hs : Str s.groups)
    (e : opt s = .ok s') (g : String) (i : Int) : FlatMem s'.groups g i ↔ FlatMem s.groups g i := by
  have ha := ho.aligned s s' e
  have hs' := str_aligned ha hs
  rcases ha.look g with ⟨e1, e2⟩ | ⟨G', G, e1, e2, _⟩
  · exact ⟨fun h => absurd h (flatMem_none e1 i), fun h => absurd h (flatMem_none e2 i)⟩
  · obtain ⟨l, hl, hm⟩ := resolve_flat s.ids hs.flat e2
    obtain ⟨l', hl', hm'⟩ := resolve_flat s'.ids hs'.flat e1
    obtain ⟨l'', hl'', hm''⟩ := ho.res s s' hs e g l hl
    unfold resolve at hl''
    rw [hl'] at hl''
    cases hl''
    rw [← hm', ← hm, hm'']

theorem inv_opt {opt : State → Except Err State} (ho : OptSpec opt) {s s' : State} (h : Inv s) (e : opt s = .ok s') :
    Inv s' := by
  have ha := ho.aligned s s' e
  have hs' := str_aligned ha h.str
  have hsegs := ho.segs s s' e
  have hids : s'.ids = s.ids := by unfold State.ids; rw [hsegs]
  have hfm := flatMem_opt ho h.str e
  refine ⟨hs', by rw [hids]; exact h.idsNodup, ?_, ?_, ?_, ?_, ?_, ?_⟩
  · rw [hsegs, hids]; exact h.parents
  · rw [hsegs]; exact h.ugrp
  · intro u hu i
    rw [← flatMem_nondefault hs'.flat hu, hfm, flatMem_nondefault h.str.flat hu, hsegs]
    exact h.user u hu i
  · intro t i; rw [hfm, hsegs]; exact h.typed t i
  · intro i; rw [hfm, hids]; exact h.all i
  · intro t u hu
    rw [hsegs]
    apply h.incT t u
    unfold incs at hu ⊢
    rcases ha.look (SegType.group t) with ⟨e1, _⟩ | ⟨G', G, e1, e2, hi⟩
    · rw [e1] at hu; cases hu
    · rw [e1] at hu; rw [e2]; exact (hi u).mp hu

/-! ### `add_segment` -/

theorem isDefaultName_group (t : SegType) : isDefaultName t.group = true := by cases t <;> rfl
theorem isDefaultName_all : isDefaultName "all" = true := rfl
theorem group_ne_all (t : SegType) : t.group ≠ "all" := by cases t <;> decide
theorem group_inj {t t' : SegType} (h : t.group = t'.group) : t = t' := by
  cases t <;> cases t' <;> first | rfl | (exact absurd h (by decide))

theorem ne_of_default {a b : String} (ha : isDefaultName a = true) (hb : isDefaultName b = false) : a ≠ b := by
  intro e; rw [e, hb] at ha; cases ha

theorem exists_mem_snoc {α} (l : List α) (a : α) (P : α → Prop) : (∃ x ∈ l ++ [a], P x) ↔ (∃ x ∈ l, P x) ∨ P a := by
  constructor
  · rintro ⟨x, hx, hp⟩
    rcases List.mem_append.mp hx with h | h
    · exact Or.inl ⟨x, h, hp⟩
    · simp only [List.mem_singleton] at h; subst h; exact Or.inr hp
  · rintro (⟨x, hx, hp⟩ | hp)
    · exact ⟨x, List.mem_append.mpr (Or.inl hx), hp⟩
    · exact ⟨a, by simp, hp⟩

theorem isSome_addMember (s : State) (g : String) (i : Int) (h : String) :
    (look (addMember s g i).groups h).isSome = (look s.groups h).isSome := look_isSome_of_ids (ids_addMember s g i) h

theorem isSome_addInclude (s : State) (g u : String) (h : String) :
    (look (addInclude s g u).groups h).isSome = (look s.groups h).isSome := look_isSome_of_ids (ids_addInclude s g u) h

theorem isSome_reorder (s : State) (h : String) : (look (reorder s).groups h).isSome = (look s.groups h).isSome :=
  look_isSome_perm (reorder_perm s) h

theorem setupDefault_two (s : State) (t : SegType) :
    setupDefault s true ["all", t.group] =
      reorder (ensureGroup (ensureGroup s "all" (defaultNlx "all")) t.group (defaultNlx t.group)) := by
  unfold setupDefault
  simp only [↓reduceIte, setupLoop, isDefaultName_all, isDefaultName_group]

/-- the state after the group handling of `add_segment(…, group_id=gid)`, `gid` a fresh (non-default) name -/
theorem convStep_user {s : State} (h : Str s.groups) (gid : String) (id : Int) (t : SegType) (ro : Bool)
    (hg : isDefaultName gid = false) (hne : gid ≠ "") :
    let s4 := convStep (userStep s gid id) gid id t ro
    s4.segs = s.segs ∧ s4.memb = s.memb ∧ s4.intra = s.intra ∧ Str s4.groups ∧
    (∀ k, mems s4.groups k = if k = gid then mems s.groups gid ++ [id] else mems s.groups k) ∧
    (∀ k, incs s4.groups k = if k = "all" then incs s.groups "all" ++ [gid]
      else if k = t.group then incs s.groups t.group ++ [gid] else incs s.groups k) := by
  intro s4
  let sa := ensureGroup s gid none
  let sb := addMember sa gid id
  let sc := ensureGroup sb "all" (defaultNlx "all")
  let sd := ensureGroup sc t.group (defaultNlx t.group)
  let s2 := reorder sd
  let se := addInclude s2 t.group gid
  let s3 := addInclude se "all" gid
  have hgt : gid ≠ t.group := (ne_of_default (isDefaultName_group t) hg).symm
  have e1 : userStep s gid id = sb := by unfold userStep; simp only [hne, ne_eq, not_false_eq_true, ↓reduceIte]; rfl
  have e4 : s4 = if ro then reorder s3 else s3 := by
    show convStep (userStep s gid id) gid id t ro = _
    rw [e1]
    unfold convStep
    simp only [setupDefault_two, hne, hgt, ne_eq, not_false_eq_true, and_self, ↓reduceIte]
    rfl
  have ha : Str sa.groups := str_ensureGroup h gid none
  have hb : Str sb.groups := str_addMember ha gid id
  have hc : Str sc.groups := str_ensureGroup hb _ _
  have hd : Str sd.groups := str_ensureGroup hc _ _
  have h2 : Str s2.groups := str_reorder hd
  have sgid_a : (look sa.groups gid).isSome := isSome_ensureGroup_self s gid none hne
  have sgid_b : (look sb.groups gid).isSome := by rw [isSome_addMember]; exact sgid_a
  have sgid_c : (look sc.groups gid).isSome := isSome_ensureGroup_mono _ _ _ _ sgid_b
  have sgid_d : (look sd.groups gid).isSome := isSome_ensureGroup_mono _ _ _ _ sgid_c
  have sgid_2 : (look s2.groups gid).isSome := by rw [isSome_reorder]; exact sgid_d
  have sgid_e : (look se.groups gid).isSome := by rw [isSome_addInclude]; exact sgid_2
  have sall_c : (look sc.groups "all").isSome := isSome_ensureGroup_self sb "all" _ (by decide)
  have sall_d : (look sd.groups "all").isSome := isSome_ensureGroup_mono _ _ _ _ sall_c
  have sall_2 : (look s2.groups "all").isSome := by rw [isSome_reorder]; exact sall_d
  have sall_e : (look se.groups "all").isSome := by rw [isSome_addInclude]; exact sall_2
  have st_d : (look sd.groups t.group).isSome := isSome_ensureGroup_self sc t.group _ (by cases t <;> decide)
  have st_2 : (look s2.groups t.group).isSome := by rw [isSome_reorder]; exact st_d
  have he : Str se.groups := str_addInclude h2 t.group gid (isDefaultName_group t) hg sgid_2
  have h3 : Str s3.groups := str_addInclude he "all" gid isDefaultName_all hg sgid_e
  have hsegs3 : s3.segs = s.segs := by
    show sd.segs = s.segs
    rw [segs_ensureGroup, segs_ensureGroup]
    show sa.segs = s.segs
    exact segs_ensureGroup s gid none
  have hmemb3 : s3.memb = s.memb ∧ s3.intra = s.intra := by
    have e0 : ∀ (x : State) g n, (ensureGroup x g n).memb = x.memb ∧ (ensureGroup x g n).intra = x.intra := by
      intro x g n; rcases ensureGroup_cases x g n with e | ⟨_, e⟩ <;> rw [e] <;> exact ⟨rfl, rfl⟩
    have a1 := e0 s gid none
    have a2 := e0 sb "all" (defaultNlx "all")
    have a3 := e0 sc t.group (defaultNlx t.group)
    constructor
    · show sd.memb = s.memb
      rw [a3.1, a2.1]; exact a1.1
    · show sd.intra = s.intra
      rw [a3.2, a2.2]; exact a1.2
  have hm3 : ∀ k, mems s3.groups k = if k = gid then mems s.groups gid ++ [id] else mems s.groups k := by
    intro k
    rw [mems_addInclude, mems_addInclude, mems_reorder hd.once, mems_ensureGroup, mems_ensureGroup, mems_addMember,
      mems_ensureGroup, mems_ensureGroup]
    simp only [sgid_a, and_true]
  have hi3 : ∀ k, incs s3.groups k = if k = "all" then incs s.groups "all" ++ [gid]
      else if k = t.group then incs s.groups t.group ++ [gid] else incs s.groups k := by
    intro k
    have base : ∀ k, incs s2.groups k = incs s.groups k := by
      intro k
      rw [incs_reorder hd.once, incs_ensureGroup, incs_ensureGroup, incs_addMember, incs_ensureGroup]
    rw [incs_addInclude]
    simp only [sall_e, and_true]
    by_cases ek : k = "all"
    · subst ek
      simp only [↓reduceIte]
      rw [incs_addInclude]
      have : ¬ ("all" = t.group) := fun x => group_ne_all t x.symm
      simp only [this, false_and, ↓reduceIte, base]
    · simp only [ek, ↓reduceIte]
      rw [incs_addInclude]
      simp only [st_2, and_true, base]
  rw [e4]
  cases ro with
  | false => exact ⟨hsegs3, hmemb3.1, hmemb3.2, h3, hm3, hi3⟩
  | true =>
    simp only [↓reduceIte]
    refine ⟨hsegs3, hmemb3.1, hmemb3.2, str_reorder h3, ?_, ?_⟩
    · intro k; rw [mems_reorder h3.once]; exact hm3 k
    · intro k; rw [incs_reorder h3.once]; exact hi3 k

/-- the state after the group handling of `add_segment(…, group_id=None)` -/
theorem convStep_none {s : State} (h : Str s.groups) (id : Int) (t : SegType) (ro : Bool) :
    let s4 := convStep (userStep s "" id) "" id t ro
    s4.segs = s.segs ∧ s4.memb = s.memb ∧ s4.intra = s.intra ∧ Str s4.groups ∧
    (∀ k, mems s4.groups k = if k = "all" ∨ k = t.group then mems s.groups k ++ [id] else mems s.groups k) ∧
    (∀ k, incs s4.groups k = incs s.groups k) := by
  intro s4
  let sc := ensureGroup s "all" (defaultNlx "all")
  let sd := ensureGroup sc t.group (defaultNlx t.group)
  let s2 := reorder sd
  let se := addMember s2 t.group id
  let s3 := addMember se "all" id
  have e1 : userStep s "" id = s := by unfold userStep; simp
  have e4 : s4 = if ro then reorder s3 else s3 := by
    show convStep (userStep s "" id) "" id t ro = _
    rw [e1]
    unfold convStep
    simp only [setupDefault_two, ne_eq, not_true_eq_false, false_and, ↓reduceIte]
    rfl
  have hc : Str sc.groups := str_ensureGroup h _ _
  have hd : Str sd.groups := str_ensureGroup hc _ _
  have h2 : Str s2.groups := str_reorder hd
  have he : Str se.groups := str_addMember h2 _ _
  have h3 : Str s3.groups := str_addMember he _ _
  have sall_c : (look sc.groups "all").isSome := isSome_ensureGroup_self s "all" _ (by decide)
  have sall_d : (look sd.groups "all").isSome := isSome_ensureGroup_mono _ _ _ _ sall_c
  have sall_2 : (look s2.groups "all").isSome := by rw [isSome_reorder]; exact sall_d
  have sall_e : (look se.groups "all").isSome := by rw [isSome_addMember]; exact sall_2
  have st_d : (look sd.groups t.group).isSome := isSome_ensureGroup_self sc t.group _ (by cases t <;> decide)
  have st_2 : (look s2.groups t.group).isSome := by rw [isSome_reorder]; exact st_d
  have hsegs3 : s3.segs = s.segs := by
    show sd.segs = s.segs
    rw [segs_ensureGroup, segs_ensureGroup]
  have hmemb3 : s3.memb = s.memb ∧ s3.intra = s.intra := by
    have e0 : ∀ (x : State) g n, (ensureGroup x g n).memb = x.memb ∧ (ensureGroup x g n).intra = x.intra := by
      intro x g n; rcases ensureGroup_cases x g n with e | ⟨_, e⟩ <;> rw [e] <;> exact ⟨rfl, rfl⟩
    have a2 := e0 s "all" (defaultNlx "all")
    have a3 := e0 sc t.group (defaultNlx t.group)
    constructor
    · show sd.memb = s.memb
      rw [a3.1, a2.1]
    · show sd.intra = s.intra
      rw [a3.2, a2.2]
  have base : ∀ k, mems s2.groups k = mems s.groups k := by
    intro k; rw [mems_reorder hd.once, mems_ensureGroup, mems_ensureGroup]
  have hm3 : ∀ k, mems s3.groups k = if k = "all" ∨ k = t.group then mems s.groups k ++ [id] else mems s.groups k := by
    intro k
    rw [mems_addMember]
    simp only [sall_e, and_true]
    by_cases ek : k = "all"
    · subst ek
      simp only [true_or, ↓reduceIte]
      rw [mems_addMember]
      have : ¬ ("all" = t.group) := fun x => group_ne_all t x.symm
      simp only [this, false_and, ↓reduceIte, base]
    · simp only [ek, false_or, ↓reduceIte]
      rw [mems_addMember]
      simp only [st_2, and_true, base]
      by_cases ek2 : k = t.group
      · subst ek2; simp
      · simp [ek2]
  have hi3 : ∀ k, incs s3.groups k = incs s.groups k := by
    intro k
    rw [incs_addMember, incs_addMember, incs_reorder hd.once, incs_ensureGroup, incs_ensureGroup]
  rw [e4]
  cases ro with
  | false => exact ⟨hsegs3, hmemb3.1, hmemb3.2, h3, hm3, hi3⟩
  | true =>
    simp only [↓reduceIte]
    refine ⟨hsegs3, hmemb3.1, hmemb3.2, str_reorder h3, ?_, ?_⟩
    · intro k; rw [mems_reorder h3.once]; exact hm3 k
    · intro k; rw [incs_reorder h3.once]; exact hi3 k

/-- the state after the group handling of `add_segment(…, group_id=<the default group of the segment's own type>)`: the
    id is appended to that group by the `if group_id:` block and again, with 'all', by the convention block -/
theorem convStep_own {s : State} (h : Str s.groups) (id : Int) (t : SegType) (ro : Bool) :
    let s4 := convStep (userStep s t.group id) t.group id t ro
    s4.segs = s.segs ∧ s4.memb = s.memb ∧ s4.intra = s.intra ∧ Str s4.groups ∧
    (∀ k i, i ∈ mems s4.groups k ↔ i ∈ (if k = "all" ∨ k = t.group then mems s.groups k ++ [id] else mems s.groups k)) ∧
    (∀ k, incs s4.groups k = incs s.groups k) := by
  intro s4
  have htne : t.group ≠ "" := by cases t <;> decide
  let s0 := ensureGroup s t.group none
  let s1 := addMember s0 t.group id
  let sc := ensureGroup s1 "all" (defaultNlx "all")
  let sd := ensureGroup sc t.group (defaultNlx t.group)
  let s2 := reorder sd
  let se := addMember s2 t.group id
  let s3 := addMember se "all" id
  have e1 : userStep s t.group id = s1 := by unfold userStep; simp only [ne_eq, htne, not_false_eq_true, ↓reduceIte]; rfl
  have e4 : s4 = if ro then reorder s3 else s3 := by
    show convStep (userStep s t.group id) t.group id t ro = _
    rw [e1]
    unfold convStep
    simp only [setupDefault_two, ne_eq, not_true_eq_false, and_false, ↓reduceIte]
    rfl
  have h0 : Str s0.groups := str_ensureGroup h _ _
  have h1 : Str s1.groups := str_addMember h0 _ _
  have hc : Str sc.groups := str_ensureGroup h1 _ _
  have hd : Str sd.groups := str_ensureGroup hc _ _
  have h2 : Str s2.groups := str_reorder hd
  have he : Str se.groups := str_addMember h2 _ _
  have h3 : Str s3.groups := str_addMember he _ _
  have st_0 : (look s0.groups t.group).isSome := isSome_ensureGroup_self s t.group _ htne
  have sall_c : (look sc.groups "all").isSome := isSome_ensureGroup_self s1 "all" _ (by decide)
  have sall_d : (look sd.groups "all").isSome := isSome_ensureGroup_mono _ _ _ _ sall_c
  have sall_2 : (look s2.groups "all").isSome := by rw [isSome_reorder]; exact sall_d
  have sall_e : (look se.groups "all").isSome := by rw [isSome_addMember]; exact sall_2
  have st_d : (look sd.groups t.group).isSome := isSome_ensureGroup_self sc t.group _ htne
  have st_2 : (look s2.groups t.group).isSome := by rw [isSome_reorder]; exact st_d
  have e0 : ∀ (x : State) g n, (ensureGroup x g n).memb = x.memb ∧ (ensureGroup x g n).intra = x.intra := by
    intro x g n; rcases ensureGroup_cases x g n with e | ⟨_, e⟩ <;> rw [e] <;> exact ⟨rfl, rfl⟩
  have hsegs3 : s3.segs = s.segs := by
    show sd.segs = s.segs
    rw [segs_ensureGroup, segs_ensureGroup]
    show s0.segs = s.segs
    exact segs_ensureGroup _ _ _
  have hmemb3 : s3.memb = s.memb ∧ s3.intra = s.intra := by
    have a1 := e0 s t.group none
    have a2 := e0 s1 "all" (defaultNlx "all")
    have a3 := e0 sc t.group (defaultNlx t.group)
    constructor
    · show sd.memb = s.memb
      rw [a3.1, a2.1]; exact a1.1
    · show sd.intra = s.intra
      rw [a3.2, a2.2]; exact a1.2
  have m1 : ∀ k, mems s1.groups k = if k = t.group then mems s.groups k ++ [id] else mems s.groups k := by
    intro k
    rw [mems_addMember]
    have e00 : ∀ k', mems s0.groups k' = mems s.groups k' := fun k' => mems_ensureGroup s t.group none k'
    simp only [st_0, and_true, e00]
    by_cases ek : k = t.group
    · subst ek; simp
    · simp [ek]
  have base : ∀ k, mems s2.groups k = mems s1.groups k := by
    intro k; rw [mems_reorder hd.once, mems_ensureGroup, mems_ensureGroup]
  have hm3 : ∀ k i, i ∈ mems s3.groups k ↔ i ∈ (if k = "all" ∨ k = t.group then mems s.groups k ++ [id] else mems s.groups k) := by
    intro k i
    rw [mems_addMember]
    simp only [sall_e, and_true]
    by_cases ek : k = "all"
    · subst ek
      simp only [true_or, ↓reduceIte]
      rw [mems_addMember]
      have hne : ¬ ("all" = t.group) := fun x => group_ne_all t x.symm
      simp only [hne, false_and, ↓reduceIte, base, m1]
    · simp only [ek, false_or, ↓reduceIte]
      rw [mems_addMember]
      simp only [st_2, and_true, base, m1]
      by_cases ek2 : k = t.group
      · subst ek2; simp
      · simp [ek2]
  have hi3 : ∀ k, incs s3.groups k = incs s.groups k := by
    intro k
    rw [incs_addMember, incs_addMember, incs_reorder hd.once, incs_ensureGroup, incs_ensureGroup]
    show incs (addMember s0 t.group id).groups k = _
    rw [incs_addMember]
    exact incs_ensureGroup _ _ _ _
  rw [e4]
  cases ro with
  | false => exact ⟨hsegs3, hmemb3.1, hmemb3.2, h3, hm3, hi3⟩
  | true =>
    simp only [↓reduceIte]
    refine ⟨hsegs3, hmemb3.1, hmemb3.2, str_reorder h3, ?_, ?_⟩
    · intro k i; rw [mems_reorder h3.once]; exact hm3 k i
    · intro k; rw [incs_reorder h3.once]; exact hi3 k

theorem ids_snoc {s s5 : State} {seg : Seg} (hsegs : s5.segs = s.segs ++ [seg]) : s5.ids = s.ids ++ [seg.id] := by
  unfold State.ids; rw [hsegs]; simp

theorem nodup_snoc {l : List Int} {a : Int} (h : l.Nodup) (ha : a ∉ l) : (l ++ [a]).Nodup := by
  rw [List.nodup_append]
  refine ⟨h, by simp, ?_⟩
  intro x hx y hy
  simp only [List.mem_singleton] at hy
  subst hy
  intro e; subst e; exact ha hx

theorem mem_ids_iff {s : State} {i : Int} : i ∈ s.ids ↔ ∃ seg ∈ s.segs, seg.id = i := by
  unfold State.ids; rw [List.mem_map]

/-- new segment added through a (fresh-named, one-type) user group -/
theorem inv_caseA {s s5 : State} (h : Inv s) (seg : Seg) (gid : String) (t : SegType)
    (hsegs : s5.segs = s.segs ++ [seg]) (hstr : Str s5.groups)
    (hm : ∀ k, mems s5.groups k = if k = gid then mems s.groups gid ++ [seg.id] else mems s.groups k)
    (hi : ∀ k, incs s5.groups k = if k = "all" then incs s.groups "all" ++ [gid]
      else if k = t.group then incs s.groups t.group ++ [gid] else incs s.groups k)
    (hgid : isDefaultName gid = false) (hid : seg.id ∉ s.ids) (hpar : ∀ p, seg.parent = some p → p ∈ s.ids)
    (hug : seg.ugroup = some gid) (hst : seg.stype = some t)
    (hone : ∀ x ∈ s.segs, x.ugroup = some gid → x.stype = some t) : Inv s5 := by
  have hids := ids_snoc hsegs
  have hall_ne : "all" ≠ gid := ne_of_default isDefaultName_all hgid
  have hgrp_ne : ∀ t' : SegType, t'.group ≠ gid := fun t' => ne_of_default (isDefaultName_group t') hgid
  -- members of the user group before: segments added through it, all of type `t`
  have hgidmem : ∀ i, i ∈ mems s.groups gid → ∃ x ∈ s.segs, x.id = i ∧ x.stype = some t := by
    intro i hi'
    obtain ⟨x, hx, e1, e2⟩ := (h.user gid hgid i).mp hi'
    exact ⟨x, hx, e1, hone x hx e2⟩
  have hmono : ∀ k i, i ∈ mems s.groups k → i ∈ mems s5.groups k := by
    intro k i hk
    rw [hm]
    by_cases e : k = gid
    · subst e; simp only [↓reduceIte, List.mem_append]; exact Or.inl hk
    · simp only [e, ↓reduceIte]; exact hk
  refine ⟨hstr, by rw [hids]; exact nodup_snoc h.idsNodup hid, ?_, ?_, ?_, ?_, ?_, ?_⟩
  · -- parents
    intro x hx p hp
    rw [hids, List.mem_append]
    rw [hsegs] at hx
    rcases List.mem_append.mp hx with hx | hx
    · exact Or.inl (h.parents x hx p hp)
    · simp only [List.mem_singleton] at hx; subst hx; exact Or.inl (hpar p hp)
  · -- ugrp
    intro x hx u hu
    rw [hsegs] at hx
    rcases List.mem_append.mp hx with hx | hx
    · exact h.ugrp x hx u hu
    · simp only [List.mem_singleton] at hx; subst hx
      rw [hug] at hu; cases hu; exact Or.inl hgid
  · -- user
    intro u hu i
    rw [hm, hsegs, exists_mem_snoc]
    by_cases e : u = gid
    · subst e
      simp only [↓reduceIte, List.mem_append, List.mem_singleton, hug, and_true]
      rw [h.user u hu i]
      constructor
      · rintro (h1 | h1)
        · exact Or.inl h1
        · exact Or.inr h1.symm
      · rintro (h1 | h1)
        · exact Or.inl h1
        · exact Or.inr h1.symm
    · simp only [e, ↓reduceIte]
      rw [h.user u hu i]
      constructor
      · intro h1; exact Or.inl h1
      · rintro (h1 | ⟨_, h2⟩)
        · exact h1
        · rw [hug] at h2; cases h2; exact absurd rfl e
  · -- typed
    intro t' i
    rw [hsegs, exists_mem_snoc]
    unfold FlatMem
    have hmt : mems s5.groups t'.group = mems s.groups t'.group := by rw [hm]; simp only [hgrp_ne t', ↓reduceIte]
    rw [hmt]
    by_cases et : t' = t
    · subst et
      have hit : incs s5.groups t'.group = incs s.groups t'.group ++ [gid] := by
        rw [hi]; simp only [group_ne_all t', ↓reduceIte]
      rw [hit]
      constructor
      · rintro (h1 | ⟨u, hu, h1⟩)
        · exact Or.inl ((h.typed t' i).mp (Or.inl h1))
        · rw [hm] at h1
          by_cases eu : u = gid
          · subst eu
            simp only [↓reduceIte, List.mem_append, List.mem_singleton] at h1
            rcases h1 with h1 | h1
            · exact Or.inl (hgidmem i h1)
            · exact Or.inr ⟨h1.symm, hst⟩
          · simp only [eu, ↓reduceIte] at h1
            rcases List.mem_append.mp hu with hu | hu
            · exact Or.inl ((h.typed t' i).mp (Or.inr ⟨u, hu, h1⟩))
            · simp only [List.mem_singleton] at hu; exact absurd hu eu
      · rintro (h1 | ⟨h1, _⟩)
        · rcases (h.typed t' i).mpr h1 with h2 | ⟨u, hu, h2⟩
          · exact Or.inl h2
          · exact Or.inr ⟨u, List.mem_append.mpr (Or.inl hu), hmono u i h2⟩
        · refine Or.inr ⟨gid, by simp, ?_⟩
          rw [hm]; simp only [↓reduceIte, List.mem_append, List.mem_singleton]; exact Or.inr h1.symm
    · have hne : t'.group ≠ t.group := fun e => et (group_inj e)
      have hit : incs s5.groups t'.group = incs s.groups t'.group := by
        rw [hi]; simp only [group_ne_all t', hne, ↓reduceIte]
      rw [hit]
      have hnot : ∀ u ∈ incs s.groups t'.group, u ≠ gid := by
        intro u hu e
        subst e
        obtain ⟨x, hx, e1, e2⟩ := h.incT t' u hu
        have := hone x hx e1
        rw [e2] at this
        cases this
        exact et rfl
      have hsame : ∀ u ∈ incs s.groups t'.group, mems s5.groups u = mems s.groups u := by
        intro u hu; rw [hm]; simp only [hnot u hu, ↓reduceIte]
      constructor
      · rintro (h1 | ⟨u, hu, h1⟩)
        · exact Or.inl ((h.typed t' i).mp (Or.inl h1))
        · rw [hsame u hu] at h1
          exact Or.inl ((h.typed t' i).mp (Or.inr ⟨u, hu, h1⟩))
      · rintro (h1 | ⟨_, h1⟩)
        · rcases (h.typed t' i).mpr h1 with h2 | ⟨u, hu, h2⟩
          · exact Or.inl h2
          · exact Or.inr ⟨u, hu, by rw [hsame u hu]; exact h2⟩
        · rw [hst] at h1; cases h1; exact absurd rfl et
  · -- all
    intro i
    rw [hids, List.mem_append, List.mem_singleton]
    unfold FlatMem
    have hma : mems s5.groups "all" = mems s.groups "all" := by rw [hm]; simp only [hall_ne, ↓reduceIte]
    have hia : incs s5.groups "all" = incs s.groups "all" ++ [gid] := by rw [hi]; simp only [↓reduceIte]
    rw [hma, hia]
    constructor
    · rintro (h1 | ⟨u, hu, h1⟩)
      · exact Or.inl ((h.all i).mp (Or.inl h1))
      · rw [hm] at h1
        by_cases eu : u = gid
        · subst eu
          simp only [↓reduceIte, List.mem_append, List.mem_singleton] at h1
          rcases h1 with h1 | h1
          · obtain ⟨x, hx, e1, _⟩ := hgidmem i h1
            exact Or.inl (mem_ids_iff.mpr ⟨x, hx, e1⟩)
          · exact Or.inr h1
        · simp only [eu, ↓reduceIte] at h1
          rcases List.mem_append.mp hu with hu | hu
          · exact Or.inl ((h.all i).mp (Or.inr ⟨u, hu, h1⟩))
          · simp only [List.mem_singleton] at hu; exact absurd hu eu
    · rintro (h1 | h1)
      · rcases (h.all i).mpr h1 with h2 | ⟨u, hu, h2⟩
        · exact Or.inl h2
        · exact Or.inr ⟨u, List.mem_append.mpr (Or.inl hu), hmono u i h2⟩
      · refine Or.inr ⟨gid, by simp, ?_⟩
        rw [hm]; simp only [↓reduceIte, List.mem_append, List.mem_singleton]; exact Or.inr h1
  · -- incT
    intro t' u hu
    rw [hsegs, exists_mem_snoc]
    rw [hi] at hu
    simp only [group_ne_all t', ↓reduceIte] at hu
    by_cases et : t'.group = t.group
    · have := group_inj et
      subst this
      simp only [↓reduceIte] at hu
      rcases List.mem_append.mp hu with hu | hu
      · exact Or.inl (h.incT t' u hu)
      · simp only [List.mem_singleton] at hu; subst hu; exact Or.inr ⟨hug, hst⟩
    · simp only [et, ↓reduceIte] at hu
      exact Or.inl (h.incT t' u hu)

/-- new segment added without a user group — or with the default group of its OWN type as `group_id` (then the id
    is appended twice to that group: membership is what counts): it goes into the default group of its type and
    into 'all' -/
theorem inv_caseB {s s5 : State} (h : Inv s) (seg : Seg) (t : SegType)
    (hsegs : s5.segs = s.segs ++ [seg]) (hstr : Str s5.groups)
    (hm : ∀ k i, i ∈ mems s5.groups k ↔ i ∈ (if k = "all" ∨ k = t.group then mems s.groups k ++ [seg.id] else mems s.groups k))
    (hi : ∀ k, incs s5.groups k = incs s.groups k)
    (hid : seg.id ∉ s.ids) (hpar : ∀ p, seg.parent = some p → p ∈ s.ids)
    (hug : seg.ugroup = none ∨ seg.ugroup = some t.group) (hst : seg.stype = some t) : Inv s5 := by
  have hids := ids_snoc hsegs
  have hnd : ∀ u, isDefaultName u = false → ∀ i, i ∈ mems s5.groups u ↔ i ∈ mems s.groups u := by
    intro u hu i
    rw [hm]
    have h1 : u ≠ "all" := (ne_of_default isDefaultName_all hu).symm
    have h2 : u ≠ t.group := (ne_of_default (isDefaultName_group t) hu).symm
    simp only [h1, h2, or_self, ↓reduceIte]
  have hincnd : ∀ g u, u ∈ incs s.groups g → isDefaultName u = false := by
    intro g u hu
    unfold incs at hu
    cases e : look s.groups g with
    | none => rw [e] at hu; cases hu
    | some G => rw [e] at hu; exact (h.str.flat G (look_some_mem e) u hu).2.1
  refine ⟨hstr, by rw [hids]; exact nodup_snoc h.idsNodup hid, ?_, ?_, ?_, ?_, ?_, ?_⟩
  · intro x hx p hp
    rw [hids, List.mem_append]
    rw [hsegs] at hx
    rcases List.mem_append.mp hx with hx | hx
    · exact Or.inl (h.parents x hx p hp)
    · simp only [List.mem_singleton] at hx; subst hx; exact Or.inl (hpar p hp)
  · intro x hx u hu
    rw [hsegs] at hx
    rcases List.mem_append.mp hx with hx | hx
    · exact h.ugrp x hx u hu
    · simp only [List.mem_singleton] at hx; subst hx
      rcases hug with hug | hug
      · rw [hug] at hu; cases hu
      · rw [hug] at hu; cases hu; exact Or.inr ⟨t, hst, rfl⟩
  · intro u hu i
    rw [hnd u hu i, hsegs, exists_mem_snoc, h.user u hu i]
    constructor
    · intro h1; exact Or.inl h1
    · rintro (h1 | ⟨_, h2⟩)
      · exact h1
      · rcases hug with hug | hug
        · rw [hug] at h2; cases h2
        · rw [hug] at h2; cases h2; rw [isDefaultName_group] at hu; cases hu
  · intro t' i
    rw [hsegs, exists_mem_snoc]
    unfold FlatMem
    rw [hi]
    have hsame : ∀ u ∈ incs s.groups t'.group, ∀ i, i ∈ mems s5.groups u ↔ i ∈ mems s.groups u :=
      fun u hu => hnd u (hincnd _ u hu)
    by_cases et : t' = t
    · subst et
      have hmt : ∀ i, i ∈ mems s5.groups t'.group ↔ i ∈ mems s.groups t'.group ++ [seg.id] := by intro i; rw [hm]; simp
      rw [hmt i]
      constructor
      · rintro (h1 | ⟨u, hu, h1⟩)
        · rcases List.mem_append.mp h1 with h1 | h1
          · exact Or.inl ((h.typed t' i).mp (Or.inl h1))
          · simp only [List.mem_singleton] at h1; exact Or.inr ⟨h1.symm, hst⟩
        · rw [hsame u hu i] at h1
          exact Or.inl ((h.typed t' i).mp (Or.inr ⟨u, hu, h1⟩))
      · rintro (h1 | ⟨h1, _⟩)
        · rcases (h.typed t' i).mpr h1 with h2 | ⟨u, hu, h2⟩
          · exact Or.inl (List.mem_append.mpr (Or.inl h2))
          · exact Or.inr ⟨u, hu, (hsame u hu i).mpr h2⟩
        · exact Or.inl (List.mem_append.mpr (Or.inr (by simp [h1])))
    · have hne : t'.group ≠ t.group := fun e => et (group_inj e)
      have hmt : ∀ i, i ∈ mems s5.groups t'.group ↔ i ∈ mems s.groups t'.group := by
        intro i; rw [hm]; simp only [group_ne_all t', hne, or_self, ↓reduceIte]
      rw [hmt i]
      constructor
      · rintro (h1 | ⟨u, hu, h1⟩)
        · exact Or.inl ((h.typed t' i).mp (Or.inl h1))
        · rw [hsame u hu i] at h1
          exact Or.inl ((h.typed t' i).mp (Or.inr ⟨u, hu, h1⟩))
      · rintro (h1 | ⟨_, h1⟩)
        · rcases (h.typed t' i).mpr h1 with h2 | ⟨u, hu, h2⟩
          · exact Or.inl h2
          · exact Or.inr ⟨u, hu, (hsame u hu i).mpr h2⟩
        · rw [hst] at h1; cases h1; exact absurd rfl et
  · intro i
    rw [hids, List.mem_append, List.mem_singleton]
    unfold FlatMem
    rw [hi]
    have hsame : ∀ u ∈ incs s.groups "all", ∀ i, i ∈ mems s5.groups u ↔ i ∈ mems s.groups u :=
      fun u hu => hnd u (hincnd _ u hu)
    have hma : ∀ i, i ∈ mems s5.groups "all" ↔ i ∈ mems s.groups "all" ++ [seg.id] := by intro i; rw [hm]; simp
    rw [hma i]
    constructor
    · rintro (h1 | ⟨u, hu, h1⟩)
      · rcases List.mem_append.mp h1 with h1 | h1
        · exact Or.inl ((h.all i).mp (Or.inl h1))
        · simp only [List.mem_singleton] at h1; exact Or.inr h1
      · rw [hsame u hu i] at h1
        exact Or.inl ((h.all i).mp (Or.inr ⟨u, hu, h1⟩))
    · rintro (h1 | h1)
      · rcases (h.all i).mpr h1 with h2 | ⟨u, hu, h2⟩
        · exact Or.inl (List.mem_append.mpr (Or.inl h2))
        · exact Or.inr ⟨u, hu, (hsame u hu i).mpr h2⟩
      · exact Or.inl (List.mem_append.mpr (Or.inr (by simp [h1])))
  · intro t' u hu
    rw [hsegs, exists_mem_snoc]
    rw [hi] at hu
    exact Or.inl (h.incT t' u hu)

/-- what the property's quantifier (and the two open findings) ask of one `add_segment` call in state `s` -/
structure SegOK (s : State) (a : AddSeg) : Prop where
  /-- `use_convention=True` (the default; the property is about the conventional groups) -/
  conv : a.useConv = true
  /-- the `parent` object is a segment of the cell -/
  parent : ∀ p, a.parent = some p → p ∈ s.ids
  /-- UserGroupNamesFresh: the user group is not called like a default group — other than the default group of the
      segment's own type (what the repaired `add_segment` refuses is exactly `foreignDefault`) -/
  fresh : ∀ g, a.groupId = some g → isDefaultName g = false ∨ foreignDefault a = false
  /-- OneTypePerGroup: the user group has only been used with this segment type -/
  oneType : ∀ g, a.groupId = some g → ∀ seg ∈ s.segs, seg.ugroup = some g → seg.stype = parseType a.segType

/-- what the proofs need of the checks `add_segment` makes before it changes anything: the id it goes on with is
    not in use -/
def PickSpec (pick : State → AddSeg → Except Err Int) : Prop := ∀ s a id, a.lex = false → pick s a = .ok id → id ∉ s.ids

theorem pickCfg_ok {idFx nmFx : Bool} {s : State} {a : AddSeg} {id : Int} (hlex : idFx = true ∨ a.lex = false)
    (e : pickCfg idFx nmFx s a = .ok id) :
    id ∉ s.ids ∧ id = autoId s a ∧ (idFx = true → 0 ≤ id) ∧ (nmFx = true → a.useConv = true → foreignDefault a = false) := by
  unfold pickCfg at e
  split at e
  · cases e
  rename_i h1
  split at e
  · cases e
  rename_i h2
  split at e
  · cases e
  rename_i h3
  cases e
  refine ⟨fun hin => h1 ⟨hlex, hin⟩, rfl, ?_, ?_⟩
  · intro hf
    by_cases hlt : autoId s a < 0
    · exact absurd ⟨hf, hlt⟩ h2
    · omega
  · intro hn hc
    cases hfd : foreignDefault a with
    | false => rfl
    | true => exact absurd ⟨hn, hc, hfd⟩ h3

theorem pickSpec_pickCfg (idFx nmFx : Bool) : PickSpec (pickCfg idFx nmFx) := fun _ _ _ hl e => (pickCfg_ok (Or.inr hl) e).1

theorem pickId_ok {s : State} {a : AddSeg} {id : Int} (hl : a.lex = false) (e : pickId s a = .ok id) : id ∉ s.ids ∧ id = autoId s a :=
  ⟨(pickCfg_ok (Or.inr hl) e).1, (pickCfg_ok (Or.inr hl) e).2.1⟩

theorem pickSpec_pickId : PickSpec pickId := pickSpec_pickCfg false false

theorem appendSeg_inv {opt : State → Except Err State} (ho : OptSpec opt) {s4 s' : State} {seg : Seg} {b : Bool}
    (h5 : Inv { s4 with segs := s4.segs ++ [seg] }) (e : appendSeg opt s4 seg b = .ok s') :
    Inv s' ∧ s'.segs = s4.segs ++ [seg] ∧ s'.memb = s4.memb ∧ s'.intra = s4.intra := by
  unfold appendSeg at e
  simp only at e
  split at e
  · exact ⟨inv_opt ho h5 e, ho.segs _ _ e, by rw [ho.memb _ _ e], by rw [ho.intra _ _ e]⟩
  · cases e; exact ⟨h5, rfl, rfl, rfl⟩

/-- `f"{seg_type}_group"` is the default group of the type -/
theorem parseType_group {o : Option String} {t : SegType} (h : parseType o = some t) : o.getD "None" ++ "_group" = t.group := by
  unfold parseType at h
  split at h <;> cases h <;> decide

theorem inv_addSegment {pick : State → AddSeg → Except Err Int} (hpk : PickSpec pick)
    {opt : State → Except Err State} (ho : OptSpec opt) {s s' : State} {a : AddSeg}
    (h : Inv s) (hok : SegOK s a) (hlex : a.lex = false) (e : addSegmentWith pick opt s a = .ok s') :
    Inv s' ∧ s'.memb = s.memb ∧ s'.intra = s.intra ∧
    ∃ seg t, s'.segs = s.segs ++ [seg] ∧ parseType a.segType = some t ∧ seg.stype = some t ∧
      (∀ g, seg.ugroup = some g → a.groupId = some g) := by
  unfold addSegmentWith at e
  split at e
  · cases e
  split at e
  · cases e
  split at e
  · cases e
  split at e
  · cases e
  rename_i id hpick
  have hid := hpk _ _ _ hlex hpick
  split at e
  · cases e
  simp only [hok.conv, ↓reduceIte] at e
  split at e
  · cases e
  rename_i t ht
  by_cases hg : a.groupId.getD "" = ""
  · -- no user group
    rw [hg] at e
    obtain ⟨hsegs, hmemb, hintra, hstr, hm, hi⟩ := convStep_none h.str id t a.reorder
    let s4 := convStep (userStep s "" id) "" id t a.reorder
    let seg := mkSeg s4 a "" id (some t)
    have h5 : Inv { s4 with segs := s4.segs ++ [seg] } :=
      inv_caseB h seg t (by show s4.segs ++ [seg] = s.segs ++ [seg]; rw [hsegs]) hstr (fun k i => by rw [hm k]; exact Iff.rfl) hi hid hok.parent
        (Or.inl (by show (if ("" : String) ≠ "" then some "" else none) = none; simp)) rfl
    obtain ⟨hinv, hs', hmb, hin⟩ := appendSeg_inv ho h5 e
    refine ⟨hinv, by rw [hmb]; exact hmemb, by rw [hin]; exact hintra, seg, t, by rw [hs', hsegs], ht, rfl, ?_⟩
    intro g hgs
    have : seg.ugroup = none := by show (if ("" : String) ≠ "" then some "" else none) = none; simp
    rw [this] at hgs; cases hgs
  · -- through the user group `gid`
    have hgid : a.groupId = some (a.groupId.getD "") := by
      cases e2 : a.groupId with
      | none => rw [e2] at hg; exact absurd rfl hg
      | some g => rfl
    by_cases hdef : isDefaultName (a.groupId.getD "") = true
    · -- the default group of the segment's own type as `group_id`
      have hfd : foreignDefault a = false := by
        rcases hok.fresh _ hgid with h1 | h1
        · rw [h1] at hdef; cases hdef
        · exact h1
      have hgt : a.groupId.getD "" = t.group := by
        unfold foreignDefault at hfd
        rw [hgid] at hfd
        simp only [hdef, Bool.true_and, bne_eq_false_iff_eq] at hfd
        rw [parseType_group ht] at hfd
        exact hfd
      rw [hgt] at e hgid
      obtain ⟨hsegs, hmemb, hintra, hstr, hm, hi⟩ := convStep_own h.str id t a.reorder
      let s4 := convStep (userStep s t.group id) t.group id t a.reorder
      let seg := mkSeg s4 a t.group id (some t)
      have htne : t.group ≠ "" := by cases t <;> decide
      have hug : seg.ugroup = some t.group := by show (if t.group ≠ "" then some t.group else none) = some t.group; simp [htne]
      have h5 : Inv { s4 with segs := s4.segs ++ [seg] } :=
        inv_caseB h seg t (by show s4.segs ++ [seg] = s.segs ++ [seg]; rw [hsegs]) hstr hm hi hid hok.parent (Or.inr hug) rfl
      obtain ⟨hinv, hs', hmb, hin⟩ := appendSeg_inv ho h5 e
      refine ⟨hinv, by rw [hmb]; exact hmemb, by rw [hin]; exact hintra, seg, t, by rw [hs', hsegs], ht, rfl, ?_⟩
      intro g hgs
      rw [hug] at hgs; cases hgs; exact hgid
    generalize a.groupId.getD "" = gid at *
    have hfresh : isDefaultName gid = false := by cases hh : isDefaultName gid with | false => rfl | true => exact absurd hh hdef
    obtain ⟨hsegs, hmemb, hintra, hstr, hm, hi⟩ := convStep_user h.str gid id t a.reorder hfresh hg
    let s4 := convStep (userStep s gid id) gid id t a.reorder
    let seg := mkSeg s4 a gid id (some t)
    have hug : seg.ugroup = some gid := by show (if gid ≠ "" then some gid else none) = some gid; simp [hg]
    have h5 : Inv { s4 with segs := s4.segs ++ [seg] } :=
      inv_caseA h seg gid t (by show s4.segs ++ [seg] = s.segs ++ [seg]; rw [hsegs]) hstr hm hi hfresh hid hok.parent
        hug rfl (by intro x hx hxu; rw [← ht]; exact hok.oneType gid hgid x hx hxu)
    obtain ⟨hinv, hs', hmb, hin⟩ := appendSeg_inv ho h5 e
    refine ⟨hinv, by rw [hmb]; exact hmemb, by rw [hin]; exact hintra, seg, t, by rw [hs', hsegs], ht, rfl, ?_⟩
    intro g hgs
    rw [hug] at hgs; cases hgs; exact hgid

/-! ### `add_unbranched_segments` -/

structure UnbOK (s : State) (u : AddUnb) : Prop where
  conv : u.useConv = true
  parent : ∀ p, u.parent = some p → p ∈ s.ids
  fresh : ∀ g, u.groupId = some g → isDefaultName g = false ∨ foreignDefault (unbSeg u none 4) = false
  oneType : ∀ g, u.groupId = some g → ∀ seg ∈ s.segs, seg.ugroup = some g → seg.stype = parseType u.segType

theorem lastId_mem {s : State} {p : Int} (h : lastId s = some p) : p ∈ s.ids := by
  unfold lastId at h
  cases e : s.segs.getLast? with
  | none => rw [e] at h; cases h
  | some x =>
    rw [e] at h
    simp only [Option.map_some, Option.some.injEq] at h
    exact mem_ids_iff.mpr ⟨x, List.mem_of_getLast? e, h⟩

theorem inv_unbRest {pick : State → AddSeg → Except Err Int} (hpk : PickSpec pick)
    {opt : State → Except Err State} (ho : OptSpec opt) (u : AddUnb) (hconv : u.useConv = true)
    (hfresh : ∀ g, u.groupId = some g → isDefaultName g = false ∨ foreignDefault (unbSeg u none 4) = false) :
    ∀ (k : Nat) (s s' : State), Inv s →
      (∀ g, u.groupId = some g → ∀ seg ∈ s.segs, seg.ugroup = some g → seg.stype = parseType u.segType) →
      unbRest (addSegmentWith pick opt) u k s = .ok s' → Inv s' := by
  intro k
  induction k with
  | zero => intro s s' h _ e; unfold unbRest at e; cases e; exact h
  | succ k ih =>
    intro s s' h hone e
    unfold unbRest at e
    split at e
    · rename_i s1 e1
      have hok : SegOK s (unbSeg u (lastId s) 4) := ⟨hconv, fun p hp => lastId_mem hp, hfresh, hone⟩
      obtain ⟨h1, _, _, seg, t, hs1, ht, hst, hug⟩ := inv_addSegment hpk ho h hok rfl e1
      refine ih s1 s' h1 ?_ e
      intro g hg x hx hxu
      rw [hs1] at hx
      rcases List.mem_append.mp hx with hx | hx
      · exact hone g hg x hx hxu
      · simp only [List.mem_singleton] at hx; subst hx; rw [hst]; exact ht.symm
    · cases e

theorem inv_addUnbranched {pick : State → AddSeg → Except Err Int} (hpk : PickSpec pick)
    {opt : State → Except Err State} (ho : OptSpec opt) {s s' : State} {u : AddUnb}
    (h : Inv s) (hok : UnbOK s u) (e : addUnbranchedWith (addSegmentWith pick opt) opt s u = .ok s') : Inv s' := by
  unfold addUnbranchedWith at e
  split at e
  · cases e
  simp only at e
  split at e
  · cases e
  rename_i s2 e2
  have h1 : Inv (ensureGroup s (u.groupId.getD "") (some sectionNlx) u.groupId.isNone) := inv_ensureGroup h _ _
  have hsegs1 := segs_ensureGroup s (u.groupId.getD "") (some sectionNlx) (b := u.groupId.isNone)
  have hok1 : SegOK (ensureGroup s (u.groupId.getD "") (some sectionNlx) u.groupId.isNone) (unbSeg u u.parent u.frac4) := by
    refine ⟨hok.conv, ?_, hok.fresh, ?_⟩
    · intro p hp; unfold State.ids; rw [hsegs1]; exact hok.parent p hp
    · intro g hg x hx; rw [hsegs1] at hx; exact hok.oneType g hg x hx
  obtain ⟨h2, _, _, seg, t, hs2, ht, hst, hug⟩ := inv_addSegment hpk ho h1 hok1 rfl e2
  split at e
  · cases e
  rename_i s3 e3
  have h3 : Inv s3 := by
    refine inv_unbRest hpk ho u hok.conv hok.fresh _ s2 s3 h2 ?_ e3
    intro g hg x hx hxu
    rw [hs2, hsegs1] at hx
    rcases List.mem_append.mp hx with hx | hx
    · exact hok.oneType g hg x hx hxu
    · simp only [List.mem_singleton] at hx; subst hx; rw [hst]; exact ht.symm
  have h4 : Inv (if u.reorder then reorder s3 else s3) := by
    split
    · exact inv_reorder h3
    · exact h3
  split at e
  · cases e
  rename_i s5 e5
  have h5 : Inv s5 := by
    split at e5
    · exact inv_opt ho h4 e5
    · cases e5; exact h4
  split at e
  · cases e; exact h5
  · cases e

/-! ### the other operations, histories, the final step -/

theorem inv_of_eq {s s' : State} (h : Inv s) (h1 : s'.segs = s.segs) (h2 : s'.groups = s.groups) : Inv s' :=
  inv_of_same h h1 (by rw [h2]; exact h.str) (fun g => by rw [h2]) (fun g => by rw [h2])

theorem inv_empty (d : List String := []) : Inv { segs := [], groups := [], memb := [], intra := [], chans := [], docIncs := d } := by
  refine ⟨⟨?_, ?_⟩, ?_, ?_, ?_, ?_, ?_, ?_, ?_⟩
  · intro G hG; cases hG
  · intro d _; simp
  · exact List.nodup_nil
  · intro x hx; cases hx
  · intro x hx; cases hx
  · intro u _ i; simp [mems, look_nil]
  · intro t i; simp [FlatMem, mems, incs, look_nil]
  · intro i; simp [FlatMem, mems, incs, look_nil, State.ids]
  · intro t u hu; simp [incs, look_nil] at hu

theorem inv_setupLoop : ∀ (names : List String) (s s' : State), Inv s → setupLoop names s = some s' → Inv s'
  | [], s, s', h, e => by unfold setupLoop at e; cases e; exact h
  | g :: gs, s, s', h, e => by
    unfold setupLoop at e
    split at e
    · exact inv_setupLoop gs _ s' (inv_ensureGroup h _ _) e
    · cases e

theorem inv_setupLoopPartial : ∀ (names : List String) (s : State), Inv s → Inv (setupLoopPartial names s)
  | [], s, h => by unfold setupLoopPartial; exact h
  | g :: gs, s, h => by
    unfold setupLoopPartial
    split
    · exact inv_setupLoopPartial gs _ (inv_ensureGroup h _ _)
    · exact h

theorem inv_setupDefault {s : State} (h : Inv s) (c : Bool) (names : List String) : Inv (setupDefault s c names) := by
  unfold setupDefault
  split
  · split
    · rename_i s' e; exact inv_reorder (inv_setupLoop names s s' h e)
    · exact inv_setupLoopPartial names s h
  · exact h

theorem inv_setupNmlCell {s : State} (h : Inv s) (c o : Bool) (names : List String) : Inv (setupNmlCell s c o names) := by
  unfold setupNmlCell
  simp only
  split
  · exact inv_setupDefault (inv_empty _) c names
  · exact inv_setupDefault h c names

theorem inv_init : Inv init := inv_setupNmlCell (inv_empty []) true false ["all", "soma_group"]

/-- the hypotheses on one operation in state `s` (only `add_segment` / `add_unbranched_segments` carry any) -/
def OpOK (s : State) : Op → Prop
  | .addSegment a => SegOK s a
  | .addUnbranched u => UnbOK s u
  | .addSegmentLex _ => False      -- an id in another lexical form escapes the duplicate check (open finding)
  | _ => True

theorem inv_step {pick : State → AddSeg → Except Err Int} (hpk : PickSpec pick)
    {opt : State → Except Err State} (ho : OptSpec opt) {s s' : State} {op : Op}
    (h : Inv s) (hok : OpOK s op) (e : stepWith pick opt s op = .ok s') : Inv s' := by
  cases op with
  | addSegment a =>
    exact (inv_addSegment (a := { a with lex := false }) hpk ho h ⟨hok.conv, hok.parent, hok.fresh, hok.oneType⟩ rfl e).1
  | addSegmentLex a => exact absurd hok id
  | addUnbranched u => exact inv_addUnbranched hpk ho h hok e
  | addSegmentGroup g => simp only [stepWith, Except.ok.injEq] at e; subst e; exact inv_ensureGroup h _ _
  | addUnbranchedSegmentGroup g => simp only [stepWith, Except.ok.injEq] at e; subst e; exact inv_ensureGroup h _ _
  | addChannelDensity c f =>
    simp only [stepWith, Except.ok.injEq] at e; subst e
    have h1 := inv_setupNmlCell h false false ["all", "soma_group"]
    refine inv_of_eq h1 ?_ ?_ <;> (unfold addChan; simp only; split <;> split <;> (try split) <;> rfl)
  | setupDefault c names => simp only [stepWith, Except.ok.injEq] at e; subst e; exact inv_setupDefault h c names
  | setupNmlCell c o names => simp only [stepWith, Except.ok.injEq] at e; subst e; exact inv_setupNmlCell h c o names
  | reorder => simp only [stepWith, Except.ok.injEq] at e; subst e; exact inv_reorder h
  | optimise => exact inv_opt ho h e
  | addMembrane p =>
    simp only [stepWith, Except.ok.injEq] at e; subst e
    have h1 := inv_setupNmlCell h false false ["all", "soma_group"]
    refine inv_of_eq h1 ?_ ?_ <;> (unfold addMembrane; split <;> rfl)
  | addIntra p =>
    simp only [stepWith] at e
    have h1 := inv_setupNmlCell h false false ["all", "soma_group"]
    unfold addIntra at e
    split at e
    · cases e
    · split at e
      · cases e; exact h1
      · cases e; exact inv_of_eq h1 rfl rfl

/-- the hypotheses along a history: each operation is fine in the state it is applied to -/
def RunOK (pick : State → AddSeg → Except Err Int) (opt : State → Except Err State) : State → List Op → Prop
  | _, [] => True
  | s, op :: ops => OpOK s op ∧ ∀ s', stepWith pick opt s op = .ok s' → RunOK pick opt s' ops

theorem inv_run {pick : State → AddSeg → Except Err Int} (hpk : PickSpec pick)
    {opt : State → Except Err State} (ho : OptSpec opt) :
    ∀ (ops : List Op) (s s' : State), Inv s → RunOK pick opt s ops → runWith pick opt s ops = .ok s' → Inv s'
  | [], s, s', h, _, e => by unfold runWith at e; cases e; exact h
  | op :: ops, s, s', h, hok, e => by
    unfold runWith at e
    split at e
    · rename_i s1 e1
      exact inv_run hpk ho ops s1 s' (inv_step hpk ho h hok.1 e1) (hok.2 s1 e1) e
    · cases e

/-- the well-formedness clauses of the property, read through `get_all_segments_in_group` (`resolve`) -/
structure Good (s : State) : Prop where
  /-- segment ids are unique -/
  idsNodup : s.ids.Nodup
  /-- every non-root segment's parent exists -/
  parents : ∀ seg ∈ s.segs, ∀ p, seg.parent = some p → p ∈ s.ids
  /-- the group 'all' resolves (without error) to every segment -/
  all : ∃ l, resolve s "all" = .ok l ∧ ∀ i, i ∈ l ↔ i ∈ s.ids
  /-- each default group resolves to exactly the segments added with its type … -/
  byType : ∀ t l, resolve s (SegType.group t) = .ok l → ∀ i, i ∈ l ↔ ∃ seg ∈ s.segs, seg.id = i ∧ seg.stype = some t
  /-- … and it exists and resolves as soon as there is such a segment -/
  byTypeEx : ∀ t, (∃ seg ∈ s.segs, seg.stype = some t) → ∃ l, resolve s (SegType.group t) = .ok l
  /-- every group is defined before any group that includes it -/
  order : DefinedBeforeUse s.groups

theorem good_of_inv {s : State} (h : Inv s) (ho : DefinedBeforeUse s.groups) : Good s := by
  refine ⟨h.idsNodup, h.parents, ?_, ?_, ?_, ho⟩
  · cases e : look s.groups "all" with
    | some G =>
      obtain ⟨l, hl, hm⟩ := resolve_flat s.ids h.str.flat e
      exact ⟨l, hl, fun i => (hm i).trans (h.all i)⟩
    | none =>
      refine ⟨s.ids, ?_, fun _ => Iff.rfl⟩
      unfold resolve resolveAux
      rw [e]
      simp
  · intro t l hl i
    cases e : look s.groups t.group with
    | some G =>
      obtain ⟨l', hl', hm⟩ := resolve_flat s.ids h.str.flat e
      unfold resolve at hl
      rw [hl'] at hl
      cases hl
      exact (hm i).trans (h.typed t i)
    | none =>
      unfold resolve resolveAux at hl
      rw [e] at hl
      simp only [group_ne_all t, ↓reduceIte] at hl
      cases hl
  · rintro t ⟨x, hx, hxt⟩
    have hfm := (h.typed t x.id).mpr ⟨x, hx, rfl, hxt⟩
    cases e : look s.groups t.group with
    | some G =>
      obtain ⟨l, hl, _⟩ := resolve_flat s.ids h.str.flat e
      exact ⟨l, hl⟩
    | none => exact absurd hfm (flatMem_none e _)

theorem good_finish {opt : State → Except Err State} (ho : OptSpec opt) {s s' : State} (h : Inv s)
    (e : finishWith opt s = .ok s') : Good s' := by
  unfold finishWith at e
  have h1 := inv_reorder h
  exact good_of_inv (inv_opt ho h1 e) ((ho.aligned _ _ e).definedBeforeUse (definedBeforeUse_reorder h.str))

/-! ### ids and parents: no hypothesis on group names or types needed -/

theorem segs_setupLoop : ∀ (names : List String) (s s' : State), setupLoop names s = some s' → s'.segs = s.segs
  | [], s, s', e => by unfold setupLoop at e; cases e; rfl
  | g :: gs, s, s', e => by
    unfold setupLoop at e
    split at e
    · rw [segs_setupLoop gs _ s' e, segs_ensureGroup]
    · cases e

theorem segs_setupLoopPartial : ∀ (names : List String) (s : State), (setupLoopPartial names s).segs = s.segs
  | [], s => by unfold setupLoopPartial; rfl
  | g :: gs, s => by
    unfold setupLoopPartial
    split
    · rw [segs_setupLoopPartial gs, segs_ensureGroup]
    · rfl

theorem segs_setupDefault (s : State) (c : Bool) (names : List String) : (setupDefault s c names).segs = s.segs := by
  unfold setupDefault
  split
  · split
    · rename_i s' e; show s'.segs = s.segs; exact segs_setupLoop names s s' e
    · exact segs_setupLoopPartial names s
  · rfl

theorem segs_userStep (s : State) (gid : String) (id : Int) : (userStep s gid id).segs = s.segs := by
  unfold userStep
  split
  · show (ensureGroup s gid none).segs = s.segs; exact segs_ensureGroup _ _ _
  · rfl

theorem segs_convStep (s : State) (gid : String) (id : Int) (t : SegType) (ro : Bool) :
    (convStep s gid id t ro).segs = s.segs := by
  unfold convStep
  simp only
  split <;> split <;> exact segs_setupDefault s true _

/-- ids unique, parents present, and every id has the property `P` the checks of `add_segment` guarantee
    (`fun _ => True` on the tree as it is, `0 ≤ ·` with the proposed repair) -/
structure BasicP (P : Int → Prop) (s : State) : Prop where
  idsNodup : s.ids.Nodup
  parents : ∀ seg ∈ s.segs, ∀ p, seg.parent = some p → p ∈ s.ids
  allP : ∀ seg ∈ s.segs, P seg.id

abbrev Basic := BasicP (fun _ => True)

/-- the id `pick` goes on with is not in use and has the property `P` -/
def PickSpecP (pick : State → AddSeg → Except Err Int) (P : Int → Prop) : Prop :=
  ∀ s a id, a.lex = false → pick s a = .ok id → id ∉ s.ids ∧ P id

theorem pickSpecP_true {pick : State → AddSeg → Except Err Int} (h : PickSpec pick) : PickSpecP pick (fun _ => True) :=
  fun s a id hl e => ⟨h s a id hl e, trivial⟩

theorem pickSpecP_nonneg (nmFx : Bool) : PickSpecP (pickCfg true nmFx) (fun i => 0 ≤ i) :=
  fun _ _ _ hl e => ⟨(pickCfg_ok (Or.inr hl) e).1, (pickCfg_ok (Or.inr hl) e).2.2.1 rfl⟩

theorem basic_of_segs {P : Int → Prop} {s s' : State} (h : BasicP P s) (e : s'.segs = s.segs) : BasicP P s' := by
  have hids : s'.ids = s.ids := by unfold State.ids; rw [e]
  exact ⟨by rw [hids]; exact h.idsNodup, by rw [e, hids]; exact h.parents, by rw [e]; exact h.allP⟩

theorem basic_snoc {P : Int → Prop} {s s' : State} {seg : Seg} (h : BasicP P s) (e : s'.segs = s.segs ++ [seg]) (hid : seg.id ∉ s.ids)
    (hp : ∀ p, seg.parent = some p → p ∈ s.ids) (hP : P seg.id) : BasicP P s' := by
  have hids := ids_snoc e
  refine ⟨by rw [hids]; exact nodup_snoc h.idsNodup hid, ?_, ?_⟩
  · intro x hx p hpx
    rw [hids, List.mem_append]
    rw [e] at hx
    rcases List.mem_append.mp hx with hx | hx
    · exact Or.inl (h.parents x hx p hpx)
    · simp only [List.mem_singleton] at hx; subst hx; exact Or.inl (hp p hpx)
  · intro x hx
    rw [e] at hx
    rcases List.mem_append.mp hx with hx | hx
    · exact h.allP x hx
    · simp only [List.mem_singleton] at hx; subst hx; exact hP

/-- all the proofs about ids need of `optimise_segment_groups`: it does not touch the segments -/
def OptSegs (opt : State → Except Err State) : Prop := ∀ s s', opt s = .ok s' → s'.segs = s.segs

theorem appendSeg_segs {opt : State → Except Err State} (ho : OptSegs opt) {s4 s' : State} {seg : Seg} {b : Bool}
    (e : appendSeg opt s4 seg b = .ok s') : s'.segs = s4.segs ++ [seg] := by
  unfold appendSeg at e
  simp only at e
  split at e
  · exact ho _ _ e
  · cases e; rfl

theorem basic_addSegment {P : Int → Prop} {pick : State → AddSeg → Except Err Int} (hpk : PickSpecP pick P)
    {opt : State → Except Err State} (ho : OptSegs opt) {s s' : State} {a : AddSeg}
    (h : BasicP P s) (hp : ∀ p, a.parent = some p → p ∈ s.ids) (hlex : a.lex = false)
    (e : addSegmentWith pick opt s a = .ok s') :
    BasicP P s' ∧ ∃ seg, s'.segs = s.segs ++ [seg] := by
  unfold addSegmentWith at e
  split at e
  · cases e
  split at e
  · cases e
  split at e
  · cases e
  split at e
  · cases e
  rename_i id hpick
  obtain ⟨hid, hPid⟩ := hpk _ _ _ hlex hpick
  split at e
  · cases e
  simp only at e
  split at e
  · split at e
    · cases e
    · have := appendSeg_segs ho e
      rw [segs_convStep, segs_userStep] at this
      exact ⟨basic_snoc h this hid hp hPid, _, this⟩
  · have := appendSeg_segs ho e
    rw [segs_userStep] at this
    exact ⟨basic_snoc h this hid hp hPid, _, this⟩

theorem basic_unbRest {P : Int → Prop} {pick : State → AddSeg → Except Err Int} (hpk : PickSpecP pick P)
    {opt : State → Except Err State} (ho : OptSegs opt) (u : AddUnb) :
    ∀ (k : Nat) (s s' : State), BasicP P s → unbRest (addSegmentWith pick opt) u k s = .ok s' → BasicP P s' := by
  intro k
  induction k with
  | zero => intro s s' h e; unfold unbRest at e; cases e; exact h
  | succ k ih =>
    intro s s' h e
    unfold unbRest at e
    split at e
    · rename_i s1 e1
      exact ih s1 s' (basic_addSegment hpk ho h (fun p hp => lastId_mem hp) rfl e1).1 e
    · cases e

/-- the only hypothesis: the `parent` object passed is a segment of the cell -/
def ParentOK (s : State) : Op → Prop
  | .addSegment a => ∀ p, a.parent = some p → p ∈ s.ids
  | .addUnbranched u => ∀ p, u.parent = some p → p ∈ s.ids
  | .addSegmentLex _ => False      -- an id in another lexical form escapes the duplicate check (open finding)
  | _ => True

theorem segs_addChan (s : State) (c : ChanDens) (f : String) : (addChan s c f).segs = s.segs := by
  unfold addChan; simp only; split <;> split <;> (try split) <;> rfl

theorem basic_step {P : Int → Prop} {pick : State → AddSeg → Except Err Int} (hpk : PickSpecP pick P)
    {opt : State → Except Err State} (ho : OptSegs opt) {s s' : State} {op : Op}
    (h : BasicP P s) (hok : ParentOK s op) (e : stepWith pick opt s op = .ok s') : BasicP P s' := by
  cases op with
  | addSegment a => exact (basic_addSegment (a := { a with lex := false }) hpk ho h hok rfl e).1
  | addSegmentLex a => exact absurd hok id
  | addChannelDensity c f =>
    simp only [stepWith, Except.ok.injEq] at e; subst e
    exact basic_of_segs h (by rw [segs_addChan]; exact segs_setupDefault _ _ _)
  | addUnbranched u =>
    simp only [stepWith] at e
    unfold addUnbranchedWith at e
    split at e
    · cases e
    simp only at e
    split at e
    · cases e
    rename_i s2 e2
    have h1 : BasicP P (ensureGroup s (u.groupId.getD "") (some sectionNlx) u.groupId.isNone) := basic_of_segs h (segs_ensureGroup _ _ _)
    have hp1 : ∀ p, (unbSeg u u.parent u.frac4).parent = some p →
        p ∈ (ensureGroup s (u.groupId.getD "") (some sectionNlx) u.groupId.isNone).ids := by
      intro p hp; unfold State.ids; rw [segs_ensureGroup]; exact hok p hp
    have h2 := (basic_addSegment hpk ho h1 hp1 rfl e2).1
    split at e
    · cases e
    rename_i s3 e3
    have h3 := basic_unbRest hpk ho u _ s2 s3 h2 e3
    have h4 : BasicP P (if u.reorder then reorder s3 else s3) := by
      split
      · exact basic_of_segs h3 rfl
      · exact h3
    split at e
    · cases e
    rename_i s5 e5
    have h5 : BasicP P s5 := by
      split at e5
      · exact basic_of_segs h4 (ho _ _ e5)
      · cases e5; exact h4
    split at e
    · cases e; exact h5
    · cases e
  | addSegmentGroup g => simp only [stepWith, Except.ok.injEq] at e; subst e; exact basic_of_segs h (segs_ensureGroup _ _ _)
  | addUnbranchedSegmentGroup g =>
    simp only [stepWith, Except.ok.injEq] at e; subst e; exact basic_of_segs h (segs_ensureGroup _ _ _)
  | setupDefault c names => simp only [stepWith, Except.ok.injEq] at e; subst e; exact basic_of_segs h (segs_setupDefault _ _ _)
  | setupNmlCell c o names =>
    simp only [stepWith, Except.ok.injEq] at e; subst e
    unfold setupNmlCell
    simp only
    split
    · refine basic_of_segs (s := { segs := [], groups := [], memb := [], intra := [], chans := [], docIncs := s.docIncs })
        ⟨List.nodup_nil, ?_, ?_⟩ (segs_setupDefault _ _ _)
      · intro x hx; cases hx
      · intro x hx; cases hx
    · exact basic_of_segs h (segs_setupDefault _ _ _)
  | reorder => simp only [stepWith, Except.ok.injEq] at e; subst e; exact basic_of_segs h rfl
  | optimise => exact basic_of_segs h (ho _ _ e)
  | addMembrane p =>
    simp only [stepWith, Except.ok.injEq] at e; subst e
    refine basic_of_segs h ?_
    unfold addMembrane
    split
    · exact segs_setupDefault _ _ _
    · exact segs_setupDefault _ _ _
  | addIntra p =>
    simp only [stepWith] at e
    unfold addIntra at e
    split at e
    · cases e
    · split at e
      · cases e; exact basic_of_segs h (segs_setupDefault _ _ _)
      · cases e; exact basic_of_segs h (segs_setupDefault _ _ _)

def RunParentsOK (pick : State → AddSeg → Except Err Int) (opt : State → Except Err State) : State → List Op → Prop
  | _, [] => True
  | s, op :: ops => ParentOK s op ∧ ∀ s', stepWith pick opt s op = .ok s' → RunParentsOK pick opt s' ops

theorem basic_run {P : Int → Prop} {pick : State → AddSeg → Except Err Int} (hpk : PickSpecP pick P)
    {opt : State → Except Err State} (ho : OptSegs opt) :
    ∀ (ops : List Op) (s s' : State), BasicP P s → RunParentsOK pick opt s ops → runWith pick opt s ops = .ok s' → BasicP P s'
  | [], s, s', h, _, e => by unfold runWith at e; cases e; exact h
  | op :: ops, s, s', h, hok, e => by
    unfold runWith at e
    split at e
    · rename_i s1 e1
      exact basic_run hpk ho ops s1 s' (basic_step hpk ho h hok.1 e1) (hok.2 s1 e1) e
    · cases e

theorem basic_init {P : Int → Prop} : BasicP P init :=
  ⟨by decide, (fun x hx => by cases hx), (fun x hx => by cases hx)⟩

/-! ### the model's own `optimise_segment_groups` (both variants) meets `OptSpec` -/

theorem aligned_updGroup (g : String) (f : Group → Group) :
    ∀ (gs : List Group), (∀ X, look gs g = some X → (f X).id = X.id ∧ ∀ u, u ∈ (f X).includes ↔ u ∈ X.includes) →
      Aligned (updGroup g f gs) gs
  | [], _ => .nil
  | G :: gs, h => by
    unfold updGroup
    by_cases e : G.id = g
    · simp only [e, beq_self_eq_true, ↓reduceIte]
      have := h G (by rw [look_cons]; simp [e])
      exact .cons this.1 this.2 (Aligned.refl gs)
    · have e' : (G.id == g) = false := by simpa using e
      simp only [e', Bool.false_eq_true, ↓reduceIte]
      refine .cons rfl (fun _ => Iff.rfl) (aligned_updGroup g f gs ?_)
      intro X hX
      exact h X (by rw [look_cons]; simp [e, hX])

theorem flatMem_congr_set {gs gs' : List Group} (hm : ∀ k i, i ∈ mems gs' k ↔ i ∈ mems gs k)
    (hi : ∀ k u, u ∈ incs gs' k ↔ u ∈ incs gs k) (g : String) (i : Int) : FlatMem gs' g i ↔ FlatMem gs g i := by
  unfold FlatMem
  constructor
  · rintro (h | ⟨u, hu, h⟩)
    · exact Or.inl ((hm g i).mp h)
    · exact Or.inr ⟨u, (hi g u).mp hu, (hm u i).mp h⟩
  · rintro (h | ⟨u, hu, h⟩)
    · exact Or.inl ((hm g i).mpr h)
    · exact Or.inr ⟨u, (hi g u).mpr hu, (hm u i).mpr h⟩

/-- from "every id reads the same two-level set" back to the statement about `get_all_segments_in_group` -/
theorem res_of_flatMem {s s' : State} (hs : Str s.groups) (ha : Aligned s'.groups s.groups) (hsegs : s'.segs = s.segs)
    (hfm : ∀ g i, FlatMem s'.groups g i ↔ FlatMem s.groups g i) :
    ∀ g l, resolve s g = .ok l → ∃ l', resolve s' g = .ok l' ∧ ∀ i, i ∈ l' ↔ i ∈ l := by
  intro g l hl
  have hs' := str_aligned ha hs
  have hids : s'.ids = s.ids := by unfold State.ids; rw [hsegs]
  rcases ha.look g with ⟨e1, e2⟩ | ⟨G', G, e1, e2, _⟩
  · unfold resolve resolveAux at hl ⊢
    rw [e2] at hl
    rw [e1]
    simp only at hl ⊢
    split at hl
    · rename_i hg
      cases hl
      simp only [hg, ↓reduceIte, hids]
      exact ⟨s.ids, rfl, fun _ => Iff.rfl⟩
    · cases hl
  · obtain ⟨l0, hl0, hm0⟩ := resolve_flat s.ids hs.flat e2
    obtain ⟨l', hl', hm'⟩ := resolve_flat s'.ids hs'.flat e1
    unfold resolve at hl
    rw [hl0] at hl
    cases hl
    exact ⟨l', hl', fun i => by rw [hm', hm0, hfm]⟩

theorem setMI_basic (g : String) (ms : List Int) (is : List String) (s : State) :
    (setMI g ms is s).segs = s.segs ∧ (setMI g ms is s).memb = s.memb ∧ (setMI g ms is s).intra = s.intra :=
  ⟨rfl, rfl, rfl⟩

theorem setM_basic (g : String) (ms : List Int) (s : State) :
    (setM g ms s).segs = s.segs ∧ (setM g ms s).memb = s.memb ∧ (setM g ms s).intra = s.intra := ⟨rfl, rfl, rfl⟩

theorem mems_setMI {s : State} {g : String} {G : Group} (e : look s.groups g = some G) (ms : List Int) (is : List String)
    (k : String) : mems (setMI g ms is s).groups k = if k = g then ms else mems s.groups k := by
  unfold setMI
  simp only
  rw [mems_updGroup g (fun G => { G with members := ms, includes := is }) (fun _ => rfl), e]

theorem incs_setMI {s : State} {g : String} {G : Group} (e : look s.groups g = some G) (ms : List Int) (is : List String)
    (k : String) : incs (setMI g ms is s).groups k = if k = g then is else incs s.groups k := by
  unfold setMI
  simp only
  rw [incs_updGroup g (fun G => { G with members := ms, includes := is }) (fun _ => rfl), e]

theorem mems_setM {s : State} {g : String} {G : Group} (e : look s.groups g = some G) (ms : List Int)
    (k : String) : mems (setM g ms s).groups k = if k = g then ms else mems s.groups k := by
  unfold setM
  simp only
  rw [mems_updGroup g (fun G => { G with members := ms }) (fun _ => rfl), e]

theorem incs_setM (s : State) (g : String) (ms : List Int) (k : String) :
    incs (setM g ms s).groups k = incs s.groups k := by
  unfold setM
  simp only
  rw [incs_updGroup g (fun G => { G with members := ms }) (fun _ => rfl)]
  by_cases e : k = g
  · subst e
    unfold incs
    cases look s.groups k <;> simp
  · simp [e]

theorem aligned_setMI {s : State} {g : String} {G : Group} (e : look s.groups g = some G) (ms : List Int)
    (is : List String) (his : ∀ u, u ∈ is ↔ u ∈ G.includes) : Aligned (setMI g ms is s).groups s.groups := by
  unfold setMI
  refine aligned_updGroup g _ s.groups ?_
  intro X hX
  rw [e] at hX
  cases hX
  exact ⟨rfl, his⟩

theorem aligned_setM (s : State) (g : String) (ms : List Int) : Aligned (setM g ms s).groups s.groups := by
  unfold setM
  exact aligned_updGroup g _ s.groups (fun X _ => ⟨rfl, fun _ => Iff.rfl⟩)

theorem coveredBy_ok (rec : String → Except Err (List Int)) (f : String → List Int) :
    ∀ (us : List String) (acc cov : List Int), (∀ u ∈ us, ∃ l, rec u = .ok l ∧ ∀ i, i ∈ l ↔ i ∈ f u) →
      coveredBy rec us acc = .ok cov → ∀ i, i ∈ cov ↔ i ∈ acc ∨ ∃ u ∈ us, i ∈ f u
  | [], acc, cov, _, e => by unfold coveredBy at e; cases e; simp
  | u :: us, acc, cov, h, e => by
    unfold coveredBy at e
    obtain ⟨l, hl, hm⟩ := h u (by simp)
    rw [hl] at e
    simp only at e
    intro i
    rw [coveredBy_ok rec f us (acc ++ l) cov (fun v hv => h v (by simp [hv])) e i]
    simp only [List.mem_append, List.mem_cons, exists_eq_or_imp, hm]
    constructor
    · rintro ((h1 | h1) | h1)
      · exact Or.inl h1
      · exact Or.inr (Or.inl h1)
      · exact Or.inr (Or.inr h1)
    · rintro (h1 | h1 | h1)
      · exact Or.inl (Or.inl h1)
      · exact Or.inl (Or.inr h1)
      · exact Or.inr h1

theorem survivorsCur_ok (rec : String → Except Err (List Int)) (f : String → List Int) (members : List Int) :
    ∀ (us : List String) (acc ms : List Int), (∀ u ∈ us, ∃ l, rec u = .ok l ∧ ∀ i, i ∈ l ↔ i ∈ f u) →
      survivorsCur rec members us acc = .ok ms → ∀ i, i ∈ ms ↔ i ∈ acc ∨ (i ∈ members ∧ ∃ u ∈ us, i ∉ f u)
  | [], acc, ms, _, e => by unfold survivorsCur at e; cases e; simp
  | u :: us, acc, ms, h, e => by
    unfold survivorsCur at e
    obtain ⟨l, hl, hm⟩ := h u (by simp)
    rw [hl] at e
    simp only at e
    intro i
    rw [survivorsCur_ok rec f members us _ ms (fun v hv => h v (by simp [hv])) e i]
    simp only [List.mem_append, List.mem_filter, List.mem_cons, exists_eq_or_imp, Bool.not_eq_eq_eq_not,
      Bool.not_true, List.contains_eq_mem, decide_eq_false_iff_not, hm]
    constructor
    · rintro ((h1 | ⟨h1, h2⟩) | ⟨h1, h2⟩)
      · exact Or.inl h1
      · exact Or.inr ⟨h1, Or.inl h2⟩
      · exact Or.inr ⟨h1, Or.inr h2⟩
    · rintro (h1 | ⟨h1, h2 | h2⟩)
      · exact Or.inl (Or.inl h1)
      · exact Or.inl (Or.inr ⟨h1, h2⟩)
      · exact Or.inr ⟨h1, h2⟩

/-- what stays after pruning: the members no include covers, as a set — for both variants of the loop -/
theorem prune_ok (cfg : Cfg) {s1 : State} (hs1 : Str s1.groups) {g : String} {G1 : Group} (e1 : look s1.groups g = some G1)
    (members : List Int) (hne : G1.includes ≠ []) {ms : List Int}
    (e : prune cfg s1 members G1.includes = .ok ms) (i : Int) :
    (i ∈ ms ∨ ∃ u ∈ G1.includes, i ∈ mems s1.groups u) ↔ (i ∈ members ∨ ∃ u ∈ G1.includes, i ∈ mems s1.groups u) := by
  -- every include is a leaf that resolves to its members
  have hleaf : ∀ u ∈ G1.includes, ∃ l, resolve s1 u = .ok l ∧ ∀ i, i ∈ l ↔ i ∈ mems s1.groups u := by
    intro u hu
    obtain ⟨_, hnd, hsome⟩ := hs1.flat G1 (look_some_mem e1) u hu
    cases eu : look s1.groups u with
    | none => rw [eu] at hsome; cases hsome
    | some U =>
      obtain ⟨l, hl, hm⟩ := resolve_flat s1.ids hs1.flat eu
      exact ⟨l, hl, fun i => (hm i).trans (flatMem_nondefault hs1.flat hnd i)⟩
  unfold prune at e
  by_cases hcov : ∃ u ∈ G1.includes, i ∈ mems s1.groups u
  · exact ⟨fun _ => Or.inr hcov, fun _ => Or.inr hcov⟩
  · split at e
    · split at e
      · rename_i cov ec
        cases e
        have := coveredBy_ok (resolve s1) (mems s1.groups) G1.includes [] cov hleaf ec i
        simp only [List.not_mem_nil, false_or] at this
        simp only [List.mem_filter, Bool.not_eq_eq_eq_not, Bool.not_true, List.contains_eq_mem,
          decide_eq_false_iff_not, this]
        constructor
        · rintro (⟨h1, _⟩ | h1)
          · exact Or.inl h1
          · exact Or.inr h1
        · rintro (h1 | h1)
          · exact Or.inl ⟨h1, hcov⟩
          · exact Or.inr h1
      · cases e
    · have := survivorsCur_ok (resolve s1) (mems s1.groups) members G1.includes [] ms hleaf e i
      simp only [List.not_mem_nil, false_or] at this
      rw [this]
      constructor
      · rintro (⟨h1, _⟩ | h1)
        · exact Or.inl h1
        · exact Or.inr h1
      · rintro (h1 | h1)
        · refine Or.inl ⟨h1, ?_⟩
          cases hI : G1.includes with
          | nil => exact absurd hI hne
          | cons u0 us =>
            refine ⟨u0, by simp, ?_⟩
            intro hmem
            exact hcov ⟨u0, by rw [hI]; simp, hmem⟩
        · exact Or.inr h1

theorem optimiseGroup_basic {cfg : Cfg} {s s' : State} {g : String} (e : optimiseGroup cfg s g = .ok s') :
    s'.segs = s.segs ∧ s'.memb = s.memb ∧ s'.intra = s.intra ∧ Aligned s'.groups s.groups := by
  unfold optimiseGroup at e
  split at e
  · cases e
  rename_i G eG
  have eL : look s.groups g = some G := by
    unfold findGroup at eG
    split at eG
    · cases eG
    · exact eG
  have ha1 := aligned_setMI eL (dedup G.members) (dedupStr G.includes) (mem_dedupStr G.includes)
  simp only at e
  split at e
  · split at e
    · cases e
      exact ⟨rfl, rfl, rfl, (aligned_setM _ g _).trans ha1⟩
    · cases e
  · cases e
    exact ⟨rfl, rfl, rfl, ha1⟩

theorem optimiseGroup_flatMem {cfg : Cfg} {s s' : State} {g : String} (hs : Str s.groups)
    (e : optimiseGroup cfg s g = .ok s') : ∀ h i, FlatMem s'.groups h i ↔ FlatMem s.groups h i := by
  unfold optimiseGroup at e
  split at e
  · cases e
  rename_i G eG
  have eL : look s.groups g = some G := by
    unfold findGroup at eG
    split at eG
    · cases eG
    · exact eG
  have hGm : mems s.groups g = G.members := by unfold mems; rw [eL]
  have hGi : incs s.groups g = G.includes := by unfold incs; rw [eL]
  let s1 := setMI g (dedup G.members) (dedupStr G.includes) s
  have ha1 : Aligned s1.groups s.groups := aligned_setMI eL _ _ (mem_dedupStr G.includes)
  have hs1 : Str s1.groups := str_aligned ha1 hs
  have hm1 : ∀ k i, i ∈ mems s1.groups k ↔ i ∈ mems s.groups k := by
    intro k i
    rw [mems_setMI eL]
    by_cases ek : k = g
    · subst ek; simp only [↓reduceIte, mem_dedup, hGm]
    · simp only [ek, ↓reduceIte]
  have hi1 : ∀ k u, u ∈ incs s1.groups k ↔ u ∈ incs s.groups k := by
    intro k u
    rw [incs_setMI eL]
    by_cases ek : k = g
    · subst ek; simp only [↓reduceIte, mem_dedupStr, hGi]
    · simp only [ek, ↓reduceIte]
  have hfm1 : ∀ h i, FlatMem s1.groups h i ↔ FlatMem s.groups h i := flatMem_congr_set hm1 hi1
  simp only at e
  split at e
  · rename_i hcond
    split at e
    · rename_i ms ep
      cases e
      -- the first group called `g` in `s1`
      have hsome1 : (look s1.groups g).isSome := by rw [look_isSome_of_ids ha1.ids]; rw [eL]; rfl
      cases e1 : look s1.groups g with
      | none => rw [e1] at hsome1; cases hsome1
      | some G1 =>
        have hG1m : mems s1.groups g = dedup G.members := by rw [mems_setMI eL]; simp
        have hG1i : incs s1.groups g = dedupStr G.includes := by rw [incs_setMI eL]; simp
        have hG1i' : G1.includes = dedupStr G.includes := by
          have : incs s1.groups g = G1.includes := by unfold incs; rw [e1]
          rw [← this, hG1i]
        -- `g` has includes, so it is a default group and nobody includes it
        have hgdef : isDefaultName g = true := by
          cases hI : G1.includes with
          | nil => rw [hG1i'] at hI; exact absurd hI hcond.1
          | cons u0 us =>
            have := (hs1.flat G1 (look_some_mem e1) u0 (by rw [hI]; simp)).1
            rw [look_some_id e1] at this
            exact this
        have hnotinc : ∀ k u, u ∈ incs s1.groups k → u ≠ g := by
          intro k u hu e
          subst e
          unfold incs at hu
          cases ek : look s1.groups k with
          | none => rw [ek] at hu; cases hu
          | some K =>
            rw [ek] at hu
            have := (hs1.flat K (look_some_mem ek) u hu).2.1
            rw [hgdef] at this
            cases this
        have hprune := prune_ok cfg hs1 e1 (dedup G.members) (by rw [hG1i']; exact hcond.1) (by rw [hG1i']; exact ep)
        intro h i
        rw [← hfm1 h i]
        unfold FlatMem
        rw [incs_setM]
        by_cases eh : h = g
        · subst eh
          rw [mems_setM e1]
          simp only [↓reduceIte, mem_natSort]
          have hrest : ∀ u ∈ incs s1.groups h, mems (setM h (natSort ms) s1).groups u = mems s1.groups u := by
            intro u hu; rw [mems_setM e1]; simp only [hnotinc h u hu, ↓reduceIte]
          have hi' : incs s1.groups h = G1.includes := by unfold incs; rw [e1]
          have := hprune i
          rw [← hi'] at this
          rw [hG1m]
          constructor
          · rintro (h1 | ⟨u, hu, h1⟩)
            · exact this.mp (Or.inl h1)
            · rw [hrest u hu] at h1; exact Or.inr ⟨u, hu, h1⟩
          · intro h1
            rcases this.mpr h1 with h2 | ⟨u, hu, h2⟩
            · exact Or.inl h2
            · exact Or.inr ⟨u, hu, by rw [hrest u hu]; exact h2⟩
        · have hmh : mems (setM g (natSort ms) s1).groups h = mems s1.groups h := by
            rw [mems_setM e1]; simp only [eh, ↓reduceIte]
          rw [hmh]
          have hrest : ∀ u ∈ incs s1.groups h, mems (setM g (natSort ms) s1).groups u = mems s1.groups u := by
            intro u hu; rw [mems_setM e1]; simp only [hnotinc h u hu, ↓reduceIte]
          constructor
          · rintro (h1 | ⟨u, hu, h1⟩)
            · exact Or.inl h1
            · exact Or.inr ⟨u, hu, by rw [← hrest u hu]; exact h1⟩
          · rintro (h1 | ⟨u, hu, h1⟩)
            · exact Or.inl h1
            · exact Or.inr ⟨u, hu, by rw [hrest u hu]; exact h1⟩
    · cases e
  · cases e
    exact hfm1

theorem optimiseList_spec (cfg : Cfg) :
    ∀ (gs : List String) (s s' : State), optimiseList cfg gs s = .ok s' →
      (s'.segs = s.segs ∧ s'.memb = s.memb ∧ s'.intra = s.intra ∧ Aligned s'.groups s.groups) ∧
      (Str s.groups → ∀ h i, FlatMem s'.groups h i ↔ FlatMem s.groups h i)
  | [], s, s', e => by unfold optimiseList at e; cases e; exact ⟨⟨rfl, rfl, rfl, Aligned.refl _⟩, fun _ _ _ => Iff.rfl⟩
  | g :: gs, s, s', e => by
    unfold optimiseList at e
    split at e
    · rename_i s1 e1
      obtain ⟨⟨a1, a2, a3, a4⟩, a5⟩ := optimiseList_spec cfg gs s1 s' e
      obtain ⟨b1, b2, b3, b4⟩ := optimiseGroup_basic e1
      refine ⟨⟨a1.trans b1, a2.trans b2, a3.trans b3, a4.trans b4⟩, ?_⟩
      intro hs h i
      rw [a5 (str_aligned b4 hs) h i]
      exact optimiseGroup_flatMem hs e1 h i
    · cases e

/-- the model's `optimise_segment_groups` (shipped and C14-repaired loop alike) satisfies `OptSpec` -/
theorem optSpec_optimiseAll (cfg : Cfg) : OptSpec (optimiseAll cfg) := by
  refine ⟨?_, ?_, ?_, ?_, ?_⟩
  · intro s s' e; exact (optimiseList_spec cfg _ s s' e).1.1
  · intro s s' e; exact (optimiseList_spec cfg _ s s' e).1.2.1
  · intro s s' e; exact (optimiseList_spec cfg _ s s' e).1.2.2.1
  · intro s s' e; exact (optimiseList_spec cfg _ s s' e).1.2.2.2
  · intro s s' hs e
    obtain ⟨⟨a1, _, _, a4⟩, a5⟩ := optimiseList_spec cfg _ s s' e
    exact res_of_flatMem hs a4 a1 (a5 hs)

theorem optSpec_id : OptSpec (fun s => .ok s) := by
  refine ⟨?_, ?_, ?_, ?_, ?_⟩
  · intro s s' e; cases e; rfl
  · intro s s' e; cases e; rfl
  · intro s s' e; cases e; rfl
  · intro s s' e; cases e; exact Aligned.refl _
  · intro s s' _ e g l hl; cases e; exact ⟨l, hl, fun _ => Iff.rfl⟩

theorem optSegs_of_optSpec {opt : State → Except Err State} (h : OptSpec opt) : OptSegs opt := h.segs

end NmlVerif.Builder
