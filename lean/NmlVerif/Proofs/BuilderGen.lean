import NmlVerif.Model.BuilderIR
import NmlVerif.Proofs.Builder
/-!
C15, second pass (lemmas): the expected statement list of `add_segment` (vocabulary of `Model/BuilderIR.lean`) run
statement by statement computes the hand model `addSegmentWith (pickCfg …)`; `Props/C15Gen.lean` holds the theorems.
-/
set_option linter.unusedSimpArgs false
namespace NmlVerif.Builder
open NmlVerif.Builder.IR

def expectedTypeTable : List (String × List String) :=
  [("axon", ["all", "axon_group"]), ("soma", ["all", "soma_group"]), ("dendrite", ["all", "dendrite_group"])]

/-- `add_segment`, statement by statement; the optional statements are those of the two proposed repairs -/
def expectedStmts (idFx nmFx : Bool) (opt : State → Except Err State) : List Stmt :=
  [mkProx, mkDist, segidLen, refuseNoParent, mkParent, defaultId]
  ++ (if idFx then [castId, refuseNegative] else [])
  ++ [refuseInUse]
  ++ (if nmFx then [refuseForeignDefault] else [])
  ++ [mkSegment, localNone,
      ifGroupId [localNone, getOrCreateGroup, appendMember],
      ifUseConvention [requireSegType, typeChain expectedTypeTable, includeOrMember, ifReorder],
      nameSegment, appendSegment, ifOptimise opt, returnSegment]

theorem autoId_norm (b : Bool) (s : State) (a : AddSeg) : autoId s (normArg b a) = autoId s a := by cases b <;> rfl
theorem foreignDefault_norm (b : Bool) (a : AddSeg) : foreignDefault (normArg b a) = foreignDefault a := by cases b <;> rfl
theorem useConv_norm (b : Bool) (a : AddSeg) : (normArg b a).useConv = a.useConv := by cases b <;> rfl
theorem lex_norm_true (a : AddSeg) : (normArg true a).lex = false := rfl
theorem norm_false (a : AddSeg) : normArg false a = a := rfl

/-! ### the tail common to all variants: from `segment = component_factory("Segment", …)` on -/

def tailStmts (opt : State → Except Err State) : List Stmt :=
  [mkSegment, localNone,
   ifGroupId [localNone, getOrCreateGroup, appendMember],
   ifUseConvention [requireSegType, typeChain expectedTypeTable, includeOrMember, ifReorder],
   nameSegment, appendSegment, ifOptimise opt, returnSegment]

/-- what the hand model does once the id is chosen -/
def tailModel (opt : State → Except Err State) (s : State) (a : AddSeg) (id : Int) : Except Err State :=
  if a.prox = .short ∨ a.dist = .short then .error .unboundLocalError else
  let gid := a.groupId.getD ""
  let s1 := userStep s gid id
  if a.useConv then
    match parseType a.segType with
    | none => .error .valueError
    | some t =>
      let s4 := convStep s1 gid id t a.reorder
      appendSeg opt s4 (mkSeg s4 a gid id (some t)) a.optimise
  else appendSeg opt s1 (mkSeg s1 a gid id none) a.optimise

def ctxState : Except Err Ctx → Except Err State
  | .ok c => .ok c.s
  | .error e => .error e

theorem typeChain_eq (c : Ctx) :
    typeChain expectedTypeTable c =
      match parseType c.a.segType with
      | none => .error .valueError
      | some t => .ok { c with s := setupDefault c.s true ["all", t.group], t := some t } := by
  unfold typeChain expectedTypeTable
  cases hst : c.a.segType with
  | none => simp [parseType]
  | some x =>
    by_cases h1 : x = "axon"
    · subst h1; simp [parseType, SegType.group]
    by_cases h2 : x = "soma"
    · subst h2; simp [parseType, SegType.group]
    by_cases h3 : x = "dendrite"
    · subst h3; simp [parseType, SegType.group]
    have hp : parseType (some x) = none := by
      unfold parseType
      split <;> simp_all
    simp [hp, h1, h2, h3, Ne.symm h1, Ne.symm h2, Ne.symm h3]

theorem parseType_none_of_empty {o : Option String} (h : o = none ∨ o = some "") : parseType o = none := by
  rcases h with h | h <;> subst h <;> rfl

theorem tail_eq (opt : State → Except Err State) (c : Ctx) (ht : c.t = none) :
    ctxState (runStmts (tailStmts opt) c) = tailModel opt c.s c.a c.segId := by
  obtain ⟨s, a, id, t⟩ := c
  simp only at ht
  subst ht
  unfold tailModel tailStmts
  simp only [runStmts, mkSegment]
  by_cases hshort : a.prox = .short ∨ a.dist = .short
  · simp only [hshort, ↓reduceIte, ctxState]
  simp only [hshort, ↓reduceIte, localNone]
  -- the user group
  have hgrp : ifGroupId [localNone, getOrCreateGroup, appendMember] { s := s, a := a, segId := id, t := none }
      = .ok { s := userStep s (a.groupId.getD "") id, a := a, segId := id, t := none } := by
    unfold ifGroupId userStep
    by_cases hg : a.groupId.getD "" = ""
    · simp [gid, hg]
    · simp [gid, hg, runStmts, localNone, getOrCreateGroup, appendMember]
  rw [hgrp]
  simp only
  generalize userStep s (a.groupId.getD "") id = s1
  cases hconv : a.useConv with
  | false =>
    simp only [ifUseConvention, hconv, Bool.false_eq_true, ↓reduceIte, nameSegment, appendSegment, ifOptimise, returnSegment,
      appendSeg, gid]
    cases hopt : a.optimise with
    | false => simp only [Bool.false_eq_true, ↓reduceIte, ctxState]
    | true =>
      simp only [↓reduceIte]
      cases opt _ <;> simp only [ctxState]
  | true =>
    simp only [ifUseConvention, hconv, ↓reduceIte, runStmts, requireSegType]
    by_cases hempty : a.segType = none ∨ a.segType = some ""
    · simp only [hempty, ↓reduceIte, ctxState, parseType_none_of_empty hempty]
    simp only [hempty, ↓reduceIte]
    rw [typeChain_eq]
    simp only
    cases hpt : parseType a.segType with
    | none => simp only [ctxState]
    | some t =>
      simp only [includeOrMember, gid, ifReorder]
      have hconvStep : ∀ (b : Bool),
          (if b = true then reorder (if a.groupId.getD "" ≠ "" ∧ a.groupId.getD "" ≠ t.group
                then addInclude (addInclude (setupDefault s1 true ["all", t.group]) t.group (a.groupId.getD "")) "all" (a.groupId.getD "")
                else addMember (addMember (setupDefault s1 true ["all", t.group]) t.group id) "all" id)
           else (if a.groupId.getD "" ≠ "" ∧ a.groupId.getD "" ≠ t.group
                then addInclude (addInclude (setupDefault s1 true ["all", t.group]) t.group (a.groupId.getD "")) "all" (a.groupId.getD "")
                else addMember (addMember (setupDefault s1 true ["all", t.group]) t.group id) "all" id))
          = convStep s1 (a.groupId.getD "") id t b := by
        intro b; unfold convStep; rfl
      by_cases hinc : a.groupId.getD "" ≠ "" ∧ a.groupId.getD "" ≠ t.group
      · simp only [hinc, and_self, ↓reduceIte, ne_eq, not_false_eq_true]
        have := hconvStep a.reorder
        simp only [hinc, and_self, ↓reduceIte, ne_eq, not_false_eq_true] at this
        cases hro : a.reorder <;> rw [hro] at this <;>
          simp only [Bool.false_eq_true, ↓reduceIte] at this ⊢ <;>
          simp only [nameSegment, appendSegment, ifOptimise, returnSegment, appendSeg, gid, ← this] <;>
          (cases hopt : a.optimise <;> simp only [Bool.false_eq_true, ↓reduceIte, ctxState] <;> (try (cases opt _ <;> simp only [ctxState])))
      · have := hconvStep a.reorder
        simp only [hinc, ↓reduceIte] at this ⊢
        cases hro : a.reorder <;> rw [hro] at this <;>
          simp only [Bool.false_eq_true, ↓reduceIte] at this ⊢ <;>
          simp only [nameSegment, appendSegment, ifOptimise, returnSegment, appendSeg, gid, ← this] <;>
          (cases hopt : a.optimise <;> simp only [Bool.false_eq_true, ↓reduceIte, ctxState] <;> (try (cases opt _ <;> simp only [ctxState])))

/-! ### the head: everything `add_segment` refuses before it changes the cell -/

def headStmts (idFx nmFx : Bool) : List Stmt :=
  [mkProx, mkDist, segidLen, refuseNoParent, mkParent, defaultId]
  ++ (if idFx then [castId, refuseNegative] else [])
  ++ [refuseInUse]
  ++ (if nmFx then [refuseForeignDefault] else [])

theorem expectedStmts_split (idFx nmFx : Bool) (opt : State → Except Err State) :
    expectedStmts idFx nmFx opt = headStmts idFx nmFx ++ tailStmts opt := by
  cases idFx <;> cases nmFx <;> rfl

theorem runStmts_append : ∀ (l1 l2 : List Stmt) (c : Ctx),
    runStmts (l1 ++ l2) c = match runStmts l1 c with | .ok c' => runStmts l2 c' | .error e => .error e
  | [], _, _ => rfl
  | st :: l1, l2, c => by
    simp only [List.cons_append, runStmts]
    cases st c with
    | ok c' => exact runStmts_append l1 l2 c'
    | error e => rfl

/-- the checks of the hand model in front of the mutation -/
def headModel (idFx nmFx : Bool) (s : State) (a : AddSeg) : Except Err Ctx :=
  if a.prox = .badDiam ∨ a.dist = .badDiam then .error .valueError else
  if s.segs.length > 0 ∧ a.parent.isNone then .error .exception else
  if a.parent.isSome ∧ ¬ (0 ≤ a.frac4 ∧ a.frac4 ≤ 4) then .error .valueError else
  match pickCfg idFx nmFx s (normArg idFx a) with
  | .error e => .error e
  | .ok id => .ok { s := s, a := normArg idFx a, segId := id, t := none }

theorem head_eq (idFx nmFx : Bool) (s : State) (a : AddSeg) :
    runStmts (headStmts idFx nmFx) { s := s, a := a } = headModel idFx nmFx s a := by
  unfold headModel
  by_cases h1 : a.prox = .badDiam
  · cases idFx <;> cases nmFx <;> simp [headStmts, runStmts, mkProx, h1]
  by_cases h2 : a.dist = .badDiam
  · cases idFx <;> cases nmFx <;> simp [headStmts, runStmts, mkProx, mkDist, h1, h2]
  by_cases h3 : s.segs.length > 0 ∧ a.parent.isNone
  · cases idFx <;> cases nmFx <;> simp [headStmts, runStmts, mkProx, mkDist, segidLen, refuseNoParent, h1, h2, h3]
  by_cases h4 : a.parent.isSome ∧ ¬ (0 ≤ a.frac4 ∧ a.frac4 ≤ 4)
  · cases idFx <;> cases nmFx <;>
      simp only [headStmts, runStmts, mkProx, mkDist, segidLen, refuseNoParent, mkParent, h1, h2, h3, h4, or_self, and_self,
        ↓reduceIte, List.append_nil, List.cons_append, List.nil_append, Bool.false_eq_true, not_false_eq_true]
  have h12 : ¬ (a.prox = .badDiam ∨ a.dist = .badDiam) := fun h => h.elim h1 h2
  simp only [h12, h3, h4, ↓reduceIte]
  have hpre : ∀ rest, runStmts ([mkProx, mkDist, segidLen, refuseNoParent, mkParent] ++ rest) { s := s, a := a }
      = runStmts rest { s := s, a := a } := by
    intro rest
    simp only [List.cons_append, List.nil_append, runStmts, mkProx, mkDist, segidLen, refuseNoParent, mkParent, h1, h2, h3, h4,
      ↓reduceIte]
  have hsplit : headStmts idFx nmFx = [mkProx, mkDist, segidLen, refuseNoParent, mkParent] ++
      ([defaultId] ++ (if idFx then [castId, refuseNegative] else []) ++ [refuseInUse]
        ++ (if nmFx then [refuseForeignDefault] else [])) := by cases idFx <;> cases nmFx <;> rfl
  rw [hsplit, hpre]
  by_cases hin : autoId s a ∈ s.ids <;> by_cases hlex : a.lex = false <;> by_cases hneg : autoId s a < 0 <;>
    by_cases hu : a.useConv = true <;> by_cases hfd : foreignDefault a = true <;>
    cases idFx <;> cases nmFx <;>
    simp [runStmts, defaultId, castId, refuseNegative,
      refuseInUse, refuseForeignDefault, pickCfg, autoId_norm, foreignDefault_norm, useConv_norm,
      lex_norm_true, norm_false, hin, hlex, hneg, hu, hfd]

end NmlVerif.Builder
