import NmlVerif.Proofs.Builder
/-!
C15, second pass: what a raising call leaves behind (`leaveWith`), and the normalisation of lexical id forms on a tree
with the proposed id repair.
-/
namespace NmlVerif.Builder

/-! ### a raising call and the ids -/

/-- what the proofs about ids need of the state a raising `optimise_segment_groups()` leaves: segments untouched -/
def OptLSegs (optL : State → State) : Prop := ∀ s, (optL s).segs = s.segs

theorem segs_setMI (g : String) (ms : List Int) (is : List String) (s : State) : (setMI g ms is s).segs = s.segs := rfl
theorem segs_setM (g : String) (ms : List Int) (s : State) : (setM g ms s).segs = s.segs := rfl

theorem segs_optimiseGroup {cfg : Cfg} {s s' : State} {g : String} (e : optimiseGroup cfg s g = .ok s') : s'.segs = s.segs := by
  unfold optimiseGroup at e
  split at e
  · cases e
  · simp only at e
    split at e
    · split at e
      · cases e; rfl
      · cases e
    · cases e; rfl

theorem segs_optimiseGroupLeave (s : State) (g : String) : (optimiseGroupLeave s g).segs = s.segs := by
  unfold optimiseGroupLeave; split <;> rfl

theorem segs_optimiseListLeave (cfg : Cfg) : ∀ (gs : List String) (s : State), (optimiseListLeave cfg gs s).segs = s.segs
  | [], _ => rfl
  | g :: gs, s => by
    unfold optimiseListLeave
    split
    · rename_i s' e
      rw [segs_optimiseListLeave cfg gs s', segs_optimiseGroup e]
    · exact segs_optimiseGroupLeave s g

theorem optLSegs_optimiseAllLeave (cfg : Cfg) : OptLSegs (optimiseAllLeave cfg) :=
  fun s => segs_optimiseListLeave cfg _ s

theorem segs_optOrLeave {opt : State → Except Err State} {optL : State → State} (ho : OptSegs opt) (hl : OptLSegs optL)
    (s : State) : (optOrLeave opt optL s).segs = s.segs := by
  unfold optOrLeave
  split
  · rename_i s' e; exact ho _ _ e
  · exact hl s

theorem basic_addSegmentLeave {P : Int → Prop} {pick : State → AddSeg → Except Err Int} (hpk : PickSpecP pick P)
    {opt : State → Except Err State} {optL : State → State} (ho : OptSegs opt) (hl : OptLSegs optL) {s : State} {a : AddSeg}
    (h : BasicP P s) (hp : ∀ p, a.parent = some p → p ∈ s.ids) (hlex : a.lex = false) :
    BasicP P (addSegmentLeave pick opt optL s a) := by
  unfold addSegmentLeave
  split
  · exact h
  split
  · exact h
  split
  · exact h
  split
  · exact h
  rename_i id hpick
  obtain ⟨hid, hPid⟩ := hpk _ _ _ hlex hpick
  split
  · exact h
  simp only
  generalize a.groupId.getD "" = gid
  split
  · split
    · exact basic_of_segs h (segs_userStep _ _ _)
    · rename_i t _
      generalize hs4 : convStep (userStep s gid id) gid id t a.reorder = s4
      have hs4segs : s4.segs = s.segs := by rw [← hs4, segs_convStep, segs_userStep]
      split
      · refine basic_snoc (seg := mkSeg s4 a gid id (some t)) h ?_ hid hp hPid
        rw [segs_optOrLeave ho hl]
        show s4.segs ++ _ = _
        rw [hs4segs]
      · refine basic_snoc (seg := mkSeg s4 a gid id (some t)) h ?_ hid hp hPid
        show s4.segs ++ _ = _
        rw [hs4segs]
  · generalize hs1 : userStep s gid id = s1
    have hs1segs : s1.segs = s.segs := by rw [← hs1, segs_userStep]
    split
    · refine basic_snoc (seg := mkSeg s1 a gid id none) h ?_ hid hp hPid
      rw [segs_optOrLeave ho hl]
      show s1.segs ++ _ = _
      rw [hs1segs]
    · refine basic_snoc (seg := mkSeg s1 a gid id none) h ?_ hid hp hPid
      show s1.segs ++ _ = _
      rw [hs1segs]

theorem basic_unbRestLeave {P : Int → Prop} {pick : State → AddSeg → Except Err Int} (hpk : PickSpecP pick P)
    {opt : State → Except Err State} {optL : State → State} (ho : OptSegs opt) (hl : OptLSegs optL) (u : AddUnb) :
    ∀ (k : Nat) (s : State), BasicP P s →
      BasicP P (unbRestLeave (addSegmentWith pick opt) (addSegmentLeave pick opt optL) u k s).2 ∧
      ∀ s3, (unbRestLeave (addSegmentWith pick opt) (addSegmentLeave pick opt optL) u k s).1 = some s3 → BasicP P s3 := by
  intro k
  induction k with
  | zero => intro s h; exact ⟨h, fun s3 e => by cases e; exact h⟩
  | succ k ih =>
    intro s h
    unfold unbRestLeave
    split
    · rename_i s1 e1
      exact ih s1 (basic_addSegment hpk ho h (fun p hp => lastId_mem hp) rfl e1).1
    · refine ⟨?_, fun s3 e => by cases e⟩
      show BasicP P (addSegmentLeave pick opt optL s (unbSeg u (lastId s) 4))
      exact basic_addSegmentLeave hpk ho hl h (fun p hp => lastId_mem hp) rfl

/-- **ids unique and parents present survive a caught exception**: whatever a call leaves behind (returned or raised) -/
theorem basic_leave {P : Int → Prop} {pick : State → AddSeg → Except Err Int} (hpk : PickSpecP pick P)
    {opt : State → Except Err State} {optL : State → State} (ho : OptSegs opt) (hl : OptLSegs optL) {s : State} {op : Op}
    (h : BasicP P s) (hok : ParentOK s op) : BasicP P (leaveWith pick opt optL s op) := by
  have generic : ∀ op', (∀ s', stepWith pick opt s op' = .ok s' → BasicP P s') →
      BasicP P (match stepWith pick opt s op' with | .ok s' => s' | .error _ => s) := by
    intro op' hh
    split
    · rename_i s' e; exact hh s' e
    · exact h
  cases op with
  | addSegment a => exact basic_addSegmentLeave (a := { a with lex := false }) hpk ho hl h hok rfl
  | addSegmentLex a => exact absurd hok id
  | addUnbranched u =>
    simp only [leaveWith]
    unfold addUnbranchedLeave
    split
    · exact h
    simp only
    have h1 : BasicP P (ensureGroup s (u.groupId.getD "") (some sectionNlx) u.groupId.isNone) := basic_of_segs h (segs_ensureGroup _ _ _)
    have hp1 : ∀ p, (unbSeg u u.parent u.frac4).parent = some p →
        p ∈ (ensureGroup s (u.groupId.getD "") (some sectionNlx) u.groupId.isNone).ids := by
      intro p hp; unfold State.ids; rw [segs_ensureGroup]; exact hok p hp
    split
    · exact basic_addSegmentLeave hpk ho hl h1 hp1 rfl
    · rename_i s2 e2
      have h2 := (basic_addSegment hpk ho h1 hp1 rfl e2).1
      have h3 := basic_unbRestLeave hpk ho hl u (u.npoints - 2) s2 h2
      split
      · rename_i sL e3; rw [e3] at h3; exact h3.1
      · rename_i s3 x e3
        rw [e3] at h3
        have h3' := h3.2 s3 rfl
        have h4 : BasicP P (if u.reorder then reorder s3 else s3) := by
          split
          · exact basic_of_segs h3' rfl
          · exact h3'
        split
        · exact basic_of_segs h4 (segs_optOrLeave ho hl _)
        · exact h4
  | optimise => simp only [leaveWith]; exact basic_of_segs h (segs_optOrLeave ho hl s)
  | addIntra p =>
    simp only [leaveWith]
    split
    · rename_i s' e; exact basic_step hpk ho h (op := .addIntra p) trivial (by simpa only [stepWith] using e)
    · exact h
  | addSegmentGroup g => exact generic _ (fun s' e => basic_step hpk ho h (op := .addSegmentGroup g) trivial e)
  | addUnbranchedSegmentGroup g => exact generic _ (fun s' e => basic_step hpk ho h (op := .addUnbranchedSegmentGroup g) trivial e)
  | setupDefault c n => exact generic _ (fun s' e => basic_step hpk ho h (op := .setupDefault c n) trivial e)
  | setupNmlCell c o n => exact generic _ (fun s' e => basic_step hpk ho h (op := .setupNmlCell c o n) trivial e)
  | reorder => exact generic _ (fun s' e => basic_step hpk ho h (op := .reorder) trivial e)
  | addMembrane p => exact generic _ (fun s' e => basic_step hpk ho h (op := .addMembrane p) trivial e)
  | addChannelDensity c f => exact generic _ (fun s' e => basic_step hpk ho h (op := .addChannelDensity c f) trivial e)

/-- the hypotheses along a history with caught exceptions: the parent passed is a segment of the cell as it is then -/
def CaughtParentsOK (pick : State → AddSeg → Except Err Int) (opt : State → Except Err State) (optL : State → State) :
    State → List Op → Prop
  | _, [] => True
  | s, op :: ops => ParentOK s op ∧ CaughtParentsOK pick opt optL (leaveWith pick opt optL s op) ops

theorem basic_runCaught {P : Int → Prop} {pick : State → AddSeg → Except Err Int} (hpk : PickSpecP pick P)
    {opt : State → Except Err State} {optL : State → State} (ho : OptSegs opt) (hl : OptLSegs optL) :
    ∀ (ops : List Op) (s : State), BasicP P s → CaughtParentsOK pick opt optL s ops → BasicP P (runCaught pick opt optL s ops)
  | [], _, h, _ => h
  | op :: ops, s, h, hok => basic_runCaught hpk ho hl ops _ (basic_leave hpk ho hl h hok.1) hok.2

/-! ### `leaveWith` agrees with `stepWith` when the call returns -/

theorem addSegmentLeave_of_ok {pick : State → AddSeg → Except Err Int} {opt : State → Except Err State} {optL : State → State}
    {s s' : State} {a : AddSeg} (e : addSegmentWith pick opt s a = .ok s') : addSegmentLeave pick opt optL s a = s' := by
  unfold addSegmentWith at e
  unfold addSegmentLeave
  split at e
  · cases e
  rename_i c1
  split at e
  · cases e
  rename_i c2
  split at e
  · cases e
  rename_i c3
  simp only [c1, c2, c3, ↓reduceIte]
  split at e
  · cases e
  rename_i id hpick
  split at e
  · cases e
  rename_i c4
  simp only [c4, ↓reduceIte]
  simp only at e
  cases hcv : a.useConv <;> cases hop : a.optimise <;>
    simp only [hcv, hop, appendSeg, Bool.false_eq_true, ↓reduceIte] at e ⊢
  · cases e; rfl
  · unfold optOrLeave; rw [e]
  · split at e
    · cases e
    · cases e; rfl
  · split at e
    · cases e
    · unfold optOrLeave; rw [e]

/-! ### lexical id forms on a tree with the id repair are ordinary calls -/

def delex : Op → Op
  | .addSegmentLex a => .addSegment a
  | op => op

theorem addSegmentWith_lex_irrel {pick : State → AddSeg → Except Err Int} (hp : ∀ s a b, pick s { a with lex := b } = pick s a)
    (opt : State → Except Err State) (s : State) (a : AddSeg) (b : Bool) :
    addSegmentWith pick opt s { a with lex := b } = addSegmentWith pick opt s a := by
  unfold addSegmentWith
  rw [hp]
  rfl

theorem pickCfg_true_lex (nmFx : Bool) (s : State) (a : AddSeg) (b : Bool) :
    pickCfg true nmFx s { a with lex := b } = pickCfg true nmFx s a := by
  unfold pickCfg
  simp only [true_or, true_and]
  rfl

theorem step_delex (nmFx : Bool) (opt : State → Except Err State) (s : State) (op : Op) :
    stepWith (pickCfg true nmFx) opt s op = stepWith (pickCfg true nmFx) opt s (delex op) := by
  cases op with
  | addSegmentLex a =>
    show addSegmentWith (pickCfg true nmFx) opt s { a with lex := true } = addSegmentWith (pickCfg true nmFx) opt s { a with lex := false }
    exact (addSegmentWith_lex_irrel (pickCfg_true_lex nmFx) opt s a true).trans
      (addSegmentWith_lex_irrel (pickCfg_true_lex nmFx) opt s a false).symm
  | _ => rfl

theorem run_delex (nmFx : Bool) (opt : State → Except Err State) : ∀ (ops : List Op) (s : State),
    runWith (pickCfg true nmFx) opt s ops = runWith (pickCfg true nmFx) opt s (ops.map delex)
  | [], _ => rfl
  | op :: ops, s => by
    simp only [List.map_cons, runWith]
    rw [step_delex]
    split
    · exact run_delex nmFx opt ops _
    · rfl

end NmlVerif.Builder
