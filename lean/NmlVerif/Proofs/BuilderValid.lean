import NmlVerif.Props.C02
import NmlVerif.Model.BuilderObj
import NmlVerif.Proofs.Builder
/-!
# C15, validity clause (lemmas): the builder's cell satisfies the hypotheses of `c02_validate_accepts`

"A cell given its basic biophysical properties passes `validate(recursive=True)`": the cell state of the builder
model is mapped to a binding-level object tree (`cellObj`, `Model/BuilderObj.lean`) and shown to satisfy, at every
descendant and for every class of its MRO, every item the SCHEMA prescribes (required members present, occurrence
ranges, simple types) — the hypotheses of C02's `c02_validate_accepts` over today's regenerated tables
(`Gen/Bindings.lean`, `Gen/Xsd.lean`, tied by C03's per-run `tables_agree`).  What is left as decidable side
conditions: the facet checks of the concrete strings (`facetsOK st …`, for ANY simple-type checker `st`) and the
generated code's stand-in for "unbounded" (`maxOccurs = 9999999`, `small`).
-/
set_option linter.unusedSimpArgs false
namespace NmlVerif.Builder
open NmlVerif.Binding NmlVerif.Schema NmlVerif.Gen.Names

abbrev T := NmlVerif.Gen.Bindings.table
abbrev X := NmlVerif.Gen.Xsd.types

/-- the items the schema prescribes for an object of class `c`: own and inherited -/
def itemsOf (c : Nat) : List VItem :=
  (chain T T.length c).flatMap (fun k => match findType X k.name with | some x => schemaItems k x | none => [])

def nodeItemsOK (st : Nat → String → Bool) (o : Obj) : Bool := (itemsOf o.cls).all (itemOK st o)

/-! ### per-run kernel-checked facts about today's tables: the items of the classes a builder-made cell consists of -/

theorem items_Cell : itemsOf nm_Cell =
    [.req nm_morphology_attr false, .simple nm_NmlId nm_morphology_attr, .req nm_biophysical_properties_attr false, .simple nm_NmlId nm_biophysical_properties_attr, .card nm_morphology 0 1, .card nm_biophysical_properties 0 1, .req nm_neuro_lex_id false, .simple nm_NeuroLexId nm_neuro_lex_id, .req nm_metaid false, .simple nm_MetaId nm_metaid, .card nm_notes 0 1, .simple nm_Notes nm_notes, .card nm_properties 0 9999999, .card nm_annotation 0 1, .req nm_id true, .simple nm_NmlId nm_id] := by decide +kernel

theorem items_Morphology : itemsOf nm_Morphology =
    [.card nm_segments 1 9999999, .card nm_segment_groups 0 9999999, .req nm_metaid false, .simple nm_MetaId nm_metaid, .card nm_notes 0 1, .simple nm_Notes nm_notes, .card nm_properties 0 9999999, .card nm_annotation 0 1, .req nm_id true, .simple nm_NmlId nm_id] := by decide +kernel

theorem items_Segment : itemsOf nm_Segment =
    [.req nm_name false, .req nm_neuro_lex_id false, .simple nm_NeuroLexId nm_neuro_lex_id, .card nm_parent 0 1, .card nm_proximal 0 1, .card nm_distal 1 1, .req nm_id true, .simple nm_NonNegativeInteger nm_id] := by decide +kernel

theorem items_SegmentParent : itemsOf nm_SegmentParent =
    [.req nm_segments true, .simple nm_NonNegativeInteger nm_segments, .req nm_fraction_along false, .simple nm_ZeroToOne nm_fraction_along] := by decide +kernel

theorem items_Point3DWithDiam : itemsOf nm_Point3DWithDiam =
    [.req nm_x true, .req nm_y true, .req nm_z true, .req nm_diameter true, .simple nm_DoubleGreaterThanZero nm_diameter] := by decide +kernel

theorem items_SegmentGroup : itemsOf nm_SegmentGroup =
    [.req nm_neuro_lex_id false, .simple nm_NeuroLexId nm_neuro_lex_id, .card nm_notes 0 1, .simple nm_Notes nm_notes, .card nm_properties 0 9999999, .card nm_annotation 0 1, .card nm_members 0 9999999, .card nm_includes 0 9999999, .card nm_paths 0 9999999, .card nm_sub_trees 0 9999999, .card nm_inhomogeneous_parameters 0 9999999, .req nm_id true, .simple nm_NmlId nm_id] := by decide +kernel

theorem items_Member : itemsOf nm_Member =
    [.req nm_segments true, .simple nm_NonNegativeInteger nm_segments] := by decide +kernel

theorem items_Include : itemsOf nm_Include =
    [.req nm_segment_groups true, .simple nm_NmlId nm_segment_groups] := by decide +kernel

theorem items_BiophysicalProperties : itemsOf nm_BiophysicalProperties =
    [.card nm_membrane_properties 1 1, .card nm_intracellular_properties 0 1, .card nm_extracellular_properties 0 1, .req nm_metaid false, .simple nm_MetaId nm_metaid, .card nm_notes 0 1, .simple nm_Notes nm_notes, .card nm_properties 0 9999999, .card nm_annotation 0 1, .req nm_id true, .simple nm_NmlId nm_id] := by decide +kernel

theorem items_MembraneProperties : itemsOf nm_MembraneProperties =
    [.card nm_channel_populations 0 9999999, .card nm_channel_densities 0 9999999, .card nm_channel_density_v_shifts 0 9999999, .card nm_channel_density_nernsts 0 9999999, .card nm_channel_density_ghks 0 9999999, .card nm_channel_density_ghk2s 0 9999999, .card nm_channel_density_non_uniforms 0 9999999, .card nm_channel_density_non_uniform_nernsts 0 9999999, .card nm_channel_density_non_uniform_ghks 0 9999999, .card nm_spike_threshes 1 9999999, .card nm_specific_capacitances 1 9999999, .card nm_init_memb_potentials 1 9999999] := by decide +kernel

theorem items_IntracellularProperties : itemsOf nm_IntracellularProperties =
    [.card nm_species 0 9999999, .card nm_resistivities 0 9999999] := by decide +kernel

theorem items_SpikeThresh : itemsOf nm_SpikeThresh =
    [.req nm_value true, .simple nm_Nml2Quantity_voltage nm_value, .req nm_segment_groups false, .simple nm_NmlId nm_segment_groups] := by decide +kernel

theorem items_SpecificCapacitance : itemsOf nm_SpecificCapacitance =
    [.req nm_value true, .simple nm_Nml2Quantity_specificCapacitance nm_value, .req nm_segment_groups false, .simple nm_NmlId nm_segment_groups] := by decide +kernel

theorem items_InitMembPotential : itemsOf nm_InitMembPotential =
    [.req nm_value true, .simple nm_Nml2Quantity_voltage nm_value, .req nm_segment_groups false, .simple nm_NmlId nm_segment_groups] := by decide +kernel

theorem items_Resistivity : itemsOf nm_Resistivity =
    [.req nm_value true, .simple nm_Nml2Quantity_resistivity nm_value, .req nm_segment_groups false, .simple nm_NmlId nm_segment_groups] := by decide +kernel

theorem items_ChannelDensity : itemsOf nm_ChannelDensity =
    [.req nm_ion_channel true, .simple nm_NmlId nm_ion_channel, .req nm_cond_density false, .simple nm_Nml2Quantity_conductanceDensity nm_cond_density, .req nm_erev true, .simple nm_Nml2Quantity_voltage nm_erev, .req nm_segment_groups false, .simple nm_NmlId nm_segment_groups, .req nm_segments false, .simple nm_NonNegativeInteger nm_segments, .req nm_ion true, .simple nm_NmlId nm_ion, .card nm_variable_parameters 0 9999999, .req nm_id true, .simple nm_NmlId nm_id] := by decide +kernel

/-! ### generic lemmas -/

theorem chain_mem (T' : Table) : ∀ (f c : Nat) (k : ClassIR), k ∈ chain T' f c → k ∈ T'
  | 0, _, _, h => by simp [chain] at h
  | f+1, c, k, h => by
    unfold chain at h
    cases e : findClass T' c with
    | none => rw [e] at h; simp at h
    | some k0 =>
      rw [e] at h
      dsimp only at h
      have hk0 : k0 ∈ T' := List.mem_of_find?_eq_some e
      cases eb : k0.base with
      | none => rw [eb] at h; simp only [List.mem_singleton] at h; subst h; exact hk0
      | some b =>
        rw [eb] at h
        rcases List.mem_cons.mp h with h | h
        · subst h; exact hk0
        · exact chain_mem T' f b k h

theorem hok_of_node {st : Nat → String → Bool} {d : Obj} (h : nodeItemsOK st d = true) :
    ∀ k ∈ chain T T.length d.cls, ∀ x, findType X k.name = some x → ∀ it ∈ schemaItems k x, itemOK st d it = true := by
  intro k hk x hx it hit
  simp only [nodeItemsOK, List.all_eq_true] at h
  apply h
  simp only [itemsOf, List.mem_flatMap]
  exact ⟨k, hk, by rw [hx]; exact hit⟩

theorem mem_objKids {cl : Nat} {as : List (Nat × Option String)} {tx : Option String} {ks : List (Nat × List Obj)} {c : Obj}
    (h : c ∈ objKids (.mk cl as tx ks)) : ∃ p ∈ ks, c ∈ p.2 := by
  simp only [objKids, List.mem_filter, List.mem_flatMap] at h
  exact h.1

/-- a property of every descendant, from the node and its children -/
theorem desc_all {Q : Obj → Prop} {o : Obj} (hQ : Q o) (hk : ∀ c ∈ objKids o, ∀ d, Desc c d → Q d) : ∀ d, Desc o d → Q d := by
  intro d hd
  cases hd with
  | refl => exact hQ
  | step hc hcd => exact hk _ hc d hcd

theorem depth_of_kids {f : Nat} {o : Obj} (hk : ∀ c ∈ objKids o, depth f c = true) : depth (f+1) o = true := by
  simp only [depth, List.all_eq_true]; exact hk

theorem depth_mono : ∀ (f : Nat) (o : Obj), depth f o = true → depth (f+1) o = true
  | 0, _, h => by simp [depth] at h
  | f+1, o, h => by
    have h' : ∀ c ∈ objKids o, depth f c = true := by
      have := h; unfold depth at this; simpa only [List.all_eq_true] using this
    exact depth_of_kids (fun c hc => depth_mono f c (h' c hc))

/-- what is needed of a node with no object-valued children -/
structure LeafOK (st : Nat → String → Bool) (o : Obj) : Prop where
  node : nodeItemsOK st o = true
  kids : ∀ c, c ∉ objKids o

theorem LeafOK.all {st : Nat → String → Bool} {o : Obj} (h : LeafOK st o) : ∀ d, Desc o d → nodeItemsOK st d = true :=
  desc_all h.node (fun c hc => absurd hc (h.kids c))

theorem LeafOK.depth {st : Nat → String → Bool} {o : Obj} (h : LeafOK st o) (f : Nat) : depth (f+1) o = true :=
  depth_of_kids (fun c hc => absurd hc (h.kids c))

/-! ### the side conditions: facets of the concrete strings, and the generated code's "unbounded" -/

def ptFacets (st : Nat → String → Bool) (p : String × String × String × String) : Bool := st nm_DoubleGreaterThanZero p.2.2.2

def segFacets (st : Nat → String → Bool) (geom : Geom) (x : Seg) : Bool :=
  st nm_NonNegativeInteger (idLex x.id)
  && (match x.parent with
      | some p => st nm_NonNegativeInteger (idLex p) && st nm_ZeroToOne (fracLex x.frac4)
      | none => true)
  && (!x.hasProx || ptFacets st (geom x.id true)) && ptFacets st (geom x.id false)

def groupFacets (st : Nat → String → Bool) (G : Group) : Bool :=
  !G.idNone && st nm_NmlId G.id && (match G.nlx with | some n => st nm_NeuroLexId n | none => true)
  && G.members.all (fun i => st nm_NonNegativeInteger (idLex i)) && G.includes.all (st nm_NmlId)

def PKind.stype : PKind → Nat
  | .spikeThresh => nm_Nml2Quantity_voltage
  | .initMembPotential => nm_Nml2Quantity_voltage
  | .specificCapacitance => nm_Nml2Quantity_specificCapacitance
  | .resistivity => nm_Nml2Quantity_resistivity

def propFacets (st : Nat → String → Bool) (p : BioProp) : Bool := st p.kind.stype p.value && st nm_NmlId p.group

def chanFacets (st : Nat → String → Bool) (c : ChanDens) : Bool :=
  st nm_NmlId c.id && st nm_NmlId c.ionChannel && st nm_Nml2Quantity_conductanceDensity c.condDensity
  && st nm_Nml2Quantity_voltage c.erev && st nm_NmlId c.group && st nm_NmlId c.ion

/-- every string of the cell passes the check of its simple type (decidable for a given `st`) -/
def facetsOK (st : Nat → String → Bool) (cid : String) (geom : Geom) (s : State) : Bool :=
  st nm_NmlId cid && st nm_NmlId "morphology" && st nm_NmlId "biophys"
  && s.segs.all (segFacets st geom) && s.groups.all (groupFacets st)
  && s.memb.all (propFacets st) && s.intra.all (propFacets st) && s.chans.all (chanFacets st)

def unbounded : Nat := 9999999

/-- the generated `validate_` writes `max_occurs=9999999` for `maxOccurs="unbounded"` -/
def small (s : State) : Bool :=
  decide (s.segs.length ≤ unbounded) && decide (s.groups.length ≤ unbounded)
  && s.groups.all (fun G => decide (G.members.length ≤ unbounded) && decide (G.includes.length ≤ unbounded))
  && decide (s.memb.length ≤ unbounded) && decide (s.intra.length ≤ unbounded) && decide (s.chans.length ≤ unbounded)

/-- "given its basic biophysical properties": at least one segment, a spike threshold, an initial membrane potential
    and a specific capacitance -/
def hasBasics (s : State) : Bool :=
  !s.segs.isEmpty && s.memb.any (·.kind == .spikeThresh) && s.memb.any (·.kind == .initMembPotential)
  && s.memb.any (·.kind == .specificCapacitance)

/-! ### node by node -/

section nodes
variable (st : Nat → String → Bool)

theorem leaf_pt (p : String × String × String × String) (h : ptFacets st p = true) : LeafOK st (ptObj p) := by
  refine ⟨?_, ?_⟩
  · simp only [ptFacets] at h
    simp [nodeItemsOK, ptObj, Obj.cls, items_Point3DWithDiam, itemOK, count, attrVal, lookup, h,
      nm_x, nm_y, nm_z, nm_diameter]
  · intro c hc
    obtain ⟨p', hp, hc'⟩ := mem_objKids hc
    simp at hp

theorem leaf_parent (p f : Int) (h1 : st nm_NonNegativeInteger (idLex p) = true) (h2 : st nm_ZeroToOne (fracLex f) = true) :
    LeafOK st (parentObj p f) := by
  refine ⟨?_, ?_⟩
  · simp [nodeItemsOK, parentObj, Obj.cls, items_SegmentParent, itemOK, count, attrVal, lookup, h1, h2,
      nm_segments, nm_fraction_along]
  · intro c hc
    obtain ⟨p', hp, hc'⟩ := mem_objKids hc
    simp at hp

theorem leaf_member (i : Int) (h : st nm_NonNegativeInteger (idLex i) = true) : LeafOK st (memberObj i) := by
  refine ⟨?_, ?_⟩
  · simp [nodeItemsOK, memberObj, Obj.cls, items_Member, itemOK, count, attrVal, lookup, h]
  · intro c hc
    obtain ⟨p', hp, hc'⟩ := mem_objKids hc
    simp at hp

theorem leaf_include (u : String) (h : st nm_NmlId u = true) : LeafOK st (includeObj u) := by
  refine ⟨?_, ?_⟩
  · simp [nodeItemsOK, includeObj, Obj.cls, items_Include, itemOK, count, attrVal, lookup, h]
  · intro c hc
    obtain ⟨p', hp, hc'⟩ := mem_objKids hc
    simp at hp

theorem leaf_prop (p : BioProp) (h : propFacets st p = true) : LeafOK st (propObj p) := by
  simp only [propFacets, Bool.and_eq_true] at h
  refine ⟨?_, ?_⟩
  · cases hk : p.kind <;> rw [hk] at h <;>
      simp [nodeItemsOK, propObj, Obj.cls, hk, PKind.cls, items_SpikeThresh, items_InitMembPotential,
        items_SpecificCapacitance, items_Resistivity, itemOK, count, attrVal, lookup, h.1, h.2,
        nm_value, nm_segment_groups] <;> simp_all [PKind.stype]
  · intro c hc
    obtain ⟨p', hp, hc'⟩ := mem_objKids hc
    simp at hp

theorem leaf_chan (c : ChanDens) (h : chanFacets st c = true) : LeafOK st (chanObj c) := by
  simp only [chanFacets, Bool.and_eq_true] at h
  obtain ⟨⟨⟨⟨⟨h1, h2⟩, h3⟩, h4⟩, h5⟩, h6⟩ := h
  refine ⟨?_, ?_⟩
  · simp [nodeItemsOK, chanObj, Obj.cls, items_ChannelDensity, itemOK, count, attrVal, lookup, kidsOf, h1, h2, h3, h4, h5, h6,
      nm_id, nm_ion_channel, nm_cond_density, nm_erev, nm_segment_groups, nm_segments, nm_ion, nm_variable_parameters]
  · intro c' hc
    obtain ⟨p', hp, hc'⟩ := mem_objKids hc
    simp at hp
    subst hp
    simp at hc'

/-- an inner node: its own items, and everything below its children -/
structure SubOK (st : Nat → String → Bool) (f : Nat) (o : Obj) : Prop where
  all : ∀ d, Desc o d → nodeItemsOK st d = true
  depth : depth f o = true

theorem LeafOK.sub {st : Nat → String → Bool} {o : Obj} (h : LeafOK st o) (f : Nat) : SubOK st (f+1) o := ⟨h.all, h.depth f⟩

theorem SubOK.mono {st : Nat → String → Bool} {f : Nat} {o : Obj} (h : SubOK st f o) : SubOK st (f+1) o :=
  ⟨h.all, depth_mono f o h.depth⟩

theorem subOK_of_kids {st : Nat → String → Bool} {f : Nat} {o : Obj} (hn : nodeItemsOK st o = true)
    (hk : ∀ c ∈ objKids o, SubOK st f c) : SubOK st (f+1) o :=
  ⟨desc_all hn (fun c hc => (hk c hc).all), depth_of_kids (fun c hc => (hk c hc).depth)⟩

theorem sub_seg (geom : Geom) (x : Seg) (h : segFacets st geom x = true) : SubOK st 2 (segObj geom x) := by
  simp only [segFacets, Bool.and_eq_true, Bool.or_eq_true, Bool.not_eq_eq_eq_not, Bool.not_true] at h
  obtain ⟨⟨⟨h1, h2⟩, h3⟩, h4⟩ := h
  apply subOK_of_kids
  · cases hp : x.parent <;> cases hx : x.hasProx <;>
      simp [nodeItemsOK, segObj, Obj.cls, items_Segment, itemOK, count, attrVal, lookup, kidsOf, h1, hp, hx,
        nm_id, nm_name, nm_neuro_lex_id, nm_parent, nm_proximal, nm_distal]
  · intro c hc
    obtain ⟨p', hp, hc'⟩ := mem_objKids hc
    simp only [List.mem_cons, List.not_mem_nil, or_false] at hp
    rcases hp with rfl | rfl | rfl
    · cases hpar : x.parent with
      | none => rw [hpar] at hc'; simp at hc'
      | some q =>
        rw [hpar] at hc' h2
        simp only [List.mem_singleton] at hc'
        subst hc'
        simp only [Bool.and_eq_true] at h2
        exact (leaf_parent st q x.frac4 h2.1 h2.2).sub 0
    · cases hx : x.hasProx with
      | false => rw [hx] at hc'; simp at hc'
      | true =>
        rw [hx] at hc'
        simp only [↓reduceIte, List.mem_singleton] at hc'
        subst hc'
        rcases h3 with h3 | h3
        · rw [hx] at h3; cases h3
        · exact (leaf_pt st _ h3).sub 0
    · simp only [List.mem_singleton] at hc'
      subst hc'
      exact (leaf_pt st _ h4).sub 0

theorem sub_group (G : Group) (h : groupFacets st G = true)
    (hs : G.members.length ≤ unbounded ∧ G.includes.length ≤ unbounded) : SubOK st 2 (groupObj G) := by
  simp only [groupFacets, Bool.and_eq_true, Bool.not_eq_eq_eq_not, Bool.not_true, List.all_eq_true] at h
  obtain ⟨⟨⟨⟨h0, h1⟩, h2⟩, h3⟩, h4⟩ := h
  apply subOK_of_kids
  · have hm : G.members.length ≤ 9999999 := hs.1
    have hi : G.includes.length ≤ 9999999 := hs.2
    cases hn : G.nlx with
    | none =>
      simp [nodeItemsOK, groupObj, Obj.cls, items_SegmentGroup, itemOK, count, attrVal, lookup, kidsOf, h0, h1, hn, hm, hi,
        nm_id, nm_neuro_lex_id, nm_notes, nm_properties, nm_annotation, nm_members, nm_includes, nm_paths, nm_sub_trees,
        nm_inhomogeneous_parameters]
    | some n =>
      rw [hn] at h2
      simp [nodeItemsOK, groupObj, Obj.cls, items_SegmentGroup, itemOK, count, attrVal, lookup, kidsOf, h0, h1, hn, hm, hi, h2,
        nm_id, nm_neuro_lex_id, nm_notes, nm_properties, nm_annotation, nm_members, nm_includes, nm_paths, nm_sub_trees,
        nm_inhomogeneous_parameters]
  · intro c hc
    obtain ⟨p', hp, hc'⟩ := mem_objKids hc
    simp only [List.mem_cons, List.not_mem_nil, or_false] at hp
    rcases hp with rfl | rfl | rfl | rfl | rfl | rfl | rfl | rfl
    · simp at hc'
    · simp at hc'
    · simp at hc'
    · simp only [List.mem_map] at hc'
      obtain ⟨i, hi, rfl⟩ := hc'
      exact (leaf_member st i (h3 i hi)).sub 0
    · simp only [List.mem_map] at hc'
      obtain ⟨u, hu, rfl⟩ := hc'
      exact (leaf_include st u (h4 u hu)).sub 0
    · simp at hc'
    · simp at hc'
    · simp at hc'

theorem sub_morph (geom : Geom) (s : State) (hid : st nm_NmlId "morphology" = true) (hne : s.segs ≠ [])
    (hsegs : ∀ x ∈ s.segs, segFacets st geom x = true) (hgs : ∀ G ∈ s.groups, groupFacets st G = true)
    (hl : s.segs.length ≤ unbounded ∧ s.groups.length ≤ unbounded)
    (hgl : ∀ G ∈ s.groups, G.members.length ≤ unbounded ∧ G.includes.length ≤ unbounded) :
    SubOK st 3 (morphObj geom s) := by
  apply subOK_of_kids
  · have h1 : s.segs.length ≤ 9999999 := hl.1
    have h2 : s.groups.length ≤ 9999999 := hl.2
    have h3 : 1 ≤ s.segs.length := by
      cases hh : s.segs with
      | nil => exact absurd hh hne
      | cons a l => simp
    simp [nodeItemsOK, morphObj, Obj.cls, items_Morphology, itemOK, count, attrVal, lookup, kidsOf, hid, h1, h2, h3,
      nm_id, nm_metaid, nm_notes, nm_properties, nm_annotation, nm_segments, nm_segment_groups]
  · intro c hc
    obtain ⟨p', hp, hc'⟩ := mem_objKids hc
    simp only [List.mem_cons, List.not_mem_nil, or_false] at hp
    rcases hp with rfl | rfl | rfl | rfl | rfl
    · simp at hc'
    · simp at hc'
    · simp at hc'
    · simp only [List.mem_map] at hc'
      obtain ⟨x, hx, rfl⟩ := hc'
      exact sub_seg st geom x (hsegs x hx)
    · simp only [List.mem_map] at hc'
      obtain ⟨G, hG, rfl⟩ := hc'
      exact sub_group st G (hgs G hG) (hgl G hG)

theorem length_filter_le_unbounded {α} (p : α → Bool) (l : List α) (h : l.length ≤ unbounded) : (l.filter p).length ≤ 9999999 :=
  Nat.le_trans (List.length_filter_le p l) h

theorem one_le_filter {α} (p : α → Bool) (l : List α) (h : l.any p = true) : 1 ≤ (l.filter p).length := by
  simp only [List.any_eq_true] at h
  obtain ⟨a, ha, hpa⟩ := h
  have : a ∈ l.filter p := List.mem_filter.mpr ⟨ha, hpa⟩
  cases hf : l.filter p with
  | nil => rw [hf] at this; cases this
  | cons b r => simp

theorem sub_memb (s : State) (hb : hasBasics s = true) (hm : ∀ p ∈ s.memb, propFacets st p = true)
    (hc : ∀ c ∈ s.chans, chanFacets st c = true) (hl : s.memb.length ≤ unbounded ∧ s.chans.length ≤ unbounded) :
    SubOK st 2 (membObj s) := by
  simp only [hasBasics, Bool.and_eq_true] at hb
  obtain ⟨⟨⟨_, b1⟩, b2⟩, b3⟩ := hb
  apply subOK_of_kids
  · have c1 := one_le_filter _ _ b1
    have c2 := one_le_filter _ _ b2
    have c3 := one_le_filter _ _ b3
    have d1 := length_filter_le_unbounded (fun p : BioProp => p.kind == .spikeThresh) s.memb hl.1
    have d2 := length_filter_le_unbounded (fun p : BioProp => p.kind == .initMembPotential) s.memb hl.1
    have d3 := length_filter_le_unbounded (fun p : BioProp => p.kind == .specificCapacitance) s.memb hl.1
    have d4 : s.chans.length ≤ 9999999 := hl.2
    simp [nodeItemsOK, membObj, kindList, Obj.cls, items_MembraneProperties, itemOK, count, lookup, kidsOf, c1, c2, c3, d1, d2, d3, d4,
      nm_channel_populations, nm_channel_densities, nm_channel_density_v_shifts, nm_channel_density_nernsts,
      nm_channel_density_ghks, nm_channel_density_ghk2s, nm_channel_density_non_uniforms,
      nm_channel_density_non_uniform_nernsts, nm_channel_density_non_uniform_ghks, nm_spike_threshes,
      nm_specific_capacitances, nm_init_memb_potentials]
  · intro c hcm
    obtain ⟨p', hp, hc'⟩ := mem_objKids hcm
    simp only [List.mem_cons, List.not_mem_nil, or_false] at hp
    rcases hp with rfl | rfl | rfl | rfl | rfl | rfl | rfl | rfl | rfl | rfl | rfl | rfl
    · simp at hc'
    · simp only [List.mem_map] at hc'
      obtain ⟨x, hx, rfl⟩ := hc'
      exact (leaf_chan st x (hc x hx)).sub 0
    · simp at hc'
    · simp at hc'
    · simp at hc'
    · simp at hc'
    · simp at hc'
    · simp at hc'
    · simp at hc'
    · simp only [kindList, List.mem_map, List.mem_filter] at hc'
      obtain ⟨x, hx, rfl⟩ := hc'
      exact (leaf_prop st x (hm x hx.1)).sub 0
    · simp only [kindList, List.mem_map, List.mem_filter] at hc'
      obtain ⟨x, hx, rfl⟩ := hc'
      exact (leaf_prop st x (hm x hx.1)).sub 0
    · simp only [kindList, List.mem_map, List.mem_filter] at hc'
      obtain ⟨x, hx, rfl⟩ := hc'
      exact (leaf_prop st x (hm x hx.1)).sub 0

theorem sub_intra (s : State) (hi : ∀ p ∈ s.intra, propFacets st p = true) (hl : s.intra.length ≤ unbounded) :
    SubOK st 2 (intraObj s) := by
  apply subOK_of_kids
  · have d : s.intra.length ≤ 9999999 := hl
    simp [nodeItemsOK, intraObj, Obj.cls, items_IntracellularProperties, itemOK, count, lookup, kidsOf, d, nm_species, nm_resistivities]
  · intro c hcm
    obtain ⟨p', hp, hc'⟩ := mem_objKids hcm
    simp only [List.mem_cons, List.not_mem_nil, or_false] at hp
    rcases hp with rfl | rfl
    · simp at hc'
    · simp only [List.mem_map] at hc'
      obtain ⟨x, hx, rfl⟩ := hc'
      exact (leaf_prop st x (hi x hx)).sub 0

theorem sub_bio (s : State) (hid : st nm_NmlId "biophys" = true) (hm : SubOK st 2 (membObj s)) (hi : SubOK st 2 (intraObj s)) :
    SubOK st 3 (bioObj s) := by
  apply subOK_of_kids
  · simp [nodeItemsOK, bioObj, Obj.cls, items_BiophysicalProperties, itemOK, count, attrVal, lookup, kidsOf, hid,
      nm_id, nm_metaid, nm_notes, nm_properties, nm_annotation, nm_membrane_properties, nm_intracellular_properties,
      nm_extracellular_properties]
  · intro c hcm
    obtain ⟨p', hp, hc'⟩ := mem_objKids hcm
    simp only [List.mem_cons, List.not_mem_nil, or_false] at hp
    rcases hp with rfl | rfl | rfl | rfl | rfl | rfl
    · simp at hc'
    · simp at hc'
    · simp at hc'
    · simp only [List.mem_singleton] at hc'; subst hc'; exact hm
    · simp only [List.mem_singleton] at hc'; subst hc'; exact hi
    · simp at hc'

theorem sub_cell (cid : String) (geom : Geom) (s : State) (hid : st nm_NmlId cid = true)
    (hm : SubOK st 3 (morphObj geom s)) (hb : SubOK st 3 (bioObj s)) : SubOK st 4 (cellObj cid geom s) := by
  apply subOK_of_kids
  · simp [nodeItemsOK, cellObj, Obj.cls, items_Cell, itemOK, count, attrVal, lookup, kidsOf, hid,
      nm_id, nm_metaid, nm_neuro_lex_id, nm_morphology_attr, nm_biophysical_properties_attr, nm_notes, nm_properties,
      nm_annotation, nm_morphology, nm_biophysical_properties]
  · intro c hcm
    obtain ⟨p', hp, hc'⟩ := mem_objKids hcm
    simp only [List.mem_cons, List.not_mem_nil, or_false] at hp
    rcases hp with rfl | rfl | rfl | rfl | rfl
    · simp at hc'
    · simp at hc'
    · simp at hc'
    · simp only [List.mem_singleton] at hc'; subst hc'; exact hm
    · simp only [List.mem_singleton] at hc'; subst hc'; exact hb

end nodes

/-! ### the composition -/

/-- every descendant of the builder's cell satisfies every item the schema prescribes for every class of its MRO,
    and the tree is 4 levels deep -/
theorem cell_subOK (st : Nat → String → Bool) (cid : String) (geom : Geom) (s : State)
    (hb : hasBasics s = true) (hf : facetsOK st cid geom s = true) (hs : small s = true) :
    SubOK st 4 (cellObj cid geom s) := by
  simp only [facetsOK, Bool.and_eq_true, List.all_eq_true] at hf
  obtain ⟨⟨⟨⟨⟨⟨⟨f1, f2⟩, f3⟩, f4⟩, f5⟩, f6⟩, f7⟩, f8⟩ := hf
  simp only [small, Bool.and_eq_true, List.all_eq_true, decide_eq_true_eq] at hs
  obtain ⟨⟨⟨⟨⟨s1, s2⟩, s3⟩, s4⟩, s5⟩, s6⟩ := hs
  have hne : s.segs ≠ [] := by
    simp only [hasBasics, Bool.and_eq_true, Bool.not_eq_eq_eq_not, Bool.not_true] at hb
    intro e; rw [e] at hb; simp at hb
  exact sub_cell st cid geom s f1
    (sub_morph st geom s f2 hne f4 f5 ⟨s1, s2⟩ s3)
    (sub_bio st s f3 (sub_memb st s hb f6 f8 ⟨s4, s6⟩) (sub_intra st s f7 s5))

end NmlVerif.Builder
