import NmlVerif.Model.Facets
import NmlVerif.Proofs.Rx
/-!
Lemmas about simple-type validation (C02 / C03 second pass): the reference engine meets `EngineSpec`;
`gds_validate_simple_patterns` with the full-length test decides language membership for ANY engine meeting the
specification (the `$`-before-a-trailing-line-feed quirk is harmless because of the test, and the test is needed);
the Python reading of `\s` contains the XSD reading and they coincide on strings without exotic spaces; a generated
validator that agrees with a schema type (decidable `typeAgrees`) accepts exactly the type's value space, up to the
stated exclusions.
-/
namespace NmlVerif.Facets
open NmlVerif.Rx

/-! ### lists -/

theorem nil_or_snoc {α : Type} : ∀ l : List α, l = [] ∨ ∃ t c, l = t ++ [c]
  | [] => Or.inl rfl
  | a :: l => by
    right
    rcases nil_or_snoc l with h | ⟨t, c, h⟩
    · exact ⟨[], a, by rw [h]; rfl⟩
    · exact ⟨a :: t, c, by rw [h]; rfl⟩

theorem snoc_inj {α : Type} {t t' : List α} {c c' : α} (h : t ++ [c] = t' ++ [c']) : t = t' ∧ c = c' := by
  have := congrArg List.reverse h
  simp only [List.reverse_append, List.reverse_cons, List.reverse_nil, List.nil_append, List.singleton_append,
    List.cons.injEq] at this
  exact ⟨by simpa using congrArg List.reverse this.2, this.1⟩

theorem chopNL_some {s t : List Char} (h : chopNL s = some t) : s = t ++ ['\n'] := by
  unfold chopNL at h
  split at h
  · rename_i r hr
    cases h
    have := congrArg List.reverse hr
    simpa using this
  · cases h

theorem chopNL_snoc (t : List Char) : chopNL (t ++ ['\n']) = some t := by
  simp [chopNL]

/-! ### the reference engine -/

theorem refEngine_spec : EngineSpec refEngine := by
  constructor
  · intro r fn s t h
    unfold refEngine at h
    by_cases h1 : accepts r s = true
    · simp only [h1, if_true, Option.some.injEq] at h
      subst h
      exact ⟨(accepts_iff r s).mp h1, Or.inl rfl⟩
    · have h1' : accepts r s = false := by simpa using h1
      simp only [h1', Bool.false_eq_true, if_false] at h
      by_cases h2 : fn = ReFn.fullmatch
      · simp [h2] at h
      · simp only [h2, if_false] at h
        cases hc : chopNL s with
        | none => simp [hc] at h
        | some u =>
          simp only [hc] at h
          by_cases h3 : accepts r u = true
          · simp only [h3, if_true, Option.some.injEq] at h
            subst h
            exact ⟨(accepts_iff r u).mp h3, Or.inr ⟨h2, chopNL_some hc⟩⟩
          · simp [h3] at h
  · intro r fn s h
    unfold refEngine at h
    by_cases h1 : accepts r s = true
    · simp [h1] at h
    · have h1' : accepts r s = false := by simpa using h1
      simp only [h1', Bool.false_eq_true, if_false] at h
      refine ⟨fun hm => h1 ((accepts_iff r s).mpr hm), ?_⟩
      intro hfn t hs hm
      simp only [hfn, if_false] at h
      subst hs
      rw [chopNL_snoc] at h
      have := (accepts_iff r t).mpr hm
      simp [this] at h

/-! ### `gds_validate_simple_patterns` -/

theorem patOK_sound {E : Engine} (hE : EngineSpec E) {pc : PatCheck} (hpc : pc.test = .fullLen) {s : List Char}
    {p : PyPat} (h : patOK E pc s p = true) : Matches (pyBody pc.ascii p.body) s := by
  unfold patOK at h
  cases he : E (pyBody pc.ascii p.body) pc.fn s with
  | none => simp [he] at h
  | some t =>
    simp only [he, lenOK, hpc] at h
    have ⟨hm, ht⟩ := hE.sound _ _ _ _ he
    rcases ht with rfl | ⟨_, hs⟩
    · exact hm
    · subst hs
      simp at h

theorem patOK_complete {E : Engine} (hE : EngineSpec E) (pc : PatCheck) {s : List Char} {p : PyPat}
    (hm : Matches (pyBody pc.ascii p.body) s) (hnl : ∀ t, s = t ++ ['\n'] → ¬ Matches (pyBody pc.ascii p.body) t) :
    patOK E pc s p = true := by
  unfold patOK
  cases he : E (pyBody pc.ascii p.body) pc.fn s with
  | none => exact absurd hm (hE.complete _ _ _ he).1
  | some t =>
    have ⟨hmt, ht⟩ := hE.sound _ _ _ _ he
    rcases ht with rfl | ⟨_, hs⟩
    · simp only [lenOK]
      cases pc.test <;> simp
    · exact absurd hmt (hnl t hs)

/-- accepted ⇒ in every group some pattern's language contains the WHOLE target -/
theorem patAccept_sound {E : Engine} (hE : EngineSpec E) {pc : PatCheck} (hpc : pc.test = .fullLen)
    {groups : List (List PyPat)} {s : List Char} (h : patAccept E pc groups s = true) :
    ∀ g ∈ groups, ∃ p ∈ g, Matches (pyBody pc.ascii p.body) s := by
  intro g hg
  simp only [patAccept, List.all_eq_true, List.any_eq_true] at h
  obtain ⟨p, hp, hok⟩ := h g hg
  exact ⟨p, hp, patOK_sound hE hpc hok⟩

/-- in every group some pattern matches the whole target and not the target minus a trailing line feed ⇒ accepted -/
theorem patAccept_complete {E : Engine} (hE : EngineSpec E) (pc : PatCheck) {groups : List (List PyPat)}
    {s : List Char}
    (h : ∀ g ∈ groups, ∃ p ∈ g, Matches (pyBody pc.ascii p.body) s ∧
      ∀ t, s = t ++ ['\n'] → ¬ Matches (pyBody pc.ascii p.body) t) :
    patAccept E pc groups s = true := by
  simp only [patAccept, List.all_eq_true, List.any_eq_true]
  intro g hg
  obtain ⟨p, hp, hm, hnl⟩ := h g hg
  exact ⟨p, hp, patOK_complete hE pc hm hnl⟩

/-- WITHOUT the length test every engine meeting the specification accepts a matching value followed by one line
    feed (this is the seeded change C03-1) -/
theorem patOK_noTest_trailing_nl {E : Engine} (hE : EngineSpec E) (fn : ReFn) (hfn : fn ≠ .fullmatch) (a : Bool) (p : PyPat)
    (t : List Char) (hm : Matches (pyBody a p.body) t) : patOK E ⟨fn, true, .noTest, a⟩ (t ++ ['\n']) p = true := by
  unfold patOK
  cases he : E (pyBody a p.body) fn (t ++ ['\n']) with
  | none => exact absurd hm ((hE.complete _ _ _ he).2 hfn t rfl)
  | some u => simp [lenOK]

/-! ### last characters -/

theorem lastCan_sound {r : Rx} {s : List Char} (h : Matches r s) : ∀ t c, s = t ++ [c] → lastCan c r = true := by
  induction h with
  | eps => intro t c e; simp at e
  | set cs ch hm =>
    intro t c e
    have : ([] : List Char) ++ [ch] = t ++ [c] := e
    have := (snoc_inj this).2
    subst this
    simpa [lastCan] using hm
  | @seq a b s1 s2 _ hb iha ihb =>
    intro t c e
    simp only [lastCan, Bool.or_eq_true, Bool.and_eq_true]
    rcases nil_or_snoc s2 with h2 | ⟨t2, c2, h2⟩
    · subst h2
      right
      exact ⟨(nullable_iff b).mpr hb, iha t c (by simpa using e)⟩
    · subst h2
      left
      have : (s1 ++ t2) ++ [c2] = t ++ [c] := by rw [List.append_assoc]; exact e
      have hc := (snoc_inj this).2
      subst hc
      exact ihb t2 c2 rfl
  | altL _ ih => intro t c e; simp only [lastCan, Bool.or_eq_true]; exact Or.inl (ih t c e)
  | altR _ ih => intro t c e; simp only [lastCan, Bool.or_eq_true]; exact Or.inr (ih t c e)
  | starNil => intro t c e; simp at e
  | @starCons a s1 s2 _ _ iha ihs =>
    intro t c e
    rcases nil_or_snoc s2 with h2 | ⟨t2, c2, h2⟩
    · subst h2
      simp only [lastCan]
      exact iha t c (by simpa using e)
    · subst h2
      have : (s1 ++ t2) ++ [c2] = t ++ [c] := by rw [List.append_assoc]; exact e
      have hc := (snoc_inj this).2
      subst hc
      exact ihs t2 c2 rfl

/-! ### the two readings of `\s` -/

theorem xsdSpace_isSpace {c : Char} (h : xsdSpace c = true) : Acc.isSpace c = true := by
  simp only [xsdSpace, Bool.or_eq_true, beq_iff_eq] at h
  unfold Acc.isSpace
  rcases h with ((h | h) | h) | h <;> simp [h]

theorem mem_xsdSpaceRanges (c : Char) :
    (xsdSpaceRanges.any fun r => decide (r.1 ≤ c.toNat) && decide (c.toNat ≤ r.2)) = xsdSpace c := by
  simp only [xsdSpaceRanges, xsdSpace, List.any_cons, List.any_nil, Bool.or_false]
  have e : ∀ n : Nat, (decide (n ≤ c.toNat) && decide (c.toNat ≤ n)) = (c.toNat == n) := by
    intro n
    rw [Bool.eq_iff_iff]
    simp only [Bool.and_eq_true, decide_eq_true_eq, beq_iff_eq]
    omega
  simp only [e, Bool.or_assoc]

theorem xsdOfSet_mem (cs : CSet) (c : Char) :
    (xsdOfSet cs).mem c = (cs.ranges.any (fun r => decide (r.1 ≤ c.toNat) && decide (c.toNat ≤ r.2))
      || (cs.space && xsdSpace c)) := by
  unfold xsdOfSet
  by_cases hs : cs.space = true
  · simp only [hs, if_true, CSet.mem, List.any_append, Bool.false_and, Bool.or_false, Bool.true_and, mem_xsdSpaceRanges]
  · have : cs.space = false := by simpa using hs
    simp [CSet.mem, this]

theorem xsdOfSet_sub {cs : CSet} {c : Char} (h : (xsdOfSet cs).mem c = true) : cs.mem c = true := by
  rw [xsdOfSet_mem] at h
  simp only [CSet.mem, Bool.or_eq_true, Bool.and_eq_true] at h ⊢
  rcases h with h | ⟨h1, h2⟩
  · exact Or.inl h
  · exact Or.inr ⟨h1, xsdSpace_isSpace h2⟩

theorem xsdOfSet_of_plain {cs : CSet} {c : Char} (h : cs.mem c = true) (hp : (!(Acc.isSpace c) || xsdSpace c) = true) :
    (xsdOfSet cs).mem c = true := by
  rw [xsdOfSet_mem]
  simp only [CSet.mem, Bool.or_eq_true, Bool.and_eq_true] at h ⊢
  rcases h with h | ⟨h1, h2⟩
  · exact Or.inl h
  · right
    refine ⟨h1, ?_⟩
    simp only [h2, Bool.not_true, Bool.false_or] at hp
    exact hp

/-- the XSD reading of a pattern is contained in the Python reading -/
theorem xsdOf_sub : ∀ {r : Rx} {s : List Char}, Matches (xsdOf r) s → Matches r s := by
  intro r
  induction r with
  | none => intro s h; exact h
  | eps => intro s h; exact h
  | set cs =>
    intro s h
    obtain ⟨c, rfl, hc⟩ := (matches_set_iff _ _).mp h
    exact Matches.set cs c (xsdOfSet_sub hc)
  | seq a b iha ihb =>
    intro s h
    obtain ⟨s1, s2, rfl, h1, h2⟩ := (matches_seq_iff _ _ _).mp h
    exact Matches.seq (iha h1) (ihb h2)
  | alt a b iha ihb =>
    intro s h
    rcases (matches_alt_iff _ _ _).mp h with h | h
    · exact Matches.altL (iha h)
    · exact Matches.altR (ihb h)
  | star a iha =>
    intro s h
    generalize hr : xsdOf (.star a) = r' at h
    induction h with
    | eps => cases hr
    | set => cases hr
    | seq => cases hr
    | altL => cases hr
    | altR => cases hr
    | starNil => exact Matches.starNil
    | starCons h1 _ _ ih2 =>
      simp only [xsdOf, Rx.star.injEq] at hr
      subst hr
      exact Matches.starCons (iha h1) (ih2 rfl)

/-- … and on strings whose only spaces are XSD spaces the two readings coincide -/
theorem xsdOf_of_plain {r : Rx} {s : List Char} (h : Matches r s) : plainSpaces s = true → Matches (xsdOf r) s := by
  induction h with
  | eps => intro _; exact Matches.eps
  | set cs c hm =>
    intro hp
    simp only [plainSpaces, List.all_cons, List.all_nil, Bool.and_true] at hp
    exact Matches.set _ c (xsdOfSet_of_plain hm hp)
  | seq _ _ iha ihb =>
    intro hp
    simp only [plainSpaces, List.all_append, Bool.and_eq_true] at hp
    exact Matches.seq (iha hp.1) (ihb hp.2)
  | altL _ ih => intro hp; exact Matches.altL (ih hp)
  | altR _ ih => intro hp; exact Matches.altR (ih hp)
  | starNil => intro _; exact Matches.starNil
  | starCons _ _ iha ihs =>
    intro hp
    simp only [plainSpaces, List.all_append, Bool.and_eq_true] at hp
    exact Matches.starCons (iha hp.1) (ihs hp.2)

theorem nullable_xsdOf (r : Rx) : nullable (xsdOf r) = nullable r := by
  induction r with
  | none => rfl
  | eps => rfl
  | set cs => rfl
  | seq a b iha ihb => simp [xsdOf, nullable, iha, ihb]
  | alt a b iha ihb => simp [xsdOf, nullable, iha, ihb]
  | star a _ => rfl

theorem isSpace_nl : Acc.isSpace '\n' = true := by decide
theorem xsdSpace_nl : xsdSpace '\n' = true := by decide

/-- a line feed is a space in both readings, so "can end in a line feed" does not depend on the reading -/
theorem lastCan_nl_xsdOf (r : Rx) : lastCan '\n' (xsdOf r) = lastCan '\n' r := by
  induction r with
  | none => rfl
  | eps => rfl
  | set cs =>
    show (xsdOfSet cs).mem '\n' = cs.mem '\n'
    rw [xsdOfSet_mem]
    simp [CSet.mem, isSpace_nl, xsdSpace_nl]
  | seq a b iha ihb => simp [xsdOf, lastCan, iha, ihb, nullable_xsdOf]
  | alt a b iha ihb => simp [xsdOf, lastCan, iha, ihb]
  | star a iha => simp [xsdOf, lastCan, iha]

/-! ### `re.ASCII` -/

theorem xsdSpace_asciiSpace {c : Char} (h : xsdSpace c = true) : asciiSpace c = true := by
  simp only [xsdSpace, Bool.or_eq_true, beq_iff_eq] at h
  simp only [asciiSpace, Bool.or_eq_true, beq_iff_eq, Bool.and_eq_true, decide_eq_true_eq]
  omega

theorem mem_asciiSpaceRanges (c : Char) :
    (asciiSpaceRanges.any fun r => decide (r.1 ≤ c.toNat) && decide (c.toNat ≤ r.2)) = asciiSpace c := by
  simp only [asciiSpaceRanges, asciiSpace, List.any_cons, List.any_nil, Bool.or_false]
  rw [Bool.eq_iff_iff]
  simp only [Bool.or_eq_true, Bool.and_eq_true, decide_eq_true_eq, beq_iff_eq]
  omega

theorem asciiOfSet_mem (cs : CSet) (c : Char) :
    (asciiOfSet cs).mem c = (cs.ranges.any (fun r => decide (r.1 ≤ c.toNat) && decide (c.toNat ≤ r.2))
      || (cs.space && asciiSpace c)) := by
  unfold asciiOfSet
  by_cases hs : cs.space = true
  · simp only [hs, if_true, CSet.mem, List.any_append, Bool.false_and, Bool.or_false, Bool.true_and, mem_asciiSpaceRanges]
  · have : cs.space = false := by simpa using hs
    simp [CSet.mem, this]

/-- apply one reading of the character classes throughout an expression (proof device: `xsdOf` and `asciiOf` are
    instances) -/
def mapSets (f : CSet → CSet) : Rx → Rx
  | .none => .none
  | .eps => .eps
  | .set cs => .set (f cs)
  | .seq a b => .seq (mapSets f a) (mapSets f b)
  | .alt a b => .alt (mapSets f a) (mapSets f b)
  | .star a => .star (mapSets f a)

theorem xsdOf_eq_mapSets (r : Rx) : xsdOf r = mapSets xsdOfSet r := by
  induction r with
  | none => rfl
  | eps => rfl
  | set cs => rfl
  | seq a b iha ihb => simp [xsdOf, mapSets, iha, ihb]
  | alt a b iha ihb => simp [xsdOf, mapSets, iha, ihb]
  | star a iha => simp [xsdOf, mapSets, iha]

theorem asciiOf_eq_mapSets (r : Rx) : asciiOf r = mapSets asciiOfSet r := by
  induction r with
  | none => rfl
  | eps => rfl
  | set cs => rfl
  | seq a b iha ihb => simp [asciiOf, mapSets, iha, ihb]
  | alt a b iha ihb => simp [asciiOf, mapSets, iha, ihb]
  | star a iha => simp [asciiOf, mapSets, iha]

/-- if, on the characters of the string, reading `f` of every class is contained in reading `g`, a match under `f` is a
    match under `g` -/
theorem mapSets_imp (f g : CSet → CSet) (P : Char → Prop)
    (hfg : ∀ cs c, P c → (f cs).mem c = true → (g cs).mem c = true) :
    ∀ (r : Rx) (s : List Char), (∀ c ∈ s, P c) → Matches (mapSets f r) s → Matches (mapSets g r) s := by
  intro r
  induction r with
  | none => intro s _ h; exact h
  | eps => intro s _ h; exact h
  | set cs =>
    intro s hP h
    obtain ⟨c, rfl, hc⟩ := (matches_set_iff _ _).mp h
    exact Matches.set _ c (hfg cs c (hP c (by simp)) hc)
  | seq a b iha ihb =>
    intro s hP h
    obtain ⟨s1, s2, rfl, h1, h2⟩ := (matches_seq_iff _ _ _).mp h
    exact Matches.seq (iha s1 (fun c hc => hP c (by simp [hc])) h1) (ihb s2 (fun c hc => hP c (by simp [hc])) h2)
  | alt a b iha ihb =>
    intro s hP h
    rcases (matches_alt_iff _ _ _).mp h with h | h
    · exact Matches.altL (iha s hP h)
    · exact Matches.altR (ihb s hP h)
  | star a iha =>
    intro s hP h
    generalize hr : mapSets f (.star a) = r' at h
    induction h with
    | eps => cases hr
    | set => cases hr
    | seq => cases hr
    | altL => cases hr
    | altR => cases hr
    | starNil => exact Matches.starNil
    | @starCons a' s1 s2 h1 _ _ ih2 =>
      simp only [mapSets, Rx.star.injEq] at hr
      subst hr
      exact Matches.starCons (iha s1 (fun c hc => hP c (by simp [hc])) h1)
        (ih2 (fun c hc => hP c (by simp [hc])) rfl)

/-- the XSD reading is contained in the `re.ASCII` reading -/
theorem xsdOf_to_ascii {r : Rx} {s : List Char} (h : Matches (xsdOf r) s) : Matches (asciiOf r) s := by
  rw [xsdOf_eq_mapSets] at h
  rw [asciiOf_eq_mapSets]
  refine mapSets_imp xsdOfSet asciiOfSet (fun _ => True) ?_ r s (fun _ _ => trivial) h
  intro cs c _ hm
  rw [xsdOfSet_mem] at hm
  rw [asciiOfSet_mem]
  simp only [Bool.or_eq_true, Bool.and_eq_true] at hm ⊢
  rcases hm with hm | ⟨h1, h2⟩
  · exact Or.inl hm
  · exact Or.inr ⟨h1, xsdSpace_asciiSpace h2⟩

/-- … and they coincide on strings without `\v` and `\f` -/
theorem asciiOf_to_xsd {r : Rx} {s : List Char} (h : Matches (asciiOf r) s) (hp : plainFor true s = true) :
    Matches (xsdOf r) s := by
  rw [asciiOf_eq_mapSets] at h
  rw [xsdOf_eq_mapSets]
  refine mapSets_imp asciiOfSet xsdOfSet (fun c => (!(asciiSpace c) || xsdSpace c) = true) ?_ r s ?_ h
  · intro cs c hc hm
    rw [asciiOfSet_mem] at hm
    rw [xsdOfSet_mem]
    simp only [Bool.or_eq_true, Bool.and_eq_true] at hm ⊢
    rcases hm with hm | ⟨h1, h2⟩
    · exact Or.inl hm
    · right
      refine ⟨h1, ?_⟩
      simp only [h2, Bool.not_true, Bool.false_or] at hc
      exact hc
  · intro c hc
    simp only [plainFor, pySpace, if_true, List.all_eq_true] at hp
    exact hp c hc

/-- whatever the call shape, a match of what Python runs is a match of the XSD reading on plain strings … -/
theorem pyBody_to_xsd (a : Bool) {r : Rx} {s : List Char} (h : Matches (pyBody a r) s) (hp : plainFor a s = true) :
    Matches (xsdOf r) s := by
  cases a with
  | true => exact asciiOf_to_xsd (by simpa [pyBody] using h) hp
  | false =>
    have h' : Matches r s := by simpa [pyBody] using h
    apply xsdOf_of_plain h'
    simpa [plainFor, pySpace, plainSpaces] using hp

/-- … and a match of the XSD reading is a match of what Python runs -/
theorem xsd_to_pyBody (a : Bool) {r : Rx} {s : List Char} (h : Matches (xsdOf r) s) : Matches (pyBody a r) s := by
  cases a with
  | true => simpa [pyBody] using xsdOf_to_ascii h
  | false => simpa [pyBody] using xsdOf_sub h

/-! ### steps -/

theorem steps_patterns {f : Step → Bool} : ∀ {steps : List Step}, steps.all f = true →
    ∀ g ∈ stepPatterns steps, f (.patterns g) = true
  | [], _, g, hg => by simp [stepPatterns] at hg
  | st :: r, h, g, hg => by
    simp only [List.all_cons, Bool.and_eq_true] at h
    cases st with
    | patterns g' =>
      simp only [stepPatterns, List.mem_cons] at hg
      rcases hg with rfl | hg
      · exact h.1
      · exact steps_patterns h.2 g hg
    | enum e => exact steps_patterns h.2 g (by simpa [stepPatterns] using hg)
    | bound o l => exact steps_patterns h.2 g (by simpa [stepPatterns] using hg)

theorem steps_enums {f : Step → Bool} : ∀ {steps : List Step}, steps.all f = true →
    ∀ e ∈ stepEnums steps, f (.enum e) = true
  | [], _, e, he => by simp [stepEnums] at he
  | st :: r, h, e, he => by
    simp only [List.all_cons, Bool.and_eq_true] at h
    cases st with
    | enum e' =>
      simp only [stepEnums, List.mem_cons] at he
      rcases he with rfl | he
      · exact h.1
      · exact steps_enums h.2 e he
    | patterns g => exact steps_enums h.2 e (by simpa [stepEnums] using he)
    | bound o l => exact steps_enums h.2 e (by simpa [stepEnums] using he)

theorem steps_bounds {f : Step → Bool} : ∀ {steps : List Step}, steps.all f = true →
    ∀ b ∈ stepBounds steps, f (.bound b.1 b.2) = true
  | [], _, b, hb => by simp [stepBounds] at hb
  | st :: r, h, b, hb => by
    simp only [List.all_cons, Bool.and_eq_true] at h
    cases st with
    | bound o l =>
      simp only [stepBounds, List.mem_cons] at hb
      rcases hb with rfl | hb
      · exact h.1
      · exact steps_bounds h.2 b hb
    | patterns g => exact steps_bounds h.2 b (by simpa [stepBounds] using hb)
    | enum e => exact steps_bounds h.2 b (by simpa [stepBounds] using hb)

theorem steps_all_of {f : Step → Bool} : ∀ {steps : List Step},
    (∀ g ∈ stepPatterns steps, f (.patterns g) = true) → (∀ e ∈ stepEnums steps, f (.enum e) = true) →
    (∀ b ∈ stepBounds steps, f (.bound b.1 b.2) = true) → steps.all f = true
  | [], _, _, _ => rfl
  | st :: r, hp, he, hb => by
    simp only [List.all_cons, Bool.and_eq_true]
    cases st with
    | patterns g =>
      exact ⟨hp g (by simp [stepPatterns]),
        steps_all_of (fun g' hg' => hp g' (by simp [stepPatterns, hg'])) (fun e h => he e (by simpa [stepEnums] using h))
          (fun b h => hb b (by simpa [stepBounds] using h))⟩
    | enum e =>
      exact ⟨he e (by simp [stepEnums]),
        steps_all_of (fun g h => hp g (by simpa [stepPatterns] using h)) (fun e' h => he e' (by simp [stepEnums, h]))
          (fun b h => hb b (by simpa [stepBounds] using h))⟩
    | bound o l =>
      exact ⟨hb (o, l) (by simp [stepBounds]),
        steps_all_of (fun g h => hp g (by simpa [stepPatterns] using h)) (fun e h => he e (by simpa [stepEnums] using h))
          (fun b h => hb b (by simp [stepBounds, h]))⟩

/-! ### bounds -/

theorem holds_cmpOf (k : BoundKind) (q l : Rat) : (cmpOf k).holds q l = !(k.ok q l) := by
  cases k <;> simp only [cmpOf, Cmp.holds, BoundKind.ok, gt_iff_lt, ge_iff_le]
  · by_cases h : q < l
    · have : ¬ l ≤ q := Rat.not_le.mpr h
      simp [h, this]
    · have : l ≤ q := Rat.not_lt.mp h
      simp [h, this]
  · by_cases h : q ≤ l
    · have : ¬ l < q := Rat.not_lt.mpr h
      simp [h, this]
    · have : l < q := Rat.not_le.mp h
      simp [h, this]
  · by_cases h : l < q
    · have : ¬ q ≤ l := Rat.not_le.mpr h
      simp [h, this]
    · have : q ≤ l := Rat.not_lt.mp h
      simp [h, this]
  · by_cases h : l ≤ q
    · have : ¬ q < l := Rat.not_lt.mpr h
      simp [h, this]
    · have : q < l := Rat.not_le.mp h
      simp [h, this]

end NmlVerif.Facets
