import NmlVerif.Model.Factory
import NmlVerif.Proofs.Add
/-! Helper lemmas for C09 (`Model/Factory.lean`). Core Lean only. -/
namespace NmlVerif.Factory
open NmlVerif NmlVerif.Add

/-- everything the factory can do -/
theorem factory_cases (T : Table) (env : Env) (enabled flag : Bool) (t : TypeArg) (kw : Kwargs) (oid : Nat) :
    (T.row? t.resolve = none ∧ factory T env enabled flag t kw oid = .error .attrError)
    ∨ (env.ctorFails t.resolve kw = true ∧ factory T env enabled flag t kw oid = .error .ctorValueError)
    ∨ (T.row? t.resolve ≠ none ∧ env.ctorFails t.resolve kw = false ∧
        ∃ k, firstBadArg T t.resolve kw = some k ∧ k ∈ keys kw ∧
          factory T env enabled flag t kw oid = .error (.badArg k))
    ∨ (T.row? t.resolve ≠ none ∧ env.ctorFails t.resolve kw = false ∧ firstBadArg T t.resolve kw = none ∧
        factory T env enabled flag t kw oid =
          if enabled && flag then
            (if env.valid (built T env t.resolve kw oid) then .ok (built T env t.resolve kw oid) else .error .invalid)
          else .ok (built T env t.resolve kw oid)) := by
  unfold factory
  cases hr : T.row? t.resolve with
  | none => left; exact ⟨rfl, rfl⟩
  | some r =>
    right
    cases hc : env.ctorFails t.resolve kw with
    | true => left; exact ⟨rfl, by simp⟩
    | false =>
      right
      cases hb : firstBadArg T t.resolve kw with
      | some k =>
        left
        refine ⟨by simp, rfl, k, rfl, ?_, by simp⟩
        unfold firstBadArg at hb
        exact List.mem_of_find?_eq_some hb
      | none =>
        right
        exact ⟨by simp, rfl, rfl, by simp⟩

theorem lookup_filter_keys : ∀ (kw : Kwargs) (names : List Nat) (n : Nat), names.contains n = true →
    lookup (kw.filter (fun p => names.contains p.1)) n = lookup kw n
  | [], _, _, _ => rfl
  | (k, v) :: r, names, n, hin => by
    by_cases hk : k = n
    · subst hk
      have hin' : k ∈ names := by simpa using hin
      simp [List.filter, hin', lookup]
    · have hb : (k == n) = false := by simpa using hk
      cases hc : names.contains k with
      | true =>
        simp only [List.filter, hc, lookup, hb]
        exact lookup_filter_keys r names n hin
      | false =>
        simp only [List.filter, hc, lookup, hb]
        exact lookup_filter_keys r names n hin

theorem gate_cond {g : Gate} {valid : Obj → Bool} {p : Obj} (hc : ¬ (g.on && !valid p) = true) (hg : g.on = true) :
    valid p = true := by
  cases hv : valid p with
  | true => rfl
  | false => simp [hg, hv] at hc

/-- when `add` returns it returns the child, and with the gate on the parent as it now is validates -/
theorem c10_returns_child (T : Table) (valid strOk : Obj → Bool) (g : Gate) (parent child : Obj)
    (hint : Option Nat) (force : Bool) (o : Obj)
    (h : (Add.add T valid strOk g parent child hint force).result = .ok o) :
    o = child ∧ (g.on = true → valid (Add.add T valid strOk g parent child hint force).parent = true) := by
  unfold Add.add addWith addCore at h ⊢
  generalize select true (targets (T.getMembers parent.cls) child.cls) hint = sel at h ⊢
  match sel with
  | .error e => simp at h
  | .ok none =>
    simp only at h ⊢
    split at h
    · cases h
    · rename_i hc
      simp only [Except.ok.injEq] at h
      exact ⟨h.symm, fun hg => gate_cond hc hg⟩
  | .ok (some m) =>
    simp only at h ⊢
    generalize place (strOk child) parent child m force = pl at h ⊢
    match pl with
    | .error e => simp at h
    | .ok (p', w) =>
      simp only at h ⊢
      split at h
      · cases h
      · rename_i hc
        simp only [Except.ok.injEq] at h
        exact ⟨h.symm, fun hg => gate_cond hc hg⟩

/-- with the gate off `validate()` plays no role -/
theorem add_gate_off (T : Table) (valid valid' strOk : Obj → Bool) (g : Gate) (parent child : Obj)
    (hint : Option Nat) (force : Bool) (hoff : (g.enabled && g.validate) = false) :
    Add.add T valid strOk g parent child hint force = Add.add T valid' strOk g parent child hint force := by
  have hon : g.on = false := hoff
  simp only [Add.add, addWith, addCore, hon, Bool.false_and, Bool.false_eq_true, ↓reduceIte]

end NmlVerif.Factory
