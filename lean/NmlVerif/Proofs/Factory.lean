import NmlVerif.Model.Factory
import NmlVerif.Proofs.Add
import NmlVerif.Proofs.AddIR
/-! Helper lemmas for C09 (`Model/Factory.lean`). Core Lean only. -/
namespace NmlVerif.Factory
open NmlVerif NmlVerif.Add

/-- everything the factory can do -/
theorem factory_cases (T : Table) (C : CtorTable) (env : Env) (enabled flag : Bool) (t : TypeArg) (kw : Kwargs)
    (oid : Nat) :
    (T.row? t.resolve = none ∧ factory T C env enabled flag t kw oid = .error .attrError)
    ∨ (construct C env t.resolve kw oid = none ∧ factory T C env enabled flag t kw oid = .error .ctorValueError)
    ∨ (T.row? t.resolve ≠ none ∧ (∃ o, construct C env t.resolve kw oid = some o) ∧
        ∃ k, firstBadArg T t.resolve kw = some k ∧ k ∈ keys kw ∧
          factory T C env enabled flag t kw oid = .error (.badArg k))
    ∨ (T.row? t.resolve ≠ none ∧ firstBadArg T t.resolve kw = none ∧
        ∃ o, construct C env t.resolve kw oid = some o ∧
        factory T C env enabled flag t kw oid =
          if enabled && flag then
            (if env.valid (built env t.resolve o) then .ok (built env t.resolve o) else .error .invalid)
          else .ok (built env t.resolve o)) := by
  unfold factory
  cases hr : T.row? t.resolve with
  | none => left; exact ⟨rfl, rfl⟩
  | some r =>
    right
    cases hc : construct C env t.resolve kw oid with
    | none => left; exact ⟨rfl, by simp⟩
    | some o =>
      right
      cases hb : firstBadArg T t.resolve kw with
      | some k =>
        left
        refine ⟨by simp, ⟨o, rfl⟩, k, rfl, ?_, by simp⟩
        unfold firstBadArg at hb
        exact List.mem_of_find?_eq_some hb
      | none =>
        right
        exact ⟨by simp, rfl, o, rfl, by simp⟩

theorem lookup_filter_keys : ∀ (kw : Kwargs) (names : List Nat) (n : Nat), names.contains n = true →
    lookup (kw.filter (fun p => names.contains p.1)) n = lookup kw n
  | [], _, _, _ => rfl
  | (k, v) :: r, names, n, hin => by
    by_cases hk : k = n
    · subst hk
      have hin' : k ∈ names := by simpa using hin
      simp [List.filter, hin', lookup]
    · have hb : (k == n) = false := by simpa using hk
      cases hc : names.contains k with
      | true =>
        simp only [List.filter, hc, lookup, hb]
        exact lookup_filter_keys r names n hin
      | false =>
        simp only [List.filter, hc, lookup, hb]
        exact lookup_filter_keys r names n hin

theorem gate_cond {g : Gate} {valid : Obj → Bool} {p : Obj} (hc : ¬ (g.on && !valid p) = true) (hg : g.on = true) :
    valid p = true := by
  cases hv : valid p with
  | true => rfl
  | false => simp [hg, hv] at hc

/-- when `add` returns it returns the child, and with the gate on the parent as it now is validates — in every
    shape of `__add` -/
theorem c10_returns_child (sh : PlaceShape) (T : Table) (valid strOk : Obj → Bool) (g : Gate) (parent child : Obj)
    (hint : Option Nat) (force : Bool) (o : Obj)
    (h : (addInst sh T valid strOk g parent child hint force).result = .ok o) :
    o = child ∧ (g.on = true → valid (addInst sh T valid strOk g parent child hint force).parent = true) := by
  unfold addInst addCoreX at h ⊢
  generalize select true (targets (T.getMembers parent.cls) child.cls) hint = sel at h ⊢
  match sel with
  | .error e => simp at h
  | .ok none =>
    simp only at h ⊢
    split at h
    · cases h
    · rename_i hc
      simp only [Except.ok.injEq] at h
      exact ⟨h.symm, fun hg => gate_cond hc hg⟩
  | .ok (some m) =>
    simp only at h ⊢
    generalize placeX sh.dup sh.warn sh.bk (strOk child) parent child m force = pl at h ⊢
    match pl with
    | .error e => simp at h
    | .ok (p', w) =>
      simp only at h ⊢
      split at h
      · cases h
      · rename_i hc
        simp only [Except.ok.injEq] at h
        exact ⟨h.symm, fun hg => gate_cond hc hg⟩

/-- with the gate off `validate()` plays no role -/
theorem add_gate_off (sh : PlaceShape) (T : Table) (valid valid' strOk : Obj → Bool) (g : Gate) (parent child : Obj)
    (hint : Option Nat) (force : Bool) (hoff : (g.enabled && g.validate) = false) :
    addInst sh T valid strOk g parent child hint force = addInst sh T valid' strOk g parent child hint force := by
  have hon : g.on = false := hoff
  simp only [addInst, addCoreX, hon, Bool.false_and, Bool.false_eq_true, ↓reduceIte]

/-- the shape before the repairs is C10's first model `Add.add` -/
theorem addInst_old (T : Table) (valid strOk : Obj → Bool) (g : Gate) (parent child : Obj) (hint : Option Nat)
    (force : Bool) :
    addInst .old T valid strOk g parent child hint force = Add.add T valid strOk g parent child hint force :=
  addCoreX_generated [] valid strOk _ g parent child hint force

/-! ### the generated constructors -/

/-- the evaluated assignments, one per entry of the wiring, under the attribute names of the wiring -/
theorem evalAll_spec (env : Env) (kw : Kwargs) : ∀ (l : List Assign) (l' : List (Nat × Val)),
    mapOpt (Assign.eval env kw) l = some l' →
    l'.map (·.1) = l.map (·.field) ∧
      ∀ a ∈ l, ∃ v, pyCast env a.by_ (a.src.eval kw) = some v ∧ (a.field, v) ∈ l'
  | [], l', h => by
    simp only [mapOpt, Option.some.injEq] at h
    subst h
    exact ⟨rfl, by simp⟩
  | a :: r, l', h => by
    simp only [mapOpt] at h
    cases hc : pyCast env a.by_ (a.src.eval kw) with
    | none => simp [Assign.eval, hc] at h
    | some v =>
      cases hr : mapOpt (Assign.eval env kw) r with
      | none => simp [Assign.eval, hc, hr] at h
      | some rs =>
        simp only [Assign.eval, hc, Option.map_some, hr, Option.some.injEq] at h
        subst h
        obtain ⟨ih1, ih2⟩ := evalAll_spec env kw r rs hr
        refine ⟨by simp [ih1], ?_⟩
        intro b hb
        rcases List.mem_cons.mp hb with rfl | hb'
        · exact ⟨v, hc, List.mem_cons_self⟩
        · obtain ⟨w, hw1, hw2⟩ := ih2 b hb'
          exact ⟨w, hw1, List.mem_cons_of_mem _ hw2⟩

theorem lookup_foldl_setF_notin : ∀ (l : List (Nat × Val)) (acc : List (Nat × Val)) (k : Nat),
    k ∉ l.map (·.1) → lookup (l.foldl (fun acc p => setF acc p.1 p.2) acc) k = lookup acc k
  | [], _, _, _ => rfl
  | p :: r, acc, k, h => by
    simp only [List.map_cons, List.mem_cons, not_or] at h
    simp only [List.foldl_cons]
    rw [lookup_foldl_setF_notin r _ k h.2]
    exact lookup_setF_ne acc p.1 k p.2 h.1

theorem lookup_foldl_setF_mem : ∀ (l : List (Nat × Val)) (acc : List (Nat × Val)) (k : Nat) (v : Val),
    (l.map (·.1)).count k = 1 → (k, v) ∈ l → lookup (l.foldl (fun acc p => setF acc p.1 p.2) acc) k = some v
  | [], _, _, _, _, h => by cases h
  | p :: r, acc, k, v, hc, h => by
    simp only [List.foldl_cons]
    by_cases hk : p.1 = k
    · have hr : k ∉ r.map (·.1) := by
        intro hm
        have : 0 < (r.map (·.1)).count k := List.count_pos_iff.mpr hm
        simp only [List.map_cons, hk, List.count_cons_self] at hc
        omega
      have hp : p = (k, v) := by
        rcases List.mem_cons.mp h with heq | hin
        · exact heq.symm
        · exact absurd (List.mem_map_of_mem (f := (·.1)) hin) hr
      subst hp
      rw [lookup_foldl_setF_notin r _ k hr]
      exact lookup_setF_eq acc k v
    · have hc' : (r.map (·.1)).count k = 1 := by
        simpa [List.map_cons, List.count_cons, hk] using hc
      have hin : (k, v) ∈ r := by
        rcases List.mem_cons.mp h with heq | hin
        · exact absurd (by rw [← heq]) hk
        · exact hin
      exact lookup_foldl_setF_mem r _ k v hc' hin

/-- `Src.eval` looks at the keyword list through `lookup` of the names it is fed by only -/
theorem eval_filter (names : List Nat) (kw : Kwargs) : ∀ (s : Src),
    (match s with | .given n _ => names.contains n = true | .const _ => True) →
    s.eval (kw.filter (fun p => names.contains p.1)) = s.eval kw
  | .given n d, h => by
    simp only [Src.eval]
    rw [lookup_filter_keys kw names n h]
  | .const _, _ => rfl

end NmlVerif.Factory
