import NmlVerif.Model.Fault
/-!
Helper lemmas for C08: the inductive form `ProtectedG` of the syntactic criterion, its soundness for the fault
semantics of `Model/Fault.lean` (every start state = every fault point, every oracle), and the link from the
executable `unprotected` list to `ProtectedG`.
-/
namespace NmlVerif.Fault

/-- the syntactic criterion as a derivation. `m = true` tolerates un-restored document mutation
    (then only the handle and "the fault is raised" clauses are claimed). -/
inductive ProtectedG (m : Bool) : Stmt → Prop where
  | skip : ProtectedG m .skip
  | io {k site} : ProtectedG m (.call (.io k) site)
  | raise_ {k site} : ProtectedG m (.raise_ k site)
  | reraise {site} : ProtectedG m (.reraise site)
  | mayRaise {oid site} : ProtectedG m (.mayRaise oid site)
  | ret : ProtectedG m .ret
  | mutate {f site} : m = true → ProtectedG m (.mutate f site)
  | restore {f} : m = true → ProtectedG m (.restore f)
  | guardOpen {h so st sc body} : ProtectedG m body →
      ProtectedG m (.seq (.call (.open_ h) so) (.tryFinally st body (.call (.close h) sc)))
  | guardMut {f sm st body} : ProtectedG m body →
      ProtectedG m (.seq (.mutate f sm) (.tryFinally st body (.restore f)))
  | seq {a b} : ProtectedG m a → ProtectedG m b → ProtectedG m (.seq a b)
  | loop {oid b} : ProtectedG m b → ProtectedG m (.loop oid b)
  | choice {oid a b} : ProtectedG m a → ProtectedG m b → ProtectedG m (.choice oid a b)
  | tryFinally {st body fin} : ProtectedG m body → ProtectedG m fin → noRet fin = true →
      ProtectedG m (.tryFinally st body fin)
  | tryExcept {st body kinds all h} : ProtectedG m body → ProtectedG m h →
      (noCalls body || alwaysRaises h) = true → ProtectedG m (.tryExcept st body kinds all h)
  | scope {b} : ProtectedG m b → ProtectedG m (.scope b)

/-- every open is closed in a `finally`, every document modification is undone in a `finally`, no handler
    swallows a file-layer error -/
abbrev Protected := ProtectedG false

/-- what a protected skeleton guarantees for one run from start state `s` -/
def Clean (m : Bool) (r : St × Outcome) (s : St) : Prop :=
  r.1.handles = s.handles ∧ (m = false → r.1.detached = s.detached) ∧
    (s.fired = false → r.1.fired = true → r.2.isRaised = true)

/-! ### unfolding lemmas in `if` form -/

theorem run_seq (a b : Stmt) (s : St) :
    run (.seq a b) s = if (run a s).2 = .ok then run b (run a s).1 else run a s := by
  simp only [run]
  generalize run a s = r
  obtain ⟨s', o⟩ := r
  cases o <;> simp

/-- outcome of `try body finally fin`: a raise (or return) in `finally` replaces the pending outcome -/
def finOut (o o' : Outcome) : Outcome :=
  match o' with
  | .ok => o
  | r => r

theorem run_tryFinally (site : Nat) (body fin : Stmt) (s : St) :
    run (.tryFinally site body fin) s =
      ((run fin (run body s).1).1, finOut (run body s).2 (run fin (run body s).1).2) := by
  simp only [run]
  generalize run body s = rb
  obtain ⟨s', o⟩ := rb
  simp only
  generalize run fin s' = rf
  obtain ⟨s'', o'⟩ := rf
  cases o' <;> simp [finOut]

theorem run_scope (b : Stmt) (s : St) :
    run (.scope b) s = ((run b s).1, if (run b s).2 = .ret then .ok else (run b s).2) := by
  simp only [run]
  generalize run b s = r
  obtain ⟨s', o⟩ := r
  cases o <;> simp

/-! ### primitive steps -/

theorem pop_handles (oid : Nat) (s : St) : (pop oid s).2.handles = s.handles := by
  unfold pop; split <;> rfl
theorem pop_detached (oid : Nat) (s : St) : (pop oid s).2.detached = s.detached := by
  unfold pop; split <;> rfl
theorem pop_fired (oid : Nat) (s : St) : (pop oid s).2.fired = s.fired := by
  unfold pop; split <;> rfl

theorem doCall_detached (e : Eff) (site : Nat) (s : St) : (doCall e site s).1.detached = s.detached := by
  unfold doCall; split <;> split <;> rfl

theorem doCall_notRet (e : Eff) (site : Nat) (s : St) : (doCall e site s).2 ≠ .ret := by
  unfold doCall; split <;> split <;> simp

/-- a delivered fault is the outcome of the call that received it -/
theorem doCall_fired (e : Eff) (site : Nat) (s : St) :
    s.fired = false → (doCall e site s).1.fired = true → (doCall e site s).2.isRaised = true := by
  unfold doCall
  split <;> split <;> simp_all [Outcome.isRaised]

theorem doCall_io_handles (k : IoKind) (site : Nat) (s : St) : (doCall (.io k) site s).1.handles = s.handles := by
  unfold doCall; split <;> rfl

theorem doCall_close_handles (h site : Nat) (s : St) : (doCall (.close h) site s).1.handles = s.handles - 1 := by
  unfold doCall; split <;> rfl

/-- an open either raises (fault delivered, nothing opened) or succeeds with one more handle -/
theorem doCall_open (h site : Nat) (s : St) :
    ((doCall (.open_ h) site s).2.isRaised = true ∧ (doCall (.open_ h) site s).1.handles = s.handles) ∨
    ((doCall (.open_ h) site s).2 = .ok ∧ (doCall (.open_ h) site s).1.handles = s.handles + 1 ∧
      (doCall (.open_ h) site s).1.fired = s.fired) := by
  unfold doCall
  split
  · left; simp [Outcome.isRaised]
  · right; simp

/-! ### semantic content of the three syntactic side conditions -/

theorem iter_notRet (f : St → St × Outcome) (hf : ∀ s, (f s).2 ≠ .ret) :
    ∀ n s, (iter f n s).2 ≠ .ret := by
  intro n
  induction n with
  | zero => intro s; simp [iter]
  | succ n ih =>
    intro s
    simp only [iter]
    have := hf s
    generalize f s = r at this
    obtain ⟨s', o⟩ := r
    cases o with
    | ok => exact ih s'
    | ret => simp at this
    | raised k => simp

theorem noRet_sound : ∀ (p : Stmt), noRet p = true → ∀ s, (run p s).2 ≠ .ret := by
  intro p
  induction p with
  | skip => intro _ s; simp [run]
  | call e site => intro _ s; exact doCall_notRet e site s
  | raise_ k site => intro _ s; simp [run]
  | reraise site => intro _ s; simp [run]
  | mayRaise oid site =>
    intro _ s
    simp only [run]
    split <;> simp
  | mutate f site => intro _ s; simp [run]
  | restore f => intro _ s; simp [run]
  | seq a b iha ihb =>
    intro h s
    simp only [noRet, Bool.and_eq_true] at h
    rw [run_seq]
    split
    · exact ihb h.2 _
    · exact iha h.1 s
  | loop oid b ih =>
    intro h s
    simp only [noRet] at h
    simp only [run]
    exact iter_notRet _ (ih h) _ _
  | choice oid a b iha ihb =>
    intro h s
    simp only [noRet, Bool.and_eq_true] at h
    simp only [run]
    split
    · exact ihb h.2 _
    · exact iha h.1 _
  | tryFinally site body fin ihb ihf =>
    intro h s
    simp only [noRet, Bool.and_eq_true] at h
    rw [run_tryFinally]
    simp only
    have h1 := ihb h.1 s
    have h2 := ihf h.2 (run body s).1
    generalize (run fin (run body s).1).2 = o' at h2
    cases o' <;> simp_all [finOut]
  | tryExcept site body kinds all hd ihb ihh =>
    intro h s
    simp only [noRet, Bool.and_eq_true] at h
    simp only [run]
    have hb := ihb h.1 s
    generalize run body s = rb at hb
    obtain ⟨s', o⟩ := rb
    cases o with
    | ok => simp
    | ret => simp at hb
    | raised k =>
      simp only
      split
      · exact ihh h.2 _
      · simp
  | scope b ih =>
    intro _ s
    rw [run_scope]
    simp only
    split
    · simp
    · assumption
  | ret => intro h; simp [noRet] at h
  | unsupported site => intro _ s; simp [run]

theorem iter_fired (f : St → St × Outcome) (hf : ∀ s, (f s).1.fired = s.fired) :
    ∀ n s, (iter f n s).1.fired = s.fired := by
  intro n
  induction n with
  | zero => intro s; simp [iter]
  | succ n ih =>
    intro s
    simp only [iter]
    have := hf s
    generalize f s = r at this
    obtain ⟨s', o⟩ := r
    cases o with
    | ok => exact (ih s').trans this
    | ret => exact this
    | raised k => exact this

/-- code that makes no file-layer call cannot receive the injected fault -/
theorem noCalls_sound : ∀ (p : Stmt), noCalls p = true → ∀ s, (run p s).1.fired = s.fired := by
  intro p
  induction p with
  | skip => intro _ s; simp [run]
  | call e site => intro h; simp [noCalls] at h
  | raise_ k site => intro _ s; simp [run]
  | reraise site => intro _ s; simp [run]
  | mayRaise oid site =>
    intro _ s
    simp only [run]
    have := pop_fired oid s
    generalize pop oid s = r at this
    obtain ⟨d, s'⟩ := r
    cases d <;> exact this
  | mutate f site => intro _ s; simp [run]
  | restore f => intro _ s; simp [run]
  | seq a b iha ihb =>
    intro h s
    simp only [noCalls, Bool.and_eq_true] at h
    rw [run_seq]
    split
    · exact (ihb h.2 _).trans (iha h.1 s)
    · exact iha h.1 s
  | loop oid b ih =>
    intro h s
    simp only [noCalls] at h
    simp only [run]
    exact (iter_fired _ (ih h) _ _).trans (pop_fired oid s)
  | choice oid a b iha ihb =>
    intro h s
    simp only [noCalls, Bool.and_eq_true] at h
    simp only [run]
    split
    · exact (ihb h.2 _).trans (pop_fired oid s)
    · exact (iha h.1 _).trans (pop_fired oid s)
  | tryFinally site body fin ihb ihf =>
    intro h s
    simp only [noCalls, Bool.and_eq_true] at h
    rw [run_tryFinally]
    exact (ihf h.2 _).trans (ihb h.1 s)
  | tryExcept site body kinds all hd ihb ihh =>
    intro h s
    simp only [noCalls, Bool.and_eq_true] at h
    simp only [run]
    have hb := ihb h.1 s
    generalize run body s = rb at hb
    obtain ⟨s', o⟩ := rb
    cases o with
    | ok => exact hb
    | ret => exact hb
    | raised k =>
      simp only
      split
      · exact (ihh h.2 _).trans hb
      · exact hb
  | scope b ih =>
    intro h s
    simp only [noCalls] at h
    rw [run_scope]
    exact ih h s
  | ret => intro _ s; simp [run]
  | unsupported site => intro _ s; simp [run]

theorem alwaysRaises_sound : ∀ (p : Stmt), alwaysRaises p = true → ∀ s, (run p s).2.isRaised = true := by
  intro p
  induction p with
  | raise_ k site => intro _ s; simp [run, Outcome.isRaised]
  | reraise site => intro _ s; simp [run, Outcome.isRaised]
  | seq a b _ ihb =>
    intro h s
    simp only [alwaysRaises, Bool.and_eq_true] at h
    rw [run_seq]
    have hn := noRet_sound a h.1 s
    split
    · exact ihb h.2 _
    · generalize run a s = r at *
      obtain ⟨s', o⟩ := r
      cases o <;> simp_all [Outcome.isRaised]
  | _ => intro h; simp [alwaysRaises] at h

/-! ### soundness -/

theorem clean_of_eq {m : Bool} {r : St × Outcome} {s : St} (h1 : r.1.handles = s.handles)
    (h2 : m = false → r.1.detached = s.detached) (h3 : r.1.fired = s.fired) : Clean m r s :=
  ⟨h1, h2, fun a b => by rw [h3, a] at b; cases b⟩

theorem clean_pop {m : Bool} {r : St × Outcome} {oid : Nat} {s : St} (h : Clean m r (pop oid s).2) : Clean m r s := by
  unfold Clean at *
  rw [pop_handles, pop_detached, pop_fired] at h
  exact h

theorem run_call (e : Eff) (site : Nat) (s : St) : run (.call e site) s = doCall e site s := rfl
theorem run_restore (f : Nat) (s : St) : run (.restore f) s = ({ s with detached := s.detached - 1 }, .ok) := rfl
theorem run_mutate (f site : Nat) (s : St) :
    run (.mutate f site) s = ({ s with detached := s.detached + 1, trace := (site, 8) :: s.trace }, .ok) := rfl

theorem iter_clean (m : Bool) (f : St → St × Outcome) (hf : ∀ s, Clean m (f s) s) :
    ∀ n s, Clean m (iter f n s) s := by
  intro n
  induction n with
  | zero => intro s; exact clean_of_eq rfl (fun _ => rfl) rfl
  | succ n ih =>
    intro s
    simp only [iter]
    have h1 := hf s
    generalize f s = r at h1
    obtain ⟨s', o⟩ := r
    cases o with
    | ok =>
      simp only
      have h2 := ih s'
      refine ⟨h2.1.trans h1.1, fun hm => (h2.2.1 hm).trans (h1.2.1 hm), ?_⟩
      intro hs hf'
      cases hfs : s'.fired with
      | false => exact h2.2.2 hfs hf'
      | true => have := h1.2.2 hs hfs; simp [Outcome.isRaised] at this
    | ret => exact h1
    | raised k => exact h1

/-- **Soundness of the criterion**: a protected skeleton, run from any state (any pending fault point, any
    oracle), ends with the handles it started with, the document as attached as it started, and — if the
    injected fault was delivered during the run — with a raise. -/
theorem protected_sound (m : Bool) (p : Stmt) (hp : ProtectedG m p) : ∀ s, Clean m (run p s) s := by
  induction hp with
  | skip => intro s; exact clean_of_eq rfl (fun _ => rfl) rfl
  | @io k site =>
    intro s
    exact ⟨doCall_io_handles k site s, fun _ => doCall_detached _ _ s, doCall_fired _ _ s⟩
  | raise_ => intro s; exact clean_of_eq rfl (fun _ => rfl) rfl
  | reraise => intro s; exact clean_of_eq rfl (fun _ => rfl) rfl
  | @mayRaise oid site =>
    intro s
    simp only [run]
    have h1 := pop_handles oid s
    have h2 := pop_detached oid s
    have h3 := pop_fired oid s
    generalize pop oid s = r at h1 h2 h3
    obtain ⟨d, s'⟩ := r
    cases d with
    | zero => exact ⟨h1, fun _ => h2, by intro a b; simp_all⟩
    | succ d => exact ⟨h1, fun _ => h2, by intro a b; simp [Outcome.isRaised]⟩
  | ret => intro s; exact clean_of_eq rfl (fun _ => rfl) rfl
  | mutate hm => intro s; subst hm; exact clean_of_eq rfl (fun h => by cases h) rfl
  | restore hm => intro s; subst hm; exact clean_of_eq rfl (fun h => by cases h) rfl
  | @guardOpen h so st sc body _ ih =>
    intro s
    rw [run_seq, run_call]
    rcases doCall_open h so s with ⟨hr, hh⟩ | ⟨hok, hh, hf⟩
    · have hne : (doCall (.open_ h) so s).2 ≠ .ok := by
        intro e; rw [e] at hr; simp [Outcome.isRaised] at hr
      rw [if_neg hne]
      exact ⟨hh, fun _ => doCall_detached _ _ s, fun _ _ => hr⟩
    · rw [if_pos hok]
      have hd := doCall_detached (.open_ h) so s
      generalize (doCall (.open_ h) so s).1 = s1 at hh hf hd
      rw [run_tryFinally]
      simp only [run_call]
      have hb := ih s1
      generalize run body s1 = rb at hb
      obtain ⟨s2, o⟩ := rb
      simp only at hb ⊢
      have c1 := doCall_close_handles h sc s2
      have c2 := doCall_detached (.close h) sc s2
      have c3 := doCall_fired (.close h) sc s2
      have c4 := doCall_notRet (.close h) sc s2
      rcases hrc : doCall (.close h) sc s2 with ⟨s3, oc⟩
      rw [hrc] at c1 c2 c3 c4
      simp only at c1 c2 c3 c4 ⊢
      refine ⟨by rw [c1, hb.1, hh]; omega, fun hm => by rw [c2, hb.2.1 hm, hd], ?_⟩
      intro hs hf3
      cases hfs : s2.fired with
      | true =>
        have ho := hb.2.2 (by rw [hf]; exact hs) hfs
        cases oc with
        | ok => simpa [finOut] using ho
        | ret => simp at c4
        | raised k => simp [finOut, Outcome.isRaised]
      | false =>
        have := c3 hfs hf3
        cases oc <;> simp_all [finOut, Outcome.isRaised]
  | @guardMut f sm st body _ ih =>
    intro s
    rw [run_seq, run_mutate]
    simp only [if_true]
    rw [run_tryFinally]
    simp only [run_restore]
    have hb := ih { s with detached := s.detached + 1, trace := (sm, 8) :: s.trace }
    generalize run body { s with detached := s.detached + 1, trace := (sm, 8) :: s.trace } = rb at hb
    obtain ⟨s2, o⟩ := rb
    simp only at hb ⊢
    refine ⟨hb.1, fun hm => by rw [hb.2.1 hm]; simp, ?_⟩
    intro hs hf2
    exact hb.2.2 hs hf2
  | @seq a b _ _ iha ihb =>
    intro s
    rw [run_seq]
    have ha := iha s
    split
    · rename_i hok
      have hb := ihb (run a s).1
      refine ⟨hb.1.trans ha.1, fun hm => (hb.2.1 hm).trans (ha.2.1 hm), ?_⟩
      intro hs hf
      cases hfs : (run a s).1.fired with
      | false => exact hb.2.2 hfs hf
      | true => have := ha.2.2 hs hfs; rw [hok] at this; simp [Outcome.isRaised] at this
    · exact ha
  | @loop oid b _ ih =>
    intro s
    simp only [run]
    exact clean_pop (iter_clean m (run b) ih (pop oid s).1 (pop oid s).2)
  | @choice oid a b _ _ iha ihb =>
    intro s
    simp only [run]
    split
    · exact clean_pop (ihb (pop oid s).2)
    · exact clean_pop (iha (pop oid s).2)
  | @tryFinally st body fin _ _ hnr ihb ihf =>
    intro s
    rw [run_tryFinally]
    have hb := ihb s
    have hf := ihf (run body s).1
    have hn := noRet_sound fin hnr (run body s).1
    generalize run body s = rb at hb hf hn
    obtain ⟨s2, o⟩ := rb
    generalize run fin s2 = rf at hf hn
    obtain ⟨s3, o'⟩ := rf
    simp only at hb hf hn ⊢
    refine ⟨hf.1.trans hb.1, fun hm => (hf.2.1 hm).trans (hb.2.1 hm), ?_⟩
    intro hs hf3
    cases hfs : s2.fired with
    | true =>
      have ho := hb.2.2 hs hfs
      cases o' with
      | ok => simpa [finOut] using ho
      | ret => simp at hn
      | raised k => simp [finOut, Outcome.isRaised]
    | false =>
      have := hf.2.2 hfs hf3
      cases o' <;> simp_all [finOut, Outcome.isRaised]
  | @tryExcept st body kinds all h _ _ hside ihb ihh =>
    intro s
    simp only [run]
    have hb := ihb s
    have hnc : noCalls body = true → (run body s).1.fired = s.fired := fun hc => noCalls_sound body hc s
    generalize run body s = rb at hb hnc
    obtain ⟨s2, o⟩ := rb
    cases o with
    | ok => exact hb
    | ret => exact hb
    | raised k =>
      simp only at hb hnc ⊢
      split
      · have hh := ihh { s2 with exc := k }
        have har : alwaysRaises h = true → (run h { s2 with exc := k }).2.isRaised = true :=
          fun ha => alwaysRaises_sound h ha _
        generalize run h { s2 with exc := k } = rh at hh har
        obtain ⟨s3, o3⟩ := rh
        simp only at hh har ⊢
        refine ⟨hh.1.trans hb.1, fun hm => (hh.2.1 hm).trans (hb.2.1 hm), ?_⟩
        intro hs hf3
        cases hfs : s2.fired with
        | false => exact hh.2.2 hfs hf3
        | true =>
          simp only [Bool.or_eq_true] at hside
          rcases hside with hc | ha
          · have := hnc hc; rw [hfs, hs] at this; simp at this
          · exact har ha
      · exact hb
  | @scope b _ ih =>
    intro s
    rw [run_scope]
    have hb := ih s
    generalize run b s = rb at hb
    obtain ⟨s2, o⟩ := rb
    simp only at hb ⊢
    refine ⟨hb.1, hb.2.1, ?_⟩
    intro hs hf
    have := hb.2.2 hs hf
    cases o <;> simp_all [Outcome.isRaised]

/-! ### from the executable list to the derivation -/

theorem unprotected_sound (m : Bool) : ∀ (p : Stmt),
    (∀ u ∈ unprotected p, m = true ∧ u.1.isDoc = true) → ProtectedG m p := by
  intro p
  fun_induction unprotected p with
  | case1 => intro _; exact .skip
  | case2 h site => intro hu; have := (hu _ (List.mem_singleton.mpr rfl)).2; simp [UKind.isDoc] at this
  | case3 h site => intro hu; have := (hu _ (List.mem_singleton.mpr rfl)).2; simp [UKind.isDoc] at this
  | case4 => intro _; exact .io
  | case5 => intro _; exact .raise_
  | case6 => intro _; exact .reraise
  | case7 => intro _; exact .mayRaise
  | case8 => intro _; exact .ret
  | case9 f site => intro hu; exact .mutate (hu _ (List.mem_singleton.mpr rfl)).1
  | case10 f => intro hu; exact .restore (hu _ (List.mem_singleton.mpr rfl)).1
  | case11 so st body h' sc ih => intro hu; exact .guardOpen (ih hu)
  | case12 h so st body h' sc hne ih =>
    intro hu; have := (hu _ (List.mem_cons_self)).2; simp [UKind.isDoc] at this
  | case13 sm st body f' ih => intro hu; exact .guardMut (ih hu)
  | case14 f sm st body f' hne ih =>
    intro hu
    have hm := (hu _ (List.mem_cons_self)).1
    exact .seq (.mutate hm) (.tryFinally (ih fun u h => hu u (List.mem_cons_of_mem _ h)) (.restore hm) (by simp [noRet]))
  | case15 a b _ _ iha ihb =>
    intro hu
    exact .seq (iha fun u h => hu u (List.mem_append_left _ h)) (ihb fun u h => hu u (List.mem_append_right _ h))
  | case16 oid b ih => intro hu; exact .loop (ih hu)
  | case17 oid a b iha ihb =>
    intro hu
    exact .choice (iha fun u h => hu u (List.mem_append_left _ h)) (ihb fun u h => hu u (List.mem_append_right _ h))
  | case18 site body fin ihb ihf =>
    intro hu
    refine .tryFinally (ihb fun u h => hu u (List.mem_append_left _ (List.mem_append_left _ h)))
      (ihf fun u h => hu u (List.mem_append_left _ (List.mem_append_right _ h))) ?_
    cases hn : noRet fin with
    | true => rfl
    | false =>
      have := (hu (.retInFinally, site) (List.mem_append_right _ (by simp [hn]))).2
      simp [UKind.isDoc] at this
  | case19 site body kinds all h ihb ihh =>
    intro hu
    refine .tryExcept (ihb fun u h => hu u (List.mem_append_left _ (List.mem_append_left _ h)))
      (ihh fun u h => hu u (List.mem_append_left _ (List.mem_append_right _ h))) ?_
    cases hn : (noCalls body || alwaysRaises h) with
    | true => rfl
    | false =>
      have := (hu (.swallow, site) (List.mem_append_right _ (by simp [hn]))).2
      simp [UKind.isDoc] at this
  | case20 b ih => intro hu; exact .scope (ih hu)
  | case21 site => intro hu; have := (hu _ (List.mem_singleton.mpr rfl)).2; simp [UKind.isDoc] at this

end NmlVerif.Fault
