import NmlVerif.Model.FixExternal
/-!
Helper lemmas for C17 (`Props/C17.lean`): allocation accounting (`AllocSpec`: a freshly allocated value uses
every identity of its counter interval exactly once), relational specifications of the substitution loop, the
meaning of the lookup tables, and invariance of the whole function under forgetting identities (`shape`).
-/
namespace NmlVerif.FixExternal
open List

/-- indicator of `a ≤ i < b` -/
def inR (i a b : Nat) : Nat := if a ≤ i ∧ i < b then 1 else 0

theorem inR_add {i a b c : Nat} (h1 : a ≤ b) (h2 : b ≤ c) : inR i a b + inR i b c = inR i a c := by
  unfold inR; split <;> split <;> split <;> omega

theorem inR_self (i a : Nat) : inR i a a = 0 := by unfold inR; split <;> omega
theorem inR_le_one (i a b : Nat) : inR i a b ≤ 1 := by unfold inR; split <;> omega
theorem inR_pos {i a b : Nat} (h : 0 < inR i a b) : a ≤ i ∧ i < b := by
  unfold inR at h; split at h <;> simp_all
theorem inR_of_lt {i a b : Nat} (h : i < a) : inR i a b = 0 := by unfold inR; split <;> omega
theorem inR_succ (i a b : Nat) (h : a < b) : inR i a b = (if a = i then 1 else 0) + inR i (a+1) b := by
  unfold inR; split <;> split <;> split <;> omega

theorem count_cons' (i j : Nat) (l : List Nat) : count i (j :: l) = (if j = i then 1 else 0) + count i l := by
  rw [List.count_cons]; simp only [beq_iff_eq]; omega

/-- a value allocated from counter `n` up to `r.2` uses every identity in `[n, r.2)` exactly once -/
def AllocSpec {β : Type} (ids : β → List Nat) (n : Nat) (r : β × Nat) : Prop :=
  n ≤ r.2 ∧ ∀ i, count i (ids r.1) = inR i n r.2

mutual
  theorem realloc_spec (f : Bool) : ∀ (np : ObjId) (o : Obj) (n : Nat),
      AllocSpec Obj.ids n (realloc f np o n) ∧ (realloc f np o n).1.shape = o.shape
    | np, .mk i par p ks, n => by
      have ⟨⟨h1, h2⟩, h3⟩ := reallocL_spec f n ks (n + 1)
      refine ⟨⟨?_, ?_⟩, ?_⟩
      · simp only [realloc]; omega
      · intro j
        simp only [realloc, Obj.ids, count_cons', h2 j]
        rw [inR_succ j n _ (by omega)]
      · simp only [realloc, Obj.shape, h3]
  theorem reallocL_spec (f : Bool) : ∀ (np : ObjId) (os : List Obj) (n : Nat),
      AllocSpec Obj.idsL n (reallocL f np os n) ∧ Obj.shapeL (reallocL f np os n).1 = Obj.shapeL os
    | np, [], n => by simp [reallocL, AllocSpec, Obj.idsL, Obj.shapeL, inR_self]
    | np, o :: os, n => by
      have ⟨⟨a1, a2⟩, a3⟩ := realloc_spec f np o n
      have ⟨⟨b1, b2⟩, b3⟩ := reallocL_spec f np os (realloc f np o n).2
      refine ⟨⟨?_, ?_⟩, ?_⟩
      · simp only [reallocL]; omega
      · intro j
        simp only [reallocL, Obj.idsL, count_append, a2 j, b2 j]
        exact inR_add a1 b1
      · simp only [reallocL, Obj.shapeL, a3, b3]
end


theorem mem_of_count_inR {ids : List Nat} {i n m : Nat} (h : count i ids = inR i n m) (hi : i ∈ ids) :
    n ≤ i ∧ i < m := by
  have := List.count_pos_iff.mpr hi
  exact inR_pos (by omega)

theorem AllocSpec.mem {β : Type} {ids : β → List Nat} {n : Nat} {r : β × Nat} (h : AllocSpec ids n r)
    {i : Nat} (hi : i ∈ ids r.1) : n ≤ i ∧ i < r.2 := mem_of_count_inR (h.2 i) hi

theorem mapAlloc_spec {α β : Type} (f : α → Nat → β × Nat) (ids : β → List Nat)
    (hf : ∀ a n, AllocSpec ids n (f a n)) :
    ∀ (l : List α) (n : Nat), AllocSpec (fun l => l.flatMap ids) n (mapAlloc f l n)
  | [], n => by simp [mapAlloc, AllocSpec, inR_self]
  | a :: as, n => by
    have ⟨a1, a2⟩ := hf a n
    have ⟨b1, b2⟩ := mapAlloc_spec f ids hf as (f a n).2
    refine ⟨by simp only [mapAlloc]; omega, fun j => ?_⟩
    simp only [mapAlloc, flatMap_cons, count_append, a2 j]
    simp only at b2
    rw [b2 j]
    exact inR_add a1 b1

theorem mapAlloc_shape {α β γ : Type} (f : α → Nat → β × Nat) (shA : α → γ) (shB : β → γ)
    (hf : ∀ a n, shB (f a n).1 = shA a) :
    ∀ (l : List α) (n : Nat), (mapAlloc f l n).1.map shB = l.map shA
  | [], n => by simp [mapAlloc]
  | a :: as, n => by simp [mapAlloc, hf a n, mapAlloc_shape f shA shB hf as]

theorem mapAlloc_length {α β : Type} (f : α → Nat → β × Nat) :
    ∀ (l : List α) (n : Nat), (mapAlloc f l n).1.length = l.length
  | [], n => by simp [mapAlloc]
  | a :: as, n => by simp [mapAlloc, mapAlloc_length f as]

/-- every element of the result is the image of an element of the input, allocated somewhere in between -/
theorem mapAlloc_mem {α β : Type} (f : α → Nat → β × Nat) (hmono : ∀ a n, n ≤ (f a n).2) :
    ∀ (l : List α) (n : Nat) (b : β), b ∈ (mapAlloc f l n).1 →
      ∃ a ∈ l, ∃ m, n ≤ m ∧ (f a m).2 ≤ (mapAlloc f l n).2 ∧ b = (f a m).1
  | [], n, b, h => by simp [mapAlloc] at h
  | a :: as, n, b, h => by
    simp only [mapAlloc, mem_cons] at h
    have hm2 : ∀ (l : List α) (n : Nat), n ≤ (mapAlloc f l n).2 := by
      intro l; induction l with
      | nil => intro n; simp [mapAlloc]
      | cons x xs ih => intro n; simp only [mapAlloc]; have := hmono x n; have := ih (f x n).2; omega
    rcases h with h | h
    · refine ⟨a, by simp, n, Nat.le_refl _, ?_, h⟩
      simp only [mapAlloc]; exact hm2 as _
    · obtain ⟨a', ha', m, hm, hle, hb⟩ := mapAlloc_mem f hmono as (f a n).2 b h
      refine ⟨a', by simp [ha'], m, ?_, ?_, hb⟩
      · have := hmono a n; omega
      · simp only [mapAlloc]; exact hle

/-- every element of the input has an image in the result -/
theorem mapAlloc_mem_of {α β : Type} (f : α → Nat → β × Nat) :
    ∀ (l : List α) (n : Nat) (a : α), a ∈ l → ∃ m, (f a m).1 ∈ (mapAlloc f l n).1
  | [], n, a, h => by simp at h
  | x :: xs, n, a, h => by
    simp only [mem_cons] at h
    rcases h with h | h
    · subst h; exact ⟨n, by simp [mapAlloc]⟩
    · obtain ⟨m, hm⟩ := mapAlloc_mem_of f xs (f x n).2 a h
      exact ⟨m, by simp [mapAlloc, hm]⟩

theorem Elem.realloc_spec (f : Bool) (np : ObjId) (e : Elem) (n : Nat) :
    AllocSpec Elem.ids n (e.realloc f np n) ∧ (e.realloc f np n).1.shape = e.shape
      ∧ (e.realloc f np n).1.nmlId = e.nmlId := by
  have ⟨h1, h2⟩ := NmlVerif.FixExternal.realloc_spec f np e.obj n
  exact ⟨h1, by simp [Elem.realloc, Elem.shape, h2], rfl⟩

theorem Slot.realloc_spec (f : Bool) (np : ObjId) (s : Slot) (n : Nat) :
    AllocSpec Slot.ids n (s.realloc f np n) ∧ (s.realloc f np n).1.shape = s.shape := by
  obtain ⟨attr, elem⟩ := s
  cases elem with
  | none => simp [Slot.realloc, AllocSpec, Slot.ids, Slot.shape, inR_self]
  | some e =>
    have ⟨h1, h2, _⟩ := Elem.realloc_spec f np e n
    exact ⟨h1, by simp [Slot.realloc, Slot.shape, h2]⟩

theorem Cell.realloc_spec (f : Bool) (np : ObjId) (c : Cell) (n : Nat) :
    AllocSpec Cell.ids n (c.realloc f np n) ∧ (c.realloc f np n).1.shape = c.shape := by
  have ⟨⟨a1, a2⟩, a3⟩ := Slot.realloc_spec f n c.m (n + 1)
  have ⟨⟨b1, b2⟩, b3⟩ := Slot.realloc_spec f n c.b (c.m.realloc f n (n + 1)).2
  refine ⟨⟨by simp only [Cell.realloc]; omega, fun j => ?_⟩, ?_⟩
  · simp only [Cell.realloc, Cell.ids, count_cons', count_append, a2 j, b2 j]
    rw [inR_add a1 b1, inR_succ j n _ (by omega)]
  · simp only [Cell.realloc, Cell.shape, a3, b3]

theorem Inc.realloc_spec (f : Bool) (np : ObjId) (c : Inc) (n : Nat) :
    AllocSpec (fun i => [Inc.oid i]) n (c.realloc f np n) ∧ (c.realloc f np n).1.shape = c.shape := by
  refine ⟨⟨by simp [Inc.realloc], fun j => ?_⟩, rfl⟩
  simp only [Inc.realloc, count_cons', count_nil]
  rw [inR_succ j n _ (by omega), inR_self]

theorem flatMap_singleton_oid (l : List Inc) : l.flatMap (fun i => [Inc.oid i]) = l.map Inc.oid := by
  induction l with
  | nil => rfl
  | cons a as ih => simp [flatMap_cons, ih]

theorem deepcopyDoc_spec (d : Doc) (n : Nat) :
    AllocSpec Doc.ids n (deepcopyDoc d n) ∧ (deepcopyDoc d n).1.shape = d.shape := by
  have s1 := mapAlloc_spec (Inc.realloc false n) _ (fun a m => (Inc.realloc_spec false n a m).1) d.includes (n + 1)
  have s2 := mapAlloc_spec (Elem.realloc false n) _ (fun a m => (Elem.realloc_spec false n a m).1) d.morphs
    (mapAlloc (Inc.realloc false n) d.includes (n + 1)).2
  have s3 := mapAlloc_spec (Elem.realloc false n) _ (fun a m => (Elem.realloc_spec false n a m).1) d.bios
    (mapAlloc (Elem.realloc false n) d.morphs (mapAlloc (Inc.realloc false n) d.includes (n + 1)).2).2
  have s4 := mapAlloc_spec (Cell.realloc false n) _ (fun a m => (Cell.realloc_spec false n a m).1) d.cells
    (mapAlloc (Elem.realloc false n) d.bios (mapAlloc (Elem.realloc false n) d.morphs (mapAlloc (Inc.realloc false n) d.includes (n + 1)).2).2).2
  have s5 := mapAlloc_spec (Cell.realloc false n) _ (fun a m => (Cell.realloc_spec false n a m).1) d.cells2
    (mapAlloc (Cell.realloc false n) d.cells (mapAlloc (Elem.realloc false n) d.bios (mapAlloc (Elem.realloc false n) d.morphs (mapAlloc (Inc.realloc false n) d.includes (n + 1)).2).2).2).2
  have s6 := reallocL_spec false n d.other
    (mapAlloc (Cell.realloc false n) d.cells2 (mapAlloc (Cell.realloc false n) d.cells (mapAlloc (Elem.realloc false n) d.bios (mapAlloc (Elem.realloc false n) d.morphs (mapAlloc (Inc.realloc false n) d.includes (n + 1)).2).2).2).2).2
  obtain ⟨a1, a2⟩ := s1
  obtain ⟨b1, b2⟩ := s2
  obtain ⟨c1, c2⟩ := s3
  obtain ⟨d1, d2⟩ := s4
  obtain ⟨e1, e2⟩ := s5
  obtain ⟨⟨f1, f2⟩, f3⟩ := s6
  refine ⟨⟨by simp only [deepcopyDoc]; omega, fun j => ?_⟩, ?_⟩
  · simp only [flatMap_singleton_oid] at a2
    simp only at b2 c2 d2 e2
    simp only [deepcopyDoc, Doc.ids, count_cons', count_append, a2 j, b2 j, c2 j, d2 j, e2 j, f2 j]
    rw [inR_succ j n _ (by omega)]
    rw [inR_add a1 b1, inR_add (by omega) c1, inR_add (by omega) d1, inR_add (by omega) e1,
      inR_add (by omega) f1]
  · simp only [deepcopyDoc, Doc.shape, f3]
    rw [mapAlloc_shape _ Inc.shape Inc.shape (fun a m => (Inc.realloc_spec false n a m).2),
      mapAlloc_shape _ Elem.shape Elem.shape (fun a m => (Elem.realloc_spec false n a m).2.1),
      mapAlloc_shape _ Elem.shape Elem.shape (fun a m => (Elem.realloc_spec false n a m).2.1),
      mapAlloc_shape _ Cell.shape Cell.shape (fun a m => (Cell.realloc_spec false n a m).2),
      mapAlloc_shape _ Cell.shape Cell.shape (fun a m => (Cell.realloc_spec false n a m).2)]


/-! ### the substitution loop -/

theorem deepcopy_spec (np : ObjId) (o : Obj) (n : Nat) :
    AllocSpec Obj.ids n (deepcopy np o n) ∧ (deepcopy np o n).1.shape = o.shape := realloc_spec false np o n

theorem deepcopy_parent (np : ObjId) (o : Obj) (n : Nat) :
    (deepcopy np o n).1.parent = o.parent.map (fun _ => np) := by
  cases o with
  | mk i par p ks => simp [deepcopy, realloc, Obj.parent, reparent]

/-- accounting: a step of the loop adds to the identities of its value exactly the interval it allocated -/
def StepAcc {α : Type} (ids : α → List Nat) (old : α) (n : Nat) (r : Step α) : Prop :=
  n ≤ r.next ∧ ∀ i, count i (ids r.val) = count i (ids old) + inR i n r.next

theorem fixSlot_acc (d : Dict) (cid : ObjId) (s : Slot) (n : Nat) :
    StepAcc Slot.ids s n (fixSlot d cid s n) := by
  obtain ⟨attr, elem⟩ := s
  cases attr with
  | none => cases elem <;> simp [fixSlot, StepAcc, inR_self]
  | some a =>
    cases elem with
    | some e => simp [fixSlot, StepAcc, inR_self]
    | none =>
      cases hg : d.get? a with
      | none => simp [fixSlot, hg, StepAcc, inR_self]
      | some e =>
        have ⟨⟨h1, h2⟩, _⟩ := deepcopy_spec cid e.obj n
        simp only [fixSlot, hg, StepAcc]
        refine ⟨h1, fun i => ?_⟩
        simp [Slot.ids, Elem.ids, h2 i]

theorem fixCell_of_err {em eb : Dict} {c : Cell} {n : Nat} {e : Err} (h : (fixSlot em c.oid c.m n).err = some e) :
    fixCell em eb c n = ⟨{ c with m := (fixSlot em c.oid c.m n).val }, (fixSlot em c.oid c.m n).next, some e,
      (fixSlot em c.oid c.m n).writes⟩ := by
  unfold fixCell; simp only [h]

theorem fixCell_of_ok {em eb : Dict} {c : Cell} {n : Nat} (h : (fixSlot em c.oid c.m n).err = none) :
    fixCell em eb c n = ⟨⟨c.oid, c.parent, c.payload, (fixSlot em c.oid c.m n).val,
        (fixSlot eb c.oid c.b (fixSlot em c.oid c.m n).next).val⟩,
      (fixSlot eb c.oid c.b (fixSlot em c.oid c.m n).next).next,
      (fixSlot eb c.oid c.b (fixSlot em c.oid c.m n).next).err,
      (fixSlot em c.oid c.m n).writes ++ (fixSlot eb c.oid c.b (fixSlot em c.oid c.m n).next).writes⟩ := by
  unfold fixCell; simp only [h]

theorem fixCells_of_err {em eb : Dict} {c : Cell} {cs : List Cell} {n : Nat} {e : Err}
    (h : (fixCell em eb c n).err = some e) :
    fixCells em eb (c :: cs) n = ⟨(fixCell em eb c n).val :: cs, (fixCell em eb c n).next, some e,
      (fixCell em eb c n).writes⟩ := by
  simp only [fixCells, h]

theorem fixCells_of_ok {em eb : Dict} {c : Cell} {cs : List Cell} {n : Nat}
    (h : (fixCell em eb c n).err = none) :
    fixCells em eb (c :: cs) n = ⟨(fixCell em eb c n).val :: (fixCells em eb cs (fixCell em eb c n).next).val,
      (fixCells em eb cs (fixCell em eb c n).next).next, (fixCells em eb cs (fixCell em eb c n).next).err,
      (fixCell em eb c n).writes ++ (fixCells em eb cs (fixCell em eb c n).next).writes⟩ := by
  simp only [fixCells, h]

theorem fixCell_acc (em eb : Dict) (c : Cell) (n : Nat) :
    StepAcc Cell.ids c n (fixCell em eb c n) := by
  have ⟨a1, a2⟩ := fixSlot_acc em c.oid c.m n
  have ⟨b1, b2⟩ := fixSlot_acc eb c.oid c.b (fixSlot em c.oid c.m n).next
  cases he : (fixSlot em c.oid c.m n).err with
  | some e =>
    rw [fixCell_of_err he]
    simp only [StepAcc]
    refine ⟨a1, fun i => ?_⟩
    simp only [Cell.ids, count_cons', count_append, a2 i]; omega
  | none =>
    rw [fixCell_of_ok he]
    simp only [StepAcc]
    refine ⟨by omega, fun i => ?_⟩
    simp only [Cell.ids, count_cons', count_append, a2 i, b2 i]
    rw [← inR_add (i := i) a1 b1]; omega

theorem fixCells_acc (em eb : Dict) : ∀ (cs : List Cell) (n : Nat),
    StepAcc (fun l => l.flatMap Cell.ids) cs n (fixCells em eb cs n)
  | [], n => by simp [fixCells, StepAcc, inR_self]
  | c :: cs, n => by
    have ⟨a1, a2⟩ := fixCell_acc em eb c n
    have ⟨b1, b2⟩ := fixCells_acc em eb cs (fixCell em eb c n).next
    cases he : (fixCell em eb c n).err with
    | some e =>
      rw [fixCells_of_err he]
      simp only [StepAcc]
      refine ⟨a1, fun i => ?_⟩
      simp only [flatMap_cons, count_append, a2 i]; omega
    | none =>
      rw [fixCells_of_ok he]
      simp only [StepAcc]
      refine ⟨by omega, fun i => ?_⟩
      simp only at b2
      simp only [flatMap_cons, count_append, a2 i, b2 i]
      rw [← inR_add (i := i) a1 b1]; omega

/-- what a successful step does to a slot -/
def SlotPost (d : Dict) (cid : ObjId) (lo : Nat) (s s' : Slot) : Prop :=
  match s.attr, s.elem with
  | some a, none =>
    ∃ e e', d.get? a = some e ∧ s' = ⟨none, some e'⟩ ∧ e'.nmlId = e.nmlId ∧ e'.obj.shape = e.obj.shape
      ∧ (∀ i ∈ e'.ids, lo ≤ i) ∧ e'.obj.parent = e.obj.parent.map (fun _ => cid)
  | _, _ => s' = s

theorem SlotPost.mono {d : Dict} {cid lo lo' : Nat} {s s' : Slot} (h : SlotPost d cid lo s s') (hl : lo' ≤ lo) :
    SlotPost d cid lo' s s' := by
  unfold SlotPost at *
  split
  · rename_i a ha he
    simp only [ha, he] at h
    obtain ⟨e, e', h1, h2, h3, h4, h5, h6⟩ := h
    exact ⟨e, e', h1, h2, h3, h4, fun i hi => by have := h5 i hi; omega, h6⟩
  · rename_i hne
    split at h
    · rename_i a ha he; exact absurd he (by intro he; exact hne a ha he)
    · exact h

theorem fixSlot_post (d : Dict) (cid : ObjId) (s : Slot) (n : Nat) (h : (fixSlot d cid s n).err = none) :
    SlotPost d cid n s (fixSlot d cid s n).val := by
  obtain ⟨attr, elem⟩ := s
  cases attr with
  | none => cases elem <;> simp [fixSlot, SlotPost]
  | some a =>
    cases elem with
    | some e => simp [fixSlot, SlotPost]
    | none =>
      cases hg : d.get? a with
      | none => simp [fixSlot, hg] at h
      | some e =>
        have ⟨h1, h2⟩ := deepcopy_spec cid e.obj n
        simp only [fixSlot, hg, SlotPost]
        refine ⟨e, ⟨e.nmlId, (deepcopy cid e.obj n).1⟩, rfl, rfl, rfl, h2, ?_, deepcopy_parent cid e.obj n⟩
        intro i hi
        exact (h1.mem hi).1

/-- an exception in a slot step is the KeyError of a referenced id missing from the dictionary; the slot is unchanged -/
theorem fixSlot_err (d : Dict) (cid : ObjId) (s : Slot) (n : Nat) (e : Err) (h : (fixSlot d cid s n).err = some e) :
    ∃ a, a ∈ s.refs ∧ d.get? a = none ∧ e = .keyError a ∧ (fixSlot d cid s n).val = s := by
  obtain ⟨attr, elem⟩ := s
  cases attr with
  | none => cases elem <;> simp [fixSlot] at h
  | some a =>
    cases elem with
    | some e => simp [fixSlot] at h
    | none =>
      cases hg : d.get? a with
      | none =>
        simp only [fixSlot, hg, Option.some.injEq] at h
        exact ⟨a, by simp [Slot.refs], hg, h.symm, by simp [fixSlot, hg]⟩
      | some e' => simp [fixSlot, hg] at h

theorem fixSlot_ok_iff (d : Dict) (cid : ObjId) (s : Slot) (n : Nat) :
    (fixSlot d cid s n).err = none ↔ ∀ a ∈ s.refs, (d.get? a).isSome := by
  obtain ⟨attr, elem⟩ := s
  cases attr with
  | none => cases elem <;> simp [fixSlot, Slot.refs]
  | some a =>
    cases elem with
    | some e => simp [fixSlot, Slot.refs]
    | none =>
      cases hg : d.get? a <;> simp [fixSlot, hg, Slot.refs]

theorem fixSlot_writes (d : Dict) (cid : ObjId) (s : Slot) (n : Nat) :
    ∀ w ∈ (fixSlot d cid s n).writes, w = cid := by
  obtain ⟨attr, elem⟩ := s
  cases attr with
  | none => cases elem <;> simp [fixSlot]
  | some a =>
    cases elem with
    | some e => simp [fixSlot]
    | none => cases hg : d.get? a <;> simp [fixSlot, hg]

/-- after a successful slot step no reference is left to resolve -/
theorem SlotPost.refs_nil {d : Dict} {cid lo : Nat} {s s' : Slot} (h : SlotPost d cid lo s s') : s'.refs = [] := by
  obtain ⟨attr, elem⟩ := s
  cases attr with
  | none => cases elem <;> (simp only [SlotPost] at h; subst h; simp [Slot.refs])
  | some a =>
    cases elem with
    | some e => simp only [SlotPost] at h; subst h; simp [Slot.refs]
    | none =>
      simp only [SlotPost] at h
      obtain ⟨e, e', _, h2, _⟩ := h
      subst h2; simp [Slot.refs]

/-- what a successful step does to a cell -/
def CellPost (em eb : Dict) (lo : Nat) (c c' : Cell) : Prop :=
  c'.oid = c.oid ∧ c'.parent = c.parent ∧ c'.payload = c.payload ∧
    SlotPost em c.oid lo c.m c'.m ∧ SlotPost eb c.oid lo c.b c'.b

theorem fixCell_post (em eb : Dict) (c : Cell) (n : Nat) (h : (fixCell em eb c n).err = none) :
    CellPost em eb n c (fixCell em eb c n).val := by
  cases he : (fixSlot em c.oid c.m n).err with
  | some e => rw [fixCell_of_err he] at h; simp at h
  | none =>
    rw [fixCell_of_ok he] at h ⊢
    simp only at h
    have a := fixSlot_post em c.oid c.m n he
    have b := fixSlot_post eb c.oid c.b _ h
    have := (fixSlot_acc em c.oid c.m n).1
    exact ⟨rfl, rfl, rfl, a, b.mono this⟩

theorem fixCell_writes (em eb : Dict) (c : Cell) (n : Nat) : ∀ w ∈ (fixCell em eb c n).writes, w = c.oid := by
  cases he : (fixSlot em c.oid c.m n).err with
  | some e => rw [fixCell_of_err he]; simpa using fixSlot_writes em c.oid c.m n
  | none =>
    rw [fixCell_of_ok he]
    simp only [mem_append]
    rintro w (hw | hw)
    · exact fixSlot_writes em c.oid c.m n w hw
    · exact fixSlot_writes eb c.oid c.b _ w hw

theorem fixCells_writes (em eb : Dict) : ∀ (cs : List Cell) (n : Nat),
    ∀ w ∈ (fixCells em eb cs n).writes, w ∈ cs.map Cell.oid
  | [], n => by simp [fixCells]
  | c :: cs, n => by
    cases he : (fixCell em eb c n).err with
    | some e =>
      rw [fixCells_of_err he]
      intro w hw
      simp only at hw
      simp [fixCell_writes em eb c n w hw]
    | none =>
      rw [fixCells_of_ok he]
      simp only [mem_append, map_cons, mem_cons]
      rintro w (hw | hw)
      · exact Or.inl (fixCell_writes em eb c n w hw)
      · exact Or.inr (fixCells_writes em eb cs _ w hw)

theorem fixCells_length (em eb : Dict) : ∀ (cs : List Cell) (n : Nat), (fixCells em eb cs n).val.length = cs.length
  | [], n => by simp [fixCells]
  | c :: cs, n => by
    cases he : (fixCell em eb c n).err with
    | some e => rw [fixCells_of_err he]; simp
    | none => rw [fixCells_of_ok he]; simp [fixCells_length em eb cs]

theorem CellPost.mono {em eb : Dict} {lo lo' : Nat} {c c' : Cell} (h : CellPost em eb lo c c') (hl : lo' ≤ lo) :
    CellPost em eb lo' c c' :=
  ⟨h.1, h.2.1, h.2.2.1, h.2.2.2.1.mono hl, h.2.2.2.2.mono hl⟩

theorem fixCells_post (em eb : Dict) : ∀ (cs : List Cell) (n : Nat), (fixCells em eb cs n).err = none →
    ∀ p ∈ cs.zip (fixCells em eb cs n).val, CellPost em eb n p.1 p.2
  | [], n, _ => by simp [fixCells]
  | c :: cs, n, h => by
    cases he : (fixCell em eb c n).err with
    | some e => rw [fixCells_of_err he] at h; simp at h
    | none =>
      rw [fixCells_of_ok he] at h ⊢
      simp only at h
      intro p hp
      simp only [zip_cons_cons, mem_cons] at hp
      rcases hp with hp | hp
      · subst hp; exact fixCell_post em eb c n he
      · exact (fixCells_post em eb cs _ h p hp).mono (fixCell_acc em eb c n).1

/-- the loop succeeds iff every referenced id is in its dictionary -/
theorem fixCell_ok_iff (em eb : Dict) (c : Cell) (n : Nat) :
    (fixCell em eb c n).err = none ↔
      (∀ a ∈ c.m.refs, (em.get? a).isSome) ∧ (∀ a ∈ c.b.refs, (eb.get? a).isSome) := by
  cases he : (fixSlot em c.oid c.m n).err with
  | some e =>
    have : ¬ ∀ a ∈ c.m.refs, (em.get? a).isSome := by
      rw [← fixSlot_ok_iff em c.oid c.m n, he]; simp
    rw [fixCell_of_err he]
    simp [this]
  | none =>
    have h1 := (fixSlot_ok_iff em c.oid c.m n).mp he
    rw [fixCell_of_ok he]
    simp only [fixSlot_ok_iff]
    exact ⟨fun h => ⟨h1, h⟩, fun h => h.2⟩

theorem fixCells_ok_iff (em eb : Dict) : ∀ (cs : List Cell) (n : Nat),
    (fixCells em eb cs n).err = none ↔
      ∀ c ∈ cs, (∀ a ∈ c.m.refs, (em.get? a).isSome) ∧ (∀ a ∈ c.b.refs, (eb.get? a).isSome)
  | [], n => by simp [fixCells]
  | c :: cs, n => by
    cases he : (fixCell em eb c n).err with
    | some e =>
      have : ¬ ((∀ a ∈ c.m.refs, (em.get? a).isSome) ∧ (∀ a ∈ c.b.refs, (eb.get? a).isSome)) := by
        rw [← fixCell_ok_iff em eb c n, he]; simp
      rw [fixCells_of_err he]
      simp [this]
    | none =>
      have h1 := (fixCell_ok_iff em eb c n).mp he
      rw [fixCells_of_ok he]
      simp only [fixCells_ok_iff em eb cs, mem_cons, forall_eq_or_imp]
      exact ⟨fun h => ⟨h1, h⟩, fun h => h.2⟩

theorem fixCell_err (em eb : Dict) (c : Cell) (n : Nat) (e : Err) (h : (fixCell em eb c n).err = some e) :
    ∃ a, e = .keyError a ∧ ((a ∈ c.m.refs ∧ em.get? a = none) ∨ (a ∈ c.b.refs ∧ eb.get? a = none)) := by
  cases he : (fixSlot em c.oid c.m n).err with
  | some e' =>
    rw [fixCell_of_err he] at h
    simp only [Option.some.injEq] at h
    obtain ⟨a, h1, h2, h3, _⟩ := fixSlot_err em c.oid c.m n e' he
    exact ⟨a, by rw [← h, h3], Or.inl ⟨h1, h2⟩⟩
  | none =>
    rw [fixCell_of_ok he] at h
    simp only at h
    obtain ⟨a, h1, h2, h3, _⟩ := fixSlot_err eb c.oid c.b _ e h
    exact ⟨a, h3, Or.inr ⟨h1, h2⟩⟩

theorem fixCells_err (em eb : Dict) : ∀ (cs : List Cell) (n : Nat) (e : Err), (fixCells em eb cs n).err = some e →
    ∃ c ∈ cs, ∃ a, e = .keyError a ∧ ((a ∈ c.m.refs ∧ em.get? a = none) ∨ (a ∈ c.b.refs ∧ eb.get? a = none))
  | [], n, e, h => by simp [fixCells] at h
  | c :: cs, n, e, h => by
    cases he : (fixCell em eb c n).err with
    | some e' =>
      rw [fixCells_of_err he] at h
      simp only [Option.some.injEq] at h
      obtain ⟨a, h1, h2⟩ := fixCell_err em eb c n e' he
      exact ⟨c, by simp, a, by rw [← h, h1], h2⟩
    | none =>
      rw [fixCells_of_ok he] at h
      simp only at h
      obtain ⟨c', hc', r⟩ := fixCells_err em eb cs _ e h
      exact ⟨c', by simp [hc'], r⟩

/-! ### the lookup tables -/

/-- the last element of `es` whose id is `a` (the one a dict filled in list order ends up holding) -/
def lastDef : List Elem → String → Option Elem
  | [], _ => none
  | e :: es, a => (lastDef es a).or (if e.nmlId = a then some e else none)

theorem lastDef_some {es : List Elem} {a : String} {e : Elem} (h : lastDef es a = some e) : e ∈ es ∧ e.nmlId = a := by
  induction es with
  | nil => simp [lastDef] at h
  | cons x xs ih =>
    simp only [lastDef, Option.or_eq_some_iff] at h
    rcases h with h | ⟨_, h⟩
    · have := ih h; exact ⟨by simp [this.1], this.2⟩
    · split at h
      · rename_i hx; cases h; exact ⟨by simp, hx⟩
      · cases h

theorem lastDef_isSome {es : List Elem} {a : String} (h : ∃ e ∈ es, e.nmlId = a) : (lastDef es a).isSome := by
  induction es with
  | nil => simp at h
  | cons x xs ih =>
    obtain ⟨e, he, ha⟩ := h
    simp only [lastDef, Option.isSome_or, Bool.or_eq_true]
    simp only [mem_cons] at he
    rcases he with he | he
    · subst he; right; simp [ha]
    · left; exact ih ⟨e, he, ha⟩

theorem lastDef_append (es : List Elem) (e : Elem) (a : String) (h : e.nmlId = a) : lastDef (es ++ [e]) a = some e := by
  induction es with
  | nil => simp [lastDef, h]
  | cons x xs ih => simp [lastDef, ih]

theorem lastDef_append_of_none (es post : List Elem) (a : String) (h : ∀ x ∈ post, x.nmlId ≠ a) :
    lastDef (es ++ post) a = lastDef es a := by
  induction es with
  | nil =>
    simp only [nil_append, lastDef]
    cases hl : lastDef post a with
    | none => rfl
    | some e => exact absurd (lastDef_some hl).2 (h e (lastDef_some hl).1)
  | cons x xs ih => simp [lastDef, ih]

theorem Dict.get?_set (d : Dict) (k a : String) (v : Elem) :
    (d.set k v).get? a = if a = k then some v else d.get? a := by
  simp only [Dict.get?, Dict.set, List.lookup_cons]
  by_cases h : a = k
  · simp [h]
  · have : (a == k) = false := by simp [h]
    simp [this, h]

theorem addDefs_cons (refs : List String) (d : Dict) (e : Elem) (es : List Elem) :
    addDefs refs d (e :: es) = addDefs refs (if e.nmlId ∈ refs then d.set e.nmlId e else d) es := by
  simp [addDefs]

theorem or_assoc' {α : Type} (a b c : Option α) : (a.or b).or c = a.or (b.or c) := by
  cases a <;> simp

/-- the dict after `for e in es: if e.id in refs: d[e.id] = e`, looked up at a referenced id -/
theorem addDefs_get (refs : List String) : ∀ (es : List Elem) (d : Dict) (a : String), a ∈ refs →
    (addDefs refs d es).get? a = (lastDef es a).or (d.get? a)
  | [], d, a, _ => by simp [addDefs, lastDef]
  | e :: es, d, a, ha => by
    rw [addDefs_cons, addDefs_get refs es _ a ha]
    simp only [lastDef, or_assoc']
    congr 1
    by_cases he : e.nmlId = a
    · subst he; simp [ha, Dict.get?_set]
    · by_cases hr : e.nmlId ∈ refs
      · have : ¬ a = e.nmlId := fun h => he h.symm
        simp [hr, Dict.get?_set, he, this]
      · simp [hr, he]

/-- entries under ids that are not referenced are never added -/
theorem addDefs_get_of_not_mem (refs : List String) : ∀ (es : List Elem) (d : Dict) (a : String), a ∉ refs →
    (addDefs refs d es).get? a = d.get? a
  | [], d, a, _ => by simp [addDefs]
  | e :: es, d, a, ha => by
    rw [addDefs_cons, addDefs_get_of_not_mem refs es _ a ha]
    by_cases hr : e.nmlId ∈ refs
    · have : ¬ a = e.nmlId := fun h => ha (h ▸ hr)
      simp [hr, Dict.get?_set, this]
    · simp [hr]

/-- `sh` is the shape of an element of `es` with id `a` -/
def DefIn (es : List Elem) (a : String) (sh : Elem) : Prop := ∃ e ∈ es, e.nmlId = a ∧ e.shape = sh

/-- `sh` is (the shape of) a definition of id `a` visible to a call: in the document's own list `own`, or in a
    file named by one of the document's `<include>`s -/
def Defines (own : List Elem) (incs : List Inc) (files : Files) (proj : FileDoc → List Elem)
    (a : String) (sh : Elem) : Prop :=
  DefIn own a sh ∨ ∃ inc ∈ incs, ∃ fd, files inc.href = some fd ∧ DefIn (proj fd) a sh

/-- invariant of a lookup dictionary: every entry sits under its own id, existed before `n`, and is one of
    the definitions `Src` -/
def DictInv (Src : String → Elem → Prop) (n : Nat) (d : Dict) : Prop :=
  ∀ a e, d.get? a = some e → e.nmlId = a ∧ (∀ i ∈ e.ids, i < n) ∧ Src a e.shape

theorem DictInv.mono {Src : String → Elem → Prop} {n n' : Nat} {d : Dict} (h : DictInv Src n d) (hn : n ≤ n') :
    DictInv Src n' d := by
  intro a e he
  have ⟨h1, h2, h3⟩ := h a e he
  exact ⟨h1, fun i hi => Nat.lt_of_lt_of_le (h2 i hi) hn, h3⟩

theorem addDefs_inv {Src : String → Elem → Prop} {n : Nat} (refs : List String) (d : Dict) (es : List Elem)
    (hd : DictInv Src n d) (hes : ∀ e ∈ es, (∀ i ∈ e.ids, i < n) ∧ Src e.nmlId e.shape) :
    DictInv Src n (addDefs refs d es) := by
  intro a e he
  by_cases ha : a ∈ refs
  · rw [addDefs_get refs es d a ha, Option.or_eq_some_iff] at he
    rcases he with he | ⟨_, he⟩
    · have ⟨h1, h2⟩ := lastDef_some he
      have := hes e h1
      exact ⟨h2, this.1, h2 ▸ this.2⟩
    · exact hd a e he
  · rw [addDefs_get_of_not_mem refs es d a ha] at he
    exact hd a e he

theorem addDefs_isSome_mono (refs : List String) (d : Dict) (es : List Elem) (a : String)
    (h : (d.get? a).isSome) : ((addDefs refs d es).get? a).isSome := by
  by_cases ha : a ∈ refs
  · rw [addDefs_get refs es d a ha]; simp [h]
  · rw [addDefs_get_of_not_mem refs es d a ha]; exact h

theorem addDefs_isSome_of_def (refs : List String) (d : Dict) (es : List Elem) (a : String) (ha : a ∈ refs)
    (h : ∃ e ∈ es, e.nmlId = a) : ((addDefs refs d es).get? a).isSome := by
  rw [addDefs_get refs es d a ha]; simp [lastDef_isSome h]

theorem addDefs_none (refs : List String) (d : Dict) (es : List Elem) (a : String)
    (h : (addDefs refs d es).get? a = none) (ha : a ∈ refs) : d.get? a = none ∧ ∀ e ∈ es, e.nmlId ≠ a := by
  constructor
  · cases hd : d.get? a with
    | none => rfl
    | some e => have := addDefs_isSome_mono refs d es a (by simp [hd]); simp [h] at this
  · intro e he hx
    have := addDefs_isSome_of_def refs d es a ha ⟨e, he, hx⟩
    simp [h] at this

/-- reading a file: fresh objects, one per template, in order -/
theorem loadFile_spec (fd : FileDoc) (n : Nat) :
    n ≤ (loadFile fd n).2 ∧
    (∀ e ∈ (loadFile fd n).1.1, (∀ i ∈ e.ids, n ≤ i ∧ i < (loadFile fd n).2) ∧ ∃ t ∈ fd.morphs, e.nmlId = t.nmlId ∧ e.shape = t.shape) ∧
    (∀ e ∈ (loadFile fd n).1.2, (∀ i ∈ e.ids, n ≤ i ∧ i < (loadFile fd n).2) ∧ ∃ t ∈ fd.bios, e.nmlId = t.nmlId ∧ e.shape = t.shape) ∧
    (∀ t ∈ fd.morphs, ∃ e ∈ (loadFile fd n).1.1, e.nmlId = t.nmlId) ∧
    (∀ t ∈ fd.bios, ∃ e ∈ (loadFile fd n).1.2, e.nmlId = t.nmlId) ∧
    (loadFile fd n).1.1.map Elem.shape = fd.morphs.map Elem.shape ∧
    (loadFile fd n).1.2.map Elem.shape = fd.bios.map Elem.shape := by
  have hmono : ∀ (a : Elem) (m : Nat), m ≤ (Elem.realloc true n a m).2 := fun a m => (Elem.realloc_spec true n a m).1.1
  have s1 := mapAlloc_spec (Elem.realloc true n) _ (fun a m => (Elem.realloc_spec true n a m).1) fd.morphs (n + 1)
  have s2 := mapAlloc_spec (Elem.realloc true n) _ (fun a m => (Elem.realloc_spec true n a m).1) fd.bios
    (mapAlloc (Elem.realloc true n) fd.morphs (n + 1)).2
  refine ⟨by simp only [loadFile]; have := s1.1; have := s2.1; omega, ?_, ?_, ?_, ?_, ?_, ?_⟩
  · intro e he
    obtain ⟨t, ht, m, hm, hle, rfl⟩ := mapAlloc_mem _ hmono fd.morphs (n + 1) e he
    have ⟨sp, sh, sid⟩ := Elem.realloc_spec true n t m
    refine ⟨fun i hi => ?_, t, ht, sid, sh⟩
    have := sp.mem hi
    simp only [loadFile]; have := s2.1; omega
  · intro e he
    obtain ⟨t, ht, m, hm, hle, rfl⟩ := mapAlloc_mem _ hmono fd.bios _ e he
    have ⟨sp, sh, sid⟩ := Elem.realloc_spec true n t m
    refine ⟨fun i hi => ?_, t, ht, sid, sh⟩
    have := sp.mem hi
    simp only [loadFile]; have := s1.1; omega
  · intro t ht
    obtain ⟨m, hm⟩ := mapAlloc_mem_of (Elem.realloc true n) fd.morphs (n + 1) t ht
    exact ⟨_, hm, (Elem.realloc_spec true n t m).2.2⟩
  · intro t ht
    obtain ⟨m, hm⟩ := mapAlloc_mem_of (Elem.realloc true n) fd.bios (mapAlloc (Elem.realloc true n) fd.morphs (n + 1)).2 t ht
    exact ⟨_, hm, (Elem.realloc_spec true n t m).2.2⟩
  · exact mapAlloc_shape _ Elem.shape Elem.shape (fun a m => (Elem.realloc_spec true n a m).2.1) _ _
  · exact mapAlloc_shape _ Elem.shape Elem.shape (fun a m => (Elem.realloc_spec true n a m).2.1) _ _

/-- definitions found in the files named by `incs` -/
def SrcInc (incs : List Inc) (files : Files) (proj : FileDoc → List Elem) (a : String) (sh : Elem) : Prop :=
  ∃ inc ∈ incs, ∃ fd, files inc.href = some fd ∧ DefIn (proj fd) a sh

theorem loadIncludes_cons_some {files : Files} {refs : List String} {inc : Inc} {rest : List Inc} {em eb : Dict}
    {n : Nat} {fd : FileDoc} (h : files inc.href = some fd) :
    loadIncludes files refs (inc :: rest) em eb n =
      loadIncludes files refs rest (addDefs refs em (loadFile fd n).1.1) (addDefs refs eb (loadFile fd n).1.2)
        (loadFile fd n).2 := by
  simp only [loadIncludes, h]

theorem loadIncludes_cons_none {files : Files} {refs : List String} {inc : Inc} {rest : List Inc} {em eb : Dict}
    {n : Nat} (h : files inc.href = none) :
    loadIncludes files refs (inc :: rest) em eb n = .error (.includeUnreadable inc.href) := by
  simp only [loadIncludes, h]

/-- soundness of the include loop: whatever the dicts hold afterwards was there before or comes from a file
    of one of the includes, freshly read -/
theorem loadIncludes_sound (files : Files) (refs : List String) (all : List Inc) :
    ∀ (incs : List Inc) (em eb : Dict) (n : Nat) (em' eb' : Dict) (n' : Nat),
      (∀ inc ∈ incs, inc ∈ all) →
      DictInv (SrcInc all files FileDoc.morphs) n em → DictInv (SrcInc all files FileDoc.bios) n eb →
      loadIncludes files refs incs em eb n = .ok (em', eb', n') →
      n ≤ n' ∧ DictInv (SrcInc all files FileDoc.morphs) n' em' ∧ DictInv (SrcInc all files FileDoc.bios) n' eb'
  | [], em, eb, n, em', eb', n', _, hm, hb, h => by
    simp only [loadIncludes, Except.ok.injEq, Prod.mk.injEq] at h
    obtain ⟨rfl, rfl, rfl⟩ := h
    exact ⟨Nat.le_refl _, hm, hb⟩
  | inc :: rest, em, eb, n, em', eb', n', hall, hm, hb, h => by
    cases hf : files inc.href with
    | none => rw [loadIncludes_cons_none hf] at h; cases h
    | some fd =>
      rw [loadIncludes_cons_some hf] at h
      have ⟨l1, l2, l3, _⟩ := loadFile_spec fd n
      have hinc : inc ∈ all := hall inc (by simp)
      have r := loadIncludes_sound files refs all rest _ _ _ em' eb' n' (fun i hi => hall i (by simp [hi]))
        (addDefs_inv refs em _ (hm.mono l1) (by
          intro e he
          have ⟨b, t, ht, hid, hsh⟩ := l2 e he
          exact ⟨fun i hi => (b i hi).2, inc, hinc, fd, hf, t, ht, hid.symm, hsh.symm⟩))
        (addDefs_inv refs eb _ (hb.mono l1) (by
          intro e he
          have ⟨b, t, ht, hid, hsh⟩ := l3 e he
          exact ⟨fun i hi => (b i hi).2, inc, hinc, fd, hf, t, ht, hid.symm, hsh.symm⟩))
        h
      exact ⟨by omega, r.2⟩

/-- completeness of the include loop for referenced ids -/
theorem loadIncludes_complete (files : Files) (refs : List String) :
    ∀ (incs : List Inc) (em eb : Dict) (n : Nat) (em' eb' : Dict) (n' : Nat),
      loadIncludes files refs incs em eb n = .ok (em', eb', n') →
      (∀ a, (em.get? a).isSome → (em'.get? a).isSome) ∧ (∀ a, (eb.get? a).isSome → (eb'.get? a).isSome) ∧
      (∀ a ∈ refs, (∃ inc ∈ incs, ∃ fd, files inc.href = some fd ∧ ∃ t ∈ fd.morphs, t.nmlId = a) → (em'.get? a).isSome) ∧
      (∀ a ∈ refs, (∃ inc ∈ incs, ∃ fd, files inc.href = some fd ∧ ∃ t ∈ fd.bios, t.nmlId = a) → (eb'.get? a).isSome)
  | [], em, eb, n, em', eb', n', h => by
    simp only [loadIncludes, Except.ok.injEq, Prod.mk.injEq] at h
    obtain ⟨rfl, rfl, rfl⟩ := h
    simp
  | inc :: rest, em, eb, n, em', eb', n', h => by
    cases hf : files inc.href with
    | none => rw [loadIncludes_cons_none hf] at h; cases h
    | some fd =>
      rw [loadIncludes_cons_some hf] at h
      have ⟨_, _, _, l4, l5, _⟩ := loadFile_spec fd n
      have ⟨r1, r2, r3, r4⟩ := loadIncludes_complete files refs rest _ _ _ em' eb' n' h
      refine ⟨fun a ha => r1 a (addDefs_isSome_mono refs em _ a ha),
        fun a ha => r2 a (addDefs_isSome_mono refs eb _ a ha), ?_, ?_⟩
      · rintro a ha ⟨inc', hinc', fd', hf', t, ht, hta⟩
        simp only [mem_cons] at hinc'
        rcases hinc' with rfl | hinc'
        · rw [hf] at hf'; cases hf'
          obtain ⟨e, he, hid⟩ := l4 t ht
          exact r1 a (addDefs_isSome_of_def refs em _ a ha ⟨e, he, hid.trans hta⟩)
        · exact r3 a ha ⟨inc', hinc', fd', hf', t, ht, hta⟩
      · rintro a ha ⟨inc', hinc', fd', hf', t, ht, hta⟩
        simp only [mem_cons] at hinc'
        rcases hinc' with rfl | hinc'
        · rw [hf] at hf'; cases hf'
          obtain ⟨e, he, hid⟩ := l5 t ht
          exact r2 a (addDefs_isSome_of_def refs eb _ a ha ⟨e, he, hid.trans hta⟩)
        · exact r4 a ha ⟨inc', hinc', fd', hf', t, ht, hta⟩

/-- the include loop fails iff some include names a file that cannot be read, with that href -/
theorem loadIncludes_error (files : Files) (refs : List String) :
    ∀ (incs : List Inc) (em eb : Dict) (n : Nat) (e : Err), loadIncludes files refs incs em eb n = .error e →
      ∃ inc ∈ incs, files inc.href = none ∧ e = .includeUnreadable inc.href
  | [], em, eb, n, e, h => by simp [loadIncludes] at h
  | inc :: rest, em, eb, n, e, h => by
    cases hf : files inc.href with
    | none =>
      rw [loadIncludes_cons_none hf] at h
      cases h
      exact ⟨inc, by simp, hf, rfl⟩
    | some fd =>
      rw [loadIncludes_cons_some hf] at h
      obtain ⟨i, hi, r⟩ := loadIncludes_error files refs rest _ _ _ e h
      exact ⟨i, by simp [hi], r⟩

theorem loadIncludes_ok (files : Files) (refs : List String) :
    ∀ (incs : List Inc) (em eb : Dict) (n : Nat), (∀ inc ∈ incs, (files inc.href).isSome) →
      ∃ r, loadIncludes files refs incs em eb n = .ok r
  | [], em, eb, n, _ => ⟨_, rfl⟩
  | inc :: rest, em, eb, n, h => by
    cases hf : files inc.href with
    | none => have := h inc (by simp); simp [hf] at this
    | some fd =>
      rw [loadIncludes_cons_some hf]
      exact loadIncludes_ok files refs rest _ _ _ (fun i hi => h i (by simp [hi]))

/-! ### the tables as the substitution loop sees them -/

theorem lookupTables_eq_ok {doc : Doc} {files : Files} {n : Nat} {em eb : Dict} {n2 : Nat}
    (h : lookupTables doc files n = .ok (em, eb, n2)) :
    ∃ em0 eb0, loadIncludes files (referencedIds doc.cells) doc.includes [] [] n = .ok (em0, eb0, n2) ∧
      em = addDefs (referencedIds doc.cells) em0 doc.morphs ∧ eb = addDefs (referencedIds doc.cells) eb0 doc.bios := by
  unfold lookupTables at h
  cases hl : loadIncludes files (referencedIds doc.cells) doc.includes [] [] n with
  | error e => simp [hl] at h
  | ok r =>
    obtain ⟨em0, eb0, m⟩ := r
    simp only [hl, Except.ok.injEq, Prod.mk.injEq] at h
    obtain ⟨rfl, rfl, rfl⟩ := h
    exact ⟨em0, eb0, rfl, rfl, rfl⟩

theorem lookupTables_eq_error {doc : Doc} {files : Files} {n : Nat} {e : Err}
    (h : lookupTables doc files n = .error e) :
    loadIncludes files (referencedIds doc.cells) doc.includes [] [] n = .error e := by
  unfold lookupTables at h
  cases hl : loadIncludes files (referencedIds doc.cells) doc.includes [] [] n with
  | error e' => simp only [hl, Except.error.injEq] at h; rw [h]
  | ok r => obtain ⟨em0, eb0, m⟩ := r; simp [hl] at h

theorem Doc.mem_ids_morphs {d : Doc} {e : Elem} (he : e ∈ d.morphs) {i : Nat} (hi : i ∈ e.ids) : i ∈ d.ids := by
  simp only [Doc.ids, mem_cons, mem_append, mem_flatMap]
  exact Or.inr (Or.inl (Or.inl (Or.inl (Or.inl (Or.inr ⟨e, he, hi⟩)))))

theorem Doc.mem_ids_bios {d : Doc} {e : Elem} (he : e ∈ d.bios) {i : Nat} (hi : i ∈ e.ids) : i ∈ d.ids := by
  simp only [Doc.ids, mem_cons, mem_append, mem_flatMap]
  exact Or.inr (Or.inl (Or.inl (Or.inl (Or.inr ⟨e, he, hi⟩))))

theorem Doc.mem_ids_cells {d : Doc} {c : Cell} (hc : c ∈ d.cells) {i : Nat} (hi : i ∈ c.ids) : i ∈ d.ids := by
  simp only [Doc.ids, mem_cons, mem_append, mem_flatMap]
  exact Or.inr (Or.inl (Or.inl (Or.inr ⟨c, hc, hi⟩)))

theorem DictInv.nil (Src : String → Elem → Prop) (n : Nat) : DictInv Src n [] := by
  intro a e h; simp [Dict.get?] at h

theorem DictInv.weaken {Src Src' : String → Elem → Prop} {n : Nat} {d : Dict} (h : DictInv Src n d)
    (hs : ∀ a sh, Src a sh → Src' a sh) : DictInv Src' n d := by
  intro a e he
  have ⟨h1, h2, h3⟩ := h a e he
  exact ⟨h1, h2, hs _ _ h3⟩

/-- meaning of the two dictionaries when the substitution loop starts -/
theorem lookupTables_spec {doc : Doc} {files : Files} {n : Nat} {em eb : Dict} {n2 : Nat}
    (h : lookupTables doc files n = .ok (em, eb, n2)) (hb : doc.Below n) :
    n ≤ n2 ∧
    DictInv (Defines doc.morphs doc.includes files FileDoc.morphs) n2 em ∧
    DictInv (Defines doc.bios doc.includes files FileDoc.bios) n2 eb ∧
    (∀ a ∈ referencedIds doc.cells, (∃ sh, Defines doc.morphs doc.includes files FileDoc.morphs a sh) → (em.get? a).isSome) ∧
    (∀ a ∈ referencedIds doc.cells, (∃ sh, Defines doc.bios doc.includes files FileDoc.bios a sh) → (eb.get? a).isSome) := by
  obtain ⟨em0, eb0, hl, rfl, rfl⟩ := lookupTables_eq_ok h
  have ⟨s1, s2, s3⟩ := loadIncludes_sound files (referencedIds doc.cells) doc.includes doc.includes [] [] n em0 eb0 n2
    (fun _ h => h) (DictInv.nil _ _) (DictInv.nil _ _) hl
  have ⟨_, _, c3, c4⟩ := loadIncludes_complete files (referencedIds doc.cells) doc.includes [] [] n em0 eb0 n2 hl
  refine ⟨s1, ?_, ?_, ?_, ?_⟩
  · refine addDefs_inv _ _ _ (s2.weaken (fun a sh hs => Or.inr hs)) ?_
    intro e he
    exact ⟨fun i hi => by have := hb i (Doc.mem_ids_morphs he hi); omega, Or.inl ⟨e, he, rfl, rfl⟩⟩
  · refine addDefs_inv _ _ _ (s3.weaken (fun a sh hs => Or.inr hs)) ?_
    intro e he
    exact ⟨fun i hi => by have := hb i (Doc.mem_ids_bios he hi); omega, Or.inl ⟨e, he, rfl, rfl⟩⟩
  · rintro a ha ⟨sh, hd⟩
    rcases hd with ⟨e, he, hid, _⟩ | ⟨inc, hinc, fd, hf, t, ht, hid, _⟩
    · exact addDefs_isSome_of_def _ _ _ a ha ⟨e, he, hid⟩
    · exact addDefs_isSome_mono _ _ _ a (c3 a ha ⟨inc, hinc, fd, hf, t, ht, hid⟩)
  · rintro a ha ⟨sh, hd⟩
    rcases hd with ⟨e, he, hid, _⟩ | ⟨inc, hinc, fd, hf, t, ht, hid, _⟩
    · exact addDefs_isSome_of_def _ _ _ a ha ⟨e, he, hid⟩
    · exact addDefs_isSome_mono _ _ _ a (c4 a ha ⟨inc, hinc, fd, hf, t, ht, hid⟩)

/-- the document's own (last) definition of a referenced id wins over every included file -/
theorem lookupTables_local_wins {doc : Doc} {files : Files} {n : Nat} {em eb : Dict} {n2 : Nat}
    (h : lookupTables doc files n = .ok (em, eb, n2)) (a : String) (ha : a ∈ referencedIds doc.cells) :
    (∀ e, lastDef doc.morphs a = some e → em.get? a = some e) ∧
    (∀ e, lastDef doc.bios a = some e → eb.get? a = some e) := by
  obtain ⟨em0, eb0, hl, rfl, rfl⟩ := lookupTables_eq_ok h
  constructor <;> intro e he <;> rw [addDefs_get _ _ _ a ha, he] <;> rfl

theorem mem_referencedIds {cells : List Cell} {c : Cell} (hc : c ∈ cells) {a : String}
    (ha : a ∈ c.m.refs ∨ a ∈ c.b.refs) : a ∈ referencedIds cells := by
  simp only [referencedIds, mem_flatMap, mem_append]
  exact ⟨c, hc, ha⟩

/-! ### unfolding `fixInPlace` -/

theorem fixInPlace_of_ok {doc : Doc} {files : Files} {n : Nat} {em eb : Dict} {n2 : Nat}
    (h : lookupTables doc files n = .ok (em, eb, n2)) :
    fixInPlace doc files n =
      ⟨{ doc with cells := (fixCells em eb doc.cells n2).val },
        retOf (fixCells em eb doc.cells n2).err { doc with cells := (fixCells em eb doc.cells n2).val },
        (fixCells em eb doc.cells n2).next, (fixCells em eb doc.cells n2).writes⟩ := by
  unfold fixInPlace; simp only [h]

theorem fixInPlace_of_error {doc : Doc} {files : Files} {n : Nat} {e : Err}
    (h : lookupTables doc files n = .error e) : fixInPlace doc files n = ⟨doc, .error e, n, []⟩ := by
  unfold fixInPlace; simp only [h]

/-- identities of a document whose cell list was replaced -/
theorem Doc.count_ids_cells (d : Doc) (cs : List Cell) (i : Nat) :
    count i ({ d with cells := cs } : Doc).ids + count i (d.cells.flatMap Cell.ids)
      = count i d.ids + count i (cs.flatMap Cell.ids) := by
  simp only [Doc.ids, count_cons', count_append]; omega

/-! ### the function does not depend on identities -/

def Dict.shape (d : Dict) : Dict := d.map (fun p => (p.1, p.2.shape))

theorem Dict.get?_shape (d : Dict) (a : String) : d.shape.get? a = (d.get? a).map Elem.shape := by
  induction d with
  | nil => simp [Dict.shape, Dict.get?]
  | cons p ps ih =>
    obtain ⟨k, v⟩ := p
    simp only [Dict.shape, Dict.get?, map_cons, lookup_cons] at ih ⊢
    cases a == k <;> simp [ih]

theorem Dict.shape_set (d : Dict) (k : String) (v : Elem) : (d.set k v).shape = d.shape.set k v.shape := rfl

theorem Elem.shape_nmlId (e : Elem) : e.shape.nmlId = e.nmlId := rfl

theorem addDefs_shape (refs : List String) : ∀ (es : List Elem) (d : Dict),
    (addDefs refs d es).shape = addDefs refs d.shape (es.map Elem.shape)
  | [], d => rfl
  | e :: es, d => by
    rw [map_cons, addDefs_cons, addDefs_cons, addDefs_shape refs es, Elem.shape_nmlId]
    split <;> simp [Dict.shape_set]

theorem addDefs_congr (refs : List String) {es1 es2 : List Elem} {d1 d2 : Dict}
    (hd : d1.shape = d2.shape) (he : es1.map Elem.shape = es2.map Elem.shape) :
    (addDefs refs d1 es1).shape = (addDefs refs d2 es2).shape := by
  rw [addDefs_shape, addDefs_shape, hd, he]

/-- two runs agree up to identities: same exception, or tables of the same shape -/
def TablesSim : Except Err (Dict × Dict × Nat) → Except Err (Dict × Dict × Nat) → Prop
  | .ok a, .ok b => a.1.shape = b.1.shape ∧ a.2.1.shape = b.2.1.shape
  | .error e1, .error e2 => e1 = e2
  | _, _ => False

theorem loadIncludes_congr (files : Files) (refs : List String) :
    ∀ (incs1 incs2 : List Inc) (em1 eb1 em2 eb2 : Dict) (n1 n2 : Nat),
      incs1.map Inc.shape = incs2.map Inc.shape → em1.shape = em2.shape → eb1.shape = eb2.shape →
      TablesSim (loadIncludes files refs incs1 em1 eb1 n1) (loadIncludes files refs incs2 em2 eb2 n2)
  | [], [], em1, eb1, em2, eb2, n1, n2, _, hm, hb => by simp [loadIncludes, TablesSim, hm, hb]
  | [], _ :: _, _, _, _, _, _, _, h, _, _ => by simp at h
  | _ :: _, [], _, _, _, _, _, _, h, _, _ => by simp at h
  | i1 :: r1, i2 :: r2, em1, eb1, em2, eb2, n1, n2, h, hm, hb => by
    simp only [map_cons, cons.injEq, Inc.shape, Inc.mk.injEq, true_and] at h
    obtain ⟨hh, hr⟩ := h
    cases hf : files i1.href with
    | none =>
      rw [loadIncludes_cons_none hf, loadIncludes_cons_none (hh ▸ hf), hh]
      simp [TablesSim]
    | some fd =>
      rw [loadIncludes_cons_some hf, loadIncludes_cons_some (hh ▸ hf)]
      have ⟨_, _, _, _, _, l6, l7⟩ := loadFile_spec fd n1
      have ⟨_, _, _, _, _, k6, k7⟩ := loadFile_spec fd n2
      exact loadIncludes_congr files refs r1 r2 _ _ _ _ _ _ hr
        (addDefs_congr refs hm (l6.trans k6.symm)) (addDefs_congr refs hb (l7.trans k7.symm))

theorem Slot.refs_shape (s : Slot) : s.shape.refs = s.refs := by
  obtain ⟨attr, elem⟩ := s
  cases attr <;> cases elem <;> simp [Slot.shape, Slot.refs]

theorem referencedIds_shape (cs : List Cell) : referencedIds (cs.map Cell.shape) = referencedIds cs := by
  induction cs with
  | nil => rfl
  | cons c cs ih =>
    simp only [referencedIds, map_cons, flatMap_cons] at ih ⊢
    rw [ih]; simp [Cell.shape, Slot.refs_shape]

theorem referencedIds_congr {cs1 cs2 : List Cell} (h : cs1.map Cell.shape = cs2.map Cell.shape) :
    referencedIds cs1 = referencedIds cs2 := by
  rw [← referencedIds_shape cs1, ← referencedIds_shape cs2, h]

theorem fixSlot_congr {d1 d2 : Dict} (hd : d1.shape = d2.shape) {s1 s2 : Slot} (hs : s1.shape = s2.shape)
    (c1 c2 n1 n2 : Nat) :
    (fixSlot d1 c1 s1 n1).err = (fixSlot d2 c2 s2 n2).err ∧
      (fixSlot d1 c1 s1 n1).val.shape = (fixSlot d2 c2 s2 n2).val.shape := by
  obtain ⟨a1, e1⟩ := s1
  obtain ⟨a2, e2⟩ := s2
  simp only [Slot.shape, Slot.mk.injEq] at hs
  obtain ⟨rfl, he⟩ := hs
  cases a1 with
  | none => cases e1 <;> cases e2 <;> simp_all [fixSlot, Slot.shape]
  | some a =>
    cases e1 with
    | some x =>
      cases e2 with
      | none => simp at he
      | some y => simp_all [fixSlot, Slot.shape]
    | none =>
      cases e2 with
      | some y => simp at he
      | none =>
        have hg : (d1.get? a).map Elem.shape = (d2.get? a).map Elem.shape := by
          rw [← Dict.get?_shape, ← Dict.get?_shape, hd]
        cases h1 : d1.get? a with
        | none =>
          cases h2 : d2.get? a with
          | none => simp [fixSlot, h1, h2]
          | some y => simp [h1, h2] at hg
        | some x =>
          cases h2 : d2.get? a with
          | none => simp [h1, h2] at hg
          | some y =>
            simp only [h1, h2, Option.map_some, Option.some.injEq, Elem.shape, Elem.mk.injEq] at hg
            simp only [fixSlot, h1, h2, Slot.shape, Option.map_some, Elem.shape, true_and]
            rw [(deepcopy_spec c1 x.obj n1).2, (deepcopy_spec c2 y.obj n2).2, hg.1, hg.2]

theorem fixCell_congr {em1 em2 eb1 eb2 : Dict} (hm : em1.shape = em2.shape) (hb : eb1.shape = eb2.shape)
    {c1 c2 : Cell} (hc : c1.shape = c2.shape) (n1 n2 : Nat) :
    (fixCell em1 eb1 c1 n1).err = (fixCell em2 eb2 c2 n2).err ∧
      (fixCell em1 eb1 c1 n1).val.shape = (fixCell em2 eb2 c2 n2).val.shape := by
  simp only [Cell.shape, Cell.mk.injEq, true_and] at hc
  obtain ⟨hp, hsm, hsb⟩ := hc
  have ⟨m1, m2⟩ := fixSlot_congr hm hsm c1.oid c2.oid n1 n2
  cases he : (fixSlot em1 c1.oid c1.m n1).err with
  | some e =>
    rw [fixCell_of_err he, fixCell_of_err (m1 ▸ he)]
    simp [Cell.shape, hp, m2, hsb]
  | none =>
    rw [fixCell_of_ok he, fixCell_of_ok (m1 ▸ he)]
    have ⟨b1, b2⟩ := fixSlot_congr hb hsb c1.oid c2.oid (fixSlot em1 c1.oid c1.m n1).next (fixSlot em2 c2.oid c2.m n2).next
    simp [Cell.shape, hp, m2, b1, b2]

theorem fixCells_congr {em1 em2 eb1 eb2 : Dict} (hm : em1.shape = em2.shape) (hb : eb1.shape = eb2.shape) :
    ∀ (cs1 cs2 : List Cell) (n1 n2 : Nat), cs1.map Cell.shape = cs2.map Cell.shape →
      (fixCells em1 eb1 cs1 n1).err = (fixCells em2 eb2 cs2 n2).err ∧
        (fixCells em1 eb1 cs1 n1).val.map Cell.shape = (fixCells em2 eb2 cs2 n2).val.map Cell.shape
  | [], [], n1, n2, _ => by simp [fixCells]
  | [], _ :: _, _, _, h => by simp at h
  | _ :: _, [], _, _, h => by simp at h
  | c1 :: r1, c2 :: r2, n1, n2, h => by
    simp only [map_cons, cons.injEq] at h
    have ⟨a1, a2⟩ := fixCell_congr hm hb h.1 n1 n2
    cases he : (fixCell em1 eb1 c1 n1).err with
    | some e =>
      rw [fixCells_of_err he, fixCells_of_err (a1 ▸ he)]
      simp [a2, h.2]
    | none =>
      rw [fixCells_of_ok he, fixCells_of_ok (a1 ▸ he)]
      have ⟨b1, b2⟩ := fixCells_congr hm hb r1 r2 (fixCell em1 eb1 c1 n1).next (fixCell em2 eb2 c2 n2).next h.2
      simp [a2, b1, b2]

/-- returned document up to identities, or the exception -/
def Result.retShape (r : Result) : Except Err Doc :=
  match r.ret with
  | .ok d => .ok d.shape
  | .error e => .error e

theorem lookupTables_congr {d1 d2 : Doc} (h : d1.shape = d2.shape) (files : Files) (n1 n2 : Nat) :
    TablesSim (lookupTables d1 files n1) (lookupTables d2 files n2) := by
  simp only [Doc.shape, Doc.mk.injEq, true_and] at h
  obtain ⟨_, hi, hm, hb, hc, _, _⟩ := h
  have hr := referencedIds_congr hc
  have := loadIncludes_congr files (referencedIds d1.cells) d1.includes d2.includes [] [] [] [] n1 n2 hi rfl rfl
  unfold lookupTables
  rw [← hr]
  cases h1 : loadIncludes files (referencedIds d1.cells) d1.includes [] [] n1 with
  | error e1 =>
    cases h2 : loadIncludes files (referencedIds d1.cells) d2.includes [] [] n2 with
    | error e2 => simpa [h1, h2, TablesSim] using this
    | ok r2 => simp [h1, h2, TablesSim] at this
  | ok r1 =>
    cases h2 : loadIncludes files (referencedIds d1.cells) d2.includes [] [] n2 with
    | error e2 => simp [h1, h2, TablesSim] at this
    | ok r2 =>
      obtain ⟨x1, y1, z1⟩ := r1
      obtain ⟨x2, y2, z2⟩ := r2
      simp only [h1, h2, TablesSim] at this ⊢
      exact ⟨addDefs_congr _ this.1 hm, addDefs_congr _ this.2 hb⟩

/-- the whole function commutes with forgetting identities -/
theorem fixInPlace_congr {d1 d2 : Doc} (h : d1.shape = d2.shape) (files : Files) (n1 n2 : Nat) :
    (fixInPlace d1 files n1).retShape = (fixInPlace d2 files n2).retShape := by
  have ht := lookupTables_congr h files n1 n2
  simp only [Doc.shape, Doc.mk.injEq, true_and] at h
  obtain ⟨hp, hi, hm, hb, hc, hc2, ho⟩ := h
  cases h1 : lookupTables d1 files n1 with
  | error e1 =>
    cases h2 : lookupTables d2 files n2 with
    | error e2 =>
      rw [fixInPlace_of_error h1, fixInPlace_of_error h2]
      simp only [h1, h2, TablesSim] at ht
      simp [Result.retShape, ht]
    | ok r2 => simp [h1, h2, TablesSim] at ht
  | ok r1 =>
    cases h2 : lookupTables d2 files n2 with
    | error e2 => simp [h1, h2, TablesSim] at ht
    | ok r2 =>
      obtain ⟨x1, y1, z1⟩ := r1
      obtain ⟨x2, y2, z2⟩ := r2
      simp only [h1, h2, TablesSim] at ht
      rw [fixInPlace_of_ok h1, fixInPlace_of_ok h2]
      have ⟨e1, e2⟩ := fixCells_congr ht.1 ht.2 d1.cells d2.cells z1 z2 hc
      simp only [Result.retShape]
      rw [← e1]
      cases (fixCells x1 y1 d1.cells z1).err with
      | some e => rfl
      | none => simp [retOf, Doc.shape, hp, hi, hm, hb, e2, hc2, ho]

/-! ### the whole call -/

theorem fixExternalCells_true (doc : Doc) (files : Files) (n : Nat) : fixExternalCells doc true files n = fixInPlace doc files n := by
  simp [fixExternalCells]

theorem fixExternalCells_false (doc : Doc) (files : Files) (n : Nat) :
    fixExternalCells doc false files n =
      { fixInPlace (deepcopyDoc doc n).1 files (deepcopyDoc doc n).2 with input := doc } := by
  simp [fixExternalCells]

/-- allocation accounting for the in-place run: the document afterwards consists of the objects it had plus
    every identity of one counter interval `[lo, next)`, each exactly once; that interval starts after
    everything that existed or was read from files -/
theorem fixInPlace_count (doc : Doc) (files : Files) (n : Nat) :
    ∃ lo, n ≤ lo ∧ lo ≤ (fixInPlace doc files n).next ∧
      ∀ i, count i (fixInPlace doc files n).input.ids = count i doc.ids + inR i lo (fixInPlace doc files n).next := by
  cases h : lookupTables doc files n with
  | error e =>
    rw [fixInPlace_of_error h]
    exact ⟨n, Nat.le_refl _, Nat.le_refl _, fun i => by simp [inR_self]⟩
  | ok r =>
    obtain ⟨em, eb, n2⟩ := r
    obtain ⟨em0, eb0, hl, _, _⟩ := lookupTables_eq_ok h
    have hn := (loadIncludes_sound files _ doc.includes doc.includes [] [] n em0 eb0 n2 (fun _ h => h)
      (DictInv.nil _ _) (DictInv.nil _ _) hl).1
    rw [fixInPlace_of_ok h]
    have ⟨a1, a2⟩ := fixCells_acc em eb doc.cells n2
    refine ⟨n2, hn, a1, fun i => ?_⟩
    have h1 := Doc.count_ids_cells doc (fixCells em eb doc.cells n2).val i
    have h2 := a2 i
    simp only at h1 h2 ⊢
    omega

/-- a successful in-place run returns the very document it worked on -/
theorem fixInPlace_ret_ok {doc : Doc} {files : Files} {n : Nat} {doc' : Doc}
    (h : (fixInPlace doc files n).ret = .ok doc') : doc' = (fixInPlace doc files n).input := by
  cases ht : lookupTables doc files n with
  | error e => rw [fixInPlace_of_error ht] at h; cases h
  | ok r =>
    obtain ⟨em, eb, n2⟩ := r
    rw [fixInPlace_of_ok ht] at h ⊢
    cases he : (fixCells em eb doc.cells n2).err with
    | some e => simp [he, retOf] at h
    | none => simp only [he, retOf, Except.ok.injEq] at h; exact h.symm

theorem nodup_of_count {l : List Nat} (h : ∀ i, count i l ≤ 1) : l.Nodup := List.nodup_iff_count.mpr h

theorem count_le_one_of_nodup {l : List Nat} (h : l.Nodup) (i : Nat) : count i l ≤ 1 := List.nodup_iff_count.mp h i

/-- a tree stays a tree: if no object occurred twice in the document and all of them are older than the
    counter, no object occurs twice afterwards, and every object is an old one or a newly allocated one -/
theorem fixInPlace_nodup (doc : Doc) (files : Files) (n : Nat) (hb : doc.Below n) (hnd : doc.ids.Nodup) :
    (fixInPlace doc files n).input.ids.Nodup ∧ ∀ i ∈ (fixInPlace doc files n).input.ids, i ∈ doc.ids ∨ n ≤ i := by
  obtain ⟨lo, h1, h2, h3⟩ := fixInPlace_count doc files n
  constructor
  · apply nodup_of_count
    intro i
    rw [h3 i]
    by_cases hi : i < n
    · rw [inR_of_lt (by omega)]; have := count_le_one_of_nodup hnd i; omega
    · have : count i doc.ids = 0 := List.count_eq_zero.mpr (fun hm => hi (hb i hm))
      have := inR_le_one i lo (fixInPlace doc files n).next
      omega
  · intro i hi
    by_cases hlt : i < n
    · left
      have := List.count_pos_iff.mpr hi
      rw [h3 i, inR_of_lt (by omega)] at this
      exact List.count_pos_iff.mp (by omega)
    · right; omega

abbrev DefinesM (doc : Doc) (files : Files) := Defines doc.morphs doc.includes files FileDoc.morphs
abbrev DefinesB (doc : Doc) (files : Files) := Defines doc.bios doc.includes files FileDoc.bios

/-! ### where the loop stops -/

theorem fixCells_refs_nil (em eb : Dict) (cs : List Cell) (n : Nat) (he : (fixCells em eb cs n).err = none) :
    ∀ x ∈ (fixCells em eb cs n).val, x.m.refs = [] ∧ x.b.refs = [] := by
  intro x hx
  have hlen := fixCells_length em eb cs n
  obtain ⟨k, hk, rfl⟩ := List.getElem_of_mem hx
  have hp : (cs[k]'(by omega), (fixCells em eb cs n).val[k]) ∈ cs.zip (fixCells em eb cs n).val := by
    rw [List.mem_iff_getElem]
    exact ⟨k, by simp [hlen]; omega, by simp⟩
  have ⟨_, _, _, p4, p5⟩ := fixCells_post em eb cs n he _ hp
  exact ⟨p4.refs_nil, p5.refs_nil⟩

/-- a prefix that resolves is processed completely, then the loop goes on with the rest -/
theorem fixCells_append_ok (em eb : Dict) : ∀ (pre rest : List Cell) (n : Nat), (fixCells em eb pre n).err = none →
    fixCells em eb (pre ++ rest) n =
      ⟨(fixCells em eb pre n).val ++ (fixCells em eb rest (fixCells em eb pre n).next).val,
        (fixCells em eb rest (fixCells em eb pre n).next).next,
        (fixCells em eb rest (fixCells em eb pre n).next).err,
        (fixCells em eb pre n).writes ++ (fixCells em eb rest (fixCells em eb pre n).next).writes⟩
  | [], rest, n, _ => by simp [fixCells]
  | c :: pre, rest, n, h => by
    cases he : (fixCell em eb c n).err with
    | some e => rw [fixCells_of_err he] at h; simp at h
    | none =>
      rw [fixCells_of_ok he] at h
      simp only at h
      rw [cons_append, fixCells_of_ok he, fixCells_of_ok he, fixCells_append_ok em eb pre rest _ h]
      simp

theorem fixSlot_missing (d : Dict) (cid : ObjId) (s : Slot) (n : Nat) (a : String) (ha : a ∈ s.refs)
    (hg : d.get? a = none) : (fixSlot d cid s n).err = some (.keyError a) := by
  obtain ⟨attr, elem⟩ := s
  cases attr with
  | none => cases elem <;> simp [Slot.refs] at ha
  | some a' =>
    cases elem with
    | some e => simp [Slot.refs] at ha
    | none =>
      simp only [Slot.refs, mem_singleton] at ha
      subst ha
      simp [fixSlot, hg]

end NmlVerif.FixExternal
