import NmlVerif.Proofs.FixExternal
/-!
# C17 — resolving external morphology/biophysics references embeds independent copies

Model: `NmlVerif.FixExternal` (`Model/FixExternal.lean`) of `neuroml.utils.fix_external_morphs_biophys_in_cell`
(repaired tree: `fixes/C17-deepcopy-drags-parent-document.patch`), tied to the code by the correspondence check
`harness/props/c17.py` (generated documents and include files, real function vs `Drivers/C17.lean`, object
identities compared through first-visit numbering).

Every theorem is about *all* documents, file systems and counter values.  `doc.Below n` says that the
document's objects exist when the call starts (identities `< n`, the allocation counter), `doc.ids.Nodup` that
the document is a tree (no object is reachable twice).
-/
namespace NmlVerif.FixExternal
open List

/-- what the property demands of one (reference attribute, subelement) pair of a cell, `s` before and `s'` after:
    a reference `a` without element gets the attribute cleared and an element with id `a` whose structure is
    that of a visible definition of `a`, all of whose objects were allocated during the call (`n ≤ i`: they are
    not objects of the input, in particular not the referenced element) and whose back reference, if any, is
    the cell; any other pair is exactly as it was (same objects, attribute kept). -/
def Resolved (Def : String → Elem → Prop) (n : Nat) (cellOid : Nat) (s s' : Slot) : Prop :=
  (∀ a, s.attr = some a → s.elem = none →
    s'.attr = none ∧ ∃ e', s'.elem = some e' ∧ e'.nmlId = a ∧ Def a e'.shape ∧ (∀ i ∈ e'.ids, n ≤ i) ∧
      (∀ p, e'.obj.parent = some p → p = cellOid)) ∧
  ((s.attr = none ∨ s.elem ≠ none) → s' = s)

theorem resolved_of_slotPost {Def : String → Elem → Prop} {d : Dict} {n lo cid : Nat} {s s' : Slot}
    (hd : DictInv Def lo d) (hn : n ≤ lo) (h : SlotPost d cid lo s s') : Resolved Def n cid s s' := by
  obtain ⟨attr, elem⟩ := s
  cases attr with
  | none => cases elem <;> (simp only [SlotPost] at h; subst h; simp [Resolved])
  | some a =>
    cases elem with
    | some e => simp only [SlotPost] at h; subst h; simp [Resolved]
    | none =>
      simp only [SlotPost] at h
      obtain ⟨e, e', hg, rfl, hid, hsh, hfresh, hpar⟩ := h
      have ⟨i1, _, i3⟩ := hd a e hg
      refine ⟨?_, by simp⟩
      intro a' ha' _
      simp only [Option.some.injEq] at ha'
      subst ha'
      refine ⟨rfl, e', rfl, hid.trans i1, ?_, fun i hi => by have := hfresh i hi; omega, ?_⟩
      · have : e'.shape = e.shape := by simp [Elem.shape, hid, hsh]
        rw [this]; exact i3
      · intro p hp
        rw [hpar] at hp
        cases hq : e.obj.parent with
        | none => simp [hq] at hp
        | some q => simp [hq] at hp; exact hp.symm

/-- **Embedding.** A successful call (`overwrite=True`) keeps the cells in place and resolves each of them:
    every reference to a morphology / biophysical-properties element becomes an embedded, structurally
    equal, freshly allocated copy of a definition in the document or a directly included file, with the
    reference attribute cleared; pairs that had an element are untouched. -/
theorem cellsOnly_resolved (doc : Doc) (files : Files) (n : Nat) (hb : doc.Below n) (doc' : Doc)
    (h : (fixExternalCells doc true files n).ret = .ok doc') :
    doc'.cells.length = doc.cells.length ∧
    ∀ p ∈ doc.cells.zip doc'.cells,
      p.2.oid = p.1.oid ∧ p.2.parent = p.1.parent ∧ p.2.payload = p.1.payload ∧
      Resolved (DefinesM doc files) n p.1.oid p.1.m p.2.m ∧
      Resolved (DefinesB doc files) n p.1.oid p.1.b p.2.b := by
  rw [fixExternalCells_true] at h
  cases ht : lookupTables doc files n with
  | error e => rw [fixInPlace_of_error ht] at h; cases h
  | ok r =>
    obtain ⟨em, eb, n2⟩ := r
    have ⟨s1, s2, s3, _, _⟩ := lookupTables_spec ht hb
    rw [fixInPlace_of_ok ht] at h
    cases he : (fixCells em eb doc.cells n2).err with
    | some e => simp [he, retOf] at h
    | none =>
      simp only [he, retOf, Except.ok.injEq] at h
      subst h
      refine ⟨fixCells_length em eb doc.cells n2, fun p hp => ?_⟩
      have ⟨p1, p2, p3, p4, p5⟩ := fixCells_post em eb doc.cells n2 he p hp
      exact ⟨p1, p2, p3, resolved_of_slotPost s2 s1 p4, resolved_of_slotPost s3 s1 p5⟩

/-- **Nothing else changes.** Apart from the cell list the returned document is the input document. -/
theorem cellsOnly_rest_untouched (doc : Doc) (files : Files) (n : Nat) (doc' : Doc)
    (h : (fixExternalCells doc true files n).ret = .ok doc') :
    doc'.oid = doc.oid ∧ doc'.payload = doc.payload ∧ doc'.includes = doc.includes ∧ doc'.morphs = doc.morphs ∧
      doc'.bios = doc.bios ∧ doc'.cells2 = doc.cells2 ∧ doc'.other = doc.other := by
  rw [fixExternalCells_true] at h
  cases ht : lookupTables doc files n with
  | error e => rw [fixInPlace_of_error ht] at h; cases h
  | ok r =>
    obtain ⟨em, eb, n2⟩ := r
    rw [fixInPlace_of_ok ht] at h
    cases he : (fixCells em eb doc.cells n2).err with
    | some e => simp [he, retOf] at h
    | none =>
      simp only [he, retOf, Except.ok.injEq] at h
      subst h
      exact ⟨rfl, rfl, rfl, rfl, rfl, rfl, rfl⟩

/-- **Cells that already embed the element are left as they are** (same objects; the reference attribute, if
    one is set as well, is kept — this is what the code does). -/
theorem cellsOnly_embedded_untouched (doc : Doc) (files : Files) (n : Nat) (hb : doc.Below n) (doc' : Doc)
    (h : (fixExternalCells doc true files n).ret = .ok doc') :
    ∀ p ∈ doc.cells.zip doc'.cells,
      (p.1.m.elem ≠ none → p.2.m = p.1.m) ∧ (p.1.b.elem ≠ none → p.2.b = p.1.b) := by
  intro p hp
  have ⟨_, _, _, r1, r2⟩ := (cellsOnly_resolved doc files n hb doc' h).2 p hp
  exact ⟨fun hne => r1.2 (Or.inr hne), fun hne => r2.2 (Or.inr hne)⟩

/-- **Who wins on colliding ids.** If the document itself defines the referenced id, the embedded copy is a copy
    of the document's *last* definition of it, whatever the included files define. -/
theorem cellsOnly_local_definition_wins (doc : Doc) (files : Files) (n : Nat) (doc' : Doc)
    (h : (fixExternalCells doc true files n).ret = .ok doc') :
    ∀ p ∈ doc.cells.zip doc'.cells,
      (∀ a e0, p.1.m.attr = some a → p.1.m.elem = none → lastDef doc.morphs a = some e0 →
        ∃ e', p.2.m.elem = some e' ∧ e'.shape = e0.shape) ∧
      (∀ a e0, p.1.b.attr = some a → p.1.b.elem = none → lastDef doc.bios a = some e0 →
        ∃ e', p.2.b.elem = some e' ∧ e'.shape = e0.shape) := by
  rw [fixExternalCells_true] at h
  cases ht : lookupTables doc files n with
  | error e => rw [fixInPlace_of_error ht] at h; cases h
  | ok r =>
    obtain ⟨em, eb, n2⟩ := r
    rw [fixInPlace_of_ok ht] at h
    cases he : (fixCells em eb doc.cells n2).err with
    | some e => simp [he, retOf] at h
    | none =>
      simp only [he, retOf, Except.ok.injEq] at h
      subst h
      intro p hp
      have hc : p.1 ∈ doc.cells := (List.of_mem_zip hp).1
      have ⟨_, _, _, p4, p5⟩ := fixCells_post em eb doc.cells n2 he p hp
      constructor
      · intro a e0 ha hel hl
        have hw := (lookupTables_local_wins ht a (mem_referencedIds hc (Or.inl (by simp [Slot.refs, ha, hel])))).1 e0 hl
        simp only [SlotPost, ha, hel] at p4
        obtain ⟨e, e', hg, hs, hid, hsh, _⟩ := p4
        rw [hw] at hg; cases hg
        exact ⟨e', by rw [hs], by simp [Elem.shape, hid, hsh]⟩
      · intro a e0 ha hel hl
        have hw := (lookupTables_local_wins ht a (mem_referencedIds hc (Or.inr (by simp [Slot.refs, ha, hel])))).2 e0 hl
        simp only [SlotPost, ha, hel] at p5
        obtain ⟨e, e', hg, hs, hid, hsh, _⟩ := p5
        rw [hw] at hg; cases hg
        exact ⟨e', by rw [hs], by simp [Elem.shape, hid, hsh]⟩

/-- **Independence.** If the input document is a tree, so is the document after the call (also after a call
    that raised): no object is reachable twice, so no embedded copy shares an object with another cell's copy,
    with the element it was copied from, or with anything else; and every object is an object of the input or
    was allocated during the call. -/
theorem cellsOnly_independent (doc : Doc) (files : Files) (n : Nat) (hb : doc.Below n) (hnd : doc.ids.Nodup) :
    (fixExternalCells doc true files n).input.ids.Nodup ∧
      ∀ i ∈ (fixExternalCells doc true files n).input.ids, i ∈ doc.ids ∨ n ≤ i := by
  rw [fixExternalCells_true]; exact fixInPlace_nodup doc files n hb hnd

/-- the same, spelled out for the returned document: the cells are pairwise disjoint, and disjoint from every
    top-level morphology / biophysical-properties element of the document (the sources of the copies) -/
theorem cellsOnly_copies_disjoint (doc : Doc) (files : Files) (n : Nat) (hb : doc.Below n) (hnd : doc.ids.Nodup)
    (doc' : Doc) (h : (fixExternalCells doc true files n).ret = .ok doc') :
    doc'.cells.Pairwise (fun c1 c2 => ∀ i ∈ c1.ids, ∀ j ∈ c2.ids, i ≠ j) ∧
    (∀ c ∈ doc'.cells, c.ids.Nodup) ∧
    (∀ e ∈ doc'.morphs ++ doc'.bios, ∀ c ∈ doc'.cells, ∀ i ∈ e.ids, i ∉ c.ids) := by
  have hi := (cellsOnly_independent doc files n hb hnd).1
  rw [fixExternalCells_true] at h hi
  rw [← fixInPlace_ret_ok h] at hi
  have hcnt : ∀ i, count i (doc'.morphs.flatMap Elem.ids) + count i (doc'.bios.flatMap Elem.ids)
      + count i (doc'.cells.flatMap Cell.ids) ≤ 1 := by
    intro i
    have := count_le_one_of_nodup hi i
    simp only [Doc.ids, count_cons', count_append] at this
    omega
  have hcells : (doc'.cells.flatMap Cell.ids).Nodup := nodup_of_count (fun i => by have := hcnt i; omega)
  have hc := (List.pairwise_flatMap (R := (· ≠ ·))).mp hcells
  refine ⟨hc.2, hc.1, ?_⟩
  intro e he c hc' i hie hic
  have h3 : 0 < count i (doc'.cells.flatMap Cell.ids) :=
    List.count_pos_iff.mpr (List.mem_flatMap.mpr ⟨c, hc', hic⟩)
  simp only [mem_append] at he
  rcases he with he | he
  · have h1 : 0 < count i (doc'.morphs.flatMap Elem.ids) :=
      List.count_pos_iff.mpr (List.mem_flatMap.mpr ⟨e, he, hie⟩)
    have := hcnt i; omega
  · have h1 : 0 < count i (doc'.bios.flatMap Elem.ids) :=
      List.count_pos_iff.mpr (List.mem_flatMap.mpr ⟨e, he, hie⟩)
    have := hcnt i; omega

/-- **No stray allocation.** Every object allocated by the substitution loop is part of the document afterwards:
    the loop allocates the embedded copies and nothing else (in particular no copy of the document the
    referenced element belongs to). -/
theorem cellsOnly_no_stray_allocation (doc : Doc) (files : Files) (n : Nat) :
    ∃ lo, n ≤ lo ∧ ∀ i, lo ≤ i → i < (fixExternalCells doc true files n).next →
      i ∈ (fixExternalCells doc true files n).input.ids := by
  rw [fixExternalCells_true]
  obtain ⟨lo, h1, _, h3⟩ := fixInPlace_count doc files n
  refine ⟨lo, h1, fun i hlo hhi => ?_⟩
  apply List.count_pos_iff.mp
  rw [h3 i]
  have : inR i lo (fixInPlace doc files n).next = 1 := by simp [inR, hlo, hhi]
  omega

/-- some cell refers to an id for which neither the document nor a directly included file has a definition -/
def DanglingIdCells (doc : Doc) (files : Files) (a : String) : Prop :=
  ∃ c ∈ doc.cells, (a ∈ c.m.refs ∧ ¬ ∃ sh, DefinesM doc files a sh) ∨ (a ∈ c.b.refs ∧ ¬ ∃ sh, DefinesB doc files a sh)

theorem cellsOnly_outcome_inplace (doc : Doc) (files : Files) (n : Nat) (hb : doc.Below n)
    (hr : ∀ inc ∈ doc.includes, (files inc.href).isSome) :
    ((∃ a, DanglingIdCells doc files a) → ∃ a, (fixInPlace doc files n).ret = .error (.keyError a) ∧ DanglingIdCells doc files a) ∧
    ((¬ ∃ a, DanglingIdCells doc files a) → ∃ doc', (fixInPlace doc files n).ret = .ok doc') := by
  cases ht : lookupTables doc files n with
  | error e =>
    obtain ⟨r, hr'⟩ := loadIncludes_ok files (referencedIds doc.cells) doc.includes [] [] n hr
    rw [lookupTables_eq_error ht] at hr'; cases hr'
  | ok r =>
    obtain ⟨em, eb, n2⟩ := r
    have ⟨_, s2, s3, c1, c2⟩ := lookupTables_spec ht hb
    rw [fixInPlace_of_ok ht]
    cases he : (fixCells em eb doc.cells n2).err with
    | some e =>
      obtain ⟨c, hc, a, rfl, hda⟩ := fixCells_err em eb doc.cells n2 e he
      have hdang : DanglingIdCells doc files a := by
        refine ⟨c, hc, ?_⟩
        rcases hda with ⟨h1, h2⟩ | ⟨h1, h2⟩
        · left; refine ⟨h1, fun hd => ?_⟩
          have := c1 a (mem_referencedIds hc (Or.inl h1)) hd
          simp [h2] at this
        · right; refine ⟨h1, fun hd => ?_⟩
          have := c2 a (mem_referencedIds hc (Or.inr h1)) hd
          simp [h2] at this
      exact ⟨fun _ => ⟨a, by simp [retOf], hdang⟩, fun hn => absurd ⟨a, hdang⟩ hn⟩
    | none =>
      refine ⟨?_, fun _ => ⟨_, rfl⟩⟩
      rintro ⟨a, c, hc, hd⟩
      exfalso
      have hall := (fixCells_ok_iff em eb doc.cells n2).mp he c hc
      rcases hd with ⟨h1, h2⟩ | ⟨h1, h2⟩
      · have := hall.1 a h1
        cases hg : em.get? a with
        | none => simp [hg] at this
        | some e => exact h2 ⟨e.shape, (s2 a e hg).2.2⟩
      · have := hall.2 a h1
        cases hg : eb.get? a with
        | none => simp [hg] at this
        | some e => exact h2 ⟨e.shape, (s3 a e hg).2.2⟩

/-- **Where the `KeyError` is raised, and in what state** (bug-for-bug; the property only demands the exception).
    If the cells before cell `c` resolve and `c` has the first reference without a definition — its morphology
    reference, or its biophysics reference when its morphology is fine — then the exception carries exactly that
    id, and with `overwrite=True` the document passed in is left half-converted: the cells before `c` are all
    resolved, the cells after `c` are untouched. -/
theorem cellsOnly_keyerror_at_first_dangling (doc : Doc) (files : Files) (n : Nat) (hb : doc.Below n)
    (hr : ∀ inc ∈ doc.includes, (files inc.href).isSome) (pre post : List Cell) (c : Cell)
    (hcells : doc.cells = pre ++ c :: post)
    (hpre : ∀ x ∈ pre, (∀ a ∈ x.m.refs, ∃ sh, DefinesM doc files a sh) ∧ (∀ a ∈ x.b.refs, ∃ sh, DefinesB doc files a sh))
    (a : String)
    (hc : (a ∈ c.m.refs ∧ ¬ ∃ sh, DefinesM doc files a sh) ∨
      ((∀ a' ∈ c.m.refs, ∃ sh, DefinesM doc files a' sh) ∧ a ∈ c.b.refs ∧ ¬ ∃ sh, DefinesB doc files a sh)) :
    (fixExternalCells doc true files n).ret = .error (.keyError a) ∧
    ∃ pre' c', (fixExternalCells doc true files n).input.cells = pre' ++ c' :: post ∧ pre'.length = pre.length ∧
      (∀ x ∈ pre', x.m.refs = [] ∧ x.b.refs = []) := by
  rw [fixExternalCells_true]
  cases ht : lookupTables doc files n with
  | error e =>
    obtain ⟨r, hr'⟩ := loadIncludes_ok files (referencedIds doc.cells) doc.includes [] [] n hr
    rw [lookupTables_eq_error ht] at hr'; cases hr'
  | ok r =>
    obtain ⟨em, eb, n2⟩ := r
    have ⟨_, s2, s3, c1, c2⟩ := lookupTables_spec ht hb
    rw [fixInPlace_of_ok ht, hcells]
    have hmem : ∀ x, x ∈ pre ∨ x = c → x ∈ doc.cells := by
      intro x hx; rw [hcells]; simp only [mem_append, mem_cons]
      rcases hx with hx | hx
      · exact Or.inl hx
      · exact Or.inr (Or.inl hx)
    have hpre_ok : (fixCells em eb pre n2).err = none := by
      rw [fixCells_ok_iff]
      intro x hx
      exact ⟨fun a' ha' => c1 a' (mem_referencedIds (hmem x (Or.inl hx)) (Or.inl ha')) ((hpre x hx).1 a' ha'),
        fun a' ha' => c2 a' (mem_referencedIds (hmem x (Or.inl hx)) (Or.inr ha')) ((hpre x hx).2 a' ha')⟩
    have noneM : ∀ a', (¬ ∃ sh, DefinesM doc files a' sh) → em.get? a' = none := by
      intro a' hn
      cases hg : em.get? a' with
      | none => rfl
      | some e => exact absurd ⟨e.shape, (s2 a' e hg).2.2⟩ hn
    have noneB : ∀ a', (¬ ∃ sh, DefinesB doc files a' sh) → eb.get? a' = none := by
      intro a' hn
      cases hg : eb.get? a' with
      | none => rfl
      | some e => exact absurd ⟨e.shape, (s3 a' e hg).2.2⟩ hn
    have hcerr : (fixCell em eb c (fixCells em eb pre n2).next).err = some (.keyError a) := by
      rcases hc with ⟨h1, h2⟩ | ⟨h0, h1, h2⟩
      · have := fixSlot_missing em c.oid c.m (fixCells em eb pre n2).next a h1 (noneM a h2)
        rw [fixCell_of_err this]
      · have hm : (fixSlot em c.oid c.m (fixCells em eb pre n2).next).err = none := by
          rw [fixSlot_ok_iff]
          exact fun a' ha' => c1 a' (mem_referencedIds (hmem c (Or.inr rfl)) (Or.inl ha')) (h0 a' ha')
        rw [fixCell_of_ok hm]
        exact fixSlot_missing eb c.oid c.b _ a h1 (noneB a h2)
    rw [fixCells_append_ok em eb pre (c :: post) n2 hpre_ok, fixCells_of_err hcerr]
    refine ⟨by simp [retOf], (fixCells em eb pre n2).val, (fixCell em eb c (fixCells em eb pre n2).next).val, rfl,
      fixCells_length em eb pre n2, fixCells_refs_nil em eb pre n2 hpre_ok⟩

/-- **`overwrite=False`: the returned document equals the one `overwrite=True` produces** — the same exception, or
    documents that are equal up to object identities (`Doc.shape`; this is the bindings' `__eq__`). -/
theorem cellsOnly_no_overwrite_equiv (doc : Doc) (files : Files) (n : Nat) :
    (fixExternalCells doc false files n).retShape = (fixExternalCells doc true files n).retShape := by
  rw [fixExternalCells_true, fixExternalCells_false]
  exact fixInPlace_congr (deepcopyDoc_spec doc n).2 files _ _

/-- **A reference that cannot be resolved raises `KeyError`** (either mode), for an id that some cell refers to
    and that is defined neither in the document nor in a directly included file — provided every included
    file can be read. -/
theorem cellsOnly_dangling_keyerror (doc : Doc) (files : Files) (n : Nat) (overwrite : Bool) (hb : doc.Below n)
    (hr : ∀ inc ∈ doc.includes, (files inc.href).isSome) (hd : ∃ a, DanglingIdCells doc files a) :
    ∃ a, (fixExternalCells doc overwrite files n).ret = .error (.keyError a) ∧ DanglingIdCells doc files a := by
  obtain ⟨a, h1, h2⟩ := (cellsOnly_outcome_inplace doc files n hb hr).1 hd
  cases overwrite with
  | true => exact ⟨a, by rw [fixExternalCells_true]; exact h1, h2⟩
  | false =>
    refine ⟨a, ?_, h2⟩
    have he := cellsOnly_no_overwrite_equiv doc files n
    rw [fixExternalCells_true] at he
    simp only [Result.retShape, h1] at he
    cases hret : (fixExternalCells doc false files n).ret with
    | ok d => simp [hret] at he
    | error e => simp only [hret, Except.error.injEq] at he; rw [he]

/-- and conversely: without a dangling reference (and with readable includes) the call succeeds, in either mode -/
theorem cellsOnly_succeeds_iff_no_dangling (doc : Doc) (files : Files) (n : Nat) (overwrite : Bool) (hb : doc.Below n)
    (hr : ∀ inc ∈ doc.includes, (files inc.href).isSome) :
    (∃ doc', (fixExternalCells doc overwrite files n).ret = .ok doc') ↔ ¬ ∃ a, DanglingIdCells doc files a := by
  constructor
  · rintro ⟨doc', h⟩ hd
    obtain ⟨a, h1, _⟩ := cellsOnly_dangling_keyerror doc files n overwrite hb hr hd
    rw [h] at h1; cases h1
  · intro hn
    obtain ⟨doc', h⟩ := (cellsOnly_outcome_inplace doc files n hb hr).2 hn
    cases overwrite with
    | true => exact ⟨doc', by rw [fixExternalCells_true]; exact h⟩
    | false =>
      have he := cellsOnly_no_overwrite_equiv doc files n
      rw [fixExternalCells_true] at he
      simp only [Result.retShape, h] at he
      cases hret : (fixExternalCells doc false files n).ret with
      | ok d => exact ⟨d, rfl⟩
      | error e => simp [hret] at he

/-- an include that cannot be read stops the call (`sys.exit()` in the loader) before anything is modified -/
theorem cellsOnly_unreadable_include (doc : Doc) (files : Files) (n : Nat)
    (h : ∃ inc ∈ doc.includes, files inc.href = none) :
    (∃ inc ∈ doc.includes, files inc.href = none ∧
      (fixExternalCells doc true files n).ret = .error (.includeUnreadable inc.href)) ∧
    (fixExternalCells doc true files n).input = doc ∧ (fixExternalCells doc true files n).writes = [] := by
  rw [fixExternalCells_true]
  cases ht : lookupTables doc files n with
  | error e =>
    obtain ⟨inc, hi, hf, rfl⟩ := loadIncludes_error files _ doc.includes [] [] n e (lookupTables_eq_error ht)
    rw [fixInPlace_of_error ht]
    exact ⟨⟨inc, hi, hf, rfl⟩, rfl, rfl⟩
  | ok r =>
    obtain ⟨em, eb, n2⟩ := r
    obtain ⟨em0, eb0, hl, _, _⟩ := lookupTables_eq_ok ht
    obtain ⟨inc, hi, hf⟩ := h
    exfalso
    have : ∀ (incs : List Inc) (em eb : Dict) (m : Nat) r, inc ∈ incs →
        loadIncludes files (referencedIds doc.cells) incs em eb m ≠ .ok r := by
      intro incs
      induction incs with
      | nil => intro _ _ _ _ hm; simp at hm
      | cons x xs ih =>
        intro em eb m r hm hok
        cases hx : files x.href with
        | none => rw [loadIncludes_cons_none hx] at hok; cases hok
        | some fd =>
          rw [loadIncludes_cons_some hx] at hok
          simp only [mem_cons] at hm
          rcases hm with rfl | hm
          · rw [hf] at hx; cases hx
          · exact ih _ _ _ r hm hok
    exact this doc.includes [] [] n _ hi hl

/-- **`overwrite=False` leaves the document passed in unchanged**: the model hands back `doc` itself as the
    input's state after the call, which is justified by the frame fact that every attribute assignment of the
    call went to an object allocated during the call — never to an object of the input. -/
theorem cellsOnly_no_overwrite_frame (doc : Doc) (files : Files) (n : Nat) (hb : doc.Below n) :
    (fixExternalCells doc false files n).input = doc ∧
      ∀ w ∈ (fixExternalCells doc false files n).writes, n ≤ w ∧ w ∉ doc.ids := by
  rw [fixExternalCells_false]
  refine ⟨rfl, fun w hw => ?_⟩
  simp only at hw
  have ⟨sp, _⟩ := deepcopyDoc_spec doc n
  have hwc : w ∈ (deepcopyDoc doc n).1.cells.map Cell.oid := by
    cases ht : lookupTables (deepcopyDoc doc n).1 files (deepcopyDoc doc n).2 with
    | error e => rw [fixInPlace_of_error ht] at hw; simp at hw
    | ok r =>
      obtain ⟨em, eb, n2⟩ := r
      rw [fixInPlace_of_ok ht] at hw
      exact fixCells_writes em eb _ n2 w hw
  obtain ⟨c, hc, rfl⟩ := List.mem_map.mp hwc
  have hmem : c.oid ∈ (deepcopyDoc doc n).1.ids := Doc.mem_ids_cells hc (by simp [Cell.ids])
  have := (sp.mem hmem).1
  exact ⟨this, fun hin => by have := hb _ hin; omega⟩

/-- with `overwrite=True` the assignments go to cells of the document passed in, and to nothing else -/
theorem cellsOnly_overwrite_frame (doc : Doc) (files : Files) (n : Nat) :
    ∀ w ∈ (fixExternalCells doc true files n).writes, w ∈ doc.cells.map Cell.oid := by
  rw [fixExternalCells_true]
  intro w hw
  cases ht : lookupTables doc files n with
  | error e => rw [fixInPlace_of_error ht] at hw; simp at hw
  | ok r =>
    obtain ⟨em, eb, n2⟩ := r
    rw [fixInPlace_of_ok ht] at hw
    exact fixCells_writes em eb _ n2 w hw

/-- the document returned with `overwrite=False` consists of new objects only and is a tree: it shares nothing
    with the document passed in -/
theorem cellsOnly_no_overwrite_fresh (doc : Doc) (files : Files) (n : Nat) (doc' : Doc)
    (h : (fixExternalCells doc false files n).ret = .ok doc') :
    (∀ i ∈ doc'.ids, n ≤ i) ∧ doc'.ids.Nodup := by
  rw [fixExternalCells_false] at h
  simp only at h
  have ⟨sp, _⟩ := deepcopyDoc_spec doc n
  have hb : (deepcopyDoc doc n).1.Below (deepcopyDoc doc n).2 := fun i hi => (sp.mem hi).2
  have hnd : (deepcopyDoc doc n).1.ids.Nodup :=
    nodup_of_count (fun i => by rw [sp.2 i]; exact inR_le_one _ _ _)
  have ⟨r1, r2⟩ := fixInPlace_nodup _ files _ hb hnd
  rw [← fixInPlace_ret_ok h] at r1 r2
  refine ⟨fun i hi => ?_, r1⟩
  rcases r2 i hi with hold | hnew
  · exact (sp.mem hold).1
  · have := sp.1; omega

/-! ### `cell2_ca_poolses` — open finding `C17:cell2capools-not-resolved`

`Cell2CaPools` is a subclass of `Cell` with the same `morphology` / `biophysicalProperties` attributes, but its
instances live in `doc.cell2_ca_poolses`, which the function never visits. -/

/-- FULL statement: after a successful call no cell of *either* list is left with a reference to resolve -/
def cellsOnly_every_cell_full : Prop :=
  ∀ (doc : Doc) (files : Files) (n : Nat) (doc' : Doc),
    (fixExternalCells doc true files n).ret = .ok doc' →
    ∀ c ∈ doc'.cells ++ doc'.cells2, c.m.refs = [] ∧ c.b.refs = []

/-- true for documents whose `cell2_ca_poolses` hold no references (in particular: none at all) -/
theorem cellsOnly_every_cell_partial (doc : Doc) (files : Files) (n : Nat) (doc' : Doc)
    (h2 : ∀ c ∈ doc.cells2, c.m.refs = [] ∧ c.b.refs = [])
    (h : (fixExternalCells doc true files n).ret = .ok doc') :
    ∀ c ∈ doc'.cells ++ doc'.cells2, c.m.refs = [] ∧ c.b.refs = [] := by
  have hrest := cellsOnly_rest_untouched doc files n doc' h
  rw [fixExternalCells_true] at h
  cases ht : lookupTables doc files n with
  | error e => rw [fixInPlace_of_error ht] at h; cases h
  | ok r =>
    obtain ⟨em, eb, n2⟩ := r
    rw [fixInPlace_of_ok ht] at h
    cases he : (fixCells em eb doc.cells n2).err with
    | some e => simp [he, retOf] at h
    | none =>
      simp only [he, retOf, Except.ok.injEq] at h
      intro c hc
      simp only [mem_append] at hc
      rcases hc with hc | hc
      · subst h
        exact fixCells_refs_nil em eb doc.cells n2 he c hc
      · rw [hrest.2.2.2.2.2.1] at hc; exact h2 c hc

def witnessMorph : Elem := ⟨"m", .mk 1 none "Morphology m" []⟩
def witnessCell2 : Cell := ⟨2, none, "Cell2CaPools c", ⟨some "m", none⟩, ⟨none, none⟩⟩
def witnessDoc : Doc := ⟨0, "doc", [], [witnessMorph], [], [], [witnessCell2], []⟩

/-- the full statement fails today: a `Cell2CaPools` referring to a morphology defined in the same document
    comes back unresolved, and no exception is raised -/
theorem cellsOnly_every_cell_witness : ¬ cellsOnly_every_cell_full := by
  intro hfull
  have := hfull witnessDoc (fun _ => none) 3 witnessDoc rfl witnessCell2 (by simp [witnessDoc])
  simp [witnessCell2, Slot.refs] at this

/-! ### the hypotheses are satisfiable, the conclusions are not vacuous -/

/-- two cells share one morphology reference, a third embeds its own and also names a reference; one included
    file defines the biophysics -/
def exDoc : Doc :=
  ⟨0, "doc", [⟨1, none, "inc.nml"⟩],
    [⟨"m1", .mk 2 none "Morphology m1" [.mk 3 none "segments" [.mk 4 none "Segment 0" []]]⟩], [],
    [⟨5, none, "c0", ⟨some "m1", none⟩, ⟨some "b1", none⟩⟩,
     ⟨6, none, "c1", ⟨some "m1", none⟩, ⟨none, none⟩⟩,
     ⟨7, none, "c2", ⟨some "m1", some ⟨"own", .mk 8 none "Morphology own" []⟩⟩, ⟨none, none⟩⟩],
    [], []⟩

def exFiles : Files := fun h =>
  if h = "inc.nml" then some ⟨[⟨"m1", .mk 0 (some 0) "Morphology m1 (from file)" []⟩], [⟨"b1", .mk 0 (some 0) "Biophys b1" []⟩]⟩
  else none

example : exDoc.Below 9 := by unfold Doc.Below; decide
example : exDoc.ids.Nodup := by decide
example : ∀ inc ∈ exDoc.includes, (exFiles inc.href).isSome := by decide
example : ∃ doc', (fixExternalCells exDoc true exFiles 9).ret = .ok doc' := ⟨_, rfl⟩
example : ∃ doc', (fixExternalCells exDoc false exFiles 9).ret = .ok doc' := ⟨_, rfl⟩
/-- the two copies of `m1` occupy different identities, both new; the biophysics copy points back to its cell -/
example : ((fixExternalCells exDoc true exFiles 9).input.cells.map Cell.ids) =
    [[5, 12, 13, 14, 15], [6, 16, 17, 18], [7, 8]] := by decide
example : (fixExternalCells exDoc true exFiles 9).writes = [5, 5, 6] := by decide
example : (fixExternalCells exDoc false exFiles 9).writes.all (· ≥ 9) = true := by decide

/-- a dangling reference in the second cell: `KeyError`, and with `overwrite=True` the first cell is already
    modified while the third is not (bug-for-bug; the property does not speak about this state) -/
def exDangling : Doc :=
  { exDoc with cells := [⟨5, none, "c0", ⟨some "m1", none⟩, ⟨none, none⟩⟩,
                          ⟨6, none, "c1", ⟨some "nope", none⟩, ⟨none, none⟩⟩,
                          ⟨7, none, "c2", ⟨some "m1", none⟩, ⟨none, none⟩⟩] }

example : DanglingIdCells exDangling exFiles "nope" := by
  refine ⟨⟨6, none, "c1", ⟨some "nope", none⟩, ⟨none, none⟩⟩, by simp [exDangling], Or.inl ⟨by simp [Slot.refs], ?_⟩⟩
  rintro ⟨sh, hd⟩
  rcases hd with ⟨e, he, hid, _⟩ | ⟨inc, hinc, fd, hf, e, he, hid, _⟩
  · simp [exDangling, exDoc] at he; subst he; simp at hid
  · simp [exDangling, exDoc] at hinc; subst hinc
    simp [exFiles] at hf; subst hf
    simp at he; subst he; simp at hid
example : exDangling.cells = [⟨5, none, "c0", ⟨some "m1", none⟩, ⟨none, none⟩⟩] ++
    ⟨6, none, "c1", ⟨some "nope", none⟩, ⟨none, none⟩⟩ :: [⟨7, none, "c2", ⟨some "m1", none⟩, ⟨none, none⟩⟩] := rfl
example : ∃ sh, DefinesM exDangling exFiles "m1" sh :=
  ⟨_, Or.inl ⟨⟨"m1", .mk 2 none "Morphology m1" [.mk 3 none "segments" [.mk 4 none "Segment 0" []]]⟩,
    by simp [exDangling, exDoc], rfl, rfl⟩⟩
example : (fixExternalCells exDangling true exFiles 9).ret = .error (.keyError "nope") := rfl
example : (fixExternalCells exDangling true exFiles 9).input.cells.map (fun c => (c.m.attr, c.m.elem.isSome)) =
    [(none, true), (some "nope", false), (some "m1", false)] := by decide
example : (fixExternalCells exDangling false exFiles 9).ret = .error (.keyError "nope") := rfl
example : ∃ inc ∈ exDoc.includes, (fun _ => none : Files) inc.href = none :=
  ⟨⟨1, none, "inc.nml"⟩, by simp [exDoc], rfl⟩
example : ∀ c ∈ exDoc.cells2, c.m.refs = [] ∧ c.b.refs = [] := by simp [exDoc]

end NmlVerif.FixExternal
