import NmlVerif.Proofs.PyHeap
import NmlVerif.Model.FixExternalH
/-!
Lemmas about `FixExternalH.fixExternal` (the hand model of `fix_external_morphs_biophys_in_cell` over object
graphs): what each step does to the heap, and the invariants of the two loops.  Core Lean only.
-/
namespace NmlVerif.FixExternalH
open NmlVerif.PyHeap List

/-! ### heaps that only grow -/

/-- `h'` is `h` with more objects allocated -/
def Ext (h h' : Heap) : Prop := ∃ e, h' = h ++ e

theorem Ext.refl (h : Heap) : Ext h h := ⟨[], by simp⟩
theorem Ext.trans {a b c : Heap} (h1 : Ext a b) (h2 : Ext b c) : Ext a c := by
  obtain ⟨e1, rfl⟩ := h1
  obtain ⟨e2, rfl⟩ := h2
  exact ⟨e1 ++ e2, by simp⟩
theorem Ext.len {h h' : Heap} (e : Ext h h') : h.length ≤ h'.length := by
  obtain ⟨x, rfl⟩ := e; simp
theorem Ext.get {h h' : Heap} (e : Ext h h') {i : Nat} (hi : i < h.length) : h'[i]? = h[i]? := by
  obtain ⟨x, rfl⟩ := e
  exact List.getElem?_append_left hi

theorem ext_loadTemplate (h : Heap) (t : Template) : Ext h (loadTemplate h t).1 := ⟨_, rfl⟩

theorem ext_deepcopy {h : Heap} {m : Memo} {x : Nat} {c : Copied} (hc : deepcopy h m x = some c) : Ext h c.heap := by
  obtain ⟨order, s⟩ := deepcopy_spec hc
  exact ⟨_, s.heap_eq⟩

/-! ### attribute assignment -/

theorem setattr_length (h : Heap) (o : Nat) (f : String) (v : Val) : (setattr h o f v).length = h.length := by
  unfold setattr
  cases h[o]? <;> simp

theorem setattr_get_ne (h : Heap) (o : Nat) (f : String) (v : Val) {i : Nat} (hi : i ≠ o) :
    (setattr h o f v)[i]? = h[i]? := by
  unfold setattr
  cases ho : h[o]? with
  | none => rfl
  | some nd => simp only; rw [List.getElem?_set_ne (Ne.symm hi)]

theorem setattr_get_eq (h : Heap) (o : Nat) (f : String) (v : Val) {nd : Node} (ho : h[o]? = some nd) :
    (setattr h o f v)[o]? = some { nd with fields := setField nd.fields f v } := by
  unfold setattr
  simp only [ho]
  have : o < h.length := (List.getElem?_eq_some_iff.mp ho).1
  rw [List.getElem?_set_self this]

theorem lookupField_setField_ne (fs : List (String × Val)) (f f' : String) (v : Val) (hne : f' ≠ f) :
    lookupField (setField fs f v) f' = lookupField fs f' := by
  induction fs with
  | nil => simp [setField, lookupField, Ne.symm hne]
  | cons kv rest ih =>
    obtain ⟨k, w⟩ := kv
    simp only [setField]
    by_cases hk : k = f
    · subst hk
      simp [lookupField, Ne.symm hne]
    · simp only [hk, ↓reduceIte, lookupField, ih]

theorem lookupField_setField_eq (fs : List (String × Val)) (f : String) (v : Val) :
    lookupField (setField fs f v) f = v := by
  induction fs with
  | nil => simp [setField, lookupField]
  | cons kv rest ih =>
    obtain ⟨k, w⟩ := kv
    simp only [setField]
    by_cases hk : k = f
    · simp [hk, lookupField]
    · simp [hk, lookupField, ih]

/-! ### the frame of the substitution loop -/

/-- the four attributes the function assigns -/
def FourNames : List String := [MA, ME, BA, BE]

/-- same class, same value of every attribute but the four -/
def SameBut (nd nd' : Node) : Prop :=
  nd'.cls = nd.cls ∧ ∀ f, f ∉ FourNames → lookupField nd'.fields f = lookupField nd.fields f

theorem SameBut.refl (nd : Node) : SameBut nd nd := ⟨rfl, fun _ _ => rfl⟩
theorem SameBut.trans {a b c : Node} (h1 : SameBut a b) (h2 : SameBut b c) : SameBut a c :=
  ⟨h2.1.trans h1.1, fun f hf => (h2.2 f hf).trans (h1.2 f hf)⟩

/-- what the function may do to the objects that existed in `h`: nothing to an object that is not one of the
    cells `C`; to a cell, at most assign the four attributes -/
structure Frame (C : List Val) (h h' : Heap) : Prop where
  len : h.length ≤ h'.length
  other : ∀ i, i < h.length → Val.ref i ∉ C → h'[i]? = h[i]?
  cells : ∀ (i : Nat) (nd : Node), h[i]? = some nd → ∃ nd', h'[i]? = some nd' ∧ SameBut nd nd'

theorem Frame.refl (C : List Val) (h : Heap) : Frame C h h :=
  ⟨Nat.le_refl _, fun _ _ _ => rfl, fun _ nd hnd => ⟨nd, hnd, SameBut.refl nd⟩⟩

theorem Frame.trans {C : List Val} {a b c : Heap} (h1 : Frame C a b) (h2 : Frame C b c) : Frame C a c := by
  refine ⟨Nat.le_trans h1.len h2.len, ?_, ?_⟩
  · intro i hi hn
    rw [h2.other i (Nat.lt_of_lt_of_le hi h1.len) hn, h1.other i hi hn]
  · intro i nd hnd
    obtain ⟨nd1, g1, s1⟩ := h1.cells i nd hnd
    obtain ⟨nd2, g2, s2⟩ := h2.cells i nd1 g1
    exact ⟨nd2, g2, s1.trans s2⟩

theorem Frame.of_ext (C : List Val) {h h' : Heap} (e : Ext h h') : Frame C h h' := by
  refine ⟨e.len, fun i hi _ => e.get hi, ?_⟩
  intro i nd hnd
  have hi : i < h.length := (List.getElem?_eq_some_iff.mp hnd).1
  exact ⟨nd, by rw [e.get hi]; exact hnd, SameBut.refl nd⟩

theorem Frame.setattr (C : List Val) (h : Heap) {c : Nat} (hc : Val.ref c ∈ C) {f : String} (hf : f ∈ FourNames)
    (v : Val) : Frame C h (setattr h c f v) := by
  refine ⟨by rw [setattr_length]; exact Nat.le_refl _, ?_, ?_⟩
  · intro i _ hn
    have : i ≠ c := fun e => hn (e ▸ hc)
    exact setattr_get_ne h c f v this
  · intro i nd hnd
    by_cases hic : i = c
    · subst hic
      refine ⟨_, setattr_get_eq h i f v hnd, rfl, ?_⟩
      intro f' hf'
      have : f' ≠ f := fun e => hf' (e ▸ hf)
      exact lookupField_setField_ne nd.fields f f' v this
    · exact ⟨nd, by rw [setattr_get_ne h c f v hic]; exact hnd, SameBut.refl nd⟩

/-! ### the embedded copies -/

/-- every reference held by an object of the copy stays inside the copy, or is the cell it was embedded in: the
    copy shares no object with anything else -/
def EvClosed (h : Heap) (ev : CopyEv) : Prop :=
  ∀ y, ev.lo ≤ y → y < ev.hi → ∀ nd, h[y]? = some nd → ∀ r ∈ nd.refs, (ev.lo ≤ r ∧ r < ev.hi) ∨ ev.cell = Val.ref r

/-- the record of copies: all allocated after `n0`, one after the other, each closed -/
structure EventsOK (n0 : Nat) (h : Heap) (evs : List CopyEv) : Prop where
  range : ∀ ev ∈ evs, n0 ≤ ev.lo ∧ ev.lo ≤ ev.hi ∧ ev.hi ≤ h.length
  sorted : evs.Pairwise (fun a b => a.hi ≤ b.lo)
  closed : ∀ ev ∈ evs, EvClosed h ev

theorem EventsOK.nil (n0 : Nat) (h : Heap) : EventsOK n0 h [] :=
  ⟨by simp, by simp, by simp⟩

/-- later steps do not disturb the copies made so far -/
theorem EventsOK.mono {n0 : Nat} {h h' : Heap} {evs : List CopyEv} (ok : EventsOK n0 h evs)
    (hlen : h.length ≤ h'.length) (hag : ∀ y, n0 ≤ y → y < h.length → h'[y]? = h[y]?) : EventsOK n0 h' evs := by
  refine ⟨fun ev hev => ?_, ok.sorted, fun ev hev => ?_⟩
  · have := ok.range ev hev
    exact ⟨this.1, this.2.1, Nat.le_trans this.2.2 hlen⟩
  · intro y h1 h2 nd hnd r hr
    have rg := ok.range ev hev
    rw [hag y (Nat.le_trans rg.1 h1) (Nat.lt_of_lt_of_le h2 rg.2.2)] at hnd
    exact ok.closed ev hev y h1 h2 nd hnd r hr

theorem toMemo_get {p np : Val} {a r : Nat}
    (h : Memo.get? (toMemo (if p ≠ Val.none then [(p, np)] else [])) a = some r) : np = Val.ref r := by
  by_cases hp : p = Val.none
  · simp [hp, toMemo, Memo.get?] at h
  · simp only [ne_eq, hp, not_false_eq_true, ↓reduceIte, toMemo, List.filterMap_cons, List.filterMap_nil] at h
    cases p with
    | none => exact absurd rfl hp
    | prim s => simp [Memo.get?] at h
    | ref pi =>
      cases np with
      | none => simp [Memo.get?] at h
      | prim s => simp [Memo.get?] at h
      | ref ni =>
        simp only [Memo.get?] at h
        by_cases hk : pi = a
        · simp [hk] at h; rw [h]
        · simp [hk] at h

/-- `_deepcopy_into` is a `deepcopy` whose memo holds at most `old parent ↦ new parent` -/
theorem deepcopyInto_spec {h : Heap} {element np : Val} {c : Copied} (hc : deepcopyInto h element np = some c) :
    ∃ x order, element = Val.ref x ∧
      CopySpec h (toMemo (if getattr h x "parent_object_" ≠ Val.none then [(getattr h x "parent_object_", np)] else [])) x c order := by
  unfold deepcopyInto at hc
  cases element with
  | ref x =>
    simp only at hc
    obtain ⟨order, s⟩ := deepcopy_spec hc
    exact ⟨x, order, rfl, s⟩
  | none => simp at hc
  | prim s => simp at hc

theorem getattrV_ne_none {h : Heap} {o : Val} {f : String} (hne : getattrV h o f ≠ Val.none) :
    ∃ i nd, o = Val.ref i ∧ h[i]? = some nd := by
  cases o with
  | ref i =>
    simp only [getattrV, getattr] at hne
    cases hi : h[i]? with
    | none => simp [hi] at hne
    | some nd => exact ⟨i, nd, rfl, hi⟩
  | none => simp [getattrV] at hne
  | prim s => simp [getattrV] at hne

theorem setattrV_ref (h : Heap) (i : Nat) (f : String) (v : Val) : setattrV h (Val.ref i) f v = setattr h i f v := rfl

/-- one slot of one cell: the frame, the copies made so far stay as they are, the new copy is closed -/
theorem fixSlot_spec (d : Dict) (cell : Val) (a e : String) (st : St) (n0 : Nat) (C : List Val)
    (hcell : cell ∈ C) (hC : ∀ i, Val.ref i ∈ C → i < n0) (hn0 : n0 ≤ st.heap.length)
    (ha : a ∈ FourNames) (he : e ∈ FourNames) (hev : EventsOK n0 st.heap st.copies) :
    Frame C st.heap (fixSlot d cell a e st).1.heap ∧
    EventsOK n0 (fixSlot d cell a e st).1.heap (fixSlot d cell a e st).1.copies ∧
    (∀ y, n0 ≤ y → y < st.heap.length → (fixSlot d cell a e st).1.heap[y]? = st.heap[y]?) := by
  unfold fixSlot
  by_cases hc : getattrV st.heap cell a ≠ Val.none ∧ getattrV st.heap cell e = Val.none
  · rw [if_pos hc]
    cases hg : Dict.get? d (getattrV st.heap cell a) with
    | none => exact ⟨Frame.refl _ _, hev, fun _ _ _ => rfl⟩
    | some src =>
      simp only
      cases hd : deepcopyInto st.heap src cell with
      | none => exact ⟨Frame.refl _ _, hev, fun _ _ _ => rfl⟩
      | some c =>
        simp only
        obtain ⟨ci, cnd, rfl, hci⟩ := getattrV_ne_none hc.1
        obtain ⟨x, order, rfl, s⟩ := deepcopyInto_spec hd
        have hext : Ext st.heap c.heap := ⟨_, s.heap_eq⟩
        have hcin0 : ci < n0 := hC ci hcell
        have hag : ∀ y, n0 ≤ y → y < c.heap.length →
            (setattr (setattr c.heap ci e (Val.ref c.root)) ci a Val.none)[y]? = c.heap[y]? := by
          intro y h1 _
          have hne : y ≠ ci := by omega
          rw [setattr_get_ne _ _ _ _ hne, setattr_get_ne _ _ _ _ hne]
        have hlen : (setattr (setattr c.heap ci e (Val.ref c.root)) ci a Val.none).length = c.heap.length := by
          rw [setattr_length, setattr_length]
        simp only [setattrV_ref]
        refine ⟨?_, ?_, ?_⟩
        · exact (Frame.of_ext C hext).trans ((Frame.setattr C c.heap hcell he _).trans (Frame.setattr C _ hcell ha _))
        · have hold : EventsOK n0 (setattr (setattr c.heap ci e (Val.ref c.root)) ci a Val.none) st.copies := by
            apply hev.mono
            · rw [hlen]; exact hext.len
            · intro y h1 h2
              rw [hag y h1 (Nat.lt_of_lt_of_le h2 hext.len), hext.get h2]
          refine ⟨?_, ?_, ?_⟩
          · intro ev hev'
            simp only [mem_append, mem_singleton] at hev'
            rcases hev' with hev' | rfl
            · exact hold.range ev hev'
            · exact ⟨hn0, hext.len, by rw [hlen]; exact Nat.le_refl _⟩
          · rw [List.pairwise_append]
            refine ⟨hold.sorted, by simp, ?_⟩
            intro ev1 h1 ev2 h2
            simp only [mem_singleton] at h2
            subst h2
            exact (hev.range ev1 h1).2.2
          · intro ev hev'
            simp only [mem_append, mem_singleton] at hev'
            rcases hev' with hev' | rfl
            · exact hold.closed ev hev'
            · intro y h1 h2 nd hnd r hr
              simp only at h1 h2
              rw [hag y (Nat.le_trans hn0 h1) h2] at hnd
              rcases s.new_refs h1 hnd hr with ⟨r1, r2⟩ | ⟨a', ha'⟩
              · exact Or.inl ⟨r1, r2⟩
              · exact Or.inr (toMemo_get ha')
        · intro y h1 h2
          rw [hag y h1 (Nat.lt_of_lt_of_le h2 hext.len), hext.get h2]
  · rw [if_neg hc]
    exact ⟨Frame.refl _ _, hev, fun _ _ _ => rfl⟩

/-! ### loops -/

theorem forEachE_inv {α σ : Type} (P : σ → Prop) (body : α → σ → σ × Option Err) (items : List α)
    (hstep : ∀ x ∈ items, ∀ s, P s → P (body x s).1) (s : σ) (hs : P s) : P (forEachE body items s).1 := by
  induction items generalizing s with
  | nil => exact hs
  | cons x xs ih =>
    simp only [forEachE]
    have h1 := hstep x (by simp) s hs
    cases hb : body x s with
    | mk s1 o1 =>
      rw [hb] at h1
      cases o1 with
      | none => exact ih (fun y hy => hstep y (mem_cons_of_mem _ hy)) s1 h1
      | some e => exact h1

/-- what holds of the state all along the substitution loop -/
structure LoopInv (C : List Val) (h0 : Heap) (st : St) : Prop where
  frame : Frame C h0 st.heap
  events : EventsOK h0.length st.heap st.copies

theorem fixSlot_inv (d : Dict) (cell : Val) (a e : String) (st : St) (C : List Val) (h0 : Heap)
    (hcell : cell ∈ C) (hC : ∀ i, Val.ref i ∈ C → i < h0.length) (ha : a ∈ FourNames) (he : e ∈ FourNames)
    (inv : LoopInv C h0 st) : LoopInv C h0 (fixSlot d cell a e st).1 := by
  have := fixSlot_spec d cell a e st h0.length C hcell hC inv.frame.len ha he inv.events
  exact ⟨inv.frame.trans this.1, this.2.1⟩

theorem fixCell_inv (em eb : Dict) (cell : Val) (st : St) (C : List Val) (h0 : Heap)
    (hcell : cell ∈ C) (hC : ∀ i, Val.ref i ∈ C → i < h0.length) (inv : LoopInv C h0 st) :
    LoopInv C h0 (fixCell em eb cell st).1 := by
  unfold fixCell
  have h1 := fixSlot_inv em cell MA ME st C h0 hcell hC (by simp [FourNames]) (by simp [FourNames]) inv
  cases hs : fixSlot em cell MA ME st with
  | mk st1 o1 =>
    rw [hs] at h1
    cases o1 with
    | none => exact fixSlot_inv eb cell BA BE st1 C h0 hcell hC (by simp [FourNames]) (by simp [FourNames]) h1
    | some e => exact h1

theorem fixLoop_inv (em eb : Dict) (C : List Val) (h0 : Heap) (hC : ∀ i, Val.ref i ∈ C → i < h0.length) :
    LoopInv C h0 (forEachE (fixCell em eb) C ⟨h0, []⟩).1 :=
  forEachE_inv (LoopInv C h0) (fixCell em eb) C
    (fun cell hcell st inv => fixCell_inv em eb cell st C h0 hcell hC inv) ⟨h0, []⟩
    ⟨Frame.refl _ _, EventsOK.nil _ _⟩

/-- the loop over the includes only allocates -/
theorem includeStep_ext (files : Files) (refs : List Val) (inc : Val) (t : Tables) :
    Ext t.heap (includeStep files refs inc t).1.heap := by
  unfold includeStep
  cases getattrV t.heap inc "href" with
  | prim s =>
    simp only
    cases files s with
    | none => exact Ext.refl _
    | some tmpl => exact ext_loadTemplate _ _
  | none => exact Ext.refl _
  | ref r => exact Ext.refl _

theorem includeLoop_ext (files : Files) (refs : List Val) (items : List Val) (t : Tables) :
    Ext t.heap (forEachE (includeStep files refs) items t).1.heap := by
  have := forEachE_inv (fun t' : Tables => Ext t.heap t'.heap) (includeStep files refs) items
    (fun x _ s hs => hs.trans (includeStep_ext files refs x s)) t (Ext.refl _)
  exact this

/-! ### the cells the function visits are objects of the heap -/

theorem lookupField_ref_mem {fs : List (String × Val)} {f : String} {l : Nat} (h : lookupField fs f = Val.ref l) :
    ∃ k, (k, Val.ref l) ∈ fs := by
  induction fs with
  | nil => simp [lookupField] at h
  | cons kv rest ih =>
    obtain ⟨k, v⟩ := kv
    simp only [lookupField] at h
    by_cases hk : k = f
    · simp only [hk, ↓reduceIte] at h
      exact ⟨k, by simp [h]⟩
    · simp only [hk, ↓reduceIte] at h
      obtain ⟨k', hk'⟩ := ih h
      exact ⟨k', mem_cons_of_mem _ hk'⟩

/-- on a heap without dangling references, for a document that is an object of it: the members of the list `doc.<f>`
    are objects of the heap -/
theorem items_range_of_wf {h : Heap} (hwf : WF h) {d : Nat} (hd : d < h.length) (f : String) :
    ∀ i, Val.ref i ∈ listItems h (getattrV h (Val.ref d) f) → i < h.length := by
  have hdn : ∃ nd, h[d]? = some nd := ⟨h[d], List.getElem?_eq_getElem hd⟩
  obtain ⟨nd, hnd⟩ := hdn
  intro i hi
  cases hl : getattr h d f with
  | ref l =>
    simp only [getattrV, hl, listItems] at hi
    cases hln : h[l]? with
    | none => simp [hln] at hi
    | some lnd =>
      simp only [hln, mem_map] at hi
      obtain ⟨kv, hkv, he⟩ := hi
      obtain ⟨k2, v2⟩ := kv
      simp only at he
      subst he
      exact hwf lnd (List.mem_of_getElem? hln) i (mem_refs_iff.mpr ⟨k2, hkv⟩)
  | none => simp [getattrV, hl, listItems] at hi
  | prim s => simp [getattrV, hl, listItems] at hi

theorem allCells_range_of_wf {h : Heap} (hwf : WF h) {d : Nat} (hd : d < h.length) :
    ∀ i, Val.ref i ∈ allCells h (Val.ref d) → i < h.length := by
  intro i hi
  simp only [allCells, mem_append] at hi
  rcases hi with hi | hi
  · exact items_range_of_wf hwf hd "cells" i hi
  · exact items_range_of_wf hwf hd "cell2_ca_poolses" i hi

theorem _root_.NmlVerif.PyHeap.CopySpec.values_new {h : Heap} {x : Nat} {c : Copied} {order : List Nat} (s : CopySpec h [] x c order)
    {a y : Nat} (hg : Memo.get? c.memo a = some y) : h.length ≤ y ∧ y < c.heap.length ∧ a ∈ order := by
  rcases s.memo_values hg with r | ⟨_, h0⟩
  · exact r
  · simp [Memo.get?] at h0

/-- the members of a list of a freshly copied document are new objects -/
theorem copy_items_new {h : Heap} {x : Nat} {c : Copied} {order : List Nat} (s : CopySpec h [] x c order) (f : String) :
    ∀ i, Val.ref i ∈ listItems c.heap (getattrV c.heap (Val.ref c.root) f) → h.length ≤ i ∧ i < c.heap.length := by
  have hroot := s.root
  obtain ⟨r1, r2, hx⟩ := s.values_new hroot
  obtain ⟨k, nd, _, hg, hnd, hcp, _⟩ := s.copy_of hx
  rw [hroot] at hg
  simp only [Option.some.injEq] at hg
  have hrootnode : c.heap[c.root]? = some (mapNode c.memo nd) := by rw [hg]; exact hcp
  have hattr : getattr c.heap c.root f = mapVal c.memo (lookupField nd.fields f) := by
    simp only [getattr, hrootnode, lookupField_mapNode]
  cases hl : lookupField nd.fields f with
  | ref l =>
    obtain ⟨kf, hkf⟩ := lookupField_ref_mem hl
    obtain ⟨y, hy⟩ := s.closed x hx nd hnd l (mem_refs_iff.mpr ⟨kf, hkf⟩)
    obtain ⟨y1, y2, hlo⟩ := s.values_new hy
    obtain ⟨k2, lnd, _, hg2, hlnd, hcp2, _⟩ := s.copy_of hlo
    rw [hy] at hg2
    simp only [Option.some.injEq] at hg2
    have hynode : c.heap[y]? = some (mapNode c.memo lnd) := by rw [hg2]; exact hcp2
    have hattr' : getattr c.heap c.root f = Val.ref y := by rw [hattr, hl]; simp [mapVal, hy]
    intro i hi
    simp only [getattrV, hattr', listItems, hynode, mapNode, List.map_map, mem_map, Function.comp] at hi
    obtain ⟨kv, hkv, he⟩ := hi
    obtain ⟨k3, v3⟩ := kv
    simp only at he
    cases v3 with
    | ref r3 =>
      obtain ⟨y3, hy3⟩ := s.closed l hlo lnd hlnd r3 (mem_refs_iff.mpr ⟨k3, hkv⟩)
      simp only [mapVal, hy3, Val.ref.injEq] at he
      subst he
      obtain ⟨z1, z2, _⟩ := s.values_new hy3
      exact ⟨z1, z2⟩
    | none => simp [mapVal] at he
    | prim t => simp [mapVal] at he
  | none =>
    have : getattr c.heap c.root f = Val.none := by rw [hattr, hl]; rfl
    intro i hi; simp [getattrV, this, listItems] at hi
  | prim t =>
    have : getattr c.heap c.root f = Val.prim t := by rw [hattr, hl]; rfl
    intro i hi; simp [getattrV, this, listItems] at hi

/-- the cells (both lists) of a freshly copied document are new objects -/
theorem copy_allCells_new {h : Heap} {x : Nat} {c : Copied} {order : List Nat} (s : CopySpec h [] x c order) :
    ∀ i, Val.ref i ∈ allCells c.heap (Val.ref c.root) → h.length ≤ i ∧ i < c.heap.length := by
  intro i hi
  simp only [allCells, mem_append] at hi
  rcases hi with hi | hi
  · exact copy_items_new s "cells" i hi
  · exact copy_items_new s "cell2_ca_poolses" i hi

/-- the function body on a document whose cells (`all_cells`, read when the call starts) are objects of the heap: a
    heap `hs` (after the includes were read) extends `h`; from there on only cells are assigned to, and the copies are
    as `EventsOK` says -/
theorem fixInPlace_spec (files : Files) (h : Heap) (newdoc : Val)
    (hr : ∀ i, Val.ref i ∈ allCells h newdoc → i < h.length) :
    ∃ hs, Ext h hs ∧ Frame (allCells h newdoc) hs (fixInPlace files h newdoc).heap ∧
      EventsOK hs.length (fixInPlace files h newdoc).heap (fixInPlace files h newdoc).copies := by
  unfold fixInPlace
  simp only
  have hext := includeLoop_ext files (referencedIds h (allCells h newdoc))
    (listItems h (getattrV h newdoc "includes")) ⟨[], [], h⟩
  cases hf : forEachE (includeStep files (referencedIds h (allCells h newdoc)))
      (listItems h (getattrV h newdoc "includes")) ⟨[], [], h⟩ with
  | mk t o =>
    rw [hf] at hext
    simp only at hext
    cases o with
    | some e => exact ⟨t.heap, hext, Frame.refl _ _, EventsOK.nil _ _⟩
    | none =>
      simp only
      have hC : ∀ i, Val.ref i ∈ allCells h newdoc → i < t.heap.length :=
        fun i hi => Nat.lt_of_lt_of_le (hr i hi) hext.len
      have inv := fixLoop_inv
        (addDefs t.heap (referencedIds h (allCells h newdoc)) t.em
          (listItems t.heap (getattrV t.heap newdoc "morphology")))
        (addDefs t.heap (referencedIds h (allCells h newdoc)) t.eb
          (listItems t.heap (getattrV t.heap newdoc "biophysical_properties")))
        (allCells h newdoc) t.heap hC
      refine ⟨t.heap, hext, ?_⟩
      split
      · next st heq => rw [heq] at inv; exact ⟨inv.frame, inv.events⟩
      · next st e heq => rw [heq] at inv; exact ⟨inv.frame, inv.events⟩

end NmlVerif.FixExternalH
