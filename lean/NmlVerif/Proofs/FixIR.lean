import NmlVerif.Model.FixIR
set_option linter.unusedSimpArgs false
/-!
The reference programs `Hand.fix` / `Hand.deepcopyInto` (the translation of the two functions of C17 as it is expected,
in named pieces) and the proof that running `Hand.fix` is the hand model `FixExternalH.fixExternal`
(`hand_fix_run`).  `Props/C17Gen.lean` proves that the generated program IS `Hand.fix`.  Core Lean only.
-/
namespace NmlVerif.FixIR
open NmlVerif.PyHeap NmlVerif.FixExternalH

namespace Hand

/-- `_deepcopy_into` -/
def deepcopyInto : Stmt :=
  S.block [
    S.assign V.memo P.emptyDict,
    S.assign V.old_parent (P.attr (P.var V.element) "parent_object_"),
    S.ite (P.isNotNone (P.var V.old_parent)) (S.block [
      S.setitem V.memo (P.idOf (P.var V.old_parent)) (P.var V.new_parent)
    ]) (S.skip),
    S.retE (E.deepcopy2 (P.var V.element) (P.var V.memo))
  ]

/-- `newdoc = copy.deepcopy(nml2_doc) if overwrite is False else nml2_doc` -/
def chooseDoc : Stmt :=
  S.ite (P.isFalse (P.var V.overwrite)) (S.block [
    S.assignE V.newdoc (E.deepcopy1 (P.var V.nml2_doc))
  ]) (S.block [
    S.assign V.newdoc (P.var V.nml2_doc)
  ])

/-- one (attribute, element) pair in the loop that collects `referenced_ids` -/
def collectSlot (a e : String) : Stmt :=
  S.ite (P.isNotNone (P.attr (P.var V.cell) a)) (S.block [
    S.ite (P.isNone (P.attr (P.var V.cell) e)) (S.block [
      S.append V.referenced_ids (P.attr (P.var V.cell) a)
    ]) (S.block [
      S.log,
      S.log
    ])
  ]) (S.skip)

def collectBody : Stmt := S.block [collectSlot MA ME, collectSlot BA BE]

def collectLoop : Stmt := S.forEach V.cell (P.var V.all_cells) collectBody

/-- `if x.id in referenced_ids: d[x.id] = x` -/
def defBody (x : Var Val) (d : Var Dict) : Stmt :=
  S.block [
    S.ite (P.inList (P.attr (P.var x) "id") (P.var V.referenced_ids)) (S.block [
      S.setitem d (P.attr (P.var x) "id") (P.var x)
    ]) (S.skip)
  ]

def defLoop (x : Var Val) (d : Var Dict) (owner : Var Val) (lst : String) : Stmt :=
  S.forEach x (P.iter (P.attr (P.var owner) lst)) (defBody x d)

def includeBody (files : Files) : Stmt :=
  S.block [
    S.assignE V.incdoc (E.readFile files (P.attr (P.var V.inc) "href")),
    defLoop V.morph V.ext_morphs V.incdoc "morphology",
    defLoop V.biophys V.ext_biophys V.incdoc "biophysical_properties"
  ]

def includeLoop (files : Files) : Stmt :=
  S.forEach V.inc (P.iter (P.attr (P.var V.newdoc) "includes")) (includeBody files)

/-- one (attribute, element) pair in the substitution loop -/
def fixSlot (d : Var Dict) (a e : String) : Stmt :=
  S.ite (P.and (P.isNotNone (P.attr (P.var V.cell) a)) (P.isNone (P.attr (P.var V.cell) e))) (S.block [
    S.tryKeyError (S.block [
      S.setattrE (P.var V.cell) e (E.callDeepcopyInto deepcopyInto (E.subscript (P.var d) (P.attr (P.var V.cell) a)) (P.var V.cell)),
      S.setattr (P.var V.cell) a P.none
    ]) V.e (S.block [
      S.log,
      S.raiseVar V.e
    ])
  ]) (S.skip)

def fixBody : Stmt := S.block [fixSlot V.ext_morphs MA ME, fixSlot V.ext_biophys BA BE]

def fixLoop : Stmt := S.forEach V.cell (P.var V.all_cells) fixBody

/-- `fix_external_morphs_biophys_in_cell` -/
def fix (files : Files) : Stmt :=
  S.block [
    chooseDoc,
    S.assign V.all_cells (P.concatItems (P.attr (P.var V.newdoc) "cells") (P.attr (P.var V.newdoc) "cell2_ca_poolses")),
    S.assign V.referenced_ids P.emptyList,
    collectLoop,
    S.assign V.ext_morphs P.emptyDict,
    S.assign V.ext_biophys P.emptyDict,
    includeLoop files,
    defLoop V.morph V.ext_morphs V.newdoc "morphology",
    defLoop V.biophys V.ext_biophys V.newdoc "biophysical_properties",
    fixLoop,
    S.ret (P.var V.newdoc)
  ]

end Hand

/-! ### what the pieces compute -/

theorem S.ite_eq (c : PEx Bool) (t e : Stmt) (σ : Sig) : S.ite c t e σ = if c σ = true then t σ else e σ := rfl
theorem S.block_nil : S.block [] = S.skip := rfl
theorem S.block_cons (s : Stmt) (ss : List Stmt) : S.block (s :: ss) = S.seq s (S.block ss) := rfl

/-- the callee: `_deepcopy_into` on fresh locals -/
theorem deepcopyInto_run (σ : Sig) (av bv : Val) :
    Hand.deepcopyInto { σ with loc := { element := av, new_parent := bv } } =
      match FixExternalH.deepcopyInto σ.heap av bv with
      | some c => .ret (.ref c.root)
          { σ with heap := c.heap,
                   loc := { element := av, new_parent := bv,
                            old_parent := getattrV σ.heap av "parent_object_",
                            memo := if getattrV σ.heap av "parent_object_" ≠ .none
                                    then [(getattrV σ.heap av "parent_object_", bv)] else [] } }
      | none => .raise .stuck
          { σ with loc := { element := av, new_parent := bv,
                            old_parent := getattrV σ.heap av "parent_object_",
                            memo := if getattrV σ.heap av "parent_object_" ≠ .none
                                    then [(getattrV σ.heap av "parent_object_", bv)] else [] } } := by
  cases av with
  | ref x =>
    simp only [Hand.deepcopyInto, S.block, S.seq, S.assign, S.ite, S.setitem, S.retE, S.skip, E.deepcopy2,
      P.emptyDict, P.attr, P.var, P.isNotNone, P.idOf, V.memo, V.old_parent, V.element, V.new_parent,
      FixExternalH.deepcopyInto, getattrV]
    by_cases hp : getattr σ.heap x "parent_object_" = Val.none
    · simp only [hp, ne_eq, not_true_eq_false, decide_false, Bool.false_eq_true, ↓reduceIte]
      cases hd : deepcopy σ.heap (toMemo []) x <;> simp
    · simp only [ne_eq, hp, not_false_eq_true, decide_true, ↓reduceIte]
      cases hd : deepcopy σ.heap (toMemo [(getattr σ.heap x "parent_object_", bv)]) x <;> simp
  | none =>
    simp [Hand.deepcopyInto, S.block, S.seq, S.assign, S.ite, S.setitem, S.retE, S.skip, E.deepcopy2,
      P.emptyDict, P.attr, P.var, P.isNotNone, P.idOf, V.memo, V.old_parent, V.element, V.new_parent,
      FixExternalH.deepcopyInto, getattrV]
  | prim t =>
    simp [Hand.deepcopyInto, S.block, S.seq, S.assign, S.ite, S.setitem, S.retE, S.skip, E.deepcopy2,
      P.emptyDict, P.attr, P.var, P.isNotNone, P.idOf, V.memo, V.old_parent, V.element, V.new_parent,
      FixExternalH.deepcopyInto, getattrV]

/-- the call `_deepcopy_into(a, b)` -/
theorem callDCI_run (a : Ex Val) (b : PEx Val) (σ : Sig) :
    E.callDeepcopyInto Hand.deepcopyInto a b σ =
      match a σ with
      | .raise e σ' => .raise e σ'
      | .ok av σ1 =>
        match FixExternalH.deepcopyInto σ1.heap av (b σ1) with
        | some c => .ok (.ref c.root)
            { σ1 with heap := c.heap, copies := σ1.copies ++ [⟨b σ1, av, c.root, σ1.heap.length, c.heap.length⟩] }
        | none => .raise .stuck σ1 := by
  unfold E.callDeepcopyInto
  cases ha : a σ with
  | raise e σ' => rfl
  | ok av σ1 =>
    simp only
    rw [deepcopyInto_run σ1 av (b σ1)]
    cases hd : FixExternalH.deepcopyInto σ1.heap av (b σ1) <;> simp

/-- one slot of the substitution loop is `FixExternalH.fixSlot` -/
theorem fixSlot_run (d : Var Dict) (a e : String) (σ : Sig) :
    Hand.fixSlot d a e σ =
      match FixExternalH.fixSlot (d.get σ.loc) σ.loc.cell a e ⟨σ.heap, σ.copies⟩ with
      | (st, none) => .normal { σ with heap := st.heap, copies := st.copies }
      | (st, some (.keyError k)) =>
        .raise (.keyError k) { σ with heap := st.heap, copies := st.copies, loc := V.e.set (some (.keyError k)) σ.loc }
      | (st, some er) => .raise er { σ with heap := st.heap, copies := st.copies } := by
  unfold Hand.fixSlot
  rw [S.ite_eq]
  have hcv : (P.and (P.isNotNone (P.attr (P.var V.cell) a)) (P.isNone (P.attr (P.var V.cell) e))) σ =
      (decide (getattrV σ.heap σ.loc.cell a ≠ Val.none) && decide (getattrV σ.heap σ.loc.cell e = Val.none)) := rfl
  rw [hcv]
  by_cases hc : getattrV σ.heap σ.loc.cell a ≠ Val.none ∧ getattrV σ.heap σ.loc.cell e = Val.none
  · have h1 : (decide (getattrV σ.heap σ.loc.cell a ≠ Val.none) && decide (getattrV σ.heap σ.loc.cell e = Val.none)) = true := by
      simp [hc.1, hc.2]
    rw [h1]
    simp only [↓reduceIte, FixExternalH.fixSlot, hc, and_self]
    simp only [S.block, S.seq, S.tryKeyError, S.setattrE, S.setattr, S.skip, S.log, S.raiseVar]
    rw [callDCI_run]
    simp only [E.subscript, P.var, P.attr, V.cell]
    have hc1 := hc.1
    cases hg : Dict.get? (d.get σ.loc) (getattrV σ.heap σ.loc.cell a) with
    | none => simp [V.e, hc1]
    | some src =>
      simp only
      cases hd : FixExternalH.deepcopyInto σ.heap src σ.loc.cell with
      | none => simp [hc1]
      | some c => simp [P.none, hc1]
  · have h1 : (decide (getattrV σ.heap σ.loc.cell a ≠ Val.none) && decide (getattrV σ.heap σ.loc.cell e = Val.none)) = false := by
      rw [Bool.and_eq_false_iff]
      by_cases h2 : getattrV σ.heap σ.loc.cell a ≠ Val.none
      · right; simp only [decide_eq_false_iff_not]; exact fun h3 => hc ⟨h2, h3⟩
      · left; simp only [decide_eq_false_iff_not]; exact h2
    rw [h1]
    simp only [Bool.false_eq_true, ↓reduceIte, FixExternalH.fixSlot, hc, S.skip]

/-! ### loops: simulation of `S.forItems` by the loops of the hand model -/

/-- a loop whose body may raise, against `forEachE` -/
theorem forItems_sim {β : Type} (R : Sig → β → Prop) (x : Var Val) (body : Stmt) (bodyH : Val → β → β × Option Err)
    (hstep : ∀ v σ s, R σ s →
      (∀ s', bodyH v s = (s', none) → ∃ σ', body { σ with loc := x.set v σ.loc } = .normal σ' ∧ R σ' s') ∧
      (∀ s' e, bodyH v s = (s', some e) → ∃ σ', body { σ with loc := x.set v σ.loc } = .raise e σ' ∧ R σ' s')) :
    ∀ items σ s, R σ s →
      (∀ s', forEachE bodyH items s = (s', none) → ∃ σ', S.forItems x body items σ = .normal σ' ∧ R σ' s') ∧
      (∀ s' e, forEachE bodyH items s = (s', some e) → ∃ σ', S.forItems x body items σ = .raise e σ' ∧ R σ' s') := by
  intro items
  induction items with
  | nil =>
    intro σ s hR
    constructor
    · intro s' h; simp only [forEachE, Prod.mk.injEq, and_true] at h; subst h; exact ⟨σ, rfl, hR⟩
    · intro s' e h; simp [forEachE] at h
  | cons v vs ih =>
    intro σ s hR
    have hs := hstep v σ s hR
    cases hb : bodyH v s with
    | mk s1 o1 =>
      cases o1 with
      | none =>
        obtain ⟨σ1, hσ1, hR1⟩ := hs.1 s1 hb
        have ih1 := ih σ1 s1 hR1
        constructor
        · intro s' h
          simp only [forEachE, hb] at h
          obtain ⟨σ', h1, h2⟩ := ih1.1 s' h
          exact ⟨σ', by simp only [S.forItems, hσ1, h1], h2⟩
        · intro s' e h
          simp only [forEachE, hb] at h
          obtain ⟨σ', h1, h2⟩ := ih1.2 s' e h
          exact ⟨σ', by simp only [S.forItems, hσ1, h1], h2⟩
      | some e1 =>
        obtain ⟨σ1, hσ1, hR1⟩ := hs.2 s1 e1 hb
        constructor
        · intro s' h; simp [forEachE, hb] at h
        · intro s' e h
          simp only [forEachE, hb, Prod.mk.injEq, Option.some.injEq] at h
          obtain ⟨rfl, rfl⟩ := h
          exact ⟨σ1, by simp only [S.forItems, hσ1], hR1⟩

/-- a loop whose body cannot raise, against a fold -/
theorem forItems_sim_fold {β : Type} (R : Sig → β → Prop) (x : Var Val) (body : Stmt) (stepH : β → Val → β)
    (hstep : ∀ v σ s, R σ s → ∃ σ', body { σ with loc := x.set v σ.loc } = .normal σ' ∧ R σ' (stepH s v)) :
    ∀ items σ s, R σ s → ∃ σ', S.forItems x body items σ = .normal σ' ∧ R σ' (items.foldl stepH s) := by
  intro items
  induction items with
  | nil => intro σ s hR; exact ⟨σ, rfl, hR⟩
  | cons v vs ih =>
    intro σ s hR
    obtain ⟨σ1, h1, hR1⟩ := hstep v σ s hR
    obtain ⟨σ', h2, hR2⟩ := ih σ1 (stepH s v) hR1
    exact ⟨σ', by simp only [S.forItems, h1, h2], by simpa using hR2⟩

theorem foldl_append_flatMap {α β : Type} (f : α → List β) (l : List α) (init : List β) :
    l.foldl (fun acc c => acc ++ f c) init = init ++ l.flatMap f := by
  induction l generalizing init with
  | nil => simp
  | cons a as ih => simp [ih, List.append_assoc]

/-! ### the part of the state the hand model talks about -/

structure Core where
  heap : Heap
  copies : List CopyEv
  docCopy : Nat
  newdoc : Val
  refs : List Val
  em : Dict
  eb : Dict
  incdoc : Val
  allCells : List Val

def coreOf (σ : Sig) : Core :=
  ⟨σ.heap, σ.copies, σ.docCopy, σ.loc.newdoc, σ.loc.referenced_ids, σ.loc.ext_morphs, σ.loc.ext_biophys, σ.loc.incdoc,
    σ.loc.all_cells⟩

/-! ### collecting `referenced_ids` -/

theorem collectSlot_run (a e : String) (σ : Sig) :
    Hand.collectSlot a e σ =
      .normal { σ with loc := V.referenced_ids.set (σ.loc.referenced_ids ++ slotRefs σ.heap σ.loc.cell a e) σ.loc } := by
  unfold Hand.collectSlot slotRefs
  simp only [S.ite_eq, P.isNotNone, P.isNone, P.attr, P.var, V.cell, S.block, S.seq, S.append, S.log, S.skip,
    V.referenced_ids]
  by_cases h1 : getattrV σ.heap σ.loc.cell a = Val.none
  · simp [h1]
  · by_cases h2 : getattrV σ.heap σ.loc.cell e = Val.none
    · simp [h1, h2]
    · simp [h1, h2]

theorem collectLoop_run (σ : Sig) :
    ∃ σ', Hand.collectLoop σ = .normal σ' ∧
      coreOf σ' = ⟨σ.heap, σ.copies, σ.docCopy, σ.loc.newdoc, σ.loc.referenced_ids ++
        referencedIds σ.heap σ.loc.all_cells, σ.loc.ext_morphs, σ.loc.ext_biophys,
        σ.loc.incdoc, σ.loc.all_cells⟩ := by
  have h := forItems_sim_fold (fun σ s => coreOf σ = s) V.cell Hand.collectBody
    (fun s c => { s with refs := s.refs ++ (slotRefs s.heap c MA ME ++ slotRefs s.heap c BA BE) })
    (by
      intro v σ s hR
      subst hR
      simp only [Hand.collectBody, S.block, S.seq, collectSlot_run, S.skip]
      exact ⟨_, rfl, by simp [coreOf, V.referenced_ids, V.cell, List.append_assoc]⟩)
    σ.loc.all_cells σ (coreOf σ) rfl
  obtain ⟨σ', h1, h2⟩ := h
  refine ⟨σ', h1, ?_⟩
  rw [h2]
  have : ∀ (items : List Val) (s : Core),
      items.foldl (fun s c => { s with refs := s.refs ++ (slotRefs s.heap c MA ME ++ slotRefs s.heap c BA BE) }) s =
        { s with refs := s.refs ++ referencedIds s.heap items } := by
    intro items
    induction items with
    | nil => intro s; simp [referencedIds]
    | cons c cs ih => intro s; simp [ih, referencedIds, List.append_assoc]
  rw [this]
  rfl

/-! ### filling the dictionaries -/

theorem addDefs_fold (items : List Val) (s : Core) :
    items.foldl (fun s e => { s with em := if getattrV s.heap e "id" ∈ s.refs then (getattrV s.heap e "id", e) :: s.em else s.em }) s =
      { s with em := addDefs s.heap s.refs s.em items } := by
  induction items generalizing s with
  | nil => simp [addDefs]
  | cons e es ih =>
    simp only [List.foldl_cons]
    rw [ih]
    simp [addDefs]

theorem addDefs_fold_b (items : List Val) (s : Core) :
    items.foldl (fun s e => { s with eb := if getattrV s.heap e "id" ∈ s.refs then (getattrV s.heap e "id", e) :: s.eb else s.eb }) s =
      { s with eb := addDefs s.heap s.refs s.eb items } := by
  induction items generalizing s with
  | nil => simp [addDefs]
  | cons e es ih =>
    simp only [List.foldl_cons]
    rw [ih]
    simp [addDefs]

/-- `for morph in <owner>.<lst>: if morph.id in referenced_ids: ext_morphs[morph.id] = morph` -/
theorem defLoopM_run (owner : Var Val) (lst : String) (σ : Sig) :
    ∃ σ', Hand.defLoop V.morph V.ext_morphs owner lst σ = .normal σ' ∧
      coreOf σ' = ⟨σ.heap, σ.copies, σ.docCopy, σ.loc.newdoc, σ.loc.referenced_ids,
        addDefs σ.heap σ.loc.referenced_ids σ.loc.ext_morphs (listItems σ.heap (getattrV σ.heap (owner.get σ.loc) lst)),
        σ.loc.ext_biophys, σ.loc.incdoc, σ.loc.all_cells⟩ := by
  have h := forItems_sim_fold (fun σ s => coreOf σ = s) V.morph (Hand.defBody V.morph V.ext_morphs)
    (fun s e => { s with em := if getattrV s.heap e "id" ∈ s.refs then (getattrV s.heap e "id", e) :: s.em else s.em })
    (by
      intro v σ s hR
      subst hR
      simp only [Hand.defBody, S.block, S.seq, S.ite_eq, S.setitem, S.skip, P.inList, P.attr, P.var, V.morph,
        V.referenced_ids, V.ext_morphs]
      by_cases hm : getattrV σ.heap v "id" ∈ σ.loc.referenced_ids
      · simp only [hm, decide_true, ↓reduceIte]
        exact ⟨_, rfl, by simp [coreOf, hm]⟩
      · simp only [hm, decide_false, Bool.false_eq_true, ↓reduceIte]
        exact ⟨_, rfl, by simp [coreOf, hm]⟩)
    (listItems σ.heap (getattrV σ.heap (owner.get σ.loc) lst)) σ (coreOf σ) rfl
  obtain ⟨σ', h1, h2⟩ := h
  refine ⟨σ', h1, ?_⟩
  rw [h2, addDefs_fold]
  rfl

theorem defLoopB_run (owner : Var Val) (lst : String) (σ : Sig) :
    ∃ σ', Hand.defLoop V.biophys V.ext_biophys owner lst σ = .normal σ' ∧
      coreOf σ' = ⟨σ.heap, σ.copies, σ.docCopy, σ.loc.newdoc, σ.loc.referenced_ids, σ.loc.ext_morphs,
        addDefs σ.heap σ.loc.referenced_ids σ.loc.ext_biophys (listItems σ.heap (getattrV σ.heap (owner.get σ.loc) lst)),
        σ.loc.incdoc, σ.loc.all_cells⟩ := by
  have h := forItems_sim_fold (fun σ s => coreOf σ = s) V.biophys (Hand.defBody V.biophys V.ext_biophys)
    (fun s e => { s with eb := if getattrV s.heap e "id" ∈ s.refs then (getattrV s.heap e "id", e) :: s.eb else s.eb })
    (by
      intro v σ s hR
      subst hR
      simp only [Hand.defBody, S.block, S.seq, S.ite_eq, S.setitem, S.skip, P.inList, P.attr, P.var, V.biophys,
        V.referenced_ids, V.ext_biophys]
      by_cases hm : getattrV σ.heap v "id" ∈ σ.loc.referenced_ids
      · simp only [hm, decide_true, ↓reduceIte]
        exact ⟨_, rfl, by simp [coreOf, hm]⟩
      · simp only [hm, decide_false, Bool.false_eq_true, ↓reduceIte]
        exact ⟨_, rfl, by simp [coreOf, hm]⟩)
    (listItems σ.heap (getattrV σ.heap (owner.get σ.loc) lst)) σ (coreOf σ) rfl
  obtain ⟨σ', h1, h2⟩ := h
  refine ⟨σ', h1, ?_⟩
  rw [h2, addDefs_fold_b]
  rfl

/-! ### the loop over the includes -/

theorem includeBody_step (files : Files) (cp : List CopyEv) (dc : Nat) (nd : Val) (refs : List Val) (ac : List Val)
    (v : Val) (σ : Sig) (t : Tables) (hR : ∃ i, coreOf σ = ⟨t.heap, cp, dc, nd, refs, t.em, t.eb, i, ac⟩) :
    (∀ t', includeStep files refs v t = (t', none) →
      ∃ σ', Hand.includeBody files { σ with loc := V.inc.set v σ.loc } = .normal σ' ∧
        ∃ i, coreOf σ' = ⟨t'.heap, cp, dc, nd, refs, t'.em, t'.eb, i, ac⟩) ∧
    (∀ t' e, includeStep files refs v t = (t', some e) →
      ∃ σ', Hand.includeBody files { σ with loc := V.inc.set v σ.loc } = .raise e σ' ∧
        ∃ i, coreOf σ' = ⟨t'.heap, cp, dc, nd, refs, t'.em, t'.eb, i, ac⟩) := by
  obtain ⟨i0, hR⟩ := hR
  simp only [coreOf, Core.mk.injEq] at hR
  obtain ⟨h1, h2, h3, h4, h5, h6, h7, _, h9⟩ := hR
  unfold includeStep
  simp only [Hand.includeBody, S.block, S.seq, S.assignE, E.readFile, P.attr, P.var, V.inc, S.skip]
  rw [h1]
  cases hh : getattrV t.heap v "href" with
  | prim sname =>
    simp only
    cases hf : files sname with
    | none =>
      simp only
      constructor
      · intro t' h; simp at h
      · intro t' e h
        simp only [Prod.mk.injEq, Option.some.injEq] at h
        obtain ⟨rfl, rfl⟩ := h
        exact ⟨_, rfl, σ.loc.incdoc, by simp [coreOf, h1, h2, h3, h4, h5, h6, h7, h9]⟩
    | some tmpl =>
      simp only
      obtain ⟨σ4, e4, c4⟩ := defLoopM_run V.incdoc "morphology"
        { σ with heap := (loadTemplate t.heap tmpl).1, loc := V.incdoc.set (loadTemplate t.heap tmpl).2 (V.inc.set v σ.loc) }
      obtain ⟨σ5, e5, c5⟩ := defLoopB_run V.incdoc "biophysical_properties" σ4
      simp only [coreOf, Core.mk.injEq] at c4
      obtain ⟨a1, a2, a3, a4, a5, a6, a7, a8, a9⟩ := c4
      simp only [V.incdoc, V.inc] at a1 a2 a3 a4 a5 a6 a7 a8 a9 e4 e5 c5 ⊢
      constructor
      · intro t' h
        simp only [Prod.mk.injEq, and_true] at h
        subst h
        refine ⟨σ5, ?_, σ4.loc.incdoc, ?_⟩
        · simp only [e4, e5]
        · rw [c5]
          simp only [Core.mk.injEq]
          rw [a1, a2, a3, a4, a5, a6, a7, a8, a9]
          simp [h2, h3, h4, h5, h6, h7, h9]
      · intro t' e h; simp at h
  | none =>
    simp only
    constructor
    · intro t' h; simp at h
    · intro t' e h
      simp only [Prod.mk.injEq, Option.some.injEq] at h
      obtain ⟨rfl, rfl⟩ := h
      exact ⟨_, rfl, σ.loc.incdoc, by simp [coreOf, h1, h2, h3, h4, h5, h6, h7, h9]⟩
  | ref r =>
    simp only
    constructor
    · intro t' h; simp at h
    · intro t' e h
      simp only [Prod.mk.injEq, Option.some.injEq] at h
      obtain ⟨rfl, rfl⟩ := h
      exact ⟨_, rfl, σ.loc.incdoc, by simp [coreOf, h1, h2, h3, h4, h5, h6, h7, h9]⟩

theorem includeLoop_run (files : Files) (σ : Sig) :
    (∀ t, forEachE (includeStep files σ.loc.referenced_ids)
        (listItems σ.heap (getattrV σ.heap σ.loc.newdoc "includes")) ⟨σ.loc.ext_morphs, σ.loc.ext_biophys, σ.heap⟩ = (t, none) →
      ∃ σ', Hand.includeLoop files σ = .normal σ' ∧
        ∃ i, coreOf σ' = ⟨t.heap, σ.copies, σ.docCopy, σ.loc.newdoc, σ.loc.referenced_ids, t.em, t.eb, i, σ.loc.all_cells⟩) ∧
    (∀ t e, forEachE (includeStep files σ.loc.referenced_ids)
        (listItems σ.heap (getattrV σ.heap σ.loc.newdoc "includes")) ⟨σ.loc.ext_morphs, σ.loc.ext_biophys, σ.heap⟩ = (t, some e) →
      ∃ σ', Hand.includeLoop files σ = .raise e σ' ∧
        ∃ i, coreOf σ' = ⟨t.heap, σ.copies, σ.docCopy, σ.loc.newdoc, σ.loc.referenced_ids, t.em, t.eb, i, σ.loc.all_cells⟩) :=
  forItems_sim
    (fun (σ' : Sig) (t : Tables) => ∃ i, coreOf σ' = ⟨t.heap, σ.copies, σ.docCopy, σ.loc.newdoc, σ.loc.referenced_ids, t.em, t.eb, i, σ.loc.all_cells⟩)
    V.inc (Hand.includeBody files) (includeStep files σ.loc.referenced_ids)
    (fun v σ' t hR => includeBody_step files σ.copies σ.docCopy σ.loc.newdoc σ.loc.referenced_ids σ.loc.all_cells v σ' t hR)
    (listItems σ.heap (getattrV σ.heap σ.loc.newdoc "includes")) σ ⟨σ.loc.ext_morphs, σ.loc.ext_biophys, σ.heap⟩
    ⟨σ.loc.incdoc, rfl⟩

/-! ### the substitution loop -/

theorem fixBody_step (em eb : Dict) (dc : Nat) (nd : Val) (refs : List Val) (ac : List Val) (v : Val) (σ : Sig) (st : St)
    (hR : ∃ i, coreOf σ = ⟨st.heap, st.copies, dc, nd, refs, em, eb, i, ac⟩) :
    (∀ st', fixCell em eb v st = (st', none) →
      ∃ σ', Hand.fixBody { σ with loc := V.cell.set v σ.loc } = .normal σ' ∧
        ∃ i, coreOf σ' = ⟨st'.heap, st'.copies, dc, nd, refs, em, eb, i, ac⟩) ∧
    (∀ st' e, fixCell em eb v st = (st', some e) →
      ∃ σ', Hand.fixBody { σ with loc := V.cell.set v σ.loc } = .raise e σ' ∧
        ∃ i, coreOf σ' = ⟨st'.heap, st'.copies, dc, nd, refs, em, eb, i, ac⟩) := by
  obtain ⟨i0, hR⟩ := hR
  simp only [coreOf, Core.mk.injEq] at hR
  obtain ⟨h1, h2, h3, h4, h5, h6, h7, h8, h9⟩ := hR
  have hst : (⟨σ.heap, σ.copies⟩ : St) = st := by cases st; simp_all
  unfold fixCell
  simp only [Hand.fixBody, S.block, S.seq, S.skip]
  rw [fixSlot_run]
  simp only [V.ext_morphs, V.cell, h6, hst]
  cases hs1 : FixExternalH.fixSlot em v MA ME st with
  | mk st1 o1 =>
    cases o1 with
    | some er =>
      simp only
      constructor
      · intro st' h; simp at h
      · intro st' e h
        simp only [Prod.mk.injEq, Option.some.injEq] at h
        obtain ⟨rfl, rfl⟩ := h
        cases er with
        | keyError k => exact ⟨_, rfl, σ.loc.incdoc, by simp [coreOf, V.e, h3, h4, h5, h6, h7, h9]⟩
        | includeUnreadable u => exact ⟨_, rfl, σ.loc.incdoc, by simp [coreOf, h3, h4, h5, h6, h7, h9]⟩
        | stuck => exact ⟨_, rfl, σ.loc.incdoc, by simp [coreOf, h3, h4, h5, h6, h7, h9]⟩
    | none =>
      simp only
      rw [fixSlot_run]
      simp only [V.ext_biophys, h7]
      have hst1 : (⟨st1.heap, st1.copies⟩ : St) = st1 := by cases st1; rfl
      rw [hst1]
      cases hs2 : FixExternalH.fixSlot eb v BA BE st1 with
      | mk st2 o2 =>
        cases o2 with
        | none =>
          simp only
          constructor
          · intro st' h
            simp only [Prod.mk.injEq, and_true] at h
            subst h
            exact ⟨_, rfl, σ.loc.incdoc, by simp [coreOf, h3, h4, h5, h6, h7, h9]⟩
          · intro st' e h; simp at h
        | some er =>
          constructor
          · intro st' h; simp at h
          · intro st' e h
            simp only [Prod.mk.injEq, Option.some.injEq] at h
            obtain ⟨rfl, rfl⟩ := h
            cases er with
            | keyError k => exact ⟨_, rfl, σ.loc.incdoc, by simp [coreOf, V.e, h3, h4, h5, h6, h7, h9]⟩
            | includeUnreadable u => exact ⟨_, rfl, σ.loc.incdoc, by simp [coreOf, h3, h4, h5, h6, h7, h9]⟩
            | stuck => exact ⟨_, rfl, σ.loc.incdoc, by simp [coreOf, h3, h4, h5, h6, h7, h9]⟩

theorem fixLoop_run (σ : Sig) :
    (∀ st, forEachE (fixCell σ.loc.ext_morphs σ.loc.ext_biophys)
        σ.loc.all_cells ⟨σ.heap, σ.copies⟩ = (st, none) →
      ∃ σ', Hand.fixLoop σ = .normal σ' ∧
        ∃ i, coreOf σ' = ⟨st.heap, st.copies, σ.docCopy, σ.loc.newdoc, σ.loc.referenced_ids, σ.loc.ext_morphs, σ.loc.ext_biophys, i, σ.loc.all_cells⟩) ∧
    (∀ st e, forEachE (fixCell σ.loc.ext_morphs σ.loc.ext_biophys)
        σ.loc.all_cells ⟨σ.heap, σ.copies⟩ = (st, some e) →
      ∃ σ', Hand.fixLoop σ = .raise e σ' ∧
        ∃ i, coreOf σ' = ⟨st.heap, st.copies, σ.docCopy, σ.loc.newdoc, σ.loc.referenced_ids, σ.loc.ext_morphs, σ.loc.ext_biophys, i, σ.loc.all_cells⟩) :=
  forItems_sim
    (fun (σ' : Sig) (st : St) => ∃ i, coreOf σ' =
      ⟨st.heap, st.copies, σ.docCopy, σ.loc.newdoc, σ.loc.referenced_ids, σ.loc.ext_morphs, σ.loc.ext_biophys, i, σ.loc.all_cells⟩)
    V.cell Hand.fixBody (fixCell σ.loc.ext_morphs σ.loc.ext_biophys)
    (fun v σ' st hR => fixBody_step σ.loc.ext_morphs σ.loc.ext_biophys σ.docCopy σ.loc.newdoc σ.loc.referenced_ids σ.loc.all_cells v σ' st hR)
    σ.loc.all_cells σ ⟨σ.heap, σ.copies⟩ ⟨σ.loc.incdoc, rfl⟩

/-! ### the whole function -/

theorem S.seq_normal {a b : Stmt} {σ σ' : Sig} (h : a σ = .normal σ') : S.seq a b σ = b σ' := by
  simp only [S.seq, h]

theorem S.seq_raise {a b : Stmt} {σ σ' : Sig} {e : Err} (h : a σ = .raise e σ') : S.seq a b σ = .raise e σ' := by
  simp only [S.seq, h]

/-- the result of a call, from the outcome of the body -/
def resOf : SOut → Result
  | .ret v σ => ⟨σ.heap, .ok v, σ.copies, σ.docCopy⟩
  | .normal σ => ⟨σ.heap, .ok .none, σ.copies, σ.docCopy⟩
  | .raise e σ => ⟨σ.heap, .error e, σ.copies, σ.docCopy⟩

/-- everything after `newdoc` has been chosen -/
def Hand.rest (files : Files) : Stmt :=
  S.block [
    S.assign V.all_cells (P.concatItems (P.attr (P.var V.newdoc) "cells") (P.attr (P.var V.newdoc) "cell2_ca_poolses")),
    S.assign V.referenced_ids P.emptyList,
    Hand.collectLoop,
    S.assign V.ext_morphs P.emptyDict,
    S.assign V.ext_biophys P.emptyDict,
    Hand.includeLoop files,
    Hand.defLoop V.morph V.ext_morphs V.newdoc "morphology",
    Hand.defLoop V.biophys V.ext_biophys V.newdoc "biophysical_properties",
    Hand.fixLoop,
    S.ret (P.var V.newdoc)
  ]

theorem rest_run (files : Files) (σ : Sig) (hcp : σ.copies = []) :
    resOf (Hand.rest files σ) = { fixInPlace files σ.heap σ.loc.newdoc with docCopy := σ.docCopy } := by
  unfold Hand.rest fixInPlace
  simp only [S.block]
  rw [S.seq_normal (show S.assign V.all_cells (P.concatItems (P.attr (P.var V.newdoc) "cells")
      (P.attr (P.var V.newdoc) "cell2_ca_poolses")) σ =
    .normal ⟨σ.heap, σ.copies, σ.docCopy, { σ.loc with all_cells := allCells σ.heap σ.loc.newdoc }⟩ from rfl)]
  rw [S.seq_normal (show S.assign V.referenced_ids P.emptyList
      ⟨σ.heap, σ.copies, σ.docCopy, { σ.loc with all_cells := allCells σ.heap σ.loc.newdoc }⟩ =
    .normal ⟨σ.heap, σ.copies, σ.docCopy,
      { σ.loc with all_cells := allCells σ.heap σ.loc.newdoc, referenced_ids := [] }⟩ from rfl)]
  obtain ⟨σ2, e2, c2⟩ := collectLoop_run ⟨σ.heap, σ.copies, σ.docCopy,
      { σ.loc with all_cells := allCells σ.heap σ.loc.newdoc, referenced_ids := [] }⟩
  rw [S.seq_normal e2]
  rw [S.seq_normal (show S.assign V.ext_morphs P.emptyDict σ2 =
    .normal ⟨σ2.heap, σ2.copies, σ2.docCopy, { σ2.loc with ext_morphs := [] }⟩ from rfl)]
  rw [S.seq_normal (show S.assign V.ext_biophys P.emptyDict ⟨σ2.heap, σ2.copies, σ2.docCopy, { σ2.loc with ext_morphs := [] }⟩ =
    .normal ⟨σ2.heap, σ2.copies, σ2.docCopy, { σ2.loc with ext_morphs := [], ext_biophys := [] }⟩ from rfl)]
  simp only [coreOf, Core.mk.injEq, List.nil_append] at c2
  obtain ⟨a1, a2, a3, a4, a5, _, _, _, a9⟩ := c2
  have hinc := includeLoop_run files ⟨σ2.heap, σ2.copies, σ2.docCopy, { σ2.loc with ext_morphs := [], ext_biophys := [] }⟩
  simp only [a1, a2, a3, a4, a5, a9, hcp] at hinc ⊢
  cases hf : forEachE (includeStep files (referencedIds σ.heap (allCells σ.heap σ.loc.newdoc)))
      (listItems σ.heap (getattrV σ.heap σ.loc.newdoc "includes")) ⟨[], [], σ.heap⟩ with
  | mk t o =>
    cases o with
    | some e =>
      obtain ⟨σ5, e5, i5, c5⟩ := hinc.2 t e hf
      rw [S.seq_raise e5]
      simp only [coreOf, Core.mk.injEq] at c5
      simp [resOf, c5.1, c5.2.1, c5.2.2.1]
    | none =>
      obtain ⟨σ5, e5, i5, c5⟩ := hinc.1 t hf
      rw [S.seq_normal e5]
      simp only [coreOf, Core.mk.injEq] at c5
      obtain ⟨b1, b2, b3, b4, b5, b6, b7, _, b9⟩ := c5
      obtain ⟨σ6, e6, c6⟩ := defLoopM_run V.newdoc "morphology" σ5
      rw [S.seq_normal e6]
      simp only [coreOf, Core.mk.injEq, V.newdoc] at c6
      obtain ⟨d1, d2, d3, d4, d5, d6, d7, _, d9⟩ := c6
      obtain ⟨σ7, e7, c7⟩ := defLoopB_run V.newdoc "biophysical_properties" σ6
      rw [S.seq_normal e7]
      simp only [coreOf, Core.mk.injEq, V.newdoc] at c7
      obtain ⟨g1, g2, g3, g4, g5, g6, g7, _, g9⟩ := c7
      have hfix := fixLoop_run σ7
      simp only [g1, g2, g3, g4, g5, g6, g7, g9, d1, d2, d3, d4, d5, d6, d7, d9, b1, b2, b3, b4, b5, b6, b7, b9] at hfix
      simp only
      cases hc : forEachE
          (fixCell
            (addDefs t.heap (referencedIds σ.heap (allCells σ.heap σ.loc.newdoc)) t.em
              (listItems t.heap (getattrV t.heap σ.loc.newdoc "morphology")))
            (addDefs t.heap (referencedIds σ.heap (allCells σ.heap σ.loc.newdoc)) t.eb
              (listItems t.heap (getattrV t.heap σ.loc.newdoc "biophysical_properties"))))
          (allCells σ.heap σ.loc.newdoc) ⟨t.heap, []⟩ with
      | mk st o2 =>
        cases o2 with
        | none =>
          obtain ⟨σ8, e8, i8, c8⟩ := hfix.1 st hc
          rw [S.seq_normal e8]
          simp only [coreOf, Core.mk.injEq] at c8
          simp [resOf, S.seq, S.ret, S.skip, P.var, V.newdoc, c8.1, c8.2.1, c8.2.2.1, c8.2.2.2.1]
        | some e =>
          obtain ⟨σ8, e8, i8, c8⟩ := hfix.2 st e hc
          rw [S.seq_raise e8]
          simp only [coreOf, Core.mk.injEq] at c8
          simp [resOf, c8.1, c8.2.1, c8.2.2.1]

theorem runFix_eq_resOf (body : Stmt) (h : Heap) (doc : Val) (ow : Bool) :
    runFix body h doc ow = resOf (body ⟨h, [], 0, { nml2_doc := doc, overwrite := ow }⟩) := by
  unfold runFix resOf
  cases body ⟨h, [], 0, { nml2_doc := doc, overwrite := ow }⟩ <;> rfl

theorem fixInPlace_docCopy (files : Files) (h : Heap) (nd : Val) : (fixInPlace files h nd).docCopy = 0 := by
  unfold fixInPlace
  simp only
  split
  · rfl
  · split <;> rfl

theorem hand_fix_eq_seq (files : Files) : Hand.fix files = S.seq Hand.chooseDoc (Hand.rest files) := rfl

/-- running the reference program is the hand model -/
theorem hand_fix_run (files : Files) (h : Heap) (doc : Val) (ow : Bool) :
    runFix (Hand.fix files) h doc ow = FixExternalH.fixExternal files h doc ow := by
  rw [runFix_eq_resOf, hand_fix_eq_seq]
  unfold FixExternalH.fixExternal
  cases ow with
  | true =>
    rw [S.seq_normal (show Hand.chooseDoc ⟨h, [], 0, { nml2_doc := doc, overwrite := true }⟩ =
      .normal ⟨h, [], 0, { nml2_doc := doc, overwrite := true, newdoc := doc }⟩ from rfl)]
    rw [rest_run files _ rfl]
    simp only [↓reduceIte]
    have := fixInPlace_docCopy files h doc
    cases hf : fixInPlace files h doc
    simp_all
  | false =>
    simp only [Bool.false_eq_true, ↓reduceIte]
    cases doc with
    | ref x =>
      simp only
      cases hd : deepcopy h [] x with
      | none =>
        rw [S.seq_raise (show Hand.chooseDoc ⟨h, [], 0, { nml2_doc := .ref x, overwrite := false }⟩ =
          .raise .stuck ⟨h, [], 0, { nml2_doc := .ref x, overwrite := false }⟩ from by
            simp [Hand.chooseDoc, S.ite_eq, P.isFalse, P.var, V.overwrite, S.block, S.seq, S.assignE, E.deepcopy1,
              V.nml2_doc, hd])]
        rfl
      | some c =>
        rw [S.seq_normal (show Hand.chooseDoc ⟨h, [], 0, { nml2_doc := .ref x, overwrite := false }⟩ =
          .normal ⟨c.heap, [], 0 + (c.heap.length - h.length),
            { nml2_doc := .ref x, overwrite := false, newdoc := .ref c.root }⟩ from by
            simp [Hand.chooseDoc, S.ite_eq, P.isFalse, P.var, V.overwrite, S.block, S.seq, S.assignE, E.deepcopy1,
              V.nml2_doc, V.newdoc, S.skip, hd])]
        rw [rest_run files _ rfl]
        simp
    | none =>
      rw [S.seq_raise (show Hand.chooseDoc ⟨h, [], 0, { nml2_doc := .none, overwrite := false }⟩ =
        .raise .stuck ⟨h, [], 0, { nml2_doc := .none, overwrite := false }⟩ from by
          simp [Hand.chooseDoc, S.ite_eq, P.isFalse, P.var, V.overwrite, S.block, S.seq, S.assignE, E.deepcopy1,
            V.nml2_doc])]
      rfl
    | prim t =>
      rw [S.seq_raise (show Hand.chooseDoc ⟨h, [], 0, { nml2_doc := .prim t, overwrite := false }⟩ =
        .raise .stuck ⟨h, [], 0, { nml2_doc := .prim t, overwrite := false }⟩ from by
          simp [Hand.chooseDoc, S.ite_eq, P.isFalse, P.var, V.overwrite, S.block, S.seq, S.assignE, E.deepcopy1,
            V.nml2_doc])]
      rfl

end NmlVerif.FixIR
