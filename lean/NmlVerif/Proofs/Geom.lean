import NmlVerif.Model.Geom
import Mathlib.Analysis.SpecialFunctions.Sqrt
import Mathlib.Analysis.SpecialFunctions.Trigonometric.Basic
import Mathlib.Tactic.Ring
import Mathlib.Tactic.Positivity
import Mathlib.Tactic.NormNum
import Mathlib.Tactic.Linarith
/-!
# C12 — the translated helpers read over ℝ: instance, reference formulas, evaluation lemmas

`GeomOps ℝ` interprets the operations of the generated code as the real-number operations (`sqrt = Real.sqrt`,
`pi = Real.pi`, `==` = equality). The `*_eval` lemmas compute each generated definition once, as a case
analysis over its branches, in terms of the reference formulas `dist3`, `frustumVolume`,
`frustumLateralArea`, `sphereVolume`, `sphereArea`; every property theorem in `Props/C12.lean` goes through
them, so a change of a Python formula (which changes the generated term) breaks these lemmas.
-/
namespace NmlVerif.Geom
open NmlVerif.Gen.Geom

noncomputable instance instGeomOpsReal : GeomOps ℝ where
  add := (· + ·)
  sub := (· - ·)
  mul := (· * ·)
  div := (· / ·)
  sqrt := Real.sqrt
  pi := Real.pi
  lit := fun n => (n : ℝ)
  eq := fun a b => decide (a = b)
  finite := fun _ => true

@[simp] theorem add_real (a b : ℝ) : GeomOps.add a b = a + b := rfl
@[simp] theorem sub_real (a b : ℝ) : GeomOps.sub a b = a - b := rfl
@[simp] theorem mul_real (a b : ℝ) : GeomOps.mul a b = a * b := rfl
@[simp] theorem div_real (a b : ℝ) : GeomOps.div a b = a / b := rfl
@[simp] theorem sqrt_real (a : ℝ) : GeomOps.sqrt a = Real.sqrt a := rfl
@[simp] theorem pi_real : (GeomOps.pi : ℝ) = Real.pi := rfl
@[simp] theorem lit_real (n : Nat) : (GeomOps.lit n : ℝ) = (n : ℝ) := rfl
@[simp] theorem eq_real (a b : ℝ) : GeomOps.eq a b = decide (a = b) := rfl
@[simp] theorem finite_real (a : ℝ) : GeomOps.finite a = true := rfl
@[simp] theorem powOverflows_real (a : ℝ) (n : Nat) : powOverflows a n = false := by simp [powOverflows]

@[simp] theorem ipow_real (x : ℝ) (n : Nat) : ipow x n = x ^ n := by
  induction n using Nat.strongRecOn with
  | _ n ih =>
    match n with
    | 0 => simp [ipow]
    | 1 => simp [ipow]
    | k + 2 =>
      have := ih (k + 1) (by omega)
      simp only [ipow, this, mul_real]
      ring

/-! ## reference formulas -/

/-- Euclidean distance between the centres of two points -/
noncomputable def dist3 (a b : Pt ℝ) : ℝ := Real.sqrt ((a.x - b.x) ^ 2 + (a.y - b.y) ^ 2 + (a.z - b.z) ^ 2)

/-- the two points have the same coordinates (diameters may differ) -/
def Coincident (a b : Pt ℝ) : Prop := a.x = b.x ∧ a.y = b.y ∧ a.z = b.z

/-- volume of a conical frustum of height `L` and end radii `r1`, `r2` -/
noncomputable def frustumVolume (L r1 r2 : ℝ) : ℝ := Real.pi / 3 * L * (r1 ^ 2 + r1 * r2 + r2 ^ 2)

/-- lateral (side) area of a conical frustum of height `L` and end radii `r1`, `r2` (end discs not included) -/
noncomputable def frustumLateralArea (L r1 r2 : ℝ) : ℝ := Real.pi * (r1 + r2) * Real.sqrt ((r1 - r2) ^ 2 + L ^ 2)

noncomputable def sphereVolume (r : ℝ) : ℝ := 4 / 3 * Real.pi * r ^ 3
noncomputable def sphereArea (r : ℝ) : ℝ := 4 * Real.pi * r ^ 2

/-- a segment with both end points -/
def mkSeg (p d : Pt ℝ) (par : Option (Par ℝ)) : Seg ℝ := ⟨some p, d, par⟩

theorem dist3_nonneg (a b : Pt ℝ) : 0 ≤ dist3 a b := Real.sqrt_nonneg _

theorem dist3_comm (a b : Pt ℝ) : dist3 a b = dist3 b a := by
  unfold dist3; congr 1; ring

theorem dist3_eq_zero_iff (a b : Pt ℝ) : dist3 a b = 0 ↔ Coincident a b := by
  unfold dist3 Coincident
  have h0 : 0 ≤ (a.x - b.x) ^ 2 + (a.y - b.y) ^ 2 + (a.z - b.z) ^ 2 := by positivity
  rw [Real.sqrt_eq_zero h0]
  constructor
  · intro h
    have hx : (a.x - b.x) ^ 2 = 0 := by nlinarith [sq_nonneg (a.x - b.x), sq_nonneg (a.y - b.y), sq_nonneg (a.z - b.z)]
    have hy : (a.y - b.y) ^ 2 = 0 := by nlinarith [sq_nonneg (a.x - b.x), sq_nonneg (a.y - b.y), sq_nonneg (a.z - b.z)]
    have hz : (a.z - b.z) ^ 2 = 0 := by nlinarith [sq_nonneg (a.x - b.x), sq_nonneg (a.y - b.y), sq_nonneg (a.z - b.z)]
    refine ⟨?_, ?_, ?_⟩
    · have := pow_eq_zero_iff (two_ne_zero) |>.mp hx; linarith
    · have := pow_eq_zero_iff (two_ne_zero) |>.mp hy; linarith
    · have := pow_eq_zero_iff (two_ne_zero) |>.mp hz; linarith
  · rintro ⟨hx, hy, hz⟩
    rw [hx, hy, hz]; ring

theorem coincident_comm (a b : Pt ℝ) : Coincident a b ↔ Coincident b a := by
  unfold Coincident
  constructor <;> (rintro ⟨h1, h2, h3⟩; exact ⟨h1.symm, h2.symm, h3.symm⟩)

/-! ## evaluation of the generated definitions at ℝ -/

theorem distance_to_eval (a b : Pt ℝ) : Point3DWithDiam.distance_to a b = .ok (dist3 a b) := by
  simp [Point3DWithDiam.distance_to, dist3]

theorem length_eval (p d : Pt ℝ) (par : Option (Par ℝ)) : Segment.length (mkSeg p d par) = .ok (dist3 p d) := by
  simp [Segment.length, mkSeg, dist3]

theorem length_noprox (d : Pt ℝ) (par : Option (Par ℝ)) :
    Segment.length (⟨none, d, par⟩ : Seg ℝ) = .error ⟨"Exception", "Cannot get length of segment "⟩ := by
  simp [Segment.length]

open Classical in
theorem volume_eval (p d : Pt ℝ) (par : Option (Par ℝ)) :
    Segment.volume (mkSeg p d par) =
      if Coincident p d then
        (if p.diameter = d.diameter then .ok (sphereVolume (p.diameter / 2))
         else .error ⟨"Exception", "Cannot get volume of segment "⟩)
      else .ok (frustumVolume (dist3 p d) (p.diameter / 2) (d.diameter / 2)) := by
  by_cases hc : Coincident p d
  · have hc' := hc
    obtain ⟨hx, hy, hz⟩ := hc'
    by_cases hd : p.diameter = d.diameter
    · simp [Segment.volume, mkSeg, hc, hx, hy, hz, hd, sphereVolume] <;> ring
    · have : ¬ p.diameter / 2 = d.diameter / 2 := by
        intro h; apply hd; linarith
      simp [Segment.volume, mkSeg, hc, hx, hy, hz, hd, this]
  · have h3 : ¬ ((p.x = d.x ∧ p.y = d.y) ∧ p.z = d.z) := fun h => hc ⟨h.1.1, h.1.2, h.2⟩
    have hl := length_eval p d par
    simp only [mkSeg] at hl
    simp only [Segment.volume, mkSeg, hl, eq_real, Bool.and_eq_true, decide_eq_true_eq, h3, if_false, hc]
    simp only [frustumVolume, ipow_real, add_real, mul_real, div_real, pi_real, lit_real, Nat.cast_ofNat,
      powOverflows_real, Bool.false_eq_true, if_false]
    congr 1
    ring

open Classical in
theorem surface_area_eval (p d : Pt ℝ) (par : Option (Par ℝ)) :
    Segment.surface_area (mkSeg p d par) =
      if Coincident p d then
        (if p.diameter = d.diameter then .ok (sphereArea (p.diameter / 2))
         else .error ⟨"Exception", "Cannot get surface area of segment "⟩)
      else .ok (frustumLateralArea (dist3 p d) (p.diameter / 2) (d.diameter / 2)) := by
  by_cases hc : Coincident p d
  · have hc' := hc
    obtain ⟨hx, hy, hz⟩ := hc'
    by_cases hd : p.diameter = d.diameter
    · simp [Segment.surface_area, mkSeg, hc, hx, hy, hz, hd, sphereArea] <;> ring
    · have : ¬ p.diameter / 2 = d.diameter / 2 := by
        intro h; apply hd; linarith
      simp [Segment.surface_area, mkSeg, hc, hx, hy, hz, hd, this]
  · have h3 : ¬ ((p.x = d.x ∧ p.y = d.y) ∧ p.z = d.z) := fun h => hc ⟨h.1.1, h.1.2, h.2⟩
    have hl := length_eval p d par
    simp only [mkSeg] at hl
    simp only [Segment.surface_area, mkSeg, hl, eq_real, Bool.and_eq_true, decide_eq_true_eq, h3, if_false, hc]
    simp [frustumLateralArea]


theorem volume_sphere_case (p d : Pt ℝ) (par : Option (Par ℝ)) (hc : Coincident p d) (hd : p.diameter = d.diameter) :
    Segment.volume (mkSeg p d par) = .ok (sphereVolume (p.diameter / 2)) := by
  rw [volume_eval, if_pos hc, if_pos hd]

theorem volume_raise_case (p d : Pt ℝ) (par : Option (Par ℝ)) (hc : Coincident p d) (hd : p.diameter ≠ d.diameter) :
    Segment.volume (mkSeg p d par) = .error ⟨"Exception", "Cannot get volume of segment "⟩ := by
  rw [volume_eval, if_pos hc, if_neg hd]

theorem volume_frustum_case (p d : Pt ℝ) (par : Option (Par ℝ)) (hc : ¬ Coincident p d) :
    Segment.volume (mkSeg p d par) = .ok (frustumVolume (dist3 p d) (p.diameter / 2) (d.diameter / 2)) := by
  rw [volume_eval, if_neg hc]

theorem area_sphere_case (p d : Pt ℝ) (par : Option (Par ℝ)) (hc : Coincident p d) (hd : p.diameter = d.diameter) :
    Segment.surface_area (mkSeg p d par) = .ok (sphereArea (p.diameter / 2)) := by
  rw [surface_area_eval, if_pos hc, if_pos hd]

theorem area_raise_case (p d : Pt ℝ) (par : Option (Par ℝ)) (hc : Coincident p d) (hd : p.diameter ≠ d.diameter) :
    Segment.surface_area (mkSeg p d par) = .error ⟨"Exception", "Cannot get surface area of segment "⟩ := by
  rw [surface_area_eval, if_pos hc, if_neg hd]

theorem area_frustum_case (p d : Pt ℝ) (par : Option (Par ℝ)) (hc : ¬ Coincident p d) :
    Segment.surface_area (mkSeg p d par) =
      .ok (frustumLateralArea (dist3 p d) (p.diameter / 2) (d.diameter / 2)) := by
  rw [surface_area_eval, if_neg hc]

/-- two segments with the same coincidence status, diameters and distance have the same volume / refusal -/
theorem volume_congr (p d p' d' : Pt ℝ) (par par' : Option (Par ℝ)) (hc : Coincident p' d' ↔ Coincident p d)
    (h1 : p'.diameter = p.diameter) (h2 : d'.diameter = d.diameter) (hL : dist3 p' d' = dist3 p d) :
    Segment.volume (mkSeg p' d' par') = Segment.volume (mkSeg p d par) := by
  by_cases c : Coincident p d
  · by_cases e : p.diameter = d.diameter
    · rw [volume_sphere_case p d par c e, volume_sphere_case p' d' par' (hc.mpr c) (by rw [h1, h2, e]), h1]
    · rw [volume_raise_case p d par c e, volume_raise_case p' d' par' (hc.mpr c) (by rw [h1, h2]; exact e)]
  · rw [volume_frustum_case p d par c, volume_frustum_case p' d' par' (fun h => c (hc.mp h)), hL, h1, h2]

theorem area_congr (p d p' d' : Pt ℝ) (par par' : Option (Par ℝ)) (hc : Coincident p' d' ↔ Coincident p d)
    (h1 : p'.diameter = p.diameter) (h2 : d'.diameter = d.diameter) (hL : dist3 p' d' = dist3 p d) :
    Segment.surface_area (mkSeg p' d' par') = Segment.surface_area (mkSeg p d par) := by
  by_cases c : Coincident p d
  · by_cases e : p.diameter = d.diameter
    · rw [area_sphere_case p d par c e, area_sphere_case p' d' par' (hc.mpr c) (by rw [h1, h2, e]), h1]
    · rw [area_raise_case p d par c e, area_raise_case p' d' par' (hc.mpr c) (by rw [h1, h2]; exact e)]
  · rw [area_frustum_case p d par c, area_frustum_case p' d' par' (fun h => c (hc.mp h)), hL, h1, h2]

/-- the value does not depend on the `parent` member -/
theorem volume_par_irrel (p d : Pt ℝ) (par par' : Option (Par ℝ)) :
    Segment.volume (mkSeg p d par) = Segment.volume (mkSeg p d par') := by
  rw [volume_eval, volume_eval]

theorem surface_area_par_irrel (p d : Pt ℝ) (par par' : Option (Par ℝ)) :
    Segment.surface_area (mkSeg p d par) = Segment.surface_area (mkSeg p d par') := by
  rw [surface_area_eval, surface_area_eval]

/-! ## real-number facts about the reference formulas -/

def Pt.translate (tx ty tz : ℝ) (a : Pt ℝ) : Pt ℝ := ⟨a.x + tx, a.y + ty, a.z + tz, a.diameter⟩
def Pt.scale (k : ℝ) (a : Pt ℝ) : Pt ℝ := ⟨k * a.x, k * a.y, k * a.z, k * a.diameter⟩

theorem dist3_translate (tx ty tz : ℝ) (a b : Pt ℝ) :
    dist3 (a.translate tx ty tz) (b.translate tx ty tz) = dist3 a b := by
  unfold dist3 Pt.translate; congr 1; ring

theorem coincident_translate (tx ty tz : ℝ) (a b : Pt ℝ) :
    Coincident (a.translate tx ty tz) (b.translate tx ty tz) ↔ Coincident a b := by
  unfold Coincident Pt.translate
  simp

theorem dist3_scale (k : ℝ) (hk : 0 ≤ k) (a b : Pt ℝ) : dist3 (a.scale k) (b.scale k) = k * dist3 a b := by
  unfold dist3 Pt.scale
  have : (k * a.x - k * b.x) ^ 2 + (k * a.y - k * b.y) ^ 2 + (k * a.z - k * b.z) ^ 2
       = k ^ 2 * ((a.x - b.x) ^ 2 + (a.y - b.y) ^ 2 + (a.z - b.z) ^ 2) := by ring
  rw [this, Real.sqrt_mul (by positivity), Real.sqrt_sq hk]

theorem coincident_scale (k : ℝ) (hk : k ≠ 0) (a b : Pt ℝ) :
    Coincident (a.scale k) (b.scale k) ↔ Coincident a b := by
  unfold Coincident Pt.scale
  simp [hk]

theorem coincident_scale_zero (a b : Pt ℝ) : Coincident (a.scale 0) (b.scale 0) := by
  unfold Coincident Pt.scale
  simp

theorem scale_diam (k : ℝ) (a : Pt ℝ) : (a.scale k).diameter / 2 = k * (a.diameter / 2) := by
  unfold Pt.scale; ring

theorem frustumVolume_nonneg (L r1 r2 : ℝ) (hL : 0 ≤ L) (h1 : 0 ≤ r1) (h2 : 0 ≤ r2) : 0 ≤ frustumVolume L r1 r2 := by
  unfold frustumVolume; have := Real.pi_pos; positivity

theorem frustumLateralArea_nonneg (L r1 r2 : ℝ) (h1 : 0 ≤ r1) (h2 : 0 ≤ r2) : 0 ≤ frustumLateralArea L r1 r2 := by
  unfold frustumLateralArea; have := Real.pi_pos; positivity

theorem sphereVolume_nonneg (r : ℝ) (h : 0 ≤ r) : 0 ≤ sphereVolume r := by
  unfold sphereVolume; have := Real.pi_pos; positivity

theorem sphereArea_nonneg (r : ℝ) : 0 ≤ sphereArea r := by
  unfold sphereArea; have := Real.pi_pos; positivity

theorem frustumVolume_swap (L r1 r2 : ℝ) : frustumVolume L r1 r2 = frustumVolume L r2 r1 := by
  unfold frustumVolume; ring

theorem frustumLateralArea_swap (L r1 r2 : ℝ) : frustumLateralArea L r1 r2 = frustumLateralArea L r2 r1 := by
  unfold frustumLateralArea
  have : (r1 - r2) ^ 2 + L ^ 2 = (r2 - r1) ^ 2 + L ^ 2 := by ring
  rw [this]; ring

theorem frustumVolume_scale (k L r1 r2 : ℝ) : frustumVolume (k * L) (k * r1) (k * r2) = k ^ 3 * frustumVolume L r1 r2 := by
  unfold frustumVolume; ring

theorem frustumLateralArea_scale (k L r1 r2 : ℝ) (hk : 0 ≤ k) :
    frustumLateralArea (k * L) (k * r1) (k * r2) = k ^ 2 * frustumLateralArea L r1 r2 := by
  unfold frustumLateralArea
  have : (k * r1 - k * r2) ^ 2 + (k * L) ^ 2 = k ^ 2 * ((r1 - r2) ^ 2 + L ^ 2) := by ring
  rw [this, Real.sqrt_mul (by positivity), Real.sqrt_sq hk]; ring

theorem sphereVolume_scale (k r : ℝ) : sphereVolume (k * r) = k ^ 3 * sphereVolume r := by
  unfold sphereVolume; ring

theorem sphereArea_scale (k r : ℝ) : sphereArea (k * r) = k ^ 2 * sphereArea r := by
  unfold sphereArea; ring

/-! ## cell level: the translated getters and `get_actual_proximal` -/

/-- the point at fraction `f` along the parent, from the parent's own (actual) proximal `a` to its distal `b`;
    coordinates and diameter are interpolated alike -/
def lerp (f : ℝ) (a b : Pt ℝ) : Pt ℝ :=
  ⟨a.x + f * (b.x - a.x), a.y + f * (b.y - a.y), a.z + f * (b.z - a.z), a.diameter + f * (b.diameter - a.diameter)⟩

theorem lerp_one (a b : Pt ℝ) : lerp 1 a b = b := by
  cases b; simp [lerp]

theorem lerp_zero (a b : Pt ℝ) : lerp 0 a b = a := by
  cases a; simp [lerp]

section cell
variable (gs : Nat → Except Err (Seg ℝ)) (ap : Nat → Except Err (Pt ℝ))

theorem get_actual_proximal_own (id : Nat) (seg : Seg ℝ) (p : Pt ℝ) (h1 : gs id = .ok seg)
    (h2 : seg.proximal = some p) : Cell.get_actual_proximal gs ap id = .ok p := by
  simp [Cell.get_actual_proximal, h1, h2]

theorem get_actual_proximal_end (id : Nat) (seg ps : Seg ℝ) (par : Par ℝ) (h1 : gs id = .ok seg)
    (h2 : seg.proximal = none) (h3 : seg.parent = some par) (h4 : gs par.segments = .ok ps)
    (h5 : par.fraction_along = 1) : Cell.get_actual_proximal gs ap id = .ok ps.distal := by
  simp [Cell.get_actual_proximal, h1, h2, h3, h4, h5]

theorem get_actual_proximal_step (id : Nat) (seg ps : Seg ℝ) (par : Par ℝ) (pp : Pt ℝ) (h1 : gs id = .ok seg)
    (h2 : seg.proximal = none) (h3 : seg.parent = some par) (h4 : gs par.segments = .ok ps)
    (h5 : ap par.segments = .ok pp) :
    Cell.get_actual_proximal gs ap id = .ok (lerp par.fraction_along pp ps.distal) := by
  by_cases f1 : par.fraction_along = 1
  · rw [get_actual_proximal_end gs ap id seg ps par h1 h2 h3 h4 f1, f1, lerp_one]
  · by_cases f0 : par.fraction_along = 0
    · simp [Cell.get_actual_proximal, h1, h2, h3, h4, h5, f0, lerp_zero]
    · simp only [Cell.get_actual_proximal, h1, h2, h3, h4, h5, eq_real, lit_real, Nat.cast_one, Nat.cast_zero,
        f1, f0, decide_false, Bool.false_eq_true, if_false, add_real, sub_real, mul_real, lerp]
      congr 2 <;> ring

theorem get_segment_length_own (id : Nat) (seg : Seg ℝ) (p : Pt ℝ) (h1 : gs id = .ok seg)
    (h2 : seg.proximal = some p) : Cell.get_segment_length gs ap id = Segment.length seg := by
  simp [Cell.get_segment_length, h1, h2]

theorem get_segment_length_inh (id : Nat) (seg : Seg ℝ) (q : Pt ℝ) (h1 : gs id = .ok seg)
    (h2 : seg.proximal = none) (h3 : ap id = .ok q) :
    Cell.get_segment_length gs ap id = Segment.length (mkSeg q seg.distal none) := by
  rw [length_eval, dist3_comm]
  simp [Cell.get_segment_length, h1, h2, h3, distance_to_eval]

theorem get_segment_volume_own (id : Nat) (seg : Seg ℝ) (p : Pt ℝ) (h1 : gs id = .ok seg)
    (h2 : seg.proximal = some p) : Cell.get_segment_volume gs ap id = Segment.volume seg := by
  simp [Cell.get_segment_volume, h1, h2]

theorem get_segment_volume_inh (id : Nat) (seg : Seg ℝ) (q : Pt ℝ) (h1 : gs id = .ok seg)
    (h2 : seg.proximal = none) (h3 : ap id = .ok q) :
    Cell.get_segment_volume gs ap id = Segment.volume (mkSeg q seg.distal none) := by
  simp [Cell.get_segment_volume, h1, h2, h3, mkSeg]

theorem get_segment_surface_area_own (id : Nat) (seg : Seg ℝ) (p : Pt ℝ) (h1 : gs id = .ok seg)
    (h2 : seg.proximal = some p) : Cell.get_segment_surface_area gs ap id = Segment.surface_area seg := by
  simp [Cell.get_segment_surface_area, h1, h2]

theorem get_segment_surface_area_inh (id : Nat) (seg : Seg ℝ) (q : Pt ℝ) (h1 : gs id = .ok seg)
    (h2 : seg.proximal = none) (h3 : ap id = .ok q) :
    Cell.get_segment_surface_area gs ap id = Segment.surface_area (mkSeg q seg.distal none) := by
  simp [Cell.get_segment_surface_area, h1, h2, h3, mkSeg]

end cell

/-- **Specification of the inherited proximal point**, directly from the parent / `fraction_along` definition:
    a segment's actual proximal point is its own proximal point when it has one; otherwise it lies on the parent,
    at `fraction_along` between the parent's actual proximal point and the parent's distal point (at the
    parent's distal point when `fraction_along = 1`, whatever the parent's own proximal is). -/
inductive Inherits (c : Cell ℝ) : Nat → Pt ℝ → Prop
  | own {id : Nat} {seg : Seg ℝ} {p : Pt ℝ} :
      getSegment c id = .ok seg → seg.proximal = some p → Inherits c id p
  | atEnd {id : Nat} {seg ps : Seg ℝ} {par : Par ℝ} :
      getSegment c id = .ok seg → seg.proximal = none → seg.parent = some par →
      getSegment c par.segments = .ok ps → par.fraction_along = 1 → Inherits c id ps.distal
  | along {id : Nat} {seg ps : Seg ℝ} {par : Par ℝ} {pp : Pt ℝ} :
      getSegment c id = .ok seg → seg.proximal = none → seg.parent = some par →
      getSegment c par.segments = .ok ps → Inherits c par.segments pp →
      Inherits c id (lerp par.fraction_along pp ps.distal)

/-- fuel sufficiency and correctness of the recursion: whenever the specification assigns a point, the model of
    `get_actual_proximal` returns it for every sufficiently large fuel -/
theorem actualProximal_of_inherits (c : Cell ℝ) (id : Nat) (q : Pt ℝ) (h : Inherits c id q) :
    ∃ n, ∀ fuel, n ≤ fuel → actualProximal c fuel id = .ok q := by
  induction h with
  | @own id seg p h1 h2 =>
    refine ⟨1, fun fuel hf => ?_⟩
    obtain ⟨k, rfl⟩ : ∃ k, fuel = k + 1 := ⟨fuel - 1, by omega⟩
    exact get_actual_proximal_own _ _ id seg p h1 h2
  | @atEnd id seg ps par h1 h2 h3 h4 h5 =>
    refine ⟨1, fun fuel hf => ?_⟩
    obtain ⟨k, rfl⟩ : ∃ k, fuel = k + 1 := ⟨fuel - 1, by omega⟩
    exact get_actual_proximal_end _ _ id seg ps par h1 h2 h3 h4 h5
  | @along id seg ps par pp h1 h2 h3 h4 _ ih =>
    obtain ⟨n, hn⟩ := ih
    refine ⟨n + 1, fun fuel hf => ?_⟩
    obtain ⟨k, rfl⟩ : ∃ k, fuel = k + 1 := ⟨fuel - 1, by omega⟩
    exact get_actual_proximal_step _ _ id seg ps par pp h1 h2 h3 h4 (hn k (by omega))

end NmlVerif.Geom
