import NmlVerif.Model.Geom
import NmlVerif.Model.GeomHand
import Mathlib.Analysis.SpecialFunctions.Sqrt
import Mathlib.Analysis.SpecialFunctions.Trigonometric.Basic
import Mathlib.Tactic.Ring
import Mathlib.Tactic.Positivity
import Mathlib.Tactic.NormNum
import Mathlib.Tactic.Linarith
/-!
# C12 — the translated helpers read over ℝ: instance, reference formulas, evaluation lemmas

`GeomOps ℝ` interprets the operations of the generated code as the real-number operations (`sqrt = Real.sqrt`,
`pi = Real.pi`, `==` = equality). The `*_eval` lemmas compute each generated definition once, as a case
analysis over its branches, in terms of the reference formulas `dist3`, `frustumVolume`,
`frustumLateralArea`, `sphereVolume`, `sphereArea`; every property theorem in `Props/C12*.lean` goes through
them, so a change of a Python formula (which changes the generated term) breaks these lemmas.

Layout (one module per translated function, so that a changed function breaks only the obligations that depend on
it): this file = number instance, reference formulas, `distance_to` / `length`; `Proofs/GeomVolume.lean`,
`Proofs/GeomArea.lean` = `volume` / `surface_area`; `Proofs/GeomCell.lean` = `get_actual_proximal`, `get_segment`;
`Proofs/GeomGetters.lean` = the three cell-level getters; `Proofs/GeomRounding.lean` = floating-point error model.
Each also evaluates the HAND-WRITTEN model (`Model/GeomHand.lean`) so that `generated = hand` can be stated.
-/
namespace NmlVerif.Geom
open NmlVerif.Gen.Geom

noncomputable instance instGeomOpsReal : GeomOps ℝ where
  add := (· + ·)
  sub := (· - ·)
  mul := (· * ·)
  div := (· / ·)
  sqrt := Real.sqrt
  pi := Real.pi
  lit := fun n => (n : ℝ)
  eq := fun a b => decide (a = b)
  finite := fun _ => true

@[simp] theorem add_real (a b : ℝ) : GeomOps.add a b = a + b := rfl
@[simp] theorem sub_real (a b : ℝ) : GeomOps.sub a b = a - b := rfl
@[simp] theorem mul_real (a b : ℝ) : GeomOps.mul a b = a * b := rfl
@[simp] theorem div_real (a b : ℝ) : GeomOps.div a b = a / b := rfl
@[simp] theorem sqrt_real (a : ℝ) : GeomOps.sqrt a = Real.sqrt a := rfl
@[simp] theorem pi_real : (GeomOps.pi : ℝ) = Real.pi := rfl
@[simp] theorem lit_real (n : Nat) : (GeomOps.lit n : ℝ) = (n : ℝ) := rfl
@[simp] theorem eq_real (a b : ℝ) : GeomOps.eq a b = decide (a = b) := rfl
@[simp] theorem finite_real (a : ℝ) : GeomOps.finite a = true := rfl
@[simp] theorem powOverflows_real (a : ℝ) (n : Nat) : powOverflows a n = false := by simp [powOverflows]

@[simp] theorem ipow_real (x : ℝ) (n : Nat) : ipow x n = x ^ n := by
  induction n using Nat.strongRecOn with
  | _ n ih =>
    match n with
    | 0 => simp [ipow]
    | 1 => simp [ipow]
    | k + 2 =>
      have := ih (k + 1) (by omega)
      simp only [ipow, this, mul_real]
      ring

/-! ## reference formulas -/

/-- Euclidean distance between the centres of two points -/
noncomputable def dist3 (a b : Pt ℝ) : ℝ := Real.sqrt ((a.x - b.x) ^ 2 + (a.y - b.y) ^ 2 + (a.z - b.z) ^ 2)

/-- the two points have the same coordinates (diameters may differ) -/
def Coincident (a b : Pt ℝ) : Prop := a.x = b.x ∧ a.y = b.y ∧ a.z = b.z

/-- volume of a conical frustum of height `L` and end radii `r1`, `r2` -/
noncomputable def frustumVolume (L r1 r2 : ℝ) : ℝ := Real.pi / 3 * L * (r1 ^ 2 + r1 * r2 + r2 ^ 2)

/-- lateral (side) area of a conical frustum of height `L` and end radii `r1`, `r2` (end discs not included) -/
noncomputable def frustumLateralArea (L r1 r2 : ℝ) : ℝ := Real.pi * (r1 + r2) * Real.sqrt ((r1 - r2) ^ 2 + L ^ 2)

noncomputable def sphereVolume (r : ℝ) : ℝ := 4 / 3 * Real.pi * r ^ 3
noncomputable def sphereArea (r : ℝ) : ℝ := 4 * Real.pi * r ^ 2

/-- a segment with both end points -/
def mkSeg (p d : Pt ℝ) (par : Option (Par ℝ)) : Seg ℝ := ⟨some p, d, par⟩

theorem dist3_nonneg (a b : Pt ℝ) : 0 ≤ dist3 a b := Real.sqrt_nonneg _

theorem dist3_comm (a b : Pt ℝ) : dist3 a b = dist3 b a := by
  unfold dist3; congr 1; ring

theorem dist3_eq_zero_iff (a b : Pt ℝ) : dist3 a b = 0 ↔ Coincident a b := by
  unfold dist3 Coincident
  have h0 : 0 ≤ (a.x - b.x) ^ 2 + (a.y - b.y) ^ 2 + (a.z - b.z) ^ 2 := by positivity
  rw [Real.sqrt_eq_zero h0]
  constructor
  · intro h
    have hx : (a.x - b.x) ^ 2 = 0 := by nlinarith [sq_nonneg (a.x - b.x), sq_nonneg (a.y - b.y), sq_nonneg (a.z - b.z)]
    have hy : (a.y - b.y) ^ 2 = 0 := by nlinarith [sq_nonneg (a.x - b.x), sq_nonneg (a.y - b.y), sq_nonneg (a.z - b.z)]
    have hz : (a.z - b.z) ^ 2 = 0 := by nlinarith [sq_nonneg (a.x - b.x), sq_nonneg (a.y - b.y), sq_nonneg (a.z - b.z)]
    refine ⟨?_, ?_, ?_⟩
    · have := pow_eq_zero_iff (two_ne_zero) |>.mp hx; linarith
    · have := pow_eq_zero_iff (two_ne_zero) |>.mp hy; linarith
    · have := pow_eq_zero_iff (two_ne_zero) |>.mp hz; linarith
  · rintro ⟨hx, hy, hz⟩
    rw [hx, hy, hz]; ring

theorem coincident_comm (a b : Pt ℝ) : Coincident a b ↔ Coincident b a := by
  unfold Coincident
  constructor <;> (rintro ⟨h1, h2, h3⟩; exact ⟨h1.symm, h2.symm, h3.symm⟩)

/-! ## evaluation of the generated definitions at ℝ -/

theorem distance_to_eval (a b : Pt ℝ) : Point3DWithDiam.distance_to a b = .ok (dist3 a b) := by
  simp [Point3DWithDiam.distance_to, dist3]

theorem length_eval (p d : Pt ℝ) (par : Option (Par ℝ)) : Segment.length (mkSeg p d par) = .ok (dist3 p d) := by
  simp [Segment.length, mkSeg, dist3]

theorem length_noprox (d : Pt ℝ) (par : Option (Par ℝ)) :
    Segment.length (⟨none, d, par⟩ : Seg ℝ) = .error ⟨"Exception", "Cannot get length of segment "⟩ := by
  simp [Segment.length]

/-! ## real-number facts about the reference formulas -/

def Pt.translate (tx ty tz : ℝ) (a : Pt ℝ) : Pt ℝ := ⟨a.x + tx, a.y + ty, a.z + tz, a.diameter⟩
def Pt.scale (k : ℝ) (a : Pt ℝ) : Pt ℝ := ⟨k * a.x, k * a.y, k * a.z, k * a.diameter⟩

theorem dist3_translate (tx ty tz : ℝ) (a b : Pt ℝ) :
    dist3 (a.translate tx ty tz) (b.translate tx ty tz) = dist3 a b := by
  unfold dist3 Pt.translate; congr 1; ring

theorem coincident_translate (tx ty tz : ℝ) (a b : Pt ℝ) :
    Coincident (a.translate tx ty tz) (b.translate tx ty tz) ↔ Coincident a b := by
  unfold Coincident Pt.translate
  simp

theorem dist3_scale (k : ℝ) (hk : 0 ≤ k) (a b : Pt ℝ) : dist3 (a.scale k) (b.scale k) = k * dist3 a b := by
  unfold dist3 Pt.scale
  have : (k * a.x - k * b.x) ^ 2 + (k * a.y - k * b.y) ^ 2 + (k * a.z - k * b.z) ^ 2
       = k ^ 2 * ((a.x - b.x) ^ 2 + (a.y - b.y) ^ 2 + (a.z - b.z) ^ 2) := by ring
  rw [this, Real.sqrt_mul (by positivity), Real.sqrt_sq hk]

theorem coincident_scale (k : ℝ) (hk : k ≠ 0) (a b : Pt ℝ) :
    Coincident (a.scale k) (b.scale k) ↔ Coincident a b := by
  unfold Coincident Pt.scale
  simp [hk]

theorem coincident_scale_zero (a b : Pt ℝ) : Coincident (a.scale 0) (b.scale 0) := by
  unfold Coincident Pt.scale
  simp

theorem scale_diam (k : ℝ) (a : Pt ℝ) : (a.scale k).diameter / 2 = k * (a.diameter / 2) := by
  unfold Pt.scale; ring

theorem frustumVolume_nonneg (L r1 r2 : ℝ) (hL : 0 ≤ L) (h1 : 0 ≤ r1) (h2 : 0 ≤ r2) : 0 ≤ frustumVolume L r1 r2 := by
  unfold frustumVolume; have := Real.pi_pos; positivity

theorem frustumLateralArea_nonneg (L r1 r2 : ℝ) (h1 : 0 ≤ r1) (h2 : 0 ≤ r2) : 0 ≤ frustumLateralArea L r1 r2 := by
  unfold frustumLateralArea; have := Real.pi_pos; positivity

theorem sphereVolume_nonneg (r : ℝ) (h : 0 ≤ r) : 0 ≤ sphereVolume r := by
  unfold sphereVolume; have := Real.pi_pos; positivity

theorem sphereArea_nonneg (r : ℝ) : 0 ≤ sphereArea r := by
  unfold sphereArea; have := Real.pi_pos; positivity

theorem frustumVolume_swap (L r1 r2 : ℝ) : frustumVolume L r1 r2 = frustumVolume L r2 r1 := by
  unfold frustumVolume; ring

theorem frustumLateralArea_swap (L r1 r2 : ℝ) : frustumLateralArea L r1 r2 = frustumLateralArea L r2 r1 := by
  unfold frustumLateralArea
  have : (r1 - r2) ^ 2 + L ^ 2 = (r2 - r1) ^ 2 + L ^ 2 := by ring
  rw [this]; ring

theorem frustumVolume_scale (k L r1 r2 : ℝ) : frustumVolume (k * L) (k * r1) (k * r2) = k ^ 3 * frustumVolume L r1 r2 := by
  unfold frustumVolume; ring

theorem frustumLateralArea_scale (k L r1 r2 : ℝ) (hk : 0 ≤ k) :
    frustumLateralArea (k * L) (k * r1) (k * r2) = k ^ 2 * frustumLateralArea L r1 r2 := by
  unfold frustumLateralArea
  have : (k * r1 - k * r2) ^ 2 + (k * L) ^ 2 = k ^ 2 * ((r1 - r2) ^ 2 + L ^ 2) := by ring
  rw [this, Real.sqrt_mul (by positivity), Real.sqrt_sq hk]; ring

theorem sphereVolume_scale (k r : ℝ) : sphereVolume (k * r) = k ^ 3 * sphereVolume r := by
  unfold sphereVolume; ring

theorem sphereArea_scale (k r : ℝ) : sphereArea (k * r) = k ^ 2 * sphereArea r := by
  unfold sphereArea; ring

/-! ## cell level: the translated getters and `get_actual_proximal` -/

/-- the point at fraction `f` along the parent, from the parent's own (actual) proximal `a` to its distal `b`;
    coordinates and diameter are interpolated alike -/
def lerp (f : ℝ) (a b : Pt ℝ) : Pt ℝ :=
  ⟨a.x + f * (b.x - a.x), a.y + f * (b.y - a.y), a.z + f * (b.z - a.z), a.diameter + f * (b.diameter - a.diameter)⟩

theorem lerp_one (a b : Pt ℝ) : lerp 1 a b = b := by
  cases b; simp [lerp]

theorem lerp_zero (a b : Pt ℝ) : lerp 0 a b = a := by
  cases a; simp [lerp]


/-- `r₁² + r₁r₂ + r₂² ≥ 0` whatever the signs: the frustum volume is non-negative for ANY radii -/
theorem frustumVolume_nonneg' (L r1 r2 : ℝ) (hL : 0 ≤ L) : 0 ≤ frustumVolume L r1 r2 := by
  unfold frustumVolume
  have h : 0 ≤ r1 ^ 2 + r1 * r2 + r2 ^ 2 := by nlinarith [sq_nonneg (r1 + r2), sq_nonneg r1, sq_nonneg r2]
  have := Real.pi_pos
  positivity

/-- the lateral area is non-negative as soon as the radii sum to a non-negative number -/
theorem frustumLateralArea_nonneg' (L r1 r2 : ℝ) (h : 0 ≤ r1 + r2) : 0 ≤ frustumLateralArea L r1 r2 := by
  unfold frustumLateralArea; have := Real.pi_pos; positivity

/-! ## the hand-written model at ℝ: `x ** n`, distance, coincidence test, radius -/

theorem hand_pow_real (x : ℝ) (n : Nat) : Hand.pow x n = .ok (x ^ n) := by
  simp [Hand.pow]

theorem hand_dist_eval (a b : Pt ℝ) : Hand.dist a b = .ok (dist3 a b) := by
  simp [Hand.dist, hand_pow_real, dist3]

theorem hand_coincident_iff (a b : Pt ℝ) : Hand.coincident a b = true ↔ Coincident a b := by
  simp [Hand.coincident, Coincident, and_assoc]

theorem hand_radius (p : Pt ℝ) : Hand.radius p = p.diameter / 2 := by
  simp [Hand.radius]

theorem gen_eq_hand_distance_to' (a b : Pt ℝ) : Point3DWithDiam.distance_to a b = Hand.distanceTo a b := by
  rw [distance_to_eval, Hand.distanceTo, hand_dist_eval]

theorem gen_eq_hand_length' (s : Seg ℝ) : Segment.length s = Hand.length s := by
  obtain ⟨prox, d, par⟩ := s
  cases prox with
  | none => rw [length_noprox]; rfl
  | some p =>
    have := length_eval p d par
    simp only [mkSeg] at this
    rw [this]; simp [Hand.length, hand_dist_eval]

theorem hand_lerpPt (f : ℝ) (a b : Pt ℝ) : Hand.lerpPt f a b = lerp f a b := by
  simp only [Hand.lerpPt, lerp, add_real, sub_real, mul_real, lit_real, Nat.cast_one]
  congr 1 <;> ring

end NmlVerif.Geom
