import NmlVerif.Proofs.Geom
/-!
# C12 — `Segment.surface_area` (generated) and `Hand.surfaceArea` evaluated at ℝ
-/
namespace NmlVerif.Geom
open NmlVerif.Gen.Geom

open Classical in
theorem surface_area_eval (p d : Pt ℝ) (par : Option (Par ℝ)) :
    Segment.surface_area (mkSeg p d par) =
      if Coincident p d then
        (if p.diameter = d.diameter then .ok (sphereArea (p.diameter / 2))
         else .error ⟨"Exception", "Cannot get surface area of segment "⟩)
      else .ok (frustumLateralArea (dist3 p d) (p.diameter / 2) (d.diameter / 2)) := by
  by_cases hc : Coincident p d
  · have hc' := hc
    obtain ⟨hx, hy, hz⟩ := hc'
    by_cases hd : p.diameter = d.diameter
    · simp [Segment.surface_area, mkSeg, hc, hx, hy, hz, hd, sphereArea] <;> ring
    · have : ¬ p.diameter / 2 = d.diameter / 2 := by
        intro h; apply hd; linarith
      simp [Segment.surface_area, mkSeg, hc, hx, hy, hz, hd, this]
  · have h3 : ¬ ((p.x = d.x ∧ p.y = d.y) ∧ p.z = d.z) := fun h => hc ⟨h.1.1, h.1.2, h.2⟩
    have hl := length_eval p d par
    simp only [mkSeg] at hl
    simp only [Segment.surface_area, mkSeg, hl, eq_real, Bool.and_eq_true, decide_eq_true_eq, h3, if_false, hc]
    simp [frustumLateralArea]

theorem area_sphere_case (p d : Pt ℝ) (par : Option (Par ℝ)) (hc : Coincident p d) (hd : p.diameter = d.diameter) :
    Segment.surface_area (mkSeg p d par) = .ok (sphereArea (p.diameter / 2)) := by
  rw [surface_area_eval, if_pos hc, if_pos hd]

theorem area_raise_case (p d : Pt ℝ) (par : Option (Par ℝ)) (hc : Coincident p d) (hd : p.diameter ≠ d.diameter) :
    Segment.surface_area (mkSeg p d par) = .error ⟨"Exception", "Cannot get surface area of segment "⟩ := by
  rw [surface_area_eval, if_pos hc, if_neg hd]

theorem area_frustum_case (p d : Pt ℝ) (par : Option (Par ℝ)) (hc : ¬ Coincident p d) :
    Segment.surface_area (mkSeg p d par) =
      .ok (frustumLateralArea (dist3 p d) (p.diameter / 2) (d.diameter / 2)) := by
  rw [surface_area_eval, if_neg hc]

theorem area_congr (p d p' d' : Pt ℝ) (par par' : Option (Par ℝ)) (hc : Coincident p' d' ↔ Coincident p d)
    (h1 : p'.diameter = p.diameter) (h2 : d'.diameter = d.diameter) (hL : dist3 p' d' = dist3 p d) :
    Segment.surface_area (mkSeg p' d' par') = Segment.surface_area (mkSeg p d par) := by
  by_cases c : Coincident p d
  · by_cases e : p.diameter = d.diameter
    · rw [area_sphere_case p d par c e, area_sphere_case p' d' par' (hc.mpr c) (by rw [h1, h2, e]), h1]
    · rw [area_raise_case p d par c e, area_raise_case p' d' par' (hc.mpr c) (by rw [h1, h2]; exact e)]
  · rw [area_frustum_case p d par c, area_frustum_case p' d' par' (fun h => c (hc.mp h)), hL, h1, h2]

/-- the value does not depend on the `parent` member -/
theorem surface_area_par_irrel (p d : Pt ℝ) (par par' : Option (Par ℝ)) :
    Segment.surface_area (mkSeg p d par) = Segment.surface_area (mkSeg p d par') := by
  rw [surface_area_eval, surface_area_eval]

open Classical in
theorem hand_areaOf_eval (p d : Pt ℝ) :
    Hand.areaOf p d =
      if Coincident p d then
        (if p.diameter = d.diameter then .ok (sphereArea (p.diameter / 2))
         else .error ⟨"Exception", "Cannot get surface area of segment "⟩)
      else .ok (frustumLateralArea (dist3 p d) (p.diameter / 2) (d.diameter / 2)) := by
  have hr : (p.diameter / 2 = d.diameter / 2) ↔ p.diameter = d.diameter := by
    constructor <;> intro h <;> linarith
  by_cases hc : Coincident p d
  · have hb := (hand_coincident_iff p d).mpr hc
    by_cases hd : p.diameter = d.diameter
    · simp [Hand.areaOf, hb, hc, hd, hand_radius, hand_pow_real, sphereArea]
    · simp [Hand.areaOf, hb, hc, hd, hand_radius, hr]
  · have hb : Hand.coincident p d = false := by
      rw [Bool.eq_false_iff]; intro h; exact hc ((hand_coincident_iff p d).mp h)
    simp only [Hand.areaOf, hb, hc, hand_dist_eval, hand_radius, hand_pow_real, if_false, Bool.false_eq_true]
    simp [frustumLateralArea]

theorem gen_eq_hand_surface_area' (s : Seg ℝ) : Segment.surface_area s = Hand.surfaceArea s := by
  obtain ⟨prox, d, par⟩ := s
  cases prox with
  | none => simp [Segment.surface_area, Hand.surfaceArea]
  | some p =>
    have := surface_area_eval p d par
    simp only [mkSeg] at this
    rw [this]; simp only [Hand.surfaceArea]; rw [hand_areaOf_eval]

end NmlVerif.Geom
