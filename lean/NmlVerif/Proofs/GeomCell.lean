import NmlVerif.Proofs.Geom
/-!
# C12 — `Cell.get_actual_proximal` (generated, recursion tied with fuel) and `Cell.get_segment` (hand model) at ℝ
-/
namespace NmlVerif.Geom
open NmlVerif.Gen.Geom

section cell
variable (gs : Nat → Except Err (Seg ℝ)) (ap : Nat → Except Err (Pt ℝ))

theorem get_actual_proximal_own (id : Nat) (seg : Seg ℝ) (p : Pt ℝ) (h1 : gs id = .ok seg)
    (h2 : seg.proximal = some p) : Cell.get_actual_proximal gs ap id = .ok p := by
  simp [Cell.get_actual_proximal, h1, h2]

theorem get_actual_proximal_end (id : Nat) (seg ps : Seg ℝ) (par : Par ℝ) (h1 : gs id = .ok seg)
    (h2 : seg.proximal = none) (h3 : seg.parent = some par) (h4 : gs par.segments = .ok ps)
    (h5 : par.fraction_along = 1) : Cell.get_actual_proximal gs ap id = .ok ps.distal := by
  simp [Cell.get_actual_proximal, h1, h2, h3, h4, h5]

theorem get_actual_proximal_step (id : Nat) (seg ps : Seg ℝ) (par : Par ℝ) (pp : Pt ℝ) (h1 : gs id = .ok seg)
    (h2 : seg.proximal = none) (h3 : seg.parent = some par) (h4 : gs par.segments = .ok ps)
    (h5 : ap par.segments = .ok pp) :
    Cell.get_actual_proximal gs ap id = .ok (lerp par.fraction_along pp ps.distal) := by
  by_cases f1 : par.fraction_along = 1
  · rw [get_actual_proximal_end gs ap id seg ps par h1 h2 h3 h4 f1, f1, lerp_one]
  · by_cases f0 : par.fraction_along = 0
    · simp [Cell.get_actual_proximal, h1, h2, h3, h4, h5, f0, lerp_zero]
    · simp only [Cell.get_actual_proximal, h1, h2, h3, h4, h5, eq_real, lit_real, Nat.cast_one, Nat.cast_zero,
        f1, f0, decide_false, Bool.false_eq_true, if_false, add_real, sub_real, mul_real, lerp]
      congr 2 <;> ring

end cell

/-- **Specification of the inherited proximal point**, directly from the parent / `fraction_along` definition:
    a segment's actual proximal point is its own proximal point when it has one; otherwise it lies on the parent,
    at `fraction_along` between the parent's actual proximal point and the parent's distal point (at the
    parent's distal point when `fraction_along = 1`, whatever the parent's own proximal is). -/
inductive Inherits (c : Cell ℝ) : Nat → Pt ℝ → Prop
  | own {id : Nat} {seg : Seg ℝ} {p : Pt ℝ} :
      getSegment c id = .ok seg → seg.proximal = some p → Inherits c id p
  | atEnd {id : Nat} {seg ps : Seg ℝ} {par : Par ℝ} :
      getSegment c id = .ok seg → seg.proximal = none → seg.parent = some par →
      getSegment c par.segments = .ok ps → par.fraction_along = 1 → Inherits c id ps.distal
  | along {id : Nat} {seg ps : Seg ℝ} {par : Par ℝ} {pp : Pt ℝ} :
      getSegment c id = .ok seg → seg.proximal = none → seg.parent = some par →
      getSegment c par.segments = .ok ps → Inherits c par.segments pp →
      Inherits c id (lerp par.fraction_along pp ps.distal)

/-- fuel sufficiency and correctness of the recursion: whenever the specification assigns a point, the model of
    `get_actual_proximal` returns it for every sufficiently large fuel -/
theorem actualProximal_of_inherits (c : Cell ℝ) (id : Nat) (q : Pt ℝ) (h : Inherits c id q) :
    ∃ n, ∀ fuel, n ≤ fuel → actualProximal c fuel id = .ok q := by
  induction h with
  | @own id seg p h1 h2 =>
    refine ⟨1, fun fuel hf => ?_⟩
    obtain ⟨k, rfl⟩ : ∃ k, fuel = k + 1 := ⟨fuel - 1, by omega⟩
    exact get_actual_proximal_own _ _ id seg p h1 h2
  | @atEnd id seg ps par h1 h2 h3 h4 h5 =>
    refine ⟨1, fun fuel hf => ?_⟩
    obtain ⟨k, rfl⟩ : ∃ k, fuel = k + 1 := ⟨fuel - 1, by omega⟩
    exact get_actual_proximal_end _ _ id seg ps par h1 h2 h3 h4 h5
  | @along id seg ps par pp h1 h2 h3 h4 _ ih =>
    obtain ⟨n, hn⟩ := ih
    refine ⟨n + 1, fun fuel hf => ?_⟩
    obtain ⟨k, rfl⟩ : ∃ k, fuel = k + 1 := ⟨fuel - 1, by omega⟩
    exact get_actual_proximal_step _ _ id seg ps par pp h1 h2 h3 h4 (hn k (by omega))

theorem gen_eq_hand_actual_proximal' (c : Cell ℝ) (fuel id : Nat) :
    actualProximal c fuel id = Hand.actualProximal c fuel id := by
  induction fuel generalizing id with
  | zero => rfl
  | succ n ih =>
    simp only [actualProximal, Hand.actualProximal]
    cases h1 : getSegment c id with
    | error e => simp [Cell.get_actual_proximal, h1]
    | ok seg =>
      cases h2 : seg.proximal with
      | some p => simp [Cell.get_actual_proximal, h1, h2]
      | none =>
        cases h3 : seg.parent with
        | none => simp [Cell.get_actual_proximal, h1, h2, h3, Hand.attrErr]
        | some par =>
          cases h4 : getSegment c par.segments with
          | error e => simp [Cell.get_actual_proximal, h1, h2, h3, h4]
          | ok ps =>
            cases h5 : actualProximal c n par.segments with
            | error e =>
              have h5' := h5; rw [ih] at h5'
              simp [Cell.get_actual_proximal, h1, h2, h3, h4, h5, h5']
            | ok pp =>
              have h5' := h5; rw [ih] at h5'
              rw [get_actual_proximal_step _ _ id seg ps par pp h1 h2 h3 h4 h5]
              by_cases f1 : par.fraction_along = 1
              · simp [h2, h3, h4, f1, lerp_one]
              · by_cases f0 : par.fraction_along = 0
                · simp [h2, h3, h4, f0, lerp_zero, h5']
                · simp [h2, h3, h4, f1, f0, h5', hand_lerpPt]

theorem inherits_of_actualProximal (c : Cell ℝ) (fuel id : Nat) (q : Pt ℝ)
    (h : actualProximal c fuel id = .ok q) : Inherits c id q := by
  induction fuel generalizing id q with
  | zero => simp [actualProximal] at h
  | succ n ih =>
    simp only [actualProximal] at h
    cases h1 : getSegment c id with
    | error e => simp [Cell.get_actual_proximal, h1] at h
    | ok seg =>
      cases h2 : seg.proximal with
      | some p =>
        rw [get_actual_proximal_own _ _ id seg p h1 h2] at h
        cases h; exact Inherits.own h1 h2
      | none =>
        cases h3 : seg.parent with
        | none => simp [Cell.get_actual_proximal, h1, h2, h3] at h
        | some par =>
          cases h4 : getSegment c par.segments with
          | error e => simp [Cell.get_actual_proximal, h1, h2, h3, h4] at h
          | ok ps =>
            by_cases f1 : par.fraction_along = 1
            · rw [get_actual_proximal_end _ _ id seg ps par h1 h2 h3 h4 f1] at h
              cases h; exact Inherits.atEnd h1 h2 h3 h4 f1
            · cases h5 : actualProximal c n par.segments with
              | error e =>
                by_cases f0 : par.fraction_along = 0
                · simp [Cell.get_actual_proximal, h1, h2, h3, h4, h5, f0] at h
                · simp [Cell.get_actual_proximal, h1, h2, h3, h4, h5, f0, f1] at h
              | ok pp =>
                rw [get_actual_proximal_step _ _ id seg ps par pp h1 h2 h3 h4 h5] at h
                cases h
                exact Inherits.along h1 h2 h3 h4 (ih _ _ h5)

/-- fuel monotonicity: more fuel never changes a returned point -/
theorem actualProximal_mono (c : Cell ℝ) (fuel id : Nat) (q : Pt ℝ)
    (h : actualProximal c fuel id = .ok q) : ∀ fuel', fuel ≤ fuel' → actualProximal c fuel' id = .ok q := by
  induction fuel generalizing id q with
  | zero => simp [actualProximal] at h
  | succ n ih =>
    intro fuel' hf
    obtain ⟨k, rfl⟩ : ∃ k, fuel' = k + 1 := ⟨fuel' - 1, by omega⟩
    simp only [actualProximal] at h ⊢
    cases h1 : getSegment c id with
    | error e => simp [Cell.get_actual_proximal, h1] at h
    | ok seg =>
      cases h2 : seg.proximal with
      | some p =>
        rw [get_actual_proximal_own _ _ id seg p h1 h2] at h ⊢; exact h
      | none =>
        cases h3 : seg.parent with
        | none => simp [Cell.get_actual_proximal, h1, h2, h3] at h
        | some par =>
          cases h4 : getSegment c par.segments with
          | error e => simp [Cell.get_actual_proximal, h1, h2, h3, h4] at h
          | ok ps =>
            by_cases f1 : par.fraction_along = 1
            · rw [get_actual_proximal_end _ _ id seg ps par h1 h2 h3 h4 f1] at h ⊢; exact h
            · cases h5 : actualProximal c n par.segments with
              | error e =>
                by_cases f0 : par.fraction_along = 0
                · simp [Cell.get_actual_proximal, h1, h2, h3, h4, h5, f0] at h
                · simp [Cell.get_actual_proximal, h1, h2, h3, h4, h5, f0, f1] at h
              | ok pp =>
                rw [get_actual_proximal_step _ _ id seg ps par pp h1 h2 h3 h4 h5] at h
                rw [get_actual_proximal_step _ _ id seg ps par pp h1 h2 h3 h4 (ih _ _ h5 k (by omega))]
                exact h

/-- a set of segments closed under `parent`, none with a proximal point, none attached at fraction 1 (e.g. a cycle
    of parent pointers): `get_actual_proximal` never returns; it exhausts every fuel (Python: `RecursionError`) -/
theorem actualProximal_cycle (c : Cell ℝ) (S : Nat → Prop)
    (hS : ∀ id, S id → ∃ seg par ps, getSegment c id = .ok seg ∧ seg.proximal = none ∧ seg.parent = some par ∧
      getSegment c par.segments = .ok ps ∧ par.fraction_along ≠ 1 ∧ S par.segments)
    (fuel id : Nat) (hid : S id) :
    actualProximal c fuel id = .error ⟨"RecursionError", "maximum recursion depth exceeded"⟩ := by
  induction fuel generalizing id with
  | zero => rfl
  | succ n ih =>
    obtain ⟨seg, par, ps, h1, h2, h3, h4, f1, hp⟩ := hS id hid
    have := ih _ hp
    simp only [actualProximal]
    by_cases f0 : par.fraction_along = 0
    · simp [Cell.get_actual_proximal, h1, h2, h3, h4, f0, this]
    · simp [Cell.get_actual_proximal, h1, h2, h3, h4, f0, f1, this]

/-! `get_segment`: first match in document order -/

theorem getSegment_ok_iff {α : Type} (c : Cell α) (id : Nat) (seg : Seg α) :
    getSegment c id = .ok seg ↔
      ∃ pre post, c = pre ++ (id, seg) :: post ∧ ∀ e ∈ pre, e.1 ≠ id := by
  unfold getSegment
  constructor
  · intro h
    cases hf : c.find? (fun e => e.1 == id) with
    | none => simp [hf] at h
    | some e =>
      simp only [hf, Except.ok.injEq] at h
      obtain ⟨hp, pre, post, hc, hpre⟩ := List.find?_eq_some_iff_append.mp hf
      refine ⟨pre, post, ?_, ?_⟩
      · have : e = (id, seg) := by
          cases e with
          | mk a b => simp at hp h; simp [hp, h]
        rw [← this]; exact hc
      · intro x hx; have := hpre x hx; simpa using this
  · rintro ⟨pre, post, rfl, hpre⟩
    have : List.find? (fun e => e.1 == id) (pre ++ (id, seg) :: post) = some (id, seg) := by
      rw [List.find?_eq_some_iff_append]
      exact ⟨by simp, pre, post, rfl, fun x hx => by simpa using hpre x hx⟩
    simp [this]

theorem getSegment_error_iff {α : Type} (c : Cell α) (id : Nat) :
    (∃ e, getSegment c id = .error e) ↔ ∀ x ∈ c, x.1 ≠ id := by
  unfold getSegment
  cases hf : c.find? (fun e => e.1 == id) with
  | none =>
    refine ⟨fun _ x hx => ?_, fun _ => ⟨_, rfl⟩⟩
    have := List.find?_eq_none.mp hf x hx
    simpa using this
  | some e =>
    simp only [reduceCtorEq, exists_false, false_iff]
    intro h
    have hm := List.mem_of_find?_eq_some hf
    have hp := List.find?_some hf
    exact h e hm (by simpa using hp)

end NmlVerif.Geom
