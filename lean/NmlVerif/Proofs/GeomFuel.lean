import NmlVerif.Proofs.GeomCell
import Batteries.Data.List.Perm
/-!
# C12 — explicit fuel bound for the recursion of `get_actual_proximal`

Every successful call chain `id → parent → grandparent → …` visits pairwise distinct segments (a repeated id would
recurse for ever), so it is no longer than the number of segments of the cell: fuel `c.length` decides the result.
`MinFuel c id k` = "`k` is the least fuel with which a point is returned" = the Python recursion depth.
-/
namespace NmlVerif.Geom
open NmlVerif.Gen.Geom

open Classical in
/-- the id the recursion of `get_actual_proximal` visits next, if it recurses at all -/
noncomputable def nextId (c : Cell ℝ) (id : Nat) : Option Nat :=
  match getSegment c id with
  | .error _ => none
  | .ok seg =>
    match seg.proximal with
    | some _ => none
    | none =>
      match seg.parent with
      | none => none
      | some par =>
        match getSegment c par.segments with
        | .error _ => none
        | .ok _ => if par.fraction_along = 1 then none else some par.segments

/-- without a recursive call the result does not depend on the fuel -/
theorem actualProximal_next_none (c : Cell ℝ) (id n m : Nat) (h : nextId c id = none) :
    actualProximal c (n + 1) id = actualProximal c (m + 1) id := by
  simp only [actualProximal]
  unfold nextId at h
  cases h1 : getSegment c id with
  | error e => simp [Cell.get_actual_proximal, h1]
  | ok seg =>
    cases h2 : seg.proximal with
    | some p => simp [Cell.get_actual_proximal, h1, h2]
    | none =>
      cases h3 : seg.parent with
      | none => simp [Cell.get_actual_proximal, h1, h2, h3]
      | some par =>
        cases h4 : getSegment c par.segments with
        | error e => simp [Cell.get_actual_proximal, h1, h2, h3, h4]
        | ok ps =>
          by_cases f1 : par.fraction_along = 1
          · simp [Cell.get_actual_proximal, h1, h2, h3, h4, f1]
          · simp [h1, h2, h3, h4, f1] at h

/-- with a recursive call: the call one level down must have succeeded -/
theorem actualProximal_next_some (c : Cell ℝ) (id id' n : Nat) (q : Pt ℝ) (h : nextId c id = some id')
    (hq : actualProximal c (n + 1) id = .ok q) : ∃ q', actualProximal c n id' = .ok q' := by
  simp only [actualProximal] at hq
  unfold nextId at h
  cases h1 : getSegment c id with
  | error e => simp [h1] at h
  | ok seg =>
    cases h2 : seg.proximal with
    | some p => simp [h1, h2] at h
    | none =>
      cases h3 : seg.parent with
      | none => simp [h1, h2, h3] at h
      | some par =>
        cases h4 : getSegment c par.segments with
        | error e => simp [h1, h2, h3, h4] at h
        | ok ps =>
          by_cases f1 : par.fraction_along = 1
          · simp [h1, h2, h3, h4, f1] at h
          · simp [h1, h2, h3, h4, f1] at h
            subst h
            cases h5 : actualProximal c n par.segments with
            | ok pp => exact ⟨pp, rfl⟩
            | error e =>
              by_cases f0 : par.fraction_along = 0
              · simp [Cell.get_actual_proximal, h1, h2, h3, h4, h5, f0] at hq
              · simp [Cell.get_actual_proximal, h1, h2, h3, h4, h5, f0, f1] at hq

/-- and conversely one more unit of fuel suffices for the caller -/
theorem actualProximal_next_step (c : Cell ℝ) (id id' n : Nat) (q' : Pt ℝ) (h : nextId c id = some id')
    (hq : actualProximal c n id' = .ok q') : ∃ q, actualProximal c (n + 1) id = .ok q := by
  unfold nextId at h
  cases h1 : getSegment c id with
  | error e => simp [h1] at h
  | ok seg =>
    cases h2 : seg.proximal with
    | some p => simp [h1, h2] at h
    | none =>
      cases h3 : seg.parent with
      | none => simp [h1, h2, h3] at h
      | some par =>
        cases h4 : getSegment c par.segments with
        | error e => simp [h1, h2, h3, h4] at h
        | ok ps =>
          by_cases f1 : par.fraction_along = 1
          · simp [h1, h2, h3, h4, f1] at h
          · simp [h1, h2, h3, h4, f1] at h
            subst h
            exact ⟨_, get_actual_proximal_step _ _ id seg ps par q' h1 h2 h3 h4 hq⟩

theorem actualProximal_ok_mem (c : Cell ℝ) (id n : Nat) (q : Pt ℝ) (hq : actualProximal c n id = .ok q) :
    id ∈ c.map Prod.fst := by
  cases n with
  | zero => simp [actualProximal] at hq
  | succ n =>
    simp only [actualProximal] at hq
    cases h1 : getSegment c id with
    | error e => simp [Cell.get_actual_proximal, h1] at hq
    | ok seg =>
      obtain ⟨pre, post, rfl, _⟩ := (getSegment_ok_iff c id seg).mp h1
      simp

/-- `k` is the least fuel with which `get_actual_proximal id` returns a point (= its recursion depth) -/
def MinFuel (c : Cell ℝ) (id k : Nat) : Prop :=
  (∃ q, actualProximal c k id = .ok q) ∧ ∀ m, m < k → ¬ ∃ q, actualProximal c m id = .ok q

theorem minFuel_exists (c : Cell ℝ) (n id : Nat) (q : Pt ℝ) (hq : actualProximal c n id = .ok q) :
    ∃ k, k ≤ n ∧ MinFuel c id k := by
  induction n generalizing q with
  | zero => simp [actualProximal] at hq
  | succ n ih =>
    by_cases h : ∃ q', actualProximal c n id = .ok q'
    · obtain ⟨q', hq'⟩ := h
      obtain ⟨k, hk, hm⟩ := ih q' hq'
      exact ⟨k, by omega, hm⟩
    · refine ⟨n + 1, Nat.le_refl _, ⟨q, hq⟩, fun m hm hx => ?_⟩
      obtain ⟨q', hq'⟩ := hx
      exact h ⟨q', actualProximal_mono c m id q' hq' n (by omega)⟩

theorem minFuel_unique (c : Cell ℝ) (id k k' : Nat) (h : MinFuel c id k) (h' : MinFuel c id k') : k = k' := by
  rcases Nat.lt_trichotomy k k' with lt | eq | gt
  · exact absurd h.1 (h'.2 k lt)
  · exact eq
  · exact absurd h'.1 (h.2 k' gt)

theorem minFuel_pos (c : Cell ℝ) (id k : Nat) (h : MinFuel c id k) : 1 ≤ k := by
  cases k with
  | zero => obtain ⟨q, hq⟩ := h.1; simp [actualProximal] at hq
  | succ k => omega

theorem minFuel_next_none (c : Cell ℝ) (id k : Nat) (hn : nextId c id = none) (h : MinFuel c id k) : k = 1 := by
  have hp := minFuel_pos c id k h
  obtain ⟨j, rfl⟩ : ∃ j, k = j + 1 := ⟨k - 1, by omega⟩
  cases j with
  | zero => rfl
  | succ j =>
    exfalso
    obtain ⟨q, hq⟩ := h.1
    rw [actualProximal_next_none c id (j + 1) 0 hn] at hq
    exact h.2 1 (by omega) ⟨q, hq⟩

theorem minFuel_next_some (c : Cell ℝ) (id id' k : Nat) (hn : nextId c id = some id') (h : MinFuel c id (k + 1)) :
    MinFuel c id' k := by
  obtain ⟨q, hq⟩ := h.1
  refine ⟨actualProximal_next_some c id id' k q hn hq, fun m hm hx => ?_⟩
  obtain ⟨q', hq'⟩ := hx
  exact h.2 (m + 1) (by omega) (actualProximal_next_step c id id' m q' hn hq')

/-- the ids visited by a successful call: as many as the least fuel, pairwise distinct, all ids of segments of the cell -/
theorem minFuel_chain (c : Cell ℝ) (k id : Nat) (h : MinFuel c id k) :
    ∃ l : List Nat, l.length = k ∧ l.Nodup ∧ (∀ x ∈ l, x ∈ c.map Prod.fst) ∧
      ∀ x ∈ l, ∃ j, j ≤ k ∧ MinFuel c x j := by
  induction k generalizing id with
  | zero => exact absurd (minFuel_pos c id 0 h) (by omega)
  | succ k ih =>
    have hmem : id ∈ c.map Prod.fst := by
      obtain ⟨q, hq⟩ := h.1; exact actualProximal_ok_mem c id _ q hq
    cases hn : nextId c id with
    | none =>
      have := minFuel_next_none c id (k + 1) hn h
      have hk : k = 0 := by omega
      subst hk
      exact ⟨[id], rfl, List.nodup_singleton id, by simpa using hmem, fun x hx => by
        have : x = id := by simpa using hx
        subst this; exact ⟨1, Nat.le_refl _, h⟩⟩
    | some id' =>
      have h' := minFuel_next_some c id id' k hn h
      obtain ⟨l, hl, hnd, hsub, hmf⟩ := ih id' h'
      refine ⟨id :: l, by simp [hl], ?_, ?_, ?_⟩
      · refine List.nodup_cons.mpr ⟨fun hin => ?_, hnd⟩
        obtain ⟨j, hj, hm⟩ := hmf id hin
        have := minFuel_unique c id _ _ hm h
        omega
      · intro x hx
        rcases List.mem_cons.mp hx with rfl | hx
        · exact hmem
        · exact hsub x hx
      · intro x hx
        rcases List.mem_cons.mp hx with rfl | hx
        · exact ⟨k + 1, Nat.le_refl _, h⟩
        · obtain ⟨j, hj, hm⟩ := hmf x hx
          exact ⟨j, by omega, hm⟩

/-- **explicit fuel bound**: a recursion that returns at all returns within as many calls as the cell has segments
    (every call visits a different segment), so fuel `c.length` decides the result -/
theorem actualProximal_fuel_bound (c : Cell ℝ) (n id : Nat) (q : Pt ℝ) (hq : actualProximal c n id = .ok q) :
    actualProximal c c.length id = .ok q := by
  obtain ⟨k, hkn, hm⟩ := minFuel_exists c n id q hq
  obtain ⟨l, hl, hnd, hsub, _⟩ := minFuel_chain c k id hm
  have hlen : l.length ≤ (c.map Prod.fst).length := (List.subperm_of_subset hnd hsub).length_le
  obtain ⟨q', hq'⟩ := hm.1
  have e := actualProximal_mono c k id q' hq' n hkn
  rw [hq] at e
  cases e
  exact actualProximal_mono c k id q hq' c.length (by simpa [hl] using hlen)

end NmlVerif.Geom
