import NmlVerif.Proofs.Geom
/-!
# C12 — `Cell.get_segment_length / _volume / _surface_area` (generated): own and inherited proximal point
-/
namespace NmlVerif.Geom
open NmlVerif.Gen.Geom

section cell
variable (gs : Nat → Except Err (Seg ℝ)) (ap : Nat → Except Err (Pt ℝ))

theorem get_segment_length_own (id : Nat) (seg : Seg ℝ) (p : Pt ℝ) (h1 : gs id = .ok seg)
    (h2 : seg.proximal = some p) : Cell.get_segment_length gs ap id = Segment.length seg := by
  simp [Cell.get_segment_length, h1, h2]

theorem get_segment_length_inh (id : Nat) (seg : Seg ℝ) (q : Pt ℝ) (h1 : gs id = .ok seg)
    (h2 : seg.proximal = none) (h3 : ap id = .ok q) :
    Cell.get_segment_length gs ap id = Segment.length (mkSeg q seg.distal none) := by
  rw [length_eval, dist3_comm]
  simp [Cell.get_segment_length, h1, h2, h3, distance_to_eval]

theorem get_segment_volume_own (id : Nat) (seg : Seg ℝ) (p : Pt ℝ) (h1 : gs id = .ok seg)
    (h2 : seg.proximal = some p) : Cell.get_segment_volume gs ap id = Segment.volume seg := by
  simp [Cell.get_segment_volume, h1, h2]

theorem get_segment_volume_inh (id : Nat) (seg : Seg ℝ) (q : Pt ℝ) (h1 : gs id = .ok seg)
    (h2 : seg.proximal = none) (h3 : ap id = .ok q) :
    Cell.get_segment_volume gs ap id = Segment.volume (mkSeg q seg.distal none) := by
  simp [Cell.get_segment_volume, h1, h2, h3, mkSeg]

theorem get_segment_surface_area_own (id : Nat) (seg : Seg ℝ) (p : Pt ℝ) (h1 : gs id = .ok seg)
    (h2 : seg.proximal = some p) : Cell.get_segment_surface_area gs ap id = Segment.surface_area seg := by
  simp [Cell.get_segment_surface_area, h1, h2]

theorem get_segment_surface_area_inh (id : Nat) (seg : Seg ℝ) (q : Pt ℝ) (h1 : gs id = .ok seg)
    (h2 : seg.proximal = none) (h3 : ap id = .ok q) :
    Cell.get_segment_surface_area gs ap id = Segment.surface_area (mkSeg q seg.distal none) := by
  simp [Cell.get_segment_surface_area, h1, h2, h3, mkSeg]

end cell

end NmlVerif.Geom
