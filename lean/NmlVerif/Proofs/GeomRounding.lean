import NmlVerif.Proofs.Geom
/-!
# C12 — floating-point error model for the translated formulas (the clause "to floating-point rounding")

`Near u k x X` : `x` is within `k` accumulated relative roundings of size `u` of the non-negative real `X`
(`(1-u)^k·X ≤ x ≤ (1+u)^k·X`, hence `|x − X| ≤ ((1+u)^k − 1)·X ≈ k·u·X`, `near_abs`).

`FloatModel u` is the STANDARD MODEL of floating-point arithmetic as a hypothesis: every `+ − × ÷ √` returns the
exact result times `(1+δ)`, `|δ| ≤ u`; `pi` is the rounded constant; halving is exact; small integer literals are exact;
nothing overflows (`finite = true`). The generated definitions of `Gen/Geom.lean` are polymorphic in `GeomOps α`, so
they can be EVALUATED IN SUCH A MODEL (`FloatModel.ops`): the rounding theorems of `Props/C12*.lean` are about the
very terms the translator emits, in the evaluation order of the source.

What is trusted, not proved: that CPython `float` arithmetic is such a model with `u = 2⁻⁵³` while no intermediate
result overflows or becomes subnormal (IEEE-754 binary64, round to nearest), and that `x ** 2`, `x ** 3`, `x ** 0.5`
are as accurate as `x*x`, `(x*x)*x`, `sqrt x` (checked on every run by the Float correspondence: bit-for-bit on
exactly representable cases, 1e-14 otherwise).
-/
set_option linter.unusedSectionVars false
set_option linter.unusedVariables false
namespace NmlVerif.Geom.Rounding
open NmlVerif.Gen.Geom NmlVerif.Geom

/-- `x` approximates `X ≥ 0` with at most `k` accumulated relative roundings of size `u` -/
def Near (u : ℝ) (k : Nat) (x X : ℝ) : Prop := (1 - u) ^ k * X ≤ x ∧ x ≤ (1 + u) ^ k * X

section near
variable {u : ℝ} (hu0 : 0 ≤ u) (hu1 : u ≤ 1)
include hu0 hu1

theorem near_refl (X : ℝ) : Near u 0 X X := by simp [Near]

theorem near_nonneg {k : Nat} {x X : ℝ} (hX : 0 ≤ X) (h : Near u k x X) : 0 ≤ x :=
  le_trans (mul_nonneg (pow_nonneg (by linarith) k) hX) h.1

theorem near_mono {j k : Nat} {x X : ℝ} (hjk : j ≤ k) (hX : 0 ≤ X) (h : Near u j x X) : Near u k x X := by
  have h1 : (1 - u) ^ k ≤ (1 - u) ^ j := pow_le_pow_of_le_one (by linarith) (by linarith) hjk
  have h2 : (1 + u) ^ j ≤ (1 + u) ^ k := pow_le_pow_right₀ (by linarith) hjk
  exact ⟨le_trans (mul_le_mul_of_nonneg_right h1 hX) h.1, le_trans h.2 (mul_le_mul_of_nonneg_right h2 hX)⟩

theorem near_round {k : Nat} {x X δ : ℝ} (hX : 0 ≤ X) (h : Near u k x X) (hδ : |δ| ≤ u) :
    Near u (k + 1) (x * (1 + δ)) X := by
  have hx := near_nonneg hu0 hu1 hX h
  obtain ⟨d1, d2⟩ := abs_le.mp hδ
  constructor
  · calc (1 - u) ^ (k + 1) * X = ((1 - u) ^ k * X) * (1 - u) := by ring
      _ ≤ x * (1 - u) := mul_le_mul_of_nonneg_right h.1 (by linarith)
      _ ≤ x * (1 + δ) := mul_le_mul_of_nonneg_left (by linarith) hx
  · calc x * (1 + δ) ≤ x * (1 + u) := mul_le_mul_of_nonneg_left (by linarith) hx
      _ ≤ ((1 + u) ^ k * X) * (1 + u) := mul_le_mul_of_nonneg_right h.2 (by linarith)
      _ = (1 + u) ^ (k + 1) * X := by ring

theorem near_add {k : Nat} {a A b B : ℝ} (ha : Near u k a A) (hb : Near u k b B) : Near u k (a + b) (A + B) := by
  constructor
  · rw [mul_add]; exact add_le_add ha.1 hb.1
  · rw [mul_add]; exact add_le_add ha.2 hb.2

theorem near_mul {j k : Nat} {a A b B : ℝ} (hA : 0 ≤ A) (hB : 0 ≤ B) (ha : Near u j a A) (hb : Near u k b B) :
    Near u (j + k) (a * b) (A * B) := by
  have h1 : 0 ≤ (1 - u) ^ j * A := mul_nonneg (pow_nonneg (by linarith) j) hA
  have h2 : 0 ≤ (1 - u) ^ k * B := mul_nonneg (pow_nonneg (by linarith) k) hB
  have ha0 := near_nonneg hu0 hu1 hA ha
  have hb0 := near_nonneg hu0 hu1 hB hb
  constructor
  · calc (1 - u) ^ (j + k) * (A * B) = ((1 - u) ^ j * A) * ((1 - u) ^ k * B) := by ring
      _ ≤ a * b := mul_le_mul ha.1 hb.1 h2 ha0
  · calc a * b ≤ ((1 + u) ^ j * A) * ((1 + u) ^ k * B) :=
          mul_le_mul ha.2 hb.2 hb0 (le_trans ha0 ha.2)
      _ = (1 + u) ^ (j + k) * (A * B) := by ring

theorem near_sqrt {k : Nat} {x X : ℝ} (hX : 0 ≤ X) (h : Near u (2 * k) x X) :
    Near u k (Real.sqrt x) (Real.sqrt X) := by
  have e1 : Real.sqrt ((1 - u) ^ (2 * k) * X) = (1 - u) ^ k * Real.sqrt X := by
    rw [Real.sqrt_mul (by positivity), pow_mul', Real.sqrt_sq (pow_nonneg (by linarith) k)]
  have e2 : Real.sqrt ((1 + u) ^ (2 * k) * X) = (1 + u) ^ k * Real.sqrt X := by
    rw [Real.sqrt_mul (by positivity), pow_mul', Real.sqrt_sq (pow_nonneg (by linarith) k)]
  exact ⟨e1 ▸ Real.sqrt_le_sqrt h.1, e2 ▸ Real.sqrt_le_sqrt h.2⟩

/-- the square of a once-rounded SIGNED quantity -/
theorem near_sq_signed {X δ : ℝ} (hδ : |δ| ≤ u) : Near u 2 ((X * (1 + δ)) * (X * (1 + δ))) (X * X) := by
  obtain ⟨d1, d2⟩ := abs_le.mp hδ
  have hXX : 0 ≤ X * X := mul_self_nonneg X
  have e : (X * (1 + δ)) * (X * (1 + δ)) = (1 + δ) ^ 2 * (X * X) := by ring
  rw [e]
  constructor
  · exact mul_le_mul_of_nonneg_right (pow_le_pow_left₀ (by linarith) (by linarith) 2) hXX
  · exact mul_le_mul_of_nonneg_right (pow_le_pow_left₀ (by linarith) (by linarith) 2) hXX

theorem pow_sum_ge_two (k : Nat) : 2 ≤ (1 + u) ^ k + (1 - u) ^ k := by
  induction k with
  | zero => norm_num
  | succ n ih =>
    have h : (1 - u) ^ n ≤ (1 + u) ^ n := pow_le_pow_left₀ (by linarith) (by linarith) n
    have : (1 + u) ^ (n + 1) + (1 - u) ^ (n + 1) = ((1 + u) ^ n + (1 - u) ^ n) + u * ((1 + u) ^ n - (1 - u) ^ n) := by
      ring
    rw [this]
    have := mul_nonneg hu0 (sub_nonneg.mpr h)
    linarith

/-- the usual reading: relative error at most `(1+u)^k − 1` (≈ `k·u`) -/
theorem near_abs {k : Nat} {x X : ℝ} (hX : 0 ≤ X) (h : Near u k x X) : |x - X| ≤ ((1 + u) ^ k - 1) * X := by
  have h2 := pow_sum_ge_two hu0 hu1 k
  rw [abs_le]
  constructor
  · have : (2 - (1 + u) ^ k) * X ≤ (1 - u) ^ k * X := mul_le_mul_of_nonneg_right (by linarith) hX
    nlinarith [h.1]
  · nlinarith [h.2]

end near

/-- **Standard model of floating-point arithmetic** with unit roundoff `u`: every operation returns the exact result
    times `(1 + δ)`, `|δ| ≤ u` (IEEE-754 round-to-nearest binary64: `u = 2⁻⁵³`, valid while nothing overflows or
    becomes subnormal). `pi` is the rounded constant; halving is exact in binary floating point; integer literals
    are exact. This structure is the HYPOTHESIS of the rounding theorems; that CPython's `float` satisfies it in
    range is trusted (and sampled by the harness), not proved. -/
structure FloatModel (u : ℝ) where
  add : ℝ → ℝ → ℝ
  sub : ℝ → ℝ → ℝ
  mul : ℝ → ℝ → ℝ
  div : ℝ → ℝ → ℝ
  sqrt : ℝ → ℝ
  pi : ℝ
  add_spec : ∀ a b, ∃ δ, |δ| ≤ u ∧ add a b = (a + b) * (1 + δ)
  sub_spec : ∀ a b, ∃ δ, |δ| ≤ u ∧ sub a b = (a - b) * (1 + δ)
  mul_spec : ∀ a b, ∃ δ, |δ| ≤ u ∧ mul a b = (a * b) * (1 + δ)
  div_spec : ∀ a b, ∃ δ, |δ| ≤ u ∧ div a b = (a / b) * (1 + δ)
  sqrt_spec : ∀ a, ∃ δ, |δ| ≤ u ∧ sqrt a = Real.sqrt a * (1 + δ)
  pi_spec : ∃ δ, |δ| ≤ u ∧ pi = Real.pi * (1 + δ)
  half_exact : ∀ a, div a 2 = a / 2

/-- the operations of the generated code, interpreted in a floating-point model (no overflow: `finite` is true) -/
@[reducible] noncomputable def FloatModel.ops {u : ℝ} (M : FloatModel u) : GeomOps ℝ where
  add := M.add
  sub := M.sub
  mul := M.mul
  div := M.div
  sqrt := M.sqrt
  pi := M.pi
  lit := fun n => (n : ℝ)
  eq := fun a b => decide (a = b)
  finite := fun _ => true

/-- exact real arithmetic is a floating-point model for every `u ≥ 0` (the hypotheses are satisfiable) -/
noncomputable def FloatModel.exact (u : ℝ) (hu : 0 ≤ u) : FloatModel u where
  add := (· + ·)
  sub := (· - ·)
  mul := (· * ·)
  div := (· / ·)
  sqrt := Real.sqrt
  pi := Real.pi
  add_spec := fun a b => ⟨0, by simpa using hu, by simp⟩
  sub_spec := fun a b => ⟨0, by simpa using hu, by simp⟩
  mul_spec := fun a b => ⟨0, by simpa using hu, by simp⟩
  div_spec := fun a b => ⟨0, by simpa using hu, by simp⟩
  sqrt_spec := fun a => ⟨0, by simpa using hu, by simp⟩
  pi_spec := ⟨0, by simpa using hu, by simp⟩
  half_exact := fun a => rfl

section fl
variable {u : ℝ} (M : FloatModel u) (hu0 : 0 ≤ u) (hu1 : u ≤ 1)

/-- the generated helpers evaluated in the floating-point model -/
noncomputable def flLength (s : Seg ℝ) : Except Err ℝ := @Segment.length ℝ M.ops s
noncomputable def flVolume (s : Seg ℝ) : Except Err ℝ := @Segment.volume ℝ M.ops s
noncomputable def flSurfaceArea (s : Seg ℝ) : Except Err ℝ := @Segment.surface_area ℝ M.ops s
noncomputable def flDistanceTo (a b : Pt ℝ) : Except Err ℝ := @Point3DWithDiam.distance_to ℝ M.ops a b

/-- `x ** 2` in the model -/
noncomputable def FloatModel.sq (x : ℝ) : ℝ := M.mul x x

theorem ipow2 (x : ℝ) : @ipow ℝ M.ops x 2 = M.sq x := rfl
theorem ipow3 (x : ℝ) : @ipow ℝ M.ops x 3 = M.mul (M.sq x) x := rfl
theorem noOverflow (x : ℝ) (n : Nat) : @powOverflows ℝ M.ops x n = false := rfl

include hu0 hu1

theorem near_fl_add {k : Nat} {a A b B : ℝ} (hA : 0 ≤ A) (hB : 0 ≤ B) (ha : Near u k a A) (hb : Near u k b B) :
    Near u (k + 1) (M.add a b) (A + B) := by
  obtain ⟨δ, hδ, e⟩ := M.add_spec a b
  rw [e]; exact near_round hu0 hu1 (add_nonneg hA hB) (near_add hu0 hu1 ha hb) hδ

theorem near_fl_mul {j k : Nat} {a A b B : ℝ} (hA : 0 ≤ A) (hB : 0 ≤ B) (ha : Near u j a A) (hb : Near u k b B) :
    Near u (j + k + 1) (M.mul a b) (A * B) := by
  obtain ⟨δ, hδ, e⟩ := M.mul_spec a b
  rw [e]; exact near_round hu0 hu1 (mul_nonneg hA hB) (near_mul hu0 hu1 hA hB ha hb) hδ

theorem near_fl_sqrt {k : Nat} {x X : ℝ} (hX : 0 ≤ X) (h : Near u (2 * k) x X) :
    Near u (k + 1) (M.sqrt x) (Real.sqrt X) := by
  obtain ⟨δ, hδ, e⟩ := M.sqrt_spec x
  rw [e]; exact near_round hu0 hu1 (Real.sqrt_nonneg X) (near_sqrt hu0 hu1 hX h) hδ

/-- `(a - b) ** 2` : three roundings whatever the signs -/
theorem near_fl_sub_sq (a b : ℝ) : Near u 3 (M.sq (M.sub a b)) ((a - b) * (a - b)) := by
  obtain ⟨δ, hδ, e⟩ := M.sub_spec a b
  obtain ⟨δ', hδ', e'⟩ := M.mul_spec (M.sub a b) (M.sub a b)
  unfold FloatModel.sq
  rw [e', e]
  exact near_round hu0 hu1 (mul_self_nonneg _) (near_sq_signed hu0 hu1 hδ) hδ'

/-- `x ** 2` of an exactly known `x` : one rounding whatever the sign -/
theorem near_fl_sq_exact (x : ℝ) : Near u 1 (M.sq x) (x * x) := by
  obtain ⟨δ', hδ', e'⟩ := M.mul_spec x x
  unfold FloatModel.sq
  rw [e']
  exact near_round hu0 hu1 (mul_self_nonneg _) (near_refl hu0 hu1 _) hδ'

theorem near_fl_pi : Near u 1 M.pi Real.pi := by
  obtain ⟨δ, hδ, e⟩ := M.pi_spec
  have := near_round hu0 hu1 Real.pi_pos.le (near_refl hu0 hu1 Real.pi) hδ
  rw [e]; simpa using this

/-- division by an exact positive constant -/
theorem near_fl_div_const {k : Nat} {a A c : ℝ} (hA : 0 ≤ A) (hc : 0 < c) (ha : Near u k a A) :
    Near u (k + 1) (M.div a c) (A / c) := by
  obtain ⟨δ, hδ, e⟩ := M.div_spec a c
  rw [e]
  refine near_round hu0 hu1 (div_nonneg hA hc.le) ?_ hδ
  constructor
  · rw [← mul_div_assoc]; exact div_le_div_of_nonneg_right ha.1 hc.le
  · rw [← mul_div_assoc]; exact div_le_div_of_nonneg_right ha.2 hc.le

/-- the squared-distance sum and its root, as the code evaluates them -/
theorem near_fl_dist (a b : Pt ℝ) :
    Near u 4 (M.sqrt (M.add (M.add (M.sq (M.sub a.x b.x)) (M.sq (M.sub a.y b.y))) (M.sq (M.sub a.z b.z))))
      (dist3 a b) := by
  have hx := near_fl_sub_sq M hu0 hu1 a.x b.x
  have hy := near_fl_sub_sq M hu0 hu1 a.y b.y
  have hz := near_fl_sub_sq M hu0 hu1 a.z b.z
  have nx := mul_self_nonneg (a.x - b.x)
  have ny := mul_self_nonneg (a.y - b.y)
  have nz := mul_self_nonneg (a.z - b.z)
  have hxy := near_fl_add M hu0 hu1 nx ny hx hy
  have hs := near_fl_add M hu0 hu1 (add_nonneg nx ny) nz hxy (near_mono hu0 hu1 (by omega) nz hz)
  have hs6 := near_mono hu0 hu1 (show 5 ≤ 2 * 3 by omega) (add_nonneg (add_nonneg nx ny) nz) hs
  have := near_fl_sqrt M hu0 hu1 (add_nonneg (add_nonneg nx ny) nz) hs6
  have e : dist3 a b = Real.sqrt ((a.x - b.x) * (a.x - b.x) + (a.y - b.y) * (a.y - b.y) + (a.z - b.z) * (a.z - b.z)) := by
    unfold dist3; congr 1; ring
  rw [e]; exact this

/-- the distance as the code computes it in the model -/
noncomputable def flDist (a b : Pt ℝ) : ℝ :=
  M.sqrt (M.add (M.add (M.sq (M.sub a.x b.x)) (M.sq (M.sub a.y b.y))) (M.sq (M.sub a.z b.z)))

omit hu0 hu1 in
theorem flLength_eq (p d : Pt ℝ) (par : Option (Par ℝ)) :
    @Segment.length ℝ M.ops ⟨some p, d, par⟩ = .ok (flDist M p d) := by
  simp only [Segment.length, noOverflow, ipow2, Bool.false_eq_true, if_false]
  rfl

omit hu0 hu1 in
theorem ops_eq (a b : ℝ) : @GeomOps.eq ℝ M.ops a b = decide (a = b) := rfl
omit hu0 hu1 in
theorem ops_half (a : ℝ) : @GeomOps.div ℝ M.ops a (@GeomOps.lit ℝ M.ops 2) = a / 2 := by
  show M.div a ((2 : Nat) : ℝ) = a / 2
  rw [Nat.cast_ofNat]; exact M.half_exact a

end fl
end NmlVerif.Geom.Rounding
