import NmlVerif.Proofs.Geom
/-!
# C12 — `Segment.volume` (generated) and `Hand.volume` evaluated at ℝ
-/
namespace NmlVerif.Geom
open NmlVerif.Gen.Geom

open Classical in
theorem volume_eval (p d : Pt ℝ) (par : Option (Par ℝ)) :
    Segment.volume (mkSeg p d par) =
      if Coincident p d then
        (if p.diameter = d.diameter then .ok (sphereVolume (p.diameter / 2))
         else .error ⟨"Exception", "Cannot get volume of segment "⟩)
      else .ok (frustumVolume (dist3 p d) (p.diameter / 2) (d.diameter / 2)) := by
  by_cases hc : Coincident p d
  · have hc' := hc
    obtain ⟨hx, hy, hz⟩ := hc'
    by_cases hd : p.diameter = d.diameter
    · simp [Segment.volume, mkSeg, hc, hx, hy, hz, hd, sphereVolume] <;> ring
    · have : ¬ p.diameter / 2 = d.diameter / 2 := by
        intro h; apply hd; linarith
      simp [Segment.volume, mkSeg, hc, hx, hy, hz, hd, this]
  · have h3 : ¬ ((p.x = d.x ∧ p.y = d.y) ∧ p.z = d.z) := fun h => hc ⟨h.1.1, h.1.2, h.2⟩
    have hl := length_eval p d par
    simp only [mkSeg] at hl
    simp only [Segment.volume, mkSeg, hl, eq_real, Bool.and_eq_true, decide_eq_true_eq, h3, if_false, hc]
    simp only [frustumVolume, ipow_real, add_real, mul_real, div_real, pi_real, lit_real, Nat.cast_ofNat,
      powOverflows_real, Bool.false_eq_true, if_false]
    congr 1
    ring

theorem volume_sphere_case (p d : Pt ℝ) (par : Option (Par ℝ)) (hc : Coincident p d) (hd : p.diameter = d.diameter) :
    Segment.volume (mkSeg p d par) = .ok (sphereVolume (p.diameter / 2)) := by
  rw [volume_eval, if_pos hc, if_pos hd]

theorem volume_raise_case (p d : Pt ℝ) (par : Option (Par ℝ)) (hc : Coincident p d) (hd : p.diameter ≠ d.diameter) :
    Segment.volume (mkSeg p d par) = .error ⟨"Exception", "Cannot get volume of segment "⟩ := by
  rw [volume_eval, if_pos hc, if_neg hd]

theorem volume_frustum_case (p d : Pt ℝ) (par : Option (Par ℝ)) (hc : ¬ Coincident p d) :
    Segment.volume (mkSeg p d par) = .ok (frustumVolume (dist3 p d) (p.diameter / 2) (d.diameter / 2)) := by
  rw [volume_eval, if_neg hc]

/-- two segments with the same coincidence status, diameters and distance have the same volume / refusal -/
theorem volume_congr (p d p' d' : Pt ℝ) (par par' : Option (Par ℝ)) (hc : Coincident p' d' ↔ Coincident p d)
    (h1 : p'.diameter = p.diameter) (h2 : d'.diameter = d.diameter) (hL : dist3 p' d' = dist3 p d) :
    Segment.volume (mkSeg p' d' par') = Segment.volume (mkSeg p d par) := by
  by_cases c : Coincident p d
  · by_cases e : p.diameter = d.diameter
    · rw [volume_sphere_case p d par c e, volume_sphere_case p' d' par' (hc.mpr c) (by rw [h1, h2, e]), h1]
    · rw [volume_raise_case p d par c e, volume_raise_case p' d' par' (hc.mpr c) (by rw [h1, h2]; exact e)]
  · rw [volume_frustum_case p d par c, volume_frustum_case p' d' par' (fun h => c (hc.mp h)), hL, h1, h2]

/-- the value does not depend on the `parent` member -/
theorem volume_par_irrel (p d : Pt ℝ) (par par' : Option (Par ℝ)) :
    Segment.volume (mkSeg p d par) = Segment.volume (mkSeg p d par') := by
  rw [volume_eval, volume_eval]

open Classical in
theorem hand_volumeOf_eval (p d : Pt ℝ) :
    Hand.volumeOf p d =
      if Coincident p d then
        (if p.diameter = d.diameter then .ok (sphereVolume (p.diameter / 2))
         else .error ⟨"Exception", "Cannot get volume of segment "⟩)
      else .ok (frustumVolume (dist3 p d) (p.diameter / 2) (d.diameter / 2)) := by
  have hr : (p.diameter / 2 = d.diameter / 2) ↔ p.diameter = d.diameter := by
    constructor <;> intro h <;> linarith
  by_cases hc : Coincident p d
  · have hb := (hand_coincident_iff p d).mpr hc
    by_cases hd : p.diameter = d.diameter
    · simp [Hand.volumeOf, hb, hc, hd, hand_radius, hand_pow_real, sphereVolume]
    · simp [Hand.volumeOf, hb, hc, hd, hand_radius, hr]
  · have hb : Hand.coincident p d = false := by
      rw [Bool.eq_false_iff]; intro h; exact hc ((hand_coincident_iff p d).mp h)
    simp only [Hand.volumeOf, hb, hc, hand_dist_eval, hand_radius, hand_pow_real, if_false, Bool.false_eq_true]
    simp only [frustumVolume, add_real, mul_real, div_real, pi_real, lit_real, Nat.cast_ofNat]
    congr 1
    ring

theorem gen_eq_hand_volume' (s : Seg ℝ) : Segment.volume s = Hand.volume s := by
  obtain ⟨prox, d, par⟩ := s
  cases prox with
  | none => simp [Segment.volume, Hand.volume]
  | some p =>
    have := volume_eval p d par
    simp only [mkSeg] at this
    rw [this]; simp only [Hand.volume]; rw [hand_volumeOf_eval]

end NmlVerif.Geom
