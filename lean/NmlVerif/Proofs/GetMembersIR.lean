import NmlVerif.Model.GetMembersIR
import NmlVerif.Proofs.Members
/-! Lemmas about the imperative vocabulary of `_get_members` (`Model/GetMembersIR.lean`). Core Lean only. -/
namespace NmlVerif.Add.GM
open NmlVerif

/-! ### association lists -/

def hasKey (ds : List (Nat × Dict)) (x : Nat) : Bool := ds.any (fun d => d.1 == x)

theorem dictGet_dictSet_eq : ∀ (d : Dict) (k : Nat) (v : List Item), dictGet (dictSet d k v) k = some v
  | [], k, v => by simp [dictSet, dictGet]
  | (k', v') :: r, k, v => by
    by_cases h : k' = k
    · subst h; simp [dictSet, dictGet]
    · have hb : (k' == k) = false := by simpa using h
      have ih := dictGet_dictSet_eq r k v
      simp only [dictGet] at ih
      simp [dictSet, dictGet, hb, ih]

theorem dictGet_dictSet_ne : ∀ (d : Dict) (k k' : Nat) (v : List Item), k' ≠ k →
    dictGet (dictSet d k v) k' = dictGet d k'
  | [], k, k', v, h => by
    have hb : (k == k') = false := by simpa using (Ne.symm h)
    simp [dictSet, dictGet, List.find?, hb]
  | (a, w) :: r, k, k', v, h => by
    by_cases ha : a = k
    · subst ha
      have hb : (a == k') = false := by simpa using (Ne.symm h)
      simp [dictSet, dictGet, List.find?, hb]
    · have hb : (a == k) = false := by simpa using ha
      have ih := dictGet_dictSet_ne r k k' v h
      simp only [dictGet] at ih
      by_cases hk : a = k'
      · subst hk; simp [dictSet, dictGet, List.find?, hb]
      · have hb' : (a == k') = false := by simpa using hk
        simp [dictSet, dictGet, List.find?, hb, hb', ih]

theorem dictSet_dictSet : ∀ (d : Dict) (k : Nat) (v w : List Item), dictSet (dictSet d k v) k w = dictSet d k w
  | [], k, v, w => by simp [dictSet]
  | (a, x) :: r, k, v, w => by
    by_cases ha : a = k
    · subst ha; simp [dictSet]
    · have hb : (a == k) = false := by simpa using ha
      simp [dictSet, hb, dictSet_dictSet r k v w]

theorem find_setDictOf_eq : ∀ (ds : List (Nat × Dict)) (o : Nat) (d : Dict),
    (setDictOf ds o d).find? (fun p => p.1 == o) = some (o, d)
  | [], o, d => by simp [setDictOf]
  | (a, x) :: r, o, d => by
    by_cases ha : a = o
    · subst ha; simp [setDictOf]
    · have hb : (a == o) = false := by simpa using ha
      simp [setDictOf, hb, find_setDictOf_eq r o d]

theorem find_setDictOf_ne : ∀ (ds : List (Nat × Dict)) (o o' : Nat) (d : Dict), o' ≠ o →
    (setDictOf ds o d).find? (fun p => p.1 == o') = ds.find? (fun p => p.1 == o')
  | [], o, o', d, h => by
    have hb : (o == o') = false := by simpa using (Ne.symm h)
    simp [setDictOf, List.find?, hb]
  | (a, x) :: r, o, o', d, h => by
    by_cases ha : a = o
    · subst ha
      have hb : (a == o') = false := by simpa using (Ne.symm h)
      simp [setDictOf, List.find?, hb]
    · have hb : (a == o) = false := by simpa using ha
      by_cases hk : a = o'
      · subst hk; simp [setDictOf, List.find?, hb]
      · have hb' : (a == o') = false := by simpa using hk
        simp [setDictOf, List.find?, hb, hb', find_setDictOf_ne r o o' d h]

theorem setDictOf_setDictOf : ∀ (ds : List (Nat × Dict)) (o : Nat) (d e : Dict),
    setDictOf (setDictOf ds o d) o e = setDictOf ds o e
  | [], o, d, e => by simp [setDictOf]
  | (a, x) :: r, o, d, e => by
    by_cases ha : a = o
    · subst ha; simp [setDictOf]
    · have hb : (a == o) = false := by simpa using ha
      simp [setDictOf, hb, setDictOf_setDictOf r o d e]

theorem hasKey_setDictOf : ∀ (ds : List (Nat × Dict)) (o x : Nat) (d : Dict),
    hasKey (setDictOf ds o d) x = (hasKey ds x || o == x)
  | [], o, x, d => by simp [setDictOf, hasKey]
  | (a, y) :: r, o, x, d => by
    have ih := hasKey_setDictOf r o x d
    simp only [hasKey] at ih ⊢
    by_cases ha : a = o
    · subst ha
      simp only [setDictOf, BEq.rfl, ↓reduceIte, List.any_cons]
      cases (a == x) <;> simp
    · have hb : (a == o) = false := by simpa using ha
      simp only [setDictOf, hb, Bool.false_eq_true, ↓reduceIte, List.any_cons, ih, Bool.or_assoc]

theorem hasKey_of_find {ds : List (Nat × Dict)} {o : Nat} {p : Nat × Dict}
    (h : ds.find? (fun q => q.1 == o) = some p) : hasKey ds o = true ∧ p.1 = o := by
  have h1 := List.find?_some h
  have h2 := List.mem_of_find?_eq_some h
  refine ⟨?_, by simpa using h1⟩
  simp only [hasKey, List.any_eq_true]
  exact ⟨p, h2, h1⟩

theorem mem_setDictOf : ∀ (ds : List (Nat × Dict)) (o : Nat) (d : Dict) (p : Nat × Dict),
    p ∈ setDictOf ds o d → p ∈ ds ∨ p = (o, d)
  | [], o, d, p, h => by simp [setDictOf] at h; exact Or.inr h
  | (a, x) :: r, o, d, p, h => by
    by_cases ha : a = o
    · subst ha
      simp only [setDictOf, BEq.rfl, ↓reduceIte, List.mem_cons] at h
      rcases h with h | h
      · exact Or.inr h
      · exact Or.inl (List.mem_cons_of_mem _ h)
    · have hb : (a == o) = false := by simpa using ha
      simp only [setDictOf, hb, Bool.false_eq_true, ↓reduceIte, List.mem_cons] at h
      rcases h with h | h
      · exact Or.inl (by rw [h]; exact List.mem_cons_self)
      · rcases mem_setDictOf r o d p h with h' | h'
        · exact Or.inl (List.mem_cons_of_mem _ h')
        · exact Or.inr h'

/-! ### attribute lookup -/

def ownerOf (mro : List MroEntry) (ds : List (Nat × Dict)) : Option Nat :=
  (mro.find? (fun e => hasKey ds e.1)).map (·.1)

def ownDictOf (mro : List MroEntry) (ds : List (Nat × Dict)) : Option (Nat × Dict) :=
  match ownerOf mro ds with
  | none => none
  | some o => ds.find? (fun d => d.1 == o)

theorem owner_eq (σ : St) : owner? σ = ownerOf σ.mro σ.dicts := rfl
theorem ownDict_eq (σ : St) : ownDict? σ = ownDictOf σ.mro σ.dicts := rfl

/-- writing into the dict of a class that already carries one does not change which class the lookup finds -/
theorem ownerOf_setDictOf (mro : List MroEntry) (ds : List (Nat × Dict)) (o : Nat) (d : Dict)
    (ho : hasKey ds o = true) : ownerOf mro (setDictOf ds o d) = ownerOf mro ds := by
  simp only [ownerOf]
  have hf : (fun e : MroEntry => hasKey (setDictOf ds o d) e.1) = (fun e : MroEntry => hasKey ds e.1) := by
    funext e
    rw [hasKey_setDictOf]
    by_cases he : o = e.1
    · rw [← he, ho]; simp
    · have : (o == e.1) = false := by simpa using he
      rw [this]; simp
  rw [hf]

theorem ownDictOf_find {mro : List MroEntry} {ds : List (Nat × Dict)} {o : Nat} {d : Dict}
    (h : ownDictOf mro ds = some (o, d)) : ds.find? (fun p => p.1 == o) = some (o, d) ∧ ownerOf mro ds = some o := by
  unfold ownDictOf at h
  cases ho : ownerOf mro ds with
  | none => rw [ho] at h; cases h
  | some o' =>
    rw [ho] at h
    simp only at h
    have hk := (hasKey_of_find h).2
    simp only at hk
    subst hk
    exact ⟨h, rfl⟩

theorem ownDictOf_setDictOf (mro : List MroEntry) (ds : List (Nat × Dict)) (o : Nat) (d d' : Dict)
    (h : ownDictOf mro ds = some (o, d)) : ownDictOf mro (setDictOf ds o d') = some (o, d') := by
  obtain ⟨hf, ho⟩ := ownDictOf_find h
  unfold ownDictOf
  rw [ownerOf_setDictOf mro ds o d' (hasKey_of_find hf).1, ho]
  exact find_setDictOf_eq ds o d'

theorem setDictOf_same : ∀ (ds : List (Nat × Dict)) (o : Nat) (d : Dict),
    ds.find? (fun p => p.1 == o) = some (o, d) → setDictOf ds o d = ds
  | [], o, d, h => by simp at h
  | (a, x) :: r, o, d, h => by
    by_cases ha : a = o
    · subst ha
      simp only [List.find?, BEq.rfl, Option.some.injEq, Prod.mk.injEq, true_and] at h
      subst h
      simp [setDictOf]
    · have hb : (a == o) = false := by simpa using ha
      simp only [List.find?, hb] at h
      simp [setDictOf, hb, setDictOf_same r o d h]

theorem dictSet_same : ∀ (d : Dict) (k : Nat) (v : List Item), dictGet d k = some v → dictSet d k v = d
  | [], k, v, h => by simp [dictGet] at h
  | (a, x) :: r, k, v, h => by
    by_cases ha : a = k
    · subst ha
      simp only [dictGet, List.find?, BEq.rfl, Option.map_some, Option.some.injEq] at h
      subst h
      simp [dictSet]
    · have hb : (a == k) = false := by simpa using ha
      have h' : dictGet r k = some v := by simpa [dictGet, List.find?, hb] using h
      simp [dictSet, hb, dictSet_same r k v h']

/-! ### the reference program -/

def extendBody : Cmd :=
  block [tryExcept (block [extendWithC]) [(Exc.attributeError, block [pass_]), (Exc.typeError, block [pass_])]]

def refGetMembers : Cmd :=
  block [
    importCopy,
    setCurrentClass,
    tryExcept (block [returnCached]) [(Exc.attributeError, block [initCacheDict]), (Exc.keyError, block [pass_])],
    storeCopyOfOwn,
    forMro extendBody,
    dedupeStmt,
    returnCached]

def allItems : List MroEntry → List Item
  | [] => []
  | e :: r => (match e.2 with | some items => items | none => []) ++ allItems r

def lastC : List MroEntry → Option MroEntry → Option MroEntry
  | [], d => d
  | e :: r, _ => lastC r (some e)

theorem seq_skip (a : Cmd) : seq a skip = a := by
  funext σ
  simp only [seq, skip]
  cases a σ <;> rfl

theorem loop_extend : ∀ (es : List MroEntry) (σ : St) (o : Nat) (d : Dict) (k : Nat) (v : List Item),
    σ.current_class = some k → ownDictOf σ.mro σ.dicts = some (o, d) → dictGet d k = some v →
    loopMro extendBody es σ
      = .normal { σ with dicts := setDictOf σ.dicts o (dictSet d k (v ++ allItems es)), c := lastC es σ.c }
  | [], σ, o, d, k, v, _, ho, hv => by
    simp only [loopMro, allItems, List.append_nil, lastC]
    rw [dictSet_same d k v hv, setDictOf_same σ.dicts o d (ownDictOf_find ho).1]
  | e :: r, σ, o, d, k, v, hk, ho, hv => by
    obtain ⟨n, oi⟩ := e
    cases oi with
    | none =>
      have hb : extendBody { σ with c := some (n, none) } = .normal { σ with c := some (n, none) } := by
        simp [extendBody, block, seq, tryExcept, extendWithC, hk, ownDict_eq, ho, hv, handle, pass_, skip]
      simp only [loopMro, hb]
      rw [loop_extend r { σ with c := some (n, none) } o d k v hk ho hv]
      simp [allItems, lastC]
    | some items =>
      have hb : extendBody { σ with c := some (n, some items) }
          = .normal { σ with c := some (n, some items), dicts := setDictOf σ.dicts o (dictSet d k (v ++ items)) } := by
        simp [extendBody, block, seq, tryExcept, extendWithC, hk, ownDict_eq, ho, hv, skip]
      simp only [loopMro, hb]
      rw [loop_extend r { σ with c := some (n, some items), dicts := setDictOf σ.dicts o (dictSet d k (v ++ items)) }
        o (dictSet d k (v ++ items)) k (v ++ items) hk
        (ownDictOf_setDictOf σ.mro σ.dicts o d _ ho) (dictGet_dictSet_eq d k _)]
      simp [allItems, lastC, setDictOf_setDictOf, dictSet_dictSet, List.append_assoc]

/-! ### the three ways a call can go -/

/-- the list the method computes when the cache has no entry: own items, then those of every class of the MRO
    (the class itself again, first), duplicates removed by identity -/
def computed (mro : List MroEntry) (own : List Item) : List Item := dedupe (own ++ allItems mro)

theorem refGetMembers_unfold : refGetMembers = seq importCopy (seq setCurrentClass (seq
    (tryExcept (block [returnCached]) [(Exc.attributeError, block [initCacheDict]), (Exc.keyError, block [pass_])])
    (seq storeCopyOfOwn (seq (forMro extendBody) (seq dedupeStmt returnCached))))) := by
  simp only [refGetMembers, block, seq_skip]

/-- from `storeCopyOfOwn` on, once the dict is there -/
theorem compute_tail (σ : St) (k : Nat) (own : List Item) (rest : List MroEntry) (o : Nat) (d : Dict)
    (hm : σ.mro = (k, some own) :: rest) (hk : σ.current_class = some k)
    (ho : ownDictOf σ.mro σ.dicts = some (o, d)) :
    (seq storeCopyOfOwn (seq (forMro extendBody) (seq dedupeStmt returnCached))) σ
      = .returned { σ with dicts := setDictOf σ.dicts o (dictSet d k (computed σ.mro own)), c := lastC σ.mro σ.c }
          (computed σ.mro own) := by
  have ho' : ownDictOf ((k, some own) :: rest) σ.dicts = some (o, d) := hm ▸ ho
  have h1 : storeCopyOfOwn σ = .normal { σ with dicts := setDictOf σ.dicts o (dictSet d k own) } := by
    simp [storeCopyOfOwn, hk, hm, ownDict_eq, ho']
  have h2 := loop_extend σ.mro { σ with dicts := setDictOf σ.dicts o (dictSet d k own) } o (dictSet d k own) k own hk
    (ownDictOf_setDictOf σ.mro σ.dicts o d _ ho) (dictGet_dictSet_eq d k own)
  simp only [setDictOf_setDictOf, dictSet_dictSet] at h2
  have ho2 := ownDictOf_setDictOf σ.mro σ.dicts o d (dictSet d k (own ++ allItems σ.mro)) ho
  have ho3 := ownDictOf_setDictOf σ.mro σ.dicts o d (dictSet d k (computed σ.mro own)) ho
  simp only [seq, h1, forMro, h2]
  have h3 : dedupeStmt { σ with dicts := setDictOf σ.dicts o (dictSet d k (own ++ allItems σ.mro)), c := lastC σ.mro σ.c }
      = .normal { σ with dicts := setDictOf σ.dicts o (dictSet d k (computed σ.mro own)), c := lastC σ.mro σ.c } := by
    simp [dedupeStmt, hk, ownDict_eq, ho2, dictGet_dictSet_eq, setDictOf_setDictOf, dictSet_dictSet, computed]
  simp only [h3]
  simp [returnCached, hk, ownDict_eq, ho3, dictGet_dictSet_eq]

/-- (A) the class has an entry in the dict the lookup finds: it is returned, nothing else changes -/
theorem run_cached (σ : St) (k : Nat) (own : Option (List Item)) (rest : List MroEntry) (o : Nat) (d : Dict)
    (v : List Item) (hm : σ.mro = (k, own) :: rest) (ho : ownDictOf σ.mro σ.dicts = some (o, d))
    (hv : dictGet d k = some v) :
    refGetMembers σ = .returned { σ with current_class := some k } v := by
  rw [refGetMembers_unfold]
  have h1 : setCurrentClass σ = .normal { σ with current_class := some k } := by simp [setCurrentClass, hm]
  have h2 : (tryExcept (block [returnCached]) [(Exc.attributeError, block [initCacheDict]), (Exc.keyError, block [pass_])])
      { σ with current_class := some k } = .returned { σ with current_class := some k } v := by
    simp [tryExcept, block, seq, returnCached, ownDict_eq, ho, hv]
  simp only [seq, importCopy, skip, h1, h2]

/-- (B) a dict is found but has no entry for the class: computed, stored in THAT dict, returned -/
theorem run_miss (σ : St) (k : Nat) (own : List Item) (rest : List MroEntry) (o : Nat) (d : Dict)
    (hm : σ.mro = (k, some own) :: rest) (ho : ownDictOf σ.mro σ.dicts = some (o, d)) (hv : dictGet d k = none) :
    refGetMembers σ
      = .returned { σ with current_class := some k,
                           dicts := setDictOf σ.dicts o (dictSet d k (computed σ.mro own)), c := lastC σ.mro σ.c }
          (computed σ.mro own) := by
  rw [refGetMembers_unfold]
  have h1 : setCurrentClass σ = .normal { σ with current_class := some k } := by simp [setCurrentClass, hm]
  have h2 : (tryExcept (block [returnCached]) [(Exc.attributeError, block [initCacheDict]), (Exc.keyError, block [pass_])])
      { σ with current_class := some k } = .normal { σ with current_class := some k } := by
    simp [tryExcept, block, seq, returnCached, ownDict_eq, ho, hv, handle, pass_, skip]
  have ht := compute_tail { σ with current_class := some k } k own rest o d hm rfl ho
  simp only [seq, importCopy, skip, h1, h2] at ht ⊢
  exact ht

/-- (C) no class of the MRO carries a dict yet: one is created ON THE CLASS ITSELF, then as (B) -/
theorem run_first (σ : St) (k : Nat) (own : List Item) (rest : List MroEntry)
    (hm : σ.mro = (k, some own) :: rest) (ho : ownDictOf σ.mro σ.dicts = none) :
    refGetMembers σ
      = .returned { σ with current_class := some k,
                           dicts := setDictOf σ.dicts k [(k, computed σ.mro own)], c := lastC σ.mro σ.c }
          (computed σ.mro own) := by
  rw [refGetMembers_unfold]
  have h1 : setCurrentClass σ = .normal { σ with current_class := some k } := by simp [setCurrentClass, hm]
  have h2 : (tryExcept (block [returnCached]) [(Exc.attributeError, block [initCacheDict]), (Exc.keyError, block [pass_])])
      { σ with current_class := some k }
        = .normal { σ with current_class := some k, dicts := setDictOf σ.dicts k [] } := by
    have ho' : ownDictOf ((k, some own) :: rest) σ.dicts = none := hm ▸ ho
    simp [tryExcept, block, seq, returnCached, ownDict_eq, ho', handle, initCacheDict, hm, skip]
  have hown : ownerOf σ.mro (setDictOf σ.dicts k []) = some k := by
    have : hasKey (setDictOf σ.dicts k []) k = true := by rw [hasKey_setDictOf]; simp
    simp [ownerOf, hm, this]
  have ho1 : ownDictOf σ.mro (setDictOf σ.dicts k []) = some (k, []) := by
    unfold ownDictOf
    rw [hown]
    exact find_setDictOf_eq σ.dicts k []
  have ht := compute_tail { σ with current_class := some k, dicts := setDictOf σ.dicts k [] } k own rest k [] hm rfl ho1
  simp only [seq, importCopy, skip, h1, h2] at ht ⊢
  rw [ht]
  simp [setDictOf_setDictOf, dictSet]

/-! ### `list(set(…))` on own ++ (own ++ rest) -/

def ddStep (acc : List Item) (x : Item) : List Item := if acc.contains x then acc else acc ++ [x]

theorem dedupe_eq (l : List Item) : dedupe l = l.foldl ddStep [] := rfl

theorem dd_absorb : ∀ (l acc : List Item), (∀ x ∈ l, x ∈ acc) → l.foldl ddStep acc = acc
  | [], _, _ => rfl
  | x :: l, acc, h => by
    have hx : acc.contains x = true := by simpa using h x (List.mem_cons_self)
    simp only [List.foldl, ddStep, hx, ↓reduceIte]
    exact dd_absorb l acc (fun y hy => h y (List.mem_cons_of_mem _ hy))

theorem dd_fresh : ∀ (l acc : List Item), (acc ++ l).Nodup → l.foldl ddStep acc = acc ++ l
  | [], acc, _ => by simp
  | x :: l, acc, h => by
    have hx : acc.contains x = false := by
      have := (List.nodup_append.mp h).2.2
      have hne : x ∉ acc := fun hm => (this x hm x List.mem_cons_self) rfl
      simpa using hne
    simp only [List.foldl, ddStep, hx, Bool.false_eq_true, ↓reduceIte]
    rw [dd_fresh l (acc ++ [x]) (by simpa using h)]
    simp

theorem dedupe_double (a rest : List Item) (h : (a ++ rest).Nodup) : dedupe (a ++ (a ++ rest)) = a ++ rest := by
  have ha : a.Nodup := (List.nodup_append.mp h).1
  rw [dedupe_eq, List.foldl_append, List.foldl_append]
  rw [dd_fresh a [] (by simpa using ha)]
  simp only [List.nil_append]
  rw [dd_absorb a a (fun _ hx => hx)]
  exact dd_fresh rest a h

/-! ### the class hierarchy of a member table -/

theorem nodup_of_map {α β : Type} (f : α → β) : ∀ (l : List α), (l.map f).Nodup → l.Nodup
  | [], _ => List.nodup_nil
  | a :: r, h => by
    simp only [List.map_cons, List.nodup_cons] at h ⊢
    exact ⟨fun hm => h.1 (List.mem_map_of_mem hm), nodup_of_map f r h.2⟩

theorem itemsOf_spec (r : ClassRow) : (itemsOf r).map (·.spec) = r.own := by
  simp only [itemsOf, List.map_map]
  have : ∀ (l : List MemberSpec) (n : Nat),
      List.map ((fun x : Item => x.spec) ∘ fun x : MemberSpec × Nat => (⟨r.name, x.2, x.1⟩ : Item)) (l.zipIdx n) = l := by
    intro l
    induction l with
    | nil => intro n; rfl
    | cons a l ih => intro n; simp [List.zipIdx_cons, ih]
  exact this r.own 0

def chainItems (T : Table) (fuel c : Nat) : List Item := (chainRows T fuel c).flatMap itemsOf

theorem chainItems_spec (T : Table) : ∀ (fuel c : Nat), (chainItems T fuel c).map (·.spec) = T.membersFuel fuel c
  | 0, _ => rfl
  | fuel + 1, c => by
    simp only [chainItems, chainRows, Table.membersFuel]
    cases hr : T.row? c with
    | none => rfl
    | some r =>
      simp only [List.flatMap_cons, List.map_append, itemsOf_spec]
      cases hb : r.base with
      | none => simp
      | some b =>
        have ih := chainItems_spec T fuel b
        simp only [chainItems] at ih
        simp [ih]

theorem allItems_mro (rows : List ClassRow) (roots : List Nat) :
    allItems (rows.map (fun r => (r.name, some (itemsOf r))) ++ roots.map (fun n => (n, none))) = rows.flatMap itemsOf := by
  induction rows with
  | nil =>
    simp only [List.map_nil, List.nil_append, List.flatMap_nil]
    induction roots with
    | nil => rfl
    | cons a l ih => simp [allItems, ih]
  | cons r rows ih => simp [allItems, ih]

theorem row_name {T : Table} {c : Nat} {r : ClassRow} (h : T.row? c = some r) : r.name = c := by
  have := List.find?_some h
  simpa using this

theorem length_pos_of_row {T : Table} {c : Nat} {r : ClassRow} (h : T.row? c = some r) : ∃ n, T.length = n + 1 := by
  cases T with
  | nil => simp [Table.row?] at h
  | cons a l => exact ⟨l.length, rfl⟩

/-- `cls.__mro__` starts with the class itself, which has its own table -/
theorem mroOf_head {T : Table} (roots : List Nat) {c : Nat} {r : ClassRow} (h : T.row? c = some r) :
    ∃ rest, mroOf T roots c = (c, some (itemsOf r)) :: rest := by
  obtain ⟨n, hn⟩ := length_pos_of_row h
  simp only [mroOf, hn, chainRows, h, List.map_cons, List.cons_append, row_name h]
  exact ⟨_, rfl⟩

/-- what `C._get_members()` returns, as the method computes it: own items, the items of the whole chain (the class
    itself again, first), duplicates removed by identity -/
def expected (T : Table) (roots : List Nat) (c : Nat) : List Item :=
  match T.row? c with
  | some r => computed (mroOf T roots c) (itemsOf r)
  | none => []

/-- … which, when no member name occurs twice along the chain (`c10_gen_names_nodup` for the shipped table), is
    exactly the chain's member list of the hand model, in chain order -/
theorem expected_spec (T : Table) (roots : List Nat) (c : Nat) (r : ClassRow) (hr : T.row? c = some r)
    (hnd : (T.memberNames c).Nodup) : (expected T roots c).map (·.spec) = T.getMembers c := by
  have hspec := chainItems_spec T T.length c
  have hnd' : (chainItems T T.length c).Nodup := by
    have h1 : (T.getMembers c).Nodup := nodup_of_map _ _ hnd
    rw [Table.getMembers, ← hspec] at h1
    exact nodup_of_map _ _ h1
  obtain ⟨n, hn⟩ := length_pos_of_row hr
  have hci : chainItems T T.length c = itemsOf r ++
      (match r.base with | none => [] | some b => chainItems T n b) := by
    simp only [chainItems, hn, chainRows, hr, List.flatMap_cons]
    cases r.base <;> simp
  simp only [expected, hr, computed, mroOf, allItems_mro]
  rw [show (chainRows T T.length c).flatMap itemsOf = chainItems T T.length c from rfl, hci]
  rw [hci] at hnd'
  rw [dedupe_double _ _ hnd', ← hci, hspec]
  rfl

/-! ### the cache never serves a wrong list -/

/-- every entry of every `__all_members_` dict is what the method computes for the class whose name is the key -/
def Sound (T : Table) (roots : List Nat) (ds : List (Nat × Dict)) : Prop :=
  ∀ p ∈ ds, ∀ k v, dictGet p.2 k = some v → v = expected T roots k

theorem sound_nil (T : Table) (roots : List Nat) : Sound T roots [] := by
  intro p hp; cases hp

/-- one call on a class of the table, whatever dicts exist: returns the expected list, keeps the dicts sound -/
theorem call_sound (T : Table) (roots : List Nat) (ds : List (Nat × Dict)) (c : Nat) (r : ClassRow)
    (hr : T.row? c = some r) (hs : Sound T roots ds) :
    ∃ σ', call refGetMembers T roots ds c = .returned σ' (expected T roots c) ∧ Sound T roots σ'.dicts := by
  obtain ⟨rest, hm⟩ := mroOf_head roots hr
  have hexp : expected T roots c = computed (mroOf T roots c) (itemsOf r) := by simp [expected, hr]
  unfold call
  cases ho : ownDictOf (mroOf T roots c) ds with
  | none =>
    refine ⟨_, by rw [run_first _ c (itemsOf r) rest hm ho, hexp], ?_⟩
    intro p hp k v hv
    rcases mem_setDictOf ds c _ p hp with h | h
    · exact hs p h k v hv
    · subst h
      by_cases hk : k = c
      · subst hk
        simp only [dictGet, List.find?, BEq.rfl, Option.map_some, Option.some.injEq] at hv
        rw [← hv, hexp]
      · have hb : (c == k) = false := by simpa using (Ne.symm hk)
        simp [dictGet, List.find?, hb] at hv
  | some od =>
    obtain ⟨o, d⟩ := od
    have hmem : (o, d) ∈ ds := List.mem_of_find?_eq_some (ownDictOf_find ho).1
    cases hv : dictGet d c with
    | some v =>
      refine ⟨_, by rw [run_cached _ c (some (itemsOf r)) rest o d v hm ho hv, hs (o, d) hmem c v hv], hs⟩
    | none =>
      refine ⟨_, by rw [run_miss _ c (itemsOf r) rest o d hm ho hv, hexp], ?_⟩
      intro p hp k v hv'
      rcases mem_setDictOf ds o _ p hp with h | h
      · exact hs p h k v hv'
      · subst h
        by_cases hk : k = c
        · subst hk
          simp only [dictGet_dictSet_eq, Option.some.injEq] at hv'
          rw [← hv', hexp]
        · simp only [dictGet_dictSet_ne d c k _ hk] at hv'
          exact hs (o, d) hmem k v hv'

/-- a history of `_get_members()` calls on classes of the table: the list each call returns (`none`: it did not
    return) and the dicts left behind -/
def runCalls (body : Cmd) (T : Table) (roots : List Nat) : List (Nat × Dict) → List Nat → List (Option (List Item))
  | _, [] => []
  | ds, c :: cs =>
    match call body T roots ds c with
    | .returned σ' v => some v :: runCalls body T roots σ'.dicts cs
    | _ => [none]

theorem runCalls_sound (T : Table) (roots : List Nat) : ∀ (cs : List Nat) (ds : List (Nat × Dict)),
    Sound T roots ds → (∀ c ∈ cs, (T.row? c).isSome = true) →
    runCalls refGetMembers T roots ds cs = cs.map (fun c => some (expected T roots c))
  | [], _, _, _ => rfl
  | c :: cs, ds, hs, hc => by
    have hrow := hc c List.mem_cons_self
    cases hr : T.row? c with
    | none => rw [hr] at hrow; cases hrow
    | some r =>
      obtain ⟨σ', h1, h2⟩ := call_sound T roots ds c r hr hs
      simp only [runCalls, h1, List.map_cons]
      rw [runCalls_sound T roots cs σ'.dicts h2 (fun x hx => hc x (List.mem_cons_of_mem _ hx))]

end NmlVerif.Add.GM
