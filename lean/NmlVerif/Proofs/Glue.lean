import NmlVerif.Model.Glue
/-!
Helper lemmas for C07: frame / agreement lemmas for histories, the relational form of the interleaving lemma, and
the link between the decidable table check and its logical reading.
-/
namespace NmlVerif.Glue

/-! ### table check, logically -/

theorem mem_written {t : Table} {v : Nat} : v ∈ t.written ↔ ∃ e ∈ t.entries, v ∈ e.writes := by
  simp [Table.written, List.mem_flatMap]

theorem bad_eq_nil_iff {W : List Nat} {e : EntrySummary} : e.bad W = [] ↔ ∀ v ∈ e.rbw, v ∉ W := by
  simp [EntrySummary.bad, List.filter_eq_nil_iff]

theorem violations_eq_nil_iff {t : Table} : t.violations = [] ↔ ∀ e ∈ t.entries, e.bad t.written = [] := by
  simp [Table.violations, List.flatMap_eq_nil_iff]

theorem mem_violations {t : Table} {p : Nat × Nat} :
    p ∈ t.violations ↔ ∃ e ∈ t.entries, p.1 = e.name ∧ p.2 ∈ e.rbw ∧ p.2 ∈ t.written := by
  constructor
  · intro h
    simp only [Table.violations, List.mem_flatMap, List.mem_map, EntrySummary.bad, List.mem_filter] at h
    obtain ⟨e, he, v, ⟨hv, hW⟩, rfl⟩ := h
    exact ⟨e, he, rfl, hv, by simpa using hW⟩
  · rintro ⟨e, he, h1, h2, h3⟩
    simp only [Table.violations, List.mem_flatMap, List.mem_map, EntrySummary.bad, List.mem_filter]
    exact ⟨e, he, p.2, ⟨h2, by simpa using h3⟩, by cases p; simp_all⟩

/-- an entry none of whose read-first variables is reported reads nothing that anybody writes -/
theorem entry_ok_of_not_violating {t : Table} {e : EntrySummary} (he : e ∈ t.entries)
    (h : ∀ v ∈ e.rbw, (e.name, v) ∉ t.violations) : e.bad t.written = [] := by
  rw [bad_eq_nil_iff]
  intro v hv hW
  exact h v hv (mem_violations.2 ⟨e, he, rfl, hv, hW⟩)

/-! ### histories -/

variable {V R A : Type}

theorem AgreeOff.refl (W : List Nat) (g : GState V) : AgreeOff W g g := fun _ _ => rfl
theorem AgreeOff.symm {W : List Nat} {g g' : GState V} (h : AgreeOff W g g') : AgreeOff W g' g :=
  fun v hv => (h v hv).symm
theorem AgreeOff.trans {W : List Nat} {g g' g'' : GState V} (h : AgreeOff W g g') (h' : AgreeOff W g' g'') :
    AgreeOff W g g'' := fun v hv => (h v hv).trans (h' v hv)

/-- a state that agrees outside `W` agrees on every list of variables disjoint from `W` -/
theorem AgreeOff.agreeOn {W vs : List Nat} {g g' : GState V} (h : AgreeOff W g g') (hd : ∀ v ∈ vs, v ∉ W) :
    AgreeOn vs g g' := fun v hv => h v (hd v hv)

/-- whatever the history, only variables that some call of the history may write have changed -/
theorem runHist_frame (sem : EntrySummary → A → GState V → GState V × R) (W : List Nat) :
    ∀ (h : List (Call A)) (g : GState V),
      (∀ c ∈ h, Respects (sem c.entry c.arg) c.entry.rbw c.entry.writes) →
      (∀ c ∈ h, ∀ v ∈ c.entry.writes, v ∈ W) →
      AgreeOff W (runHist sem h g) g
  | [], g, _, _ => AgreeOff.refl W g
  | c :: cs, g, hr, hw => by
    simp only [runHist]
    have ih := runHist_frame sem W cs (sem c.entry c.arg g).1
      (fun c' hc' => hr c' (List.mem_cons_of_mem _ hc')) (fun c' hc' => hw c' (List.mem_cons_of_mem _ hc'))
    refine ih.trans ?_
    intro v hv
    exact (hr c List.mem_cons_self).frame g v (fun hmem => hv (hw c List.mem_cons_self v hmem))

theorem Respects.toInv {f : GState V → GState V × R} {rbw writes : List Nat} (h : Respects f rbw writes) :
    RespectsInv (fun _ => True) [] f rbw writes :=
  ⟨h.frame, fun _ _ => trivial, fun g g' _ _ ha => h.reads g g' (fun v hv => ha v (by simpa using hv))⟩

theorem badIgn_eq_nil_iff {W ign : List Nat} {e : EntrySummary} :
    e.badIgn W ign = [] ↔ ∀ v ∈ e.rbw, v ∉ ign → v ∉ W := by
  simp only [EntrySummary.badIgn, List.filter_eq_nil_iff]
  constructor
  · intro h v hv hi hW
    exact h v hv (by simp [hW, hi])
  · intro h v hv hc
    simp only [Bool.and_eq_true, List.contains_eq_mem, decide_eq_true_eq, Bool.not_eq_true',
      decide_eq_false_iff_not] at hc
    exact h v hv hc.2 hc.1

/-- with an invariant: whatever the history, the invariant still holds and only written variables have changed -/
theorem runHist_frame_inv (Inv : GState V → Prop) (ign : List Nat)
    (sem : EntrySummary → A → GState V → GState V × R) (W : List Nat) :
    ∀ (h : List (Call A)) (g : GState V), Inv g →
      (∀ c ∈ h, RespectsInv Inv ign (sem c.entry c.arg) c.entry.rbw c.entry.writes) →
      (∀ c ∈ h, ∀ v ∈ c.entry.writes, v ∈ W) →
      Inv (runHist sem h g) ∧ AgreeOff W (runHist sem h g) g
  | [], g, hi, _, _ => ⟨hi, AgreeOff.refl W g⟩
  | c :: cs, g, hi, hr, hw => by
    simp only [runHist]
    have hc := hr c List.mem_cons_self
    have ih := runHist_frame_inv Inv ign sem W cs (sem c.entry c.arg g).1 (hc.inv g hi)
      (fun c' hc' => hr c' (List.mem_cons_of_mem _ hc')) (fun c' hc' => hw c' (List.mem_cons_of_mem _ hc'))
    refine ⟨ih.1, ih.2.trans ?_⟩
    intro v hv
    exact hc.frame g v (fun hmem => hv (hw c List.mem_cons_self v hmem))

/-! ### interleavings, relational form

`Rel` relates shared states that the builders cannot tell apart, `P` is an invariant of the shared state.  Prototype §M
is the instance `P := True`, `Rel := fun _ _ => True` (handlers ignore the shared component altogether); the
summary-driven theorem uses `Rel := AgreeOff W` and the invariant under which memo caches are harmless. -/

variable {σ α β ca cb : Type}

structure IsolatedRel (S : Sys σ α β ca cb) (P : σ → Prop) (Rel : σ → σ → Prop) : Prop where
  symm : ∀ s s', Rel s s' → Rel s' s
  trans : ∀ s s' s'', Rel s s' → Rel s' s'' → Rel s s''
  /-- `P` (an invariant of the shared state) is preserved by every handler call -/
  a_inv : ∀ s x c, P s → P (S.stepA s x c).1
  b_inv : ∀ s y c, P s → P (S.stepB s y c).1
  /-- a handler's effect on its builder's own state is the same from indistinguishable shared states -/
  a_loc : ∀ s s' x c, P s → P s' → Rel s s' → (S.stepA s x c).2 = (S.stepA s' x c).2
  b_loc : ∀ s s' y c, P s → P s' → Rel s s' → (S.stepB s y c).2 = (S.stepB s' y c).2
  /-- a handler moves the shared state only to an indistinguishable one -/
  a_stays : ∀ s x c, P s → Rel (S.stepA s x c).1 s
  b_stays : ∀ s y c, P s → Rel (S.stepB s y c).1 s

theorem soloA_rel (S : Sys σ α β ca cb) {P : σ → Prop} {Rel : σ → σ → Prop} (h : IsolatedRel S P Rel) :
    ∀ cs s s' x, P s → P s' → Rel s s' → (soloA S cs (s, x)).2 = (soloA S cs (s', x)).2
  | [], _, _, _, _, _, _ => rfl
  | c :: cs, s, s', x, hp, hp', hr => by
    simp only [soloA]
    rw [show S.stepA s x c = ((S.stepA s x c).1, (S.stepA s x c).2) from rfl,
        show S.stepA s' x c = ((S.stepA s' x c).1, (S.stepA s' x c).2) from rfl,
        h.a_loc s s' x c hp hp' hr]
    refine soloA_rel S h cs _ _ _ (h.a_inv s x c hp) (h.a_inv s' x c hp') ?_
    exact h.trans _ _ _ (h.a_stays s x c hp) (h.trans _ _ _ hr (h.symm _ _ (h.a_stays s' x c hp')))

theorem soloB_rel (S : Sys σ α β ca cb) {P : σ → Prop} {Rel : σ → σ → Prop} (h : IsolatedRel S P Rel) :
    ∀ cs s s' y, P s → P s' → Rel s s' → (soloB S cs (s, y)).2 = (soloB S cs (s', y)).2
  | [], _, _, _, _, _, _ => rfl
  | c :: cs, s, s', y, hp, hp', hr => by
    simp only [soloB]
    rw [show S.stepB s y c = ((S.stepB s y c).1, (S.stepB s y c).2) from rfl,
        show S.stepB s' y c = ((S.stepB s' y c).1, (S.stepB s' y c).2) from rfl,
        h.b_loc s s' y c hp hp' hr]
    refine soloB_rel S h cs _ _ _ (h.b_inv s y c hp) (h.b_inv s' y c hp') ?_
    exact h.trans _ _ _ (h.b_stays s y c hp) (h.trans _ _ _ hr (h.symm _ _ (h.b_stays s' y c hp')))

/-- every interleaving leaves each builder with the state of its solo run -/
theorem run_eq_solo (S : Sys σ α β ca cb) {P : σ → Prop} {Rel : σ → σ → Prop} (h : IsolatedRel S P Rel) :
    ∀ (es : List (Ev ca cb)) (s : σ) (x : α) (y : β), P s →
      (run S es (s, x, y)).2.1 = (soloA S (projA es) (s, x)).2 ∧
      (run S es (s, x, y)).2.2 = (soloB S (projB es) (s, y)).2
  | [], _, _, _, _ => ⟨rfl, rfl⟩
  | .a c :: es, s, x, y, hp => by
    have ih := run_eq_solo S h es (S.stepA s x c).1 (S.stepA s x c).2 y (h.a_inv s x c hp)
    simp only [run, projA, projB, soloA]
    refine ⟨ih.1, ?_⟩
    rw [ih.2]
    exact soloB_rel S h _ _ _ _ (h.a_inv s x c hp) hp (h.a_stays s x c hp)
  | .b c :: es, s, x, y, hp => by
    have ih := run_eq_solo S h es (S.stepB s y c).1 x (S.stepB s y c).2 (h.b_inv s y c hp)
    simp only [run, projA, projB, soloB]
    refine ⟨?_, ih.2⟩
    rw [ih.1]
    exact soloA_rel S h _ _ _ _ (h.b_inv s y c hp) hp (h.b_stays s y c hp)

/-! ### any number of builders -/

variable {c : Type}

structure IsolatedRelN (S : SysN σ α c) (P : σ → Prop) (Rel : σ → σ → Prop) : Prop where
  symm : ∀ s s', Rel s s' → Rel s' s
  trans : ∀ s s' s'', Rel s s' → Rel s' s'' → Rel s s''
  inv : ∀ s x c, P s → P (S.step s x c).1
  loc : ∀ s s' x c, P s → P s' → Rel s s' → (S.step s x c).2 = (S.step s' x c).2
  stays : ∀ s x c, P s → Rel (S.step s x c).1 s

theorem soloN_rel (S : SysN σ α c) {P : σ → Prop} {Rel : σ → σ → Prop} (h : IsolatedRelN S P Rel) :
    ∀ cs s s' x, P s → P s' → Rel s s' → (soloN S cs (s, x)).2 = (soloN S cs (s', x)).2
  | [], _, _, _, _, _, _ => rfl
  | c :: cs, s, s', x, hp, hp', hr => by
    simp only [soloN]
    rw [show S.step s x c = ((S.step s x c).1, (S.step s x c).2) from rfl,
        show S.step s' x c = ((S.step s' x c).1, (S.step s' x c).2) from rfl,
        h.loc s s' x c hp hp' hr]
    refine soloN_rel S h cs _ _ _ (h.inv s x c hp) (h.inv s' x c hp') ?_
    exact h.trans _ _ _ (h.stays s x c hp) (h.trans _ _ _ hr (h.symm _ _ (h.stays s' x c hp')))

/-- every interleaving of any number of builders leaves each builder with the state of its solo run -/
theorem runN_eq_solo (S : SysN σ α c) {P : σ → Prop} {Rel : σ → σ → Prop} (h : IsolatedRelN S P Rel) :
    ∀ (es : List (Nat × c)) (s : σ) (f : Nat → α) (i : Nat), P s →
      (runN S es (s, f)).2 i = (soloN S (projN i es) (s, f i)).2
  | [], _, _, _, _ => rfl
  | (j, x) :: es, s, f, i, hp => by
    have ih := runN_eq_solo S h es (S.step s (f j) x).1 (updN f j (S.step s (f j) x).2) i (h.inv s (f j) x hp)
    simp only [runN, projN]
    rw [ih]
    by_cases hji : j = i
    · subst hji
      simp only [updN, ↓reduceIte, soloN]
    · have hij : ¬ i = j := fun e => hji e.symm
      simp only [updN, hij, hji, ↓reduceIte]
      exact soloN_rel S h _ _ _ _ (h.inv s (f j) x hp) hp (h.stays s (f j) x hp)

/-! ### sub-tables -/

theorem mem_without {t : Table} {drop : List Nat} {e : EntrySummary} :
    e ∈ (t.without drop).entries ↔ e ∈ t.entries ∧ e.name ∉ drop := by
  simp [Table.without, List.mem_filter]

theorem written_without_subset {t : Table} {drop : List Nat} {v : Nat} (h : v ∈ (t.without drop).written) :
    v ∈ t.written := by
  obtain ⟨e, he, hv⟩ := mem_written.1 h
  exact mem_written.2 ⟨e, (mem_without.1 he).1, hv⟩

theorem mem_idsOf_iff {names : Array String} {l : List String} {v : Nat} :
    v ∈ idsOf names l ↔ ∃ s, names[v]? = some s ∧ s ∈ l := by
  constructor
  · intro h
    simp only [idsOf, List.mem_filter, List.mem_range] at h
    cases hs : names[v]? with
    | none => simp [hs] at h
    | some s => exact ⟨s, rfl, by simpa [hs] using h.2⟩
  · rintro ⟨s, hs, hl⟩
    have hlt : v < names.size := by
      rcases Nat.lt_or_ge v names.size with h' | h'
      · exact h'
      · rw [Array.getElem?_eq_none h'] at hs; cases hs
    simp only [idsOf, List.mem_filter, List.mem_range]
    exact ⟨hlt, by rw [hs]; simpa using hl⟩

/-- `envOnly` read logically: an entry outside the configuration entries writes no configuration variable -/
theorem envOnly_spec {t : Table} {names : Array String} {env : List String} {envEntries : List Nat}
    (h : t.envOnly names env envEntries = true)
    {e : EntrySummary} (he : e ∈ t.entries) (hn : e.name ∉ envEntries) : ∀ v ∈ e.writes, v ∉ idsOf names env := by
  have := List.all_eq_true.1 h e he
  simp only [Bool.or_eq_true, List.contains_eq_mem, decide_eq_true_eq, List.all_eq_true] at this
  rcases this with h1 | h2
  · exact absurd h1 hn
  · intro v hv hm
    obtain ⟨s, hs, hl⟩ := mem_idsOf_iff.1 hm
    have := h2 v hv
    rw [hs] at this
    simp [hl] at this

/-- the executable `merges` enumerates interleavings only -/
theorem merges_sound : ∀ (xs : List ca) (ys : List cb) (es : List (Ev ca cb)),
    es ∈ merges xs ys → IsInterleaving es xs ys
  | [], ys, es, h => by
    simp only [merges, List.mem_singleton] at h
    subst h
    constructor
    · induction ys with
      | nil => rfl
      | cons y ys ih => simpa [projA] using ih
    · induction ys with
      | nil => rfl
      | cons y ys ih => simpa [projB] using ih
  | x :: xs, [], es, h => by
    simp only [merges, List.mem_singleton] at h
    subst h
    constructor
    · induction (x :: xs) with
      | nil => rfl
      | cons y ys ih => simpa [projA] using ih
    · induction (x :: xs) with
      | nil => rfl
      | cons y ys ih => simpa [projB] using ih
  | x :: xs, y :: ys, es, h => by
    simp only [merges, List.mem_append, List.mem_map] at h
    rcases h with ⟨es', h', rfl⟩ | ⟨es', h', rfl⟩
    · have := merges_sound xs (y :: ys) es' h'
      exact ⟨by simp [projA, this.1], by simp [projB, this.2]⟩
    · have := merges_sound (x :: xs) ys es' h'
      exact ⟨by simp [projA, this.1], by simp [projB, this.2]⟩

end NmlVerif.Glue
