import NmlVerif.Model.Groups
set_option linter.unusedSimpArgs false
set_option linter.unusedVariables false
/-! Helper lemmas for C14 (lists, stable sort, include loops, closure, preservation, idempotence). Core Lean only. -/

namespace NmlVerif.Groups

/-! ### `addNew` / `dedup` -/

theorem addNew_nil (a : List Nat) : addNew a [] = a := rfl

theorem addNew_cons (a r : List Nat) (x : Nat) :
    addNew a (x :: r) = addNew (if x ∈ a then a else a ++ [x]) r := rfl

theorem mem_addNew (a r : List Nat) (s : Nat) : s ∈ addNew a r ↔ s ∈ a ∨ s ∈ r := by
  induction r generalizing a with
  | nil => simp [addNew_nil]
  | cons x r ih =>
    rw [addNew_cons, ih]
    by_cases hx : x ∈ a
    · simp only [hx, ↓reduceIte, List.mem_cons]
      constructor
      · rintro (h | h)
        · exact Or.inl h
        · exact Or.inr (Or.inr h)
      · rintro (h | h | h)
        · exact Or.inl h
        · subst h; exact Or.inl hx
        · exact Or.inr h
    · simp only [hx, ↓reduceIte, List.mem_append, List.mem_cons, List.not_mem_nil, or_false]
      constructor
      · rintro ((h | h) | h)
        · exact Or.inl h
        · exact Or.inr (Or.inl h)
        · exact Or.inr (Or.inr h)
      · rintro (h | h | h)
        · exact Or.inl (Or.inl h)
        · exact Or.inl (Or.inr h)
        · exact Or.inr h

theorem nodup_addNew (a r : List Nat) (h : a.Nodup) : (addNew a r).Nodup := by
  induction r generalizing a with
  | nil => exact h
  | cons x r ih =>
    rw [addNew_cons]
    apply ih
    by_cases hx : x ∈ a
    · simp only [hx, ↓reduceIte]; exact h
    · simp only [hx, ↓reduceIte]
      rw [List.nodup_append]
      refine ⟨h, by simp, ?_⟩
      intro y hy z hz
      simp only [List.mem_cons, List.not_mem_nil, or_false] at hz
      subst hz
      intro e; subst e; exact hx hy

theorem addNew_of_nodup (a r : List Nat) (h : (a ++ r).Nodup) : addNew a r = a ++ r := by
  induction r generalizing a with
  | nil => simp [addNew_nil]
  | cons x r ih =>
    rw [addNew_cons]
    have hx : x ∉ a := by
      intro hx
      rw [List.nodup_append] at h
      exact h.2.2 x hx x (by simp) rfl
    simp only [hx, ↓reduceIte]
    rw [ih (a ++ [x]) (by simpa [List.append_assoc] using h)]
    simp [List.append_assoc]

theorem mem_dedup (l : List Nat) (s : Nat) : s ∈ dedup l ↔ s ∈ l := by
  unfold dedup; rw [mem_addNew]; simp

theorem nodup_dedup (l : List Nat) : (dedup l).Nodup := nodup_addNew [] l List.nodup_nil

theorem dedup_of_nodup (l : List Nat) (h : l.Nodup) : dedup l = l := by
  unfold dedup; rw [addNew_of_nodup [] l (by simpa using h)]; simp

theorem dedup_eq_nil (l : List Nat) : dedup l = [] ↔ l = [] := by
  constructor
  · intro h
    cases l with
    | nil => rfl
    | cons x t =>
      have : x ∈ dedup (x :: t) := (mem_dedup _ _).mpr (by simp)
      rw [h] at this; simp at this
  · intro h; subst h; rfl

/-! ### stable insertion sort by a key -/

def Sorted (key : Nat → Nat) (l : List Nat) : Prop := l.Pairwise (fun a b => key a ≤ key b)

theorem mem_ins (key : Nat → Nat) (x y : Nat) (l : List Nat) : y ∈ ins key x l ↔ y = x ∨ y ∈ l := by
  induction l with
  | nil => simp [ins]
  | cons z t ih =>
    unfold ins
    split
    · simp
    · simp only [List.mem_cons, ih]
      constructor
      · rintro (h | h | h)
        · exact Or.inr (Or.inl h)
        · exact Or.inl h
        · exact Or.inr (Or.inr h)
      · rintro (h | h | h)
        · exact Or.inr (Or.inl h)
        · exact Or.inl h
        · exact Or.inr (Or.inr h)

theorem mem_sortBy (key : Nat → Nat) (l : List Nat) (y : Nat) : y ∈ sortBy key l ↔ y ∈ l := by
  induction l with
  | nil => simp [sortBy]
  | cons x t ih =>
    have : sortBy key (x :: t) = ins key x (sortBy key t) := rfl
    rw [this, mem_ins, ih]; simp

theorem nodup_ins (key : Nat → Nat) (x : Nat) (l : List Nat) (hx : x ∉ l) (h : l.Nodup) : (ins key x l).Nodup := by
  induction l with
  | nil => simp [ins]
  | cons z t ih =>
    unfold ins
    split
    · exact List.nodup_cons.mpr ⟨hx, h⟩
    · have hz := List.nodup_cons.mp h
      refine List.nodup_cons.mpr ⟨?_, ih (fun hh => hx (by simp [hh])) hz.2⟩
      rw [mem_ins]
      rintro (e | e)
      · subst e; exact hx (by simp)
      · exact hz.1 e

theorem nodup_sortBy (key : Nat → Nat) (l : List Nat) (h : l.Nodup) : (sortBy key l).Nodup := by
  induction l with
  | nil => simp [sortBy]
  | cons x t ih =>
    have e : sortBy key (x :: t) = ins key x (sortBy key t) := rfl
    have hx := List.nodup_cons.mp h
    rw [e]
    exact nodup_ins key x _ (by rw [mem_sortBy]; exact hx.1) (ih hx.2)

theorem sorted_ins (key : Nat → Nat) (x : Nat) (l : List Nat) (h : Sorted key l) : Sorted key (ins key x l) := by
  induction l with
  | nil => simp [ins, Sorted]
  | cons z t ih =>
    unfold ins
    have hz := List.pairwise_cons.mp h
    split
    · rename_i hle
      refine List.pairwise_cons.mpr ⟨?_, h⟩
      intro b hb
      rcases List.mem_cons.mp hb with e | e
      · subst e; exact hle
      · exact Nat.le_trans hle (hz.1 b e)
    · rename_i hle
      refine List.pairwise_cons.mpr ⟨?_, ih hz.2⟩
      intro b hb
      rcases (mem_ins key x b t).mp hb with e | e
      · subst e; omega
      · exact hz.1 b e

theorem sorted_sortBy (key : Nat → Nat) (l : List Nat) : Sorted key (sortBy key l) := by
  induction l with
  | nil => simp [sortBy, Sorted]
  | cons x t ih => exact sorted_ins key x _ ih

theorem sortBy_of_sorted (key : Nat → Nat) (l : List Nat) (h : Sorted key l) : sortBy key l = l := by
  induction l with
  | nil => rfl
  | cons x t ih =>
    have e : sortBy key (x :: t) = ins key x (sortBy key t) := rfl
    have hx := List.pairwise_cons.mp h
    rw [e, ih hx.2]
    cases t with
    | nil => rfl
    | cons y t' =>
      unfold ins
      simp [hx.1 y (by simp)]

theorem sortBy_idem (key : Nat → Nat) (l : List Nat) : sortBy key (sortBy key l) = sortBy key l :=
  sortBy_of_sorted key _ (sorted_sortBy key l)

theorem sortBy_eq_nil (key : Nat → Nat) (l : List Nat) : sortBy key l = [] ↔ l = [] := by
  constructor
  · intro h
    cases l with
    | nil => rfl
    | cons x t =>
      have : x ∈ sortBy key (x :: t) := (mem_sortBy _ _ _).mpr (by simp)
      rw [h] at this; simp at this
  · intro h; subst h; rfl

theorem sorted_filter (key : Nat → Nat) (p : Nat → Bool) (l : List Nat) (h : Sorted key l) : Sorted key (l.filter p) :=
  List.Pairwise.filter p h

/-! ### `findG`, `replaceFirst`, `lookup` -/

theorem findG_id {gs : List Group} {g : Nat} {G : Group} (h : findG gs g = some G) : G.id = g := by
  unfold findG at h
  have := List.find?_some h
  simpa using this

theorem findG_mem {gs : List Group} {g : Nat} {G : Group} (h : findG gs g = some G) : G ∈ gs := by
  unfold findG at h
  exact List.mem_of_find?_eq_some h

theorem findG_cons (H : Group) (t : List Group) (g : Nat) :
    findG (H :: t) g = if H.id = g then some H else findG t g := by
  unfold findG
  rw [List.find?_cons]
  by_cases e : H.id = g
  · simp [e]
  · have b : (H.id == g) = false := by simp [e]
    simp [e, b]

theorem findG_replaceFirst_self (gs : List Group) (g : Nat) (G G' : Group)
    (h : findG gs g = some G) (hid : G'.id = g) : findG (replaceFirst gs g G') g = some G' := by
  induction gs with
  | nil => simp [findG] at h
  | cons H t ih =>
    rw [findG_cons] at h
    unfold replaceFirst
    by_cases e : H.id = g
    · simp only [e, beq_self_eq_true, ↓reduceIte]
      rw [findG_cons]; simp [hid]
    · simp only [e, ↓reduceIte] at h
      have : (H.id == g) = false := by simp [e]
      simp only [this, Bool.false_eq_true, ↓reduceIte]
      rw [findG_cons]; simp only [e, ↓reduceIte]
      exact ih h

theorem findG_replaceFirst_ne (gs : List Group) (g h : Nat) (G' : Group) (hne : h ≠ g) (hid : G'.id = g) :
    findG (replaceFirst gs g G') h = findG gs h := by
  induction gs with
  | nil => rfl
  | cons H t ih =>
    unfold replaceFirst
    by_cases e : H.id = g
    · simp only [e, beq_self_eq_true, ↓reduceIte]
      rw [findG_cons, findG_cons]
      have h1 : ¬ G'.id = h := by rw [hid]; exact fun x => hne x.symm
      have h2 : ¬ H.id = h := by rw [e]; exact fun x => hne x.symm
      simp [h1, h2]
    · have : (H.id == g) = false := by simp [e]
      simp only [this, Bool.false_eq_true, ↓reduceIte]
      rw [findG_cons, findG_cons, ih]

theorem replaceFirst_self (gs : List Group) (g : Nat) (G : Group) (h : findG gs g = some G) :
    replaceFirst gs g G = gs := by
  induction gs with
  | nil => rfl
  | cons H t ih =>
    rw [findG_cons] at h
    unfold replaceFirst
    by_cases e : H.id = g
    · simp only [e, ↓reduceIte, Option.some.injEq] at h
      subst h
      simp [e]
    · simp only [e, ↓reduceIte] at h
      have : (H.id == g) = false := by simp [e]
      simp only [this, Bool.false_eq_true, ↓reduceIte, ih h]

theorem replaceFirst_eq_self (gs : List Group) (g : Nat) (G G' : Group) (h : findG gs g = some G)
    (he : replaceFirst gs g G' = gs) : G' = G := by
  induction gs with
  | nil => simp [findG] at h
  | cons H t ih =>
    rw [findG_cons] at h
    unfold replaceFirst at he
    by_cases e : H.id = g
    · simp only [e, ↓reduceIte, Option.some.injEq] at h
      simp only [e, beq_self_eq_true, ↓reduceIte, List.cons.injEq, and_true] at he
      rw [he, h]
    · simp only [e, ↓reduceIte] at h
      have : (H.id == g) = false := by simp [e]
      simp only [this, Bool.false_eq_true, ↓reduceIte, List.cons.injEq, true_and] at he
      exact ih h he

theorem replaceFirst_twice (gs : List Group) (g : Nat) (G' G'' : Group) (hid : G'.id = g) :
    replaceFirst (replaceFirst gs g G') g G'' = replaceFirst gs g G'' := by
  induction gs with
  | nil => rfl
  | cons H t ih =>
    by_cases e : H.id = g
    · have e1 : replaceFirst (H :: t) g G' = G' :: t := by simp [replaceFirst, e]
      have e2 : replaceFirst (H :: t) g G'' = G'' :: t := by simp [replaceFirst, e]
      rw [e1, e2]; simp [replaceFirst, hid]
    · have b : (H.id == g) = false := by simp [e]
      have e1 : replaceFirst (H :: t) g G' = H :: replaceFirst t g G' := by simp [replaceFirst, b]
      have e2 : replaceFirst (H :: t) g G'' = H :: replaceFirst t g G'' := by simp [replaceFirst, b]
      rw [e1, e2]
      have e3 : replaceFirst (H :: replaceFirst t g G') g G'' = H :: replaceFirst (replaceFirst t g G') g G'' := by
        simp [replaceFirst, b]
      rw [e3, ih]

theorem map_id_replaceFirst (gs : List Group) (g : Nat) (G' : Group) (hid : G'.id = g) :
    (replaceFirst gs g G').map (·.id) = gs.map (·.id) := by
  induction gs with
  | nil => rfl
  | cons H t ih =>
    unfold replaceFirst
    by_cases e : H.id = g
    · simp [e, hid]
    · have b : (H.id == g) = false := by simp [e]
      simp only [b, Bool.false_eq_true, ↓reduceIte, List.map_cons, ih]

theorem findG_some_mem_ids {gs : List Group} {g : Nat} {G : Group} (h : findG gs g = some G) :
    g ∈ gs.map (·.id) := by
  have := findG_mem h
  have e := findG_id h
  exact List.mem_map.mpr ⟨G, this, e⟩

theorem findG_of_mem_ids {gs : List Group} {g : Nat} (h : g ∈ gs.map (·.id)) : ∃ G, findG gs g = some G := by
  induction gs with
  | nil => simp at h
  | cons H t ih =>
    rw [findG_cons]
    by_cases e : H.id = g
    · exact ⟨H, by simp [e]⟩
    · simp only [e, ↓reduceIte]
      apply ih
      simp only [List.map_cons, List.mem_cons] at h
      rcases h with h | h
      · exact absurd h.symm e
      · exact h

/-- the group an id denotes for `get_all_segments_in_group`: the first group with that id, or, for the id `"all"`
    when no such group is defined, the implicit group of all segments -/
def lookup (c : Cell) (g : Nat) : Option Group :=
  match findG c.groups g with
  | some G => some G
  | none => if g = allId then some ⟨allId, c.segs, []⟩ else none

theorem lookup_of_findG {c : Cell} {g : Nat} {G : Group} (h : findG c.groups g = some G) : lookup c g = some G := by
  simp [lookup, h]

theorem lookup_includes_findG {c : Cell} {g : Nat} {G : Group} (h : lookup c g = some G) {i : Nat}
    (hi : i ∈ G.includes) : findG c.groups g = some G := by
  unfold lookup at h
  cases hf : findG c.groups g with
  | some G0 => rw [hf] at h; simpa using h
  | none =>
    rw [hf] at h
    simp only at h
    split at h
    · cases h; simp at hi
    · cases h

theorem lookup_setGroup_self (c : Cell) (g : Nat) (G G' : Group) (h : findG c.groups g = some G) (hid : G'.id = g) :
    lookup (setGroup c g G') g = some G' := by
  simp [lookup, setGroup, findG_replaceFirst_self c.groups g G G' h hid]

theorem lookup_setGroup_ne (c : Cell) (g h : Nat) (G' : Group) (hne : h ≠ g) (hid : G'.id = g) :
    lookup (setGroup c g G') h = lookup c h := by
  simp [lookup, setGroup, findG_replaceFirst_ne c.groups g h G' hne hid]

/-! ### the include loops -/

theorem accStep_error (comb) (rs : Nat → Except Err (List Nat)) (is : List Nat) (e : Err) :
    is.foldl (accStep comb rs) (.error e) = .error e := by
  induction is with
  | nil => rfl
  | cons i is ih => simpa [List.foldl_cons, accStep] using ih

theorem fold_congr (comb) (rs rs' : Nat → Except Err (List Nat)) (is : List Nat) (acc : Except Err (List Nat))
    (h : ∀ i ∈ is, rs i = rs' i) : is.foldl (accStep comb rs) acc = is.foldl (accStep comb rs') acc := by
  induction is generalizing acc with
  | nil => rfl
  | cons i is ih =>
    simp only [List.foldl_cons]
    have : accStep comb rs acc i = accStep comb rs' acc i := by
      unfold accStep; rw [h i (by simp)]
    rw [this]
    exact ih _ (fun j hj => h j (by simp [hj]))

/-- what a completed include loop computed -/
theorem fold_spec (comb : List Nat → List Nat → List Nat)
    (hcomb : ∀ a r s, s ∈ comb a r ↔ s ∈ a ∨ s ∈ r) (rs : Nat → Except Err (List Nat)) :
    ∀ (is : List Nat) (a l : List Nat), is.foldl (accStep comb rs) (.ok a) = .ok l →
      (∀ i ∈ is, ∃ r, rs i = .ok r) ∧
      ∀ s, s ∈ l ↔ s ∈ a ∨ ∃ i ∈ is, ∃ r, rs i = .ok r ∧ s ∈ r
  | [], a, l, h => by
    simp only [List.foldl_nil, Except.ok.injEq] at h
    subst h; simp
  | i :: is, a, l, h => by
    simp only [List.foldl_cons] at h
    cases hr : rs i with
    | error e =>
      have : accStep comb rs (.ok a) i = .error e := by simp [accStep, hr]
      rw [this, accStep_error] at h; cases h
    | ok r =>
      have : accStep comb rs (.ok a) i = .ok (comb a r) := by simp [accStep, hr]
      rw [this] at h
      have ⟨h1, h2⟩ := fold_spec comb hcomb rs is (comb a r) l h
      constructor
      · intro j hj
        rcases List.mem_cons.mp hj with rfl | hj
        · exact ⟨r, hr⟩
        · exact h1 j hj
      · intro s
        rw [h2 s, hcomb]
        constructor
        · rintro ((h | h) | ⟨j, hj, r', hr', hs⟩)
          · exact Or.inl h
          · exact Or.inr ⟨i, by simp, r, hr, h⟩
          · exact Or.inr ⟨j, by simp [hj], r', hr', hs⟩
        · rintro (h | ⟨j, hj, r', hr', hs⟩)
          · exact Or.inl (Or.inl h)
          · rcases List.mem_cons.mp hj with rfl | hj
            · rw [hr] at hr'; cases hr'; exact Or.inl (Or.inr hs)
            · exact Or.inr ⟨j, hj, r', hr', hs⟩

theorem fold_ok (comb) (rs : Nat → Except Err (List Nat)) :
    ∀ (is : List Nat) (a : List Nat), (∀ i ∈ is, ∃ r, rs i = .ok r) →
      ∃ l, is.foldl (accStep comb rs) (.ok a) = .ok l
  | [], a, _ => ⟨a, rfl⟩
  | i :: is, a, h => by
    obtain ⟨r, hr⟩ := h i (by simp)
    simp only [List.foldl_cons]
    have : accStep comb rs (.ok a) i = .ok (comb a r) := by simp [accStep, hr]
    rw [this]
    exact fold_ok comb rs is _ (fun j hj => h j (by simp [hj]))

theorem fold_nodup (rs : Nat → Except Err (List Nat)) :
    ∀ (is : List Nat) (a l : List Nat), a.Nodup → is.foldl (accStep addNew rs) (.ok a) = .ok l → l.Nodup
  | [], a, l, ha, h => by
    simp only [List.foldl_nil, Except.ok.injEq] at h
    subst h; exact ha
  | i :: is, a, l, ha, h => by
    simp only [List.foldl_cons] at h
    cases hr : rs i with
    | error e =>
      have : accStep addNew rs (.ok a) i = .error e := by simp [accStep, hr]
      rw [this, accStep_error] at h; cases h
    | ok r =>
      have : accStep addNew rs (.ok a) i = .ok (addNew a r) := by simp [accStep, hr]
      rw [this] at h
      exact fold_nodup rs is _ l (nodup_addNew a r ha) h

theorem mem_append_iff (a r : List Nat) (s : Nat) : s ∈ (fun a r => a ++ r) a r ↔ s ∈ a ∨ s ∈ r := by simp

theorem unionCl_spec (rs : Nat → Except Err (List Nat)) (is u : List Nat) (h : unionCl rs is = .ok u) :
    (∀ i ∈ is, ∃ r, rs i = .ok r) ∧ ∀ s, s ∈ u ↔ ∃ i ∈ is, ∃ r, rs i = .ok r ∧ s ∈ r := by
  have ⟨h1, h2⟩ := fold_spec (fun a r => a ++ r) mem_append_iff rs is [] u h
  exact ⟨h1, fun s => by rw [h2 s]; simp⟩

theorem unionCl_ok (rs : Nat → Except Err (List Nat)) (is : List Nat) (h : ∀ i ∈ is, ∃ r, rs i = .ok r) :
    ∃ u, unionCl rs is = .ok u := fold_ok _ rs is [] h

theorem unionCl_congr (rs rs' : Nat → Except Err (List Nat)) (is : List Nat) (h : ∀ i ∈ is, rs i = rs' i) :
    unionCl rs is = unionCl rs' is := fold_congr _ rs rs' is _ h
/-! ### the specification: transitive closure, include reachability, acyclicity -/

/-- `InCl c g s`: segment `s` is reachable from group `g` through its members and, transitively, through the
    groups it includes -/
inductive InCl (c : Cell) : Nat → Nat → Prop
  | member {g G s} : lookup c g = some G → s ∈ G.members → InCl c g s
  | incl {g G i s} : lookup c g = some G → i ∈ G.includes → InCl c i s → InCl c g s

/-- include-reachability between group ids (reflexive, transitive) -/
inductive Reach (c : Cell) : Nat → Nat → Prop
  | refl (a) : Reach c a a
  | step {a G i b} : lookup c a = some G → i ∈ G.includes → Reach c i b → Reach c a b

/-- `r` strictly decreases along every include edge -/
def Ranked (c : Cell) (r : Nat → Nat) : Prop :=
  ∀ g G, lookup c g = some G → ∀ i ∈ G.includes, r i < r g

/-- the include graph is acyclic -/
def Acyclic (c : Cell) : Prop := ∃ r, Ranked c r

/-- every include refers to a group that `get_all_segments_in_group` can find -/
def NoDangling (c : Cell) : Prop :=
  ∀ g G, lookup c g = some G → ∀ i ∈ G.includes, (lookup c i).isSome

theorem Reach.tail {c : Cell} {a b : Nat} (h : Reach c a b) :
    ∀ G j, lookup c b = some G → j ∈ G.includes → Reach c a j := by
  induction h with
  | refl a => intro G j hG hj; exact Reach.step hG hj (Reach.refl j)
  | step hG1 h1 _ ih => intro G j hG hj; exact Reach.step hG1 h1 (ih G j hG hj)

theorem reach_rank {c : Cell} {r : Nat → Nat} (hr : Ranked c r) {a b : Nat} (h : Reach c a b) : r b ≤ r a := by
  induction h with
  | refl a => exact Nat.le_refl _
  | step hG hi _ ih => have := hr _ _ hG _ hi; omega

/-- in a ranked cell no include of `g` reaches `g` -/
theorem ranked_no_back {c : Cell} {r : Nat → Nat} (hr : Ranked c r) {g : Nat} {G : Group}
    (hG : lookup c g = some G) : ∀ i ∈ G.includes, ¬ Reach c i g := by
  intro i hi hreach
  have h1 := hr _ _ hG _ hi
  have h2 := reach_rank hr hreach
  omega

/-! ### `resolve` -/

theorem resolve_succ (c : Cell) (f g : Nat) :
    resolve c (f+1) g = match findG c.groups g with
      | none => if g = allId then .ok c.segs else .error .unknownGroup
      | some G => G.includes.foldl (accStep addNew (resolve c f)) (.ok (addNew [] G.members)) := rfl

/-- **closure**: whenever `resolve` returns, it returns exactly the transitive closure -/
theorem resolve_closure (c : Cell) : ∀ f g l, resolve c f g = .ok l → ∀ s, s ∈ l ↔ InCl c g s := by
  intro f
  induction f with
  | zero => intro g l h; simp [resolve] at h
  | succ f ih =>
    intro g l h s
    rw [resolve_succ] at h
    cases hG : findG c.groups g with
    | none =>
      simp only [hG] at h
      split at h
      · rename_i hall
        cases h
        have hl : lookup c g = some ⟨allId, c.segs, []⟩ := by
          unfold lookup; rw [hG]; simp [hall]
        constructor
        · intro hs; exact InCl.member hl hs
        · intro hc
          cases hc with
          | member hG' hm => rw [hl] at hG'; cases hG'; exact hm
          | incl hG' hi _ => rw [hl] at hG'; cases hG'; simp at hi
      · cases h
    | some G =>
      simp only [hG] at h
      have hl := lookup_of_findG hG
      have ⟨h1, h2⟩ := fold_spec addNew mem_addNew (resolve c f) G.includes _ l h
      rw [h2 s]
      constructor
      · rintro (hm | ⟨i, hi, r, hr, hs⟩)
        · exact InCl.member hl (by simpa [mem_addNew] using hm)
        · exact InCl.incl hl hi ((ih i r hr s).mp hs)
      · intro hc
        cases hc with
        | member hG' hm =>
          rw [hl] at hG'; cases hG'
          exact Or.inl (by simpa [mem_addNew] using hm)
        | incl hG' hi hc' =>
          rw [hl] at hG'; cases hG'
          obtain ⟨r, hr⟩ := h1 _ hi
          exact Or.inr ⟨_, hi, r, hr, (ih _ r hr s).mpr hc'⟩

/-- **each once**: the result has no repetition (for the implicit `"all"`: if the segment ids have none) -/
theorem resolve_nodup (c : Cell) (f g : Nat) (l : List Nat) (h : resolve c f g = .ok l)
    (hs : (findG c.groups g).isSome ∨ c.segs.Nodup) : l.Nodup := by
  cases f with
  | zero => simp [resolve] at h
  | succ f =>
    rw [resolve_succ] at h
    cases hG : findG c.groups g with
    | none =>
      simp only [hG] at h
      split at h
      · cases h
        rcases hs with hs | hs
        · simp [hG] at hs
        · exact hs
      · cases h
    | some G =>
      simp only [hG] at h
      exact fold_nodup (resolve c f) G.includes _ l (nodup_addNew [] _ List.nodup_nil) h

/-- more fuel never changes an answer -/
theorem resolve_mono (c : Cell) : ∀ f g l, resolve c f g = .ok l → resolve c (f+1) g = .ok l := by
  intro f
  induction f with
  | zero => intro g l h; simp [resolve] at h
  | succ f ih =>
    intro g l h
    rw [resolve_succ] at h ⊢
    cases hG : findG c.groups g with
    | none => simpa [hG] using h
    | some G =>
      simp only [hG] at h ⊢
      have ⟨h1, _⟩ := fold_spec addNew mem_addNew (resolve c f) G.includes _ l h
      rw [← fold_congr addNew (resolve c f) (resolve c (f+1)) G.includes _ (by
        intro i hi
        obtain ⟨r, hr⟩ := h1 i hi
        rw [hr, ih i r hr])]
      exact h

theorem resolve_mono_le (c : Cell) (f f' g : Nat) (l : List Nat) (h : resolve c f g = .ok l) (hle : f ≤ f') :
    resolve c f' g = .ok l := by
  induction hle with
  | refl => exact h
  | step _ ih => exact resolve_mono c _ g l ih

/-- **termination / totality**: on an acyclic cell without dangling includes, `resolve` returns for every known
    group once the fuel exceeds its rank -/
theorem resolve_total (c : Cell) (r : Nat → Nat) (hr : Ranked c r) (hd : NoDangling c) :
    ∀ f g, r g < f → (lookup c g).isSome → ∃ l, resolve c f g = .ok l := by
  intro f
  induction f with
  | zero => intro g h; omega
  | succ f ih =>
    intro g hlt hsome
    rw [resolve_succ]
    cases hG : findG c.groups g with
    | none =>
      simp only [hG]
      by_cases hall : g = allId
      · exact ⟨c.segs, by simp [hall]⟩
      · simp [lookup, hG, hall] at hsome
    | some G =>
      simp only [hG]
      have hl := lookup_of_findG hG
      apply fold_ok
      intro i hi
      exact ih i (by have := hr _ _ hl _ hi; omega) (hd _ _ hl _ hi)

/-- `resolve` of a group that does not reach `g` never looks at `g` -/
theorem resolve_off (c c' : Cell) (g : Nat) (hsegs : c'.segs = c.segs)
    (hoff : ∀ h, h ≠ g → findG c'.groups h = findG c.groups h) :
    ∀ f i, ¬ Reach c i g → resolve c' f i = resolve c f i := by
  intro f
  induction f with
  | zero => intro i _; rfl
  | succ f ih =>
    intro i hi
    have hne : i ≠ g := by intro e; subst e; exact hi (Reach.refl _)
    rw [resolve_succ, resolve_succ, hoff i hne, hsegs]
    cases hG : findG c.groups i with
    | none => rfl
    | some G =>
      simp only
      apply fold_congr
      intro j hj
      exact ih j (fun hreach => hi (Reach.step (lookup_of_findG hG) hj hreach))

/-! ### a resolution that returns has met no cycle -/

/-- the includes of a resolved group were resolved one level deeper -/
theorem resolve_descend (c : Cell) (f g : Nat) (l : List Nat) (h : resolve c (f+1) g = .ok l) (G : Group)
    (hG : lookup c g = some G) (j : Nat) (hj : j ∈ G.includes) : ∃ r, resolve c f j = .ok r := by
  have hfG := lookup_includes_findG hG hj
  rw [resolve_succ, hfG] at h
  simp only at h
  exact (fold_spec addNew mem_addNew (resolve c f) G.includes _ l h).1 j hj

/-- everything reachable from a resolved group was resolved, with no more fuel -/
theorem resolve_reach_ok (c : Cell) {a b : Nat} (hr : Reach c a b) :
    ∀ f l, resolve c f a = .ok l → ∃ f' r, f' ≤ f ∧ resolve c f' b = .ok r := by
  induction hr with
  | refl a => intro f l h; exact ⟨f, l, Nat.le_refl _, h⟩
  | @step a G i b hG hi _ ih =>
    intro f l h
    cases f with
    | zero => simp [resolve] at h
    | succ f0 =>
      obtain ⟨r, hr⟩ := resolve_descend c f0 a l h G hG i hi
      obtain ⟨f', r', hle, hr'⟩ := ih f0 r hr
      exact ⟨f', r', by omega, hr'⟩

/-- a group that resolves is not reachable from one of its own includes -/
theorem resolve_ok_no_back (c : Cell) : ∀ n f, f ≤ n → ∀ g l, resolve c f g = .ok l →
    ∀ G, lookup c g = some G → ∀ j ∈ G.includes, ¬ Reach c j g := by
  intro n
  induction n with
  | zero =>
    intro f hf g l h
    have : f = 0 := by omega
    subst this; simp [resolve] at h
  | succ n ih =>
    intro f hf g l h G hG j hj hreach
    cases f with
    | zero => simp [resolve] at h
    | succ f0 =>
      obtain ⟨r, hr⟩ := resolve_descend c f0 g l h G hG j hj
      obtain ⟨f', r', hle, hr'⟩ := resolve_reach_ok c hreach f0 r hr
      exact ih f' (by omega) g r' hr' G hG j hj hreach

/-! ### rewriting the record of one group -/

/-- `c'` is `c` with the record of group `g` replaced by one that has the same *set* of includes -/
structure Rewr (c c' : Cell) (g : Nat) (G G' : Group) : Prop where
  hG : lookup c g = some G
  hG' : lookup c' g = some G'
  hoff : ∀ h, h ≠ g → lookup c' h = lookup c h
  hinc : ∀ i, i ∈ G'.includes ↔ i ∈ G.includes

namespace Rewr
variable {c c' : Cell} {g : Nat} {G G' : Group}

theorem symm (R : Rewr c c' g G G') : Rewr c' c g G' G :=
  ⟨R.hG', R.hG, fun h hne => (R.hoff h hne).symm, fun i => (R.hinc i).symm⟩

theorem shape (R : Rewr c c' g G G') (h : Nat) (H' : Group) (hH' : lookup c' h = some H') :
    ∃ H, lookup c h = some H ∧ ∀ i, i ∈ H'.includes ↔ i ∈ H.includes := by
  by_cases e : h = g
  · subst e
    rw [R.hG'] at hH'; cases hH'
    exact ⟨G, R.hG, R.hinc⟩
  · rw [R.hoff h e] at hH'
    exact ⟨H', hH', fun _ => Iff.rfl⟩

theorem isSome (R : Rewr c c' g G G') (h : Nat) (hs : (lookup c h).isSome) : (lookup c' h).isSome := by
  cases hH : lookup c h with
  | none => rw [hH] at hs; cases hs
  | some H =>
    obtain ⟨H', hH', _⟩ := R.symm.shape h H hH
    rw [hH']; rfl

theorem reach_mp (R : Rewr c c' g G G') {a b : Nat} (h : Reach c a b) : Reach c' a b := by
  induction h with
  | refl a => exact Reach.refl a
  | @step a H i b hH hi _ ih =>
    obtain ⟨H', hH', hinc⟩ := R.symm.shape a H hH
    exact Reach.step hH' ((hinc i).mp hi) ih

theorem reach (R : Rewr c c' g G G') (a b : Nat) : Reach c' a b ↔ Reach c a b :=
  ⟨R.symm.reach_mp, R.reach_mp⟩

theorem ranked (R : Rewr c c' g G G') (r : Nat → Nat) (hr : Ranked c r) : Ranked c' r := by
  intro h H' hH' i hi
  obtain ⟨H, hH, hinc⟩ := R.shape h H' hH'
  exact hr h H hH i ((hinc i).mp hi)

theorem noDangling (R : Rewr c c' g G G') (hd : NoDangling c) : NoDangling c' := by
  intro h H' hH' i hi
  obtain ⟨H, hH, hinc⟩ := R.shape h H' hH'
  exact R.isSome i (hd h H hH i ((hinc i).mp hi))

end Rewr

/-- derivations that start at a group from which `g` is unreachable never look at `g` -/
theorem incl_off (c c' : Cell) (g : Nat)
    (hoff : ∀ h, h ≠ g → lookup c' h = lookup c h) (i : Nat) (hi : ¬ Reach c i g) :
    ∀ h s, Reach c i h → InCl c h s → InCl c' h s := by
  intro h s hr hc
  induction hc with
  | @member h' G s' hG hm =>
    have : h' ≠ g := by intro e; subst e; exact hi hr
    exact InCl.member ((hoff _ this).trans hG) hm
  | @incl h' G j s' hG hmem _ ih =>
    have hne : h' ≠ g := by intro e; subst e; exact hi hr
    exact InCl.incl ((hoff _ hne).trans hG) hmem (ih (hr.tail G j hG hmem))

/-- replacing group `g` by one with the same include set and a member list that only drops members supplied by an
    include from which `g` cannot be reached leaves *every* group's closure unchanged -/
theorem Rewr.preserve {c c' : Cell} {g : Nat} {G G' : Group} (R : Rewr c c' g G G')
    (hsub : ∀ s ∈ G'.members, s ∈ G.members)
    (hcov : ∀ s ∈ G.members, s ∈ G'.members ∨ ∃ i ∈ G.includes, InCl c i s ∧ ¬ Reach c i g) :
    ∀ h s, InCl c' h s ↔ InCl c h s := by
  intro h s
  constructor
  · intro hc
    induction hc with
    | @member h' H s' hH hm =>
      by_cases e : h' = g
      · subst e; rw [R.hG'] at hH; cases hH; exact InCl.member R.hG (hsub _ hm)
      · exact InCl.member ((R.hoff _ e).symm.trans hH) hm
    | @incl h' H j s' hH hi _ ih =>
      by_cases e : h' = g
      · subst e; rw [R.hG'] at hH; cases hH; exact InCl.incl R.hG ((R.hinc _).mp hi) ih
      · exact InCl.incl ((R.hoff _ e).symm.trans hH) hi ih
  · intro hc
    induction hc with
    | @member h' H s' hH hm =>
      by_cases e : h' = g
      · subst e; rw [R.hG] at hH; cases hH
        rcases hcov _ hm with hm' | ⟨i, hi, hci, hnr⟩
        · exact InCl.member R.hG' hm'
        · exact InCl.incl R.hG' ((R.hinc _).mpr hi)
            (incl_off c c' h' R.hoff i hnr i _ (Reach.refl i) hci)
      · exact InCl.member ((R.hoff _ e).trans hH) hm
    | @incl h' H j s' hH hi _ ih =>
      by_cases e : h' = g
      · subst e; rw [R.hG] at hH; cases hH; exact InCl.incl R.hG' ((R.hinc _).mpr hi) ih
      · exact InCl.incl ((R.hoff _ e).trans hH) hi ih

/-- a cell that differs only in the order / multiplicity of includes resolves wherever the original does -/
theorem resolve_ok_transfer (c c' : Cell)
    (hshape : ∀ h H', lookup c' h = some H' → ∃ H, lookup c h = some H ∧ ∀ i, i ∈ H'.includes → i ∈ H.includes)
    (hshape' : ∀ h, (lookup c h).isSome → (lookup c' h).isSome) :
    ∀ f i r, resolve c f i = .ok r → ∃ r', resolve c' f i = .ok r' := by
  intro f
  induction f with
  | zero => intro i r h; simp [resolve] at h
  | succ f ih =>
    intro i r h
    have hsome : (lookup c i).isSome := by
      rw [resolve_succ] at h
      unfold lookup
      cases hG : findG c.groups i with
      | some G => rfl
      | none =>
        simp only [hG] at h ⊢
        split at h
        · rename_i e; simp [e]
        · cases h
    have hsome' := hshape' i hsome
    rw [resolve_succ]
    cases hG' : findG c'.groups i with
    | none =>
      simp only
      unfold lookup at hsome'
      rw [hG'] at hsome'
      simp only at hsome'
      split at hsome'
      · rename_i e; exact ⟨c'.segs, by simp [e]⟩
      · cases hsome'
    | some G' =>
      simp only
      apply fold_ok
      intro j hj
      obtain ⟨H, hH, hsub⟩ := hshape i G' (lookup_of_findG hG')
      have hjH := hsub j hj
      obtain ⟨rj, hrj⟩ := resolve_descend c f i r h H hH j hjH
      exact ih j rj hrj

theorem Rewr.resolve_ok {c c' : Cell} {g : Nat} {G G' : Group} (R : Rewr c c' g G G') (f i : Nat) (r : List Nat)
    (h : resolve c f i = .ok r) : ∃ r', resolve c' f i = .ok r' :=
  resolve_ok_transfer c c'
    (fun k K' hK' => by
      obtain ⟨K, hK, hinc⟩ := R.shape k K' hK'
      exact ⟨K, hK, fun i hi => (hinc i).mp hi⟩)
    R.isSome f i r h

/-! ### what a successful `optimiseGroup` did -/

theorem setGroup_self (c : Cell) (g : Nat) (G : Group) (h : findG c.groups g = some G) : setGroup c g G = c := by
  unfold setGroup; rw [replaceFirst_self c.groups g G h]

theorem setGroup_rewr (c : Cell) (g : Nat) (G G' : Group) (hG : findG c.groups g = some G) (hid : G'.id = g)
    (hinc : ∀ i, i ∈ G'.includes ↔ i ∈ G.includes) : Rewr c (setGroup c g G') g G G' :=
  ⟨lookup_of_findG hG, lookup_setGroup_self c g G G' hG hid, fun h hne => lookup_setGroup_ne c g h G' hne hid, hinc⟩

/-- the group after the two de-duplications and the sort of its includes -/
def midGroup (key : Nat → Nat) (G : Group) : Group := ⟨G.id, dedup G.members, sortBy key (dedup G.includes)⟩

theorem midCell_eq (key : Nat → Nat) (c : Cell) (g : Nat) (G : Group) :
    midCell key c g G = setGroup c g (midGroup key G) := rfl

theorem midCell_rewr (key : Nat → Nat) (c : Cell) (g : Nat) (G : Group) (hG : findG c.groups g = some G) :
    Rewr c (midCell key c g G) g G (midGroup key G) :=
  setGroup_rewr c g G (midGroup key G) hG (show G.id = g from findG_id hG) (fun i => by simp [midGroup, mem_sortBy, mem_dedup])

/-- de-duplication and sorting change no closure -/
theorem midCell_incl (key : Nat → Nat) (c : Cell) (g : Nat) (G : Group) (hG : findG c.groups g = some G) :
    ∀ h s, InCl (midCell key c g G) h s ↔ InCl c h s :=
  (midCell_rewr key c g G hG).preserve
    (fun s hs => by simpa [midGroup, mem_dedup] using hs)
    (fun s hs => Or.inl (by simpa [midGroup, mem_dedup] using hs))

/-- on a group whose lists are already de-duplicated and sorted the first two assignments change nothing -/
theorem midCell_clean (key : Nat → Nat) (c : Cell) (g : Nat) (G : Group) (hG : findG c.groups g = some G)
    (hI : G.includes.Nodup) (hM : G.members.Nodup) (hsI : Sorted key G.includes) : midCell key c g G = c := by
  unfold midCell
  rw [dedup_of_nodup _ hI, dedup_of_nodup _ hM, sortBy_of_sorted key _ hsI]
  exact setGroup_self c g G hG

structure OptSpec (key : Nat → Nat) (c : Cell) (f g : Nat) (c' : Cell) (G G' : Group) : Prop where
  hne : g ≠ emptyId
  hG : findG c.groups g = some G
  hc' : c' = setGroup c g G'
  hid : G'.id = G.id
  hinc : G'.includes = sortBy key (dedup G.includes)
  hmem : (G'.members = dedup G.members ∧ ¬ (dedup G.includes ≠ [] ∧ dedup G.members ≠ [])) ∨
         ((dedup G.includes ≠ [] ∧ dedup G.members ≠ []) ∧
          ∃ u, unionCl (resolve (midCell key c g G) f) (dedup G.includes) = .ok u ∧
            G'.members = sortBy (fun x => x) ((dedup G.members).filter (fun m => decide (m ∉ u))))

theorem optimiseGroup_spec (key : Nat → Nat) (c : Cell) (f g : Nat) (c' : Cell)
    (h : optimiseGroup key c f g = .ok c') : ∃ G G', OptSpec key c f g c' G G' := by
  unfold optimiseGroup at h
  split at h
  · cases h
  · rename_i hne
    split at h
    · cases h
    · rename_i G hG
      split at h
      · rename_i hcond
        split at h
        · cases h
        · rename_i u hu
          cases h
          exact ⟨G, _, ⟨hne, hG, rfl, rfl, rfl, Or.inr ⟨hcond, u, hu, rfl⟩⟩⟩
      · rename_i hcond
        cases h
        exact ⟨G, _, ⟨hne, hG, rfl, rfl, rfl, Or.inl ⟨rfl, hcond⟩⟩⟩

namespace OptSpec
variable {key : Nat → Nat} {c c' : Cell} {f g : Nat} {G G' : Group}

theorem gid (S : OptSpec key c f g c' G G') : G.id = g := findG_id S.hG
theorem gid' (S : OptSpec key c f g c' G G') : G'.id = g := S.hid.trans S.gid
theorem segs (S : OptSpec key c f g c' G G') : c'.segs = c.segs := by rw [S.hc']; rfl
theorem lookG (S : OptSpec key c f g c' G G') : lookup c g = some G := lookup_of_findG S.hG
theorem findG' (S : OptSpec key c f g c' G G') : findG c'.groups g = some G' := by
  rw [S.hc']; exact findG_replaceFirst_self c.groups g G G' S.hG S.gid'
theorem lookG' (S : OptSpec key c f g c' G G') : lookup c' g = some G' := lookup_of_findG S.findG'
theorem findOff (S : OptSpec key c f g c' G G') (h : Nat) (hne : h ≠ g) : findG c'.groups h = findG c.groups h := by
  rw [S.hc']; exact findG_replaceFirst_ne c.groups g h G' hne S.gid'
theorem lookOff (S : OptSpec key c f g c' G G') (h : Nat) (hne : h ≠ g) : lookup c' h = lookup c h := by
  rw [S.hc']; exact lookup_setGroup_ne c g h G' hne S.gid'
theorem ids (S : OptSpec key c f g c' G G') : c'.groups.map (·.id) = c.groups.map (·.id) := by
  rw [S.hc']; exact map_id_replaceFirst c.groups g G' S.gid'

theorem memInc (S : OptSpec key c f g c' G G') (i : Nat) : i ∈ G'.includes ↔ i ∈ G.includes := by
  rw [S.hinc, mem_sortBy, mem_dedup]

theorem rewr (S : OptSpec key c f g c' G G') : Rewr c c' g G G' := ⟨S.lookG, S.lookG', S.lookOff, S.memInc⟩

theorem rewrMid (S : OptSpec key c f g c' G G') : Rewr c (midCell key c g G) g G (midGroup key G) :=
  midCell_rewr key c g G S.hG

theorem nodupInc (S : OptSpec key c f g c' G G') : G'.includes.Nodup := by
  rw [S.hinc]; exact nodup_sortBy _ _ (nodup_dedup _)

theorem sortedInc (S : OptSpec key c f g c' G G') : Sorted key G'.includes := by
  rw [S.hinc]; exact sorted_sortBy _ _

theorem nodupMem (S : OptSpec key c f g c' G G') : G'.members.Nodup := by
  rcases S.hmem with ⟨h, _⟩ | ⟨_, u, _, h⟩
  · rw [h]; exact nodup_dedup _
  · rw [h]; exact nodup_sortBy _ _ ((nodup_dedup _).sublist List.filter_sublist)

theorem memSub (S : OptSpec key c f g c' G G') : ∀ s ∈ G'.members, s ∈ G.members := by
  intro s hs
  rcases S.hmem with ⟨h, _⟩ | ⟨_, u, _, h⟩
  · rw [h, mem_dedup] at hs; exact hs
  · rw [h, mem_sortBy, List.mem_filter, mem_dedup] at hs; exact hs.1

/-- when the member filter ran, every include of the group was resolved (in the de-duplicated cell, hence also in
    the original one) and none of them leads back to the group: the filter only ever runs off a cycle -/
theorem incOk (S : OptSpec key c f g c' G G') (u : List Nat)
    (hu : unionCl (resolve (midCell key c g G) f) (dedup G.includes) = .ok u) :
    ∀ i ∈ G.includes, (∃ r, resolve (midCell key c g G) f i = .ok r) ∧ ¬ Reach c i g := by
  intro i hi
  have hi' : i ∈ dedup G.includes := (mem_dedup _ _).mpr hi
  obtain ⟨r, hr⟩ := (unionCl_spec _ _ _ hu).1 i hi'
  refine ⟨⟨r, hr⟩, ?_⟩
  intro hreach
  have hreach1 : Reach (midCell key c g G) i g := S.rewrMid.reach_mp hreach
  obtain ⟨f', r', _, hr'⟩ := resolve_reach_ok _ hreach1 f r hr
  refine resolve_ok_no_back _ f' f' (Nat.le_refl _) g r' hr' (midGroup key G) S.rewrMid.hG' i ?_ hreach1
  simp [midGroup, mem_sortBy, mem_dedup, hi]

/-- a member that was dropped is in the resolved set of some include that does not lead back to the group -/
theorem memCov (S : OptSpec key c f g c' G G') :
    ∀ s ∈ G.members, s ∈ G'.members ∨ ∃ i ∈ G.includes, InCl c i s ∧ ¬ Reach c i g := by
  intro s hs
  rcases S.hmem with ⟨h, _⟩ | ⟨_, u, hu, h⟩
  · left; rw [h, mem_dedup]; exact hs
  · by_cases hsu : s ∈ u
    · right
      obtain ⟨i, hi, r, hr, hsr⟩ := ((unionCl_spec _ _ _ hu).2 s).mp hsu
      have hi' := (mem_dedup _ _).mp hi
      exact ⟨i, hi', (midCell_incl key c g G S.hG i s).mp ((resolve_closure _ f i r hr s).mp hsr),
        (S.incOk u hu i hi').2⟩
    · left
      rw [h, mem_sortBy, List.mem_filter, mem_dedup]
      exact ⟨hs, by simpa using hsu⟩

/-- no surviving member is supplied by an include (closures taken in the cell before optimising) -/
theorem memMin (S : OptSpec key c f g c' G G') :
    ∀ m ∈ G'.members, ∀ i ∈ G.includes, ¬ InCl c i m := by
  intro m hm i hi hcl
  rcases S.hmem with ⟨h, hcond⟩ | ⟨_, u, hu, h⟩
  · apply hcond
    constructor
    · intro e
      have : i ∈ dedup G.includes := (mem_dedup _ _).mpr hi
      rw [e] at this; simp at this
    · intro e
      rw [h, e] at hm; simp at hm
  · rw [h, mem_sortBy, List.mem_filter] at hm
    have hmu : m ∉ u := by simpa using hm.2
    apply hmu
    have hi' : i ∈ dedup G.includes := (mem_dedup _ _).mpr hi
    obtain ⟨r, hr⟩ := (unionCl_spec _ _ _ hu).1 i hi'
    exact ((unionCl_spec _ _ _ hu).2 m).mpr
      ⟨i, hi', r, hr, (resolve_closure _ f i r hr m).mpr ((midCell_incl key c g G S.hG i m).mpr hcl)⟩

/-- **preservation**: the closure of every group is unchanged (no acyclicity assumed: the filter runs only when
    every include resolved, and then none of them leads back to the group) -/
theorem preserves (S : OptSpec key c f g c' G G') : ∀ h s, InCl c' h s ↔ InCl c h s :=
  S.rewr.preserve S.memSub S.memCov

theorem lookup_shape (S : OptSpec key c f g c' G G') (h : Nat) (H' : Group) (hH' : lookup c' h = some H') :
    ∃ H, lookup c h = some H ∧ ∀ i, i ∈ H'.includes ↔ i ∈ H.includes := S.rewr.shape h H' hH'

theorem lookup_shape' (S : OptSpec key c f g c' G G') (h : Nat) (H : Group) (hH : lookup c h = some H) :
    ∃ H', lookup c' h = some H' ∧ ∀ i, i ∈ H'.includes ↔ i ∈ H.includes := by
  obtain ⟨H', hH', hinc⟩ := S.rewr.symm.shape h H hH
  exact ⟨H', hH', fun i => (hinc i).symm⟩

theorem ranked (S : OptSpec key c f g c' G G') (r : Nat → Nat) (hr : Ranked c r) : Ranked c' r := S.rewr.ranked r hr

theorem noDangling (S : OptSpec key c f g c' G G') (hd : NoDangling c) : NoDangling c' := S.rewr.noDangling hd

end OptSpec

/-! ### idempotence -/

/-- the form `optimiseGroup` takes on a group whose lists are already de-duplicated and sorted -/
theorem optimiseGroup_on_clean (key : Nat → Nat) (c : Cell) (f g : Nat) (G : Group)
    (hne : g ≠ emptyId) (hG : findG c.groups g = some G) (hI : G.includes.Nodup) (hM : G.members.Nodup)
    (hsI : Sorted key G.includes) :
    optimiseGroup key c f g =
      if G.includes ≠ [] ∧ G.members ≠ [] then
        match unionCl (resolve c f) G.includes with
        | .error e => .error e
        | .ok u => .ok (setGroup c g ⟨G.id, sortBy (fun x => x) (G.members.filter (fun m => decide (m ∉ u))), G.includes⟩)
      else .ok c := by
  unfold optimiseGroup
  rw [if_neg hne]
  simp only [hG, midCell_clean key c g G hG hI hM hsI]
  simp only [dedup_of_nodup _ hI, dedup_of_nodup _ hM, sortBy_of_sorted key _ hsI]
  split
  · rfl
  · rw [show (⟨G.id, G.members, G.includes⟩ : Group) = G from rfl, setGroup_self c g G hG]

/-- a group is *settled* when optimising it again changes nothing -/
def Settled (key : Nat → Nat) (c : Cell) (f g : Nat) : Prop := optimiseGroup key c f g = .ok c

/-- criterion: clean lists and no member in the union of the included groups -/
theorem settled_of (key : Nat → Nat) (c : Cell) (f g : Nat) (G : Group)
    (hne : g ≠ emptyId) (hG : findG c.groups g = some G) (hI : G.includes.Nodup) (hM : G.members.Nodup)
    (hsI : Sorted key G.includes)
    (hrest : G.includes ≠ [] ∧ G.members ≠ [] →
      Sorted (fun x => x) G.members ∧ ∃ u, unionCl (resolve c f) G.includes = .ok u ∧ ∀ m ∈ G.members, m ∉ u) :
    Settled key c f g := by
  unfold Settled
  rw [optimiseGroup_on_clean key c f g G hne hG hI hM hsI]
  split
  · rename_i hcond
    obtain ⟨hs, u, hu, hmu⟩ := hrest hcond
    simp only [hu]
    have e1 : G.members.filter (fun m => decide (m ∉ u)) = G.members :=
      List.filter_eq_self.mpr (fun a ha => by simpa using hmu a ha)
    rw [e1, sortBy_of_sorted _ _ hs, show (⟨G.id, G.members, G.includes⟩ : Group) = G from rfl, setGroup_self c g G hG]
  · rfl

/-- **idempotence of one group**: optimising the same group again changes nothing -/
theorem optimiseGroup_settles (key : Nat → Nat) (c : Cell) (f g : Nat) (c' : Cell)
    (h : optimiseGroup key c f g = .ok c') : Settled key c' f g := by
  obtain ⟨G, G', S⟩ := optimiseGroup_spec key c f g c' h
  apply settled_of key c' f g G' S.hne S.findG' S.nodupInc S.nodupMem S.sortedInc
  intro hcond
  rcases S.hmem with ⟨hM, hc⟩ | ⟨_, u, hu, hM⟩
  · exfalso
    apply hc
    constructor
    · intro e; apply hcond.1; rw [S.hinc, e]; rfl
    · intro e; apply hcond.2; rw [hM, e]
  · have hspec := unionCl_spec _ _ _ hu
    have hok := S.incOk u hu
    -- `c'` and the de-duplicated cell differ only in the record of `g`, which no include reaches
    have hcongr : unionCl (resolve c' f) G'.includes = unionCl (resolve (midCell key c g G) f) G'.includes := by
      apply unionCl_congr
      intro i hi
      have hiG := (S.memInc i).mp hi
      refine resolve_off (midCell key c g G) c' g (by rw [S.segs]; rfl) ?_ f i ?_
      · intro h hne
        rw [S.findOff h hne, midCell_eq]
        exact (findG_replaceFirst_ne c.groups g h (midGroup key G) hne S.gid).symm
      · exact fun hr => (hok i hiG).2 (S.rewrMid.symm.reach_mp hr)
    obtain ⟨u', hu'⟩ := unionCl_ok (resolve (midCell key c g G) f) G'.includes (by
      intro i hi
      exact hspec.1 i ((mem_dedup _ _).mpr ((S.memInc i).mp hi)))
    have hspec' := unionCl_spec _ _ _ hu'
    refine ⟨by rw [hM]; exact sorted_sortBy _ _, u', hcongr.trans hu', ?_⟩
    intro m hm hmu'
    rw [hM, mem_sortBy, List.mem_filter] at hm
    have hmu : m ∉ u := by simpa using hm.2
    apply hmu
    obtain ⟨i, hi, r, hr, hmr⟩ := (hspec'.2 m).mp hmu'
    exact (hspec.2 m).mpr ⟨i, (mem_dedup _ _).mpr ((S.memInc i).mp hi), r, hr, hmr⟩

/-- a settled group stays settled when another group is optimised -/
theorem settled_stable (key : Nat → Nat) (c : Cell) (f g h : Nat) (c' : Cell)
    (hset : Settled key c f g) (hopt : optimiseGroup key c f h = .ok c') : Settled key c' f g := by
  by_cases e : h = g
  · subst e
    unfold Settled at hset
    rw [hset] at hopt; cases hopt; exact hset
  · obtain ⟨H, H', S⟩ := optimiseGroup_spec key c f h c' hopt
    obtain ⟨G, G'', T⟩ := optimiseGroup_spec key c f g c hset
    -- the settled group's record is its own optimised form
    have hGG : G'' = G := by
      have := T.hc'
      unfold setGroup at this
      have hgr : replaceFirst c.groups g G'' = c.groups := by
        have := congrArg Cell.groups this; simpa using this.symm
      exact replaceFirst_eq_self c.groups g G G'' T.hG hgr
    subst hGG
    have hG' : findG c'.groups g = some G'' := by rw [S.findOff g (fun x => e x.symm)]; exact T.hG
    apply settled_of key c' f g G'' T.hne hG' T.nodupInc T.nodupMem T.sortedInc
    intro hcond
    have hdI : dedup G''.includes = G''.includes := dedup_of_nodup _ T.nodupInc
    have hdM : dedup G''.members = G''.members := dedup_of_nodup _ T.nodupMem
    have hmid : midCell key c g G'' = c := midCell_clean key c g G'' T.hG T.nodupInc T.nodupMem T.sortedInc
    rcases T.hmem with ⟨_, hc⟩ | ⟨_, u, hu, hM⟩
    · exfalso; apply hc; rw [hdI, hdM]; exact hcond
    · rw [hdI, hmid] at hu
      have hspec := unionCl_spec _ _ _ hu
      have hpres := S.preserves
      obtain ⟨u', hu'⟩ := unionCl_ok (resolve c' f) G''.includes (by
        intro i hi
        obtain ⟨r, hr⟩ := hspec.1 i hi
        exact S.rewr.resolve_ok f i r hr)
      have hspec' := unionCl_spec _ _ _ hu'
      refine ⟨by rw [hM]; exact sorted_sortBy _ _, u', hu', ?_⟩
      intro m hm hmu'
      have hm' := hm
      rw [hM, mem_sortBy, List.mem_filter] at hm'
      have hmu : m ∉ u := by simpa using hm'.2
      apply hmu
      obtain ⟨i, hi, r', hr', hmr'⟩ := (hspec'.2 m).mp hmu'
      obtain ⟨r, hr⟩ := hspec.1 i hi
      have : InCl c' i m := (resolve_closure c' f i r' hr' m).mp hmr'
      have : InCl c i m := (hpres i m).mp this
      exact (hspec.2 m).mpr ⟨i, hi, r, hr, (resolve_closure c f i r hr m).mpr this⟩

/-! ### `optimiseAll`: a fold of `optimiseGroup` over the group ids -/

theorem optStep_error (key : Nat → Nat) (f : Nat) (l : List Nat) (e : Err) :
    l.foldl (optStep key f) (.error e) = .error e := by
  induction l with
  | nil => rfl
  | cons g l ih => simpa [List.foldl_cons, optStep] using ih

theorem ranked_acyc_at {c : Cell} {r : Nat → Nat} (hr : Ranked c r) (g : Nat) :
    ∀ G, findG c.groups g = some G → ∀ i ∈ G.includes, ¬ Reach c i g :=
  fun _ hG => ranked_no_back hr (lookup_of_findG hG)

theorem optimiseGroup_ranked (key : Nat → Nat) (c : Cell) (f g : Nat) (c' : Cell) (r : Nat → Nat)
    (h : optimiseGroup key c f g = .ok c') (hr : Ranked c r) : Ranked c' r := by
  obtain ⟨G, G', S⟩ := optimiseGroup_spec key c f g c' h
  exact S.ranked r hr

/-- invariants of the loop: `P` is kept by every step -/
theorem foldOpt_inv (key : Nat → Nat) (f : Nat) (P : Cell → Prop)
    (hstep : ∀ c g c', P c → optimiseGroup key c f g = .ok c' → P c') :
    ∀ (l : List Nat) (c c' : Cell), P c → l.foldl (optStep key f) (.ok c) = .ok c' → P c'
  | [], c, c', hp, h => by
    simp only [List.foldl_nil, Except.ok.injEq] at h; subst h; exact hp
  | g :: l, c, c', hp, h => by
    simp only [List.foldl_cons] at h
    cases h1 : optimiseGroup key c f g with
    | error e =>
      have : optStep key f (.ok c) g = .error e := h1
      rw [this, optStep_error] at h; cases h
    | ok c1 =>
      have : optStep key f (.ok c) g = .ok c1 := h1
      rw [this] at h
      exact foldOpt_inv key f P hstep l c1 c' (hstep c g c1 hp h1) h

/-- a per-group property `Q` established by optimising that group and kept when any group is optimised holds for
    every processed group at the end -/
theorem foldOpt_all (key : Nat → Nat) (f : Nat) (Q : Cell → Nat → Prop)
    (hnew : ∀ c g c', optimiseGroup key c f g = .ok c' → Q c' g)
    (hkeep : ∀ c g h c', Q c g → optimiseGroup key c f h = .ok c' → Q c' g) :
    ∀ (l : List Nat) (c c' : Cell), l.foldl (optStep key f) (.ok c) = .ok c' →
      (∀ g, Q c g → Q c' g) ∧ ∀ g ∈ l, Q c' g
  | [], c, c', h => by
    simp only [List.foldl_nil, Except.ok.injEq] at h; subst h
    exact ⟨fun _ h => h, fun _ h => by simp at h⟩
  | g :: l, c, c', h => by
    simp only [List.foldl_cons] at h
    cases h1 : optimiseGroup key c f g with
    | error e =>
      have : optStep key f (.ok c) g = .error e := h1
      rw [this, optStep_error] at h; cases h
    | ok c1 =>
      have : optStep key f (.ok c) g = .ok c1 := h1
      rw [this] at h
      have ⟨k1, k2⟩ := foldOpt_all key f Q hnew hkeep l c1 c' h
      constructor
      · intro x hx; exact k1 x (hkeep c x g c1 hx h1)
      · intro x hx
        rcases List.mem_cons.mp hx with e | e
        · subst e; exact k1 x (hnew c x c1 h1)
        · exact k2 x e

theorem foldOpt_settled (key : Nat → Nat) (f : Nat) :
    ∀ (l : List Nat) (c : Cell), (∀ g ∈ l, Settled key c f g) → l.foldl (optStep key f) (.ok c) = .ok c
  | [], _, _ => rfl
  | g :: l, c, h => by
    simp only [List.foldl_cons]
    have : optStep key f (.ok c) g = .ok c := h g (by simp)
    rw [this]
    exact foldOpt_settled key f l c (fun x hx => h x (by simp [hx]))

/-- no duplicate member, no duplicate include, no member that an included group already supplies -/
def Minimal (c : Cell) (g : Nat) : Prop :=
  ∀ G, findG c.groups g = some G →
    G.members.Nodup ∧ G.includes.Nodup ∧ ∀ m ∈ G.members, ∀ i ∈ G.includes, ¬ InCl c i m

theorem optimiseGroup_minimal (key : Nat → Nat) (c : Cell) (f g : Nat) (c' : Cell)
    (h : optimiseGroup key c f g = .ok c') : Minimal c' g := by
  obtain ⟨G, G', S⟩ := optimiseGroup_spec key c f g c' h
  intro G1 hG1
  rw [S.findG'] at hG1; cases hG1
  refine ⟨S.nodupMem, S.nodupInc, ?_⟩
  intro m hm i hi hcl
  exact S.memMin m hm i ((S.memInc i).mp hi) ((S.preserves i m).mp hcl)

theorem minimal_stable (key : Nat → Nat) (c : Cell) (f g h : Nat) (c' : Cell)
    (hmin : Minimal c g) (hopt : optimiseGroup key c f h = .ok c') : Minimal c' g := by
  by_cases e : g = h
  · subst e; exact optimiseGroup_minimal key c f g c' hopt
  · obtain ⟨H, H', S⟩ := optimiseGroup_spec key c f h c' hopt
    intro G hG
    rw [S.findOff g e] at hG
    obtain ⟨h1, h2, h3⟩ := hmin G hG
    exact ⟨h1, h2, fun m hm i hi hcl => h3 m hm i hi ((S.preserves i m).mp hcl)⟩

/-! ### totality -/

theorem optimiseGroup_total (key : Nat → Nat) (c : Cell) (f g : Nat) (G : Group)
    (hne : g ≠ emptyId) (hG : findG c.groups g = some G)
    (hres : ∀ i ∈ G.includes, ∃ r, resolve c f i = .ok r) : ∃ c', optimiseGroup key c f g = .ok c' := by
  unfold optimiseGroup
  rw [if_neg hne]
  simp only [hG]
  split
  · obtain ⟨u, hu⟩ := unionCl_ok (resolve (midCell key c g G) f) (dedup G.includes)
      (fun i hi => by
        obtain ⟨r, hr⟩ := hres i ((mem_dedup _ _).mp hi)
        exact (midCell_rewr key c g G hG).resolve_ok f i r hr)
    rw [hu]; exact ⟨_, rfl⟩
  · exact ⟨_, rfl⟩

theorem foldOpt_total (key : Nat → Nat) (f : Nat) (r : Nat → Nat) (hf : ∀ g, r g < f) :
    ∀ (l : List Nat) (c : Cell), Ranked c r → NoDangling c →
      (∀ g ∈ l, g ≠ emptyId ∧ g ∈ c.groups.map (·.id)) → ∃ c', l.foldl (optStep key f) (.ok c) = .ok c'
  | [], c, _, _, _ => ⟨c, rfl⟩
  | g :: l, c, hr, hd, hl => by
    obtain ⟨hne, hmem⟩ := hl g (by simp)
    obtain ⟨G, hG⟩ := findG_of_mem_ids hmem
    have hlk := lookup_of_findG hG
    obtain ⟨c1, h1⟩ := optimiseGroup_total key c f g G hne hG
      (fun i hi => resolve_total c r hr hd f i (hf i) (hd g G hlk i hi))
    obtain ⟨G0, G', S⟩ := optimiseGroup_spec key c f g c1 h1
    simp only [List.foldl_cons]
    have : optStep key f (.ok c) g = .ok c1 := h1
    rw [this]
    exact foldOpt_total key f r hf l c1 (S.ranked r hr) (S.noDangling hd)
      (fun x hx => ⟨(hl x (by simp [hx])).1, by rw [S.ids]; exact (hl x (by simp [hx])).2⟩)
/-! ### acyclicity: "a rank function exists" is the same as "no group reaches itself through an include" -/

/-- no group is reachable from one of its own includes -/
def NoCycle (c : Cell) : Prop := ∀ g G, lookup c g = some G → ∀ i ∈ G.includes, ¬ Reach c i g

theorem countP_lt_of_imp (l : List Nat) (p q : Nat → Bool) (himp : ∀ x, p x = true → q x = true)
    (x : Nat) (hx : x ∈ l) (hq : q x = true) (hp : p x = false) : l.countP p < l.countP q := by
  induction l with
  | nil => simp at hx
  | cons y t ih =>
    have hle : t.countP p ≤ t.countP q := by
      clear ih hx
      induction t with
      | nil => simp
      | cons z t ih2 =>
        rw [List.countP_cons, List.countP_cons]
        by_cases hz : p z = true
        · simp only [hz, himp z hz, ↓reduceIte]; omega
        · have hz' : p z = false := by simpa using hz
          simp only [hz', Bool.false_eq_true, ↓reduceIte]
          split <;> omega
    rw [List.countP_cons, List.countP_cons]
    rcases List.mem_cons.mp hx with e | e
    · subst e
      simp only [hq, hp, Bool.false_eq_true, ↓reduceIte]; omega
    · have := ih e
      by_cases hy : p y = true
      · simp only [hy, himp y hy, ↓reduceIte]; omega
      · have hy' : p y = false := by simpa using hy
        simp only [hy', Bool.false_eq_true, ↓reduceIte]
        split <;> omega

theorem noCycle_bounded_rank (c : Cell) (hn : NoCycle c) : ∃ r, Ranked c r ∧ ∀ g, r g ≤ c.groups.length := by
  classical
  refine ⟨fun g => (c.groups.map (·.id)).countP (fun x => decide (Reach c g x)), ?_, ?_⟩
  · intro g G hG i hi
    apply countP_lt_of_imp _ _ _ _ g
    · exact findG_some_mem_ids (lookup_includes_findG hG hi)
    · simpa using Reach.refl g
    · simpa using hn g G hG i hi
    · intro x hx
      have : Reach c i x := by simpa using hx
      simpa using Reach.step hG hi this
  · intro g
    have := @List.countP_le_length _ (fun x => decide (Reach c g x)) (c.groups.map (·.id))
    simpa using this

theorem acyclic_iff_noCycle (c : Cell) : Acyclic c ↔ NoCycle c := by
  constructor
  · rintro ⟨r, hr⟩ g G hG
    exact ranked_no_back hr hG
  · intro hn
    obtain ⟨r, hr, _⟩ := noCycle_bounded_rank c hn
    exact ⟨r, hr⟩

/-- decidable sufficient checks, used for the `example`s -/
def checkRanked (c : Cell) (r : Nat → Nat) : Bool :=
  c.groups.all (fun G => G.includes.all (fun i => decide (r i < r G.id)))

theorem ranked_of_check (c : Cell) (r : Nat → Nat) (h : checkRanked c r = true) : Ranked c r := by
  intro g G hG i hi
  have hf := lookup_includes_findG hG hi
  have hm := findG_mem hf
  have hid := findG_id hf
  unfold checkRanked at h
  rw [List.all_eq_true] at h
  have := h G hm
  rw [List.all_eq_true] at this
  have := this i hi
  rw [hid] at this
  simpa using this

def checkNoDangling (c : Cell) : Bool :=
  c.groups.all (fun G => G.includes.all (fun i => (lookup c i).isSome))

theorem noDangling_of_check (c : Cell) (h : checkNoDangling c = true) : NoDangling c := by
  intro g G hG i hi
  have hf := lookup_includes_findG hG hi
  have hm := findG_mem hf
  unfold checkNoDangling at h
  rw [List.all_eq_true] at h
  have := h G hm
  rw [List.all_eq_true] at this
  exact this i hi

theorem findG_of_mem_nodup (gs : List Group) (hnd : (gs.map (·.id)).Nodup) (G : Group) (hG : G ∈ gs) :
    findG gs G.id = some G := by
  induction gs with
  | nil => simp at hG
  | cons H t ih =>
    rw [findG_cons]
    simp only [List.map_cons, List.nodup_cons] at hnd
    rcases List.mem_cons.mp hG with e | e
    · subst e; simp
    · have : ¬ H.id = G.id := by
        intro e2; apply hnd.1; rw [e2]; exact List.mem_map.mpr ⟨G, e, rfl⟩
      simp only [this, ↓reduceIte]
      exact ih hnd.2 e

/-! ### an include chain deeper than any given recursion limit (known finding `C14:recursion-limit`) -/

/-- a chain `a ⊃ a+1 ⊃ … ⊃ a+n` of `n+1` groups, one member each -/
def chain : Nat → Nat → List Group
  | a, 0 => [⟨a, [0], []⟩]
  | a, n+1 => ⟨a, [0], [a+1]⟩ :: chain (a+1) n

theorem findG_chain : ∀ n a k, k ≤ n →
    findG (chain a n) (a+k) = some ⟨a+k, [0], if k < n then [a+k+1] else []⟩
  | 0, a, k, hk => by
    have : k = 0 := by omega
    subst this; simp [chain, findG_cons]
  | n+1, a, 0, _ => by simp [chain, findG_cons]
  | n+1, a, k+1, hk => by
    have h := findG_chain n (a+1) k (by omega)
    have e1 : a + (k + 1) = a + 1 + k := by omega
    have e2 : (k + 1 < n + 1) = (k < n) := by simp
    rw [chain, findG_cons, if_neg (by show ¬ a = a + (k + 1); omega), e1, h]
    simp only [e2]

theorem mem_chain : ∀ n a G, G ∈ chain a n → ∃ k, k ≤ n ∧ G = ⟨a+k, [0], if k < n then [a+k+1] else []⟩
  | 0, a, G, h => by
    simp only [chain, List.mem_cons, List.not_mem_nil, or_false] at h
    exact ⟨0, Nat.le_refl _, by simp [h]⟩
  | n+1, a, G, h => by
    simp only [chain, List.mem_cons] at h
    rcases h with h | h
    · exact ⟨0, by omega, by simp [h]⟩
    · obtain ⟨k, hk, e⟩ := mem_chain n (a+1) G h
      refine ⟨k+1, by omega, ?_⟩
      have e1 : a + (k + 1) = a + 1 + k := by omega
      have e2 : (k + 1 < n + 1) = (k < n) := by simp
      rw [e, e1]; simp only [e2]

def chainCell (n : Nat) : Cell := ⟨[0], chain 2 n⟩

theorem chain_out_of_fuel (n : Nat) : ∀ f k, k + f ≤ n → resolve (chainCell n) f (2+k) = .error .outOfFuel
  | 0, _, _ => rfl
  | f+1, k, h => by
    rw [resolve_succ]
    show (match findG (chain 2 n) (2+k) with
      | none => _
      | some G => G.includes.foldl (accStep addNew (resolve (chainCell n) f)) (Except.ok (addNew [] G.members))) = _
    rw [findG_chain n 2 k (by omega), if_pos (by omega)]
    have := chain_out_of_fuel n f (k+1) (by omega)
    have e : 2 + k + 1 = 2 + (k + 1) := by omega
    simp only [List.foldl_cons, List.foldl_nil, accStep, e, this]

theorem chainCell_wellformed (n : Nat) : Acyclic (chainCell n) ∧ NoDangling (chainCell n) ∧ (lookup (chainCell n) 2).isSome := by
  have key : ∀ g G, lookup (chainCell n) g = some G → ∀ i ∈ G.includes,
      ∃ k, k < n ∧ g = 2 + k ∧ i = 2 + k + 1 := by
    intro g G hG i hi
    have hf := lookup_includes_findG hG hi
    obtain ⟨k, hk, e⟩ := mem_chain n 2 G (findG_mem hf)
    have hid := findG_id hf
    subst e
    simp only at hid
    by_cases hkn : k < n
    · simp only [hkn, ↓reduceIte, List.mem_cons, List.not_mem_nil, or_false] at hi
      exact ⟨k, hkn, hid.symm, hi⟩
    · simp [hkn] at hi
  refine ⟨⟨fun g => n + 3 - g, ?_⟩, ?_, ?_⟩
  · intro g G hG i hi
    obtain ⟨k, hk, e1, e2⟩ := key g G hG i hi
    show n + 3 - i < n + 3 - g
    omega
  · intro g G hG i hi
    obtain ⟨k, hk, e1, e2⟩ := key g G hG i hi
    have := findG_chain n 2 (k+1) (by omega)
    have e3 : 2 + (k + 1) = i := by omega
    rw [e3] at this
    rw [lookup_of_findG (c := chainCell n) this]; rfl
  · have := findG_chain n 2 0 (by omega)
    rw [lookup_of_findG (c := chainCell n) this]; rfl

end NmlVerif.Groups
