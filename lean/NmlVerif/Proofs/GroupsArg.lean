import NmlVerif.Proofs.Groups
/-!
# `resolveArg` with a string argument and the default flag is `resolve`

A lemma about the hand model only (no generated definition involved); it lives here, not in `Proofs/GroupsGen.lean`,
so that `Props/C14.lean` does not import the generated file `Gen/Groups.lean`.
-/
namespace NmlVerif.Groups

theorem resolveArg_str_true (c : Cell) (f g : Nat) : resolveArg c f (.str g) true = resolve c f g := by
  cases f with
  | zero => rfl
  | succ f =>
    show (match findG c.groups g with
      | none => if true && g == allId then Except.ok c.segs else Except.error Err.unknownGroup
      | some G => G.includes.foldl (resStep (resolve c f)) (Except.ok (addNew [] G.members))) = _
    rw [resolve_succ]
    cases findG c.groups g with
    | some G => rfl
    | none => by_cases hg : g = allId <;> simp [hg]

end NmlVerif.Groups
