import NmlVerif.Gen.Groups
import NmlVerif.Proofs.GroupsArg
set_option linter.unusedSimpArgs false
set_option linter.unusedVariables false
/-!
Lemmas that tie the GENERATED translation of the four anchored methods (`Gen/Groups.lean`, written from the Python
source by `translators/groups_extract.py` on every run) to the hand model (`Model/Groups.lean`): one lemma per Python
loop (`forIn` in the `Except Err` monad = the fold the hand model uses), then one equation per method, for ALL inputs.
Core Lean only.
-/
namespace NmlVerif.Gen.Groups
open NmlVerif.Groups

/-! ### `Except Err` plumbing -/

/-- `for s in l: if not s in acc: acc.append(s)` -/
theorem forIn_addNew (l acc : List Nat) :
    forIn (m := Except Err) l acc (fun s r =>
      if (!r.contains s) = true then pure (ForInStep.yield (r ++ [s])) else pure (ForInStep.yield r))
    = Except.ok (addNew acc l) := by
  induction l generalizing acc with
  | nil => rfl
  | cons x t ih =>
    rw [List.forIn_cons, addNew_cons]
    by_cases hx : x ∈ acc
    · rw [if_neg (by simp [hx]), if_pos hx]; exact ih acc
    · rw [if_pos (by simp [hx]), if_neg hx]; exact ih _

/-- the lookup loop of `get_all_segments_in_group`: the first group with the id wins, because once the variable
    holds a `SegmentGroup` it is never again equal to a group id -/
theorem forIn_find_obj (gs : List Group) (G : Group) :
    forIn (m := Except Err) gs (Arg.obj G) (fun sg r =>
      if Arg.eqId sg.id r = true then pure (ForInStep.yield (Arg.obj sg)) else pure (ForInStep.yield r))
    = Except.ok (Arg.obj G) := by
  induction gs with
  | nil => rfl
  | cons x t ih => rw [List.forIn_cons]; exact ih

theorem forIn_find (gs : List Group) (g : Nat) :
    forIn (m := Except Err) gs (Arg.str g) (fun sg r =>
      if Arg.eqId sg.id r = true then pure (ForInStep.yield (Arg.obj sg)) else pure (ForInStep.yield r))
    = Except.ok (match findG gs g with | some G => Arg.obj G | none => Arg.str g) := by
  induction gs with
  | nil => rfl
  | cons x t ih =>
    rw [List.forIn_cons, findG_cons]
    by_cases hx : x.id = g
    · rw [if_pos (by simp [Arg.eqId, hx]), if_pos hx]; exact forIn_find_obj t x
    · rw [if_neg (by simp [Arg.eqId, hx]), if_neg hx]; exact ih

/-- the include loop of `get_all_segments_in_group` -/
theorem forIn_includes (rec_ : Cell → Arg → Bool → Except Err (List Nat)) (c : Cell) (is : List Nat) (acc : List Nat) :
    forIn (m := Except Err) is acc (fun i r => do
      let segs_here ← rec_ c (Arg.str i) true
      let s ← Except.ok (addNew r segs_here)
      pure (ForInStep.yield s))
    = is.foldl (resStep (fun i => rec_ c (Arg.str i) true)) (.ok acc) := by
  induction is generalizing acc with
  | nil => rfl
  | cons x t ih =>
    rw [List.forIn_cons, List.foldl_cons]
    cases hr : rec_ c (Arg.str x) true with
    | error e =>
      have : resStep (fun i => rec_ c (Arg.str i) true) (.ok acc) x = .error e := by simp [resStep, accStep, hr]
      rw [this]
      show _ = List.foldl (accStep addNew _) _ _
      rw [accStep_error]; rfl
    | ok r =>
      have : resStep (fun i => rec_ c (Arg.str i) true) (.ok acc) x = .ok (addNew acc r) := by simp [resStep, accStep, hr]
      rw [this]; exact ih _

theorem ok_bind {α β : Type} (a : α) (f : α → Except Err β) : (Except.ok a : Except Err α) >>= f = f a := rfl
theorem error_bind {α β : Type} (e : Err) (f : α → Except Err β) : (Except.error e : Except Err α) >>= f = .error e := rfl
theorem pure_eq {α : Type} (a : α) : (pure a : Except Err α) = .ok a := rfl
theorem throw_eq {α : Type} (e : Err) : (throw e : Except Err α) = .error e := rfl

theorem body_eq (rec_ : Cell → Arg → Bool → Except Err (List Nat)) (c : Cell) (a : Arg) (aam : Bool) :
    get_all_segments_in_group_body rec_ c a aam =
      match a with
      | .obj G => G.includes.foldl (resStep (fun i => rec_ c (Arg.str i) true)) (.ok (addNew [] G.members))
      | .str g =>
        match findG c.groups g with
        | none => if aam && g == allId then .ok c.segs else .error .unknownGroup
        | some G => G.includes.foldl (resStep (fun i => rec_ c (Arg.str i) true)) (.ok (addNew [] G.members)) := by
  unfold get_all_segments_in_group_body
  simp only [forIn_addNew, forIn_includes]
  cases a with
  | obj G => simp only [Arg.isStr, Arg.members, Arg.includes, ok_bind, bind_pure, Bool.false_eq_true, ↓reduceIte]
  | str g =>
    simp only [Arg.isStr, ↓reduceIte, forIn_find]
    cases hG : findG c.groups g with
    | some G => simp only [Arg.isStr, Arg.members, Arg.includes, ok_bind, bind_pure, Bool.false_eq_true, ↓reduceIte]
    | none =>
      simp only [ok_bind, Arg.isStr, ↓reduceIte, Arg.eqId, throw_eq, error_bind, pure_eq]
      simp only [show (allId == g) = (g == allId) from BEq.comm]

theorem gen_resolve (fuel : Nat) (c : Cell) (a : Arg) (aam : Bool) :
    get_all_segments_in_group fuel c a aam = resolveArg c fuel a aam := by
  induction fuel generalizing c a aam with
  | zero => rfl
  | succ f ih =>
    show get_all_segments_in_group_body (get_all_segments_in_group f) c a aam = _
    rw [body_eq]
    have : (fun i => get_all_segments_in_group f c (Arg.str i) true) = resolve c f := by
      funext i; rw [ih, resolveArg_str_true]
    rw [this]
    cases a <;> rfl

/-! ### `get_segment_group`: the position of the first group with the id -/

/-- position of the first group with id `g` -/
def firstIdx : List Group → Nat → Option Nat
  | [], _ => none
  | H :: t, g => if H.id == g then some 0 else (firstIdx t g).map (· + 1)

theorem firstIdx_cons (H : Group) (t : List Group) (g : Nat) :
    firstIdx (H :: t) g = if H.id = g then some 0 else (firstIdx t g).map (· + 1) := by
  by_cases e : H.id = g <;> simp [firstIdx, e]

/-- the loop of `get_segment_group`, started at position `pre.length` -/
theorem forIn_firstIdx (c : Cell) (g : Nat) : ∀ (suf pre : List Group), c.groups = pre ++ suf →
    forIn (m := Except Err) (List.range' pre.length suf.length) ((none : Option Nat), ()) (fun sg r =>
      if ((grp c sg).id == g) = true then pure (ForInStep.done (some sg, ())) else pure (ForInStep.yield (none, ())))
    = Except.ok (match firstIdx suf g with | some k => (some (pre.length + k), ()) | none => (none, ()))
  | [], pre, _ => rfl
  | H :: t, pre, h => by
    have hH : grp c pre.length = H := by simp [grp, h]
    rw [List.length_cons, List.range'_succ, List.forIn_cons, firstIdx_cons, hH]
    by_cases e : H.id = g
    · rw [if_pos (by simp [e]), if_pos e]; rfl
    · rw [if_neg (by simp [e]), if_neg e]
      have := forIn_firstIdx c g t (pre ++ [H]) (by simp [h])
      simp only [List.length_append, List.length_cons, List.length_nil, Nat.zero_add] at this
      show forIn (m := Except Err) (List.range' (pre.length + 1) t.length) _ _ = _
      rw [this]
      cases firstIdx t g with
      | none => rfl
      | some k => simp only [Option.map_some]; congr 3; omega

theorem gen_get_segment_group (c : Cell) (g : Nat) :
    get_segment_group c g =
      if g = emptyId then .error .notFound else
      match firstIdx c.groups g with
      | some k => .ok k
      | none => .error .notFound := by
  unfold get_segment_group
  by_cases hg : g = emptyId
  · simp [strTruthy, hg]; rfl
  · have := forIn_firstIdx c g c.groups [] rfl
    simp only [List.length_nil, Nat.zero_add, ← List.range_eq_range'] at this
    simp only [strTruthy, bne_iff_ne, ne_eq, hg, not_false_eq_true, ↓reduceIte, this]
    cases firstIdx c.groups g <;> rfl

theorem firstIdx_none (gs : List Group) (g : Nat) (h : firstIdx gs g = none) : findG gs g = none := by
  induction gs with
  | nil => rfl
  | cons H t ih =>
    rw [firstIdx_cons] at h
    rw [findG_cons]
    by_cases e : H.id = g
    · simp [e] at h
    · simp only [e, ↓reduceIte, Option.map_eq_none_iff] at h ⊢
      exact ih h

theorem firstIdx_some (gs : List Group) (g : Nat) : ∀ k, firstIdx gs g = some k →
    findG gs g = some (gs.getD k default) ∧
    ∀ G', gs.set k G' = replaceFirst gs g G' ∧ (replaceFirst gs g G').getD k default = G' ∧
      (G'.id = g → firstIdx (replaceFirst gs g G') g = some k) := by
  induction gs with
  | nil => intro k h; simp [firstIdx] at h
  | cons H t ih =>
    intro k h
    rw [firstIdx_cons] at h
    rw [findG_cons]
    by_cases e : H.id = g
    · simp only [e, ↓reduceIte, Option.some.injEq] at h
      subst h
      refine ⟨by simp [e], fun G' => ⟨by simp [replaceFirst, e], by simp [replaceFirst, e], ?_⟩⟩
      intro hid
      simp [replaceFirst, e, firstIdx_cons, hid]
    · simp only [e, ↓reduceIte] at h ⊢
      cases ht : firstIdx t g with
      | none => rw [ht] at h; cases h
      | some k0 =>
        rw [ht] at h
        simp only [Option.map_some, Option.some.injEq] at h
        subst h
        obtain ⟨h1, h2⟩ := ih k0 ht
        have b : (H.id == g) = false := by simp [e]
        refine ⟨by simpa using h1, fun G' => ?_⟩
        obtain ⟨h3, h4, h5⟩ := h2 G'
        refine ⟨by simp [replaceFirst, b, h3], by simpa [replaceFirst, b] using h4, ?_⟩
        intro hid
        simp [replaceFirst, b, firstIdx_cons, e, h5 hid]

/-- the two de-duplication loops of `optimise_segment_group` (`seen` and `new` grow together) -/
theorem forIn_dedup (l a : List Nat) :
    forIn (m := Except Err) l (a, a) (fun i s =>
      if (!s.snd.contains i) = true then pure (ForInStep.yield (s.fst ++ [i], s.snd ++ [i]))
      else pure (ForInStep.yield (s.fst, s.snd)))
    = Except.ok (addNew a l, addNew a l) := by
  induction l generalizing a with
  | nil => rfl
  | cons x t ih =>
    rw [List.forIn_cons, addNew_cons]
    by_cases hx : x ∈ a
    · rw [if_neg (by simp [hx]), if_pos hx]; exact ih a
    · rw [if_pos (by simp [hx]), if_neg hx]; exact ih _

/-- the loop that collects the segments of the included groups -/
theorem forIn_union (rs : Nat → Except Err (List Nat)) (is acc : List Nat) :
    forIn (m := Except Err) is acc (fun inc r => do
      let l ← rs inc
      pure (ForInStep.yield (r ++ l)))
    = is.foldl (unionStep rs) (.ok acc) := by
  induction is generalizing acc with
  | nil => rfl
  | cons x t ih =>
    rw [List.forIn_cons, List.foldl_cons]
    cases hr : rs x with
    | error e =>
      have : unionStep rs (.ok acc) x = .error e := by simp [unionStep, accStep, hr]
      rw [this]
      show _ = List.foldl (accStep _ _) _ _
      rw [accStep_error]; rfl
    | ok r =>
      have : unionStep rs (.ok acc) x = .ok (acc ++ r) := by simp [unionStep, accStep, hr]
      rw [this]; exact ih _

/-! ### `optimise_segment_group`, `optimise_segment_groups` -/

theorem setMembers_eq (c : Cell) (g k : Nat) (h : firstIdx c.groups g = some k) (m : List Nat) :
    setMembers c k m = setGroup c g ⟨(grp c k).id, m, (grp c k).includes⟩ := by
  unfold setMembers setGroup
  rw [((firstIdx_some c.groups g k h).2 _).1]

theorem setIncludes_eq (c : Cell) (g k : Nat) (h : firstIdx c.groups g = some k) (l : List Nat) :
    setIncludes c k l = setGroup c g ⟨(grp c k).id, (grp c k).members, l⟩ := by
  unfold setIncludes setGroup
  rw [((firstIdx_some c.groups g k h).2 _).1]

theorem firstIdx_setGroup (c : Cell) (g k : Nat) (h : firstIdx c.groups g = some k) (G' : Group) (hid : G'.id = g) :
    firstIdx (setGroup c g G').groups g = some k ∧ grp (setGroup c g G') k = G' := by
  obtain ⟨_, h2, h3⟩ := (firstIdx_some c.groups g k h).2 G'
  exact ⟨h3 hid, h2⟩

theorem setGroup_twice (c : Cell) (g : Nat) (G' G'' : Group) (hid : G'.id = g) :
    setGroup (setGroup c g G') g G'' = setGroup c g G'' := by
  unfold setGroup
  simp only [replaceFirst_twice c.groups g G' G'' hid]

/-- the three attribute assignments of `optimise_segment_group`, through the reference `k`, are replacements of
    the record of the first group with id `g` -/
theorem cells (c : Cell) (g k : Nat) (hk : firstIdx c.groups g = some k) :
    (∀ m, (grp (setMembers c k m) k).includes = (grp c k).includes) ∧
    (∀ m l, setIncludes (setMembers c k m) k l = setGroup c g ⟨g, m, l⟩) ∧
    (∀ m l m', setMembers (setGroup c g ⟨g, m, l⟩) k m' = setGroup c g ⟨g, m', l⟩) := by
  have hgid : (grp c k).id = g := findG_id (firstIdx_some c.groups g k hk).1
  have e1 : ∀ m, setMembers c k m = setGroup c g ⟨g, m, (grp c k).includes⟩ := by
    intro m; rw [setMembers_eq c g k hk, hgid]
  have f1 : ∀ m, firstIdx (setGroup c g ⟨g, m, (grp c k).includes⟩).groups g = some k ∧
      grp (setGroup c g ⟨g, m, (grp c k).includes⟩) k = ⟨g, m, (grp c k).includes⟩ :=
    fun m => firstIdx_setGroup c g k hk _ rfl
  have e2 : ∀ m l, setIncludes (setMembers c k m) k l = setGroup c g ⟨g, m, l⟩ := by
    intro m l
    rw [e1, setIncludes_eq _ g k (f1 m).1, (f1 m).2, setGroup_twice c g _ _ rfl]
  have f2 : ∀ m l, firstIdx (setGroup c g ⟨g, m, l⟩).groups g = some k ∧ grp (setGroup c g ⟨g, m, l⟩) k = ⟨g, m, l⟩ :=
    fun m l => firstIdx_setGroup c g k hk _ rfl
  refine ⟨fun m => by rw [e1, (f1 m).2], e2, ?_⟩
  intro m l m'
  rw [setMembers_eq _ g k (f2 m l).1, (f2 m l).2, setGroup_twice c g _ _ rfl]

theorem gen_optimise_segment_group (key : Nat → Nat) (fuel : Nat) (c : Cell) (g : Nat) :
    optimise_segment_group key fuel c g = optimiseGroup key c fuel g := by
  unfold optimise_segment_group optimiseGroup
  simp only []
  rw [gen_get_segment_group]
  by_cases hg : g = emptyId
  · simp only [hg, ↓reduceIte]; rfl
  · simp only [hg, ↓reduceIte]
    cases hk : firstIdx c.groups g with
    | none => rw [firstIdx_none c.groups g hk]; rfl
    | some k =>
      have hG : findG c.groups g = some (grp c k) := (firstIdx_some c.groups g k hk).1
      have hgid : (grp c k).id = g := findG_id hG
      obtain ⟨c1, c2, c3⟩ := cells c g k hk
      rw [hG]
      simp only [ok_bind, forIn_dedup, c1, c2, c3, forIn_union, gen_resolve, resolveArg_str_true, hgid]
      unfold midCell
      simp only [hgid]
      generalize grp c k = G
      show _ = if dedup G.includes ≠ [] ∧ dedup G.members ≠ [] then
        (match unionCl (resolve (setGroup c g ⟨g, dedup G.members, sortBy key (dedup G.includes)⟩) fuel) (dedup G.includes) with
          | .error e => Except.error e
          | .ok u => Except.ok (setGroup c g ⟨g, sortBy (fun x => x) ((dedup G.members).filter (fun m => decide (m ∉ u))),
                               sortBy key (dedup G.includes)⟩))
        else Except.ok (setGroup c g ⟨g, dedup G.members, sortBy key (dedup G.includes)⟩)
      have hd : ∀ l, addNew [] l = dedup l := fun _ => rfl
      simp only [hd]
      by_cases hc : dedup G.includes ≠ [] ∧ dedup G.members ≠ []
      · have hb : (decide ((dedup G.includes).length > 0) && decide ((dedup G.members).length > 0)) = true := by
          simp [List.length_pos_iff, hc.1, hc.2]
        rw [if_pos hb, if_pos hc]
        show (unionCl _ _ >>= _) = _
        cases unionCl (resolve (setGroup c g ⟨g, dedup G.members, sortBy key (dedup G.includes)⟩) fuel) (dedup G.includes) with
        | error e => rfl
        | ok u =>
          simp only [ok_bind, pure_eq]
          have hf : (fun i => !u.contains i) = (fun m => decide (m ∉ u)) := by funext i; simp
          rw [hf]
      · have hb : ¬ (decide ((dedup G.includes).length > 0) && decide ((dedup G.members).length > 0)) = true := by
          simp only [Bool.and_eq_true, decide_eq_true_eq, List.length_pos_iff]
          exact hc
        rw [if_neg hb, if_neg hc]; rfl

theorem grp_id_of_ids (s : Cell) (pre t : List Nat) (x : Nat) (h : s.groups.map (·.id) = pre ++ x :: t) :
    (grp s pre.length).id = x := by
  have h1 : (s.groups.map (·.id))[pre.length]? = some x := by rw [h]; simp
  rw [List.getElem?_map] at h1
  unfold grp
  cases hG : s.groups[pre.length]? with
  | none => rw [hG] at h1; cases h1
  | some G =>
    rw [hG] at h1
    simp only [Option.map_some, Option.some.injEq] at h1
    simp [List.getD, hG, h1]

/-- the loop of `optimise_segment_groups`: the ids read from the live list are the ids the list had at the start,
    because optimising a group changes no id -/
theorem forIn_optimise (key : Nat → Nat) (fuel : Nat) : ∀ (suf pre : List Nat) (s : Cell),
    s.groups.map (·.id) = pre ++ suf →
    forIn (m := Except Err) (List.range' pre.length suf.length) s (fun seg_group r => do
      let self ← optimise_segment_group key fuel r (grp r seg_group).id
      pure (ForInStep.yield self))
    = suf.foldl (optStep key fuel) (.ok s)
  | [], pre, s, _ => rfl
  | x :: t, pre, s, h => by
    rw [List.length_cons, List.range'_succ, List.forIn_cons, List.foldl_cons, grp_id_of_ids s pre t x h,
      gen_optimise_segment_group]
    show _ = List.foldl (optStep key fuel) (optimiseGroup key s fuel x) t
    cases h1 : optimiseGroup key s fuel x with
    | error e => rw [optStep_error]; rfl
    | ok s1 =>
      obtain ⟨G, G', S⟩ := optimiseGroup_spec key s fuel x s1 h1
      have := forIn_optimise key fuel t (pre ++ [x]) s1 (by rw [S.ids, h]; simp)
      simp only [List.length_append, List.length_cons, List.length_nil, Nat.zero_add] at this
      exact this

theorem gen_optimise_segment_groups (key : Nat → Nat) (fuel : Nat) (c : Cell) :
    optimise_segment_groups key fuel c = optimiseAll key c fuel := by
  unfold optimise_segment_groups optimiseAll
  have := forIn_optimise key fuel (c.groups.map (·.id)) [] c rfl
  simp only [List.length_nil, List.length_map, Nat.zero_add, ← List.range_eq_range'] at this
  simp only [this, bind_pure]

end NmlVerif.Gen.Groups
