import NmlVerif.Model.Hdf5
/-!
Helper lemmas for C05 (`Props/C05.lean`): generic facts about the sequential maps, column lookup on the layouts the
writer produces ("the column found for name k is the column written for k"), row-level decode∘encode, and the
per-construct round trips. Core Lean only.
-/
namespace NmlVerif.Hdf5

/-! ## generic -/

theorem trunc_intCast (n : Int) : trunc (n : Rat) = n := by
  simp [trunc]

/-- an integer that float32 represents exactly (all |n| ≤ 2^24 are) -/
def Exact (r : Rat → Rat) (n : Int) : Prop := r (n : Rat) = (n : Rat)

theorem trunc_exact {r : Rat → Rat} {n : Int} (h : Exact r n) : trunc (r (n : Rat)) = n := by
  rw [h, trunc_intCast]

theorem mapE_ok {α β : Type} {f : α → Except Err β} {g : α → β} :
    ∀ l : List α, (∀ a ∈ l, f a = .ok (g a)) → mapE f l = .ok (l.map g)
  | [], _ => rfl
  | a :: as, h => by
    simp only [mapE, h a (by simp), mapE_ok as (fun b hb => h b (by simp [hb])), List.map_cons]

theorem mapE_append_ok {α β : Type} {f : α → Except Err β} :
    ∀ (l1 l2 : List α) (r1 r2 : List β), mapE f l1 = .ok r1 → mapE f l2 = .ok r2 → mapE f (l1 ++ l2) = .ok (r1 ++ r2)
  | [], l2, r1, r2, h1, h2 => by simp only [mapE] at h1; cases h1; simpa using h2
  | a :: as, l2, r1, r2, h1, h2 => by
    simp only [mapE] at h1
    cases hfa : f a with
    | error e => rw [hfa] at h1; cases h1
    | ok b =>
      rw [hfa] at h1
      cases hrest : mapE f as with
      | error e => rw [hrest] at h1; cases h1
      | ok bs =>
        rw [hrest] at h1
        cases h1
        simp only [List.cons_append, mapE, hfa, mapE_append_ok as l2 bs r2 hrest h2]

theorem mapE_error_of_mem {α β : Type} {f : α → Except Err β} {e : Err} :
    ∀ (l : List α), (∀ a ∈ l, f a = .error e ∨ ∃ b, f a = .ok b) → (∃ a ∈ l, f a = .error e) → mapE f l = .error e
  | [], _, h => by obtain ⟨a, ha, _⟩ := h; cases ha
  | a :: as, hall, hex => by
    simp only [mapE]
    rcases hall a (by simp) with h | ⟨b, h⟩
    · rw [h]
    · rw [h]
      have : ∃ a' ∈ as, f a' = .error e := by
        obtain ⟨a', ha', he⟩ := hex
        rcases List.mem_cons.mp ha' with rfl | hm
        · rw [h] at he; cases he
        · exact ⟨a', hm, he⟩
      rw [mapE_error_of_mem as (fun x hx => hall x (by simp [hx])) this]

/-- `g` applied with the running row number -/
def zipIdx {α β : Type} (g : Nat → α → β) : Nat → List α → List β
  | _, [] => []
  | n, a :: as => g n a :: zipIdx g (n + 1) as

theorem zipIdx_length {α β : Type} (g : Nat → α → β) : ∀ (n : Nat) (l : List α), (zipIdx g n l).length = l.length
  | _, [] => rfl
  | n, _ :: as => by simp [zipIdx, zipIdx_length g (n + 1) as]

theorem map_zipIdx {α β γ : Type} (g : Nat → α → β) (h : β → γ) (h' : α → γ) :
    ∀ (n : Nat) (l : List α), (∀ i a, a ∈ l → h (g i a) = h' a) → (zipIdx g n l).map h = l.map h'
  | _, [], _ => rfl
  | n, a :: as, hh => by
    simp only [zipIdx, List.map_cons, hh n a (by simp)]
    rw [map_zipIdx g h h' (n + 1) as (fun i b hb => hh i b (by simp [hb]))]

theorem zipIdx_const {α β : Type} (g : α → β) : ∀ (n : Nat) (l : List α), zipIdx (fun _ a => g a) n l = l.map g
  | _, [] => rfl
  | n, a :: as => by simp [zipIdx, zipIdx_const g (n + 1) as]

theorem mapIdxE_map_ok {α ρ β : Type} {f : Nat → ρ → Except Err β} {e : α → ρ} {g : Nat → α → β} :
    ∀ (n : Nat) (l : List α), (∀ i a, a ∈ l → f i (e a) = .ok (g i a)) → mapIdxE f n (l.map e) = .ok (zipIdx g n l)
  | _, [], _ => rfl
  | n, a :: as, h => by
    simp only [List.map_cons, mapIdxE, h n a (by simp), zipIdx,
      mapIdxE_map_ok (n + 1) as (fun i b hb => h i b (by simp [hb]))]

theorem mapIdxE_append_ok {ρ β : Type} {f : Nat → ρ → Except Err β} :
    ∀ (n : Nat) (l1 l2 : List ρ) (r1 r2 : List β), mapIdxE f n l1 = .ok r1 → mapIdxE f (n + l1.length) l2 = .ok r2 →
      mapIdxE f n (l1 ++ l2) = .ok (r1 ++ r2)
  | n, [], l2, r1, r2, h1, h2 => by simp only [mapIdxE] at h1; cases h1; simpa using h2
  | n, a :: as, l2, r1, r2, h1, h2 => by
    simp only [mapIdxE] at h1
    cases hfa : f n a with
    | error e => rw [hfa] at h1; cases h1
    | ok b =>
      rw [hfa] at h1
      cases hrest : mapIdxE f (n + 1) as with
      | error e => rw [hrest] at h1; cases h1
      | ok bs =>
        rw [hrest] at h1
        cases h1
        have h2' : mapIdxE f (n + 1 + as.length) l2 = .ok r2 := by
          have : n + 1 + as.length = n + (a :: as).length := by simp; omega
          rw [this]; exact h2
        simp only [List.cons_append, mapIdxE, hfa, mapIdxE_append_ok (n + 1) as l2 bs r2 hrest h2']

theorem filter_all {α : Type} (p : α → Bool) (l : List α) (h : ∀ a ∈ l, p a = true) : l.filter p = l :=
  List.filter_eq_self.mpr h

theorem filter_none {α : Type} (p : α → Bool) (l : List α) (h : ∀ a ∈ l, p a = false) : l.filter p = [] := by
  apply List.filter_eq_nil_iff.mpr
  intro a ha; simp [h a ha]

/-! ## column lookup: the index found for a name is the index the writer stored under that name -/

theorem colIdx_proj (sf wd : Bool) :
    colIdx (projCols sf wd) "id" = none ∧
    colIdx (projCols sf wd) "pre_cell_id" = some 0 ∧
    colIdx (projCols sf wd) "post_cell_id" = some 1 ∧
    colIdx (projCols sf wd) "pre_segment_id" = (if sf then some 2 else none) ∧
    colIdx (projCols sf wd) "post_segment_id" = (if sf then some 3 else none) ∧
    colIdx (projCols sf wd) "pre_fraction_along" = (if sf then some 4 else none) ∧
    colIdx (projCols sf wd) "post_fraction_along" = (if sf then some 5 else none) ∧
    colIdx (projCols sf wd) "weight" = (if wd then some (if sf then 6 else 2) else none) ∧
    colIdx (projCols sf wd) "delay" = (if wd then some (if sf then 7 else 3) else none) := by
  cases sf <;> cases wd <;> decide

theorem colIdx_g (w : Bool) :
    colIdx (gCols w) "id" = some 0 ∧
    colIdx (gCols w) "pre_cell_id" = some 1 ∧
    colIdx (gCols w) "post_cell_id" = some 2 ∧
    colIdx (gCols w) "pre_segment_id" = some 3 ∧
    colIdx (gCols w) "post_segment_id" = some 4 ∧
    colIdx (gCols w) "pre_fraction_along" = some 5 ∧
    colIdx (gCols w) "post_fraction_along" = some 6 ∧
    colIdx (gCols w) "weight" = (if w then some 7 else none) ∧
    colIdx (gCols w) "delay" = none := by
  cases w <;> decide

theorem colIdx_il (w : Bool) :
    colIdx (ilCols w) "id" = some 0 ∧
    colIdx (ilCols w) "target_cell_id" = some 1 ∧
    colIdx (ilCols w) "segment_id" = some 2 ∧
    colIdx (ilCols w) "fraction_along" = some 3 ∧
    colIdx (ilCols w) "weight" = (if w then some 4 else none) := by
  cases w <;> decide

theorem colIdx_loc :
    colIdx locCols "id" = none ∧ colIdx locCols "x" = some 0 ∧ colIdx locCols "y" = some 1 ∧
    colIdx locCols "z" = some 2 := by decide

end NmlVerif.Hdf5
