import NmlVerif.Model.Hdf5
/-!
Helper lemmas for C05 (`Props/C05.lean`): generic facts about the sequential maps, column lookup on the layouts the
writer produces ("the column found for name k is the column written for k"), row-level decode∘encode, and the
per-construct round trips. Core Lean only.
-/
namespace NmlVerif.Hdf5

/-! ## generic -/

theorem trunc_intCast (n : Int) : trunc (n : Rat) = n := by
  simp [trunc]

/-- an integer that float32 represents exactly (all |n| ≤ 2^24 are) -/
def Exact (r : Rat → Rat) (n : Int) : Prop := r (n : Rat) = (n : Rat)

theorem trunc_exact {r : Rat → Rat} {n : Int} (h : Exact r n) : trunc (r (n : Rat)) = n := by
  rw [h, trunc_intCast]

theorem mapE_ok {α β : Type} {f : α → Except Err β} {g : α → β} :
    ∀ l : List α, (∀ a ∈ l, f a = .ok (g a)) → mapE f l = .ok (l.map g)
  | [], _ => rfl
  | a :: as, h => by
    simp only [mapE, h a (by simp), mapE_ok as (fun b hb => h b (by simp [hb])), List.map_cons]

theorem mapE_append_ok {α β : Type} {f : α → Except Err β} :
    ∀ (l1 l2 : List α) (r1 r2 : List β), mapE f l1 = .ok r1 → mapE f l2 = .ok r2 → mapE f (l1 ++ l2) = .ok (r1 ++ r2)
  | [], l2, r1, r2, h1, h2 => by simp only [mapE] at h1; cases h1; simpa using h2
  | a :: as, l2, r1, r2, h1, h2 => by
    simp only [mapE] at h1
    cases hfa : f a with
    | error e => rw [hfa] at h1; cases h1
    | ok b =>
      rw [hfa] at h1
      cases hrest : mapE f as with
      | error e => rw [hrest] at h1; cases h1
      | ok bs =>
        rw [hrest] at h1
        cases h1
        simp only [List.cons_append, mapE, hfa, mapE_append_ok as l2 bs r2 hrest h2]

theorem mapE_error_of_mem {α β : Type} {f : α → Except Err β} {e : Err} :
    ∀ (l : List α), (∀ a ∈ l, f a = .error e ∨ ∃ b, f a = .ok b) → (∃ a ∈ l, f a = .error e) → mapE f l = .error e
  | [], _, h => by obtain ⟨a, ha, _⟩ := h; cases ha
  | a :: as, hall, hex => by
    simp only [mapE]
    rcases hall a (by simp) with h | ⟨b, h⟩
    · rw [h]
    · rw [h]
      have : ∃ a' ∈ as, f a' = .error e := by
        obtain ⟨a', ha', he⟩ := hex
        rcases List.mem_cons.mp ha' with rfl | hm
        · rw [h] at he; cases he
        · exact ⟨a', hm, he⟩
      rw [mapE_error_of_mem as (fun x hx => hall x (by simp [hx])) this]

/-- `g` applied with the running row number -/
def zipIdx {α β : Type} (g : Nat → α → β) : Nat → List α → List β
  | _, [] => []
  | n, a :: as => g n a :: zipIdx g (n + 1) as

theorem zipIdx_length {α β : Type} (g : Nat → α → β) : ∀ (n : Nat) (l : List α), (zipIdx g n l).length = l.length
  | _, [] => rfl
  | n, _ :: as => by simp [zipIdx, zipIdx_length g (n + 1) as]

theorem map_zipIdx {α β γ : Type} (g : Nat → α → β) (h : β → γ) (h' : α → γ) :
    ∀ (n : Nat) (l : List α), (∀ i a, a ∈ l → h (g i a) = h' a) → (zipIdx g n l).map h = l.map h'
  | _, [], _ => rfl
  | n, a :: as, hh => by
    simp only [zipIdx, List.map_cons, hh n a (by simp)]
    rw [map_zipIdx g h h' (n + 1) as (fun i b hb => hh i b (by simp [hb]))]

theorem zipIdx_const {α β : Type} (g : α → β) : ∀ (n : Nat) (l : List α), zipIdx (fun _ a => g a) n l = l.map g
  | _, [] => rfl
  | n, a :: as => by simp [zipIdx, zipIdx_const g (n + 1) as]

theorem mapIdxE_map_ok {α ρ β : Type} {f : Nat → ρ → Except Err β} {e : α → ρ} {g : Nat → α → β} :
    ∀ (n : Nat) (l : List α), (∀ i a, a ∈ l → f i (e a) = .ok (g i a)) → mapIdxE f n (l.map e) = .ok (zipIdx g n l)
  | _, [], _ => rfl
  | n, a :: as, h => by
    simp only [List.map_cons, mapIdxE, h n a (by simp), zipIdx,
      mapIdxE_map_ok (n + 1) as (fun i b hb => h i b (by simp [hb]))]

theorem mapIdxE_append_ok {ρ β : Type} {f : Nat → ρ → Except Err β} :
    ∀ (n : Nat) (l1 l2 : List ρ) (r1 r2 : List β), mapIdxE f n l1 = .ok r1 → mapIdxE f (n + l1.length) l2 = .ok r2 →
      mapIdxE f n (l1 ++ l2) = .ok (r1 ++ r2)
  | n, [], l2, r1, r2, h1, h2 => by simp only [mapIdxE] at h1; cases h1; simpa using h2
  | n, a :: as, l2, r1, r2, h1, h2 => by
    simp only [mapIdxE] at h1
    cases hfa : f n a with
    | error e => rw [hfa] at h1; cases h1
    | ok b =>
      rw [hfa] at h1
      cases hrest : mapIdxE f (n + 1) as with
      | error e => rw [hrest] at h1; cases h1
      | ok bs =>
        rw [hrest] at h1
        cases h1
        have h2' : mapIdxE f (n + 1 + as.length) l2 = .ok r2 := by
          have : n + 1 + as.length = n + (a :: as).length := by simp; omega
          rw [this]; exact h2
        simp only [List.cons_append, mapIdxE, hfa, mapIdxE_append_ok (n + 1) as l2 bs r2 hrest h2']

theorem filter_all {α : Type} (p : α → Bool) (l : List α) (h : ∀ a ∈ l, p a = true) : l.filter p = l :=
  List.filter_eq_self.mpr h

theorem filter_none {α : Type} (p : α → Bool) (l : List α) (h : ∀ a ∈ l, p a = false) : l.filter p = [] := by
  apply List.filter_eq_nil_iff.mpr
  intro a ha; simp [h a ha]

/-! ## column lookup: the index found for a name is the index the writer stored under that name -/

theorem colIdx_proj (sf wd : Bool) :
    colIdx (projCols sf wd) "id" = none ∧
    colIdx (projCols sf wd) "pre_cell_id" = some 0 ∧
    colIdx (projCols sf wd) "post_cell_id" = some 1 ∧
    colIdx (projCols sf wd) "pre_segment_id" = (if sf then some 2 else none) ∧
    colIdx (projCols sf wd) "post_segment_id" = (if sf then some 3 else none) ∧
    colIdx (projCols sf wd) "pre_fraction_along" = (if sf then some 4 else none) ∧
    colIdx (projCols sf wd) "post_fraction_along" = (if sf then some 5 else none) ∧
    colIdx (projCols sf wd) "weight" = (if wd then some (if sf then 6 else 2) else none) ∧
    colIdx (projCols sf wd) "delay" = (if wd then some (if sf then 7 else 3) else none) := by
  cases sf <;> cases wd <;> decide

theorem colIdx_g (w : Bool) :
    colIdx (gCols w) "id" = some 0 ∧
    colIdx (gCols w) "pre_cell_id" = some 1 ∧
    colIdx (gCols w) "post_cell_id" = some 2 ∧
    colIdx (gCols w) "pre_segment_id" = some 3 ∧
    colIdx (gCols w) "post_segment_id" = some 4 ∧
    colIdx (gCols w) "pre_fraction_along" = some 5 ∧
    colIdx (gCols w) "post_fraction_along" = some 6 ∧
    colIdx (gCols w) "weight" = (if w then some 7 else none) ∧
    colIdx (gCols w) "delay" = none := by
  cases w <;> decide

theorem colIdx_il (w : Bool) :
    colIdx (ilCols w) "id" = some 0 ∧
    colIdx (ilCols w) "target_cell_id" = some 1 ∧
    colIdx (ilCols w) "segment_id" = some 2 ∧
    colIdx (ilCols w) "fraction_along" = some 3 ∧
    colIdx (ilCols w) "weight" = (if w then some 4 else none) := by
  cases w <;> decide

theorem colIdx_loc :
    colIdx locCols "id" = none ∧ colIdx locCols "x" = some 0 ∧ colIdx locCols "y" = some 1 ∧
    colIdx locCols "z" = some 2 := by decide

end NmlVerif.Hdf5

/-! ## chemical projections -/

namespace NmlVerif.Hdf5
set_option linter.unusedSimpArgs false

theorem trunc_zero : trunc 0 = 0 := by decide

structure ConnExact (r : Rat → Rat) (c : Conn) : Prop where
  pre : Exact r c.pre.idx
  post : Exact r c.post.idx
  preSeg : Exact r c.preSeg
  postSeg : Exact r c.postSeg

def NoSF (c : Conn) : Prop := c.preSeg = 0 ∧ c.postSeg = 0 ∧ c.preFrac = 1/2 ∧ c.postFrac = 1/2

/-- what the parser reads from a row, given that the writer wrote weight `w` and delay `d` (already rounded) -/
def rowOf (r : Rat → Rat) (id : Int) (c : Conn) (w d : Rat) : RowD :=
  ⟨id, c.pre.idx, c.post.idx, c.preSeg, c.postSeg, r c.preFrac, r c.postFrac, w, d⟩

theorem decode_connRow (cfg : Cfg) (hh : cfg.r (1/2) = 1/2) (h1 : cfg.r 1 = 1) (h0 : cfg.r 0 = 0)
    (hu : cfg.unweighted = 1) (sf wd : Bool) (i : Nat) (c : Conn) (hx : ConnExact cfg.r c)
    (hsf : sf = false → NoSF c) :
    decodeConnRow cfg (projCols sf wd) i (connRow cfg sf wd c) = .ok (rowOf cfg.r i c (cfg.r 1) (cfg.r 0)) := by
  obtain ⟨e1, e2, e3, e4, e5, e6, e7, e8, e9⟩ := colIdx_proj sf wd
  have t1 := trunc_exact hx.pre
  have t2 := trunc_exact hx.post
  have t3 := trunc_exact hx.preSeg
  have t4 := trunc_exact hx.postSeg
  unfold decodeConnRow
  rw [e1, e2, e3, e4, e5, e6, e7, e8, e9]
  cases sf <;> cases wd
  · obtain ⟨a, b, c', d⟩ := hsf rfl
    simp [rowOf, connRow, sfCells, cell, cellOr, cellReq, bind, Except.bind, pure, Except.pure, t1, t2, a, b, c', d, hh, h1, h0, trunc_zero]
  · obtain ⟨a, b, c', d⟩ := hsf rfl
    simp [rowOf, connRow, sfCells, cell, cellOr, cellReq, bind, Except.bind, pure, Except.pure, t1, t2, a, b, c', d, hh, hu, trunc_zero]
  · simp [rowOf, connRow, sfCells, cell, cellOr, cellReq, bind, Except.bind, pure, Except.pure, t1, t2, t3, t4, h1, h0]
  · simp [rowOf, connRow, sfCells, cell, cellOr, cellReq, bind, Except.bind, pure, Except.pure, t1, t2, t3, t4, hu]

theorem decode_connWDRow (cfg : Cfg) (hh : cfg.r (1/2) = 1/2)
    (sf : Bool) (i : Nat) (c : Conn) (w d : Rat) (hx : ConnExact cfg.r c)
    (hsf : sf = false → NoSF c) (hw : c.weight = some w) (hd : delayMs c.delay = .ok d) :
    ∃ row, connWDRow cfg sf c = .ok row ∧
      decodeConnRow cfg (projCols sf true) i row = .ok (rowOf cfg.r i c (cfg.r w) (cfg.r d)) := by
  obtain ⟨e1, e2, e3, e4, e5, e6, e7, e8, e9⟩ := colIdx_proj sf true
  have t1 := trunc_exact hx.pre
  have t2 := trunc_exact hx.post
  have t3 := trunc_exact hx.preSeg
  have t4 := trunc_exact hx.postSeg
  refine ⟨[cfg.r c.pre.idx, cfg.r c.post.idx] ++ (if sf then sfCells cfg c else []) ++ [cfg.r w, cfg.r d],
    by simp only [connWDRow, hw, hd], ?_⟩
  unfold decodeConnRow
  rw [e1, e2, e3, e4, e5, e6, e7, e8, e9]
  cases sf
  · obtain ⟨a, b, c', d'⟩ := hsf rfl
    simp [rowOf, sfCells, cell, cellOr, cellReq, bind, Except.bind, pure, Except.pure, t1, t2, a, b, c', d', hh, trunc_zero]
  · simp [rowOf, sfCells, cell, cellOr, cellReq, bind, Except.bind, pure, Except.pure, t1, t2, t3, t4]
end NmlVerif.Hdf5

namespace NmlVerif.Hdf5
set_option linter.unusedSimpArgs false

/-- the population named inside the path is the projection's / input list's own (bare indices always are) -/
def RefOK (pop : String) (ref : CellRef) : Prop := endOf pop ref = (pop, ref.idx)

theorem endOf_pathFor (dflt : String) (p : Pop) (i : Int) : endOf dflt (pathFor p i) = (p.id, i) := by
  unfold pathFor; cases p.typ <;> rfl

theorem findPop_id {pops : List Pop} {id : String} {p : Pop} (h : findPop pops id = .ok p) : p.id = id := by
  unfold findPop at h
  cases hf : pops.find? (fun p => p.id = id) with
  | none => rw [hf] at h; cases h
  | some q =>
    rw [hf] at h; cases h
    have := List.find?_some hf
    simpa using this

def dval (d : Delay) : Rat :=
  match d.u with
  | .ms => d.v
  | .s => d.v * 1000
  | .us => 0

theorem delayMs_ok {d : Delay} (h : d.u ≠ .us) : delayMs d = .ok (dval d) ∧ dval d = delayMsSem d := by
  unfold delayMs dval delayMsSem
  cases hu : d.u <;> simp_all

theorem noSF_of_hasSF {l : List Conn} (h : hasSF l = false) : ∀ c ∈ l, NoSF c := by
  intro c hc
  unfold hasSF at h
  have := (List.any_eq_false.mp h) c hc
  simp only [NoSF]
  simp at this
  exact ⟨this.1.1.1, this.1.1.2, this.1.2, this.2⟩

structure ProjOK (r : Rat → Rat) (p : Proj) : Prop where
  exact : ∀ c ∈ p.conns ++ p.connWDs, ConnExact r c
  refs : ∀ c ∈ p.conns ++ p.connWDs, RefOK p.pre c.pre ∧ RefOK p.post c.post
  chem : ∀ c ∈ p.conns ++ p.connWDs, c.syn = "" ∧ c.preComp = ""
  plain : ∀ c ∈ p.conns, c.weight = none ∧ c.delay = ⟨0, .ms⟩
  wd : ∀ c ∈ p.connWDs, (∃ w, c.weight = some w) ∧ c.delay.u ≠ .us

/-- the row the writer produces for a `<connectionWD>` whose weight is set and whose delay is in ms or s -/
def wdRow (cfg : Cfg) (sf : Bool) (c : Conn) : List Rat :=
  [cfg.r c.pre.idx, cfg.r c.post.idx] ++ (if sf then sfCells cfg c else []) ++ [cfg.r (c.weight.getD 0), cfg.r (dval c.delay)]

theorem connWDRow_eq (cfg : Cfg) (sf : Bool) (c : Conn) (hw : ∃ w, c.weight = some w) (hd : c.delay.u ≠ .us) :
    connWDRow cfg sf c = .ok (wdRow cfg sf c) := by
  obtain ⟨w, hw⟩ := hw
  simp only [connWDRow, hw, (delayMs_ok hd).1, wdRow, Option.getD_some]

end NmlVerif.Hdf5

namespace NmlVerif.Hdf5
set_option linter.unusedSimpArgs false

theorem projHdr_chem (cfg : Cfg) (p : Proj) :
    projHdr cfg (projAttrs p.id "projection" p.pre p.post ++ [("synapse", .str p.syn)]) =
      .ok ⟨p.id, "projection", p.pre, p.post, p.syn, ""⟩ := by
  simp [projHdr, strAttr, lookupAttr, projAttrs]

theorem posGt_wd (sf wd : Bool) :
    (posGt (colIdx (projCols sf wd) "weight") || posGt (colIdx (projCols sf wd) "delay")) = wd := by
  cases sf <;> cases wd <;> decide

end NmlVerif.Hdf5

namespace NmlVerif.Hdf5
set_option linter.unusedSimpArgs false

def sfOf (p : Proj) : Bool := hasSF p.conns || hasSF p.connWDs
def wdOf (p : Proj) : Bool := !p.connWDs.isEmpty
def encRows (cfg : Cfg) (p : Proj) : List (List Rat) :=
  p.conns.map (connRow cfg (sfOf p) (wdOf p)) ++ p.connWDs.map (wdRow cfg (sfOf p))

theorem encodeProj_eq (cfg : Cfg) (p : Proj) (hok : ProjOK cfg.r p) :
    encodeProj cfg p = .ok ⟨projLeafName p.id, projAttrs p.id "projection" p.pre p.post ++ [("synapse", .str p.syn)],
      if (encRows cfg p).isEmpty then [] else [⟨p.id, projCols (sfOf p) (wdOf p), encRows cfg p⟩]⟩ := by
  unfold encodeProj
  have := mapE_ok (f := connWDRow cfg (sfOf p)) (g := wdRow cfg (sfOf p)) p.connWDs
    (fun c hc => connWDRow_eq cfg _ c (hok.wd c hc).1 (hok.wd c hc).2)
  simp only [sfOf] at this
  simp only [this, encRows, sfOf, wdOf]
  rfl

def decRows (cfg : Cfg) (p : Proj) : List RowD :=
  zipIdx (fun i c => rowOf cfg.r (i : Nat) c (cfg.r 1) (cfg.r 0)) 0 p.conns ++
  zipIdx (fun i c => rowOf cfg.r (i : Nat) c (cfg.r (c.weight.getD 0)) (cfg.r (dval c.delay))) (0 + (p.conns.map (connRow cfg (sfOf p) (wdOf p))).length) p.connWDs

theorem decode_encRows (cfg : Cfg) (hh : cfg.r (1/2) = 1/2) (h1 : cfg.r 1 = 1) (h0 : cfg.r 0 = 0)
    (hu : cfg.unweighted = 1) (p : Proj) (hok : ProjOK cfg.r p) :
    mapIdxE (decodeConnRow cfg (projCols (sfOf p) (wdOf p))) 0 (encRows cfg p) = .ok (decRows cfg p) := by
  have hns : sfOf p = false → ∀ c ∈ p.conns ++ p.connWDs, NoSF c := by
    intro h c hc
    simp only [sfOf, Bool.or_eq_false_iff] at h
    rcases List.mem_append.mp hc with hc | hc
    · exact noSF_of_hasSF h.1 c hc
    · exact noSF_of_hasSF h.2 c hc
  unfold encRows decRows
  apply mapIdxE_append_ok
  · apply mapIdxE_map_ok
    intro i c hc
    exact decode_connRow cfg hh h1 h0 hu _ _ i c (hok.exact c (by simp [hc])) (fun h => hns h c (by simp [hc]))
  · apply mapIdxE_map_ok
    intro i c hc
    have hwd : wdOf p = true := by
      simp only [wdOf, Bool.not_eq_eq_eq_not, Bool.not_true, List.isEmpty_eq_false_iff]
      intro h; rw [h] at hc; cases hc
    obtain ⟨⟨w, hw⟩, hd⟩ := hok.wd c hc
    obtain ⟨row, hrow, hdec⟩ := decode_connWDRow cfg hh (sfOf p) i c w (dval c.delay)
      (hok.exact c (by simp [hc])) (fun h => hns h c (by simp [hc])) hw (delayMs_ok hd).1
    rw [connWDRow_eq cfg _ c ⟨w, hw⟩ hd] at hrow
    cases hrow
    rw [hwd, hdec, hw]; rfl

end NmlVerif.Hdf5

namespace NmlVerif.Hdf5
set_option linter.unusedSimpArgs false

theorem getById_mem {top : List Comp} {id : String} {c : Comp} (h : getById top id = some c) : c ∈ top := by
  unfold getById at h
  split at h
  · cases h
  · exact List.mem_of_find?_eq_some h

theorem mem_zipIdx {α β : Type} {g : Nat → α → β} {b : β} :
    ∀ (n : Nat) (l : List α), b ∈ zipIdx g n l → ∃ i a, a ∈ l ∧ b = g i a
  | _, [], h => by cases h
  | n, a :: as, h => by
    simp only [zipIdx, List.mem_cons] at h
    rcases h with h | h
    · exact ⟨n, a, by simp, h⟩
    · obtain ⟨i, a', ha', hb⟩ := mem_zipIdx (n + 1) as h
      exact ⟨i, a', by simp [ha'], hb⟩

theorem semConn_built (r : Rat → Rat) (withId : Bool) (pre post : String) (prePop postPop : Pop)
    (hp : prePop.id = pre) (hq : postPop.id = post) (i : Int) (c : Conn) (wopt : Option Rat) (del : Delay)
    (syn preComp : String) (hid : withId = true → i = c.id)
    (hr : RefOK pre c.pre ∧ RefOK post c.post) (hs : syn = c.syn ∧ preComp = c.preComp)
    (hw : wopt.getD 1 = r (c.weight.getD 1)) (hd : delayMsSem del = r (delayMsSem c.delay)) :
    semConn withId pre post
      { id := i, pre := pathFor prePop c.pre.idx, post := pathFor postPop c.post.idx,
          preSeg := c.preSeg, postSeg := c.postSeg, preFrac := r c.preFrac, postFrac := r c.postFrac,
          weight := wopt, delay := del, syn := syn, preComp := preComp } =
      rConn r (semConn withId pre post c) := by
  have e1 : endOf pre c.pre = (pre, c.pre.idx) := hr.1
  have e2 : endOf post c.post = (post, c.post.idx) := hr.2
  cases withId
  · simp [semConn, rConn, endOf_pathFor, hp, hq, e1, e2, hs.1, hs.2, hw, hd]
  · simp [semConn, rConn, endOf_pathFor, hp, hq, e1, e2, hs.1, hs.2, hw, hd, hid rfl]

theorem decodeProjBody_nil_chem (cfg : Cfg) (top : List Comp) (pops : List Pop) (h : PHdr) (ht : h.typ = "projection") :
    decodeProjBody cfg top pops h [] = .ok (.proj { id := h.id, pre := h.pre, post := h.post, syn := h.syn }, []) := by
  simp only [decodeProjBody, ht, if_true]

theorem decodeProjBody_chem (cfg : Cfg) (top : List Comp) (pops : List Pop) (h : PHdr) (a : Arr) (rows : List RowD)
    (it : Item) (ht : h.typ = "projection") (hm : mapIdxE (decodeConnRow cfg a.cols) 0 a.rows = .ok rows)
    (hc : chemItem h pops (posGt (colIdx a.cols "weight") || posGt (colIdx a.cols "delay")) rows = .ok it) :
    decodeProjBody cfg top pops h [a] =
      .ok (it, [getById top h.syn, if h.preSyn.length > 0 then getById top h.preSyn else none]) := by
  simp only [decodeProjBody, hm, ht, if_true, hc]

theorem proj_roundtrip (cfg : Cfg) (hh : cfg.r (1/2) = 1/2) (h1 : cfg.r 1 = 1) (h0 : cfg.r 0 = 0)
    (hu : cfg.unweighted = 1) (top : List Comp) (pops : List Pop) (p : Proj) (prePop postPop : Pop)
    (hpre : findPop pops p.pre = .ok prePop) (hpost : findPop pops p.post = .ok postPop) (hok : ProjOK cfg.r p) :
    ∃ leaf p' objs, encodeProj cfg p = .ok leaf ∧ leaf.name = projLeafName p.id ∧
      decodeProjLeaf cfg top pops leaf = .ok (.proj p', objs) ∧ (∀ c, some c ∈ objs → c ∈ top) ∧
      semProj p' = rProj cfg.r (semProj p) := by
  rw [encodeProj_eq cfg p hok]
  cases hemp : (encRows cfg p).isEmpty
  case true =>
    have hc : p.conns = [] ∧ p.connWDs = [] := by simpa [encRows] using hemp
    refine ⟨_, { id := p.id, pre := p.pre, post := p.post, syn := p.syn }, [], rfl, rfl, ?_, by simp, ?_⟩
    · simp only [decodeProjLeaf, projHdr_chem, if_true]
      exact decodeProjBody_nil_chem cfg top pops _ rfl
    · simp [semProj, rProj, hc.1, hc.2]
  case false =>
    refine ⟨_, buildProj p.id p.pre p.post p.syn prePop postPop (wdOf p) (decRows cfg p),
      [getById top p.syn, none], rfl, rfl, ?_, ?_, ?_⟩
    · have hne : (decRows cfg p).isEmpty = false := by
        have hl : (decRows cfg p).length = (encRows cfg p).length := by
          simp [decRows, encRows, zipIdx_length]
        cases hd : decRows cfg p with
        | nil =>
          rw [hd] at hl
          rw [List.eq_nil_of_length_eq_zero hl.symm] at hemp
          cases hemp
        | cons _ _ => rfl
      simp only [decodeProjLeaf, projHdr_chem, Bool.false_eq_true, if_false]
      refine decodeProjBody_chem cfg top pops _ _ (decRows cfg p) _ rfl (decode_encRows cfg hh h1 h0 hu p hok) ?_
      simp only [posGt_wd, chemItem, hne, hpre, hpost, Bool.false_eq_true, if_false]
    · intro c hc
      simp only [List.mem_cons, List.mem_nil_iff, or_false] at hc
      rcases hc with hc | hc
      · exact getById_mem hc.symm
      · cases hc
    · have hpid := findPop_id hpre
      have hqid := findPop_id hpost
      cases hwd : wdOf p
      · have hw : p.connWDs = [] := by simpa [wdOf] using hwd
        have hrows : decRows cfg p = zipIdx (fun i c => rowOf cfg.r (i : Nat) c (cfg.r 1) (cfg.r 0)) 0 p.conns := by
          simp [decRows, hw, zipIdx]
        have hall : ∀ d ∈ decRows cfg p, d.delay = 0 ∧ d.weight = 1 := by
          intro d hd
          rw [hrows] at hd
          obtain ⟨i, c, _, rfl⟩ := mem_zipIdx _ _ hd
          simp [rowOf, h1, h0]
        simp only [buildProj, semProj, Bool.not_false, Bool.true_and]
        rw [filter_all _ _ (fun d hd => by simp [(hall d hd).1, (hall d hd).2]),
            filter_none _ _ (fun d hd => by simp [(hall d hd).1, (hall d hd).2])]
        simp only [List.map_nil, List.append_nil, rProj, List.map_map, hw, hrows]
        congr 1
        apply map_zipIdx
        intro i c hc
        have hpl := hok.plain c hc
        simp only [Function.comp, rowOf]
        exact semConn_built cfg.r false p.pre p.post prePop postPop hpid hqid i c none ⟨0, .ms⟩ "" ""
          (by intro h; cases h) (hok.refs c (by simp [hc])) ⟨(hok.chem c (by simp [hc])).1.symm, (hok.chem c (by simp [hc])).2.symm⟩
          (by simp [hpl.1, h1]) (by simp [hpl.2, delayMsSem, h0])
      · simp only [buildProj, semProj, Bool.not_true, Bool.false_and]
        rw [filter_none (fun _ => false) _ (fun d _ => rfl), filter_all (fun _ => !false) _ (fun d _ => rfl)]
        simp only [List.map_nil, List.nil_append, rProj, List.map_map, decRows, List.map_append]
        congr 1
        congr 1
        · apply map_zipIdx
          intro i c hc
          have hpl := hok.plain c hc
          simp only [Function.comp, rowOf]
          exact semConn_built cfg.r false p.pre p.post prePop postPop hpid hqid i c (some (cfg.r 1)) ⟨cfg.r 0, .ms⟩ "" ""
            (by intro h; cases h) (hok.refs c (by simp [hc])) ⟨(hok.chem c (by simp [hc])).1.symm, (hok.chem c (by simp [hc])).2.symm⟩
            (by simp [hpl.1]) (by simp [hpl.2, delayMsSem])
        · apply map_zipIdx
          intro i c hc
          obtain ⟨⟨w, hw⟩, hd⟩ := hok.wd c hc
          simp only [Function.comp, rowOf]
          exact semConn_built cfg.r false p.pre p.post prePop postPop hpid hqid i c (some (cfg.r (c.weight.getD 0)))
            ⟨cfg.r (dval c.delay), .ms⟩ "" ""
            (by intro h; cases h) (hok.refs c (by simp [hc])) ⟨(hok.chem c (by simp [hc])).1.symm, (hok.chem c (by simp [hc])).2.symm⟩
            (by simp [hw]) (by simp [delayMsSem, (delayMs_ok hd).2])

end NmlVerif.Hdf5

/-! ## electrical and continuous projections -/

namespace NmlVerif.Hdf5
set_option linter.unusedSimpArgs false

theorem projHdr_elec (cfg : Cfg) (id pre post s : String) :
    projHdr cfg (projAttrs id "electricalProjection" pre post ++ [("synapse", .str s)]) =
      .ok ⟨id, "electricalProjection", pre, post, s, ""⟩ := by
  simp [projHdr, strAttr, lookupAttr, projAttrs]

theorem projHdr_cont (cfg : Cfg) (id pre post pc s : String) :
    projHdr cfg (projAttrs id "continuousProjection" pre post ++ [("preComponent", .str pc), ("postComponent", .str s)]) =
      .ok ⟨id, "continuousProjection", pre, post, s, pc⟩ := by
  simp [projHdr, strAttr, lookupAttr, projAttrs]

theorem filter_map_sem {α β γ : Type} (D : α → β) (S : α → γ) (q : β → Bool) (q' : γ → Bool) (f : β → γ) :
    ∀ (all : List α), (∀ c ∈ all, q (D c) = q' (S c)) → (∀ c ∈ all, q (D c) = true → f (D c) = S c) →
      ((all.map D).filter q).map f = (all.map S).filter q'
  | [], _, _ => rfl
  | c :: cs, hq, hf => by
    have ih := filter_map_sem D S q q' f cs (fun x hx => hq x (by simp [hx])) (fun x hx => hf x (by simp [hx]))
    simp only [List.map_cons, List.filter_cons, ← hq c (by simp)]
    cases hqc : q (D c)
    · simpa using ih
    · simp [hf c (by simp) hqc, ih]

structure GConnOK (r : Rat → Rat) (pre post : String) (c : Conn) : Prop where
  exact : ConnExact r c
  idExact : Exact r c.id
  refs : RefOK pre c.pre ∧ RefOK post c.post
  delay : c.delay = ⟨0, .ms⟩

def GProj.all (p : GProj) : List Conn := p.plain ++ p.insts ++ p.instWs

def wOf (c : Conn) : Rat := c.weight.getD 1

theorem decode_gRowU (cfg : Cfg) (h1 : cfg.r 1 = 1) (hu : cfg.unweighted = 1) (hid0 : cfg.idCol0 = true)
    (w : Bool) (i : Nat) (c : Conn) (hx : ConnExact cfg.r c) (hxi : Exact cfg.r c.id) :
    decodeConnRow cfg (gCols w) i (gRowU cfg w c) = .ok (rowOf cfg.r c.id c (cfg.r 1) 0) := by
  obtain ⟨e1, e2, e3, e4, e5, e6, e7, e8, e9⟩ := colIdx_g w
  have t0 := trunc_exact hxi
  have t1 := trunc_exact hx.pre
  have t2 := trunc_exact hx.post
  have t3 := trunc_exact hx.preSeg
  have t4 := trunc_exact hx.postSeg
  unfold decodeConnRow
  rw [e1, e2, e3, e4, e5, e6, e7, e8, e9]
  cases w
  · simp [rowOf, gRowU, gRowBase, sfCells, cell, cellOr, cellReq, bind, Except.bind, pure, Except.pure, Except.map, hid0, t0, t1, t2, t3, t4, h1]
  · simp [rowOf, gRowU, gRowBase, sfCells, cell, cellOr, cellReq, bind, Except.bind, pure, Except.pure, Except.map, hid0, t0, t1, t2, t3, t4, hu]

theorem decode_gRowW (cfg : Cfg) (hid0 : cfg.idCol0 = true)
    (i : Nat) (c : Conn) (x : Rat) (hx : ConnExact cfg.r c) (hxi : Exact cfg.r c.id) :
    decodeConnRow cfg (gCols true) i (gRowBase cfg c ++ [cfg.r x]) = .ok (rowOf cfg.r c.id c (cfg.r x) 0) := by
  obtain ⟨e1, e2, e3, e4, e5, e6, e7, e8, e9⟩ := colIdx_g true
  have t0 := trunc_exact hxi
  have t1 := trunc_exact hx.pre
  have t2 := trunc_exact hx.post
  have t3 := trunc_exact hx.preSeg
  have t4 := trunc_exact hx.postSeg
  unfold decodeConnRow
  rw [e1, e2, e3, e4, e5, e6, e7, e8, e9]
  simp [rowOf, gRowBase, sfCells, cell, cellOr, cellReq, bind, Except.bind, pure, Except.pure, Except.map, hid0, t0, t1, t2, t3, t4]


theorem mapIdxE_map_ok' {α ρ β : Type} {f : Nat → ρ → Except Err β} {e : α → ρ} {g : α → β} (n : Nat) (l : List α)
    (h : ∀ i a, a ∈ l → f i (e a) = .ok (g a)) : mapIdxE f n (l.map e) = .ok (l.map g) := by
  rw [← zipIdx_const g n l]
  exact mapIdxE_map_ok n l h

structure GOK (cfg : Cfg) (cont : Bool) (p : GProj) : Prop where
  conn : ∀ c ∈ p.all, GConnOK cfg.r p.pre p.post c
  unw : ∀ c ∈ p.plain ++ p.insts, c.weight = none
  wset : cont = true → ∀ c ∈ p.instWs, ∃ w, c.weight = some w
  elecPre : cont = false → ∀ c ∈ p.all, c.preComp = ""

def gRowW (cfg : Cfg) (c : Conn) : List Rat := gRowBase cfg c ++ [cfg.r (wOf c)]

def wFlag (p : GProj) : Bool := !p.instWs.isEmpty

def encRowsG (cfg : Cfg) (p : GProj) : List (List Rat) :=
  (p.plain ++ p.insts).map (gRowU cfg (wFlag p)) ++ p.instWs.map (gRowW cfg)

def gAttrs (cont : Bool) (p : GProj) (c0 : Conn) : Attrs :=
  if cont then projAttrs p.id "continuousProjection" p.pre p.post ++
               [("preComponent", .str c0.preComp), ("postComponent", .str c0.syn)]
  else projAttrs p.id "electricalProjection" p.pre p.post ++ [("synapse", .str c0.syn)]

theorem uniformG_of (cont : Bool) (c0 : Conn) (l : List Conn)
    (huni : ∀ c ∈ l, c.syn = c0.syn ∧ c.preComp = c0.preComp) : uniformG cont c0 l = true := by
  unfold uniformG
  rw [List.all_eq_true]
  intro c hc
  simp [(huni c hc).1, (huni c hc).2]

theorem encodeGProj_eq (cfg : Cfg) (cont : Bool) (p : GProj) (c0 : Conn) (hf : firstConn p = .ok c0)
    (hok : GOK cfg cont p) (huni : ∀ c ∈ p.plain ++ p.insts ++ p.instWs, c.syn = c0.syn ∧ c.preComp = c0.preComp) :
    encodeGProj cfg cont p = .ok ⟨projLeafName p.id, gAttrs cont p c0, [⟨p.id, gCols (wFlag p), encRowsG cfg p⟩]⟩ := by
  have hw : mapE (if cont then cRowW cfg else eRowW cfg) p.instWs = .ok (p.instWs.map (gRowW cfg)) := by
    apply mapE_ok
    intro c hc
    cases cont
    · simp [eRowW, gRowW, wOf]
    · obtain ⟨w, hw⟩ := hok.wset rfl c hc
      simp [cRowW, gRowW, wOf, hw]
  unfold encodeGProj
  simp only [hf, hw, gAttrs, encRowsG, wFlag, uniformG_of cont c0 _ huni, Bool.not_true, Bool.and_false,
    Bool.false_eq_true, if_false]

def decRowsG (cfg : Cfg) (p : GProj) : List RowD :=
  p.all.map (fun c => rowOf cfg.r c.id c (cfg.r (wOf c)) 0)

theorem decode_encRowsG (cfg : Cfg) (h1 : cfg.r 1 = 1) (hu : cfg.unweighted = 1) (hid0 : cfg.idCol0 = true)
    (cont : Bool) (p : GProj) (hok : GOK cfg cont p) :
    mapIdxE (decodeConnRow cfg (gCols (wFlag p))) 0 (encRowsG cfg p) = .ok (decRowsG cfg p) := by
  unfold encRowsG decRowsG GProj.all
  rw [List.map_append (f := fun c => rowOf cfg.r c.id c (cfg.r (wOf c)) 0) (l₁ := p.plain ++ p.insts)]
  apply mapIdxE_append_ok
  · apply mapIdxE_map_ok'
    intro i c hc
    have hc' : c ∈ p.all := by simp only [GProj.all]; simp only [List.mem_append] at hc ⊢; exact Or.inl hc
    rw [decode_gRowU cfg h1 hu hid0 _ i c (hok.conn c hc').exact (hok.conn c hc').idExact]
    simp [wOf, hok.unw c hc]
  · apply mapIdxE_map_ok'
    intro i c hc
    have hc' : c ∈ p.all := by simp only [GProj.all]; simp only [List.mem_append]; exact Or.inr hc
    have hwf : wFlag p = true := by
      simp only [wFlag, Bool.not_eq_eq_eq_not, Bool.not_true, List.isEmpty_eq_false_iff]
      intro h; rw [h] at hc; cases hc
    rw [hwf]
    exact decode_gRowW cfg hid0 i c (wOf c) (hok.conn c hc').exact (hok.conn c hc').idExact


theorem semConn_built' (r : Rat → Rat) (pre post : String) (pr po : CellRef) (c : Conn) (wopt : Option Rat)
    (hpr : endOf pre pr = (pre, c.pre.idx)) (hpo : endOf post po = (post, c.post.idx))
    (hr : RefOK pre c.pre ∧ RefOK post c.post) (hdel : c.delay = ⟨0, .ms⟩)
    (hw : wopt.getD 1 = r (c.weight.getD 1)) :
    semConn true pre post
      { id := c.id, pre := pr, post := po,
          preSeg := c.preSeg, postSeg := c.postSeg, preFrac := r c.preFrac, postFrac := r c.postFrac,
          weight := wopt, syn := c.syn, preComp := c.preComp } =
      { rConn r (semConn true pre post c) with delay := 0 } := by
  have e1 : endOf pre c.pre = (pre, c.pre.idx) := hr.1
  have e2 : endOf post c.post = (post, c.post.idx) := hr.2
  simp [semConn, rConn, hpr, hpo, e1, e2, hw, hdel, delayMsSem]

theorem canon_all_one (l : List SemConn) (h : ∀ c ∈ l, c.weight = 1) : canonConns l = l := by
  unfold canonConns
  rw [filter_all _ _ (fun c hc => by simp [h c hc]), filter_none _ _ (fun c hc => by simp [h c hc])]
  simp

theorem buildGProj_sem (cfg : Cfg) (h0 : cfg.r 0 = 0) (cont : Bool) (id pre post syn preComp : String)
    (prePop postPop : Pop) (hp : prePop.id = pre) (hq : postPop.id = post) (all : List Conn)
    (hc : ∀ c ∈ all, GConnOK cfg.r pre post c) (hs : ∀ c ∈ all, c.syn = syn ∧ c.preComp = preComp)
    (hnw : prePop.insts = [] → postPop.insts = [] → ∀ c ∈ all, cfg.r (wOf c) = 1) :
    ∃ p', buildGProj cfg cont id pre post syn preComp prePop postPop
            (all.map (fun c => rowOf cfg.r c.id c (cfg.r (wOf c)) 0)) = .ok p' ∧
          semGProj p' = ⟨id, pre, post, "", canonConns (all.map (fun c => rConn cfg.r (semConn true pre post c)))⟩ := by
  have hS : ∀ c ∈ all, (rConn cfg.r (semConn true pre post c)).delay = 0 := by
    intro c hcm
    simp [rConn, semConn, (hc c hcm).delay, delayMsSem, h0]
  have hSeq : ∀ c ∈ all, ({ rConn cfg.r (semConn true pre post c) with delay := 0 } : SemConn) =
      rConn cfg.r (semConn true pre post c) := by
    intro c hcm
    have := hS c hcm
    cases hh : rConn cfg.r (semConn true pre post c)
    rw [hh] at this
    simp at this
    simp [this]
  unfold buildGProj
  cases hinst : (!prePop.insts.isEmpty || !postPop.insts.isEmpty)
  · have hi : prePop.insts = [] ∧ postPop.insts = [] := by simpa using hinst
    have hw1 := hnw hi.1 hi.2
    have hany : (all.map (fun c => rowOf cfg.r c.id c (cfg.r (wOf c)) 0)).any (fun d => d.weight ≠ 1) = false := by
      rw [List.any_eq_false]
      intro d hd
      obtain ⟨c, hcm, rfl⟩ := List.mem_map.mp hd
      simp [rowOf, hw1 c hcm]
    simp only [Bool.not_false, hany, Bool.and_false, Bool.false_eq_true, if_false, if_true]
    refine ⟨_, rfl, ?_⟩
    simp only [semGProj, List.append_nil, List.map_map]
    congr 1
    rw [canon_all_one _ (by
      intro s hsm
      obtain ⟨c, hcm, rfl⟩ := List.mem_map.mp hsm
      simp [rConn, semConn, wOf] at hw1 ⊢
      exact hw1 c hcm)]
    apply List.map_congr_left
    intro c hcm
    simp only [Function.comp, rowOf]
    rw [← hSeq c hcm, ← (hs c hcm).1, ← (hs c hcm).2]
    exact semConn_built' cfg.r pre post _ _ c none rfl rfl (hc c hcm).refs (hc c hcm).delay
      (by simpa [wOf] using (hw1 c hcm).symm)
  · simp only [Bool.not_true, Bool.false_eq_true, if_false]
    refine ⟨_, rfl, ?_⟩
    simp only [semGProj, List.nil_append, List.map_append, canonConns]
    congr 1
    congr 1
    · rw [List.map_map]
      apply filter_map_sem
      · intro c hcm
        simp only [rowOf, rConn, semConn, wOf]
        exact decide_eq_decide.mpr Iff.rfl
      · intro c hcm hw
        simp only [Function.comp, rowOf]
        have hw' : cfg.r (wOf c) = 1 := of_decide_eq_true hw
        rw [← hSeq c hcm, ← (hs c hcm).1, ← (hs c hcm).2]
        exact semConn_built' cfg.r pre post _ _ c none (by rw [endOf_pathFor, hp]) (by rw [endOf_pathFor, hq])
          (hc c hcm).refs (hc c hcm).delay (by simpa [wOf] using hw'.symm)
    · rw [List.map_map]
      apply filter_map_sem
      · intro c hcm
        simp only [rowOf, rConn, semConn, wOf]
        exact decide_eq_decide.mpr Iff.rfl
      · intro c hcm hw
        simp only [Function.comp, rowOf]
        rw [← hSeq c hcm, ← (hs c hcm).1, ← (hs c hcm).2]
        exact semConn_built' cfg.r pre post _ _ c (some (cfg.r (wOf c))) (by rw [endOf_pathFor, hp])
          (by rw [endOf_pathFor, hq]) (hc c hcm).refs (hc c hcm).delay (by simp [wOf])


theorem getById_id {top : List Comp} {id : String} {c : Comp} (h : getById top id = some c) : c.id = id := by
  unfold getById at h
  split at h
  · cases h
  · simpa using List.find?_some h

theorem postId_eq (top : List Comp) (s : String) :
    (match getById top s with | some c => c.id | none => s) = s := by
  cases h : getById top s with
  | none => rfl
  | some c => exact getById_id h

theorem decodeProjBody_elec (cfg : Cfg) (top : List Comp) (pops : List Pop) (h : PHdr) (a : Arr) (rows : List RowD)
    (it : Item) (ht : h.typ = "electricalProjection") (hm : mapIdxE (decodeConnRow cfg a.cols) 0 a.rows = .ok rows)
    (hc : gItem cfg false h h.syn "" pops rows = .ok it) :
    decodeProjBody cfg top pops h [a] =
      .ok (it, [getById top h.syn, if h.preSyn.length > 0 then getById top h.preSyn else none]) := by
  simp [decodeProjBody, hm, ht, hc]

theorem decodeProjBody_cont (cfg : Cfg) (top : List Comp) (pops : List Pop) (h : PHdr) (a : Arr) (rows : List RowD)
    (it : Item) (cp : Comp) (ht : h.typ = "continuousProjection")
    (hm : mapIdxE (decodeConnRow cfg a.cols) 0 a.rows = .ok rows)
    (hp : (if h.preSyn.length > 0 then getById top h.preSyn else none) = some cp)
    (hc : gItem cfg true h h.syn cp.id pops rows = .ok it) :
    decodeProjBody cfg top pops h [a] = .ok (it, [getById top h.syn, some cp]) := by
  cases hg : getById top h.syn with
  | none =>
    simp only [decodeProjBody, hm, ht, hp, hg]
    simp [hc]
  | some cs =>
    have := getById_id hg
    simp only [decodeProjBody, hm, ht, hp, hg]
    simp [this, hc]

theorem firstConn_mem {p : GProj} {c0 : Conn} (h : firstConn p = .ok c0) : c0 ∈ p.all ∧ p.all ≠ [] := by
  unfold firstConn at h
  unfold GProj.all
  split at h <;> simp_all

theorem gproj_roundtrip (cfg : Cfg) (h1 : cfg.r 1 = 1) (h0 : cfg.r 0 = 0) (hu : cfg.unweighted = 1)
    (hid0 : cfg.idCol0 = true) (cont : Bool) (top : List Comp) (pops : List Pop) (p : GProj) (c0 : Conn)
    (prePop postPop : Pop) (hf : firstConn p = .ok c0)
    (hpre : findPop pops p.pre = .ok prePop) (hpost : findPop pops p.post = .ok postPop) (hok : GOK cfg cont p)
    (huni : ∀ c ∈ p.all, c.syn = c0.syn ∧ c.preComp = c0.preComp)
    (hdef : cont = true → ∃ cp, getById top c0.preComp = some cp)
    (hnw : prePop.insts = [] → postPop.insts = [] → ∀ c ∈ p.all, cfg.r (wOf c) = 1) :
    ∃ leaf p' objs, encodeGProj cfg cont p = .ok leaf ∧ leaf.name = projLeafName p.id ∧
      decodeProjLeaf cfg top pops leaf = .ok ((if cont then Item.cproj p' else Item.eproj p'), objs) ∧
      (∀ c, some c ∈ objs → c ∈ top) ∧
      semGProj p' = canonProj (rProj cfg.r (semGProj p)) := by
  have hpid := findPop_id hpre
  have hqid := findPop_id hpost
  have hne : (decRowsG cfg p).isEmpty = false := by
    have := (firstConn_mem hf).2
    simp only [decRowsG, List.isEmpty_eq_false_iff, ne_eq, List.map_eq_nil_iff]
    exact this
  have hsem : semGProj p = ⟨p.id, p.pre, p.post, "", p.all.map (semConn true p.pre p.post)⟩ := rfl
  rw [encodeGProj_eq cfg cont p c0 hf hok huni]
  cases cont
  · -- electrical
    obtain ⟨p', hb, hs⟩ := buildGProj_sem cfg h0 false p.id p.pre p.post c0.syn "" prePop postPop hpid hqid p.all
      hok.conn (fun c hc => ⟨(huni c hc).1, hok.elecPre rfl c hc⟩) hnw
    refine ⟨_, p', [getById top c0.syn, none], rfl, rfl, ?_, ?_, ?_⟩
    · simp only [decodeProjLeaf, gAttrs, Bool.false_eq_true, if_false, projHdr_elec]
      refine decodeProjBody_elec cfg top pops _ _ (decRowsG cfg p) _ rfl (decode_encRowsG cfg h1 hu hid0 false p hok) ?_
      simp only [gItem, hne, Bool.false_eq_true, if_false, hpre, hpost]
      simp only [decRowsG, hb]
    · intro c hc
      simp only [List.mem_cons, List.mem_nil_iff, or_false] at hc
      rcases hc with hc | hc
      · exact getById_mem hc.symm
      · cases hc
    · rw [hs, hsem]; simp only [canonProj, rProj, List.map_map]; rfl
  · -- continuous
    obtain ⟨cp, hcp⟩ := hdef rfl
    have hcpid := getById_id hcp
    obtain ⟨p', hb, hs⟩ := buildGProj_sem cfg h0 true p.id p.pre p.post c0.syn c0.preComp prePop postPop hpid hqid p.all
      hok.conn huni hnw
    have hlen : c0.preComp.length > 0 := by
      unfold getById at hcp
      split at hcp
      · cases hcp
      · rename_i h; omega
    refine ⟨_, p', [getById top c0.syn, some cp], rfl, rfl, ?_, ?_, ?_⟩
    · simp only [decodeProjLeaf, gAttrs, if_true, projHdr_cont]
      refine decodeProjBody_cont cfg top pops _ _ (decRowsG cfg p) _ cp rfl (decode_encRowsG cfg h1 hu hid0 true p hok)
        (by simp [hlen, hcp]) ?_
      simp only [gItem, hne, Bool.false_eq_true, if_false, hpre, hpost, hcpid]
      simp only [decRowsG, hb, if_true]
    · intro c hc
      simp only [List.mem_cons, List.mem_nil_iff, or_false] at hc
      rcases hc with hc | hc
      · exact getById_mem hc.symm
      · cases hc; exact getById_mem hcp
    · rw [hs, hsem]; simp only [canonProj, rProj, List.map_map]; rfl

end NmlVerif.Hdf5

/-! ## input lists -/

namespace NmlVerif.Hdf5
set_option linter.unusedSimpArgs false

structure InpOK (cfg : Cfg) (pop : String) (i : Inp) : Prop where
  idExact : Exact cfg.r i.id
  cellExact : Exact cfg.r i.target.idx
  segExact : Exact cfg.r (getSeg i)
  ref : RefOK pop i.target
  frac : cfg.fracTruthy = true → i.frac ≠ some 0

structure ILOK (cfg : Cfg) (l : IList) : Prop where
  inp : ∀ i ∈ l.inputs ++ l.inputWs, InpOK cfg l.pop i
  unw : ∀ i ∈ l.inputs, i.weight = none
  nonempty : l.inputs ++ l.inputWs ≠ []

def wOfI (i : Inp) : Rat := i.weight.getD 1

def inDOf (r : Rat → Rat) (i : Inp) : InD := ⟨i.id, i.target.idx, getSeg i, r (i.frac.getD (1/2)), r (wOfI i)⟩

theorem getFrac_eq (cfg : Cfg) (i : Inp) (h : cfg.fracTruthy = true → i.frac ≠ some 0) :
    getFrac cfg i = i.frac.getD (1/2) := by
  unfold getFrac
  cases hf : i.frac with
  | none => rfl
  | some f =>
    cases ht : cfg.fracTruthy
    · simp
    · have := h ht
      rw [hf] at this
      have hne : f ≠ 0 := fun h0 => this (by rw [h0])
      simp [hne]

theorem decode_inpRowU (cfg : Cfg) (h1 : cfg.r 1 = 1) (hu : cfg.unweighted = 1) (pop : String)
    (w : Bool) (k : Nat) (i : Inp) (hx : InpOK cfg pop i) (hw : i.weight = none) :
    decodeInpRow (ilCols w) k (inpRowU cfg w i) = .ok (inDOf cfg.r i) := by
  obtain ⟨e1, e2, e3, e4, e5⟩ := colIdx_il w
  have t0 := trunc_exact hx.idExact
  have t1 := trunc_exact hx.cellExact
  have t2 := trunc_exact hx.segExact
  have hf := getFrac_eq cfg i hx.frac
  unfold decodeInpRow
  rw [e1, e2, e3, e4, e5]
  cases w
  · simp [inDOf, wOfI, hw, inpRowU, inpRowBase, cell, cellOr, cellReq, bind, Except.bind, pure, Except.pure, Except.map, t0, t1, t2, hf, h1]
  · simp [inDOf, wOfI, hw, inpRowU, inpRowBase, cell, cellOr, cellReq, bind, Except.bind, pure, Except.pure, Except.map, t0, t1, t2, hf, hu]

theorem decode_inpRowW (cfg : Cfg) (pop : String) (k : Nat) (i : Inp) (hx : InpOK cfg pop i) :
    decodeInpRow (ilCols true) k (inpRowW cfg i) = .ok (inDOf cfg.r i) := by
  obtain ⟨e1, e2, e3, e4, e5⟩ := colIdx_il true
  have t0 := trunc_exact hx.idExact
  have t1 := trunc_exact hx.cellExact
  have t2 := trunc_exact hx.segExact
  have hf := getFrac_eq cfg i hx.frac
  unfold decodeInpRow
  rw [e1, e2, e3, e4, e5]
  simp [inDOf, wOfI, inpRowW, inpRowBase, cell, cellOr, cellReq, bind, Except.bind, pure, Except.pure, Except.map, t0, t1, t2, hf]

def wFlagI (l : IList) : Bool := !l.inputWs.isEmpty
def encRowsI (cfg : Cfg) (l : IList) : List (List Rat) :=
  l.inputs.map (inpRowU cfg (wFlagI l)) ++ l.inputWs.map (inpRowW cfg)

theorem decode_encRowsI (cfg : Cfg) (h1 : cfg.r 1 = 1) (hu : cfg.unweighted = 1) (l : IList) (hok : ILOK cfg l) :
    mapIdxE (decodeInpRow (ilCols (wFlagI l))) 0 (encRowsI cfg l) = .ok ((l.inputs ++ l.inputWs).map (inDOf cfg.r)) := by
  unfold encRowsI
  rw [List.map_append]
  apply mapIdxE_append_ok
  · apply mapIdxE_map_ok'
    intro k i hi
    exact decode_inpRowU cfg h1 hu l.pop _ k i (hok.inp i (by simp [hi])) (hok.unw i hi)
  · apply mapIdxE_map_ok'
    intro k i hi
    have hwf : wFlagI l = true := by
      simp only [wFlagI, Bool.not_eq_eq_eq_not, Bool.not_true, List.isEmpty_eq_false_iff]
      intro h; rw [h] at hi; cases hi
    rw [hwf]
    exact decode_inpRowW cfg l.pop k i (hok.inp i (by simp [hi]))

theorem semInp_mk (r : Rat → Rat) (pop : String) (p : Pop) (hp : p.id = pop) (i : Inp) (hr : RefOK pop i.target)
    (wopt : Option Rat) (hw : wopt.getD 1 = r (wOfI i)) :
    semInp pop { mkInp p (inDOf r i) with weight := wopt } = rInp r (semInp pop i) := by
  have e1 : endOf pop i.target = (pop, i.target.idx) := hr
  simp only [semInp, rInp, mkInp, inDOf, endOf_pathFor, hp, e1, hw, getSeg, wOfI]
  congr 1
  · by_cases h : i.seg.getD 0 = 0 <;> simp [h]
  · by_cases h : r (i.frac.getD (1/2)) = 1/2 <;> simp [h]

theorem ilBody_one (top : List Comp) (pops : List Pop) (id comp pop : String) (a : Arr) (rows : List InD) (p : Pop)
    (hm : mapIdxE (decodeInpRow a.cols) 0 a.rows = .ok rows) (hne : rows.isEmpty = false)
    (hp : findPop pops pop = .ok p) :
    ilBody top pops id comp pop [a] = .ok (.il (buildIL id comp pop p rows), [getById top comp]) := by
  simp only [ilBody, hm, hne, hp, Bool.false_eq_true, if_false]

theorem decodeILLeaf_attrs (cfg : Cfg) (top : List Comp) (pops : List Pop) (name id comp pop : String) (arrays : List Arr) :
    decodeILLeaf cfg top pops ⟨name, [("id", .str id), ("component", .str comp), ("population", .str pop)], arrays⟩ =
      ilBody top pops id comp pop arrays := by
  simp [decodeILLeaf, strAttr, lookupAttr]

theorem ilist_roundtrip (cfg : Cfg) (h1 : cfg.r 1 = 1) (hu : cfg.unweighted = 1) (top : List Comp) (pops : List Pop)
    (l : IList) (pop : Pop) (hpop : findPop pops l.pop = .ok pop) (hok : ILOK cfg l) :
    ∃ leaf l' objs, encodeIList cfg l = .ok leaf ∧ leaf.name = ilLeafName l.id ∧
      decodeILLeaf cfg top pops leaf = .ok (.il l', objs) ∧ (∀ c, some c ∈ objs → c ∈ top) ∧
      semIL l' = rIL cfg.r (semIL l) := by
  have hpid := findPop_id hpop
  have hne : (encRowsI cfg l).isEmpty = false := by
    have := hok.nonempty
    simp only [encRowsI, List.isEmpty_eq_false_iff, ne_eq, List.append_eq_nil_iff, List.map_eq_nil_iff]
    simpa using this
  have hne2 : ((l.inputs ++ l.inputWs).map (inDOf cfg.r)).isEmpty = false := by
    simpa using hok.nonempty
  refine ⟨⟨ilLeafName l.id, [("id", .str l.id), ("component", .str l.comp), ("population", .str l.pop)],
            [⟨l.id, ilCols (wFlagI l), encRowsI cfg l⟩]⟩,
          buildIL l.id l.comp l.pop pop ((l.inputs ++ l.inputWs).map (inDOf cfg.r)), [getById top l.comp], ?_, rfl, ?_, ?_, ?_⟩
  · unfold encodeIList
    show (if (encRowsI cfg l).isEmpty then _ else _) = _
    rw [hne]; rfl
  · rw [decodeILLeaf_attrs]
    exact ilBody_one top pops _ _ _ _ _ pop (decode_encRowsI cfg h1 hu l hok) hne2 hpop
  · intro c hc
    simp only [List.mem_cons, List.mem_nil_iff, or_false] at hc
    exact getById_mem hc.symm
  · simp only [buildIL, semIL, rIL, canonInps]
    rw [List.map_append]
    simp only [List.map_map]
    congr 1
    congr 1
    · apply filter_map_sem
      · intro i hi
        simp only [inDOf, rInp, semInp, wOfI]
        exact decide_eq_decide.mpr Iff.rfl
      · intro i hi hw
        have hw' : cfg.r (wOfI i) = 1 := of_decide_eq_true hw
        have := semInp_mk cfg.r l.pop pop hpid i (hok.inp i hi).ref none (by simpa using hw'.symm)
        have e : ({ mkInp pop (inDOf cfg.r i) with weight := none } : Inp) = mkInp pop (inDOf cfg.r i) := rfl
        rw [e] at this
        exact this
    · apply filter_map_sem
      · intro i hi
        simp only [inDOf, rInp, semInp, wOfI]
        exact decide_eq_decide.mpr Iff.rfl
      · intro i hi _
        exact semInp_mk cfg.r l.pop pop hpid i (hok.inp i hi).ref (some (cfg.r (wOfI i))) (by simp)

end NmlVerif.Hdf5

/-! ## populations -/

namespace NmlVerif.Hdf5
set_option linter.unusedSimpArgs false

theorem prop_prefix (t : String) : propPrefix.toList.isPrefixOf ("property:" ++ t).toList = true := by
  simp [propPrefix, String.toList_append]

theorem prop_drop (t : String) : String.ofList (("property:" ++ t).toList.drop propPrefix.length) = t := by
  have hl : propPrefix.length = 9 := by decide
  rw [hl]
  simp [String.toList_append]

theorem prop_ne (t k : String) (hk : k = "id" ∨ k = "component" ∨ k = "size" ∨ k = "type") : "property:" ++ t ≠ k := by
  intro h
  have := congrArg String.toList h
  rcases hk with rfl | rfl | rfl | rfl <;> simp [String.toList_append] at this

theorem prop_inj (t u : String) (h : "property:" ++ t = "property:" ++ u) : t = u := by
  have := congrArg String.toList h
  simp [String.toList_append] at this
  exact String.toList_inj.mp this

def hasKey (a : Attrs) (k : String) : Prop := ∃ kv ∈ a, kv.1 = k

theorem setAttr_new (a : Attrs) (k : String) (v : AttrV) (h : ¬ hasKey a k) : setAttr a k v = a ++ [(k, v)] := by
  unfold setAttr
  have : a.any (fun p => p.1 = k) = false := by
    rw [List.any_eq_false]
    intro kv hkv
    simp only [decide_eq_true_eq]
    intro he
    exact h ⟨kv, hkv, he⟩
  simp [this]

theorem lookupAttr_skip (a b : Attrs) (k : String) (h : ¬ hasKey a k) : lookupAttr (a ++ b) k = lookupAttr b k := by
  unfold lookupAttr
  rw [List.find?_append]
  have : a.find? (fun p => p.1 = k) = none := by
    rw [List.find?_eq_none]
    intro kv hkv
    simp only [decide_eq_true_eq]
    intro he
    exact h ⟨kv, hkv, he⟩
  simp [this]

def propAttrs (props : List (String × String)) : Attrs := props.map (fun kv => ("property:" ++ kv.1, AttrV.str kv.2))

theorem hasKey_propAttrs {props : List (String × String)} {k : String} (h : hasKey (propAttrs props) k) :
    ∃ t, t ∈ props.map (·.1) ∧ k = "property:" ++ t := by
  obtain ⟨kv, hkv, he⟩ := h
  simp only [propAttrs, List.mem_map] at hkv
  obtain ⟨q, hq, rfl⟩ := hkv
  exact ⟨q.1, List.mem_map.mpr ⟨q, hq, rfl⟩, he.symm⟩

theorem fold_setAttr (a0 : Attrs) (h0 : ∀ t, ¬ hasKey a0 ("property:" ++ t)) :
    ∀ (props done : List (String × String)), ((done ++ props).map (·.1)).Nodup →
      props.foldl (fun a kv => setAttr a ("property:" ++ kv.1) (.str kv.2)) (a0 ++ propAttrs done) =
        a0 ++ propAttrs (done ++ props)
  | [], done, _ => by simp
  | kv :: rest, done, hnd => by
    simp only [List.foldl_cons]
    have hnew : ¬ hasKey (a0 ++ propAttrs done) ("property:" ++ kv.1) := by
      rintro ⟨x, hx, he⟩
      rcases List.mem_append.mp hx with hx | hx
      · exact h0 kv.1 ⟨x, hx, he⟩
      · obtain ⟨t, ht, hk⟩ := hasKey_propAttrs ⟨x, hx, he⟩
        have htk : t = kv.1 := (prop_inj _ _ hk).symm
        subst htk
        simp only [List.map_append, List.map_cons] at hnd
        have := (List.nodup_append.mp hnd).2.2
        exact this _ ht _ (by simp) rfl
    rw [setAttr_new _ _ _ hnew]
    have e : a0 ++ propAttrs done ++ [("property:" ++ kv.1, AttrV.str kv.2)] = a0 ++ propAttrs (done ++ [kv]) := by
      simp [propAttrs]
    rw [e]
    have := fold_setAttr a0 h0 rest (done ++ [kv]) (by simpa using hnd)
    simpa using this


/-- instance ids are the row numbers (the table has no id column) -/
def IdsAreIndex : Nat → List Inst → Prop
  | _, [] => True
  | n, i :: is => i.id = (n : Int) ∧ IdsAreIndex (n + 1) is

structure PopOK (cfg : Cfg) (p : Pop) : Prop where
  sized : p.insts = [] → ∃ n, p.size = some n
  ids : IdsAreIndex 0 p.insts
  tagsNodup : (p.props.map (·.1)).Nodup
  tagsCut : ∀ kv ∈ p.props, cutTag cfg kv.1 = kv.1

def baseAttrs (p : Pop) : Attrs := [("id", .str p.id), ("component", .str p.comp)]

theorem base_noprop (p : Pop) (t : String) : ¬ hasKey (baseAttrs p) ("property:" ++ t) := by
  rintro ⟨kv, hkv, he⟩
  simp only [baseAttrs, List.mem_cons, List.mem_nil_iff, or_false] at hkv
  rcases hkv with rfl | rfl
  · exact prop_ne t "id" (Or.inl rfl) he.symm
  · exact prop_ne t "component" (Or.inr (Or.inl rfl)) he.symm

theorem nokey_a1 (p : Pop) (k : String) (hk : k = "size" ∨ k = "type") : ¬ hasKey (baseAttrs p ++ propAttrs p.props) k := by
  rintro ⟨kv, hkv, he⟩
  rcases List.mem_append.mp hkv with hkv | hkv
  · simp only [baseAttrs, List.mem_cons, List.mem_nil_iff, or_false] at hkv
    rcases hkv with rfl | rfl <;> rcases hk with rfl | rfl <;> simp at he
  · obtain ⟨t, _, hkt⟩ := hasKey_propAttrs ⟨kv, hkv, he⟩
    rcases hk with rfl | rfl
    · exact prop_ne t "size" (by simp) hkt.symm
    · exact prop_ne t "type" (by simp) hkt.symm

theorem filterMap_id_of_forall {α : Type} (f : α → Option α) : ∀ (l : List α), (∀ a ∈ l, f a = some a) → l.filterMap f = l
  | [], _ => rfl
  | a :: as, h => by
    rw [List.filterMap_cons, h a (by simp)]
    simp only
    rw [filterMap_id_of_forall f as (fun b hb => h b (by simp [hb]))]

theorem propsOf_eq (cfg : Cfg) (p : Pop) (tail : Attrs) (hcut : ∀ kv ∈ p.props, cutTag cfg kv.1 = kv.1)
    (htail : ∀ kv ∈ tail, propPrefix.toList.isPrefixOf kv.1.toList = false) :
    propsOf cfg (baseAttrs p ++ propAttrs p.props ++ tail) = p.props := by
  unfold propsOf
  rw [List.filterMap_append, List.filterMap_append]
  have h1 : (baseAttrs p).filterMap (fun kv =>
      if propPrefix.toList.isPrefixOf kv.1.toList then
        some (cutTag cfg (String.ofList (kv.1.toList.drop propPrefix.length)), (strAttr cfg [kv] kv.1).getD "None")
      else none) = [] := by
    simp [baseAttrs, propPrefix]
  have h3 : tail.filterMap (fun kv =>
      if propPrefix.toList.isPrefixOf kv.1.toList then
        some (cutTag cfg (String.ofList (kv.1.toList.drop propPrefix.length)), (strAttr cfg [kv] kv.1).getD "None")
      else none) = [] := by
    rw [List.filterMap_eq_nil_iff]
    intro kv hkv
    simp [htail kv hkv]
  rw [h1, h3]
  simp only [List.nil_append, List.append_nil, propAttrs, List.filterMap_map]
  have : ∀ kv ∈ p.props, ((fun kv : String × AttrV =>
      if propPrefix.toList.isPrefixOf kv.1.toList then
        some (cutTag cfg (String.ofList (kv.1.toList.drop propPrefix.length)), (strAttr cfg [kv] kv.1).getD "None")
      else none) ∘ (fun kv : String × String => ("property:" ++ kv.1, AttrV.str kv.2))) kv = some kv := by
    intro kv hkv
    simp only [Function.comp, prop_prefix, if_true, prop_drop, hcut kv hkv]
    simp [strAttr, lookupAttr]
  exact filterMap_id_of_forall _ _ this


theorem decode_locRow (cfg : Cfg) (k : Nat) (i : Inst) :
    decodeLocRow none (some 0) (some 1) (some 2) k [cfg.r i.x, cfg.r i.y, cfg.r i.z] =
      .ok ⟨(k : Int), cfg.r i.x, cfg.r i.y, cfg.r i.z⟩ := by
  simp [decodeLocRow, cell, cellReq, bind, Except.bind, pure, Except.pure]

def locRows (cfg : Cfg) (p : Pop) : List (List Rat) := p.insts.map (fun i => [cfg.r i.x, cfg.r i.y, cfg.r i.z])

def decInsts (cfg : Cfg) (p : Pop) : List Inst := zipIdx (fun k i => (⟨(k : Int), cfg.r i.x, cfg.r i.y, cfg.r i.z⟩ : Inst)) 0 p.insts

theorem decodeLocs_enc (cfg : Cfg) (p : Pop) (hne : p.insts ≠ []) :
    decodeLocs cfg ⟨p.id, locCols, locRows cfg p⟩ = .ok (decInsts cfg p) := by
  obtain ⟨e0, e1, e2, e3⟩ := colIdx_loc
  have hidx : locIdxs cfg ⟨p.id, locCols, locRows cfg p⟩ = .ok (none, some 0, some 1, some 2) := by
    unfold locIdxs
    simp only [e0, e1, e2, e3]
    cases hi : p.insts with
    | nil => exact absurd hi hne
    | cons i is => simp [locRows, hi]
  unfold decodeLocs
  rw [hidx]
  show mapIdxE (decodeLocRow none (some 0) (some 1) (some 2)) 0 (locRows cfg p) = .ok (decInsts cfg p)
  unfold locRows decInsts
  apply mapIdxE_map_ok
  intro k i _
  exact decode_locRow cfg k i

theorem ids_zipIdx (g : Nat → Inst → Inst) (hg : ∀ k i, (g k i).id = (k : Int)) :
    ∀ (n : Nat) (l : List Inst), IdsAreIndex n l → (zipIdx g n l).map (·.id) = l.map (·.id)
  | _, [], _ => rfl
  | n, i :: is, h => by
    simp only [zipIdx, List.map_cons, hg, h.1]
    rw [ids_zipIdx g hg (n + 1) is h.2]

/-- the attributes the writer leaves on a population group -/
def popAttrs (p : Pop) : Attrs :=
  baseAttrs p ++ propAttrs p.props ++
    (if p.insts.isEmpty then [("size", match p.size with | some n => AttrV.int n | none => AttrV.none)]
     else [("size", AttrV.int p.insts.length), ("type", AttrV.str "populationList")])

theorem encodePop_eq (cfg : Cfg) (p : Pop) (hok : PopOK cfg p) :
    encodePop cfg p = .ok ⟨popLeafName p.id, popAttrs p,
      if p.insts.isEmpty then [] else [⟨p.id, locCols, locRows cfg p⟩]⟩ := by
  have hf := fold_setAttr (baseAttrs p) (base_noprop p) p.props [] (by simpa using hok.tagsNodup)
  simp only [propAttrs, List.map_nil, List.append_nil, List.nil_append] at hf
  unfold encodePop popAttrs
  simp only [← baseAttrs.eq_1] at *
  cases hi : p.insts.isEmpty
  · simp only [Bool.false_eq_true, if_false]
    have hfold : List.foldl (fun a kv => setAttr a ("property:" ++ kv.1) (AttrV.str kv.2)) (baseAttrs p) p.props =
        baseAttrs p ++ propAttrs p.props := hf
    rw [hfold, setAttr_new _ "size" _ (nokey_a1 p "size" (Or.inl rfl))]
    rw [setAttr_new _ "type" _ (by
      rintro ⟨kv, hkv, he⟩
      rcases List.mem_append.mp hkv with hkv | hkv
      · exact nokey_a1 p "type" (Or.inr rfl) ⟨kv, hkv, he⟩
      · simp only [List.mem_cons, List.mem_nil_iff, or_false] at hkv
        subst hkv
        simp at he)]
    simp [locRows]
  · simp only [if_true]
    have hfold : List.foldl (fun a kv => setAttr a ("property:" ++ kv.1) (AttrV.str kv.2)) (baseAttrs p) p.props =
        baseAttrs p ++ propAttrs p.props := hf
    rw [hfold, setAttr_new _ "size" _ (nokey_a1 p "size" (Or.inl rfl))]
    rfl


theorem pop_roundtrip (cfg : Cfg) (top : List Comp) (p : Pop) (hok : PopOK cfg p) :
    ∃ leaf p', encodePop cfg p = .ok leaf ∧ leaf.name = popLeafName p.id ∧
      decodePop cfg top leaf = .ok (p', getById top p.comp) ∧
      p'.id = p.id ∧ p'.comp = p.comp ∧ (p'.insts = [] ↔ p.insts = []) ∧
      semPop p' = rPop cfg.r (semPop p) := by
  rw [encodePop_eq cfg p hok]
  have hid : strAttr cfg (popAttrs p) "id" = some p.id := by
    simp [popAttrs, baseAttrs, strAttr, lookupAttr]
  have hcomp : strAttr cfg (popAttrs p) "component" = some p.comp := by
    simp [popAttrs, baseAttrs, strAttr, lookupAttr]
  have hprops : propsOf cfg (popAttrs p) = p.props := by
    unfold popAttrs
    apply propsOf_eq cfg p _ hok.tagsCut
    intro kv hkv
    split at hkv
    · simp only [List.mem_cons, List.mem_nil_iff, or_false] at hkv
      subst hkv; show propPrefix.toList.isPrefixOf "size".toList = false; decide
    · simp only [List.mem_cons, List.mem_nil_iff, or_false] at hkv
      rcases hkv with rfl | rfl
      · show propPrefix.toList.isPrefixOf "size".toList = false; decide
      · show propPrefix.toList.isPrefixOf "type".toList = false; decide
  cases hi : p.insts.isEmpty
  · -- instance based
    have hne : p.insts ≠ [] := by intro h; simp [h] at hi
    have hd : (decInsts cfg p).isEmpty = false := by
      have hl : (decInsts cfg p).length = p.insts.length := zipIdx_length _ _ _
      cases hdd : decInsts cfg p with
      | nil => rw [hdd] at hl; exact absurd (List.eq_nil_of_length_eq_zero hl.symm) hne
      | cons _ _ => rfl
    refine ⟨_, ⟨p.id, p.comp, some (p.insts.length : Int), some "populationList", decInsts cfg p, p.props⟩,
      rfl, rfl, ?_, rfl, rfl, ?_, ?_⟩
    · simp only [decodePop, hid, hcomp, hprops, Bool.false_eq_true, if_false, popSize, popInsts, List.find?,
        decide_true, decodeLocs_enc cfg p hne, hd]
      simp [locRows]
    · constructor
      · intro h; exact absurd h (by simpa using hd)
      · intro h; exact absurd h hne
    · simp only [semPop, rPop, hd, hi, Bool.false_eq_true, if_false]
      have hl : (decInsts cfg p).length = p.insts.length := zipIdx_length _ _ _
      congr 1
      · rw [hl]
      · exact ids_zipIdx _ (fun _ _ => rfl) 0 p.insts hok.ids
      · rw [List.map_map]
        exact map_zipIdx _ _ _ 0 p.insts (fun _ _ _ => rfl)
  · -- sized
    have he : p.insts = [] := by simpa using hi
    obtain ⟨n, hn⟩ := hok.sized he
    have hsz : lookupAttr (popAttrs p) "size" = some (.int n) := by
      unfold popAttrs
      rw [lookupAttr_skip _ _ _ (nokey_a1 p "size" (Or.inl rfl))]
      simp [hi, hn, lookupAttr]
    refine ⟨_, ⟨p.id, p.comp, some n, none, [], p.props⟩, rfl, rfl, ?_, rfl, rfl, by simp [he], ?_⟩
    · simp only [decodePop, hid, hcomp, hprops, if_true, popSize, popInsts, List.find?, hsz]
      simp
    · simp [semPop, rPop, he, hn]

end NmlVerif.Hdf5

namespace NmlVerif.Hdf5
set_option linter.unusedSimpArgs false

/-! ## composition at network level -/

inductive SItem where
  | proj (p : SemProj)
  | eproj (p : SemProj)
  | cproj (p : SemProj)
  | il (l : SemIL)
  | nothing

def semItem : Item → SItem
  | .proj p => .proj (semProj p)
  | .eproj p => .eproj (semGProj p)
  | .cproj p => .cproj (semGProj p)
  | .il l => .il (semIL l)
  | .nothing => .nothing

def SItem.proj? : SItem → Option SemProj | .proj p => some p | _ => none
def SItem.eproj? : SItem → Option SemProj | .eproj p => some p | _ => none
def SItem.cproj? : SItem → Option SemProj | .cproj p => some p | _ => none
def SItem.il? : SItem → Option SemIL | .il p => some p | _ => none

theorem sel_proj (items : List Item) :
    (items.filterMap Item.proj?).map semProj = (items.map semItem).filterMap SItem.proj? := by
  induction items with
  | nil => rfl
  | cons it rest ih =>
    cases it <;> simp only [List.filterMap_cons, List.map_cons, semItem, Item.proj?, SItem.proj?, ih]

theorem sel_eproj (items : List Item) :
    (items.filterMap Item.eproj?).map semGProj = (items.map semItem).filterMap SItem.eproj? := by
  induction items with
  | nil => rfl
  | cons it rest ih =>
    cases it <;> simp only [List.filterMap_cons, List.map_cons, semItem, Item.eproj?, SItem.eproj?, ih]

theorem sel_cproj (items : List Item) :
    (items.filterMap Item.cproj?).map semGProj = (items.map semItem).filterMap SItem.cproj? := by
  induction items with
  | nil => rfl
  | cons it rest ih =>
    cases it <;> simp only [List.filterMap_cons, List.map_cons, semItem, Item.cproj?, SItem.cproj?, ih]

theorem sel_il (items : List Item) :
    (items.filterMap Item.il?).map semIL = (items.map semItem).filterMap SItem.il? := by
  induction items with
  | nil => rfl
  | cons it rest ih =>
    cases it <;> simp only [List.filterMap_cons, List.map_cons, semItem, Item.il?, SItem.il?, ih]

theorem collect_ok : ∀ (seen : List String) (bodies : List (String × Except Err Leaf)) (leaves : List Leaf),
    bodies.map (·.2) = leaves.map Except.ok → (bodies.map (·.1)).Nodup → (∀ b ∈ bodies, b.1 ∉ seen) →
    collect seen bodies = .ok leaves
  | _, [], leaves, h, _, _ => by
    cases leaves with
    | nil => rfl
    | cons _ _ => simp at h
  | seen, (nm, body) :: rest, leaves, h, hnd, hs => by
    cases leaves with
    | nil => simp at h
    | cons l ls =>
      simp only [List.map_cons, List.cons.injEq] at h
      obtain ⟨hb, hrest⟩ := h
      subst hb
      have hns : nm ∉ seen := hs (nm, .ok l) (by simp)
      simp only [List.map_cons, List.nodup_cons] at hnd
      have ih := collect_ok (nm :: seen) rest ls hrest hnd.2 (by
        intro b hb hmem
        rcases List.mem_cons.mp hmem with he | hm
        · exact hnd.1 (he ▸ List.mem_map.mpr ⟨b, hb, rfl⟩)
        · exact hs b (by simp [hb]) hm)
      simp only [collect, hns, if_false, ih]

theorem seg_rt {X : Type} (enc : X → Except Err Leaf) (nameOf : X → String)
    (f : Leaf → Except Err (Item × List (Option Comp))) (G : X → SItem) (top : List Comp) :
    ∀ xs : List X,
      (∀ x ∈ xs, ∃ leaf it objs, enc x = .ok leaf ∧ leaf.name = nameOf x ∧ f leaf = .ok (it, objs) ∧
        (∀ c, some c ∈ objs → c ∈ top) ∧ semItem it = G x) →
      ∃ leaves ys, xs.map enc = leaves.map Except.ok ∧ leaves.map (·.name) = xs.map nameOf ∧ mapE f leaves = .ok ys ∧
        ys.map (fun y => semItem y.1) = xs.map G ∧ (∀ y ∈ ys, ∀ c, some c ∈ y.2 → c ∈ top)
  | [], _ => ⟨[], [], rfl, rfl, rfl, rfl, by simp⟩
  | x :: xs, h => by
    obtain ⟨leaf, it, objs, h1, h2, h3, h4, h5⟩ := h x (by simp)
    obtain ⟨leaves, ys, i1, i2, i3, i4, i5⟩ := seg_rt enc nameOf f G top xs (fun y hy => h y (by simp [hy]))
    refine ⟨leaf :: leaves, (it, objs) :: ys, by simp [h1, i1], by simp [h2, i2], by simp [mapE, h3, i3],
      by simp [h5, i4], ?_⟩
    intro y hy c hc
    rcases List.mem_cons.mp hy with rfl | hy
    · exact h4 c hc
    · exact i5 y hy c hc


def PopsRel : List Pop → List Pop → Prop
  | [], [] => True
  | p :: ps, q :: qs => q.id = p.id ∧ (q.insts = [] ↔ p.insts = []) ∧ PopsRel ps qs
  | _, _ => False

theorem findPop_rel : ∀ (ps qs : List Pop) (id : String) (p : Pop), PopsRel ps qs →
    ps.find? (fun p => p.id = id) = some p → ∃ q, findPop qs id = .ok q ∧ (q.insts = [] ↔ p.insts = [])
  | [], _, _, _, _, h => by simp at h
  | p0 :: ps, [], _, _, hr, _ => by simp [PopsRel] at hr
  | p0 :: ps, q0 :: qs, id, p, hr, h => by
    obtain ⟨hid, hins, hrest⟩ := hr
    simp only [List.find?_cons] at h
    by_cases he : p0.id = id
    · simp only [he, decide_true] at h
      cases h
      exact ⟨q0, by simp [findPop, List.find?_cons, hid, he], hins⟩
    · simp only [he, decide_false] at h
      obtain ⟨q, hq, hqi⟩ := findPop_rel ps qs id p hrest h
      refine ⟨q, ?_, hqi⟩
      unfold findPop at hq ⊢
      simp only [List.find?_cons, hid, he, decide_false]
      exact hq

theorem pops_rt (cfg : Cfg) (top : List Comp) :
    ∀ ps : List Pop, (∀ p ∈ ps, PopOK cfg p) →
      ∃ leaves ys, ps.map (encodePop cfg) = leaves.map Except.ok ∧
        leaves.map (·.name) = ps.map (fun p => popLeafName p.id) ∧
        mapE (decodePop cfg top) leaves = .ok ys ∧
        ys.map (fun y => semPop y.1) = ps.map (fun p => rPop cfg.r (semPop p)) ∧
        (∀ y ∈ ys, ∀ c, y.2 = some c → c ∈ top) ∧ PopsRel ps (ys.map (·.1))
  | [], _ => ⟨[], [], rfl, rfl, rfl, rfl, by simp, trivial⟩
  | p :: ps, h => by
    obtain ⟨leaf, p', h1, h2, h3, h4, _, h6, h7⟩ := pop_roundtrip cfg top p (h p (by simp))
    obtain ⟨leaves, ys, i1, i2, i3, i4, i5, i6⟩ := pops_rt cfg top ps (fun q hq => h q (by simp [hq]))
    refine ⟨leaf :: leaves, (p', getById top p.comp) :: ys, by simp [h1, i1], by simp [h2, i2], by simp [mapE, h3, i3],
      by simp [h7, i4], ?_, ?_⟩
    · intro y hy c hc
      rcases List.mem_cons.mp hy with rfl | hy
      · exact getById_mem hc
      · exact i5 y hy c hc
    · exact ⟨h4, h6, i6⟩

def popOf (n : Net) (id : String) : Option Pop := n.pops.find? (fun p => p.id = id)

def leafNames (n : Net) : List String :=
  n.pops.map (fun p => popLeafName p.id) ++
  (n.projs.map (fun p => projLeafName p.id) ++ n.eprojs.map (fun p => projLeafName p.id) ++
   n.cprojs.map (fun p => projLeafName p.id) ++ n.ilists.map (fun l => ilLeafName l.id))

structure GSupp (cfg : Cfg) (cont : Bool) (top : List Comp) (n : Net) (p : GProj) : Prop where
  ok : GOK cfg cont p
  rest : ∃ c0 a b, firstConn p = .ok c0 ∧ (∀ c ∈ p.all, c.syn = c0.syn ∧ c.preComp = c0.preComp) ∧
    popOf n p.pre = some a ∧ popOf n p.post = some b ∧
    (cont = true → ∃ cp, getById top c0.preComp = some cp) ∧
    (a.insts = [] → b.insts = [] → ∀ c ∈ p.all, cfg.r (wOf c) = 1)

structure NetOK (cfg : Cfg) (top : List Comp) (n : Net) : Prop where
  noSyn : n.nSynConn = 0
  noExp : n.nExplicit = 0
  pops : ∀ p ∈ n.pops, PopOK cfg p
  names : (leafNames n).Nodup
  kPop : ∀ p ∈ n.pops, kindOf cfg (popLeafName p.id) = .pop
  kProj : ∀ p ∈ n.projs, kindOf cfg (projLeafName p.id) = .proj
  kEProj : ∀ p ∈ n.eprojs, kindOf cfg (projLeafName p.id) = .proj
  kCProj : ∀ p ∈ n.cprojs, kindOf cfg (projLeafName p.id) = .proj
  kIL : ∀ l ∈ n.ilists, kindOf cfg (ilLeafName l.id) = .il
  projs : ∀ p ∈ n.projs, ProjOK cfg.r p ∧ ∃ a b, popOf n p.pre = some a ∧ popOf n p.post = some b
  eprojs : ∀ p ∈ n.eprojs, GSupp cfg false top n p
  cprojs : ∀ p ∈ n.cprojs, GSupp cfg true top n p
  ils : ∀ l ∈ n.ilists, ILOK cfg l ∧ ∃ a, popOf n l.pop = some a


structure CfgOK (cfg : Cfg) : Prop where
  half : cfg.r (1/2) = 1/2
  one : cfg.r 1 = 1
  zero : cfg.r 0 = 0
  unweighted : cfg.unweighted = 1
  idCol0 : cfg.idCol0 = true
  notesAlways : cfg.notesAlways = false

def GProjs (cont : Bool) (n : Net) : List GProj := if cont then n.cprojs else n.eprojs

theorem seg_projs (cfg : Cfg) (hc : CfgOK cfg) (top : List Comp) (n : Net) (hok : NetOK cfg top n) (pops' : List Pop)
    (hrel : PopsRel n.pops pops') :
    ∀ p ∈ n.projs, ∃ leaf it objs, encodeProj cfg p = .ok leaf ∧ leaf.name = projLeafName p.id ∧
      decodeOther cfg top pops' leaf = .ok (it, objs) ∧ (∀ c, some c ∈ objs → c ∈ top) ∧
      semItem it = SItem.proj (rProj cfg.r (semProj p)) := by
  intro p hp
  obtain ⟨hpok, a, b, ha, hb⟩ := hok.projs p hp
  obtain ⟨a', ha', _⟩ := findPop_rel _ _ _ _ hrel ha
  obtain ⟨b', hb', _⟩ := findPop_rel _ _ _ _ hrel hb
  obtain ⟨leaf, p', objs, h1, h2, h3, h4, h5⟩ :=
    proj_roundtrip cfg hc.half hc.one hc.zero hc.unweighted top pops' p a' b' ha' hb' hpok
  refine ⟨leaf, .proj p', objs, h1, h2, ?_, h4, by simp [semItem, h5]⟩
  simp only [decodeOther, h2, hok.kProj p hp, h3]

theorem seg_gprojs (cfg : Cfg) (hc : CfgOK cfg) (cont : Bool) (top : List Comp) (n : Net) (pops' : List Pop)
    (hrel : PopsRel n.pops pops') (ps : List GProj) (hk : ∀ p ∈ ps, kindOf cfg (projLeafName p.id) = .proj)
    (hs : ∀ p ∈ ps, GSupp cfg cont top n p) :
    ∀ p ∈ ps, ∃ leaf it objs, encodeGProj cfg cont p = .ok leaf ∧ leaf.name = projLeafName p.id ∧
      decodeOther cfg top pops' leaf = .ok (it, objs) ∧ (∀ c, some c ∈ objs → c ∈ top) ∧
      semItem it = (if cont then SItem.cproj (canonProj (rProj cfg.r (semGProj p)))
                    else SItem.eproj (canonProj (rProj cfg.r (semGProj p)))) := by
  intro p hp
  obtain ⟨hgok, c0, a, b, hf, huni, ha, hb, hdef, hnw⟩ := hs p hp
  obtain ⟨a', ha', hai⟩ := findPop_rel _ _ _ _ hrel ha
  obtain ⟨b', hb', hbi⟩ := findPop_rel _ _ _ _ hrel hb
  obtain ⟨leaf, p', objs, h1, h2, h3, h4, h5⟩ :=
    gproj_roundtrip cfg hc.one hc.zero hc.unweighted hc.idCol0 cont top pops' p c0 a' b' hf ha' hb' hgok huni hdef
      (fun x y => hnw (hai.mp x) (hbi.mp y))
  refine ⟨leaf, (if cont then Item.cproj p' else Item.eproj p'), objs, h1, h2, ?_, h4, ?_⟩
  · simp only [decodeOther, h2, hk p hp, h3]
  · cases cont <;> simp [semItem, h5]

theorem seg_ils (cfg : Cfg) (hc : CfgOK cfg) (top : List Comp) (n : Net) (hok : NetOK cfg top n) (pops' : List Pop)
    (hrel : PopsRel n.pops pops') :
    ∀ l ∈ n.ilists, ∃ leaf it objs, encodeIList cfg l = .ok leaf ∧ leaf.name = ilLeafName l.id ∧
      decodeOther cfg top pops' leaf = .ok (it, objs) ∧ (∀ c, some c ∈ objs → c ∈ top) ∧
      semItem it = SItem.il (rIL cfg.r (semIL l)) := by
  intro l hl
  obtain ⟨hlok, a, ha⟩ := hok.ils l hl
  obtain ⟨a', ha', _⟩ := findPop_rel _ _ _ _ hrel ha
  obtain ⟨leaf, l', objs, h1, h2, h3, h4, h5⟩ := ilist_roundtrip cfg hc.one hc.unweighted top pops' l a' ha' hlok
  refine ⟨leaf, .il l', objs, h1, h2, ?_, h4, by simp [semItem, h5]⟩
  simp only [decodeOther, h2, hok.kIL l hl, h3]


theorem kinds_of_names {X : Type} (xs : List X) (nameOf : X → String) (leaves : List Leaf)
    (h : leaves.map (·.name) = xs.map nameOf) (K : Kind) (hk : ∀ x ∈ xs, kindOf cfg (nameOf x) = K) :
    ∀ l ∈ leaves, kindOf cfg l.name = K := by
  intro l hl
  have : l.name ∈ leaves.map (·.name) := List.mem_map.mpr ⟨l, hl, rfl⟩
  rw [h] at this
  obtain ⟨x, hx, he⟩ := List.mem_map.mp this
  rw [← he]; exact hk x hx

theorem netAttrs_id (cfg : Cfg) (n : Net) :
    strAttr cfg ([("id", AttrV.str n.id)] ++ notesAttr cfg n.notes ++ tempAttr n.temperature) "id" = some n.id := by
  simp [strAttr, lookupAttr]

theorem netAttrs_notes (cfg : Cfg) (hna : cfg.notesAlways = false) (n : Net) :
    nonEmpty (strAttr cfg ([("id", AttrV.str n.id)] ++ notesAttr cfg n.notes ++ tempAttr n.temperature) "notes") =
      nonEmpty n.notes := by
  cases hn : n.notes with
  | none =>
    cases ht : n.temperature with
    | none => simp [strAttr, lookupAttr, notesAttr, tempAttr, nonEmpty, hna]
    | some t =>
      by_cases ht0 : t.length = 0 <;> simp [strAttr, lookupAttr, notesAttr, tempAttr, nonEmpty, hna, ht0]
  | some s => simp [strAttr, lookupAttr, notesAttr, nonEmpty]

theorem netAttrs_temp (cfg : Cfg) (hna : cfg.notesAlways = false) (n : Net) :
    nonEmpty (strAttr cfg ([("id", AttrV.str n.id)] ++ notesAttr cfg n.notes ++ tempAttr n.temperature) "temperature") =
      nonEmpty n.temperature := by
  cases hn : n.notes with
  | none =>
    cases ht : n.temperature with
    | none => simp [strAttr, lookupAttr, notesAttr, tempAttr, nonEmpty, hna]
    | some t =>
      by_cases ht0 : t.length = 0 <;> simp [strAttr, lookupAttr, notesAttr, tempAttr, nonEmpty, hna, ht0]
  | some s =>
    cases ht : n.temperature with
    | none => simp [strAttr, lookupAttr, notesAttr, tempAttr, nonEmpty, hna]
    | some t =>
      by_cases ht0 : t.length = 0 <;> simp [strAttr, lookupAttr, notesAttr, tempAttr, nonEmpty, hna, ht0]


theorem filterMap_none {α β : Type} (l : List α) : l.filterMap (fun _ => (none : Option β)) = [] := by
  induction l with
  | nil => rfl
  | cons a as ih => simp [List.filterMap_cons, ih]

theorem nonEmpty_idem (x : Option String) : nonEmpty (nonEmpty x) = nonEmpty x := by
  cases x with
  | none => rfl
  | some s => by_cases h : s.length = 0 <;> simp [nonEmpty, h]

theorem popBodies_snd (cfg : Cfg) (n : Net) : (popBodies cfg n).map (·.2) = n.pops.map (encodePop cfg) := by
  simp [popBodies, List.map_map, Function.comp_def]

theorem popBodies_fst (cfg : Cfg) (n : Net) : (popBodies cfg n).map (·.1) = n.pops.map (fun p => popLeafName p.id) := by
  simp [popBodies, List.map_map, Function.comp_def]

theorem otherBodies_snd (cfg : Cfg) (n : Net) : (otherBodies cfg n).map (·.2) =
    n.projs.map (encodeProj cfg) ++ n.eprojs.map (encodeGProj cfg false) ++ n.cprojs.map (encodeGProj cfg true) ++
      n.ilists.map (encodeIList cfg) := by
  simp [otherBodies, List.map_map, Function.comp_def]

theorem otherBodies_fst (cfg : Cfg) (n : Net) : (otherBodies cfg n).map (·.1) =
    n.projs.map (fun p => projLeafName p.id) ++ n.eprojs.map (fun p => projLeafName p.id) ++
      n.cprojs.map (fun p => projLeafName p.id) ++ n.ilists.map (fun l => ilLeafName l.id) := by
  simp [otherBodies, List.map_map, Function.comp_def]

theorem net_roundtrip (cfg : Cfg) (hc : CfgOK cfg) (top : List Comp) (n : Net) (hok : NetOK cfg top n) :
    ∃ g n' objs, encodeNet cfg n = .ok g ∧ decodeNet cfg top g = .ok (n', objs) ∧
      (∀ c, some c ∈ objs → c ∈ top) ∧ semNet n' = expectNet cfg.r (semNet n) := by
  obtain ⟨lpop, ys, p1, p2, p3, p4, p5, prel⟩ := pops_rt cfg top n.pops hok.pops
  obtain ⟨l1, y1, a1, a2, a3, a4, a5⟩ := seg_rt (encodeProj cfg) (fun p => projLeafName p.id)
    (decodeOther cfg top (ys.map (·.1))) (fun p => SItem.proj (rProj cfg.r (semProj p))) top n.projs
    (seg_projs cfg hc top n hok _ prel)
  obtain ⟨l2, y2, b1, b2, b3, b4, b5⟩ := seg_rt (encodeGProj cfg false) (fun p => projLeafName p.id)
    (decodeOther cfg top (ys.map (·.1))) (fun p => SItem.eproj (canonProj (rProj cfg.r (semGProj p)))) top n.eprojs
    (by simpa using seg_gprojs cfg hc false top n _ prel n.eprojs hok.kEProj hok.eprojs)
  obtain ⟨l3, y3, c1, c2, c3, c4, c5⟩ := seg_rt (encodeGProj cfg true) (fun p => projLeafName p.id)
    (decodeOther cfg top (ys.map (·.1))) (fun p => SItem.cproj (canonProj (rProj cfg.r (semGProj p)))) top n.cprojs
    (by simpa using seg_gprojs cfg hc true top n _ prel n.cprojs hok.kCProj hok.cprojs)
  obtain ⟨l4, y4, d1, d2, d3, d4, d5⟩ := seg_rt (encodeIList cfg) (fun l => ilLeafName l.id)
    (decodeOther cfg top (ys.map (·.1))) (fun l => SItem.il (rIL cfg.r (semIL l))) top n.ilists
    (seg_ils cfg hc top n hok _ prel)
  -- names
  have hnames := hok.names
  unfold leafNames at hnames
  obtain ⟨hnd1, hnd2, hdisj⟩ := List.nodup_append.mp hnames
  -- encode
  have e1 : collect [] (popBodies cfg n) = .ok lpop := by
    apply collect_ok
    · rw [popBodies_snd]; exact p1
    · rw [popBodies_fst]; exact hnd1
    · intro b _ h; cases h
  have e2 : collect ((popBodies cfg n).map (·.1)).reverse (otherBodies cfg n) = .ok (l1 ++ l2 ++ l3 ++ l4) := by
    apply collect_ok
    · rw [otherBodies_snd, a1, b1, c1, d1]; simp
    · rw [otherBodies_fst]; exact hnd2
    · intro b hb hmem
      have hb1 : b.1 ∈ (otherBodies cfg n).map (·.1) := List.mem_map.mpr ⟨b, hb, rfl⟩
      rw [otherBodies_fst] at hb1
      rw [List.mem_reverse, popBodies_fst] at hmem
      exact hdisj _ hmem _ hb1 rfl
  have hkp : ∀ l ∈ lpop, kindOf cfg l.name = .pop := kinds_of_names n.pops _ lpop p2 .pop hok.kPop
  have hko : ∀ l ∈ l1 ++ l2 ++ l3 ++ l4, kindOf cfg l.name = .proj ∨ kindOf cfg l.name = .il := by
    intro l hl
    simp only [List.mem_append] at hl
    rcases hl with ((hl | hl) | hl) | hl
    · exact Or.inl (kinds_of_names n.projs _ l1 a2 .proj hok.kProj l hl)
    · exact Or.inl (kinds_of_names n.eprojs _ l2 b2 .proj hok.kEProj l hl)
    · exact Or.inl (kinds_of_names n.cprojs _ l3 c2 .proj hok.kCProj l hl)
    · exact Or.inr (kinds_of_names n.ilists _ l4 d2 .il hok.kIL l hl)
  have hamb : (lpop ++ (l1 ++ l2 ++ l3 ++ l4)).any (fun l => kindOf cfg l.name = .ambiguous) = false := by
    rw [List.any_eq_false]
    intro l hl
    rcases List.mem_append.mp hl with hl | hl
    · simp [hkp l hl]
    · rcases hko l hl with h | h <;> simp [h]
  have hf1 : (lpop ++ (l1 ++ l2 ++ l3 ++ l4)).filter (fun l => kindOf cfg l.name = .pop) = lpop := by
    rw [List.filter_append, filter_all _ _ (fun l hl => by simp [hkp l hl]),
      filter_none _ _ (fun l hl => by rcases hko l hl with h | h <;> simp [h])]
    simp
  have hf2 : (lpop ++ (l1 ++ l2 ++ l3 ++ l4)).filter (fun l => kindOf cfg l.name ≠ .pop) = l1 ++ l2 ++ l3 ++ l4 := by
    rw [List.filter_append, filter_none _ _ (fun l hl => by simp [hkp l hl]),
      filter_all _ _ (fun l hl => by rcases hko l hl with h | h <;> simp [h])]
    simp
  have hm : mapE (decodeOther cfg top (ys.map (·.1))) (l1 ++ l2 ++ l3 ++ l4) = .ok (y1 ++ y2 ++ y3 ++ y4) :=
    mapE_append_ok _ _ _ _ (mapE_append_ok _ _ _ _ (mapE_append_ok _ _ _ _ a3 b3) c3) d3
  refine ⟨⟨[("id", .str n.id)] ++ notesAttr cfg n.notes ++ tempAttr n.temperature, lpop ++ (l1 ++ l2 ++ l3 ++ l4)⟩,
    { id := n.id,
      notes := nonEmpty (strAttr cfg ([("id", .str n.id)] ++ notesAttr cfg n.notes ++ tempAttr n.temperature) "notes"),
      temperature := strAttr cfg ([("id", .str n.id)] ++ notesAttr cfg n.notes ++ tempAttr n.temperature) "temperature",
      pops := ys.map (·.1),
      projs := ((y1 ++ y2 ++ y3 ++ y4).map (·.1)).filterMap Item.proj?,
      eprojs := ((y1 ++ y2 ++ y3 ++ y4).map (·.1)).filterMap Item.eproj?,
      cprojs := ((y1 ++ y2 ++ y3 ++ y4).map (·.1)).filterMap Item.cproj?,
      ilists := ((y1 ++ y2 ++ y3 ++ y4).map (·.1)).filterMap Item.il? },
    ys.map (·.2) ++ ((y1 ++ y2 ++ y3 ++ y4).map (·.2)).flatten, ?_, ?_, ?_, ?_⟩
  · simp only [encodeNet, e1, e2, hok.noSyn, hok.noExp, Nat.lt_irrefl, if_false]
  · simp only [decodeNet, hamb, netAttrs_id, hf1, hf2, p3, hm, bind, Except.bind, pure, Except.pure,
      Bool.false_eq_true, if_false]
  · intro c hc
    rcases List.mem_append.mp hc with hc | hc
    · obtain ⟨y, hy, he⟩ := List.mem_map.mp hc
      exact p5 y hy c he
    · obtain ⟨os, hos, hco⟩ := List.mem_flatten.mp hc
      obtain ⟨y, hy, rfl⟩ := List.mem_map.mp hos
      simp only [List.mem_append] at hy
      rcases hy with ((hy | hy) | hy) | hy
      · exact a5 y hy c hco
      · exact b5 y hy c hco
      · exact c5 y hy c hco
      · exact d5 y hy c hco
  · have hitems : ((y1 ++ y2 ++ y3 ++ y4).map (·.1)).map semItem =
        n.projs.map (fun p => SItem.proj (rProj cfg.r (semProj p))) ++
        n.eprojs.map (fun p => SItem.eproj (canonProj (rProj cfg.r (semGProj p)))) ++
        n.cprojs.map (fun p => SItem.cproj (canonProj (rProj cfg.r (semGProj p)))) ++
        n.ilists.map (fun l => SItem.il (rIL cfg.r (semIL l))) := by
      rw [List.map_map]
      simp only [List.map_append]
      rw [← a4, ← b4, ← c4, ← d4]
      rfl
    simp only [semNet, expectNet, sel_proj, sel_eproj, sel_cproj, sel_il, hitems, nonEmpty_idem,
      netAttrs_notes cfg hc.notesAlways, netAttrs_temp cfg hc.notesAlways, List.map_map]
    congr 1
    all_goals first
      | (rw [← p4, List.map_map]; rfl)
      | simp [List.filterMap_append, List.filterMap_map, Function.comp_def, SItem.proj?, SItem.eproj?, SItem.cproj?,
          SItem.il?, filterMap_none]

end NmlVerif.Hdf5

namespace NmlVerif.Hdf5
set_option linter.unusedSimpArgs false

/-! ## document level: attributes and the merge of the embedded top-level components -/

theorem mem_addOne {tgt : List Comp} {c x : Comp} (h : x ∈ addOne tgt c) : x ∈ tgt ∨ x = c := by
  unfold addOne at h
  split at h
  · exact Or.inl h
  · rcases List.mem_append.mp h with h | h
    · exact Or.inl h
    · exact Or.inr (by simpa using h)

theorem sub_addOne (tgt : List Comp) (c : Comp) : ∀ x ∈ tgt, x ∈ addOne tgt c := by
  intro x hx
  unfold addOne
  split
  · exact hx
  · exact List.mem_append.mpr (Or.inl hx)

theorem key_addOne (tgt : List Comp) (c : Comp) : ∃ x ∈ addOne tgt c, x.key = c.key := by
  unfold addOne
  split
  · rename_i h
    obtain ⟨x, hx, hk⟩ := List.any_eq_true.mp h
    exact ⟨x, hx, by simpa using hk⟩
  · exact ⟨c, by simp, rfl⟩

theorem mem_addAll : ∀ (src tgt : List Comp) (x : Comp), x ∈ addAll src tgt → x ∈ src ∨ x ∈ tgt
  | [], _, _, h => Or.inr h
  | c :: cs, tgt, x, h => by
    have h' : x ∈ addAll cs (addOne tgt c) := h
    rcases mem_addAll cs _ x h' with h1 | h1
    · exact Or.inl (by simp [h1])
    · rcases mem_addOne h1 with h2 | h2
      · exact Or.inr h2
      · exact Or.inl (by simp [h2])

theorem sub_addAll : ∀ (src tgt : List Comp), ∀ x ∈ tgt, x ∈ addAll src tgt
  | [], _, _, h => h
  | c :: cs, tgt, x, h => sub_addAll cs (addOne tgt c) x (sub_addOne tgt c x h)

theorem key_addAll : ∀ (src tgt : List Comp), ∀ c ∈ src, ∃ x ∈ addAll src tgt, x.key = c.key
  | [], _, _, h => by cases h
  | c0 :: cs, tgt, c, h => by
    rcases List.mem_cons.mp h with rfl | h
    · obtain ⟨x, hx, hk⟩ := key_addOne tgt c
      exact ⟨x, sub_addAll cs _ x hx, hk⟩
    · exact key_addAll cs (addOne tgt c0) c h

theorem mem_foldl_appendObj : ∀ (objs : List (Option Comp)) (acc : List Comp) (x : Comp),
    x ∈ objs.foldl appendObj acc → x ∈ acc ∨ some x ∈ objs
  | [], _, _, h => Or.inl h
  | o :: os, acc, x, h => by
    rcases mem_foldl_appendObj os (appendObj acc o) x h with h1 | h1
    · cases o with
      | none => exact Or.inl h1
      | some c =>
        simp only [appendObj] at h1
        split at h1
        · exact Or.inl h1
        · rcases List.mem_append.mp h1 with h2 | h2
          · exact Or.inl h2
          · exact Or.inr (by simp at h2; simp [h2])
    · exact Or.inr (by simp [h1])

theorem key_inj_of_nodup : ∀ (l : List Comp), (l.map Comp.key).Nodup → ∀ a ∈ l, ∀ b ∈ l, a.key = b.key → a = b
  | [], _, _, h, _, _, _ => by cases h
  | c :: cs, hnd, a, ha, b, hb, hk => by
    simp only [List.map_cons, List.nodup_cons] at hnd
    have hnot : ∀ x ∈ cs, x.key ≠ c.key := by
      intro x hx he
      exact hnd.1 (he ▸ List.mem_map.mpr ⟨x, hx, rfl⟩)
    rcases List.mem_cons.mp ha with ha' | ha'
    · rcases List.mem_cons.mp hb with hb' | hb'
      · rw [ha', hb']
      · exact absurd (by rw [← hk, ha']) (hnot b hb')
    · rcases List.mem_cons.mp hb with hb' | hb'
      · exact absurd (by rw [hk, hb']) (hnot a ha')
      · exact key_inj_of_nodup cs hnd.2 a ha' b hb' hk

/-- the merged component list holds exactly the embedded components -/
theorem top_merge (top : List Comp) (objs : List (Option Comp)) (hobjs : ∀ c, some c ∈ objs → c ∈ top) :
    (∀ c, c ∈ addAll top (objs.foldl appendObj []) → c ∈ top) ∧
    ((top.map Comp.key).Nodup → ∀ c ∈ top, c ∈ addAll top (objs.foldl appendObj [])) := by
  have hsub : ∀ c, c ∈ addAll top (objs.foldl appendObj []) → c ∈ top := by
    intro c hc
    rcases mem_addAll _ _ c hc with h | h
    · exact h
    · rcases mem_foldl_appendObj objs [] c h with h | h
      · cases h
      · exact hobjs c h
  refine ⟨hsub, ?_⟩
  intro hnd c hc
  obtain ⟨x, hx, hk⟩ := key_addAll top (objs.foldl appendObj []) c hc
  have := key_inj_of_nodup top hnd x (hsub x hx) c hc hk
  rw [← this]; exact hx

theorem docAttrs_id (cfg : Cfg) (d : Doc) : strAttr cfg ([("id", AttrV.str d.id)] ++ notesAttr cfg d.notes) "id" = some d.id := by
  simp [strAttr, lookupAttr]

theorem docAttrs_notes (cfg : Cfg) (hna : cfg.notesAlways = false) (d : Doc) :
    nonEmpty (strAttr cfg ([("id", AttrV.str d.id)] ++ notesAttr cfg d.notes) "notes") = nonEmpty d.notes := by
  cases hn : d.notes <;> simp [strAttr, lookupAttr, notesAttr, nonEmpty, hna]

/-- the constructs the format holds (and the present code handles): at most one network, and that one `NetOK` -/
def Supported (cfg : Cfg) (d : Doc) : Prop := d.nets = [] ∨ ∃ n, d.nets = [n] ∧ NetOK cfg d.top n

theorem doc_roundtrip (cfg : Cfg) (hc : CfgOK cfg) (d : Doc) (hs : Supported cfg d) :
    ∃ d', roundTrip cfg d = .ok d' ∧ sem d' = expect cfg.r (sem d) ∧ (∀ c, c ∈ d'.top → c ∈ d.top) ∧
      ((d.top.map Comp.key).Nodup → ∀ c ∈ d.top, c ∈ d'.top) := by
  rcases hs with hn | ⟨n, hn, hok⟩
  · have := top_merge d.top [] (by simp)
    refine ⟨{ id := d.id, notes := nonEmpty (strAttr cfg ([("id", AttrV.str d.id)] ++ notesAttr cfg d.notes) "notes"),
              nets := [], top := addAll d.top ([].foldl appendObj []) }, ?_, ?_, this.1, this.2⟩
    · simp only [roundTrip, encodeDoc, hn, decodeDoc, docAttrs_id, bind, Except.bind, pure, Except.pure, Option.getD_some]
    · have hnotes := docAttrs_notes cfg hc.notesAlways d
      simp only [List.singleton_append] at hnotes
      simp [sem, expect, hn, nonEmpty_idem, hnotes]
  · obtain ⟨g, n', objs, h1, h2, h3, h4⟩ := net_roundtrip cfg hc d.top n hok
    have := top_merge d.top objs h3
    refine ⟨{ id := d.id, notes := nonEmpty (strAttr cfg ([("id", AttrV.str d.id)] ++ notesAttr cfg d.notes) "notes"),
              nets := [n'], top := addAll d.top (objs.foldl appendObj []) }, ?_, ?_, this.1, this.2⟩
    · simp only [roundTrip, encodeDoc, hn, h1, decodeDoc, docAttrs_id, h2, bind, Except.bind, pure, Except.pure,
        Option.getD_some]
    · have hnotes := docAttrs_notes cfg hc.notesAlways d
      simp only [List.singleton_append] at hnotes
      simp [sem, expect, hn, nonEmpty_idem, hnotes, h4]

end NmlVerif.Hdf5

namespace NmlVerif.Hdf5
set_option linter.unusedSimpArgs false

/-! ## refusals -/

theorem collect_error_of_body : ∀ (seen : List String) (bodies : List (String × Except Err Leaf)),
    (∃ b ∈ bodies, ∃ e, b.2 = .error e) → ∃ e, collect seen bodies = .error e
  | _, [], h => by obtain ⟨b, hb, _⟩ := h; cases hb
  | seen, (nm, body) :: rest, h => by
    simp only [collect]
    by_cases hs : nm ∈ seen
    · exact ⟨.nodeError, by simp [hs]⟩
    · simp only [hs, if_false]
      cases body with
      | error e => exact ⟨e, rfl⟩
      | ok l =>
        have : ∃ b ∈ rest, ∃ e, b.2 = .error e := by
          obtain ⟨b, hb, e, he⟩ := h
          rcases List.mem_cons.mp hb with rfl | hb
          · cases he
          · exact ⟨b, hb, e, he⟩
        obtain ⟨e, he⟩ := collect_error_of_body (nm :: seen) rest this
        exact ⟨e, by simp [he]⟩

theorem encodeNet_error_of_body (cfg : Cfg) (n : Net) (h : ∃ b ∈ otherBodies cfg n, ∃ e, b.2 = .error e) :
    ∃ e, encodeNet cfg n = .error e := by
  unfold encodeNet
  cases collect [] (popBodies cfg n) with
  | error e => exact ⟨e, rfl⟩
  | ok pl =>
    simp only
    split
    · exact ⟨_, rfl⟩
    · split
      · exact ⟨_, rfl⟩
      · obtain ⟨e, he⟩ := collect_error_of_body ((popBodies cfg n).map (·.1)).reverse (otherBodies cfg n) h
        exact ⟨e, by simp [he]⟩

theorem encodeNet_error_of_guard (cfg : Cfg) (n : Net) (h : n.nSynConn > 0 ∨ n.nExplicit > 0) :
    ∃ e, encodeNet cfg n = .error e := by
  unfold encodeNet
  cases collect [] (popBodies cfg n) with
  | error e => exact ⟨e, rfl⟩
  | ok pl =>
    simp only
    rcases h with h | h
    · exact ⟨.exception, by simp [h]⟩
    · by_cases h' : n.nSynConn > 0
      · exact ⟨.exception, by simp [h']⟩
      · exact ⟨.exception, by simp [h', h]⟩

theorem encodeDoc_error_of_net (cfg : Cfg) (d : Doc) (n : Net) (rest : List Net) (hd : d.nets = n :: rest)
    (h : ∃ e, encodeNet cfg n = .error e) : ∃ e, encodeDoc cfg d = .error e := by
  obtain ⟨e, he⟩ := h
  unfold encodeDoc
  rw [hd]
  cases rest with
  | nil => exact ⟨e, by simp [he]⟩
  | cons m ms => exact ⟨e, by simp [he]⟩

theorem encodeDoc_error_two_nets (cfg : Cfg) (d : Doc) (n m : Net) (rest : List Net) (hd : d.nets = n :: m :: rest) :
    ∃ e, encodeDoc cfg d = .error e := by
  unfold encodeDoc
  rw [hd]
  cases h : encodeNet cfg n with
  | error e => exact ⟨e, by simp [h]⟩
  | ok g => exact ⟨.nodeError, by simp [h]⟩

theorem encodeGProj_empty (cfg : Cfg) (cont : Bool) (p : GProj) (h : p.all = []) :
    encodeGProj cfg cont p = .error .indexError := by
  simp only [GProj.all, List.append_eq_nil_iff] at h
  simp [encodeGProj, firstConn, h.1.1, h.1.2, h.2]

theorem encodeIList_empty (cfg : Cfg) (l : IList) (h : l.inputs = [] ∧ l.inputWs = []) :
    encodeIList cfg l = .error .valueError := by
  simp [encodeIList, h.1, h.2]

theorem mapE_error_exists {α β : Type} (f : α → Except Err β) :
    ∀ (l : List α), (∃ a ∈ l, ∃ e, f a = .error e) → ∃ e, mapE f l = .error e
  | [], h => by obtain ⟨a, ha, _⟩ := h; cases ha
  | a :: as, h => by
    simp only [mapE]
    cases hfa : f a with
    | error e => exact ⟨e, rfl⟩
    | ok b =>
      have : ∃ a' ∈ as, ∃ e, f a' = .error e := by
        obtain ⟨a', ha', e, he⟩ := h
        rcases List.mem_cons.mp ha' with rfl | hm
        · rw [hfa] at he; cases he
        · exact ⟨a', hm, e, he⟩
      obtain ⟨e, he⟩ := mapE_error_exists f as this
      exact ⟨e, by simp [he]⟩

theorem encodeProj_us (cfg : Cfg) (p : Proj) (h : ∃ c ∈ p.connWDs, c.delay.u = .us) :
    ∃ e, encodeProj cfg p = .error e := by
  unfold encodeProj
  obtain ⟨c, hc, hu⟩ := h
  have hrow : ∃ e, connWDRow cfg (hasSF p.conns || hasSF p.connWDs) c = .error e := by
    simp only [connWDRow]
    cases c.weight with
    | none => exact ⟨_, rfl⟩
    | some w => exact ⟨.valueError, by simp [delayMs, hu]⟩
  obtain ⟨e, he⟩ := mapE_error_exists _ p.connWDs ⟨c, hc, hrow⟩
  exact ⟨e, by simp [he]⟩

end NmlVerif.Hdf5

namespace NmlVerif.Hdf5

/-! ## small helpers for the concrete examples in `Props/C05.lean` -/

theorem forall_one {α : Type} {P : α → Prop} {a : α} (h : P a) : ∀ x ∈ [a], P x := by
  intro x hx; simp at hx; rw [hx]; exact h
theorem forall_two {α : Type} {P : α → Prop} {a b : α} (ha : P a) (hb : P b) : ∀ x ∈ [a, b], P x := by
  intro x hx; simp at hx; rcases hx with rfl | rfl <;> assumption

theorem connExact_id (c : Conn) : ConnExact id c := ⟨rfl, rfl, rfl, rfl⟩

end NmlVerif.Hdf5

namespace NmlVerif.Hdf5
set_option linter.unusedSimpArgs false

/-! ## repaired name tests (`startswith`) and property tags: the `kindOf` / `cutTag` side conditions hold for EVERY id -/

theorem cutTag_whole (cfg : Cfg) (h : cfg.tagWhole = true) (t : String) : cutTag cfg t = t := by
  simp [cutTag, h]

theorem kindOf_pop_prefix (cfg : Cfg) (h : cfg.prefixNames = true) (id : String) :
    kindOf cfg (popLeafName id) = .pop := by
  simp [kindOf, hasP, h, popLeafName, String.toList_append, List.isPrefixOf]

theorem kindOf_proj_prefix (cfg : Cfg) (h : cfg.prefixNames = true) (id : String) :
    kindOf cfg (projLeafName id) = .proj := by
  simp [kindOf, hasP, h, projLeafName, String.toList_append, List.isPrefixOf]

theorem kindOf_il_prefix (cfg : Cfg) (h : cfg.prefixNames = true) (id : String) :
    kindOf cfg (ilLeafName id) = .il := by
  simp [kindOf, hasP, h, ilLeafName, String.toList_append, List.isPrefixOf]

theorem prefix_head2 (a b c d : Char) (as bs l : List Char) (h1 : (a :: b :: as).isPrefixOf l = true)
    (h2 : (c :: d :: bs).isPrefixOf l = true) : a = c ∧ b = d := by
  match l with
  | [] => simp [List.isPrefixOf] at h1
  | [x] => simp [List.isPrefixOf] at h1
  | x :: y :: r =>
    simp [List.isPrefixOf] at h1 h2
    exact ⟨h1.1.trans h2.1.symm, h1.2.1.trans h2.2.1.symm⟩

/-- with `startswith` no group name triggers two handlers -/
theorem kindOf_never_ambiguous (cfg : Cfg) (h : cfg.prefixNames = true) (name : String) :
    kindOf cfg name ≠ .ambiguous := by
  unfold kindOf hasP
  simp only [h, if_true]
  have e1 : "population_".toList = 'p' :: 'o' :: "pulation_".toList := by decide
  have e2 : "projection_".toList = 'p' :: 'r' :: "ojection_".toList := by decide
  have e3 : "inputList_".toList = 'i' :: 'n' :: "putList_".toList := by decide
  have e4 : "input_list_".toList = 'i' :: 'n' :: "put_list_".toList := by decide
  cases h1 : "population_".toList.isPrefixOf name.toList <;>
  cases h2 : "projection_".toList.isPrefixOf name.toList <;>
  cases h3 : "inputList_".toList.isPrefixOf name.toList <;>
  cases h4 : "input_list_".toList.isPrefixOf name.toList <;> simp
  all_goals (rw [e1] at h1; rw [e2] at h2; rw [e3] at h3; rw [e4] at h4)
  all_goals first
    | exact absurd (prefix_head2 _ _ _ _ _ _ _ h1 h2).2 (by decide)
    | exact absurd (prefix_head2 _ _ _ _ _ _ _ h1 h3).1 (by decide)
    | exact absurd (prefix_head2 _ _ _ _ _ _ _ h1 h4).1 (by decide)
    | exact absurd (prefix_head2 _ _ _ _ _ _ _ h2 h3).1 (by decide)
    | exact absurd (prefix_head2 _ _ _ _ _ _ _ h2 h4).1 (by decide)

end NmlVerif.Hdf5
