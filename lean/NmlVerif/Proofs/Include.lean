import NmlVerif.Model.Include
set_option linter.unusedSimpArgs false
/-! Helper lemmas for C06 (termination measure, fold invariants). Core Lean only. -/
namespace NmlVerif.Include

def unv (U al : List Path) : Nat := U.countP (fun p => decide (p ∉ al))

theorem unv_mono (U al al' : List Path) (h : ∀ p ∈ al, p ∈ al') : unv U al' ≤ unv U al := by
  unfold unv
  induction U with
  | nil => simp
  | cons u U ih =>
    rw [List.countP_cons, List.countP_cons]
    by_cases h1 : u ∈ al
    · have h2 : u ∈ al' := h u h1
      have e1 : decide (u ∉ al) = false := by simp [h1]
      have e2 : decide (u ∉ al') = false := by simp [h2]
      simp only [e1, e2, Bool.false_eq_true, ↓reduceIte]; omega
    · have e1 : decide (u ∉ al) = true := by simp [h1]
      by_cases h2 : u ∈ al'
      · have e2 : decide (u ∉ al') = false := by simp [h2]
        simp only [e1, e2, Bool.false_eq_true, ↓reduceIte]; omega
      · have e2 : decide (u ∉ al') = true := by simp [h2]
        simp only [e1, e2, Bool.false_eq_true, ↓reduceIte]; omega

theorem unv_cons_lt (U al : List Path) (p : Path) (hU : p ∈ U) (hp : p ∉ al) : unv U (p :: al) < unv U al := by
  induction U with
  | nil => simp at hU
  | cons u U ih =>
    have hm : unv U (p :: al) ≤ unv U al := unv_mono U al (p :: al) (fun q hq => by simp [hq])
    unfold unv at hm ih ⊢
    rw [List.countP_cons, List.countP_cons]
    by_cases hup : u = p
    · subst hup
      have e1 : decide (u ∉ u :: al) = false := by simp
      have e2 : decide (u ∉ al) = true := by simp [hp]
      simp only [e1, e2, Bool.false_eq_true, ↓reduceIte]; omega
    · have hU' : p ∈ U := by
        rcases List.mem_cons.mp hU with e | e
        · exact absurd e.symm hup
        · exact e
      have ih' := ih hU'
      by_cases h1 : u ∈ al
      · have e1 : decide (u ∉ p :: al) = false := by simp [h1]
        have e2 : decide (u ∉ al) = false := by simp [h1]
        simp only [e1, e2, Bool.false_eq_true, ↓reduceIte]; omega
      · have e1 : decide (u ∉ p :: al) = true := by simp [h1, hup]
        have e2 : decide (u ∉ al) = true := by simp [h1]
        simp only [e1, e2, Bool.false_eq_true, ↓reduceIte]; omega

def Res.isOut : Res → Bool | .outOfFuel => true | _ => false

/-- HDF5 files carry no includes of their own (hypothesis of the union theorems; the general case is
    covered by the correspondence check and by the `h5cycle` witness). -/
def H5Leaf (fs : FS) : Prop := ∀ p f, fs p = some f → kindOf p = .h5 → f.hrefs = []

/-- every include of every file resolves inside `U` -/
def ClosedIn (fs : FS) (cwd : Path) (U : List Path) : Prop :=
  ∀ p file, fs p = some file → ∀ h ∈ file.hrefs, resolveHref fs cwd p.dropLast h ∈ U

theorem fold_nonok (fs : FS) (cwd base : Path) (rec : Path → List Path → Res) (r : Res)
    (hr : ∀ al d, r ≠ .ok al d) : ∀ hs : List (List String), hs.foldl (step fs cwd base rec) r = r
  | [] => rfl
  | h :: hs => by
    have : step fs cwd base rec r h = r := by
      cases r with
      | ok al d => exact absurd rfl (hr al d)
      | _ => rfl
    simp only [List.foldl_cons, this]
    exact fold_nonok fs cwd base rec r hr hs

theorem visit_leaf (fs : FS) (cwd : Path) (f : Nat) (p : Path) (file : File) (al : List Path)
    (hp : fs p = some file) (hl : file.hrefs = []) : visit fs cwd (f+1) p al = .ok al file.comps := by
  simp [visit, hp, hl]

/-! ### keys and the merge -/

def keys (d : List Comp) : List (String × String) := d.map key

theorem mem_keys_addOne (t : List Comp) (c : Comp) (k : String × String) :
    k ∈ keys (addOne t c) ↔ k ∈ keys t ∨ k = key c := by
  unfold addOne
  by_cases h : t.any (fun x => key x = key c) = true
  · simp only [h, if_true]
    constructor
    · intro hk; exact Or.inl hk
    · rintro (hk | hk)
      · exact hk
      · subst hk
        obtain ⟨x, hx, hxe⟩ := List.any_eq_true.mp h
        have : key x = key c := by simpa using hxe
        exact this ▸ List.mem_map_of_mem hx
  · simp only [h]
    simp [keys, List.mem_append, eq_comm]

theorem mem_keys_addAll (s t : List Comp) (k : String × String) :
    k ∈ keys (addAll s t) ↔ k ∈ keys t ∨ k ∈ keys s := by
  unfold addAll
  induction s generalizing t with
  | nil => simp [keys]
  | cons c s ih =>
    simp only [List.foldl_cons]
    rw [ih, mem_keys_addOne]
    simp only [keys, List.map_cons, List.mem_cons]
    constructor
    · rintro ((h | h) | h)
      · exact Or.inl h
      · exact Or.inr (Or.inl h)
      · exact Or.inr (Or.inr h)
    · rintro (h | h | h)
      · exact Or.inl (Or.inl h)
      · exact Or.inl (Or.inr h)
      · exact Or.inr h

theorem nodup_keys_addOne (t : List Comp) (c : Comp) (h : (keys t).Nodup) : (keys (addOne t c)).Nodup := by
  unfold addOne
  by_cases hh : t.any (fun x => key x = key c) = true
  · simpa [hh] using h
  · simp only [hh, Bool.false_eq_true, ↓reduceIte]
    have hnot : key c ∉ keys t := by
      intro hm
      apply hh
      obtain ⟨x, hx, hxe⟩ := List.mem_map.mp hm
      exact List.any_eq_true.mpr ⟨x, hx, by simpa using hxe⟩
    have e : keys (t ++ [c]) = keys t ++ [key c] := by simp [keys]
    rw [e]
    refine List.nodup_append.mpr ⟨h, by simp, ?_⟩
    intro a ha b hb
    have hb' : b = key c := by simpa using hb
    subst hb'
    intro e; subst e; exact hnot ha

theorem nodup_keys_addAll (s t : List Comp) (h : (keys t).Nodup) : (keys (addAll s t)).Nodup := by
  unfold addAll
  induction s generalizing t with
  | nil => simpa
  | cons c s ih => exact ih _ (nodup_keys_addOne t c h)

end NmlVerif.Include

namespace NmlVerif.Include

/-! ### termination -/

/-- the fold of the include loop never runs out of fuel and only grows the marked set, provided the
    recursive reader has that property for every strictly smaller measure -/
theorem fold_ok (fs : FS) (cwd base : Path) (U : List Path) (rec : Path → List Path → Res) (n : Nat)
    (hrec : ∀ p al, unv U al < n → (rec p al).isOut = false ∧ ∀ al' d, rec p al = .ok al' d → ∀ q ∈ al, q ∈ al')
    (hleaf : 0 < n → ∀ p, kindOf p = .h5 → (rec p []).isOut = false) :
    ∀ (hs : List (List String)), (∀ h ∈ hs, resolveHref fs cwd base h ∈ U) →
      ∀ (a : List Path) (d : List Comp), unv U a ≤ n →
      (hs.foldl (step fs cwd base rec) (.ok a d)).isOut = false ∧
      ∀ al' doc, hs.foldl (step fs cwd base rec) (.ok a d) = .ok al' doc → ∀ q ∈ a, q ∈ al'
  | [], _, a, d, _ => ⟨rfl, fun al' doc h => by simp only [List.foldl_nil] at h; cases h; exact fun q hq => hq⟩
  | h :: hs, hU, a, d, hn => by
    have hiU : resolveHref fs cwd base h ∈ U := hU h (by simp)
    have hU' : ∀ j ∈ hs, resolveHref fs cwd base j ∈ U := fun j hj => hU j (by simp [hj])
    simp only [List.foldl_cons]
    generalize hloc : resolveHref fs cwd base h = loc at hiU
    by_cases hia : loc ∈ a
    · have : step fs cwd base rec (.ok a d) h = .ok a d := by simp [step, hloc, hia]
      rw [this]
      exact fold_ok fs cwd base U rec n hrec hleaf hs hU' a d hn
    · have hlt : unv U (loc :: a) < n := by have := unv_cons_lt U a loc hiU hia; omega
      have hnpos : 0 < n := by omega
      cases hk : kindOf loc with
      | other =>
        have : step fs cwd base rec (.ok a d) h = .badExt := by simp [step, hloc, hia, hk]
        rw [this, fold_nonok _ _ _ _ _ (by intro _ _ hh; cases hh)]
        exact ⟨rfl, fun al' doc hh => by cases hh⟩
      | h5 =>
        have hout := hleaf hnpos loc hk
        cases hv : rec loc [] with
        | outOfFuel => simp [hv, Res.isOut] at hout
        | missing =>
          have : step fs cwd base rec (.ok a d) h = .missing := by simp [step, hloc, hia, hk, hv]
          rw [this, fold_nonok _ _ _ _ _ (by intro _ _ hh; cases hh)]
          exact ⟨rfl, fun al' doc hh => by cases hh⟩
        | badExt =>
          have : step fs cwd base rec (.ok a d) h = .badExt := by simp [step, hloc, hia, hk, hv]
          rw [this, fold_nonok _ _ _ _ _ (by intro _ _ hh; cases hh)]
          exact ⟨rfl, fun al' doc hh => by cases hh⟩
        | ok a' sub =>
          have : step fs cwd base rec (.ok a d) h = .ok (loc :: a) (addAll sub d) := by
            simp [step, hloc, hia, hk, hv]
          rw [this]
          have hn' : unv U (loc :: a) ≤ n := by omega
          have ⟨h1, h2⟩ := fold_ok fs cwd base U rec n hrec hleaf hs hU' (loc :: a) (addAll sub d) hn'
          exact ⟨h1, fun al' doc hh q hq => h2 al' doc hh q (by simp [hq])⟩
      | xml =>
        have ⟨hout, hmono⟩ := hrec loc (loc :: a) hlt
        cases hv : rec loc (loc :: a) with
        | outOfFuel => simp [hv, Res.isOut] at hout
        | missing =>
          have : step fs cwd base rec (.ok a d) h = .missing := by simp [step, hloc, hia, hk, hv]
          rw [this, fold_nonok _ _ _ _ _ (by intro _ _ hh; cases hh)]
          exact ⟨rfl, fun al' doc hh => by cases hh⟩
        | badExt =>
          have : step fs cwd base rec (.ok a d) h = .badExt := by simp [step, hloc, hia, hk, hv]
          rw [this, fold_nonok _ _ _ _ _ (by intro _ _ hh; cases hh)]
          exact ⟨rfl, fun al' doc hh => by cases hh⟩
        | ok a' sub =>
          have : step fs cwd base rec (.ok a d) h = .ok a' (addAll sub d) := by
            simp [step, hloc, hia, hk, hv]
          rw [this]
          have hsub : ∀ q ∈ a, q ∈ a' := fun q hq => hmono a' sub hv q (by simp [hq])
          have hn' : unv U a' ≤ n := Nat.le_trans (unv_mono U a a' hsub) hn
          have ⟨h1, h2⟩ := fold_ok fs cwd base U rec n hrec hleaf hs hU' a' (addAll sub d) hn'
          exact ⟨h1, fun al' doc hh q hq => h2 al' doc hh q (hsub q hq)⟩

theorem visit_terminates (fs : FS) (cwd : Path) (U : List Path) (hclosed : ClosedIn fs cwd U) (h5 : H5Leaf fs) :
    ∀ f p al, unv U al < f →
      (visit fs cwd f p al).isOut = false ∧
      ∀ al' doc, visit fs cwd f p al = .ok al' doc → ∀ q ∈ al, q ∈ al' := by
  intro f
  induction f with
  | zero => intro p al h; omega
  | succ f ih =>
    intro p al hf
    unfold visit
    cases hfile : fs p with
    | none => exact ⟨rfl, fun al' doc h => by cases h⟩
    | some file =>
      refine fold_ok fs cwd p.dropLast U (visit fs cwd f) f ih ?_ file.hrefs (hclosed p file hfile) al file.comps (by omega)
      intro hpos q hk
      obtain ⟨g, rfl⟩ : ∃ g, f = g + 1 := ⟨f - 1, by omega⟩
      cases hq : fs q with
      | none => simp [visit, hq, Res.isOut]
      | some qf =>
        rw [visit_leaf fs cwd g q qf [] hq (h5 q qf hq hk)]
        rfl

end NmlVerif.Include

namespace NmlVerif.Include

/-! ### what an `ok` result contains -/

inductive Reach (fs : FS) (cwd : Path) : Path → Path → Prop where
  | refl (p : Path) : Reach fs cwd p p
  | step {p q : Path} {file : File} {h : List String} :
      Reach fs cwd p q → fs q = some file → h ∈ file.hrefs → Reach fs cwd p (resolveHref fs cwd q.dropLast h)

theorem Reach.head {fs : FS} {cwd : Path} {p : Path} {file : File} {h : List String} {q : Path}
    (hp : fs p = some file) (hh : h ∈ file.hrefs) (r : Reach fs cwd (resolveHref fs cwd p.dropLast h) q) :
    Reach fs cwd p q := by
  induction r with
  | refl => exact Reach.step (Reach.refl p) hp hh
  | step _ hq hh' ih => exact Reach.step ih hq hh'

def fileKeys (fs : FS) (q : Path) : List (String × String) :=
  match fs q with
  | some f => keys f.comps
  | none => []

def incs (fs : FS) (cwd : Path) (q : Path) : List Path :=
  match fs q with
  | some f => f.hrefs.map (resolveHref fs cwd q.dropLast)
  | none => []

def NewIn (a al' : List Path) (q : Path) : Prop := q ∈ al' ∧ q ∉ a

structure VSpec (fs : FS) (cwd p : Path) (al al' : List Path) (doc : List Comp) : Prop where
  mono : ∀ q ∈ al, q ∈ al'
  reach : ∀ q, NewIn al al' q → Reach fs cwd p q
  keysIff : ∀ k, k ∈ keys doc ↔ k ∈ fileKeys fs p ∨ ∃ q, NewIn al al' q ∧ k ∈ fileKeys fs q
  closedP : ∀ i ∈ incs fs cwd p, i ∈ al'
  closedN : ∀ q, NewIn al al' q → ∀ i ∈ incs fs cwd q, i ∈ al'

structure FSpec (fs : FS) (cwd base : Path) (hs : List (List String)) (a al' : List Path) (d doc : List Comp) : Prop where
  mono : ∀ q ∈ a, q ∈ al'
  reach : ∀ q, NewIn a al' q → ∃ h ∈ hs, Reach fs cwd (resolveHref fs cwd base h) q
  keysIff : ∀ k, k ∈ keys doc ↔ k ∈ keys d ∨ ∃ q, NewIn a al' q ∧ k ∈ fileKeys fs q
  closedH : ∀ h ∈ hs, resolveHref fs cwd base h ∈ al'
  closedN : ∀ q, NewIn a al' q → ∀ i ∈ incs fs cwd q, i ∈ al'

theorem fold_spec (fs : FS) (cwd base : Path) (rec : Path → List Path → Res)
    (hrec : ∀ p al al' sub, rec p al = .ok al' sub → VSpec fs cwd p al al' sub)
    (hleaf : ∀ p file al al' sub, fs p = some file → file.hrefs = [] → rec p al = .ok al' sub →
        al' = al ∧ sub = file.comps)
    (hsome : ∀ p al al' sub, rec p al = .ok al' sub → ∃ file, fs p = some file)
    (h5 : H5Leaf fs) :
    ∀ (hs : List (List String)) (a : List Path) (d : List Comp) (al' : List Path) (doc : List Comp),
      hs.foldl (step fs cwd base rec) (.ok a d) = .ok al' doc → FSpec fs cwd base hs a al' d doc
  | [], a, d, al', doc, h => by
    simp only [List.foldl_nil] at h
    cases h
    exact ⟨fun q hq => hq, fun q hq => absurd hq.1 hq.2, fun k => ⟨Or.inl, fun hh => hh.elim id (fun ⟨q, hq, _⟩ => absurd hq.1 hq.2)⟩,
      by simp, fun q hq => absurd hq.1 hq.2⟩
  | h :: hs, a, d, al', doc, hfold => by
    simp only [List.foldl_cons] at hfold
    generalize hloc : resolveHref fs cwd base h = loc
    by_cases hia : loc ∈ a
    · have hst : step fs cwd base rec (.ok a d) h = .ok a d := by simp [step, hloc, hia]
      rw [hst] at hfold
      have S := fold_spec fs cwd base rec hrec hleaf hsome h5 hs a d al' doc hfold
      refine ⟨S.mono, ?_, S.keysIff, ?_, S.closedN⟩
      · intro q hq
        obtain ⟨h', hh', r⟩ := S.reach q hq
        exact ⟨h', by simp [hh'], r⟩
      · intro h' hh'
        rcases List.mem_cons.mp hh' with e | e
        · subst e; rw [hloc]; exact S.mono _ hia
        · exact S.closedH h' e
    · -- a genuinely new include
      have hne : ∀ r : Res, (∀ x y, r ≠ .ok x y) → hs.foldl (step fs cwd base rec) r ≠ .ok al' doc := by
        intro r hr; rw [fold_nonok _ _ _ _ _ hr]; exact hr al' doc
      cases hk : kindOf loc with
      | other =>
        have hst : step fs cwd base rec (.ok a d) h = .badExt := by simp [step, hloc, hia, hk]
        rw [hst] at hfold
        exact absurd hfold (hne _ (by intro _ _ hh; cases hh))
      | h5 =>
        cases hv : rec loc [] with
        | outOfFuel =>
          have hst : step fs cwd base rec (.ok a d) h = .outOfFuel := by simp [step, hloc, hia, hk, hv]
          rw [hst] at hfold
          exact absurd hfold (hne _ (by intro _ _ hh; cases hh))
        | missing =>
          have hst : step fs cwd base rec (.ok a d) h = .missing := by simp [step, hloc, hia, hk, hv]
          rw [hst] at hfold
          exact absurd hfold (hne _ (by intro _ _ hh; cases hh))
        | badExt =>
          have hst : step fs cwd base rec (.ok a d) h = .badExt := by simp [step, hloc, hia, hk, hv]
          rw [hst] at hfold
          exact absurd hfold (hne _ (by intro _ _ hh; cases hh))
        | ok a1 sub =>
          have hst : step fs cwd base rec (.ok a d) h = .ok (loc :: a) (addAll sub d) := by
            simp [step, hloc, hia, hk, hv]
          rw [hst] at hfold
          obtain ⟨file, hfile⟩ := hsome loc [] a1 sub hv
          have hl := h5 loc file hfile hk
          obtain ⟨-, hsub⟩ := hleaf loc file [] a1 sub hfile hl hv
          subst hsub
          have S := fold_spec fs cwd base rec hrec hleaf hsome h5 hs (loc :: a) (addAll file.comps d) al' doc hfold
          have hlocal : loc ∈ al' := S.mono loc (by simp)
          have hfk : fileKeys fs loc = keys file.comps := by simp [fileKeys, hfile]
          have hinc : incs fs cwd loc = [] := by simp [incs, hfile, hl]
          refine ⟨fun q hq => S.mono q (by simp [hq]), ?_, ?_, ?_, ?_⟩
          · intro q hq
            by_cases hql : q = loc
            · subst hql; exact ⟨h, by simp, by rw [hloc]; exact Reach.refl _⟩
            · obtain ⟨h', hh', r⟩ := S.reach q ⟨hq.1, by simp [hql, hq.2]⟩
              exact ⟨h', by simp [hh'], r⟩
          · intro k
            rw [S.keysIff k, mem_keys_addAll]
            constructor
            · rintro ((hkd | hks) | ⟨q, hq, hkq⟩)
              · exact Or.inl hkd
              · exact Or.inr ⟨loc, ⟨hlocal, hia⟩, by rw [hfk]; exact hks⟩
              · exact Or.inr ⟨q, ⟨hq.1, fun hqa => hq.2 (by simp [hqa])⟩, hkq⟩
            · rintro (hkd | ⟨q, hq, hkq⟩)
              · exact Or.inl (Or.inl hkd)
              · by_cases hql : q = loc
                · subst hql; exact Or.inl (Or.inr (by rw [← hfk]; exact hkq))
                · exact Or.inr ⟨q, ⟨hq.1, by simp [hql, hq.2]⟩, hkq⟩
          · intro h' hh'
            rcases List.mem_cons.mp hh' with e | e
            · subst e; rw [hloc]; exact hlocal
            · exact S.closedH h' e
          · intro q hq i hi
            by_cases hql : q = loc
            · subst hql; rw [hinc] at hi; cases hi
            · exact S.closedN q ⟨hq.1, by simp [hql, hq.2]⟩ i hi
      | xml =>
        cases hv : rec loc (loc :: a) with
        | outOfFuel =>
          have hst : step fs cwd base rec (.ok a d) h = .outOfFuel := by simp [step, hloc, hia, hk, hv]
          rw [hst] at hfold
          exact absurd hfold (hne _ (by intro _ _ hh; cases hh))
        | missing =>
          have hst : step fs cwd base rec (.ok a d) h = .missing := by simp [step, hloc, hia, hk, hv]
          rw [hst] at hfold
          exact absurd hfold (hne _ (by intro _ _ hh; cases hh))
        | badExt =>
          have hst : step fs cwd base rec (.ok a d) h = .badExt := by simp [step, hloc, hia, hk, hv]
          rw [hst] at hfold
          exact absurd hfold (hne _ (by intro _ _ hh; cases hh))
        | ok a1 sub =>
          have hst : step fs cwd base rec (.ok a d) h = .ok a1 (addAll sub d) := by
            simp [step, hloc, hia, hk, hv]
          rw [hst] at hfold
          have V := hrec loc (loc :: a) a1 sub hv
          have S := fold_spec fs cwd base rec hrec hleaf hsome h5 hs a1 (addAll sub d) al' doc hfold
          have hloc1 : loc ∈ a1 := V.mono loc (by simp)
          have hlocal : loc ∈ al' := S.mono loc hloc1
          have ha1 : ∀ q ∈ a, q ∈ a1 := fun q hq => V.mono q (by simp [hq])
          -- classification of the new marks
          have hsplit : ∀ q, NewIn a al' q → q = loc ∨ NewIn (loc :: a) a1 q ∨ NewIn a1 al' q := by
            intro q hq
            by_cases hq1 : q ∈ a1
            · by_cases hql : q = loc
              · exact Or.inl hql
              · exact Or.inr (Or.inl ⟨hq1, by simp [hql, hq.2]⟩)
            · exact Or.inr (Or.inr ⟨hq.1, hq1⟩)
          refine ⟨fun q hq => S.mono q (ha1 q hq), ?_, ?_, ?_, ?_⟩
          · intro q hq
            rcases hsplit q hq with e | e | e
            · subst e; exact ⟨h, by simp, by rw [hloc]; exact Reach.refl _⟩
            · exact ⟨h, by simp, by rw [hloc]; exact V.reach q e⟩
            · obtain ⟨h', hh', r⟩ := S.reach q e
              exact ⟨h', by simp [hh'], r⟩
          · intro k
            rw [S.keysIff k, mem_keys_addAll, V.keysIff k]
            constructor
            · rintro ((hkd | hkl | ⟨q, hq, hkq⟩) | ⟨q, hq, hkq⟩)
              · exact Or.inl hkd
              · exact Or.inr ⟨loc, ⟨hlocal, hia⟩, hkl⟩
              · exact Or.inr ⟨q, ⟨S.mono q hq.1, fun hqa => hq.2 (by simp [hqa])⟩, hkq⟩
              · exact Or.inr ⟨q, ⟨hq.1, fun hqa => hq.2 (ha1 q hqa)⟩, hkq⟩
            · rintro (hkd | ⟨q, hq, hkq⟩)
              · exact Or.inl (Or.inl hkd)
              · rcases hsplit q hq with e | e | e
                · subst e; exact Or.inl (Or.inr (Or.inl hkq))
                · exact Or.inl (Or.inr (Or.inr ⟨q, e, hkq⟩))
                · exact Or.inr ⟨q, e, hkq⟩
          · intro h' hh'
            rcases List.mem_cons.mp hh' with e | e
            · subst e; rw [hloc]; exact hlocal
            · exact S.closedH h' e
          · intro q hq i hi
            rcases hsplit q hq with e | e | e
            · subst e; exact S.mono i (V.closedP i hi)
            · exact S.mono i (V.closedN q e i hi)
            · exact S.closedN q e i hi

theorem visit_spec (fs : FS) (cwd : Path) (h5 : H5Leaf fs) :
    ∀ f p al al' doc, visit fs cwd f p al = .ok al' doc → VSpec fs cwd p al al' doc := by
  intro f
  induction f with
  | zero => intro p al al' doc h; simp [visit] at h
  | succ f ih =>
    intro p al al' doc h
    unfold visit at h
    cases hfile : fs p with
    | none => simp [hfile] at h
    | some file =>
      simp only [hfile] at h
      have hleaf : ∀ q qf a a' sub, fs q = some qf → qf.hrefs = [] → visit fs cwd f q a = .ok a' sub →
          a' = a ∧ sub = qf.comps := by
        intro q qf a a' sub hq hl hv
        cases f with
        | zero => simp [visit] at hv
        | succ g =>
          rw [visit_leaf fs cwd g q qf a hq hl] at hv
          cases hv; exact ⟨rfl, rfl⟩
      have hsome : ∀ q a a' sub, visit fs cwd f q a = .ok a' sub → ∃ qf, fs q = some qf := by
        intro q a a' sub hv
        cases f with
        | zero => simp [visit] at hv
        | succ g =>
          cases hq : fs q with
          | none => simp [visit, hq] at hv
          | some qf => exact ⟨qf, rfl⟩
      have S := fold_spec fs cwd p.dropLast (visit fs cwd f) ih hleaf hsome h5 file.hrefs al file.comps al' doc h
      have hfk : fileKeys fs p = keys file.comps := by simp [fileKeys, hfile]
      refine ⟨S.mono, ?_, ?_, ?_, S.closedN⟩
      · intro q hq
        obtain ⟨h', hh', r⟩ := S.reach q hq
        exact Reach.head hfile hh' r
      · intro k; rw [S.keysIff k, hfk]
      · intro i hi
        simp only [incs, hfile, List.mem_map] at hi
        obtain ⟨h', hh', rfl⟩ := hi
        exact S.closedH h' hh'

end NmlVerif.Include
