import NmlVerif.Model.Include
set_option linter.unusedSimpArgs false
/-! Helper lemmas for C06 (termination measure, fold invariants). Core Lean only. -/
namespace NmlVerif.Include

def unv (U al : List Path) : Nat := U.countP (fun p => decide (p ∉ al))

theorem unv_mono (U al al' : List Path) (h : ∀ p ∈ al, p ∈ al') : unv U al' ≤ unv U al := by
  unfold unv
  induction U with
  | nil => simp
  | cons u U ih =>
    rw [List.countP_cons, List.countP_cons]
    by_cases h1 : u ∈ al
    · have h2 : u ∈ al' := h u h1
      have e1 : decide (u ∉ al) = false := by simp [h1]
      have e2 : decide (u ∉ al') = false := by simp [h2]
      simp only [e1, e2, Bool.false_eq_true, ↓reduceIte]; omega
    · have e1 : decide (u ∉ al) = true := by simp [h1]
      by_cases h2 : u ∈ al'
      · have e2 : decide (u ∉ al') = false := by simp [h2]
        simp only [e1, e2, Bool.false_eq_true, ↓reduceIte]; omega
      · have e2 : decide (u ∉ al') = true := by simp [h2]
        simp only [e1, e2, Bool.false_eq_true, ↓reduceIte]; omega

theorem unv_cons_lt (U al : List Path) (p : Path) (hU : p ∈ U) (hp : p ∉ al) : unv U (p :: al) < unv U al := by
  induction U with
  | nil => simp at hU
  | cons u U ih =>
    have hm : unv U (p :: al) ≤ unv U al := unv_mono U al (p :: al) (fun q hq => by simp [hq])
    unfold unv at hm ih ⊢
    rw [List.countP_cons, List.countP_cons]
    by_cases hup : u = p
    · subst hup
      have e1 : decide (u ∉ u :: al) = false := by simp
      have e2 : decide (u ∉ al) = true := by simp [hp]
      simp only [e1, e2, Bool.false_eq_true, ↓reduceIte]; omega
    · have hU' : p ∈ U := by
        rcases List.mem_cons.mp hU with e | e
        · exact absurd e.symm hup
        · exact e
      have ih' := ih hU'
      by_cases h1 : u ∈ al
      · have e1 : decide (u ∉ p :: al) = false := by simp [h1]
        have e2 : decide (u ∉ al) = false := by simp [h1]
        simp only [e1, e2, Bool.false_eq_true, ↓reduceIte]; omega
      · have e1 : decide (u ∉ p :: al) = true := by simp [h1, hup]
        have e2 : decide (u ∉ al) = true := by simp [h1]
        simp only [e1, e2, Bool.false_eq_true, ↓reduceIte]; omega

def Res.isOut : Res → Bool | .outOfFuel => true | _ => false

/-- HDF5 files carry no includes of their own (needed only for today's handling of HDF5 includes, `sh = false`;
    the repaired handling needs no such hypothesis) -/
def H5Leaf (fs : FS) : Prop := ∀ p f, fs p = some f → kindOf p = .h5 → f.hrefs = []

/-- every include of every file resolves inside `U` -/
def ClosedIn (fs : FS) (cwd : Path) (U : List Path) : Prop :=
  ∀ p file, fs p = some file → ∀ h ∈ file.hrefs, resolveHref fs cwd p.dropLast h ∈ U

theorem fold_nonok (sh : Bool) (fs : FS) (cwd base : Path) (rec : Path → List Path → Res) (r : Res)
    (hr : ∀ al l d, r ≠ .ok al l d) : ∀ hs : List (List String), hs.foldl (step sh fs cwd base rec) r = r
  | [] => rfl
  | h :: hs => by
    have : step sh fs cwd base rec r h = r := by
      cases r with
      | ok al l d => exact absurd rfl (hr al l d)
      | _ => rfl
    simp only [List.foldl_cons, this]
    exact fold_nonok sh fs cwd base rec r hr hs

theorem visit_leaf (sh : Bool) (fs : FS) (cwd : Path) (f : Nat) (p : Path) (file : File) (al : List Path)
    (hp : fs p = some file) (hl : file.hrefs = []) : visit sh fs cwd (f+1) p al = .ok al [p] file.comps := by
  simp [visit, hp, hl]

/-! ### inversion of one step / of the fold -/

/-- what a successful step did: either the include was skipped (already marked), or a file was read. -/
theorem step_ok_inv {sh : Bool} {fs : FS} {cwd base : Path} {rec : Path → List Path → Res}
    {a l : List Path} {d : List Comp} {h : List String} {a1 l1 : List Path} {d1 : List Comp}
    (hst : step sh fs cwd base rec (.ok a l d) h = .ok a1 l1 d1) :
    (resolveHref fs cwd base h ∈ a ∧ a1 = a ∧ l1 = l ∧ d1 = d) ∨
    (resolveHref fs cwd base h ∉ a ∧ ∃ a' sl sub,
      l1 = l ++ sl ∧ d1 = addAll sub d ∧
      ((rec (resolveHref fs cwd base h) (resolveHref fs cwd base h :: a) = .ok a' sl sub ∧ a1 = a' ∧
          (kindOf (resolveHref fs cwd base h) = .xml ∨ (kindOf (resolveHref fs cwd base h) = .h5 ∧ sh = true))) ∨
       (rec (resolveHref fs cwd base h) [] = .ok a' sl sub ∧ a1 = resolveHref fs cwd base h :: a ∧
          kindOf (resolveHref fs cwd base h) = .h5 ∧ sh = false))) := by
  generalize hloc : resolveHref fs cwd base h = loc at *
  unfold step at hst
  simp only [hloc] at hst
  by_cases hia : loc ∈ a
  · simp only [hia, if_true] at hst
    cases hst
    exact Or.inl ⟨hia, rfl, rfl, rfl⟩
  · simp only [hia, if_false] at hst
    refine Or.inr ⟨hia, ?_⟩
    cases hk : kindOf loc with
    | other => simp [hk] at hst
    | xml =>
      simp only [hk] at hst
      cases hv : rec loc (loc :: a) with
      | ok a' sl sub =>
        simp only [hv] at hst
        cases hst
        exact ⟨_, _, _, rfl, rfl, Or.inl ⟨rfl, rfl, Or.inl rfl⟩⟩
      | outOfFuel => simp [hv] at hst
      | missing => simp [hv] at hst
      | badExt => simp [hv] at hst
    | h5 =>
      simp only [hk] at hst
      cases sh with
      | true =>
        simp only [if_true] at hst
        cases hv : rec loc (loc :: a) with
        | ok a' sl sub =>
          simp only [hv] at hst
          cases hst
          exact ⟨_, _, _, rfl, rfl, Or.inl ⟨rfl, rfl, Or.inr ⟨rfl, rfl⟩⟩⟩
        | outOfFuel => simp [hv] at hst
        | missing => simp [hv] at hst
        | badExt => simp [hv] at hst
      | false =>
        simp only [Bool.false_eq_true, if_false] at hst
        cases hv : rec loc [] with
        | ok a' sl sub =>
          simp only [hv] at hst
          cases hst
          exact ⟨_, _, _, rfl, rfl, Or.inr ⟨rfl, rfl, rfl, rfl⟩⟩
        | outOfFuel => simp [hv] at hst
        | missing => simp [hv] at hst
        | badExt => simp [hv] at hst

theorem fold_cons_ok_inv {sh : Bool} {fs : FS} {cwd base : Path} {rec : Path → List Path → Res}
    {acc : Res} {h : List String} {hs : List (List String)} {al' l' : List Path} {doc : List Comp}
    (hf : (h :: hs).foldl (step sh fs cwd base rec) acc = .ok al' l' doc) :
    ∃ a1 l1 d1, step sh fs cwd base rec acc h = .ok a1 l1 d1 ∧
      hs.foldl (step sh fs cwd base rec) (.ok a1 l1 d1) = .ok al' l' doc := by
  simp only [List.foldl_cons] at hf
  cases hst : step sh fs cwd base rec acc h with
  | ok a1 l1 d1 => rw [hst] at hf; exact ⟨a1, l1, d1, rfl, hf⟩
  | outOfFuel => rw [hst, fold_nonok _ _ _ _ _ _ (by intro _ _ _ hh; cases hh)] at hf; cases hf
  | missing => rw [hst, fold_nonok _ _ _ _ _ _ (by intro _ _ _ hh; cases hh)] at hf; cases hf
  | badExt => rw [hst, fold_nonok _ _ _ _ _ _ (by intro _ _ _ hh; cases hh)] at hf; cases hf

/-! ### keys and the merge -/

def key (c : Comp) : String × Ident := (c.list, c.id)

def keys (d : List Comp) : List (String × Ident) := d.map key

/-- the keys of the components that do have an id attribute -/
def idKeys (d : List Comp) : List (String × Ident) := (d.filter (fun c => !idless c)).map key

theorem any_same_iff (t : List Comp) (c : Comp) :
    t.any (fun x => same x c) = true ↔ (c.id ≠ .absent ∧ key c ∈ keys t) := by
  simp only [List.any_eq_true, same, decide_eq_true_eq, keys, key, List.mem_map]
  constructor
  · rintro ⟨x, hx, hl, hne, hid⟩
    exact ⟨hid ▸ hne, x, hx, by rw [hl, hid]⟩
  · rintro ⟨hne, x, hx, he⟩
    have h1 : x.list = c.list := congrArg Prod.fst he
    have h2 : x.id = c.id := congrArg Prod.snd he
    exact ⟨x, hx, h1, h2 ▸ hne, h2⟩

theorem mem_keys_addOne (t : List Comp) (c : Comp) (k : String × Ident) :
    k ∈ keys (addOne t c) ↔ k ∈ keys t ∨ k = key c := by
  unfold addOne
  by_cases h : t.any (fun x => same x c) = true
  · simp only [h, if_true]
    constructor
    · intro hk; exact Or.inl hk
    · rintro (hk | hk)
      · exact hk
      · subst hk; exact ((any_same_iff t c).mp h).2
  · simp only [h]
    simp [keys, List.mem_append, eq_comm]

theorem mem_keys_addAll (s t : List Comp) (k : String × Ident) :
    k ∈ keys (addAll s t) ↔ k ∈ keys t ∨ k ∈ keys s := by
  unfold addAll
  induction s generalizing t with
  | nil => simp [keys]
  | cons c s ih =>
    simp only [List.foldl_cons]
    rw [ih, mem_keys_addOne]
    simp only [keys, List.map_cons, List.mem_cons]
    constructor
    · rintro ((h | h) | h)
      · exact Or.inl h
      · exact Or.inr (Or.inl h)
      · exact Or.inr (Or.inr h)
    · rintro (h | h | h)
      · exact Or.inl (Or.inl h)
      · exact Or.inl (Or.inr h)
      · exact Or.inr h

theorem addAll_append (s₁ s₂ t : List Comp) : addAll (s₁ ++ s₂) t = addAll s₂ (addAll s₁ t) := by
  simp [addAll, List.foldl_append]

/-- the merge only appends: the target is a prefix of the result -/
theorem addAll_prefix (s t : List Comp) : ∃ n, addAll s t = t ++ n := by
  unfold addAll
  induction s generalizing t with
  | nil => exact ⟨[], by simp⟩
  | cons c s ih =>
    simp only [List.foldl_cons]
    obtain ⟨n, hn⟩ := ih (addOne t c)
    rw [hn]
    unfold addOne
    by_cases h : t.any (fun x => same x c) = true
    · simp only [h, if_true]; exact ⟨n, rfl⟩
    · simp only [h, Bool.false_eq_true, ↓reduceIte]; exact ⟨c :: n, by simp⟩

theorem addAll_addOne (own doc : List Comp) (c : Comp) :
    addAll (addOne own c) doc = addOne (addAll own doc) c := by
  by_cases h : own.any (fun x => same x c) = true
  · have h' : (addAll own doc).any (fun x => same x c) = true := by
      rw [any_same_iff] at h ⊢
      exact ⟨h.1, (mem_keys_addAll own doc (key c)).mpr (Or.inr h.2)⟩
    unfold addOne
    simp only [h, h', if_true]
  · have e1 : addOne own c = own ++ [c] := by unfold addOne; simp only [h, Bool.false_eq_true, ↓reduceIte]
    rw [e1, addAll_append]
    rfl

/-- **merging a merged document = merging its parts in order** (what makes the result of the recursive
    include loop a left-to-right merge of the files in the order they were read) -/
theorem addAll_assoc (cs own doc : List Comp) : addAll (addAll cs own) doc = addAll cs (addAll own doc) := by
  induction cs generalizing own with
  | nil => rfl
  | cons c cs ih =>
    show addAll (addAll cs (addOne own c)) doc = addAll cs (addOne (addAll own doc) c)
    rw [ih (addOne own c), addAll_addOne]

theorem filter_idless_addOne (t : List Comp) (c : Comp) :
    (addOne t c).filter idless = t.filter idless ++ [c].filter idless := by
  unfold addOne
  by_cases h : t.any (fun x => same x c) = true
  · have hne := ((any_same_iff t c).mp h).1
    have : idless c = false := by simp [idless, hne]
    simp [h, List.filter_cons, this]
  · simp only [h]; simp [List.filter_append]

/-- components without an id are never recognised: every one of the source is appended -/
theorem filter_idless_addAll (s t : List Comp) :
    (addAll s t).filter idless = t.filter idless ++ s.filter idless := by
  unfold addAll
  induction s generalizing t with
  | nil => simp
  | cons c s ih =>
    simp only [List.foldl_cons]
    rw [ih, filter_idless_addOne]
    simp [List.filter_cons]
    split <;> simp

theorem nodup_idKeys_addOne (t : List Comp) (c : Comp) (h : (idKeys t).Nodup) : (idKeys (addOne t c)).Nodup := by
  unfold addOne
  by_cases hh : t.any (fun x => same x c) = true
  · simpa [hh] using h
  · simp only [hh, Bool.false_eq_true, ↓reduceIte]
    by_cases hc : idless c = true
    · have : idKeys (t ++ [c]) = idKeys t := by simp [idKeys, List.filter_append, List.filter_cons, hc]
      rw [this]; exact h
    · have hcne : c.id ≠ .absent := by simpa [idless] using hc
      have hnot : key c ∉ idKeys t := by
        intro hm
        apply hh
        rw [any_same_iff]
        refine ⟨hcne, ?_⟩
        simp only [idKeys, List.mem_map, List.mem_filter] at hm
        obtain ⟨x, ⟨hx, _⟩, hxe⟩ := hm
        exact List.mem_map.mpr ⟨x, hx, hxe⟩
      have e : idKeys (t ++ [c]) = idKeys t ++ [key c] := by
        simp [idKeys, List.filter_append, List.filter_cons, hc]
      rw [e]
      refine List.nodup_append.mpr ⟨h, by simp, ?_⟩
      intro a ha b hb
      have hb' : b = key c := by simpa using hb
      subst hb'
      intro e; subst e; exact hnot ha

theorem nodup_idKeys_addAll (s t : List Comp) (h : (idKeys t).Nodup) : (idKeys (addAll s t)).Nodup := by
  unfold addAll
  induction s generalizing t with
  | nil => simpa
  | cons c s ih => exact ih _ (nodup_idKeys_addOne t c h)

end NmlVerif.Include

namespace NmlVerif.Include

/-! ### termination -/

/-- the fold of the include loop never runs out of fuel and only grows the marked set, provided the
    recursive reader has that property for every strictly smaller measure -/
theorem fold_ok (sh : Bool) (fs : FS) (cwd base : Path) (U : List Path) (rec : Path → List Path → Res) (n : Nat)
    (hrec : ∀ p al, unv U al < n → (rec p al).isOut = false ∧ ∀ al' l d, rec p al = .ok al' l d → ∀ q ∈ al, q ∈ al')
    (hleaf : sh = false → 0 < n → ∀ p, kindOf p = .h5 → (rec p []).isOut = false) :
    ∀ (hs : List (List String)), (∀ h ∈ hs, resolveHref fs cwd base h ∈ U) →
      ∀ (a l : List Path) (d : List Comp), unv U a ≤ n →
      (hs.foldl (step sh fs cwd base rec) (.ok a l d)).isOut = false ∧
      ∀ al' l' doc, hs.foldl (step sh fs cwd base rec) (.ok a l d) = .ok al' l' doc → ∀ q ∈ a, q ∈ al'
  | [], _, a, l, d, _ =>
    ⟨rfl, fun al' l' doc h => by simp only [List.foldl_nil] at h; cases h; exact fun q hq => hq⟩
  | h :: hs, hU, a, l, d, hn => by
    have hiU : resolveHref fs cwd base h ∈ U := hU h (by simp)
    have hU' : ∀ j ∈ hs, resolveHref fs cwd base j ∈ U := fun j hj => hU j (by simp [hj])
    simp only [List.foldl_cons]
    generalize hloc : resolveHref fs cwd base h = loc at hiU
    have hbad : ∀ r : Res, (∀ x y z, r ≠ .ok x y z) → r.isOut = false →
        step sh fs cwd base rec (.ok a l d) h = r →
        (hs.foldl (step sh fs cwd base rec) (step sh fs cwd base rec (.ok a l d) h)).isOut = false ∧
        ∀ al' l' doc, hs.foldl (step sh fs cwd base rec) (step sh fs cwd base rec (.ok a l d) h) = .ok al' l' doc →
          ∀ q ∈ a, q ∈ al' := by
      intro r hr ho hst
      rw [hst, fold_nonok _ _ _ _ _ _ hr]
      exact ⟨ho, fun al' l' doc hh => absurd hh (hr _ _ _)⟩
    by_cases hia : loc ∈ a
    · have : step sh fs cwd base rec (.ok a l d) h = .ok a l d := by simp [step, hloc, hia]
      rw [this]
      exact fold_ok sh fs cwd base U rec n hrec hleaf hs hU' a l d hn
    · have hlt : unv U (loc :: a) < n := by have := unv_cons_lt U a loc hiU hia; omega
      have hnpos : 0 < n := by omega
      -- the "mark, then read with the shared list" case (XML includes; HDF5 includes when repaired)
      have shared : (∀ r, rec loc (loc :: a) = r →
            step sh fs cwd base rec (.ok a l d) h =
              match r with | .ok al' sl sub => .ok al' (l ++ sl) (addAll sub d) | r => r) →
          (hs.foldl (step sh fs cwd base rec) (step sh fs cwd base rec (.ok a l d) h)).isOut = false ∧
          ∀ al' l' doc, hs.foldl (step sh fs cwd base rec) (step sh fs cwd base rec (.ok a l d) h) = .ok al' l' doc →
            ∀ q ∈ a, q ∈ al' := by
        intro hstep
        have ⟨hout, hmono⟩ := hrec loc (loc :: a) hlt
        cases hv : rec loc (loc :: a) with
        | outOfFuel => simp [hv, Res.isOut] at hout
        | missing => exact hbad .missing (by intro _ _ _ hh; cases hh) rfl (by rw [hstep _ hv])
        | badExt => exact hbad .badExt (by intro _ _ _ hh; cases hh) rfl (by rw [hstep _ hv])
        | ok a' sl sub =>
          have : step sh fs cwd base rec (.ok a l d) h = .ok a' (l ++ sl) (addAll sub d) := by rw [hstep _ hv]
          rw [this]
          have hsub : ∀ q ∈ a, q ∈ a' := fun q hq => hmono a' sl sub hv q (by simp [hq])
          have hn' : unv U a' ≤ n := Nat.le_trans (unv_mono U a a' hsub) hn
          have ⟨h1, h2⟩ := fold_ok sh fs cwd base U rec n hrec hleaf hs hU' a' (l ++ sl) (addAll sub d) hn'
          exact ⟨h1, fun al' l' doc hh q hq => h2 al' l' doc hh q (hsub q hq)⟩
      cases hk : kindOf loc with
      | other =>
        exact hbad .badExt (by intro _ _ _ hh; cases hh) rfl (by simp [step, hloc, hia, hk])
      | xml =>
        apply shared
        intro r hr
        simp only [step, hloc, hia, hk, if_false, hr]
        cases r <;> rfl
      | h5 =>
        cases sh with
        | true =>
          apply shared
          intro r hr
          simp only [step, hloc, hia, hk, if_false, if_true, hr]
          cases r <;> rfl
        | false =>
          have hout := hleaf rfl hnpos loc hk
          cases hv : rec loc [] with
          | outOfFuel => simp [hv, Res.isOut] at hout
          | missing => exact hbad .missing (by intro _ _ _ hh; cases hh) rfl (by simp [step, hloc, hia, hk, hv])
          | badExt => exact hbad .badExt (by intro _ _ _ hh; cases hh) rfl (by simp [step, hloc, hia, hk, hv])
          | ok a' sl sub =>
            have : step false fs cwd base rec (.ok a l d) h = .ok (loc :: a) (l ++ sl) (addAll sub d) := by
              simp [step, hloc, hia, hk, hv]
            rw [this]
            have hn' : unv U (loc :: a) ≤ n := by omega
            have ⟨h1, h2⟩ := fold_ok false fs cwd base U rec n hrec hleaf hs hU' (loc :: a) (l ++ sl) (addAll sub d) hn'
            exact ⟨h1, fun al' l' doc hh q hq => h2 al' l' doc hh q (by simp [hq])⟩

theorem visit_terminates (sh : Bool) (fs : FS) (cwd : Path) (U : List Path) (hclosed : ClosedIn fs cwd U)
    (h5 : sh = false → H5Leaf fs) :
    ∀ f p al, unv U al < f →
      (visit sh fs cwd f p al).isOut = false ∧
      ∀ al' l doc, visit sh fs cwd f p al = .ok al' l doc → ∀ q ∈ al, q ∈ al' := by
  intro f
  induction f with
  | zero => intro p al h; omega
  | succ f ih =>
    intro p al hf
    unfold visit
    cases hfile : fs p with
    | none => exact ⟨rfl, fun al' l doc h => by cases h⟩
    | some file =>
      refine fold_ok sh fs cwd p.dropLast U (visit sh fs cwd f) f ih ?_ file.hrefs (hclosed p file hfile) al [p] file.comps (by omega)
      intro hsh hpos q hk
      obtain ⟨g, rfl⟩ : ∃ g, f = g + 1 := ⟨f - 1, by omega⟩
      cases hq : fs q with
      | none => simp [visit, hq, Res.isOut]
      | some qf =>
        rw [visit_leaf sh fs cwd g q qf [] hq (h5 hsh q qf hq hk)]
        rfl

end NmlVerif.Include

namespace NmlVerif.Include

/-! ### the document is determined by the read log (no hypothesis on the graph) -/

def compsOf (fs : FS) (q : Path) : List Comp :=
  match fs q with
  | some f => f.comps
  | none => []

/-- the components of the files `l`, file after file, in document order -/
def compsOfAll (fs : FS) (l : List Path) : List Comp := l.flatMap (compsOf fs)

/-- what a reader returns: a log that starts with the file itself, and the left-to-right merge of the
    files read after it into the file's own components -/
def DocByLog (fs : FS) (p : Path) (log : List Path) (doc : List Comp) : Prop :=
  ∃ file rest, fs p = some file ∧ log = p :: rest ∧ doc = addAll (compsOfAll fs rest) file.comps

theorem fold_doc (sh : Bool) (fs : FS) (cwd base : Path) (rec : Path → List Path → Res)
    (hrec : ∀ p al al' sl sub, rec p al = .ok al' sl sub → DocByLog fs p sl sub) :
    ∀ (hs : List (List String)) (a l : List Path) (d : List Comp) (al' l' : List Path) (doc : List Comp),
      hs.foldl (step sh fs cwd base rec) (.ok a l d) = .ok al' l' doc →
      ∃ new, l' = l ++ new ∧ doc = addAll (compsOfAll fs new) d
  | [], a, l, d, al', l', doc, h => by
    simp only [List.foldl_nil] at h
    cases h
    exact ⟨[], by simp, by simp [compsOfAll, addAll]⟩
  | h :: hs, a, l, d, al', l', doc, hfold => by
    obtain ⟨a1, l1, d1, hst, hrest⟩ := fold_cons_ok_inv hfold
    obtain ⟨n2, hl2, hd2⟩ := fold_doc sh fs cwd base rec hrec hs a1 l1 d1 al' l' doc hrest
    rcases step_ok_inv hst with ⟨_, _, rfl, rfl⟩ | ⟨_, a', sl, sub, rfl, rfl, hcase⟩
    · exact ⟨n2, hl2, hd2⟩
    · have D : DocByLog fs (resolveHref fs cwd base h) sl sub := by
        rcases hcase with ⟨hv, _, _⟩ | ⟨hv, _, _, _⟩
        · exact hrec _ _ _ _ _ hv
        · exact hrec _ _ _ _ _ hv
      obtain ⟨file, rest, hfile, rfl, rfl⟩ := D
      refine ⟨(resolveHref fs cwd base h :: rest) ++ n2, by rw [hl2]; simp, ?_⟩
      rw [hd2, addAll_assoc]
      have e : compsOfAll fs ((resolveHref fs cwd base h :: rest) ++ n2) =
          (file.comps ++ compsOfAll fs rest) ++ compsOfAll fs n2 := by
        simp [compsOfAll, compsOf, hfile]
      rw [e, addAll_append, addAll_append]

theorem visit_doc (sh : Bool) (fs : FS) (cwd : Path) :
    ∀ f p al al' l doc, visit sh fs cwd f p al = .ok al' l doc → DocByLog fs p l doc := by
  intro f
  induction f with
  | zero => intro p al al' l doc h; simp [visit] at h
  | succ f ih =>
    intro p al al' l doc h
    unfold visit at h
    cases hfile : fs p with
    | none => simp [hfile] at h
    | some file =>
      simp only [hfile] at h
      obtain ⟨new, hl, hd⟩ := fold_doc sh fs cwd p.dropLast (visit sh fs cwd f) ih file.hrefs al [p] file.comps al' l doc h
      exact ⟨file, new, hfile, by simpa using hl, hd⟩

/-! ### which files are read (under `sh = true`, or `H5Leaf`): the log and the marks -/

inductive Reach (fs : FS) (cwd : Path) : Path → Path → Prop where
  | refl (p : Path) : Reach fs cwd p p
  | step {p q : Path} {file : File} {h : List String} :
      Reach fs cwd p q → fs q = some file → h ∈ file.hrefs → Reach fs cwd p (resolveHref fs cwd q.dropLast h)

theorem Reach.head {fs : FS} {cwd : Path} {p : Path} {file : File} {h : List String} {q : Path}
    (hp : fs p = some file) (hh : h ∈ file.hrefs) (r : Reach fs cwd (resolveHref fs cwd p.dropLast h) q) :
    Reach fs cwd p q := by
  induction r with
  | refl => exact Reach.step (Reach.refl p) hp hh
  | step _ hq hh' ih => exact Reach.step ih hq hh'

def incs (fs : FS) (cwd : Path) (q : Path) : List Path :=
  match fs q with
  | some f => f.hrefs.map (resolveHref fs cwd q.dropLast)
  | none => []

/-- the files `new` were read on top of the marks `a`: they are the new marks (latest first), pairwise
    different and not marked before -/
structure Fresh (a al' new : List Path) : Prop where
  marks : al' = new.reverse ++ a
  nodup : new.Nodup
  notin : ∀ q ∈ new, q ∉ a

theorem Fresh.mono {a al' new : List Path} (F : Fresh a al' new) : ∀ q ∈ a, q ∈ al' := by
  intro q hq; rw [F.marks]; simp [hq]

theorem Fresh.mem {a al' new : List Path} (F : Fresh a al' new) (q : Path) : q ∈ al' ↔ q ∈ new ∨ q ∈ a := by
  rw [F.marks]; simp

structure VSpec (fs : FS) (cwd p : Path) (al al' log : List Path) : Prop where
  shape : ∃ new, log = p :: new ∧ Fresh al al' new
  reach : ∀ q ∈ log, Reach fs cwd p q
  closedP : ∀ i ∈ incs fs cwd p, i ∈ al'
  closedN : ∀ q ∈ log.tail, ∀ i ∈ incs fs cwd q, i ∈ al'

structure FSpec (fs : FS) (cwd base : Path) (hs : List (List String)) (a al' new : List Path) : Prop where
  fresh : Fresh a al' new
  reach : ∀ q ∈ new, ∃ h ∈ hs, Reach fs cwd (resolveHref fs cwd base h) q
  closedH : ∀ h ∈ hs, resolveHref fs cwd base h ∈ al'
  closedN : ∀ q ∈ new, ∀ i ∈ incs fs cwd q, i ∈ al'

theorem fold_spec (sh : Bool) (fs : FS) (cwd base : Path) (rec : Path → List Path → Res)
    (hrec : ∀ p al al' sl sub, rec p al = .ok al' sl sub → VSpec fs cwd p al al' sl)
    (hleaf : ∀ p file al al' sl sub, fs p = some file → file.hrefs = [] → rec p al = .ok al' sl sub →
        al' = al ∧ sl = [p])
    (hsome : ∀ p al al' sl sub, rec p al = .ok al' sl sub → ∃ file, fs p = some file)
    (h5 : sh = false → H5Leaf fs) :
    ∀ (hs : List (List String)) (a l : List Path) (d : List Comp) (al' l' : List Path) (doc : List Comp),
      hs.foldl (step sh fs cwd base rec) (.ok a l d) = .ok al' l' doc →
      ∃ new, l' = l ++ new ∧ FSpec fs cwd base hs a al' new
  | [], a, l, d, al', l', doc, h => by
    simp only [List.foldl_nil] at h
    cases h
    exact ⟨[], by simp, ⟨by simp, List.nodup_nil, by simp⟩, by simp, by simp, by simp⟩
  | h :: hs, a, l, d, al', l', doc, hfold => by
    obtain ⟨a1, l1, d1, hst, hrest⟩ := fold_cons_ok_inv hfold
    obtain ⟨n2, hl2, S⟩ := fold_spec sh fs cwd base rec hrec hleaf hsome h5 hs a1 l1 d1 al' l' doc hrest
    generalize hloc : resolveHref fs cwd base h = loc at *
    rcases step_ok_inv hst with ⟨hia, rfl, rfl, rfl⟩ | ⟨hia, a', sl, sub, rfl, rfl, hcase⟩
    · rw [hloc] at hia
      refine ⟨n2, hl2, S.fresh, ?_, ?_, S.closedN⟩
      · intro q hq
        obtain ⟨h', hh', r⟩ := S.reach q hq
        exact ⟨h', by simp [hh'], r⟩
      · intro h' hh'
        rcases List.mem_cons.mp hh' with e | e
        · subst e; rw [hloc]; exact S.fresh.mono _ hia
        · exact S.closedH h' e
    · rw [hloc] at hia hcase
      -- in both remaining cases: `sl = loc :: n1`, the marks after the step are `n1.reverse ++ loc :: a`
      have key : ∃ n1, sl = loc :: n1 ∧ Fresh (loc :: a) a1 n1 ∧ (∀ q ∈ sl, Reach fs cwd loc q) ∧
          (∀ i ∈ incs fs cwd loc, i ∈ a1) ∧ (∀ q ∈ n1, ∀ i ∈ incs fs cwd q, i ∈ a1) := by
        rcases hcase with ⟨hv, rfl, _⟩ | ⟨hv, rfl, hk, hsh⟩
        · have V := hrec _ _ _ _ _ hv
          obtain ⟨n1, rfl, F⟩ := V.shape
          exact ⟨n1, rfl, F, V.reach, V.closedP, fun q hq => V.closedN q (by simpa using hq)⟩
        · obtain ⟨file, hfile⟩ := hsome _ _ _ _ _ hv
          have hl := h5 hsh loc file hfile hk
          obtain ⟨_, rfl⟩ := hleaf loc file [] a' sl sub hfile hl hv
          refine ⟨[], rfl, ⟨by simp, List.nodup_nil, by simp⟩, ?_, ?_, by simp⟩
          · intro q hq; have : q = loc := by simpa using hq
            subst this; exact Reach.refl _
          · simp [incs, hfile, hl]
      obtain ⟨n1, rfl, F1, hreach1, hcP, hcN⟩ := key
      have hmem1 : ∀ q, q ∈ a1 ↔ q ∈ n1 ∨ q = loc ∨ q ∈ a := by
        intro q; rw [F1.mem]; simp
      have F2 := S.fresh
      refine ⟨(loc :: n1) ++ n2, by rw [hl2]; simp, ⟨?_, ?_, ?_⟩, ?_, ?_, ?_⟩
      · rw [F2.marks, F1.marks]; simp
      · have h1 : loc ∉ n1 := fun hm => F1.notin loc hm (by simp)
        have h2 : loc ∉ n2 := fun hm => F2.notin loc hm ((hmem1 loc).mpr (Or.inr (Or.inl rfl)))
        have h3 : ∀ q ∈ n1, q ∉ n2 := fun q hq hm => F2.notin q hm ((hmem1 q).mpr (Or.inl hq))
        simp only [List.cons_append, List.nodup_cons, List.mem_append, not_or]
        refine ⟨⟨h1, h2⟩, List.nodup_append.mpr ⟨F1.nodup, F2.nodup, ?_⟩⟩
        intro x hx y hy e; subst e; exact h3 x hx hy
      · intro q hq
        simp only [List.cons_append, List.mem_cons, List.mem_append] at hq
        rcases hq with e | e | e
        · subst e; exact hia
        · exact fun hqa => F1.notin q e (by simp [hqa])
        · exact fun hqa => F2.notin q e ((hmem1 q).mpr (Or.inr (Or.inr hqa)))
      · intro q hq
        simp only [List.cons_append, List.mem_cons, List.mem_append] at hq
        rcases hq with e | e | e
        · subst e; exact ⟨h, by simp, by rw [hloc]; exact Reach.refl _⟩
        · exact ⟨h, by simp, by rw [hloc]; exact hreach1 q (by simp [e])⟩
        · obtain ⟨h', hh', r⟩ := S.reach q e
          exact ⟨h', by simp [hh'], r⟩
      · intro h' hh'
        rcases List.mem_cons.mp hh' with e | e
        · subst e; rw [hloc]; exact F2.mono _ ((hmem1 loc).mpr (Or.inr (Or.inl rfl)))
        · exact S.closedH h' e
      · intro q hq i hi
        simp only [List.cons_append, List.mem_cons, List.mem_append] at hq
        rcases hq with e | e | e
        · subst e; exact F2.mono _ (hcP i hi)
        · exact F2.mono _ (hcN q e i hi)
        · exact S.closedN q e i hi

theorem visit_spec (sh : Bool) (fs : FS) (cwd : Path) (h5 : sh = false → H5Leaf fs) :
    ∀ f p al al' l doc, visit sh fs cwd f p al = .ok al' l doc → VSpec fs cwd p al al' l := by
  intro f
  induction f with
  | zero => intro p al al' l doc h; simp [visit] at h
  | succ f ih =>
    intro p al al' l doc h
    unfold visit at h
    cases hfile : fs p with
    | none => simp [hfile] at h
    | some file =>
      simp only [hfile] at h
      have hleaf : ∀ q qf a a' sl sub, fs q = some qf → qf.hrefs = [] → visit sh fs cwd f q a = .ok a' sl sub →
          a' = a ∧ sl = [q] := by
        intro q qf a a' sl sub hq hl hv
        cases f with
        | zero => simp [visit] at hv
        | succ g =>
          rw [visit_leaf sh fs cwd g q qf a hq hl] at hv
          cases hv; exact ⟨rfl, rfl⟩
      have hsome : ∀ q a a' sl sub, visit sh fs cwd f q a = .ok a' sl sub → ∃ qf, fs q = some qf := by
        intro q a a' sl sub hv
        cases f with
        | zero => simp [visit] at hv
        | succ g =>
          cases hq : fs q with
          | none => simp [visit, hq] at hv
          | some qf => exact ⟨qf, rfl⟩
      obtain ⟨new, hl, S⟩ := fold_spec sh fs cwd p.dropLast (visit sh fs cwd f) ih hleaf hsome h5 file.hrefs al [p] file.comps al' l doc h
      have hl' : l = p :: new := by simpa using hl
      subst hl'
      refine ⟨⟨new, rfl, S.fresh⟩, ?_, ?_, ?_⟩
      · intro q hq
        rcases List.mem_cons.mp hq with e | e
        · subst e; exact Reach.refl _
        · obtain ⟨h', hh', r⟩ := S.reach q e
          exact Reach.head hfile hh' r
      · intro i hi
        simp only [incs, hfile, List.mem_map] at hi
        obtain ⟨h', hh', rfl⟩ := hi
        exact S.closedH h' hh'
      · intro q hq; exact S.closedN q (by simpa using hq)

end NmlVerif.Include

namespace NmlVerif.Include

/-! ### the order of the log: depth-first preorder of the include graph

`dfsList succ fuel todo seen` is the textbook recursive depth-first traversal of a graph given by its
successor function: the targets `todo` are visited left to right, a target in `seen` is skipped, a new one is
marked, emitted, and its successors are traversed before the next target.  It returns the marks and the
preorder.  It knows nothing about files, documents or merging. -/

def dfsStep (succ : Path → List Path) (rec : List Path → List Path → List Path × List Path)
    (acc : List Path × List Path) (t : Path) : List Path × List Path :=
  if t ∈ acc.1 then acc else
    let r := rec (succ t) (t :: acc.1)
    (r.1, acc.2 ++ t :: r.2)

def dfsList (succ : Path → List Path) : Nat → List Path → List Path → List Path × List Path
  | 0, _, seen => (seen, [])
  | f+1, todo, seen => todo.foldl (dfsStep succ (dfsList succ f)) (seen, [])

theorem fold_dfs (sh : Bool) (fs : FS) (cwd base : Path) (rec : Path → List Path → Res)
    (drec : List Path → List Path → List Path × List Path)
    (hrec : ∀ p al al' sl sub, rec p al = .ok al' sl sub →
        ∃ rest, sl = p :: rest ∧ drec (incs fs cwd p) al = (al', rest))
    (hleaf : ∀ p file al al' sl sub, fs p = some file → file.hrefs = [] → rec p al = .ok al' sl sub → sl = [p])
    (hdleaf : ∀ seen, drec [] seen = (seen, []))
    (hsome : ∀ p al al' sl sub, rec p al = .ok al' sl sub → ∃ file, fs p = some file)
    (h5 : sh = false → H5Leaf fs) :
    ∀ (hs : List (List String)) (a l : List Path) (d : List Comp) (al' l' : List Path) (doc : List Comp),
      hs.foldl (step sh fs cwd base rec) (.ok a l d) = .ok al' l' doc →
      ∃ new, l' = l ++ new ∧
        ∀ l0, (hs.map (resolveHref fs cwd base)).foldl (dfsStep (incs fs cwd) drec) (a, l0) = (al', l0 ++ new)
  | [], a, l, d, al', l', doc, h => by
    simp only [List.foldl_nil] at h
    cases h
    exact ⟨[], by simp, by simp⟩
  | h :: hs, a, l, d, al', l', doc, hfold => by
    obtain ⟨a1, l1, d1, hst, hrest⟩ := fold_cons_ok_inv hfold
    obtain ⟨n2, hl2, hd2⟩ := fold_dfs sh fs cwd base rec drec hrec hleaf hdleaf hsome h5 hs a1 l1 d1 al' l' doc hrest
    generalize hloc : resolveHref fs cwd base h = loc at *
    rcases step_ok_inv hst with ⟨hia, rfl, rfl, rfl⟩ | ⟨hia, a', sl, sub, rfl, rfl, hcase⟩
    · rw [hloc] at hia
      refine ⟨n2, hl2, ?_⟩
      intro l0
      simp only [List.map_cons, List.foldl_cons, hloc]
      have : dfsStep (incs fs cwd) drec (a1, l0) loc = (a1, l0) := by simp [dfsStep, hia]
      rw [this]; exact hd2 l0
    · rw [hloc] at hia hcase
      have key : ∃ rest, sl = loc :: rest ∧ drec (incs fs cwd loc) (loc :: a) = (a1, rest) := by
        rcases hcase with ⟨hv, rfl, _⟩ | ⟨hv, rfl, hk, hsh⟩
        · exact hrec _ _ _ _ _ hv
        · obtain ⟨file, hfile⟩ := hsome _ _ _ _ _ hv
          have hl := h5 hsh loc file hfile hk
          have := hleaf loc file [] a' sl sub hfile hl hv
          subst this
          refine ⟨[], rfl, ?_⟩
          have : incs fs cwd loc = [] := by simp [incs, hfile, hl]
          rw [this, hdleaf]
      obtain ⟨rest, rfl, hdr⟩ := key
      refine ⟨(loc :: rest) ++ n2, by rw [hl2]; simp, ?_⟩
      intro l0
      simp only [List.map_cons, List.foldl_cons, hloc]
      have : dfsStep (incs fs cwd) drec (a, l0) loc = (a1, l0 ++ loc :: rest) := by
        simp [dfsStep, hia, hdr]
      rw [this, hd2]
      simp

theorem dfsList_nil (succ : Path → List Path) (f : Nat) (seen : List Path) : dfsList succ f [] seen = (seen, []) := by
  cases f <;> rfl

theorem visit_dfs (sh : Bool) (fs : FS) (cwd : Path) (h5 : sh = false → H5Leaf fs) :
    ∀ f p al al' l doc, visit sh fs cwd f p al = .ok al' l doc →
      ∃ rest, l = p :: rest ∧ dfsList (incs fs cwd) f (incs fs cwd p) al = (al', rest) := by
  intro f
  induction f with
  | zero => intro p al al' l doc h; simp [visit] at h
  | succ f ih =>
    intro p al al' l doc h
    unfold visit at h
    cases hfile : fs p with
    | none => simp [hfile] at h
    | some file =>
      simp only [hfile] at h
      have hleaf : ∀ q qf a a' sl sub, fs q = some qf → qf.hrefs = [] → visit sh fs cwd f q a = .ok a' sl sub →
          sl = [q] := by
        intro q qf a a' sl sub hq hl hv
        cases f with
        | zero => simp [visit] at hv
        | succ g =>
          rw [visit_leaf sh fs cwd g q qf a hq hl] at hv
          cases hv; rfl
      have hsome : ∀ q a a' sl sub, visit sh fs cwd f q a = .ok a' sl sub → ∃ qf, fs q = some qf := by
        intro q a a' sl sub hv
        cases f with
        | zero => simp [visit] at hv
        | succ g =>
          cases hq : fs q with
          | none => simp [visit, hq] at hv
          | some qf => exact ⟨qf, rfl⟩
      obtain ⟨new, hl, hd⟩ := fold_dfs sh fs cwd p.dropLast (visit sh fs cwd f) (dfsList (incs fs cwd) f) ih hleaf
        (dfsList_nil _ f) hsome h5 file.hrefs al [p] file.comps al' l doc h
      refine ⟨new, by simpa using hl, ?_⟩
      have := hd []
      simpa [dfsList, incs, hfile] using this

end NmlVerif.Include

namespace NmlVerif.Include

/-! ### which files are read — no hypothesis at all (any `sh`, HDF5 files with includes of their own)

The log of a successful read is closed under include links and contains only reachable files, whether or not
some file was read twice.  Every mark is either one that was given or a file of the log. -/

structure WSpec (fs : FS) (cwd p : Path) (al al' log : List Path) : Prop where
  head : p ∈ log
  mono : ∀ q ∈ al, q ∈ al'
  marks : ∀ q ∈ al', q ∈ al ∨ q ∈ log
  reach : ∀ q ∈ log, Reach fs cwd p q
  closed : ∀ q ∈ log, ∀ i ∈ incs fs cwd q, i ∈ log ∨ i ∈ al

structure WFold (fs : FS) (cwd base : Path) (hs : List (List String)) (a al' new : List Path) : Prop where
  mono : ∀ q ∈ a, q ∈ al'
  marks : ∀ q ∈ al', q ∈ a ∨ q ∈ new
  reach : ∀ q ∈ new, ∃ h ∈ hs, Reach fs cwd (resolveHref fs cwd base h) q
  closedH : ∀ h ∈ hs, resolveHref fs cwd base h ∈ al'
  closedN : ∀ q ∈ new, ∀ i ∈ incs fs cwd q, i ∈ new ∨ i ∈ a

theorem fold_wspec (sh : Bool) (fs : FS) (cwd base : Path) (rec : Path → List Path → Res)
    (hrec : ∀ p al al' sl sub, rec p al = .ok al' sl sub → WSpec fs cwd p al al' sl) :
    ∀ (hs : List (List String)) (a l : List Path) (d : List Comp) (al' l' : List Path) (doc : List Comp),
      hs.foldl (step sh fs cwd base rec) (.ok a l d) = .ok al' l' doc →
      ∃ new, l' = l ++ new ∧ WFold fs cwd base hs a al' new
  | [], a, l, d, al', l', doc, h => by
    simp only [List.foldl_nil] at h
    cases h
    exact ⟨[], by simp, fun q hq => hq, fun q hq => Or.inl hq, by simp, by simp, by simp⟩
  | h :: hs, a, l, d, al', l', doc, hfold => by
    obtain ⟨a1, l1, d1, hst, hrest⟩ := fold_cons_ok_inv hfold
    obtain ⟨n2, hl2, S⟩ := fold_wspec sh fs cwd base rec hrec hs a1 l1 d1 al' l' doc hrest
    generalize hloc : resolveHref fs cwd base h = loc at *
    rcases step_ok_inv hst with ⟨hia, rfl, rfl, rfl⟩ | ⟨hia, a', sl, sub, rfl, rfl, hcase⟩
    · rw [hloc] at hia
      refine ⟨n2, hl2, S.mono, S.marks, ?_, ?_, S.closedN⟩
      · intro q hq
        obtain ⟨h', hh', r⟩ := S.reach q hq
        exact ⟨h', by simp [hh'], r⟩
      · intro h' hh'
        rcases List.mem_cons.mp hh' with e | e
        · subst e; rw [hloc]; exact S.mono _ hia
        · exact S.closedH h' e
    · rw [hloc] at hia hcase
      -- facts common to both ways of reading `loc`
      have key : loc ∈ sl ∧ loc ∈ a1 ∧ (∀ q ∈ a, q ∈ a1) ∧ (∀ q ∈ a1, q ∈ a ∨ q ∈ sl) ∧
          (∀ q ∈ sl, Reach fs cwd loc q) ∧ (∀ q ∈ sl, ∀ i ∈ incs fs cwd q, i ∈ sl ∨ i ∈ a) := by
        rcases hcase with ⟨hv, rfl, _⟩ | ⟨hv, rfl, _, _⟩
        · have W := hrec _ _ _ _ _ hv
          refine ⟨W.head, W.mono loc (by simp), fun q hq => W.mono q (by simp [hq]), ?_, W.reach, ?_⟩
          · intro q hq
            rcases W.marks q hq with e | e
            · rcases List.mem_cons.mp e with e' | e'
              · subst e'; exact Or.inr W.head
              · exact Or.inl e'
            · exact Or.inr e
          · intro q hq i hi
            rcases W.closed q hq i hi with e | e
            · exact Or.inl e
            · rcases List.mem_cons.mp e with e' | e'
              · subst e'; exact Or.inl W.head
              · exact Or.inr e'
        · have W := hrec _ _ _ _ _ hv
          refine ⟨W.head, by simp, fun q hq => by simp [hq], ?_, W.reach, ?_⟩
          · intro q hq
            rcases List.mem_cons.mp hq with e' | e'
            · subst e'; exact Or.inr W.head
            · exact Or.inl e'
          · intro q hq i hi
            rcases W.closed q hq i hi with e | e
            · exact Or.inl e
            · cases e
      obtain ⟨hhead, hloc1, hmono1, hmarks1, hreach1, hclosed1⟩ := key
      refine ⟨sl ++ n2, by rw [hl2]; simp, fun q hq => S.mono q (hmono1 q hq), ?_, ?_, ?_, ?_⟩
      · intro q hq
        rcases S.marks q hq with e | e
        · rcases hmarks1 q e with e' | e'
          · exact Or.inl e'
          · exact Or.inr (by simp [e'])
        · exact Or.inr (by simp [e])
      · intro q hq
        rcases List.mem_append.mp hq with e | e
        · exact ⟨h, by simp, by rw [hloc]; exact hreach1 q e⟩
        · obtain ⟨h', hh', r⟩ := S.reach q e
          exact ⟨h', by simp [hh'], r⟩
      · intro h' hh'
        rcases List.mem_cons.mp hh' with e | e
        · subst e; rw [hloc]; exact S.mono _ hloc1
        · exact S.closedH h' e
      · intro q hq i hi
        rcases List.mem_append.mp hq with e | e
        · rcases hclosed1 q e i hi with e' | e'
          · exact Or.inl (by simp [e'])
          · exact Or.inr e'
        · rcases S.closedN q e i hi with e' | e'
          · exact Or.inl (by simp [e'])
          · rcases hmarks1 i e' with e'' | e''
            · exact Or.inr e''
            · exact Or.inl (by simp [e''])

theorem visit_wspec (sh : Bool) (fs : FS) (cwd : Path) :
    ∀ f p al al' l doc, visit sh fs cwd f p al = .ok al' l doc → WSpec fs cwd p al al' l := by
  intro f
  induction f with
  | zero => intro p al al' l doc h; simp [visit] at h
  | succ f ih =>
    intro p al al' l doc h
    unfold visit at h
    cases hfile : fs p with
    | none => simp [hfile] at h
    | some file =>
      simp only [hfile] at h
      obtain ⟨new, hl, S⟩ := fold_wspec sh fs cwd p.dropLast (visit sh fs cwd f) ih file.hrefs al [p] file.comps al' l doc h
      have hl' : l = p :: new := by simpa using hl
      subst hl'
      have hincs : ∀ i ∈ incs fs cwd p, i ∈ al' := by
        intro i hi
        simp only [incs, hfile, List.mem_map] at hi
        obtain ⟨h', hh', rfl⟩ := hi
        exact S.closedH h' hh'
      refine ⟨by simp, S.mono, ?_, ?_, ?_⟩
      · intro q hq
        rcases S.marks q hq with e | e
        · exact Or.inl e
        · exact Or.inr (by simp [e])
      · intro q hq
        rcases List.mem_cons.mp hq with e | e
        · subst e; exact Reach.refl _
        · obtain ⟨h', hh', r⟩ := S.reach q e
          exact Reach.head hfile hh' r
      · intro q hq i hi
        rcases List.mem_cons.mp hq with e | e
        · subst e
          rcases S.marks i (hincs i hi) with e' | e'
          · exact Or.inr e'
          · exact Or.inl (by simp [e'])
        · rcases S.closedN q e i hi with e' | e'
          · exact Or.inl (by simp [e'])
          · exact Or.inr e'

end NmlVerif.Include
