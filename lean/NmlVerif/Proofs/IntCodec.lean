import NmlVerif.Model.XmlText
/-! Integer codec: `int()` (ASCII model) inverts `"%d"` (`Int.repr`).  Core only. -/
namespace NmlVerif.XmlText
open Py

theorem digit_not_space (c : Char) (h : c.isDigit = true) : isPySpace c = false := by
  cases hsp : isPySpace c with
  | false => rfl
  | true =>
    exfalso
    simp only [isPySpace, Bool.or_eq_true, decide_eq_true_eq] at hsp
    rcases hsp with ((((((((hs | hs) | hs) | hs) | hs) | hs) | hs) | hs) | hs) | hs <;>
      (subst hs; exact absurd h (by decide))

theorem dropWhile_id (p : Char → Bool) : ∀ l : Str, (∀ c ∈ l, p c = false) → l.dropWhile p = l
  | [], _ => rfl
  | c :: r, h => by simp [List.dropWhile, h c (by simp)]

theorem strip_id (s : Str) (h : ∀ c ∈ s, isPySpace c = false) : strip s = s := by
  unfold strip
  rw [dropWhile_id isPySpace s h, dropWhile_id isPySpace s.reverse (fun c hc => h c (List.mem_reverse.mp hc))]
  simp

theorem pyDigits_some : ∀ (ds : Str), (∀ c ∈ ds, c.isDigit = true) → ∀ a : Nat,
    pyDigits ds (some a) false = some (Nat.ofDigitChars 10 ds a)
  | [], _, a => by simp [pyDigits, Nat.ofDigitChars]
  | c :: r, h, a => by
    have hc := h c (by simp)
    have ih := pyDigits_some r (fun x hx => h x (by simp [hx])) (a * 10 + (c.toNat - 48))
    simp only [pyDigits, hc, if_true, Option.getD_some, ih, Nat.ofDigitChars_cons]
    have : '0'.toNat = 48 := by decide
    rw [this, Nat.mul_comm]

theorem pyDigits_none (c : Char) (r : Str) (h : ∀ x ∈ c :: r, x.isDigit = true) :
    pyDigits (c :: r) none false = some (Nat.ofDigitChars 10 (c :: r) 0) := by
  have hc := h c (by simp)
  have := pyDigits_some r (fun x hx => h x (by simp [hx])) (0 * 10 + (c.toNat - 48))
  simp only [pyDigits, hc, if_true, Option.getD_none, this, Nat.ofDigitChars_cons]
  have e : '0'.toNat = 48 := by decide
  rw [e, Nat.mul_comm]

theorem pyDigits_toDigits (n : Nat) : pyDigits (Nat.toDigits 10 n) none false = some n := by
  have hd : ∀ x ∈ Nat.toDigits 10 n, x.isDigit = true := fun x hx => Nat.isDigit_of_mem_toDigits (by decide) (by decide) hx
  cases hl : Nat.toDigits 10 n with
  | nil => exact absurd hl Nat.toDigits_ne_nil
  | cons c r =>
    rw [hl] at hd
    rw [pyDigits_none c r hd, ← hl, Nat.ofDigitChars_toDigits (by decide) (by decide)]

theorem int_nat (n : Nat) : Py.int (Nat.toDigits 10 n) = some (n : Int) := by
  have hd : ∀ x ∈ Nat.toDigits 10 n, x.isDigit = true := fun x hx => Nat.isDigit_of_mem_toDigits (by decide) (by decide) hx
  unfold Py.int
  rw [strip_id _ (fun c hc => digit_not_space c (hd c hc))]
  have hp := pyDigits_toDigits n
  cases hl : Nat.toDigits 10 n with
  | nil => exact absurd hl Nat.toDigits_ne_nil
  | cons c r =>
    rw [hl] at hp hd
    have hc := hd c (by simp)
    have h1 : c ≠ '-' := by intro e; subst e; exact absurd hc (by decide)
    have h2 : c ≠ '+' := by intro e; subst e; exact absurd hc (by decide)
    split
    · rename_i heq; simp at heq; exact absurd heq.1 h1
    · rename_i heq; simp at heq; exact absurd heq.1 h2
    · simp [hp]

theorem int_neg (n : Nat) : Py.int ('-' :: Nat.toDigits 10 n) = some (-(n : Int)) := by
  have hd : ∀ x ∈ Nat.toDigits 10 n, x.isDigit = true := fun x hx => Nat.isDigit_of_mem_toDigits (by decide) (by decide) hx
  unfold Py.int
  rw [strip_id _ (by
    intro c hc
    rcases List.mem_cons.mp hc with rfl | hc
    · decide
    · exact digit_not_space c (hd c hc))]
  simp [pyDigits_toDigits n]

theorem parseInt_fmtInt (i : Int) : parseInt (fmtInt i) = some i := by
  unfold parseInt fmtInt
  cases i with
  | ofNat m =>
    have : (toString (Int.ofNat m)).toList = Nat.toDigits 10 m := by
      show (Int.repr (Int.ofNat m)).toList = _
      simp [Int.repr, Nat.toList_repr]
    rw [this]; exact int_nat m
  | negSucc m =>
    have : (toString (Int.negSucc m)).toList = '-' :: Nat.toDigits 10 (m + 1) := by
      show (Int.repr (Int.negSucc m)).toList = _
      simp [Int.repr, Nat.toList_repr]
    rw [this, int_neg (m + 1)]
    rfl

end NmlVerif.XmlText
