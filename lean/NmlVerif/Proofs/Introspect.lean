import NmlVerif.Model.Introspect
/-!
Lemmas for C11 (second pass): association lists, `dedup`, the cached `_get_members` on the class-level state, the
invariant under which every introspection call answers like the pure reading of the tables, `get_by_id`.
-/
namespace NmlVerif.Introspect
open NmlVerif.Binding NmlVerif.Schema

/-! ### association lists -/

theorem lookup_setA_self {α : Type} (c : Nat) (v : α) (l : List (Nat × α)) : lookup c (setA c v l) = some v := by
  induction l with
  | nil => simp [setA, lookup]
  | cons p r ih =>
    obtain ⟨k, w⟩ := p
    by_cases h : c = k
    · simp [setA, h, lookup]
    · simp [setA, h, lookup, ih]

theorem lookup_setA_ne {α : Type} (c d : Nat) (v : α) (l : List (Nat × α)) (h : d ≠ c) :
    lookup d (setA c v l) = lookup d l := by
  induction l with
  | nil => simp [setA, lookup, h]
  | cons p r ih =>
    obtain ⟨k, w⟩ := p
    by_cases hc : c = k
    · subst hc; simp [setA, lookup, h]
    · by_cases hd : d = k
      · simp [setA, hc, lookup, hd]
      · simp [setA, hc, lookup, hd, ih]

theorem setA_setA {α : Type} (c : Nat) (v w : α) (l : List (Nat × α)) : setA c v (setA c w l) = setA c v l := by
  induction l with
  | nil => simp [setA]
  | cons p r ih =>
    obtain ⟨k, u⟩ := p
    by_cases h : c = k
    · simp [setA, h]
    · simp [setA, h, ih]

theorem mem_setA {α : Type} (c : Nat) (v : α) (l : List (Nat × α)) (p : Nat × α) (h : p ∈ setA c v l) :
    p = (c, v) ∨ p ∈ l := by
  induction l with
  | nil => simp [setA] at h; exact Or.inl h
  | cons q r ih =>
    obtain ⟨k, u⟩ := q
    by_cases hc : c = k
    · simp only [setA, hc, if_true, List.mem_cons] at h
      rcases h with h | h
      · left; rw [h, hc]
      · right; exact List.mem_cons_of_mem _ h
    · simp only [setA, hc, if_false, List.mem_cons] at h
      rcases h with h | h
      · right; rw [h]; exact List.mem_cons_self
      · rcases ih h with h | h
        · exact Or.inl h
        · right; exact List.mem_cons_of_mem _ h

/-! ### dedup -/

theorem mem_dedup (s : Spec) (l : List Spec) : s ∈ dedup l ↔ s ∈ l := by
  induction l with
  | nil => simp [dedup]
  | cons a r ih =>
    unfold dedup
    by_cases h : r.contains a = true
    · rw [if_pos h]
      simp only [ih, List.mem_cons]
      constructor
      · exact Or.inr
      · rintro (rfl | h')
        · simpa using h
        · exact h'
    · rw [if_neg h]
      simp [ih]

/-- the copy of the own table in front of the MRO sum (which starts with the class itself) adds nothing -/
theorem dedup_append_of_subset (a b : List Spec) (h : ∀ s ∈ a, s ∈ b) : dedup (a ++ b) = dedup b := by
  induction a with
  | nil => rfl
  | cons x r ih =>
    have hx : (r ++ b).contains x = true := by
      simp only [List.contains_iff_mem, List.mem_append]
      exact Or.inr (h x List.mem_cons_self)
    simp only [List.cons_append, dedup, hx, if_true]
    exact ih (fun s hs => h s (List.mem_cons_of_mem _ hs))

theorem dedup_nodup (l : List Spec) : (dedup l).Nodup := by
  induction l with
  | nil => simp [dedup]
  | cons a r ih =>
    unfold dedup
    by_cases h : r.contains a = true
    · rw [if_pos h]; exact ih
    · rw [if_neg h]
      refine List.nodup_cons.mpr ⟨?_, ih⟩
      rw [mem_dedup]
      simpa using h

/-! ### the initial state and the class chain -/

theorem lookup_init (T : Table) (c : Nat) :
    lookup c (T.map fun k => (k.name, k.specs)) = (findClass T c).map (·.specs) := by
  induction T with
  | nil => simp [lookup, findClass]
  | cons k r ih =>
    simp only [List.map_cons, lookup, findClass, List.find?_cons]
    by_cases h : c = k.name
    · simp [h]
    · have h' : (k.name == c) = false := by simpa using fun e => h e.symm
      simp only [h, if_false, h']
      simpa [findClass] using ih

theorem findClass_name (T : Table) (c : Nat) (k : ClassIR) (h : findClass T c = some k) : k.name = c := by
  have := List.find?_some h
  simpa using this

theorem chain_tables (T : Table) (n c : Nat) :
    ((chain T n c).map (·.name)).flatMap (tableOf (initState T)) = (chain T n c).flatMap (·.specs) := by
  induction n generalizing c with
  | zero => simp [chain]
  | succ n ih =>
    unfold chain
    cases hf : findClass T c with
    | none => simp
    | some k =>
      have hn := findClass_name T c k hf
      have hk : tableOf (initState T) k.name = k.specs := by
        simp only [tableOf, initState, lookup_init, hn, hf, Option.map_some]
      cases hb : k.base with
      | none => simp only [hb]; simp [hk]
      | some b => simp only [hb]; simp [hk, ih b]


/-- on the untouched tables the state-based member list is the pure one -/
theorem members_init (T : Table) (c : Nat) :
    dedup (tableOf (initState T) c ++ (mro T c).flatMap (tableOf (initState T))) = getMembers T c := by
  unfold getMembers mro
  rw [chain_tables]
  apply dedup_append_of_subset
  intro s hs
  -- the class's own entries head its chain
  have hlen : T.length ≠ 0 := by
    intro h0
    have : T = [] := List.length_eq_zero_iff.mp h0
    subst this
    simp [tableOf, initState, lookup] at hs
  obtain ⟨n, hn⟩ := Nat.exists_eq_succ_of_ne_zero hlen
  rw [hn]
  unfold chain
  simp only [tableOf, initState, lookup_init] at hs
  cases hf : findClass T c with
  | none => simp [hf] at hs
  | some k =>
    simp only [hf, Option.map_some] at hs
    cases hb : k.base with
    | none => simp only [hb]; simpa using hs
    | some b => simp only [hb, List.flatMap_cons, List.mem_append]; exact Or.inl hs

/-! ### the invariant of the class-level state -/

/-- the tables are the initial ones and every cache entry is a FRESH list holding the pure member list -/
def Inv (T : Table) (S : CState) : Prop :=
  S.tables = (initState T).tables ∧ ∀ p ∈ S.cache, p.2 = .fresh (getMembers T p.1)

theorem inv_init (T : Table) : Inv T (initState T) := ⟨rfl, by simp [initState]⟩

theorem tableOf_inv {T : Table} {S : CState} (h : Inv T S) (c : Nat) : tableOf S c = tableOf (initState T) c := by
  simp [tableOf, h.1]

theorem lookup_mem {α : Type} (c : Nat) (v : α) (l : List (Nat × α)) (h : lookup c l = some v) : (c, v) ∈ l := by
  induction l with
  | nil => simp [lookup] at h
  | cons p r ih =>
    obtain ⟨k, w⟩ := p
    by_cases hc : c = k
    · simp only [lookup, hc, if_true, Option.some.injEq] at h
      rw [hc, h]; exact List.mem_cons_self
    · simp only [lookup, hc, if_false] at h
      exact List.mem_cons_of_mem _ (ih h)

theorem getMembersM_spec {T : Table} {S : CState} (h : Inv T S) (c : Nat) :
    (getMembersM T S c).1 = getMembers T c ∧ Inv T (getMembersM T S c).2 := by
  unfold getMembersM
  cases hl : lookup c S.cache with
  | some v =>
    have hv := h.2 _ (lookup_mem c v _ hl)
    simp only at hv
    simp [hv, readL, h]
  | none =>
    have e : dedup (tableOf S c ++ (mro T c).flatMap (tableOf S)) = getMembers T c := by
      have : tableOf S = tableOf (initState T) := funext (tableOf_inv h)
      rw [this]; exact members_init T c
    simp only [e]
    refine ⟨trivial, h.1, ?_⟩
    intro p hp
    rcases mem_setA _ _ _ _ hp with rfl | hp
    · rfl
    · exact h.2 p hp

/-! ### the translated `_get_members` shape computes `getMembersM` -/

theorem foldl_iadd_fresh (S : CState) (l : List Nat) (a : List Spec) :
    l.foldl (fun (p : CState × LVal) k => iaddL p.1 p.2 (tableOf p.1 k)) (S, .fresh a)
      = (S, .fresh (a ++ l.flatMap (tableOf S))) := by
  induction l generalizing a with
  | nil => simp
  | cons k r ih =>
    have e : iaddL S (.fresh a) (tableOf S k) = (S, .fresh (a ++ tableOf S k)) := rfl
    simp only [List.foldl_cons, e, ih, List.flatMap_cons, List.append_assoc]

/-- the statement sequence of today's `_get_members` -/
def gmShape : List GMCmd :=
  [.bindCurrentClass, .tryReturnCached, .cacheAssignCopyOwn, .forMroIaddCache, .cacheDedup, .returnCache]

theorem runGM_shape (T : Table) (S : CState) (c : Nat) :
    runGM T gmShape S c = (some (getMembersM T S c).1, (getMembersM T S c).2) := by
  unfold runGM getMembersM gmShape
  cases hl : lookup c S.cache with
  | some v =>
    simp [runGMCmds, GMCmd.exec, hl]
  | none =>
    have e : ∀ cc, tableOf { tables := S.tables, cache := cc } = tableOf S := fun _ => rfl
    simp [runGMCmds, GMCmd.exec, hl, lookup_setA_self, iaddMro, foldl_iadd_fresh, readL, setA_setA, e]

/-! ### the other statement sequences -/

def reqExp : BExp := .ite .optional (.const false) (.const true)

def infoShape : List ICmd :=
  [.initRet, .header, .bindMembers,
   .forMembers { lineName := .name, lineType := .dtype, lineOptional := .optional, dictKey := .name,
                 dictRequired := reqExp, dictType := .dtype, listItem := .name },
   .retByFormat, .printStr, .retStr]

def pinfoShape : List PCmd :=
  [.excluded, .header, .initRetinfo, .moduleClasses,
   .forClasses { matchType := .dtype, key := .name, required := reqExp, type := .dtype },
   .buildString, .retByFormat, .printStr, .retStr]

def checkShape : List CCmd := [.bindMembers, .initNames, .forCollect .name, .bindArgs, .forArgsRaise]

def docGetShape (k : Bool) : List GCmd := [.guardEmptyId, .initAllIds, .scan, .warn k, .returnNone]
def netGetShape (k : Bool) : List GCmd := [.initAllIds, .scan, .warn k, .returnNone]

def shapeProgs (k : Bool) : Progs :=
  { gm := gmShape, info := infoShape, pinfo := pinfoShape, check := checkShape, docGet := docGetShape k, netGet := netGetShape k }

theorem reqExp_eval (s : Spec) : reqExp.eval s = !s.optional := by
  cases h : s.optional <;> simp [reqExp, BExp.eval, h]

theorem runInfo_shape (ms : List Spec) (sc : Bool) (fmt : Fmt) :
    runInfo infoShape ms sc fmt = some (infoOut ms sc fmt) := by
  have e : (fun (d : List (Nat × Bool × Nat)) (s : Spec) => setA (NExp.name.eval s) (reqExp.eval s, NExp.dtype.eval s) d)
      = fun d s => setA s.name (!s.optional, s.dtype) d := by
    funext d s; simp [NExp.eval, reqExp_eval]
  cases sc <;> cases fmt <;>
    simp [runInfo, infoShape, runICmds, ICmd.exec, infoOut, dictOf, NExp.eval, BExp.eval, reqExp_eval, e]

theorem runPinfo_shape (cm : List (Nat × List Spec)) (c : Nat) (fmt : Fmt) :
    runPinfo pinfoShape cm c fmt = some (pinfoOut cm c fmt) := by
  have e : pinfoFold { matchType := .dtype, key := .name, required := reqExp, type := .dtype } c cm = pinfoDict cm c := by
    simp [pinfoFold, pinfoDict, NExp.eval, reqExp_eval]
  cases fmt <;> simp [runPinfo, pinfoShape, runPCmds, PCmd.exec, pinfoOut, e]

theorem runCheck_shape (ms : List Spec) (kws : List Nat) :
    runCheck checkShape ms kws = some (checkArgs ms kws) := by
  simp only [runCheck, checkShape, runCCmds, CCmd.exec, checkArgs]
  simp only [Bool.false_or, Bool.or_false, Bool.false_eq_true, if_false, List.nil_append, Option.some.injEq]
  by_cases h : (kws.any fun k => !(ms.map NExp.name.eval).contains k) = true
  · simp only [h, Bool.or_true, if_true, Bool.true_or, if_true]
    simp only [List.any_eq_true] at h
    obtain ⟨k, hk, hn⟩ := h
    simp only [Bool.not_true, Bool.false_eq, List.all_eq_false]
    exact ⟨k, hk, by simpa [NExp.eval] using hn⟩
  · have h' : (kws.any fun k => !(ms.map NExp.name.eval).contains k) = false := by simpa using h
    simp only [h', Bool.or_false, Bool.false_eq_true, if_false, Bool.not_false, Bool.true_eq, List.all_eq_true]
    intro k hk
    have := List.any_eq_false.mp h' k hk
    simpa [NExp.eval] using this

theorem runTail (k : Bool) (names : List Nat) (vals : List (Nat × MVal)) (wc : Nat) (i : IdVal) :
    (runGCmds names vals i [.scan, .warn k, .returnNone] { ids := some [], wc := wc }).result
      = afterScan k i wc (scanMembers vals i names []) := by
  generalize hf : scanMembers vals i names [] = f
  cases f with
  | found c => simp [runGCmds, GCmd.exec, hf, afterScan, GSt.result]
  | raised e => simp [runGCmds, GCmd.exec, hf, afterScan, GSt.result]
  | cont ids =>
    cases hw : warnStep k i ids wc with
    | none => simp [runGCmds, GCmd.exec, hf, afterScan, hw, GSt.result]
    | some w => simp [runGCmds, GCmd.exec, hf, afterScan, hw, GSt.result]

theorem runGCmds_cons (names : List Nat) (vals : List (Nat × MVal)) (i : IdVal) (s : GCmd) (r : List GCmd) (σ : GSt) :
    runGCmds names vals i (s :: r) σ = if σ.out.isSome then σ else runGCmds names vals i r (s.exec names vals i σ) := rfl

theorem runGet_doc_shape (k : Bool) (names : List Nat) (vals : List (Nat × MVal)) (wc : Nat) (i : IdVal) :
    runGet (docGetShape k) names vals wc i = getByIdM true k names vals wc i := by
  unfold getByIdM
  cases i with
  | none => simp [runGet, docGetShape, runGCmds, GCmd.exec, GSt.result]
  | int n => simp [runGet, docGetShape, runGCmds, GCmd.exec, GSt.result]
  | str s =>
    by_cases he : s.isEmpty = true
    · simp [runGet, docGetShape, runGCmds, GCmd.exec, he, GSt.result]
    · have := runTail k names vals wc (.str s)
      simp only [if_true, he, Bool.false_eq_true, if_false]
      rw [← this]
      unfold runGet docGetShape
      rw [runGCmds_cons, runGCmds_cons]
      simp [GCmd.exec, he]

theorem runGet_net_shape (k : Bool) (names : List Nat) (vals : List (Nat × MVal)) (wc : Nat) (i : IdVal) :
    runGet (netGetShape k) names vals wc i = getByIdM false k names vals wc i := by
  unfold getByIdM
  have := runTail k names vals wc i
  simp only [Bool.false_eq_true, if_false]
  rw [← this]
  unfold runGet netGetShape
  rw [runGCmds_cons]
  simp [GCmd.exec]

/-! ### histories -/

theorem allMembersRun_spec {T : Table} (L : List ClassIR) {S : CState} (h : Inv T S) :
    (allMembersRun T (runGM T gmShape) S L).1 = L.map (fun k => (k.name, getMembers T k.name))
      ∧ Inv T (allMembersRun T (runGM T gmShape) S L).2 := by
  induction L generalizing S with
  | nil => exact ⟨rfl, h⟩
  | cons k r ih =>
    have hk := getMembersM_spec h k.name
    have hr := ih hk.2
    simp only [allMembersRun, runGM_shape, List.map_cons]
    exact ⟨by rw [hr.1, hk.1], hr.2⟩

/-- **one call**: under the invariant, every introspection call on the translated statement sequences answers like
    the pure reading of the initial tables, and re-establishes the invariant -/
theorem step_spec {T : Table} (k : Bool) {S : CState} (h : Inv T S) (op : Op) :
    (step T (shapeProgs k) S op).1 = pureAns T k op ∧ Inv T (step T (shapeProgs k) S op).2 := by
  cases op with
  | members c =>
    have hk := getMembersM_spec h c
    simp only [step, shapeProgs, runGM_shape, pureAns]
    exact ⟨by rw [hk.1], hk.2⟩
  | info c sc fmt =>
    have hk := getMembersM_spec h c
    simp only [step, shapeProgs, runGM_shape, pureAns, runInfo_shape]
    exact ⟨by rw [hk.1], hk.2⟩
  | parentinfo c fmt =>
    have hk := allMembersRun_spec (T := T) T h
    simp only [step, shapeProgs, pureAns, runPinfo_shape]
    exact ⟨by rw [hk.1]; rfl, hk.2⟩
  | checkArg c kws =>
    have hk := getMembersM_spec h c
    simp only [step, shapeProgs, runGM_shape, pureAns, runCheck_shape]
    exact ⟨by rw [hk.1], hk.2⟩
  | getById doc hc vals wc i =>
    have ht : tableOf S hc = tableOf (initState T) hc := tableOf_inv h hc
    simp only [step, shapeProgs, pureAns, ht]
    cases doc
    · simp only [Bool.false_eq_true, if_false, runGet_net_shape]; exact ⟨trivial, h⟩
    · simp only [if_true, runGet_doc_shape]; exact ⟨trivial, h⟩

theorem run_spec {T : Table} (k : Bool) (ops : List Op) {S : CState} (h : Inv T S) :
    (run T (shapeProgs k) S ops).1 = ops.map (pureAns T k) ∧ Inv T (run T (shapeProgs k) S ops).2 := by
  induction ops generalizing S with
  | nil => exact ⟨rfl, h⟩
  | cons op r ih =>
    have h1 := step_spec k h op
    have h2 := ih h1.2
    simp only [run, List.map_cons]
    exact ⟨by rw [h1.1, h2.1], h2.2⟩

/-! ### get_by_id: the scan in closed form -/

theorem scanList_eq (i : IdVal) (l : List Comp) (ids : List IdVal) :
    scanList i l ids =
      match (l.filter (·.hasId)).find? (fun c => c.id == i) with
      | some c => .inl c
      | none => .inr (ids ++ (l.filter (·.hasId)).map (·.id)) := by
  induction l generalizing ids with
  | nil => simp [scanList]
  | cons m r ih =>
    unfold scanList
    by_cases hh : m.hasId = true
    · by_cases hi : m.id = i
      · simp [hh, hi]
      · have hi' : ¬ ((m.id == i) = true) := by simpa using hi
        have hfc : List.find? (fun (c : Comp) => c.id == i) (m :: List.filter (fun x => x.hasId) r)
            = List.find? (fun (c : Comp) => c.id == i) (List.filter (fun x => x.hasId) r) :=
          List.find?_cons_of_neg (p := fun (c : Comp) => c.id == i) hi'
        rw [if_pos hh, if_neg hi, ih, List.filter_cons_of_pos (by simpa using hh), hfc]
        cases (List.filter (fun x => x.hasId) r).find? (fun c => c.id == i) with
        | some c => rfl
        | none => simp [List.append_assoc]
    · have hh' : m.hasId = false := by simpa using hh
      simp only [hh', Bool.false_eq_true, if_false, ih]
      rw [List.filter_cons_of_neg (by simp [hh'])]

theorem scanMembers_eq (vals : List (Nat × MVal)) (i : IdVal) (names : List Nat) (ids : List IdVal)
    (h : holderOK vals names = true) :
    scanMembers vals i names ids =
      match (visible vals names).find? (fun c => c.id == i) with
      | some c => .found c
      | none => .cont (ids ++ (visible vals names).map (·.id)) := by
  induction names generalizing ids with
  | nil => simp [scanMembers, visible]
  | cons n r ih =>
    simp only [holderOK, List.all_cons, Bool.and_eq_true] at h
    have hr : holderOK vals r = true := by simpa [holderOK] using h.2
    unfold scanMembers visible
    cases hl : lookup n vals with
    | none => simp [hl] at h
    | some v =>
      cases v with
      | none => simp only [ih _ hr]
      | chars k => simp only [ih _ hr]
      | scalar => simp [hl] at h
      | comps l =>
        simp only [scanList_eq, List.find?_append, List.map_append]
        cases hf : (l.filter (·.hasId)).find? (fun c => c.id == i) with
        | some c => simp
        | none =>
          simp only [Option.none_or, ih _ hr]
          split <;> simp [List.append_assoc]

theorem scanList_inl (i : IdVal) (l : List Comp) (ids : List IdVal) (c : Comp) (h : scanList i l ids = .inl c) :
    c ∈ l ∧ c.hasId = true ∧ c.id = i := by
  rw [scanList_eq] at h
  split at h
  · rename_i d hd
    cases h
    have h1 := List.find?_some hd
    have h2 := List.mem_of_find?_eq_some hd
    simp only [List.mem_filter] at h2
    exact ⟨h2.1, h2.2, by simpa using h1⟩
  · cases h

/-- soundness of the scan needs no well-formedness of the holder at all -/
theorem scanMembers_found (vals : List (Nat × MVal)) (i : IdVal) (names : List Nat) (ids : List IdVal) (c : Comp)
    (h : scanMembers vals i names ids = .found c) :
    c.id = i ∧ c.hasId = true ∧ ∃ n ∈ names, ∃ l, lookup n vals = some (.comps l) ∧ c ∈ l := by
  induction names generalizing ids with
  | nil => simp [scanMembers] at h
  | cons n r ih =>
    unfold scanMembers at h
    cases hl : lookup n vals with
    | none => simp [hl] at h
    | some v =>
      cases v with
      | none =>
        simp only [hl] at h
        obtain ⟨a, b, m, hm, rest⟩ := ih _ h
        exact ⟨a, b, m, List.mem_cons_of_mem _ hm, rest⟩
      | chars k =>
        simp only [hl] at h
        obtain ⟨a, b, m, hm, rest⟩ := ih _ h
        exact ⟨a, b, m, List.mem_cons_of_mem _ hm, rest⟩
      | scalar => simp [hl] at h
      | comps l =>
        simp only [hl] at h
        cases hs : scanList i l ids with
        | inl d =>
          simp only [hs, Flow.found.injEq] at h
          subst h
          obtain ⟨h1, h2, h3⟩ := scanList_inl i l ids d hs
          exact ⟨h3, h2, n, List.mem_cons_self, l, hl, h1⟩
        | inr ids' =>
          simp only [hs] at h
          obtain ⟨a, b, m, hm, rest⟩ := ih _ h
          exact ⟨a, b, m, List.mem_cons_of_mem _ hm, rest⟩

theorem scanMembers_raised (vals : List (Nat × MVal)) (i : IdVal) (names : List Nat) (ids : List IdVal) (e : GRes)
    (h : scanMembers vals i names ids = .raised e) : e = .typeError ∨ e = .attrError := by
  induction names generalizing ids with
  | nil => simp [scanMembers] at h
  | cons n r ih =>
    unfold scanMembers at h
    cases hl : lookup n vals with
    | none => simp only [hl, Flow.raised.injEq] at h; exact Or.inr h.symm
    | some v =>
      cases v with
      | none => simp only [hl] at h; exact ih _ h
      | chars k => simp only [hl] at h; exact ih _ h
      | scalar => simp only [hl, Flow.raised.injEq] at h; exact Or.inl h.symm
      | comps l =>
        simp only [hl] at h
        cases hs : scanList i l ids with
        | inl d => simp [hs] at h
        | inr ids' => simp only [hs] at h; exact ih _ h

theorem mem_visible (vals : List (Nat × MVal)) (names : List Nat) (c : Comp) :
    c ∈ visible vals names ↔ c.hasId = true ∧ ∃ n ∈ names, ∃ l, lookup n vals = some (.comps l) ∧ c ∈ l := by
  induction names with
  | nil => simp [visible]
  | cons n r ih =>
    unfold visible
    cases hl : lookup n vals with
    | none =>
      simp only [ih, List.mem_cons]
      constructor
      · rintro ⟨a, m, hm, rest⟩; exact ⟨a, m, Or.inr hm, rest⟩
      · rintro ⟨a, m, hm | hm, l, h1, h2⟩
        · subst hm; simp [hl] at h1
        · exact ⟨a, m, hm, l, h1, h2⟩
    | some v =>
      cases v with
      | comps l =>
        simp only [List.mem_append, List.mem_filter, ih, List.mem_cons]
        constructor
        · rintro (⟨h1, h2⟩ | ⟨a, m, hm, rest⟩)
          · exact ⟨h2, n, Or.inl rfl, l, hl, h1⟩
          · exact ⟨a, m, Or.inr hm, rest⟩
        · rintro ⟨a, m, hm | hm, l', h1, h2⟩
          · subst hm
            rw [hl] at h1
            cases h1
            exact Or.inl ⟨h2, a⟩
          · exact Or.inr ⟨a, m, hm, l', h1, h2⟩
      | none | chars _ | scalar =>
        simp only [ih, List.mem_cons]
        constructor
        · rintro ⟨a, m, hm, rest⟩; exact ⟨a, m, Or.inr hm, rest⟩
        · rintro ⟨a, m, hm | hm, l, h1, h2⟩
          · subst hm; simp [hl] at h1
          · exact ⟨a, m, hm, l, h1, h2⟩

/-! ### `parentinfo` in its dict form is the inverse of `info` -/

/-- `retinfo[p][n]` -/
def lookup2 (p n : Nat) (d : List (Nat × List (Nat × Bool × Nat))) : Option (Bool × Nat) :=
  match lookup p d with
  | some inner => lookup n inner
  | none => none

theorem lookup2_pinsert (p n p' n' : Nat) (v : Bool × Nat) (d : List (Nat × List (Nat × Bool × Nat))) :
    lookup2 p' n' (pinsert p n v d) = if p' = p ∧ n' = n then some v else lookup2 p' n' d := by
  unfold pinsert
  cases hl : lookup p d with
  | some inner =>
    simp only
    by_cases hp : p' = p
    · subst hp
      simp only [lookup2, lookup_setA_self, hl, true_and]
      by_cases hn : n' = n
      · subst hn; simp [lookup_setA_self]
      · simp [hn, lookup_setA_ne _ _ _ _ hn]
    · simp [lookup2, hp, lookup_setA_ne _ _ _ _ hp]
  | none =>
    simp only
    by_cases hp : p' = p
    · subst hp
      simp only [lookup2, lookup_setA_self, hl, true_and]
      by_cases hn : n' = n
      · subst hn; simp [lookup]
      · simp [hn, lookup]
    · simp [lookup2, hp, lookup_setA_ne _ _ _ _ hp]

/-- one class's contribution -/
def innerF (c p : Nat) (ms : List Spec) (d : List (Nat × List (Nat × Bool × Nat))) : List (Nat × List (Nat × Bool × Nat)) :=
  ms.foldl (fun d s => if s.dtype == c then pinsert p s.name (!s.optional, s.dtype) d else d) d

theorem pinfoDict_eq (cm : List (Nat × List Spec)) (c : Nat) :
    pinfoDict cm c = cm.foldl (fun d pm => innerF c pm.1 pm.2 d) [] := rfl

theorem innerF_sound (c p : Nat) (ms : List Spec) (d : List (Nat × List (Nat × Bool × Nat))) (p' n' : Nat) (v : Bool × Nat)
    (h : lookup2 p' n' (innerF c p ms d) = some v) :
    lookup2 p' n' d = some v ∨ (p' = p ∧ ∃ s ∈ ms, s.dtype = c ∧ s.name = n' ∧ v = (!s.optional, s.dtype)) := by
  induction ms generalizing d with
  | nil => exact Or.inl h
  | cons s r ih =>
    simp only [innerF, List.foldl_cons] at h
    rcases ih _ h with h1 | ⟨hp, s', hs', rest⟩
    · by_cases hc : (s.dtype == c) = true
      · simp only [hc, if_true, lookup2_pinsert] at h1
        by_cases hpn : p' = p ∧ n' = s.name
        · simp only [hpn, and_self, if_true, Option.some.injEq] at h1
          exact Or.inr ⟨hpn.1, s, List.mem_cons_self, by simpa using hc, hpn.2.symm, h1.symm⟩
        · simp only [hpn, if_false] at h1
          exact Or.inl h1
      · simp only [hc, Bool.false_eq_true, if_false] at h1
        exact Or.inl h1
    · exact Or.inr ⟨hp, s', List.mem_cons_of_mem _ hs', rest⟩

theorem innerF_mono (c p : Nat) (ms : List Spec) (d : List (Nat × List (Nat × Bool × Nat))) (p' n' : Nat)
    (h : (lookup2 p' n' d).isSome = true) : (lookup2 p' n' (innerF c p ms d)).isSome = true := by
  induction ms generalizing d with
  | nil => exact h
  | cons s r ih =>
    simp only [innerF, List.foldl_cons]
    apply ih
    by_cases hc : (s.dtype == c) = true
    · simp only [hc, if_true, lookup2_pinsert]
      split
      · rfl
      · exact h
    · simp only [hc, Bool.false_eq_true, if_false]; exact h

theorem innerF_complete (c p : Nat) (ms : List Spec) (d : List (Nat × List (Nat × Bool × Nat))) (s : Spec)
    (hs : s ∈ ms) (hc : s.dtype = c) : (lookup2 p s.name (innerF c p ms d)).isSome = true := by
  induction ms generalizing d with
  | nil => cases hs
  | cons a r ih =>
    simp only [innerF, List.foldl_cons]
    rcases List.mem_cons.mp hs with rfl | hr
    · apply innerF_mono
      simp [hc, lookup2_pinsert]
    · exact ih _ hr

theorem outer_sound (c : Nat) (cm : List (Nat × List Spec)) (d : List (Nat × List (Nat × Bool × Nat))) (p' n' : Nat)
    (v : Bool × Nat) (h : lookup2 p' n' (cm.foldl (fun d pm => innerF c pm.1 pm.2 d) d) = some v) :
    lookup2 p' n' d = some v ∨ ∃ ms, (p', ms) ∈ cm ∧ ∃ s ∈ ms, s.dtype = c ∧ s.name = n' ∧ v = (!s.optional, s.dtype) := by
  induction cm generalizing d with
  | nil => exact Or.inl h
  | cons pm r ih =>
    simp only [List.foldl_cons] at h
    rcases ih _ h with h1 | ⟨ms, hm, rest⟩
    · rcases innerF_sound _ _ _ _ _ _ _ h1 with h2 | ⟨hp, rest⟩
      · exact Or.inl h2
      · exact Or.inr ⟨pm.2, by rw [hp]; exact List.mem_cons_self, rest⟩
    · exact Or.inr ⟨ms, List.mem_cons_of_mem _ hm, rest⟩

theorem outer_mono (c : Nat) (cm : List (Nat × List Spec)) (d : List (Nat × List (Nat × Bool × Nat))) (p' n' : Nat)
    (h : (lookup2 p' n' d).isSome = true) :
    (lookup2 p' n' (cm.foldl (fun d pm => innerF c pm.1 pm.2 d) d)).isSome = true := by
  induction cm generalizing d with
  | nil => exact h
  | cons pm r ih => simp only [List.foldl_cons]; exact ih _ (innerF_mono _ _ _ _ _ _ h)

theorem outer_complete (c : Nat) (cm : List (Nat × List Spec)) (d : List (Nat × List (Nat × Bool × Nat))) (p : Nat)
    (ms : List Spec) (s : Spec) (hm : (p, ms) ∈ cm) (hs : s ∈ ms) (hc : s.dtype = c) :
    (lookup2 p s.name (cm.foldl (fun d pm => innerF c pm.1 pm.2 d) d)).isSome = true := by
  induction cm generalizing d with
  | nil => cases hm
  | cons pm r ih =>
    simp only [List.foldl_cons]
    rcases List.mem_cons.mp hm with rfl | hr
    · exact outer_mono _ _ _ _ _ (innerF_complete _ _ _ _ _ hs hc)
    · exact ih _ hr



/-! ### small facts used by Props/C11.lean -/

theorem keys_setA {α : Type} (c : Nat) (v : α) (l : List (Nat × α)) (k : Nat) :
    k ∈ (setA c v l).map (·.1) ↔ k = c ∨ k ∈ l.map (·.1) := by
  induction l with
  | nil => simp [setA]
  | cons p r ih =>
    obtain ⟨q, w⟩ := p
    by_cases h : c = q
    · subst h; simp [setA]
    · simp only [setA, h, if_false, List.map_cons, List.mem_cons, ih]
      constructor
      · rintro (h1 | h1 | h1)
        · exact Or.inr (Or.inl h1)
        · exact Or.inl h1
        · exact Or.inr (Or.inr h1)
      · rintro (h1 | h1 | h1)
        · exact Or.inr (Or.inl h1)
        · exact Or.inl h1
        · exact Or.inr (Or.inr h1)

theorem keys_foldl_setA (ms : List Spec) (d : List (Nat × Bool × Nat)) (k : Nat) :
    k ∈ (ms.foldl (fun d s => setA s.name (!s.optional, s.dtype) d) d).map (·.1)
      ↔ k ∈ d.map (·.1) ∨ k ∈ ms.map (·.name) := by
  induction ms generalizing d with
  | nil => simp
  | cons s r ih =>
    simp only [List.foldl_cons, ih, keys_setA, List.map_cons, List.mem_cons]
    constructor
    · rintro ((h | h) | h)
      · exact Or.inr (Or.inl h)
      · exact Or.inl h
      · exact Or.inr (Or.inr h)
    · rintro (h | h | h)
      · exact Or.inl (Or.inr h)
      · exact Or.inl (Or.inl h)
      · exact Or.inr h

theorem mem_classMembers (T : Table) (p : Nat) (ms : List Spec) :
    (p, ms) ∈ classMembers T ↔ (∃ k ∈ T, k.name = p) ∧ ms = getMembers T p := by
  simp only [classMembers, List.mem_map, Prod.mk.injEq]
  constructor
  · rintro ⟨k, hk, rfl, rfl⟩; exact ⟨⟨k, hk, rfl⟩, rfl⟩
  · rintro ⟨⟨k, hk, rfl⟩, rfl⟩; exact ⟨k, hk, rfl, rfl⟩


end NmlVerif.Introspect
