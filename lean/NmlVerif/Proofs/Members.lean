import NmlVerif.Model.Members
/-! Helper lemmas about the member table (`Model/Members.lean`). Core Lean only. -/
namespace NmlVerif

theorem nodupB_iff : ∀ l : List Nat, nodupB l = true ↔ l.Nodup
  | [] => by simp [nodupB]
  | a :: l => by
    simp only [nodupB, Bool.and_eq_true, Bool.not_eq_true', List.nodup_cons, nodupB_iff l]
    constructor
    · rintro ⟨h1, h2⟩
      refine ⟨?_, h2⟩
      intro hm
      have : l.contains a = true := by simpa using hm
      rw [this] at h1; cases h1
    · rintro ⟨h1, h2⟩
      refine ⟨?_, h2⟩
      cases hc : l.contains a with
      | false => rfl
      | true => exact absurd (by simpa using hc) h1

namespace Table

/-- fuel sufficiency: once the base-class walk ends within `fuel` steps, more fuel changes nothing -/
theorem membersFuel_stable (T : Table) : ∀ (fuel : Nat) (c : Nat), chainEnds T fuel c = true →
    ∀ k, membersFuel T (fuel + k) c = membersFuel T fuel c
  | 0, _, h, _ => by simp [chainEnds] at h
  | fuel + 1, c, h, k => by
    have e : fuel + 1 + k = (fuel + k) + 1 := by omega
    rw [e]
    simp only [membersFuel]
    simp only [chainEnds] at h
    cases hr : T.row? c with
    | none => rfl
    | some r =>
      simp only [hr] at h
      simp only
      cases hb : r.base with
      | none => rfl
      | some b =>
        simp only [hb] at h ⊢
        rw [membersFuel_stable T fuel b h k]

theorem row?_mem {T : Table} {c : Nat} {r : ClassRow} (h : T.row? c = some r) : r ∈ T ∧ r.name = c := by
  unfold row? at h
  exact ⟨List.mem_of_find?_eq_some h, by simpa using List.find?_some h⟩

/-- `chainsOk T`: for every class of the table, `getMembers` does not depend on the fuel bound -/
theorem getMembers_stable (T : Table) (hT : chainsOk T = true) (r : ClassRow) (hr : r ∈ T) (k : Nat) :
    membersFuel T (T.length + k) r.name = getMembers T r.name := by
  unfold chainsOk at hT
  simp only [Bool.and_eq_true, List.all_eq_true] at hT
  exact membersFuel_stable T T.length r.name (hT.2 r hr) k

/-- unfolding along the chain: own members, then the base class's members -/
theorem getMembers_unfold (T : Table) (hT : chainsOk T = true) (r : ClassRow) (hr : r ∈ T)
    (hrow : T.row? r.name = some r) :
    getMembers T r.name = r.own ++ (match r.base with | none => [] | some b => getMembers T b) := by
  unfold chainsOk at hT
  simp only [Bool.and_eq_true, List.all_eq_true] at hT
  have hce := hT.2 r hr
  cases hl : T.length with
  | zero => rw [List.length_eq_zero_iff.mp hl] at hr; cases hr
  | succ n =>
    rw [hl] at hce
    simp only [chainEnds, hrow] at hce
    have hL : getMembers T r.name = r.own ++ (match r.base with | none => [] | some b => membersFuel T n b) := by
      unfold getMembers
      rw [hl]
      show membersFuel T (n + 1) r.name = _
      rw [membersFuel, hrow]
      rfl
    rw [hL]
    cases hb : r.base with
    | none => rfl
    | some b =>
      simp only [hb] at hce ⊢
      have := membersFuel_stable T n b hce 1
      unfold getMembers
      rw [hl, this]

end Table
end NmlVerif
