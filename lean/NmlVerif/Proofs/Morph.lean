import NmlVerif.Model.Morph
/-!
# Helper lemmas for C13 (morphology metrics). Core Lean only.
-/
namespace NmlVerif.Morph

/-! ### segments, ids, uniqueness of the spec relations -/

theorem find_some {m : Morph} {i : Nat} {s : Seg} (h : find m i = some s) : s ∈ m ∧ s.id = i := by
  unfold find at h
  have h1 := List.mem_of_find?_eq_some h
  have h2 := List.find?_some h
  exact ⟨h1, by simpa using h2⟩

theorem mem_ids {m : Morph} {i : Nat} : i ∈ ids m ↔ ∃ s ∈ m, s.id = i := by
  simp [ids]

theorem find_of_mem_ids {m : Morph} {i : Nat} (h : i ∈ ids m) : ∃ s, find m i = some s := by
  obtain ⟨s, hs, rfl⟩ := mem_ids.1 h
  cases hf : find m s.id with
  | some t => exact ⟨t, rfl⟩
  | none =>
    unfold find at hf
    have := List.find?_eq_none.1 hf s hs
    simp at this

theorem find_of_mem_nodup {m : Morph} (hn : (ids m).Nodup) {s : Seg} (hs : s ∈ m) : find m s.id = some s := by
  induction m with
  | nil => cases hs
  | cons a m ih =>
    simp only [ids, List.map_cons, List.nodup_cons] at hn
    unfold find
    simp only [List.find?_cons]
    rcases List.mem_cons.1 hs with rfl | hs'
    · simp
    · have hne : a.id ≠ s.id := by
        intro e
        exact hn.1 (e ▸ List.mem_map_of_mem hs')
      have : (a.id == s.id) = false := by simpa using hne
      rw [this]
      exact ih hn.2 hs'

theorem ActualProxS.unique {m : Morph} {i : Nat} {p q : Pt} (hp : ActualProxS m i p) (hq : ActualProxS m i q) : p = q := by
  induction hp generalizing q with
  | own h1 h2 =>
    cases hq with
    | own g1 g2 => rw [h1] at g1; cases g1; rw [h2] at g2; cases g2; rfl
    | onParent g1 g2 _ _ _ => rw [h1] at g1; cases g1; rw [h2] at g2; cases g2
  | onParent h1 h2 h3 h4 _ ih =>
    cases hq with
    | own g1 g2 => rw [h1] at g1; cases g1; rw [h2] at g2; cases g2
    | onParent g1 g2 g3 g4 g5 =>
      rw [h1] at g1; cases g1; rw [h3] at g3; cases g3; rw [h4] at g4; cases g4
      rw [ih g5]

theorem ToProxS.unique {m : Morph} {len : Nat → Rat} {i : Nat} {x y : Rat} (hx : ToProxS m len i x) (hy : ToProxS m len i y) : x = y := by
  induction hx generalizing y with
  | root h1 h2 =>
    cases hy with
    | root g1 g2 => rfl
    | step g1 g2 _ => rw [h1] at g1; cases g1; rw [h2] at g2; cases g2
  | step h1 h2 _ ih =>
    cases hy with
    | root g1 g2 => rw [h1] at g1; cases g1; rw [h2] at g2; cases g2
    | step g1 g2 g3 =>
      rw [h1] at g1; cases g1; rw [h2] at g2; cases g2
      rw [ih g3]

/-! ### well-formedness; effective proximal point -/

/-- well-formed forest: unique ids, parents exist, `r` decreases along parent links -/
structure WfForest (m : Morph) (r : Nat → Nat) : Prop where
  nodup : (ids m).Nodup
  parent_mem : ∀ s ∈ m, ∀ p f, s.parent = some (p, f) → p ∈ ids m
  rank : ∀ s ∈ m, ∀ p f, s.parent = some (p, f) → r p < r s.id

theorem lerp_one (a b : Pt) : lerp a b 1 = b := by
  cases a; cases b; simp only [lerp, Pt.mk.injEq]; refine ⟨?_, ?_, ?_, ?_⟩ <;> grind
theorem lerp_zero (a b : Pt) : lerp a b 0 = a := by
  cases a; cases b; simp only [lerp, Pt.mk.injEq]; refine ⟨?_, ?_, ?_, ?_⟩ <;> grind

theorem actualProximal_spec {m : Morph} {r : Nat → Nat} (wf : WfForest m r)
    (hprox : ∀ s ∈ m, s.parent = none → s.prox ≠ none) :
    ∀ (fuel i : Nat), i ∈ ids m → r i < fuel → ∃ p, actualProximal m fuel i = some p ∧ ActualProxS m i p := by
  intro fuel
  induction fuel with
  | zero => intro i _ h; omega
  | succ k ih =>
    intro i hi hr
    obtain ⟨s, hs⟩ := find_of_mem_ids hi
    have ⟨hsm, hsi⟩ := find_some hs
    unfold actualProximal
    simp only [hs]
    cases hp : s.prox with
    | some p => exact ⟨p, rfl, ActualProxS.own hs hp⟩
    | none =>
      cases hpar : s.parent with
      | none => exact absurd hp (hprox s hsm hpar)
      | some pf =>
        obtain ⟨pid, f⟩ := pf
        have hpm := wf.parent_mem s hsm pid f hpar
        have hrk := wf.rank s hsm pid f hpar
        rw [hsi] at hrk
        obtain ⟨ps, hps⟩ := find_of_mem_ids hpm
        obtain ⟨pp, hpp, hspec⟩ := ih pid hpm (by omega)
        simp only [hps]
        have hS := ActualProxS.onParent hs hp hpar hps hspec
        by_cases h1 : f = 1
        · subst h1
          rw [lerp_one] at hS
          exact ⟨ps.dist, by simp, hS⟩
        · by_cases h0 : f = 0
          · subst h0
            rw [lerp_zero] at hS
            exact ⟨pp, by simp [hpp], hS⟩
          · simp only [h1, h0, if_false, hpp]
            exact ⟨_, rfl, hS⟩

/-! ### adjacency list and graph edges -/

def adjKeys (al : Adj) : List Nat := al.map (·.1)

theorem adjLookup_nil (q : Nat) : adjLookup [] q = none := rfl

theorem adjLookup_cons (e : Nat × List Nat) (al : Adj) (q : Nat) :
    adjLookup (e :: al) q = if e.1 = q then some e.2 else adjLookup al q := by
  unfold adjLookup
  simp only [List.find?_cons]
  by_cases h : e.1 = q
  · simp [h]
  · have : (e.1 == q) = false := by simpa using h
    simp [this, h]

theorem adjLookup_adjInsert (al : Adj) (p c q : Nat) :
    adjLookup (adjInsert al p c) q =
      if q = p then some ((adjLookup al p).getD [] ++ [c]) else adjLookup al q := by
  induction al with
  | nil =>
    simp only [adjInsert, adjLookup_cons, adjLookup_nil]
    by_cases h : q = p
    · subst h; simp
    · have : ¬ p = q := fun e => h e.symm
      simp [h, this]
  | cons e al ih =>
    obtain ⟨k, cs⟩ := e
    simp only [adjInsert]
    by_cases hk : k = p
    · subst hk
      simp only [if_true, adjLookup_cons]
      by_cases h : q = k
      · subst h; simp
      · have : ¬ k = q := fun e => h e.symm
        simp [h, this]
    · simp only [hk, if_false, adjLookup_cons, ih]
      by_cases h : q = p
      · subst h; simp [hk]
      · simp [h]

theorem adjKeys_adjInsert (al : Adj) (p c : Nat) :
    adjKeys (adjInsert al p c) = if p ∈ adjKeys al then adjKeys al else adjKeys al ++ [p] := by
  induction al with
  | nil => simp [adjInsert, adjKeys]
  | cons e al ih =>
    obtain ⟨k, cs⟩ := e
    simp only [adjInsert]
    by_cases hk : k = p
    · subst hk; simp [adjKeys]
    · have hk' : ¬ p = k := fun e => hk e.symm
      simp only [hk, if_false]
      simp only [adjKeys, List.map_cons, List.mem_cons, hk', false_or] at ih ⊢
      rw [ih]
      split
      · rename_i h; simp [h]
      · rename_i h; simp [h]

theorem adjKeys_nodup_adjInsert (al : Adj) (p c : Nat) (h : (adjKeys al).Nodup) :
    (adjKeys (adjInsert al p c)).Nodup := by
  rw [adjKeys_adjInsert]
  split
  · exact h
  · rename_i hp
    rw [List.nodup_append]
    refine ⟨h, by simp, ?_⟩
    intro a ha b hb
    simp at hb; subst hb
    intro e; subst e; exact hp ha

theorem childrenS_cons (s : Seg) (m : Morph) (q : Nat) :
    childrenS (s :: m) q = if parentIs q s then s.id :: childrenS m q else childrenS m q := by
  unfold childrenS
  simp only [List.filter_cons]
  split <;> simp

def combine (o : Option (List Nat)) (l : List Nat) : Option (List Nat) :=
  if l = [] then o else some (o.getD [] ++ l)

theorem adjLookup_foldl (m : Morph) : ∀ (al : Adj) (q : Nat),
    adjLookup (m.foldl adjStep al) q = combine (adjLookup al q) (childrenS m q) := by
  induction m with
  | nil => intro al q; simp [childrenS, combine]
  | cons s m ih =>
    intro al q
    simp only [List.foldl_cons, ih, childrenS_cons]
    unfold adjStep parentIs
    cases hp : s.parent with
    | none => simp
    | some pf =>
      obtain ⟨p, f⟩ := pf
      simp only [adjLookup_adjInsert]
      by_cases h : q = p
      · subst h
        simp only [if_true, beq_self_eq_true, combine]
        by_cases hc : childrenS m q = []
        · simp [hc]
        · simp [hc]
      · have : (p == q) = false := by simpa using fun e => h (Eq.symm e)
        simp [h, this]

/-- **adjacency list = children by definition** (any list of segments) -/
theorem adjLookup_adjacencyList (m : Morph) (q : Nat) :
    adjLookup (adjacencyList m) q = if childrenS m q = [] then none else some (childrenS m q) := by
  unfold adjacencyList
  rw [adjLookup_foldl]
  simp [combine, adjLookup_nil]

theorem adjKeys_nodup_foldl (m : Morph) : ∀ (al : Adj), (adjKeys al).Nodup → (adjKeys (m.foldl adjStep al)).Nodup := by
  induction m with
  | nil => intro al h; exact h
  | cons s m ih =>
    intro al h
    simp only [List.foldl_cons]
    apply ih
    unfold adjStep
    cases s.parent with
    | none => exact h
    | some pf => exact adjKeys_nodup_adjInsert _ _ _ h

theorem adjKeys_nodup (m : Morph) : (adjKeys (adjacencyList m)).Nodup :=
  adjKeys_nodup_foldl m [] (by simp [adjKeys])


theorem adjLookup_none_of_not_mem (al : Adj) (p : Nat) (h : p ∉ adjKeys al) : adjLookup al p = none := by
  induction al with
  | nil => rfl
  | cons e al ih =>
    simp only [adjKeys, List.map_cons, List.mem_cons, not_or] at h
    rw [adjLookup_cons]
    have : ¬ e.1 = p := fun x => h.1 x.symm
    simp only [this, if_false]
    exact ih h.2

theorem adjLookup_eq_some_iff (al : Adj) (h : (adjKeys al).Nodup) (p : Nat) (cs : List Nat) :
    adjLookup al p = some cs ↔ (p, cs) ∈ al := by
  induction al with
  | nil => simp [adjLookup_nil]
  | cons e al ih =>
    obtain ⟨k, ks⟩ := e
    simp only [adjKeys, List.map_cons, List.nodup_cons] at h
    rw [adjLookup_cons]
    by_cases hk : k = p
    · subst hk
      simp only [if_true, List.mem_cons, Prod.mk.injEq, true_and, Option.some.injEq]
      constructor
      · intro e; exact Or.inl e.symm
      · rintro (e | hm)
        · exact e.symm
        · exact absurd (List.mem_map_of_mem (f := (·.1)) hm) h.1
    · have hk' : ¬ p = k := fun e => hk e.symm
      simp only [hk, if_false, List.mem_cons, Prod.mk.injEq, hk', false_and, false_or]
      exact ih h.2

theorem mem_childrenS {m : Morph} {p c : Nat} :
    c ∈ childrenS m p ↔ ∃ s ∈ m, s.id = c ∧ ∃ f, s.parent = some (p, f) := by
  unfold childrenS parentIs
  simp only [List.mem_map, List.mem_filter]
  constructor
  · rintro ⟨s, ⟨hs, hp⟩, rfl⟩
    refine ⟨s, hs, rfl, ?_⟩
    cases hpar : s.parent with
    | none => simp [hpar] at hp
    | some pf =>
      obtain ⟨q, f⟩ := pf
      simp only [hpar, beq_iff_eq] at hp
      subst hp
      exact ⟨f, rfl⟩
  · rintro ⟨s, hs, rfl, f, hf⟩
    exact ⟨s, ⟨hs, by simp [hf]⟩, rfl⟩

theorem mem_graphEdges (m : Morph) (len : Nat → Rat) (e : Edge) :
    e ∈ graphEdges m len ↔ e.dst ∈ childrenS m e.src ∧ e.w = len e.src * fracOf m e.dst := by
  unfold graphEdges
  simp only [List.mem_flatMap, List.mem_map]
  constructor
  · rintro ⟨⟨p, cs⟩, hal, c, hc, rfl⟩
    have := (adjLookup_eq_some_iff _ (adjKeys_nodup m) p cs).2 hal
    rw [adjLookup_adjacencyList] at this
    split at this
    · cases this
    · cases this; exact ⟨hc, rfl⟩
  · rintro ⟨hc, hw⟩
    have hne : childrenS m e.src ≠ [] := by intro h; rw [h] at hc; cases hc
    have := adjLookup_adjacencyList m e.src
    simp only [hne, if_false] at this
    have hal := (adjLookup_eq_some_iff _ (adjKeys_nodup m) _ _).1 this
    refine ⟨_, hal, e.dst, hc, ?_⟩
    cases e; simp at hw ⊢; exact hw.symm

theorem filter_src_of_not_mem (g : Nat → Nat → Edge) (hg : ∀ p c, (g p c).src = p) (al : Adj) (n : Nat)
    (h : n ∉ adjKeys al) : (al.flatMap (fun e => e.2.map (g e.1))).filter (fun e => e.src == n) = [] := by
  rw [List.filter_eq_nil_iff]
  intro e he
  simp only [List.mem_flatMap, List.mem_map] at he
  obtain ⟨⟨p, cs⟩, hal, c, _, rfl⟩ := he
  simp only [hg, beq_iff_eq]
  intro e; subst e
  exact h (List.mem_map_of_mem (f := (·.1)) hal)

theorem filter_flatMap_src (g : Nat → Nat → Edge) (hg : ∀ p c, (g p c).src = p) (hd : ∀ p c, (g p c).dst = c)
    (al : Adj) (h : (adjKeys al).Nodup) (n : Nat) :
    ((al.flatMap (fun e => e.2.map (g e.1))).filter (fun e => e.src == n)).map (·.dst) = (adjLookup al n).getD [] := by
  induction al with
  | nil => simp [adjLookup_nil]
  | cons e al ih =>
    obtain ⟨k, ks⟩ := e
    simp only [adjKeys, List.map_cons, List.nodup_cons] at h
    simp only [List.flatMap_cons, List.filter_append, List.map_append, adjLookup_cons]
    by_cases hk : k = n
    · subst hk
      rw [filter_src_of_not_mem g hg al k h.1]
      have : (ks.map (g k)).filter (fun e => e.src == k) = ks.map (g k) := by
        rw [List.filter_eq_self]; intro e he
        simp only [List.mem_map] at he; obtain ⟨c, _, rfl⟩ := he; simp [hg]
      have hmap : List.map ((fun x => x.dst) ∘ g k) ks = ks := by
        have : ((fun x => x.dst) ∘ g k) = id := by funext c; simp [hd]
        rw [this, List.map_id]
      simp [this, hmap]
    · have : (ks.map (g k)).filter (fun e => e.src == n) = [] := by
        rw [List.filter_eq_nil_iff]; intro e he
        simp only [List.mem_map] at he; obtain ⟨c, _, rfl⟩ := he; simp [hg, hk]
      simp only [this, hk, if_false, List.map_nil, List.nil_append]
      exact ih h.2

theorem outEdges (m : Morph) (len : Nat → Rat) (n : Nat) :
    ((graphEdges m len).filter (fun e => e.src == n)).map (·.dst) = childrenS m n := by
  unfold graphEdges
  rw [filter_flatMap_src (fun p c => (⟨p, c, len p * fracOf m c⟩ : Edge)) (fun _ _ => rfl) (fun _ _ => rfl) _
    (adjKeys_nodup m) n, adjLookup_adjacencyList]
  split
  · rename_i h; simp [h]
  · simp

/-! ### graph nodes, list helpers -/

theorem mem_addNode {ns : List Nat} {v x : Nat} : x ∈ addNode ns v ↔ x ∈ ns ∨ x = v := by
  unfold addNode
  split
  · rename_i h
    constructor
    · exact Or.inl
    · rintro (h' | rfl); exact h'; exact h
  · simp

theorem nodup_addNode {ns : List Nat} {v : Nat} (h : ns.Nodup) : (addNode ns v).Nodup := by
  unfold addNode
  split
  · exact h
  · rename_i hv
    rw [List.nodup_append]
    refine ⟨h, by simp, ?_⟩
    intro a ha b hb
    simp at hb; subst hb
    intro e; subst e; exact hv ha

theorem mem_foldl_addNode (l : List Nat) : ∀ (ns : List Nat) (x : Nat), x ∈ l.foldl addNode ns ↔ x ∈ ns ∨ x ∈ l := by
  induction l with
  | nil => simp
  | cons a l ih =>
    intro ns x
    simp only [List.foldl_cons, ih, mem_addNode, List.mem_cons]
    constructor
    · rintro ((h | h) | h)
      · exact Or.inl h
      · exact Or.inr (Or.inl h)
      · exact Or.inr (Or.inr h)
    · rintro (h | h | h)
      · exact Or.inl (Or.inl h)
      · exact Or.inl (Or.inr h)
      · exact Or.inr h

theorem nodup_foldl_addNode (l : List Nat) : ∀ (ns : List Nat), ns.Nodup → (l.foldl addNode ns).Nodup := by
  induction l with
  | nil => intro ns h; exact h
  | cons a l ih => intro ns h; exact ih _ (nodup_addNode h)

theorem mem_edgeNodes_aux (es : List Edge) : ∀ (ns : List Nat) (x : Nat),
    x ∈ es.foldl (fun ns e => addNode (addNode ns e.src) e.dst) ns ↔ x ∈ ns ∨ ∃ e ∈ es, x = e.src ∨ x = e.dst := by
  induction es with
  | nil => simp
  | cons a es ih =>
    intro ns x
    simp only [List.foldl_cons, ih, mem_addNode, List.mem_cons]
    constructor
    · rintro (((h | h) | h) | ⟨e, he, h⟩)
      · exact Or.inl h
      · exact Or.inr ⟨a, Or.inl rfl, Or.inl h⟩
      · exact Or.inr ⟨a, Or.inl rfl, Or.inr h⟩
      · exact Or.inr ⟨e, Or.inr he, h⟩
    · rintro (h | ⟨e, (rfl | he), h⟩)
      · exact Or.inl (Or.inl (Or.inl h))
      · rcases h with h | h
        · exact Or.inl (Or.inl (Or.inr h))
        · exact Or.inl (Or.inr h)
      · exact Or.inr ⟨e, he, h⟩

theorem nodup_edgeNodes_aux (es : List Edge) : ∀ (ns : List Nat), ns.Nodup →
    (es.foldl (fun ns e => addNode (addNode ns e.src) e.dst) ns).Nodup := by
  induction es with
  | nil => intro ns h; exact h
  | cons a es ih => intro ns h; exact ih _ (nodup_addNode (nodup_addNode h))

theorem mem_edgeNodes {es : List Edge} {x : Nat} : x ∈ edgeNodes es ↔ ∃ e ∈ es, x = e.src ∨ x = e.dst := by
  unfold edgeNodes; rw [mem_edgeNodes_aux]; simp

theorem nodup_nodes (m : Morph) (len : Nat → Rat) : (getGraph m len).nodes.Nodup := by
  unfold getGraph
  exact nodup_foldl_addNode _ _ (nodup_edgeNodes_aux _ _ List.nodup_nil)

theorem nodup_nodesOld (m : Morph) (len : Nat → Rat) : (getGraphOld m len).nodes.Nodup := by
  unfold getGraphOld
  exact nodup_edgeNodes_aux _ _ List.nodup_nil

theorem filter_eq_singleton {l : List Nat} {p : Nat → Bool} {a : Nat} (hn : l.Nodup) (ha : a ∈ l) (hpa : p a = true)
    (hu : ∀ x ∈ l, p x = true → x = a) : l.filter p = [a] := by
  induction l with
  | nil => cases ha
  | cons b l ih =>
    simp only [List.nodup_cons] at hn
    rcases List.mem_cons.1 ha with rfl | ha'
    · have : l.filter p = [] := by
        rw [List.filter_eq_nil_iff]
        intro x hx hpx
        have := hu x (List.mem_cons_of_mem _ hx) hpx
        subst this; exact hn.1 hx
      simp [hpa, this]
    · have hb : p b = false := by
        cases hpb : p b with
        | false => rfl
        | true =>
          have := hu b (List.mem_cons_self) hpb
          subst this; exact absurd ha' hn.1
      simp only [List.filter_cons, hb]
      exact ih hn.2 ha' (fun x hx => hu x (List.mem_cons_of_mem _ hx))

theorem mapOpt_spec {α β : Type} {f : α → Option β} {l : List α} (h : ∀ a ∈ l, ∃ b, f a = some b) :
    ∃ bs, mapOpt f l = some bs ∧ ∀ b, b ∈ bs ↔ ∃ a ∈ l, f a = some b := by
  induction l with
  | nil => exact ⟨[], rfl, by simp⟩
  | cons a l ih =>
    obtain ⟨b, hb⟩ := h a List.mem_cons_self
    obtain ⟨bs, hbs, hmem⟩ := ih (fun x hx => h x (List.mem_cons_of_mem _ hx))
    refine ⟨b :: bs, by simp [mapOpt, hb, hbs], ?_⟩
    intro c
    simp only [List.mem_cons, hmem]
    constructor
    · rintro (rfl | ⟨x, hx, hfx⟩)
      · exact ⟨a, Or.inl rfl, hb⟩
      · exact ⟨x, Or.inr hx, hfx⟩
    · rintro ⟨x, (rfl | hx), hfx⟩
      · rw [hb] at hfx; cases hfx; exact Or.inl rfl
      · exact Or.inr ⟨x, hx, hfx⟩

/-! ### trees: root, distances from the root, branch points, tips -/

theorem mem_rootsS {m : Morph} {i : Nat} : i ∈ rootsS m ↔ ∃ s ∈ m, s.id = i ∧ s.parent = none := by
  unfold rootsS
  simp only [List.mem_map, List.mem_filter, Option.isNone_iff_eq_none]
  constructor
  · rintro ⟨s, ⟨hs, hp⟩, rfl⟩; exact ⟨s, hs, rfl, hp⟩
  · rintro ⟨s, hs, rfl, hp⟩; exact ⟨s, ⟨hs, hp⟩, rfl⟩

theorem seg_eq_of_id_eq {m : Morph} (hn : (ids m).Nodup) {s t : Seg} (hs : s ∈ m) (ht : t ∈ m) (h : s.id = t.id) :
    s = t := by
  have h1 := find_of_mem_nodup hn hs
  have h2 := find_of_mem_nodup hn ht
  rw [h] at h1; rw [h1] at h2; cases h2; rfl

theorem fracOf_eq {m : Morph} (hn : (ids m).Nodup) {s : Seg} (hs : s ∈ m) {p : Nat} {f : Rat}
    (hp : s.parent = some (p, f)) : fracOf m s.id = f := by
  unfold fracOf; rw [find_of_mem_nodup hn hs]; simp [hp]

theorem inEdge_of_parent {m : Morph} {r : Nat → Nat} (wf : WfForest m r) (len : Nat → Rat) {s : Seg} (hs : s ∈ m)
    {p : Nat} {f : Rat} (hp : s.parent = some (p, f)) :
    ∃ e, inEdge (graphEdges m len) s.id = some e ∧ e.src = p ∧ e.dst = s.id ∧ e.w = len p * f := by
  have hmem : (⟨p, s.id, len p * fracOf m s.id⟩ : Edge) ∈ graphEdges m len := by
    rw [mem_graphEdges]; exact ⟨mem_childrenS.2 ⟨s, hs, rfl, f, hp⟩, rfl⟩
  cases hf : inEdge (graphEdges m len) s.id with
  | none =>
    unfold inEdge at hf
    have := List.find?_eq_none.1 hf _ hmem
    simp at this
  | some e =>
    unfold inEdge at hf
    have he := List.mem_of_find?_eq_some hf
    have hd : e.dst = s.id := by simpa using List.find?_some hf
    rw [mem_graphEdges] at he
    obtain ⟨s', hs', hid, f', hp'⟩ := mem_childrenS.1 he.1
    rw [hd] at hid
    have := seg_eq_of_id_eq wf.nodup hs' hs hid
    subst this
    rw [hp] at hp'; cases hp'
    refine ⟨e, rfl, rfl, hd, ?_⟩
    rw [he.2, hd, fracOf_eq wf.nodup hs' hp]

theorem no_edge_to_root {m : Morph} {r : Nat → Nat} (wf : WfForest m r) (len : Nat → Rat) {s : Seg} (hs : s ∈ m)
    (hp : s.parent = none) : ∀ e ∈ graphEdges m len, e.dst ≠ s.id := by
  intro e he hd
  rw [mem_graphEdges] at he
  obtain ⟨s', hs', hid, f', hp'⟩ := mem_childrenS.1 he.1
  rw [hd] at hid
  have := seg_eq_of_id_eq wf.nodup hs' hs hid
  subst this
  rw [hp] at hp'; cases hp'

theorem edge_endpoints {m : Morph} {r : Nat → Nat} (wf : WfForest m r) (len : Nat → Rat) {e : Edge}
    (he : e ∈ graphEdges m len) : e.src ∈ ids m ∧ e.dst ∈ ids m := by
  rw [mem_graphEdges] at he
  obtain ⟨s, hs, hid, f, hp⟩ := mem_childrenS.1 he.1
  exact ⟨wf.parent_mem s hs _ f hp, mem_ids.2 ⟨s, hs, hid⟩⟩

theorem mem_nodes {m : Morph} {r : Nat → Nat} (wf : WfForest m r) (len : Nat → Rat) (x : Nat) :
    x ∈ (getGraph m len).nodes ↔ x ∈ ids m := by
  unfold getGraph
  simp only [mem_foldl_addNode, mem_edgeNodes]
  constructor
  · rintro (⟨e, he, h⟩ | h)
    · have := edge_endpoints wf len he
      rcases h with rfl | rfl
      · exact this.1
      · exact this.2
    · exact h
  · exact Or.inr

/-- a tree: a well-formed forest with exactly one segment without parent -/
structure WfTree (m : Morph) (r : Nat → Nat) (root : Nat) : Prop extends WfForest m r where
  one_root : rootsS m = [root]

theorem WfTree.root_seg {m : Morph} {r : Nat → Nat} {root : Nat} (wt : WfTree m r root) :
    ∃ s, s ∈ m ∧ find m root = some s ∧ s.id = root ∧ s.parent = none := by
  have : root ∈ rootsS m := by rw [wt.one_root]; simp
  obtain ⟨s, hs, hid, hp⟩ := mem_rootsS.1 this
  exact ⟨s, hs, hid ▸ find_of_mem_nodup wt.nodup hs, hid, hp⟩

theorem WfTree.root_mem {m : Morph} {r : Nat → Nat} {root : Nat} (wt : WfTree m r root) : root ∈ ids m := by
  obtain ⟨s, hs, _, hid, _⟩ := wt.root_seg
  exact mem_ids.2 ⟨s, hs, hid⟩

theorem WfTree.eq_root {m : Morph} {r : Nat → Nat} {root : Nat} (wt : WfTree m r root) {s : Seg} (hs : s ∈ m)
    (hp : s.parent = none) : s.id = root := by
  have : s.id ∈ rootsS m := mem_rootsS.2 ⟨s, hs, rfl, hp⟩
  rw [wt.one_root] at this
  simpa using this

/-- **Dijkstra on the cell graph from the root = path length by definition** -/
theorem distUp_root {m : Morph} {r : Nat → Nat} {root : Nat} (wt : WfTree m r root) (len : Nat → Rat) :
    ∀ (fuel i : Nat), i ∈ ids m → r i < fuel →
      ∃ x, distUp (graphEdges m len) root fuel i = some x ∧ ToProxS m len i x := by
  intro fuel
  induction fuel with
  | zero => intro i _ h; omega
  | succ k ih =>
    intro i hi hr
    unfold distUp
    by_cases hroot : i = root
    · subst hroot
      obtain ⟨s, _, hf, _, hp⟩ := wt.root_seg
      exact ⟨0, by simp, ToProxS.root hf hp⟩
    · simp only [hroot, if_false]
      obtain ⟨s, hs⟩ := find_of_mem_ids hi
      have ⟨hsm, hsi⟩ := find_some hs
      cases hpar : s.parent with
      | none => exact absurd (hsi ▸ wt.eq_root hsm hpar) hroot
      | some pf =>
        obtain ⟨p, f⟩ := pf
        obtain ⟨e, he, hsrc, _, hw⟩ := inEdge_of_parent wt.toWfForest len hsm hpar
        rw [hsi] at he
        have hpm := wt.parent_mem s hsm p f hpar
        have hrk := wt.rank s hsm p f hpar
        rw [hsi] at hrk
        obtain ⟨x, hx, hS⟩ := ih p hpm (by omega)
        simp only [he, hsrc, hx]
        refine ⟨x + e.w, rfl, ?_⟩
        rw [hw, Rat.mul_comm]
        exact ToProxS.step hs hpar hS

theorem distanceG_root {m : Morph} {r : Nat → Nat} {root : Nat} (wt : WfTree m r root) (len : Nat → Rat)
    (fuel i : Nat) (hi : i ∈ ids m) (hf : r i < fuel) :
    ∃ x, distanceG (getGraph m len) fuel root i = some x ∧ ToProxS m len i x := by
  unfold distanceG
  have : root ∈ (getGraph m len).nodes := (mem_nodes wt.toWfForest len root).2 wt.root_mem
  simp only [this, if_true]
  exact distUp_root wt len fuel i hi hf

theorem inDeg_root {m : Morph} {r : Nat → Nat} (wf : WfForest m r) (len : Nat → Rat) {s : Seg} (hs : s ∈ m) :
    inDeg (getGraph m len) s.id = 0 ↔ s.parent = none := by
  unfold inDeg
  rw [List.length_eq_zero_iff, List.filter_eq_nil_iff]
  constructor
  · intro h
    cases hp : s.parent with
    | none => rfl
    | some pf =>
      obtain ⟨p, f⟩ := pf
      obtain ⟨e, he, _, hd, _⟩ := inEdge_of_parent wf len hs hp
      have := List.mem_of_find?_eq_some he
      exact absurd (by simpa using hd) (h e this)
  · intro hp e he
    have := no_edge_to_root wf len hs hp e he
    simpa using this

theorem rootByDegree_eq {m : Morph} {r : Nat → Nat} {root : Nat} (wt : WfTree m r root) (len : Nat → Rat) :
    rootByDegree (getGraph m len) = some root := by
  unfold rootByDegree
  have : (getGraph m len).nodes.filter (fun n => rootByDegree.outOfEdges (getGraph m len) n) = [root] := by
    apply filter_eq_singleton (nodup_nodes m len) ((mem_nodes wt.toWfForest len root).2 wt.root_mem)
    · obtain ⟨s, hs, _, hid, hp⟩ := wt.root_seg
      unfold rootByDegree.outOfEdges
      rw [← hid, (inDeg_root wt.toWfForest len hs).2 hp]; rfl
    · intro x hx hpx
      obtain ⟨s, hs, hid⟩ := mem_ids.1 ((mem_nodes wt.toWfForest len x).1 hx)
      unfold rootByDegree.outOfEdges at hpx
      rw [← hid] at hpx ⊢
      exact wt.eq_root hs ((inDeg_root wt.toWfForest len hs).1 (by simpa using hpx))
  rw [this]

/-- **`get_morphology_root` returns the segment without parent** -/
theorem morphologyRoot_eq {m : Morph} {r : Nat → Nat} {root : Nat} (wt : WfTree m r root) (len : Nat → Rat) :
    morphologyRoot m len = some root := by
  unfold morphologyRoot morphologyRootG
  cases h0 : find m 0 with
  | none => exact rootByDegree_eq wt len
  | some s =>
    simp only
    split
    · rename_i hp
      have ⟨hsm, hsi⟩ := find_some h0
      rw [← wt.eq_root hsm (by simpa using hp), hsi]
    · exact rootByDegree_eq wt len

theorem outDeg_eq (m : Morph) (len : Nat → Rat) (n : Nat) : outDeg (getGraph m len) n = (childrenS m n).length := by
  unfold outDeg
  rw [← outEdges m len n, List.length_map]
  rfl

/-- **branching points = segments with at least two children** -/
theorem mem_branchingPoints {m : Morph} {r : Nat → Nat} (wf : WfForest m r) (len : Nat → Rat) (i : Nat) :
    i ∈ branchingPoints m len ↔ IsBranchS m i := by
  unfold branchingPoints branchingPointsG IsBranchS
  simp only [List.mem_filter, mem_nodes wf len, outDeg_eq, decide_eq_true_eq]
  constructor
  · rintro ⟨h1, h2⟩; exact ⟨h1, by omega⟩
  · rintro ⟨h1, h2⟩; exact ⟨h1, by omega⟩

theorem mem_tipNodes {m : Morph} {r : Nat → Nat} (wf : WfForest m r) (len : Nat → Rat) (i : Nat) :
    i ∈ tipNodes (getGraph m len) ↔ IsTipS m i := by
  unfold tipNodes IsTipS
  simp only [List.mem_filter, mem_nodes wf len, outDeg_eq, beq_iff_eq, List.length_eq_zero_iff]

/-- **extremities = tips with their path length from the root** -/
theorem extremities_spec {m : Morph} {r : Nat → Nat} {root : Nat} (wt : WfTree m r root) (len : Nat → Rat)
    (fuel : Nat) (hf : ∀ i ∈ ids m, r i < fuel) :
    ∃ res, extremities m len fuel = some res ∧
      ∀ i x, (i, x) ∈ res ↔ IsTipS m i ∧ ToProxS m len i x := by
  unfold extremities extremitiesG
  have hroot := morphologyRoot_eq wt len
  unfold morphologyRoot at hroot
  rw [hroot]
  simp only
  have hall : ∀ a ∈ tipNodes (getGraph m len),
      ∃ b, (distanceG (getGraph m len) fuel root a).map (fun x => (a, x)) = some b := by
    intro a ha
    have hai := ((mem_tipNodes wt.toWfForest len a).1 ha).1
    obtain ⟨x, hx, _⟩ := distanceG_root wt len fuel a hai (hf a hai)
    exact ⟨(a, x), by simp [hx]⟩
  obtain ⟨bs, hbs, hmem⟩ := mapOpt_spec hall
  refine ⟨bs, hbs, ?_⟩
  intro i x
  rw [hmem]
  constructor
  · rintro ⟨a, ha, hfa⟩
    have hat := (mem_tipNodes wt.toWfForest len a).1 ha
    obtain ⟨y, hy, hS⟩ := distanceG_root wt len fuel a hat.1 (hf a hat.1)
    rw [hy] at hfa
    simp at hfa
    obtain ⟨rfl, rfl⟩ := hfa
    exact ⟨hat, hS⟩
  · rintro ⟨ht, hS⟩
    refine ⟨i, (mem_tipNodes wt.toWfForest len i).2 ht, ?_⟩
    obtain ⟨y, hy, hS'⟩ := distanceG_root wt len fuel i ht.1 (hf i ht.1)
    rw [hy, ToProxS.unique hS hS']
    rfl

/-! ### all distances, segments at distance -/

/-- **all distances from the root = path lengths by definition, for every segment** -/
theorem allDistances_spec {m : Morph} {r : Nat → Nat} {root : Nat} (wt : WfTree m r root) (len : Nat → Rat)
    (fuel : Nat) (hf : ∀ i ∈ ids m, r i < fuel) :
    ∃ res, allDistances m len fuel root = some res ∧
      ∀ i x, (i, x) ∈ res ↔ i ∈ ids m ∧ ToProxS m len i x := by
  unfold allDistances allDistancesG
  have : root ∈ (getGraph m len).nodes := (mem_nodes wt.toWfForest len root).2 wt.root_mem
  simp only [this, if_true]
  refine ⟨_, rfl, ?_⟩
  intro i x
  simp only [List.mem_filterMap, mem_nodes wt.toWfForest len]
  have hedges : (getGraph m len).edges = graphEdges m len := rfl
  rw [hedges]
  constructor
  · rintro ⟨a, ha, hfa⟩
    obtain ⟨y, hy, hS⟩ := distUp_root wt len fuel a ha (hf a ha)
    rw [hy] at hfa
    simp at hfa
    obtain ⟨rfl, rfl⟩ := hfa
    exact ⟨ha, hS⟩
  · rintro ⟨hi, hS⟩
    obtain ⟨y, hy, hS'⟩ := distUp_root wt len fuel i hi (hf i hi)
    exact ⟨i, hi, by rw [hy, ToProxS.unique hS hS']; rfl⟩

theorem frac_le_one_iff {d x l : Rat} (hl : 0 < l) : ¬ (1 < (d - x) / l) ↔ d ≤ x + l := by
  rw [Rat.lt_div_iff hl]
  constructor
  · intro h; grind
  · intro h; grind

/-- **segments at distance `d` from the root = the segments that contain the point at path length `d`** -/
theorem segmentsAtDistance_spec {m : Morph} {r : Nat → Nat} {root : Nat} (wt : WfTree m r root) (len : Nat → Rat)
    (hlen : ∀ i ∈ ids m, 0 ≤ len i) (fuel : Nat) (hf : ∀ i ∈ ids m, r i < fuel) (d : Rat) (hd : 0 ≤ d) :
    ∃ res, segmentsAtDistance m len fuel d root = some res ∧
      ∀ i fr, (i, fr) ∈ res ↔ AtDistanceS m len d i fr := by
  obtain ⟨l, hl, hmem⟩ := allDistances_spec wt len fuel hf
  unfold segmentsAtDistance segmentsAtDistanceG
  unfold allDistances at hl
  rw [hl]
  refine ⟨_, rfl, ?_⟩
  intro i fr
  simp only [List.mem_filterMap, List.mem_filter, Bool.or_eq_true, beq_iff_eq, decide_eq_true_eq]
  unfold AtDistanceS
  constructor
  · rintro ⟨⟨a, x⟩, ⟨hax, hxd⟩, hstep⟩
    obtain ⟨hai, hS⟩ := (hmem a x).1 hax
    have hxd' : x ≤ d := by
      rcases hxd with h | h
      · simp only at h
        subst h
        obtain ⟨s, _, hfs, _, hps⟩ := wt.root_seg
        rw [ToProxS.unique hS (ToProxS.root hfs hps)]
        exact hd
      · exact h
    unfold atDistStep at hstep
    simp only at hstep
    split at hstep
    · cases hstep
    · rename_i hne
      split at hstep
      · cases hstep
      · rename_i hfr
        simp only [Option.some.injEq, Prod.mk.injEq] at hstep
        obtain ⟨hia, hfr'⟩ := hstep
        subst hia
        subst hfr'
        have hpos : 0 < len a := by
          have := hlen a hai
          grind
        exact ⟨hai, hne, x, hS, hxd', (frac_le_one_iff hpos).1 hfr, rfl⟩
  · rintro ⟨hi, hne, x, hS, hxd, hdx, rfl⟩
    refine ⟨(i, x), ⟨(hmem i x).2 ⟨hi, hS⟩, Or.inr hxd⟩, ?_⟩
    have hpos : 0 < len i := by
      have := hlen i hi
      grind
    unfold atDistStep
    simp only [hne, if_false, (frac_le_one_iff hpos).2 hdx]

/-! ### ordered segments -/

theorem rlookup_cons (e : Nat × Rat) (mp : RMap) (i : Nat) :
    rlookup (e :: mp) i = if e.1 = i then some e.2 else rlookup mp i := by
  unfold rlookup
  simp only [List.find?_cons]
  by_cases h : e.1 = i
  · simp [h]
  · have : (e.1 == i) = false := by simpa using h
    simp [this, h]

theorem walkUp_spec {m : Morph} {r : Nat → Nat} (wf : WfForest m r) (len : Nat → Rat) :
    ∀ (fuel i : Nat) (acc : Rat), i ∈ ids m → r i < fuel →
      ∃ x, ToProxS m len i x ∧ walkUp m len fuel i acc = some (acc + x) := by
  intro fuel
  induction fuel with
  | zero => intro i _ _ h; omega
  | succ k ih =>
    intro i acc hi hr
    obtain ⟨s, hs⟩ := find_of_mem_ids hi
    have ⟨hsm, hsi⟩ := find_some hs
    unfold walkUp
    simp only [hs]
    cases hpar : s.parent with
    | none => exact ⟨0, ToProxS.root hs hpar, by simp [Rat.add_zero]⟩
    | some pf =>
      obtain ⟨p, f⟩ := pf
      have hpm := wf.parent_mem s hsm p f hpar
      have hrk := wf.rank s hsm p f hpar
      rw [hsi] at hrk
      obtain ⟨ps, hps⟩ := find_of_mem_ids hpm
      obtain ⟨y, hS, hw⟩ := ih p (acc + len p * f) hpm (by omega)
      simp only [hps, hw]
      refine ⟨y + f * len p, ToProxS.step hs hpar hS, ?_⟩
      congr 1
      grind

structure OrdInv (m : Morph) (len : Nat → Rat) (st : OrdState) (done : List Nat) : Prop where
  dist_ok : ∀ i y, rlookup st.dist i = some y →
    ∃ x, rlookup st.prox i = some x ∧ ToProxS m len i x ∧ y = x + len i
  done_ok : ∀ i ∈ done, ∃ x, rlookup st.prox i = some x ∧ ToProxS m len i x ∧ rlookup st.dist i = some (x + len i)
  keys : ∀ i, (rlookup st.prox i).isSome → i ∈ done

theorem ordInv_push {m : Morph} {len : Nat → Rat} {st : OrdState} {done : List Nat} (inv : OrdInv m len st done)
    {i : Nat} {x : Rat} (hS : ToProxS m len i x) :
    OrdInv m len ⟨(i, x) :: st.prox, (i, x + len i) :: st.dist, st.tot + len i, st.cum ++ [st.tot + len i]⟩
      (i :: done) := by
  constructor
  · intro j y hj
    simp only [rlookup_cons] at hj ⊢
    by_cases h : i = j
    · subst h
      simp only [if_true, Option.some.injEq] at hj ⊢
      exact ⟨x, rfl, hS, hj.symm⟩
    · simp only [h, if_false] at hj ⊢
      exact inv.dist_ok j y hj
  · intro j hj
    simp only [rlookup_cons]
    by_cases h : i = j
    · subst h
      exact ⟨x, by simp, hS, by simp⟩
    · simp only [h, if_false]
      rcases List.mem_cons.1 hj with e | hj'
      · exact absurd e.symm h
      · exact inv.done_ok j hj'
  · intro j hj
    simp only [rlookup_cons] at hj
    by_cases h : i = j
    · subst h; exact List.mem_cons_self
    · simp only [h, if_false] at hj
      exact List.mem_cons_of_mem _ (inv.keys j hj)

theorem ordStep_spec {m : Morph} {r : Nat → Nat} (wf : WfForest m r) (len : Nat → Rat) (fuel : Nat)
    {st : OrdState} {done : List Nat} (inv : OrdInv m len st done) {i : Nat} (hi : i ∈ ids m) (hf : r i < fuel) :
    ∃ st', ordStep m len fuel st i = some st' ∧ OrdInv m len st' (i :: done) ∧
      st'.tot = st.tot + len i ∧ st'.cum = st.cum ++ [st.tot + len i] := by
  obtain ⟨s, hs⟩ := find_of_mem_ids hi
  have hwalk : ∃ x, ToProxS m len i x ∧ walkUp m len fuel i 0 = some x := by
    obtain ⟨x, hS, hw⟩ := walkUp_spec wf len fuel i 0 hi hf
    exact ⟨x, hS, by rw [hw, Rat.zero_add]⟩
  have hpx : ∃ x, ToProxS m len i x ∧ ordProx m len fuel st i s = some x := by
    unfold ordProx
    cases hpar : s.parent with
    | none => exact hwalk
    | some pf =>
      obtain ⟨p, f⟩ := pf
      simp only
      cases hd : rlookup st.dist p with
      | none => exact hwalk
      | some pd =>
        obtain ⟨pp, hpp, hSp, hpd⟩ := inv.dist_ok p pd hd
        simp only [hpp]
        refine ⟨pp + f * len p, ToProxS.step hs hpar hSp, ?_⟩
        congr 1
        rw [hpd]; grind
  obtain ⟨x, hS, hx⟩ := hpx
  refine ⟨_, ?_, ordInv_push inv hS, rfl, rfl⟩
  unfold ordStep
  simp only [hs]
  rw [hx]

theorem foldlOpt_ordStep {m : Morph} {r : Nat → Nat} (wf : WfForest m r) (len : Nat → Rat) (fuel : Nat) :
    ∀ (l : List Nat) (st : OrdState) (done : List Nat), (∀ i ∈ l, i ∈ ids m ∧ r i < fuel) → OrdInv m len st done →
      ∃ st', foldlOpt (ordStep m len fuel) st l = some st' ∧ OrdInv m len st' (l.reverse ++ done) ∧
        st'.cum = st.cum ++ prefixSumsS st.tot (l.map len) := by
  intro l
  induction l with
  | nil => intro st done _ inv; exact ⟨st, rfl, by simpa using inv, by simp [prefixSumsS]⟩
  | cons a l ih =>
    intro st done hl inv
    obtain ⟨st1, h1, inv1, htot, hcum⟩ := ordStep_spec wf len fuel inv (hl a List.mem_cons_self).1 (hl a List.mem_cons_self).2
    obtain ⟨st2, h2, inv2, hcum2⟩ := ih st1 (a :: done) (fun i hi => hl i (List.mem_cons_of_mem _ hi)) inv1
    refine ⟨st2, by simp [foldlOpt, h1, h2], by simpa using inv2, ?_⟩
    rw [hcum2, hcum, htot]
    simp [prefixSumsS]

theorem sortIds_perm (group : List Nat) : (sortIds group).Perm group := List.mergeSort_perm _ _

theorem sortIds_sorted (group : List Nat) : (sortIds group).Pairwise (· ≤ ·) := by
  have := List.pairwise_mergeSort (le := fun a b => decide (a ≤ b))
    (by intro a b c; simp only [decide_eq_true_eq]; omega)
    (by intro a b; simp only [Bool.or_eq_true, decide_eq_true_eq]; omega) group
  unfold sortIds
  exact this.imp (by intro a b h; simpa using h)

/-- **ordered segments: path lengths to the proximal / distal end = definition; cumulative lengths = prefix sums in
    id order** (any group of existing segments, any numbering, any file order) -/
theorem orderedSegments_spec {m : Morph} {r : Nat → Nat} (wf : WfForest m r) (len : Nat → Rat) (fuel : Nat)
    (group : List Nat) (hg : ∀ i ∈ group, i ∈ ids m) (hf : ∀ i ∈ ids m, r i < fuel) :
    ∃ st, orderedSegments m len fuel group = some (sortIds group, st) ∧
      (∀ i ∈ group, ∃ x, rlookup st.prox i = some x ∧ ToProxS m len i x ∧ rlookup st.dist i = some (x + len i)) ∧
      (∀ i, (rlookup st.prox i).isSome → i ∈ group) ∧
      st.cum = prefixSumsS 0 ((sortIds group).map len) := by
  have hl : ∀ i ∈ sortIds group, i ∈ ids m ∧ r i < fuel := by
    intro i hi
    have := hg i ((sortIds_perm group).mem_iff.1 hi)
    exact ⟨this, hf i this⟩
  have inv0 : OrdInv m len ⟨[], [], 0, []⟩ [] := by
    constructor
    · intro i y h; simp [rlookup] at h
    · intro i h; cases h
    · intro i h; simp [rlookup] at h
  obtain ⟨st, hst, inv, hcum⟩ := foldlOpt_ordStep wf len fuel (sortIds group) _ [] hl inv0
  refine ⟨st, by unfold orderedSegments; rw [hst], ?_, ?_, by simpa using hcum⟩
  · intro i hi
    exact inv.done_ok i (by simpa using (sortIds_perm group).mem_iff.2 hi)
  · intro i hi
    have := inv.keys i hi
    exact (sortIds_perm group).mem_iff.1 (by simpa using this)

/-! ### rank compression (fuel bound) -/

theorem countP_lt_length_of_mem {l : List Nat} {p : Nat → Bool} {a : Nat} (ha : a ∈ l) (hp : p a = false) :
    l.countP p < l.length := by
  induction l with
  | nil => cases ha
  | cons b l ih =>
    rcases List.mem_cons.1 ha with rfl | ha'
    · simp only [List.countP_cons, hp, List.length_cons]
      have := List.countP_le_length (p := p) (l := l)
      simp; omega
    · have := ih ha'
      simp only [List.countP_cons, List.length_cons]
      split <;> omega

theorem countP_lt_countP {l : List Nat} {p q : Nat → Bool} {a : Nat} (hpq : ∀ x, p x = true → q x = true)
    (ha : a ∈ l) (hp : p a = false) (hq : q a = true) : l.countP p < l.countP q := by
  induction l with
  | nil => cases ha
  | cons b l ih =>
    have hle : l.countP p ≤ l.countP q := List.countP_mono_left (fun x _ => hpq x)
    rcases List.mem_cons.1 ha with rfl | ha'
    · simp only [List.countP_cons, hp, hq]
      simp; omega
    · have := ih ha'
      simp only [List.countP_cons]
      cases hb : p b with
      | true => simp [hpq b hb]; omega
      | false => cases hqb : q b <;> simp <;> omega

/-- rank compression: the number of segments of strictly smaller rank -/
def compress (m : Morph) (r : Nat → Nat) (i : Nat) : Nat := (ids m).countP (fun j => decide (r j < r i))

/-- every rank function can be replaced by one that is bounded by the number of segments
    (so `m.length + 1` units of fuel are enough whatever the ids are) -/
theorem WfForest.compress {m : Morph} {r : Nat → Nat} (wf : WfForest m r) :
    WfForest m (compress m r) ∧ ∀ i ∈ ids m, compress m r i < m.length := by
  refine ⟨⟨wf.nodup, wf.parent_mem, ?_⟩, ?_⟩
  · intro s hs p f hp
    have hr := wf.rank s hs p f hp
    have hpm := wf.parent_mem s hs p f hp
    unfold Morph.compress
    apply countP_lt_countP (a := p)
    · intro x hx; simp only [decide_eq_true_eq] at hx ⊢; omega
    · exact hpm
    · simp
    · simpa using hr
  · intro i hi
    unfold Morph.compress
    have := countP_lt_length_of_mem (p := fun j => decide (r j < r i)) hi (by simp)
    simpa [ids] using this

theorem WfTree.compress {m : Morph} {r : Nat → Nat} {root : Nat} (wt : WfTree m r root) :
    WfTree m (Morph.compress m r) root ∧ ∀ i ∈ ids m, Morph.compress m r i < m.length + 1 := by
  obtain ⟨h1, h2⟩ := wt.toWfForest.compress
  exact ⟨⟨h1, wt.one_root⟩, fun i hi => Nat.lt_succ_of_lt (h2 i hi)⟩

/-! ### location info -/

/-- `a` is `i` or an ancestor of `i` -/
inductive Anc (m : Morph) (a : Nat) : Nat → Prop
  | refl : Anc m a a
  | step {i : Nat} {s : Seg} {p : Nat} {f : Rat} : find m i = some s → s.parent = some (p, f) → Anc m a p → Anc m a i

theorem succs_eq (m : Morph) (len : Nat → Rat) (n : Nat) : succs (getGraph m len) n = childrenS m n :=
  outEdges m len n

theorem preds_root {m : Morph} {r : Nat → Nat} (wf : WfForest m r) (len : Nat → Rat) {s : Seg} (hs : s ∈ m)
    (hp : s.parent = none) : preds (getGraph m len) s.id = [] := by
  unfold preds
  have : (getGraph m len).edges.filter (fun e => e.dst == s.id) = [] := by
    rw [List.filter_eq_nil_iff]
    intro e he
    have := no_edge_to_root wf len hs hp e he
    simpa using this
  rw [this]; rfl

theorem preds_parent {m : Morph} {r : Nat → Nat} (wf : WfForest m r) (len : Nat → Rat) {s : Seg} (hs : s ∈ m)
    {p : Nat} {f : Rat} (hp : s.parent = some (p, f)) : ∃ rest, preds (getGraph m len) s.id = p :: rest := by
  obtain ⟨e, he, hsrc, hdst, _⟩ := inEdge_of_parent wf len hs hp
  have hmem : e ∈ (getGraph m len).edges.filter (fun e => e.dst == s.id) := by
    simp only [List.mem_filter, beq_iff_eq]
    exact ⟨List.mem_of_find?_eq_some he, hdst⟩
  have hall : ∀ q ∈ preds (getGraph m len) s.id, q = p := by
    intro q hq
    unfold preds at hq
    simp only [List.mem_map, List.mem_filter, beq_iff_eq] at hq
    obtain ⟨e', ⟨he', hd'⟩, rfl⟩ := hq
    have he'' : e' ∈ graphEdges m len := he'
    rw [mem_graphEdges] at he''
    obtain ⟨s', hs', hid, f', hp'⟩ := mem_childrenS.1 he''.1
    rw [hd'] at hid
    have := seg_eq_of_id_eq wf.nodup hs' hs hid
    subst this
    rw [hp] at hp'; cases hp'; rfl
  cases hpr : preds (getGraph m len) s.id with
  | nil =>
    unfold preds at hpr
    have : e.src ∈ List.map (fun x => x.src) (List.filter (fun e => e.dst == s.id) (getGraph m len).edges) :=
      List.mem_map_of_mem hmem
    rw [hpr] at this; cases this
  | cons q rest =>
    have := hall q (by rw [hpr]; exact List.mem_cons_self)
    subst this
    exact ⟨rest, rfl⟩

theorem walkBranchOld_none {m : Morph} {r : Nat → Nat} (wf : WfForest m r) (len : Nat → Rat) {i : Nat}
    (h : NoBranchAbove m i) : ∀ fuel, walkBranchOld (getGraph m len) fuel i = none := by
  induction h with
  | root hs hp =>
    intro fuel
    have ⟨hsm, hsi⟩ := find_some hs
    cases fuel with
    | zero => rfl
    | succ k => unfold walkBranchOld; rw [← hsi, preds_root wf len hsm hp]
  | up hs hp hone _ ih =>
    intro fuel
    have ⟨hsm, hsi⟩ := find_some hs
    cases fuel with
    | zero => rfl
    | succ k =>
      unfold walkBranchOld
      obtain ⟨rest, hpr⟩ := preds_parent wf len hsm hp
      rw [← hsi, hpr]
      simp only [succs_eq, hone, if_true]
      exact ih k

theorem walkBranchOld_some {m : Morph} {r : Nat → Nat} (wf : WfForest m r) (len : Nat → Rat) :
    ∀ (fuel i : Nat), HasBranchAbove m i → r i < fuel →
      ∃ cur, walkBranchOld (getGraph m len) fuel i = some cur ∧ Anc m cur i := by
  intro fuel
  induction fuel with
  | zero => intro i _ h; omega
  | succ k ih =>
    intro i hb hr
    unfold walkBranchOld
    cases hb with
    | here hs hp hne =>
      have ⟨hsm, hsi⟩ := find_some hs
      obtain ⟨rest, hpr⟩ := preds_parent wf len hsm hp
      rw [← hsi, hpr]
      simp only [succs_eq, hne, if_false]
      exact ⟨_, rfl, Anc.refl⟩
    | up hs hp hone hb' =>
      have ⟨hsm, hsi⟩ := find_some hs
      obtain ⟨rest, hpr⟩ := preds_parent wf len hsm hp
      have hrk := wf.rank _ hsm _ _ hp
      rw [hsi] at hrk
      rw [← hsi, hpr]
      simp only [succs_eq, hone, if_true]
      obtain ⟨cur, hc, ha⟩ := ih _ hb' (by omega)
      exact ⟨cur, hc, Anc.step (hsi ▸ hs) hp ha⟩

/-- the walk of the repaired method always ends, at the first segment of the unbranched stretch of `i` -/
theorem walkBranch_spec {m : Morph} {r : Nat → Nat} (wf : WfForest m r) (len : Nat → Rat) :
    ∀ (fuel i : Nat), i ∈ ids m → r i < fuel →
      ∃ cur, walkBranch (getGraph m len) fuel i = some cur ∧ Anc m cur i ∧ StretchTopS m i cur := by
  intro fuel
  induction fuel with
  | zero => intro i _ h; omega
  | succ k ih =>
    intro i hi hr
    obtain ⟨s, hs⟩ := find_of_mem_ids hi
    have ⟨hsm, hsi⟩ := find_some hs
    unfold walkBranch
    cases hpar : s.parent with
    | none =>
      rw [← hsi, preds_root wf len hsm hpar]
      exact ⟨_, rfl, Anc.refl, StretchTopS.root (hsi ▸ hs) hpar⟩
    | some pf =>
      obtain ⟨p, f⟩ := pf
      obtain ⟨rest, hpr⟩ := preds_parent wf len hsm hpar
      rw [← hsi, hpr]
      simp only [succs_eq]
      split
      · next hone =>
        have hpm := wf.parent_mem s hsm p f hpar
        have hrk := wf.rank s hsm p f hpar
        rw [hsi] at hrk
        obtain ⟨cur, hc, ha, ht⟩ := ih p hpm (by omega)
        exact ⟨cur, hc, Anc.step (hsi ▸ hs) hpar ha, StretchTopS.up (hsi ▸ hs) hpar hone ht⟩
      · next hne => exact ⟨_, rfl, Anc.refl, StretchTopS.branch (hsi ▸ hs) hpar hne⟩

/-- where the old walk returned, the repaired walk returns the same segment (any graph) -/
theorem walkBranch_of_old (g : Graph) : ∀ (fuel i cur : Nat),
    walkBranchOld g fuel i = some cur → walkBranch g fuel i = some cur := by
  intro fuel
  induction fuel with
  | zero => intro i cur h; cases h
  | succ k ih =>
    intro i cur h
    unfold walkBranchOld at h
    unfold walkBranch
    cases hp : preds g i with
    | nil => rw [hp] at h; cases h
    | cons par rest =>
      rw [hp] at h
      simp only at h ⊢
      split
      · next h1 => rw [if_pos h1] at h; exact ih _ _ h
      · next h1 => rw [if_neg h1] at h; exact h

theorem distUp_anc {m : Morph} {r : Nat → Nat} (wf : WfForest m r) (len : Nat → Rat) (a : Nat) :
    ∀ (fuel i : Nat), Anc m a i → r i < fuel → ∃ x, distUp (graphEdges m len) a fuel i = some x := by
  intro fuel
  induction fuel with
  | zero => intro i _ h; omega
  | succ k ih =>
    intro i han hr
    unfold distUp
    cases han with
    | refl => exact ⟨0, by simp⟩
    | step hs hp ha =>
      by_cases hia : i = a
      · exact ⟨0, by simp [hia]⟩
      · have ⟨hsm, hsi⟩ := find_some hs
        obtain ⟨e, he, hsrc, _, _⟩ := inEdge_of_parent wf len hsm hp
        have hrk := wf.rank _ hsm _ _ hp
        rw [hsi] at hrk he
        obtain ⟨x, hx⟩ := ih _ ha (by omega)
        simp only [hia, if_false, he, hsrc, hx]
        exact ⟨_, rfl⟩

theorem anc_mem {m : Morph} {r : Nat → Nat} (wf : WfForest m r) {a i : Nat} (h : Anc m a i) (hi : i ∈ ids m) :
    a ∈ ids m := by
  induction h with
  | refl => exact hi
  | step hs hp _ ih => exact ih (wf.parent_mem _ (find_some hs).1 _ _ hp)

end NmlVerif.Morph
