import NmlVerif.Model.MorphCell
import NmlVerif.Proofs.MorphSP
/-!
# C13 — the cell OBJECT with caches (`Model/MorphCell.lean`) against the cache-free first-pass model

On a well-formed forest, with `L` agreeing with the length function `len`:
* `getAdjS` stores and returns `adjacencyList` (any segment list);
* `graphFrom` of the up-to-date adjacency list is `getGraph`;
* the networkx model on that graph is the first-pass path model (`distanceG`, `allDistancesG`, …) — through
  `spDist_eq_distUp`;
* every method, from every COHERENT object (each cache absent or up to date), returns the cache-free value and leaves
  a coherent object (`runCall_coh`).
-/
namespace NmlVerif.Morph

/-! ### generic loop lemmas -/

theorem forOpt_total {σ α : Type} {f : σ → α → Option σ} (g : σ → α → σ) :
    ∀ (xs : List α) (init : σ), (∀ x ∈ xs, ∀ acc, f acc x = some (g acc x)) →
      forOpt xs init f = some (xs.foldl g init) := by
  intro xs
  induction xs with
  | nil => intro init _; rfl
  | cons x xs ih =>
    intro init h
    unfold forOpt foldlOpt
    rw [h x List.mem_cons_self init]
    exact ih (g init x) (fun y hy acc => h y (List.mem_cons_of_mem _ hy) acc)

theorem filterMap_congr' {α β : Type} {f g : α → Option β} :
    ∀ (l : List α), (∀ a ∈ l, f a = g a) → l.filterMap f = l.filterMap g := by
  intro l
  induction l with
  | nil => intro _; rfl
  | cons a l ih =>
    intro h
    simp only [List.filterMap_cons, h a List.mem_cons_self]
    rw [ih (fun x hx => h x (List.mem_cons_of_mem _ hx))]

theorem foldl_flatMap' {α β γ : Type} (f : α → List β) (g : γ → β → γ) :
    ∀ (l : List α) (init : γ), (l.flatMap f).foldl g init = l.foldl (fun acc a => (f a).foldl g acc) init := by
  intro l
  induction l with
  | nil => intro init; rfl
  | cons a l ih => intro init; rw [List.flatMap_cons, List.foldl_append, ih]; rfl

/-! ### adjacency list -/

theorem dictAppend_adjInsert (cl : Adj) (p c : Nat) :
    dictAppend (if dictHas cl p then cl else dictSet cl p []) p c = some (adjInsert cl p c) := by
  induction cl with
  | nil => simp [dictHas, dictSet, dictAppend, adjInsert]
  | cons e cl ih =>
    obtain ⟨q, cs⟩ := e
    by_cases hq : q = p
    · subst hq
      simp [dictHas, dictAppend, adjInsert]
    · have hqb : (q == p) = false := by simpa using hq
      by_cases hh : dictHas cl p = true
      · have : dictHas ((q, cs) :: cl) p = true := by simp [dictHas] at hh ⊢; exact Or.inr hh
        simp only [this, if_true, dictAppend, hq, if_false, adjInsert]
        simp only [hh, if_true] at ih
        rw [ih]
      · have hh' : dictHas cl p = false := by simpa using hh
        have : dictHas ((q, cs) :: cl) p = false := by
          simp only [dictHas, List.any_cons, hqb, Bool.false_or]; exact hh'
        simp only [this, Bool.false_eq_true, if_false, dictSet, hq, dictAppend, adjInsert]
        simp only [hh', Bool.false_eq_true, if_false] at ih
        rw [ih]

theorem adjStepS_eq (cl : Adj) (s : Seg) : adjStepS cl s = some (adjStep cl s) := by
  unfold adjStepS adjStep
  cases s.parent with
  | none => rfl
  | some pf => obtain ⟨p, f⟩ := pf; exact dictAppend_adjInsert cl p s.id

/-- `get_segment_adjacency_list` always stores and returns the adjacency list of the CURRENT segments -/
theorem getAdjS_eq (self : CellS) :
    getAdjS self = ({ self with adjacency_list := some (adjacencyList self.segments) }, some (adjacencyList self.segments)) := by
  unfold getAdjS
  rw [forOpt_total adjStep self.segments [] (fun x _ acc => adjStepS_eq acc x)]
  rfl

/-! ### the graph -/

/-- `L` is the length function `len` on the segments of `m` -/
def Lok (L : Morph → Nat → Option Rat) (m : Morph) (len : Nat → Rat) : Prop := ∀ i ∈ ids m, L m i = some (len i)

def addEdgeE (g : Graph) (e : Edge) : Graph := nx_add_edge g e.src e.dst e.w

theorem foldl_addEdgeE (es : List Edge) : ∀ (g : Graph),
    es.foldl addEdgeE g = ⟨es.foldl (fun ns e => addNode (addNode ns e.src) e.dst) g.nodes, g.edges ++ es⟩ := by
  induction es with
  | nil => intro g; simp
  | cons e es ih =>
    intro g
    rw [List.foldl_cons, ih]
    simp [addEdgeE, nx_add_edge, List.append_assoc]

theorem mem_adjacencyList {m : Morph} {p : Nat} {cs : List Nat} (h : (p, cs) ∈ adjacencyList m) :
    cs = childrenS m p ∧ cs ≠ [] := by
  have := (adjLookup_eq_some_iff _ (adjKeys_nodup m) p cs).2 h
  rw [adjLookup_adjacencyList] at this
  split at this
  · cases this
  · next hne => cases this; exact ⟨rfl, hne⟩

theorem graphInner_fresh {m : Morph} {r : Nat → Nat} (wf : WfForest m r) (p : Nat) (pl : Rat) (g : Graph) (cs : List Nat)
    (hcs : ∀ c ∈ cs, c ∈ childrenS m p) :
    graphInner m p pl g cs = some ((cs.map (fun c => (⟨p, c, pl * fracOf m c⟩ : Edge))).foldl addEdgeE g) := by
  unfold graphInner
  rw [List.foldl_map]
  apply forOpt_total
  intro c hc acc
  obtain ⟨s, hs, hid, f, hp⟩ := mem_childrenS.1 (hcs c hc)
  have hf := find_of_mem_nodup wf.nodup hs
  rw [hid] at hf
  simp only [hf, hp, addEdgeE]
  rw [← hid, fracOf_eq wf.nodup hs hp]

/-- the graph built from the up-to-date adjacency list is the graph of the first-pass model -/
theorem graphFrom_fresh {L : Morph → Nat → Option Rat} {m : Morph} {r : Nat → Nat} {len : Nat → Rat}
    (wf : WfForest m r) (hL : Lok L m len) : graphFrom L m (adjacencyList m) = some (getGraph m len) := by
  unfold graphFrom graphOuter
  rw [forOpt_total (fun acc e => (e.2.map (fun c => (⟨e.1, c, len e.1 * fracOf m c⟩ : Edge))).foldl addEdgeE acc)]
  · rw [← foldl_flatMap' (fun e : Nat × List Nat => e.2.map (fun c => (⟨e.1, c, len e.1 * fracOf m c⟩ : Edge))) addEdgeE,
      foldl_addEdgeE]
    simp only [nx_DiGraph, List.nil_append, nx_add_nodes_from]
    rfl
  · intro e he acc
    obtain ⟨p, cs⟩ := e
    obtain ⟨hcs, hne⟩ := mem_adjacencyList he
    have hp : p ∈ ids m := by
      cases hc : cs with
      | nil => exact absurd hc hne
      | cons c _ =>
        have : c ∈ childrenS m p := by rw [← hcs, hc]; exact List.mem_cons_self
        obtain ⟨s, hs, _, f, hpar⟩ := mem_childrenS.1 this
        exact wf.parent_mem s hs p f hpar
    simp only [hL p hp]
    exact graphInner_fresh wf p (len p) acc cs (fun c hc => hcs ▸ hc)

/-! ### coherent objects -/

/-- each cache is absent or up to date -/
structure Coh (len : Nat → Rat) (s : CellS) : Prop where
  adj : s.adjacency_list = none ∨ s.adjacency_list = some (adjacencyList s.segments)
  graph : s.cell_graph = none ∨ s.cell_graph = some (getGraph s.segments len)

theorem Coh.fresh (len : Nat → Rat) (m : Morph) : Coh len (CellS.fresh m) := ⟨Or.inl rfl, Or.inl rfl⟩

/-- coherent, same segments, graph cached -/
structure Primed (len : Nat → Rat) (m : Morph) (s : CellS) : Prop where
  segs : s.segments = m
  coh : Coh len s
  graph : s.cell_graph = some (getGraph m len)

section
variable {L : Morph → Nat → Option Rat} {len : Nat → Rat} {r : Nat → Nat}

theorem withAdj_coh {s : CellS} (hadj : s.adjacency_list = none ∨ s.adjacency_list = some (adjacencyList s.segments)) :
    ∃ s', withAdj s = (s', some (adjacencyList s.segments)) ∧ s'.segments = s.segments ∧
      s'.adjacency_list = some (adjacencyList s.segments) ∧ s'.cell_graph = s.cell_graph := by
  unfold withAdj
  rcases hadj with h | h
  · rw [h]; simp only [getAdjS_eq]; exact ⟨_, rfl, rfl, rfl, rfl⟩
  · rw [h]; exact ⟨s, rfl, rfl, h, rfl⟩

/-- `get_graph` whenever the adjacency cache is absent or up to date (the graph cache may hold anything): returns
    the graph of the first-pass model and leaves both caches up to date -/
theorem getGraphS_of_adj {s : CellS} (wf : WfForest s.segments r) (hL : Lok L s.segments len)
    (hadj : s.adjacency_list = none ∨ s.adjacency_list = some (adjacencyList s.segments)) :
    ∃ s', getGraphS L s = (s', some (getGraph s.segments len)) ∧ Primed len s.segments s' := by
  obtain ⟨s1, h1, hseg, hadj', _⟩ := withAdj_coh hadj
  unfold getGraphS bindS
  rw [h1]
  simp only [hseg, graphFrom_fresh wf hL]
  refine ⟨_, rfl, ⟨rfl, ⟨Or.inr ?_, Or.inr rfl⟩, rfl⟩⟩
  simp only [hadj']

/-- `get_graph` on a coherent object -/
theorem getGraphS_coh {s : CellS} (wf : WfForest s.segments r) (hL : Lok L s.segments len) (hc : Coh len s) :
    ∃ s', getGraphS L s = (s', some (getGraph s.segments len)) ∧ Primed len s.segments s' :=
  getGraphS_of_adj wf hL hc.adj

/-- the cache idiom of every other method -/
theorem withGraph_coh {s : CellS} (wf : WfForest s.segments r) (hL : Lok L s.segments len) (hc : Coh len s) :
    ∃ s', withGraph L s = (s', some (getGraph s.segments len)) ∧ Primed len s.segments s' := by
  unfold withGraph
  rcases hc.graph with h | h
  · rw [h]; exact getGraphS_coh wf hL hc
  · rw [h]; exact ⟨s, rfl, ⟨rfl, hc, h⟩⟩

end

/-! ### networkx on the graph of a forest = the first-pass path model -/

theorem rounds_ge {m : Morph} {r : Nat → Nat} (wf : WfForest m r) (len : Nat → Rat) :
    m.length ≤ spRounds (getGraph m len) := by
  unfold spRounds
  have : (ids m).length ≤ (getGraph m len).nodes.length :=
    List.Nodup.length_le_of_subset wf.nodup (fun x hx => (mem_nodes wf len x).2 hx)
  simpa [ids] using this

/-- shortest paths on the graph of a forest, with networkx's number of rounds, are the chain walk with the fuel the
    first-pass model uses -/
theorem spDist_getGraph {m : Morph} {r : Nat → Nat} (wf : WfForest m r) (len : Nat → Rat) (src v : Nat) :
    spDist (getGraph m len).edges src (spRounds (getGraph m len)) v =
      distUp (getGraph m len).edges src (m.length + 1) v := by
  obtain ⟨wf', hb⟩ := wf.compress
  have hr := rounds_ge wf len
  exact spDist_eq_distUp wf' len src _ _ v (fun hv => ⟨Nat.lt_of_lt_of_le (hb v hv) hr, Nat.lt_succ_of_lt (hb v hv)⟩)

theorem nx_dpl_eq {m : Morph} {r : Nat → Nat} (wf : WfForest m r) (len : Nat → Rat) (src dst : Nat) :
    nx_dijkstra_path_length (getGraph m len) src dst = distanceG (getGraph m len) (m.length + 1) src dst := by
  unfold nx_dijkstra_path_length distanceG
  rw [spDist_getGraph wf len]

theorem nx_ssd_eq {m : Morph} {r : Nat → Nat} (wf : WfForest m r) (len : Nat → Rat) (src : Nat) :
    nx_single_source_dijkstra (getGraph m len) src none = allDistancesG (getGraph m len) (m.length + 1) src := by
  unfold nx_single_source_dijkstra allDistancesG
  split
  · congr 1
    apply filterMap_congr'
    intro v _
    rw [spDist_getGraph wf len]
    cases distUp (getGraph m len).edges src (m.length + 1) v <;> rfl
  · rfl

theorem nx_ssd_cutoff_eq {m : Morph} {r : Nat → Nat} (wf : WfForest m r) (len : Nat → Rat) (src : Nat) (d : Rat) :
    nx_single_source_dijkstra (getGraph m len) src (some d) =
      (allDistancesG (getGraph m len) (m.length + 1) src).map
        (fun l => l.filter (fun e => e.1 == src || decide (e.2 ≤ d))) := by
  unfold nx_single_source_dijkstra allDistancesG
  split
  · simp only [Option.map_some, Option.some.injEq]
    rw [List.filter_filterMap]
    apply filterMap_congr'
    intro v _
    rw [spDist_getGraph wf len]
    cases distUp (getGraph m len).edges src (m.length + 1) v with
    | none => rfl
    | some x =>
      simp only [Option.map_some, Option.filter]
  · rfl

/-! ### the degree comprehensions -/

theorem filterMap_deg (deg : Nat → Nat) (P : Nat → Bool) (nodes : List Nat) :
    (nodes.map (fun n => (n, deg n))).filterMap (fun e => if P e.2 then some e.1 else none) =
      nodes.filter (fun n => P (deg n)) := by
  induction nodes with
  | nil => rfl
  | cons n ns ih =>
    simp only [List.map_cons, List.filterMap_cons, List.filter_cons]
    cases P (deg n) <;> simp [ih]

theorem branchNodesS_eq (g : Graph) : branchNodesS g = branchingPointsG g := by
  unfold branchNodesS branchingPointsG nx_out_degree
  have := filterMap_deg (outDeg g) (fun d => decide (1 < d)) g.nodes
  simpa using this

theorem tipNodesS_eq (g : Graph) : tipNodesS g = tipNodes g := by
  unfold tipNodesS tipNodes nx_out_degree
  have := filterMap_deg (outDeg g) (fun d => d == 0) g.nodes
  simpa using this

theorem rootNodesS_eq (g : Graph) : rootNodesS g = g.nodes.filter (fun n => rootByDegree.outOfEdges g n) := by
  unfold rootNodesS nx_in_degree rootByDegree.outOfEdges
  have := filterMap_deg (inDeg g) (fun d => d == 0) g.nodes
  simpa using this

theorem rootByDegreeS_eq (g : Graph) : rootByDegreeS g = rootByDegree g := by
  unfold rootByDegreeS rootByDegree
  rw [rootNodesS_eq]
  cases g.nodes.filter (fun n => rootByDegree.outOfEdges g n) with
  | nil => rfl
  | cons a t => cases t <;> simp

/-! ### the loops of `get_segments_at_distance` and `get_extremeties` -/

theorem dictSet_append {β : Type} (d : List (Nat × β)) (k : Nat) (v : β) (h : ∀ e ∈ d, e.1 ≠ k) :
    dictSet d k v = d ++ [(k, v)] := by
  induction d with
  | nil => rfl
  | cons e d ih =>
    obtain ⟨q, w⟩ := e
    have hq : ¬ q = k := h (q, w) List.mem_cons_self
    simp only [dictSet, hq, if_false, List.cons_append]
    rw [ih (fun e he => h e (List.mem_cons_of_mem _ he))]

theorem atDistLoop {L : Morph → Nat → Option Rat} {m : Morph} {len : Nat → Rat} (hL : Lok L m len) (d : Rat) :
    ∀ (target acc : RMap), (∀ e ∈ target, e.1 ∈ ids m) → (target.map (·.1)).Nodup →
      (∀ e ∈ target, ∀ a ∈ acc, a.1 ≠ e.1) →
      forOpt target acc (atDistStepS L m d) = some (acc ++ target.filterMap (atDistStep len d)) := by
  intro target
  induction target with
  | nil => intro acc _ _ _; simp [forOpt, foldlOpt]
  | cons e t ih =>
    intro acc hmem hnd hdis
    simp only [List.map_cons, List.nodup_cons] at hnd
    have hstep : ∃ acc', atDistStepS L m d acc e = some acc' ∧
        acc' = acc ++ (match atDistStep len d e with | none => [] | some b => [b]) ∧
        ∀ a ∈ acc', a.1 = e.1 ∨ a ∈ acc := by
      unfold atDistStepS atDistStep
      rw [hL e.1 (hmem e List.mem_cons_self)]
      by_cases h0 : len e.1 = 0
      · simp only [h0, if_true]
        exact ⟨acc, rfl, by simp, fun a ha => Or.inr ha⟩
      · simp only [h0, if_false]
        by_cases h1 : 1 < (d - e.2) / len e.1
        · have : (d - e.2) / len e.1 > 1 := h1
          simp only [this, h1, if_true]
          exact ⟨acc, rfl, by simp, fun a ha => Or.inr ha⟩
        · have : ¬ (d - e.2) / len e.1 > 1 := h1
          simp only [this, h1, if_false]
          rw [dictSet_append _ _ _ (fun a ha => hdis e List.mem_cons_self a ha)]
          refine ⟨_, rfl, rfl, ?_⟩
          intro a ha
          rcases List.mem_append.1 ha with h | h
          · exact Or.inr h
          · simp only [List.mem_singleton] at h; subst h; exact Or.inl rfl
    obtain ⟨acc', h1, h2, h3⟩ := hstep
    unfold forOpt foldlOpt
    rw [h1]
    have := ih acc' (fun x hx => hmem x (List.mem_cons_of_mem _ hx)) hnd.2 (by
      intro x hx a ha
      rcases h3 a ha with h | h
      · rw [h]; intro heq
        exact hnd.1 (heq ▸ List.mem_map_of_mem (f := (·.1)) hx)
      · exact hdis x (List.mem_cons_of_mem _ hx) a h)
    unfold forOpt at this
    dsimp only
    rw [this, h2]
    simp only [List.filterMap_cons]
    cases atDistStep len d e <;> simp

theorem keys_filterMap_nodup {α : Type} (nodes : List Nat) (hn : nodes.Nodup) (f : Nat → Option α) :
    ((nodes.filterMap (fun v => (f v).map (fun x => (v, x)))).map (·.1)).Nodup := by
  induction nodes with
  | nil => simp
  | cons n ns ih =>
    simp only [List.nodup_cons] at hn
    simp only [List.filterMap_cons]
    cases hf : f n with
    | none => simpa using ih hn.2
    | some x =>
      simp only [Option.map_some, List.map_cons, List.nodup_cons]
      refine ⟨?_, ih hn.2⟩
      intro hmem
      simp only [List.mem_map, List.mem_filterMap] at hmem
      obtain ⟨⟨v, y⟩, ⟨w, hw, hfw⟩, hv⟩ := hmem
      cases hfw' : f w with
      | none => rw [hfw'] at hfw; cases hfw
      | some z =>
        rw [hfw'] at hfw
        simp only [Option.map_some, Option.some.injEq, Prod.mk.injEq] at hfw
        simp only at hv
        rw [← hv, ← hfw.1] at hn
        exact hn.1 hw

theorem tipLoop {L : Morph → Nat → Option Rat} (g : Graph) (s : CellS) (hs : s.cell_graph = some g) (root : Nat) (fuel : Nat)
    (hd : ∀ t, nx_dijkstra_path_length g root t = distanceG g fuel root t) :
    ∀ (tips : List Nat) (acc : RMap), tips.Nodup → (∀ t ∈ tips, ∀ a ∈ acc, a.1 ≠ t) →
      forOpt tips (acc, s) (tipStepS L root) =
        (mapOpt (fun t => (distanceG g fuel root t).map (fun x => (t, x))) tips).map (fun res => (acc ++ res, s)) := by
  intro tips
  induction tips with
  | nil => intro acc _ _; simp [forOpt, foldlOpt, mapOpt]
  | cons t ts ih =>
    intro acc hnd hdis
    simp only [List.nodup_cons] at hnd
    have hcall : getDistanceS L s t root = (s, distanceG g fuel root t) := by
      unfold getDistanceS withGraph bindS
      rw [hs]
      simp only [hd]
    unfold forOpt foldlOpt tipStepS
    simp only [hcall, mapOpt]
    cases hx : distanceG g fuel root t with
    | none => rfl
    | some x =>
      simp only [Option.map_some]
      rw [dictSet_append _ _ _ (fun a ha => hdis t List.mem_cons_self a ha)]
      have := ih (acc ++ [(t, x)]) hnd.2 (by
        intro u hu a ha
        rcases List.mem_append.1 ha with h | h
        · exact hdis u (List.mem_cons_of_mem _ hu) a h
        · simp only [List.mem_singleton] at h; subst h
          intro heq; have : t = u := heq; exact hnd.1 (this ▸ hu))
      unfold forOpt tipStepS at this
      rw [this]
      cases mapOpt (fun t => (distanceG g fuel root t).map (fun x => (t, x))) ts <;> simp

/-! ### every method on a coherent object -/

/-- the value a call returns on a FRESH cell, in terms of the cache-free first-pass model -/
def freshVal (m : Morph) (len : Nat → Rat) : Call → Option Val
  | .adjacency => some (.adj (adjacencyList m))
  | .graph => some (.graph (getGraph m len))
  | .distance d s => (distance m len (m.length + 1) s d).map .num
  | .allDistances s => (allDistances m len (m.length + 1) s).map .dists
  | .atDistance d s => (segmentsAtDistance m len (m.length + 1) d s).map .dists
  | .branching => some (.idl (branchingPoints m len))
  | .root => (morphologyRoot m len).map .nat
  | .tips => (extremities m len (m.length + 1)).map .dists

section
variable {L : Morph → Nat → Option Rat} {len : Nat → Rat} {r : Nat → Nat}

theorem getDistanceS_coh {s : CellS} (wf : WfForest s.segments r) (hL : Lok L s.segments len) (hc : Coh len s)
    (dest source : Nat) :
    ∃ s', getDistanceS L s dest source = (s', distance s.segments len (s.segments.length + 1) source dest) ∧
      s'.segments = s.segments ∧ Coh len s' := by
  obtain ⟨s', h1, hp⟩ := withGraph_coh wf hL hc
  unfold getDistanceS bindS distance
  rw [h1]
  exact ⟨s', by simp only [nx_dpl_eq wf len], hp.segs, hp.coh⟩

theorem getAllDistancesS_coh {s : CellS} (wf : WfForest s.segments r) (hL : Lok L s.segments len) (hc : Coh len s)
    (src : Nat) :
    ∃ s', getAllDistancesS L s src = (s', allDistances s.segments len (s.segments.length + 1) src) ∧
      s'.segments = s.segments ∧ Coh len s' := by
  obtain ⟨s', h1, hp⟩ := withGraph_coh wf hL hc
  unfold getAllDistancesS bindS allDistances
  rw [h1]
  exact ⟨s', by simp only [nx_ssd_eq wf len], hp.segs, hp.coh⟩

theorem getBranchingPointsS_coh {s : CellS} (wf : WfForest s.segments r) (hL : Lok L s.segments len) (hc : Coh len s) :
    ∃ s', getBranchingPointsS L s = (s', some (branchingPoints s.segments len)) ∧
      s'.segments = s.segments ∧ Coh len s' := by
  obtain ⟨s', h1, hp⟩ := withGraph_coh wf hL hc
  unfold getBranchingPointsS bindS branchingPoints
  rw [h1]
  exact ⟨s', by simp only [branchNodesS_eq], hp.segs, hp.coh⟩

theorem getMorphologyRootS_coh {s : CellS} (wf : WfForest s.segments r) (hL : Lok L s.segments len) (hc : Coh len s) :
    ∃ s', getMorphologyRootS L s = (s', morphologyRoot s.segments len) ∧
      s'.segments = s.segments ∧ Coh len s' ∧ (s.cell_graph.isSome → s' = s) := by
  unfold getMorphologyRootS morphologyRoot morphologyRootG
  have hvia : ∃ s', rootViaGraphS L s = (s', rootByDegree (getGraph s.segments len)) ∧
      s'.segments = s.segments ∧ Coh len s' ∧ (s.cell_graph.isSome → s' = s) := by
    obtain ⟨s', h1, hp⟩ := withGraph_coh wf hL hc
    unfold rootViaGraphS bindS
    rw [h1]
    refine ⟨s', by simp only [rootByDegreeS_eq], hp.segs, hp.coh, ?_⟩
    intro hsome
    unfold withGraph at h1
    cases hg : s.cell_graph with
    | none => rw [hg] at hsome; cases hsome
    | some g => rw [hg] at h1; simp only [Prod.mk.injEq] at h1; exact h1.1.symm
  cases h0 : find s.segments 0 with
  | none => exact hvia
  | some sg =>
    simp only
    cases hp : sg.parent with
    | none => exact ⟨s, by simp, rfl, hc, fun _ => rfl⟩
    | some pf => simpa using hvia

theorem getSegmentsAtDistanceS_coh {s : CellS} (wf : WfForest s.segments r) (hL : Lok L s.segments len) (hc : Coh len s)
    (d : Rat) (src : Nat) :
    ∃ s', getSegmentsAtDistanceS L s d src = (s', segmentsAtDistance s.segments len (s.segments.length + 1) d src) ∧
      s'.segments = s.segments ∧ Coh len s' := by
  obtain ⟨s', h1, hp⟩ := withGraph_coh wf hL hc
  unfold getSegmentsAtDistanceS bindS segmentsAtDistance segmentsAtDistanceG
  rw [h1]
  simp only [nx_ssd_cutoff_eq wf len, hp.segs]
  refine ⟨s', ?_, hp.segs, hp.coh⟩
  cases hall : allDistancesG (getGraph s.segments len) (s.segments.length + 1) src with
  | none => rfl
  | some l =>
    simp only [Option.map_some]
    congr 1
    -- the loop
    unfold allDistancesG at hall
    split at hall
    · simp only [Option.some.injEq] at hall
      have hkeys : (l.map (·.1)).Nodup := by
        rw [← hall]; exact keys_filterMap_nodup _ (nodup_nodes _ _) _
      have hmem : ∀ e ∈ l, e.1 ∈ ids s.segments := by
        intro e he
        rw [← hall] at he
        simp only [List.mem_filterMap] at he
        obtain ⟨v, hv, hfv⟩ := he
        cases hdv : distUp (getGraph s.segments len).edges src (s.segments.length + 1) v with
        | none => rw [hdv] at hfv; cases hfv
        | some x =>
          rw [hdv] at hfv
          simp only [Option.map_some, Option.some.injEq] at hfv
          rw [← hfv]; exact (mem_nodes wf len v).1 hv
      have hsub : ∀ (p : Nat × Rat → Bool), ((l.filter p).map (·.1)).Nodup := by
        intro p
        exact List.Nodup.sublist (List.Sublist.map _ List.filter_sublist) hkeys
      rw [atDistLoop hL d _ [] (fun e he => hmem e (List.mem_filter.1 he).1) (hsub _) (fun _ _ a ha => by cases ha)]
      simp
    · cases hall

theorem getExtremitiesS_coh {s : CellS} (wf : WfForest s.segments r) (hL : Lok L s.segments len) (hc : Coh len s) :
    ∃ s', getExtremitiesS L s = (s', extremities s.segments len (s.segments.length + 1)) ∧
      s'.segments = s.segments ∧ Coh len s' := by
  obtain ⟨s1, h1, hp⟩ := withGraph_coh wf hL hc
  have wf1 : WfForest s1.segments r := hp.segs ▸ wf
  have hL1 : Lok L s1.segments len := hp.segs ▸ hL
  obtain ⟨s2, h2, hseg2, hc2, hsame⟩ := getMorphologyRootS_coh wf1 hL1 hp.coh
  have hs2 : s2 = s1 := hsame (by rw [hp.graph]; rfl)
  subst hs2
  unfold getExtremitiesS bindS extremities extremitiesG
  rw [h1]
  simp only [h2, hp.segs]
  unfold morphologyRoot
  cases hroot : morphologyRootG s.segments (getGraph s.segments len) with
  | none => exact ⟨s2, rfl, hp.segs, hp.coh⟩
  | some root =>
    simp only
    rw [tipNodesS_eq]
    have hnd : (tipNodes (getGraph s.segments len)).Nodup := by
      unfold tipNodes
      exact List.Nodup.sublist List.filter_sublist (nodup_nodes _ _)
    rw [tipLoop (L := L) (getGraph s.segments len) s2 hp.graph root (s.segments.length + 1)
      (fun t => nx_dpl_eq wf len root t) _ [] hnd (fun _ _ a ha => by cases ha)]
    cases mapOpt (fun t => (distanceG (getGraph s.segments len) (s.segments.length + 1) root t).map (fun x => (t, x)))
      (tipNodes (getGraph s.segments len)) with
    | none => exact ⟨s2, rfl, hp.segs, hp.coh⟩
    | some res => exact ⟨s2, by simp, hp.segs, hp.coh⟩

/-- **every call on a coherent object returns what it returns on a fresh cell, and leaves a coherent object with the
    same segments** -/
theorem runCall_coh {s : CellS} (wf : WfForest s.segments r) (hL : Lok L s.segments len) (hc : Coh len s) (c : Call) :
    ∃ s', runCall L s c = (s', freshVal s.segments len c) ∧ s'.segments = s.segments ∧ Coh len s' := by
  cases c with
  | adjacency =>
    refine ⟨{ s with adjacency_list := some (adjacencyList s.segments) }, ?_, rfl, ⟨Or.inr rfl, hc.graph⟩⟩
    simp [runCall, mapVal, getAdjS_eq, freshVal]
  | graph =>
    obtain ⟨s', h, hp⟩ := getGraphS_coh wf hL hc
    exact ⟨s', by simp [runCall, mapVal, h, freshVal], hp.segs, hp.coh⟩
  | distance d src =>
    obtain ⟨s', h, h2, h3⟩ := getDistanceS_coh wf hL hc d src
    exact ⟨s', by simp [runCall, mapVal, h, freshVal], h2, h3⟩
  | allDistances src =>
    obtain ⟨s', h, h2, h3⟩ := getAllDistancesS_coh wf hL hc src
    exact ⟨s', by simp [runCall, mapVal, h, freshVal], h2, h3⟩
  | atDistance d src =>
    obtain ⟨s', h, h2, h3⟩ := getSegmentsAtDistanceS_coh wf hL hc d src
    exact ⟨s', by simp [runCall, mapVal, h, freshVal], h2, h3⟩
  | branching =>
    obtain ⟨s', h, h2, h3⟩ := getBranchingPointsS_coh wf hL hc
    exact ⟨s', by simp [runCall, mapVal, h, freshVal], h2, h3⟩
  | root =>
    obtain ⟨s', h, h2, h3, _⟩ := getMorphologyRootS_coh wf hL hc
    exact ⟨s', by simp [runCall, mapVal, h, freshVal], h2, h3⟩
  | tips =>
    obtain ⟨s', h, h2, h3⟩ := getExtremitiesS_coh wf hL hc
    exact ⟨s', by simp [runCall, mapVal, h, freshVal], h2, h3⟩

end

end NmlVerif.Morph
