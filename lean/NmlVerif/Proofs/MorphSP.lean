import NmlVerif.Model.MorphBase
import NmlVerif.Proofs.Morph
/-!
# C13 — the executable shortest path (`spDist`) is the minimum over walks; on a forest it is the unique chain

Part 1 (any edge list, any weights): `spDist es src k v` is the least total weight of a walk from `src` to `v` with at
most `k` edges (`spDist_sound`, `spDist_le_walk`).
Part 2 (the graph of a well-formed forest): every node has at most one incoming edge and the ranks decrease upwards, so
`spDist` coincides with `distUp`, the first-pass model "walk the chain of incoming edges up to the source"
(`spDist_eq_distUp`), for every number of rounds above the rank.
-/
namespace NmlVerif.Morph

/-- `Walk es a b n x`: a walk from `a` to `b` along `n` edges of `es` with total weight `x` -/
inductive Walk (es : List Edge) (a : Nat) : Nat → Nat → Rat → Prop
  | nil : Walk es a a 0 0
  | snoc {b n : Nat} {x : Rat} {e : Edge} : Walk es a b n x → e ∈ es → e.src = b → Walk es a e.dst (n + 1) (x + e.w)

theorem optMin_some {a b : Option Rat} {x : Rat} (h : optMin a b = some x) : a = some x ∨ b = some x := by
  cases a with
  | none => exact Or.inr h
  | some a =>
    cases b with
    | none => exact Or.inl h
    | some b =>
      simp only [optMin, Option.some.injEq] at h
      split at h
      · exact Or.inr (by rw [h])
      · exact Or.inl (by rw [h])

theorem optMin_le_left (a : Rat) (b : Option Rat) : ∃ z, optMin (some a) b = some z ∧ z ≤ a := by
  cases b with
  | none => exact ⟨a, rfl, Rat.le_refl⟩
  | some b =>
    simp only [optMin]
    split
    · exact ⟨b, rfl, by grind⟩
    · exact ⟨a, rfl, Rat.le_refl⟩

theorem optMin_le_right (a : Option Rat) (b : Rat) : ∃ z, optMin a (some b) = some z ∧ z ≤ b := by
  cases a with
  | none => exact ⟨b, rfl, Rat.le_refl⟩
  | some a =>
    simp only [optMin]
    split
    · exact ⟨b, rfl, Rat.le_refl⟩
    · exact ⟨a, rfl, by grind⟩

theorem foldl_spRelax_some (prev : Nat → Option Rat) (l : List Edge) : ∀ (acc : Option Rat) (x : Rat),
    l.foldl (spRelax prev) acc = some x → acc = some x ∨ ∃ e ∈ l, ∃ y, prev e.src = some y ∧ x = y + e.w := by
  induction l with
  | nil => intro acc x h; exact Or.inl h
  | cons e t ih =>
    intro acc x h
    rw [List.foldl_cons] at h
    rcases ih _ _ h with h1 | ⟨e', he', y, hy, hx⟩
    · unfold spRelax at h1
      rcases optMin_some h1 with h2 | h2
      · exact Or.inl h2
      · refine Or.inr ⟨e, List.mem_cons_self, ?_⟩
        unfold spCand at h2
        cases hp : prev e.src with
        | none => rw [hp] at h2; cases h2
        | some y => rw [hp] at h2; simp only [Option.some.injEq] at h2; exact ⟨y, rfl, h2.symm⟩
    · exact Or.inr ⟨e', List.mem_cons_of_mem _ he', y, hy, hx⟩

theorem foldl_spRelax_le_acc (prev : Nat → Option Rat) (l : List Edge) : ∀ (a : Rat),
    ∃ z, l.foldl (spRelax prev) (some a) = some z ∧ z ≤ a := by
  induction l with
  | nil => intro a; exact ⟨a, rfl, Rat.le_refl⟩
  | cons e t ih =>
    intro a
    rw [List.foldl_cons]
    obtain ⟨a', h1, h2⟩ := optMin_le_left a (spCand prev e)
    unfold spRelax
    rw [h1]
    obtain ⟨z, h3, h4⟩ := ih a'
    exact ⟨z, h3, by grind⟩

theorem foldl_spRelax_le_cand (prev : Nat → Option Rat) (l : List Edge) : ∀ (acc : Option Rat) (e : Edge) (y : Rat),
    e ∈ l → prev e.src = some y → ∃ z, l.foldl (spRelax prev) acc = some z ∧ z ≤ y + e.w := by
  induction l with
  | nil => intro acc e y h; cases h
  | cons h t ih =>
    intro acc e y he hy
    rw [List.foldl_cons]
    rcases List.mem_cons.1 he with rfl | he'
    · unfold spRelax spCand
      rw [hy]
      obtain ⟨a', h1, h2⟩ := optMin_le_right acc (y + e.w)
      rw [h1]
      obtain ⟨z, h3, h4⟩ := foldl_spRelax_le_acc prev t a'
      exact ⟨z, h3, by grind⟩
    · exact ih _ e y he' hy

/-- **soundness**: whatever `spDist` returns is the weight of a walk with at most `k` edges -/
theorem spDist_sound (es : List Edge) (src : Nat) : ∀ (k v : Nat) (x : Rat),
    spDist es src k v = some x → ∃ n, n ≤ k ∧ Walk es src v n x := by
  intro k
  induction k with
  | zero =>
    intro v x h
    simp only [spDist, spInit] at h
    split at h
    · next hv => cases h; subst hv; exact ⟨0, Nat.le_refl _, Walk.nil⟩
    · cases h
  | succ k ih =>
    intro v x h
    simp only [spDist] at h
    rcases foldl_spRelax_some _ _ _ _ h with h1 | ⟨e, he, y, hy, hx⟩
    · simp only [spInit] at h1
      split at h1
      · next hv => cases h1; subst hv; exact ⟨0, Nat.zero_le _, Walk.nil⟩
      · cases h1
    · obtain ⟨n, hn, hw⟩ := ih _ _ hy
      simp only [List.mem_filter, beq_iff_eq] at he
      subst hx
      exact ⟨n + 1, Nat.succ_le_succ hn, he.2 ▸ Walk.snoc hw he.1 rfl⟩

/-- **minimality**: `spDist` is defined and not larger than the weight of any walk with at most `k` edges -/
theorem spDist_le_walk (es : List Edge) (src : Nat) {v n : Nat} {x : Rat} (hw : Walk es src v n x) :
    ∀ k, n ≤ k → ∃ y, spDist es src k v = some y ∧ y ≤ x := by
  induction hw with
  | nil =>
    intro k _
    cases k with
    | zero => exact ⟨0, by simp [spDist, spInit], Rat.le_refl⟩
    | succ k =>
      simp only [spDist, spInit, if_true]
      exact foldl_spRelax_le_acc _ _ 0
  | @snoc b n x e _ he hs ih =>
    intro k hk
    cases k with
    | zero => omega
    | succ k =>
      obtain ⟨y, hy, hyx⟩ := ih k (by omega)
      simp only [spDist]
      have hmem : e ∈ es.filter (fun e' => e'.dst == e.dst) := by simp [he]
      obtain ⟨z, hz, hzy⟩ := foldl_spRelax_le_cand (spDist es src k) _ (spInit src e.dst) e y hmem (hs ▸ hy)
      exact ⟨z, hz, by grind⟩

/-! ### on the graph of a well-formed forest -/

/-- relaxing through several copies of the same candidate is relaxing once -/
theorem foldl_spRelax_const (prev : Nat → Option Rat) (c : Option Rat) (l : List Edge)
    (hl : ∀ e ∈ l, spCand prev e = c) :
    ∀ acc, l ≠ [] → l.foldl (spRelax prev) acc = optMin acc c := by
  induction l with
  | nil => intro acc h; exact absurd rfl h
  | cons e t ih =>
    intro acc _
    rw [List.foldl_cons]
    have he : spRelax prev acc e = optMin acc c := by unfold spRelax; rw [hl e List.mem_cons_self]
    rw [he]
    by_cases ht : t = []
    · subst ht; rfl
    · rw [ih (fun e' he' => hl e' (List.mem_cons_of_mem _ he')) _ ht]
      cases acc with
      | none => cases c <;> simp [optMin]
      | some a =>
        cases c with
        | none => rfl
        | some b => simp only [optMin]; split <;> simp_all

theorem distUp_some_rank {m : Morph} {r : Nat → Nat} (wf : WfForest m r) (len : Nat → Rat) (src : Nat) :
    ∀ (k v : Nat) (x : Rat), v ∈ ids m → distUp (graphEdges m len) src k v = some x → r src ≤ r v := by
  intro k
  induction k with
  | zero =>
    intro v x _ h
    simp only [distUp] at h
    split at h
    · next hv => subst hv; exact Nat.le_refl _
    · cases h
  | succ k ih =>
    intro v x hv h
    unfold distUp at h
    split at h
    · next hvs => subst hvs; exact Nat.le_refl _
    · obtain ⟨s, hs⟩ := find_of_mem_ids hv
      have ⟨hsm, hsi⟩ := find_some hs
      cases hpar : s.parent with
      | none =>
        have hno := no_edge_to_root wf len hsm hpar
        cases hin : inEdge (graphEdges m len) v with
        | none => rw [hin] at h; cases h
        | some e =>
          unfold inEdge at hin
          have h1 := List.mem_of_find?_eq_some hin
          have h2 : e.dst = v := by simpa using List.find?_some hin
          exact absurd (h2.trans hsi.symm) (hno e h1)
      | some pf =>
        obtain ⟨p, f⟩ := pf
        obtain ⟨e, he, hsrc, _, _⟩ := inEdge_of_parent wf len hsm hpar
        rw [hsi] at he
        rw [he] at h
        simp only at h
        cases hd : distUp (graphEdges m len) src k e.src with
        | none => rw [hd] at h; cases h
        | some y =>
          have hpm := wf.parent_mem s hsm p f hpar
          have hrk := wf.rank s hsm p f hpar
          rw [hsi] at hrk
          have := ih e.src y (hsrc ▸ hpm) hd
          rw [hsrc] at this
          omega

/-- all incoming edges of a segment with a parent are the one edge from its parent -/
theorem inEdges_of_parent {m : Morph} {r : Nat → Nat} (wf : WfForest m r) (len : Nat → Rat) {s : Seg} (hs : s ∈ m)
    {p : Nat} {f : Rat} (hp : s.parent = some (p, f)) :
    (graphEdges m len).filter (fun e => e.dst == s.id) ≠ [] ∧
    ∀ e ∈ (graphEdges m len).filter (fun e => e.dst == s.id), e.src = p ∧ e.w = len p * f := by
  obtain ⟨e, he, hsrc, hdst, hw⟩ := inEdge_of_parent wf len hs hp
  constructor
  · intro hnil
    have : e ∈ (graphEdges m len).filter (fun e => e.dst == s.id) := by
      simp only [List.mem_filter, beq_iff_eq]
      exact ⟨List.mem_of_find?_eq_some he, hdst⟩
    rw [hnil] at this; cases this
  · intro e' he'
    simp only [List.mem_filter, beq_iff_eq] at he'
    obtain ⟨hm, hd⟩ := he'
    rw [mem_graphEdges] at hm
    obtain ⟨s', hs', hid, f', hp'⟩ := mem_childrenS.1 hm.1
    rw [hd] at hid
    have := seg_eq_of_id_eq wf.nodup hs' hs hid
    subst this
    rw [hp] at hp'; cases hp'
    exact ⟨rfl, by rw [hm.2, hd, fracOf_eq wf.nodup hs' hp]⟩

/-- **on a forest the shortest path is the unique chain of incoming edges**: for every node, whatever the numbers of
    rounds / the fuel, as long as both exceed the rank of the node -/
theorem spDist_eq_distUp {m : Morph} {r : Nat → Nat} (wf : WfForest m r) (len : Nat → Rat) (src : Nat) :
    ∀ (k k' v : Nat), (v ∈ ids m → r v < k ∧ r v < k') →
      spDist (graphEdges m len) src k v = distUp (graphEdges m len) src k' v := by
  intro k
  induction k with
  | zero =>
    intro k' v h
    by_cases hv : v ∈ ids m
    · have := (h hv).1; omega
    · -- not a segment: no incoming edge
      have hnone : inEdge (graphEdges m len) v = none := by
        unfold inEdge
        rw [List.find?_eq_none]
        intro e he hd
        exact hv ((beq_iff_eq.1 hd) ▸ (edge_endpoints wf len he).2)
      cases k' with
      | zero => simp [spDist, spInit, distUp]
      | succ k' =>
        unfold distUp
        simp only [spDist, spInit, hnone]
  | succ k ih =>
    intro k' v h
    by_cases hv : v ∈ ids m
    · obtain ⟨hk, hk'⟩ := h hv
      obtain ⟨s, hs⟩ := find_of_mem_ids hv
      have ⟨hsm, hsi⟩ := find_some hs
      cases k' with
      | zero => omega
      | succ k' =>
        simp only [spDist]
        unfold distUp
        cases hpar : s.parent with
        | none =>
          have hno := no_edge_to_root wf len hsm hpar
          have hfil : (graphEdges m len).filter (fun e => e.dst == v) = [] := by
            rw [List.filter_eq_nil_iff]
            intro e he hd
            exact hno e he ((beq_iff_eq.1 hd).trans hsi.symm)
          have hnone : inEdge (graphEdges m len) v = none := by
            unfold inEdge
            rw [List.find?_eq_none]
            intro e he hd
            exact hno e he ((beq_iff_eq.1 hd).trans hsi.symm)
          rw [hfil, hnone]
          simp only [List.foldl_nil, spInit]
        | some pf =>
          obtain ⟨p, f⟩ := pf
          obtain ⟨e, he, hsrc, _, hw⟩ := inEdge_of_parent wf len hsm hpar
          obtain ⟨hne, hall⟩ := inEdges_of_parent wf len hsm hpar
          rw [hsi] at he hne hall
          have hpm := wf.parent_mem s hsm p f hpar
          have hrk := wf.rank s hsm p f hpar
          rw [hsi] at hrk
          have hrec : spDist (graphEdges m len) src k p = distUp (graphEdges m len) src k' p :=
            ih k' p (fun _ => ⟨by omega, by omega⟩)
          have hconst : ∀ e' ∈ (graphEdges m len).filter (fun e => e.dst == v),
              spCand (spDist (graphEdges m len) src k) e' =
              (match distUp (graphEdges m len) src k' p with | none => none | some x => some (x + len p * f)) := by
            intro e' he'
            obtain ⟨h1, h2⟩ := hall e' he'
            unfold spCand
            rw [h1, h2, hrec]
            rfl
          rw [foldl_spRelax_const _ _ _ hconst _ hne, he]
          simp only [hsrc, hw]
          by_cases hvs : v = src
          · subst hvs
            simp only [spInit, if_true]
            -- the source is not above its own parent
            have : distUp (graphEdges m len) v k' p = none := by
              cases hd : distUp (graphEdges m len) v k' p with
              | none => rfl
              | some y => have := distUp_some_rank wf len v k' p y hpm hd; omega
            rw [this]; rfl
          · simp only [spInit, hvs, if_false]
            cases distUp (graphEdges m len) src k' p <;> rfl
    · have hnone : inEdge (graphEdges m len) v = none := by
        unfold inEdge
        rw [List.find?_eq_none]
        intro e he hd
        exact hv ((beq_iff_eq.1 hd) ▸ (edge_endpoints wf len he).2)
      have hfil : (graphEdges m len).filter (fun e => e.dst == v) = [] := by
        rw [List.filter_eq_nil_iff]
        intro e he hd
        exact hv ((beq_iff_eq.1 hd) ▸ (edge_endpoints wf len he).2)
      simp only [spDist, hfil, List.foldl_nil, spInit]
      cases k' with
      | zero => simp [distUp]
      | succ k' =>
        unfold distUp
        rw [hnone]

end NmlVerif.Morph
