import NmlVerif.Model.NetBuilder
/-!
Frame lemmas for the `NetworkBuilder` model (C07): with per-instance tables (`Cfg.allPrivate`) a handler call of one
builder is a function of that builder's own state and leaves the rest of the world alone (`step_private`); hence an
interleaved run of the two-builder world is, builder by builder, the solo run (`runWorld_private`).
-/
namespace NmlVerif.NetBuilder

@[simp] theorem get_set_same (w : World) (me : Bool) (s : BState) : (w.set me s).get me = s := by
  cases me <;> simp [World.get, World.set]
@[simp] theorem set_set (w : World) (me : Bool) (s s' : BState) : (w.set me s).set me s' = w.set me s' := by
  cases me <;> simp [World.set]
@[simp] theorem get_upd (w : World) (me : Bool) (F : BState → BState) : (w.upd me F).get me = F (w.get me) := by
  simp [World.upd]
@[simp] theorem upd_upd (w : World) (me : Bool) (F G : BState → BState) :
    (w.upd me F).upd me G = w.upd me (fun s => G (F s)) := by
  simp [World.upd]

def emb (s : BState) : World := { a := s }
@[simp] theorem emb_get (s : BState) : (emb s).get true = s := rfl
@[simp] theorem emb_upd_a (s : BState) (F : BState → BState) : ((emb s).upd true F).a = F s := rfl
@[simp] theorem emb_a (s : BState) : (emb s).a = s := rfl

theorem fail_eq (w : World) (me : Bool) (e : String) : fail w me e = w.upd me (fun s => { s with err := some e }) := rfl
def compF (c : Option String) (s : BState) : BState :=
  match c with
  | some t => if s.comps.contains t then s else { s with comps := s.comps ++ [t] }
  | none => s
theorem addComp_eq (w : World) (me : Bool) (c : Option String) : addComp w me c = w.upd me (compF c) := by
  cases c <;> simp [addComp, compF, World.upd]
  cases me <;> simp [World.set, World.get]
theorem updTab_false (me : Bool) (w : World) (f : Tables → Tables) :
    updTab false me w f = w.upd me (fun s => { s with priv := f s.priv }) := by simp [updTab]
theorem lookRef_false (me : Bool) (w : World) (sel : Tables → List (String × Ref)) (k : String) :
    lookRef false me w sel k = (alookup (sel (w.get me).priv) k).map (fun r => ⟨me, r.idx⟩) := by simp [lookRef]
theorem tab_false {α : Type} (me : Bool) (w : World) (sel : Tables → List (String × α)) :
    tab false me w sel = sel (w.get me).priv := by simp [tab]
theorem getPop_me (w : World) (me : Bool) (i : Nat) : getPop w ⟨me, i⟩ = (w.get me).pops[i]? := rfl
theorem getProj_me (w : World) (me : Bool) (i : Nat) : getProj w ⟨me, i⟩ = (w.get me).projs[i]? := rfl
theorem getIList_me (w : World) (me : Bool) (i : Nat) : getIList w ⟨me, i⟩ = (w.get me).ilists[i]? := rfl
theorem modPop_me (w : World) (me : Bool) (i : Nat) (f : Pop → Pop) :
    modPop w ⟨me, i⟩ f = w.upd me (fun s => { s with pops := modNth s.pops i f }) := rfl
theorem modProj_me (w : World) (me : Bool) (i : Nat) (f : Proj → Proj) :
    modProj w ⟨me, i⟩ f = w.upd me (fun s => { s with projs := modNth s.projs i f }) := rfl
theorem modIList_me (w : World) (me : Bool) (i : Nat) (f : IList → IList) :
    modIList w ⟨me, i⟩ f = w.upd me (fun s => { s with ilists := modNth s.ilists i f }) := rfl
theorem mkRef_false (me : Bool) (i : Nat) : mkRef false me i = ⟨true, i⟩ := rfl
theorem upd_eq_set (w : World) (me : Bool) (F : BState → BState) : w.upd me F = w.set me (F (w.get me)) := rfl
theorem set_get (w : World) (me : Bool) : w.set me (w.get me) = w := by
  cases me <;> simp [World.set, World.get]


macro "prim" : tactic => `(tactic| simp only [Cfg.allPrivate, fail_eq, addComp_eq, updTab_false, lookRef_false, tab_false, mkRef_false, emb_get, get_upd, upd_upd])
macro "fin" : tactic => `(tactic| simp_all [modPop_me, modProj_me, modIList_me, getPop_me, getProj_me, getIList_me, upd_eq_set, set_get, emb, World.get, World.set])

theorem hLocation_private (me : Bool) (w : World) (id pop : String) (xyz : Option (String × String × String)) :
    hLocation Cfg.allPrivate me w id pop xyz = w.set me (hLocation Cfg.allPrivate true (emb (w.get me)) id pop xyz).a := by
  unfold hLocation
  prim
  rcases xyz with _ | ⟨x, y, z⟩
  · simp [set_get]
  · cases h : alookup (w.get me).priv.pops pop <;> cases me <;> fin

theorem hPopulation_private (me : Bool) (w : World) (id comp : String) (size : Int) (compObj : Option String)
    (props : List (String × String)) (notes : Option String) :
    hPopulation Cfg.allPrivate me w id comp size compObj props notes =
      w.set me (hPopulation Cfg.allPrivate true (emb (w.get me)) id comp size compObj props notes).a := by
  unfold hPopulation
  prim
  cases h : (w.get me).nets.length <;> cases me <;> fin

theorem hInputList_private (me : Bool) (w : World) (id pop comp : String) (compObj : Option String) :
    hInputList Cfg.allPrivate me w id pop comp compObj =
      w.set me (hInputList Cfg.allPrivate true (emb (w.get me)) id pop comp compObj).a := by
  unfold hInputList
  prim
  cases h : (w.get me).nets.length <;> cases me <;> fin

theorem finaliseCore_private (me : Bool) (w : World) (id pre post : String) (syn : Option String) (t : String) :
    finaliseCore me w id pre post syn t = w.set me (finaliseCore true (emb (w.get me)) id pre post syn t).a := by
  unfold finaliseCore
  prim
  cases h : (w.get me).nets.length with
  | zero => cases me <;> fin
  | succ n =>
    simp only
    by_cases ht : (t == "projection" || t == "electricalProjection") = true
    · by_cases hany : ((w.get me).projs.any fun p => p.net == n && p.kind == t && p.id == id) = true
      · simp only [ht, hany, ↓reduceIte]; cases me <;> fin
      · simp only [ht, hany, ↓reduceIte]; cases me <;> fin
    · simp only [ht]; cases me <;> fin

theorem hFinaliseProjection_private (me : Bool) (w : World) (id pre post : String) (syn typ : Option String) :
    hFinaliseProjection Cfg.allPrivate me w id pre post syn typ =
      w.set me (hFinaliseProjection Cfg.allPrivate true (emb (w.get me)) id pre post syn typ).a := by
  unfold hFinaliseProjection
  prim
  cases typ with
  | some t => exact finaliseCore_private me w id pre post syn t
  | none =>
    simp only
    cases h2 : alookup (w.get me).priv.projType id with
    | none => cases me <;> fin
    | some t => exact finaliseCore_private me w id pre post syn t

theorem hSingleInput_private (me : Bool) (w : World) (list id : String) (cell : Int) (seg : String) (sz : Bool)
    (fract : String) (fh : Bool) (weight : String) (w1 : Bool) :
    hSingleInput Cfg.allPrivate me w list id cell seg sz fract fh weight w1 =
      w.set me (hSingleInput Cfg.allPrivate true (emb (w.get me)) list id cell seg sz fract fh weight w1).a := by
  unfold hSingleInput
  prim
  cases h1 : alookup (w.get me).priv.ilists list with
  | none => cases me <;> fin
  | some rl =>
    simp only [Option.map_some, getIList_me, emb_get]
    cases h2 : (w.get me).ilists[rl.idx]? with
    | none => cases me <;> fin
    | some il =>
      simp only
      cases h3 : alookup (w.get me).priv.pops il.populations with
      | none => cases me <;> fin
      | some rp =>
        simp only [Option.map_some, getPop_me, emb_get]
        cases h4 : (w.get me).pops[rp.idx]? with
        | none => cases me <;> fin
        | some p => cases me <;> fin

theorem hProjection_private (me : Bool) (w : World) (id pre post : String) (syn : Option String) (hasWD : Bool)
    (typ : String) (synObj preSynObj : Option (String × String)) :
    hProjection Cfg.allPrivate me w id pre post syn hasWD typ synObj preSynObj =
      w.set me (hProjection Cfg.allPrivate true (emb (w.get me)) id pre post syn hasWD typ synObj preSynObj).a := by
  unfold hProjection
  prim
  cases h : (w.get me).nets.length with
  | zero => cases me <;> fin
  | succ n =>
    simp only
    by_cases hk : (typ == "projection" || typ == "electricalProjection" || typ == "continuousProjection") = true
    · simp only [hk]
      by_cases he : (typ == "electricalProjection") = true
      · simp only [he]; (try prim); cases me <;> fin
      · by_cases hc : (typ == "continuousProjection") = true
        · simp only [he, hc]
          cases preSynObj <;> ((try simp only []); (try prim); cases me <;> fin)
        · simp only [he, hc]; (try prim); cases me <;> fin
    · simp only [hk]; (try prim); cases me <;> fin

macro "sm" : tactic => `(tactic| simp only [Option.map_some, Option.map_none, getPop_me, getProj_me, getIList_me, emb_get])

theorem hConnection_private (me : Bool) (w : World) (proj connId pre post : String) (preCell postCell : Int)
    (preSeg postSeg preFract postFract delay : String) (dz : Bool) (weight : String) (w1 : Bool) :
    hConnection Cfg.allPrivate me w proj connId pre post preCell postCell preSeg postSeg preFract postFract delay dz weight w1 =
      w.set me (hConnection Cfg.allPrivate true (emb (w.get me)) proj connId pre post preCell postCell preSeg postSeg
        preFract postFract delay dz weight w1).a := by
  unfold hConnection
  prim
  cases h1 : alookup (w.get me).priv.pops pre with
  | none => cases me <;> fin
  | some rp =>
  cases h2 : alookup (w.get me).priv.pops post with
  | none => cases me <;> fin
  | some rq =>
  sm
  cases h3 : (w.get me).pops[rp.idx]? with
  | none => cases me <;> fin
  | some pp =>
  cases h4 : (w.get me).pops[rq.idx]? with
  | none => cases me <;> fin
  | some pq =>
  cases h5 : alookup (w.get me).priv.projs proj with
  | none => cases me <;> fin
  | some rj =>
  sm
  cases h6 : (w.get me).projs[rj.idx]? with
  | none => cases me <;> fin
  | some pj =>
  simp only
  by_cases he : (pj.kind == "electricalProjection") = true
  · simp only [he, ↓reduceIte]
    cases hinst : (!pp.instances.isEmpty || !pq.instances.isEmpty) <;> cases w1 <;>
      cases h7 : alookup (w.get me).priv.projSyn proj <;> cases me <;> fin
  · by_cases hc : (pj.kind == "continuousProjection") = true
    · simp only [he, hc, ↓reduceIte]
      cases h7 : alookup (w.get me).priv.projSynPre proj with
      | none => cases me <;> fin
      | some preC =>
        cases h8 : alookup (w.get me).priv.projSyn proj with
        | none => cases me <;> fin
        | some postC =>
          simp only
          cases hinst : (!pp.instances.isEmpty || !pq.instances.isEmpty) <;> cases w1 <;> cases me <;> fin
    · simp only [he, hc, ↓reduceIte]
      cases h7 : alookup (w.get me).priv.wd proj with
      | none => cases me <;> fin
      | some wd => cases me <;> fin

/-- with per-instance tables a handler call of builder `me` is a function of `me`'s own state and changes nothing
    else in the world -/
theorem step_private (me : Bool) (w : World) (c : HCall) :
    step Cfg.allPrivate me w c = w.set me (bstep (w.get me) c) := by
  show _ = w.set me (step Cfg.allPrivate true (emb (w.get me)) c).a
  unfold step
  simp only [emb_get]
  by_cases herr : ((w.get me).err.isSome && !c.isDocStart) = true
  · simp only [herr, ↓reduceIte, emb_a, set_get]
  · simp only [herr]
    cases c with
    | docStart id notes => cases me <;> fin
    | network id notes temp =>
      prim
      cases h : (w.get me).doc <;> cases me <;> fin
    | population id comp size compObj props notes => exact hPopulation_private ..
    | location id pop xyz => exact hLocation_private ..
    | projection id pre post syn hasWD typ synObj preSynObj => exact hProjection_private ..
    | finaliseProjection id pre post syn typ => exact hFinaliseProjection_private ..
    | connection => exact hConnection_private ..
    | inputList id pop comp compObj => exact hInputList_private ..
    | singleInput => exact hSingleInput_private ..
    | finaliseInputSource id => simp [set_get]

theorem get_set_ne (w : World) (me other : Bool) (s : BState) (h : other ≠ me) : (w.set me s).get other = w.get other := by
  cases me <;> cases other <;> simp_all [World.get, World.set]

theorem runWorld_private : ∀ (es : List (Bool × HCall)) (w : World) (who : Bool),
    (runWorld Cfg.allPrivate es w).get who = brun (callsOf who es) (w.get who)
  | [], _, _ => rfl
  | (b, c) :: es, w, who => by
    simp only [runWorld, callsOf]
    rw [runWorld_private es _ who, step_private]
    by_cases h : b = who
    · subst h; simp [brun]
    · simp only [h, ↓reduceIte]
      rw [get_set_ne _ _ _ _ (fun e => h e.symm)]
end NmlVerif.NetBuilder
