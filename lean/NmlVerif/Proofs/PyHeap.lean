import NmlVerif.Model.PyHeap
/-!
Lemmas about the object-graph heap and the memoised `deepcopy` of `Model/PyHeap.lean` (property C17, second pass).
Core Lean only.
-/
namespace NmlVerif.PyHeap
open List

/-! ### memo lookups -/

theorem Memo.get?_append (a b : Memo) (x : Nat) :
    Memo.get? (a ++ b) x = match Memo.get? a x with | some y => some y | none => Memo.get? b x := by
  induction a with
  | nil => simp [Memo.get?]
  | cons p rest ih =>
    obtain ⟨k, v⟩ := p
    simp only [List.cons_append, Memo.get?]
    by_cases hk : k = x
    · simp [hk]
    · simp [hk, ih]

theorem pairs_append (base : Nat) (a b : List Nat) :
    pairs base (a ++ b) = pairs (base + b.length) a ++ pairs base b := by
  induction a with
  | nil => simp [pairs]
  | cons x xs ih =>
    simp only [List.cons_append, pairs, ih, List.length_append]
    congr 2
    omega

theorem get?_pairs_none {base : Nat} {order : List Nat} {x : Nat}
    (h : Memo.get? (pairs base order) x = none) : x ∉ order := by
  induction order with
  | nil => simp
  | cons a xs ih =>
    simp only [pairs, Memo.get?] at h
    by_cases ha : a = x
    · simp [ha] at h
    · simp only [ha, ↓reduceIte] at h
      simp only [mem_cons, not_or]
      exact ⟨fun hx => ha hx.symm, ih h⟩

/-- where a copied source is in the memo, and where its copy is in the allocation order -/
theorem pairs_get_spec {base : Nat} {order : List Nat} (hnd : order.Nodup) {x : Nat} (hx : x ∈ order) :
    ∃ k, k < order.length ∧ Memo.get? (pairs base order) x = some (base + k) ∧ order.reverse[k]? = some x := by
  induction order with
  | nil => simp at hx
  | cons a xs ih =>
    have hnd' := (List.nodup_cons.mp hnd)
    by_cases ha : a = x
    · refine ⟨xs.length, by simp, by simp [pairs, Memo.get?, ha], ?_⟩
      simp [ha]
    · have hx' : x ∈ xs := by
        simp only [mem_cons] at hx
        rcases hx with h | h
        · exact absurd h.symm ha
        · exact h
      obtain ⟨k, hk, hg, hr⟩ := ih hnd'.2 hx'
      refine ⟨k, by simp; omega, by simp [pairs, Memo.get?, ha, hg], ?_⟩
      rw [List.reverse_cons, List.getElem?_append_left (by simp; exact hk)]
      exact hr

/-- every new identity is the copy of some source -/
theorem pairs_surj {base : Nat} {order : List Nat} (hnd : order.Nodup) {k : Nat} (hk : k < order.length) :
    ∃ z ∈ order, Memo.get? (pairs base order) z = some (base + k) := by
  induction order with
  | nil => simp at hk
  | cons a xs ih =>
    have hnd' := (List.nodup_cons.mp hnd)
    by_cases hkx : k = xs.length
    · exact ⟨a, by simp, by simp [pairs, Memo.get?, hkx]⟩
    · have hk' : k < xs.length := by simp at hk; omega
      obtain ⟨z, hz, hg⟩ := ih hnd'.2 hk'
      have : a ≠ z := fun e => hnd'.1 (e ▸ hz)
      exact ⟨z, by simp [hz], by simp [pairs, Memo.get?, this, hg]⟩

/-- a value found in the memo of the copied objects is one of the new identities -/
theorem pairs_get_range {base : Nat} {order : List Nat} {x y : Nat}
    (h : Memo.get? (pairs base order) x = some y) : base ≤ y ∧ y < base + order.length ∧ x ∈ order := by
  induction order with
  | nil => simp [pairs, Memo.get?] at h
  | cons a xs ih =>
    simp only [pairs, Memo.get?] at h
    by_cases ha : a = x
    · simp only [ha, ↓reduceIte, Option.some.injEq] at h
      subst h
      simp [ha]
    · simp only [ha, ↓reduceIte] at h
      have := ih h
      simp only [length_cons, mem_cons]
      exact ⟨this.1, by omega, Or.inr this.2.2⟩

theorem memoOf_get_cases {base : Nat} {memo0 : Memo} {order : List Nat} {x y : Nat}
    (h : Memo.get? (memoOf base memo0 order) x = some y) :
    (base ≤ y ∧ y < base + order.length ∧ x ∈ order) ∨ (x ∉ order ∧ Memo.get? memo0 x = some y) := by
  unfold memoOf at h
  rw [Memo.get?_append] at h
  cases hp : Memo.get? (pairs base order) x with
  | some y' =>
    simp only [hp, Option.some.injEq] at h
    subst h
    exact Or.inl (pairs_get_range hp)
  | none =>
    simp only [hp] at h
    exact Or.inr ⟨get?_pairs_none hp, h⟩

theorem memoOf_get_of_mem {base : Nat} {memo0 : Memo} {order : List Nat} (hnd : order.Nodup) {x : Nat}
    (hx : x ∈ order) :
    ∃ k, k < order.length ∧ Memo.get? (memoOf base memo0 order) x = some (base + k) ∧ order.reverse[k]? = some x := by
  obtain ⟨k, hk, hg, hr⟩ := pairs_get_spec (base := base) hnd hx
  exact ⟨k, hk, by unfold memoOf; rw [Memo.get?_append, hg], hr⟩

/-- entries are only ever added: a key that is in the memo stays in it -/
theorem memoOf_get_mono {base : Nat} {memo0 : Memo} {order : List Nat} (added : List Nat) {r : Nat}
    (h : ∃ y, Memo.get? (memoOf base memo0 order) r = some y) :
    ∃ y, Memo.get? (memoOf base memo0 (added ++ order)) r = some y := by
  obtain ⟨y, hy⟩ := h
  unfold memoOf at hy ⊢
  rw [pairs_append, List.append_assoc, Memo.get?_append]
  cases hp : Memo.get? (pairs (base + order.length) added) r with
  | some y' => exact ⟨y', rfl⟩
  | none => exact ⟨y, hy⟩

/-! ### the traversal -/

/-- what is known about the list of copied sources at every moment -/
structure OrderInv (src : Heap) (memo0 : Memo) (order : List Nat) : Prop where
  nodup : order.Nodup
  fresh : ∀ x ∈ order, Memo.get? memo0 x = none
  inHeap : ∀ x ∈ order, ∃ nd, src[x]? = some nd

/-- what a (successful) traversal step guarantees -/
structure StepSpec (src : Heap) (base : Nat) (memo0 : Memo) (order order' : List Nat) (targets : List Nat) : Prop where
  grows : ∃ added, order' = added ++ order ∧
    ∀ z ∈ added, ∀ nd, src[z]? = some nd → ∀ r ∈ nd.refs, ∃ y, Memo.get? (memoOf base memo0 order') r = some y
  inv : OrderInv src memo0 order'
  reached : ∀ r ∈ targets, ∃ y, Memo.get? (memoOf base memo0 order') r = some y

theorem visitL_spec {src : Heap} {base : Nat} {memo0 : Memo} (rec : List Nat → Nat → Option (List Nat))
    (hrec : ∀ order x order', rec order x = some order' → OrderInv src memo0 order →
      StepSpec src base memo0 order order' [x]) :
    ∀ rs order order', visitL rec rs order = some order' → OrderInv src memo0 order →
      StepSpec src base memo0 order order' rs := by
  intro rs
  induction rs with
  | nil =>
    intro order order' h hinv
    simp only [visitL, Option.some.injEq] at h
    subst h
    exact ⟨⟨[], rfl, by simp⟩, hinv, by simp⟩
  | cons r rs ih =>
    intro order order' h hinv
    simp only [visitL] at h
    cases h1 : rec order r with
    | none => simp [h1] at h
    | some o1 =>
      simp only [h1] at h
      have s1 := hrec order r o1 h1 hinv
      have s2 := ih o1 order' h s1.inv
      obtain ⟨a1, e1, c1⟩ := s1.grows
      obtain ⟨a2, e2, c2⟩ := s2.grows
      refine ⟨⟨a2 ++ a1, by rw [e2, e1, List.append_assoc], ?_⟩, s2.inv, ?_⟩
      · intro z hz nd hnd r' hr'
        simp only [mem_append] at hz
        rcases hz with hz | hz
        · exact c2 z hz nd hnd r' hr'
        · have := c1 z hz nd hnd r' hr'
          rw [e2]
          exact memoOf_get_mono a2 this
      · intro r' hr'
        simp only [mem_cons] at hr'
        rcases hr' with rfl | hr'
        · have := s1.reached r' (by simp)
          rw [e2]
          exact memoOf_get_mono a2 this
        · exact s2.reached r' hr'

theorem visit_spec (src : Heap) (base : Nat) (memo0 : Memo) :
    ∀ f order x order', visit src base memo0 f order x = some order' → OrderInv src memo0 order →
      StepSpec src base memo0 order order' [x] := by
  intro f
  induction f with
  | zero => intro order x order' h; simp [visit] at h
  | succ f ih =>
    intro order x order' h hinv
    simp only [visit] at h
    cases hg : Memo.get? (memoOf base memo0 order) x with
    | some y =>
      simp only [hg, Option.some.injEq] at h
      subst h
      exact ⟨⟨[], rfl, by simp⟩, hinv, by intro r hr; simp only [mem_singleton] at hr; subst hr; exact ⟨y, hg⟩⟩
    | none =>
      simp only [hg] at h
      cases hs : src[x]? with
      | none => simp [hs] at h
      | some nd =>
        simp only [hs] at h
        have hg' := hg
        unfold memoOf at hg'
        rw [Memo.get?_append] at hg'
        have hp : Memo.get? (pairs base order) x = none := by
          cases hp : Memo.get? (pairs base order) x with
          | none => rfl
          | some y => simp [hp] at hg'
        have h0 : Memo.get? memo0 x = none := by simpa [hp] using hg'
        have hinv' : OrderInv src memo0 (x :: order) :=
          ⟨List.nodup_cons.mpr ⟨get?_pairs_none hp, hinv.nodup⟩,
            by intro z hz; simp only [mem_cons] at hz; rcases hz with rfl | hz; exact h0; exact hinv.fresh z hz,
            by intro z hz; simp only [mem_cons] at hz; rcases hz with rfl | hz; exact ⟨nd, hs⟩; exact hinv.inHeap z hz⟩
        have s := visitL_spec (visit src base memo0 f) (ih) nd.refs (x :: order) order' h hinv'
        obtain ⟨a, e, c⟩ := s.grows
        refine ⟨⟨a ++ [x], by rw [e]; simp, ?_⟩, s.inv, ?_⟩
        · intro z hz nd' hnd' r hr
          simp only [mem_append, mem_singleton] at hz
          rcases hz with hz | rfl
          · exact c z hz nd' hnd' r hr
          · rw [hs] at hnd'
            cases hnd'
            exact s.reached r hr
        · intro r hr
          simp only [mem_singleton] at hr
          subst hr
          have hx : r ∈ order' := by rw [e]; simp
          obtain ⟨k, _, hk, _⟩ := memoOf_get_of_mem (base := base) (memo0 := memo0) s.inv.nodup hx
          exact ⟨_, hk⟩

/-! ### `deepcopy` -/

/-- everything the theorems need to know about a successful `deepcopy(x, memo0)`: `order` = the objects that were
    copied (most recent first) -/
structure CopySpec (h : Heap) (memo0 : Memo) (x : Nat) (c : Copied) (order : List Nat) : Prop where
  heap_eq : c.heap = h ++ order.reverse.map (copyOf h c.memo)
  memo_eq : c.memo = memoOf h.length memo0 order
  inv : OrderInv h memo0 order
  closed : ∀ z ∈ order, ∀ nd, h[z]? = some nd → ∀ r ∈ nd.refs, ∃ y, Memo.get? c.memo r = some y
  root : Memo.get? c.memo x = some c.root

theorem deepcopy_spec {h : Heap} {memo0 : Memo} {x : Nat} {c : Copied} (hc : deepcopy h memo0 x = some c) :
    ∃ order, CopySpec h memo0 x c order := by
  unfold deepcopy at hc
  cases hv : visit h h.length memo0 (h.length + 1) [] x with
  | none => simp [hv] at hc
  | some order =>
    simp only [hv] at hc
    cases hg : Memo.get? (memoOf h.length memo0 order) x with
    | none => simp [hg] at hc
    | some y =>
      simp only [hg, Option.some.injEq] at hc
      subst hc
      have s := visit_spec h h.length memo0 (h.length + 1) [] x order hv ⟨by simp, by simp, by simp⟩
      obtain ⟨a, e, cl⟩ := s.grows
      simp only [List.append_nil] at e
      subst e
      exact ⟨order, rfl, rfl, s.inv, cl, hg⟩

theorem CopySpec.length {h : Heap} {memo0 : Memo} {x : Nat} {c : Copied} {order : List Nat}
    (s : CopySpec h memo0 x c order) : c.heap.length = h.length + order.length := by
  rw [s.heap_eq]; simp

/-- the source heap is a prefix of the result: no object that existed is modified -/
theorem CopySpec.frame {h : Heap} {memo0 : Memo} {x : Nat} {c : Copied} {order : List Nat}
    (s : CopySpec h memo0 x c order) : ∀ i, i < h.length → c.heap[i]? = h[i]? := by
  intro i hi
  rw [s.heap_eq, List.getElem?_append_left hi]

/-- every copied object: its copy is new, sits where the memo says, and is the source with every reference
    translated through the memo -/
theorem CopySpec.copy_of {h : Heap} {memo0 : Memo} {x : Nat} {c : Copied} {order : List Nat}
    (s : CopySpec h memo0 x c order) {z : Nat} (hz : z ∈ order) :
    ∃ k nd, k < order.length ∧ Memo.get? c.memo z = some (h.length + k) ∧ h[z]? = some nd ∧
      c.heap[h.length + k]? = some (mapNode c.memo nd) ∧ order.reverse[k]? = some z := by
  obtain ⟨k, hk, hg, hr⟩ := memoOf_get_of_mem (base := h.length) (memo0 := memo0) s.inv.nodup hz
  obtain ⟨nd, hnd⟩ := s.inv.inHeap z hz
  refine ⟨k, nd, hk, by rw [s.memo_eq]; exact hg, hnd, ?_, hr⟩
  rw [s.heap_eq, List.getElem?_append_right (by omega)]
  simp only [Nat.add_sub_cancel_left, List.getElem?_map, hr, Option.map_some, copyOf, hnd]

/-- every new object is the copy of exactly one copied source -/
theorem CopySpec.new_is_copy {h : Heap} {memo0 : Memo} {x : Nat} {c : Copied} {order : List Nat}
    (s : CopySpec h memo0 x c order) {y : Nat} (h1 : h.length ≤ y) (h2 : y < c.heap.length) :
    ∃ z ∈ order, Memo.get? c.memo z = some y := by
  rw [s.length] at h2
  obtain ⟨z, hz, hg⟩ := pairs_surj (base := h.length) s.inv.nodup (k := y - h.length) (by omega)
  refine ⟨z, hz, ?_⟩
  rw [s.memo_eq]
  unfold memoOf
  rw [Memo.get?_append, hg]
  simp only [Option.some.injEq]
  omega

/-- distinct sources have distinct copies -/
theorem CopySpec.injective {h : Heap} {memo0 : Memo} {x : Nat} {c : Copied} {order : List Nat}
    (s : CopySpec h memo0 x c order) {z1 z2 y : Nat} (h1 : z1 ∈ order) (h2 : z2 ∈ order)
    (g1 : Memo.get? c.memo z1 = some y) (g2 : Memo.get? c.memo z2 = some y) : z1 = z2 := by
  obtain ⟨k1, _, e1, r1⟩ := memoOf_get_of_mem (base := h.length) (memo0 := memo0) s.inv.nodup h1
  obtain ⟨k2, _, e2, r2⟩ := memoOf_get_of_mem (base := h.length) (memo0 := memo0) s.inv.nodup h2
  rw [s.memo_eq] at g1 g2
  rw [e1] at g1
  rw [e2] at g2
  have : k1 = k2 := by
    simp only [Option.some.injEq] at g1 g2
    omega
  subst this
  rw [r1] at r2
  exact Option.some.inj r2

/-- the memo that was passed in is still there -/
theorem CopySpec.memo0_kept {h : Heap} {memo0 : Memo} {x : Nat} {c : Copied} {order : List Nat}
    (s : CopySpec h memo0 x c order) {a b : Nat} (hab : Memo.get? memo0 a = some b) :
    Memo.get? c.memo a = some b := by
  rw [s.memo_eq]
  unfold memoOf
  rw [Memo.get?_append]
  cases hp : Memo.get? (pairs h.length order) a with
  | none => exact hab
  | some y =>
    have := (pairs_get_range hp).2.2
    have := s.inv.fresh a this
    rw [hab] at this
    cases this

/-- a value of the final memo is a new object or a value of the memo passed in -/
theorem CopySpec.memo_values {h : Heap} {memo0 : Memo} {x : Nat} {c : Copied} {order : List Nat}
    (s : CopySpec h memo0 x c order) {a y : Nat} (hg : Memo.get? c.memo a = some y) :
    (h.length ≤ y ∧ y < c.heap.length ∧ a ∈ order) ∨ (a ∉ order ∧ Memo.get? memo0 a = some y) := by
  rw [s.memo_eq] at hg
  rcases memoOf_get_cases hg with ⟨h1, h2, h3⟩ | h'
  · exact Or.inl ⟨h1, by rw [s.length]; exact h2, h3⟩
  · exact Or.inr h'

/-! ### references of a translated node -/

theorem mem_refs_iff {nd : Node} {r : Nat} : r ∈ nd.refs ↔ ∃ k, (k, Val.ref r) ∈ nd.fields := by
  unfold Node.refs
  simp only [mem_flatMap]
  constructor
  · rintro ⟨kv, hkv, hr⟩
    obtain ⟨k, v⟩ := kv
    cases v with
    | ref i => simp [Val.refs] at hr; subst hr; exact ⟨k, hkv⟩
    | none => simp [Val.refs] at hr
    | prim s => simp [Val.refs] at hr
  · rintro ⟨k, hk⟩
    exact ⟨(k, Val.ref r), hk, by simp [Val.refs]⟩

/-- the references of a copy are the translations of the references of its source -/
theorem mapNode_refs {m : Memo} {nd : Node} {r' : Nat} (hr : r' ∈ (mapNode m nd).refs) :
    ∃ r ∈ nd.refs, mapVal m (.ref r) = .ref r' := by
  rw [mem_refs_iff] at hr
  obtain ⟨k, hk⟩ := hr
  simp only [mapNode, mem_map] at hk
  obtain ⟨kv, hkv, he⟩ := hk
  obtain ⟨k0, v⟩ := kv
  simp only [Prod.mk.injEq] at he
  cases v with
  | ref i => exact ⟨i, mem_refs_iff.mpr ⟨k0, hkv⟩, he.2⟩
  | none => simp [mapVal] at he
  | prim s => simp [mapVal] at he

theorem lookupField_mapNode (m : Memo) (nd : Node) (f : String) :
    lookupField (mapNode m nd).fields f = mapVal m (lookupField nd.fields f) := by
  obtain ⟨cls, fs⟩ := nd
  simp only [mapNode]
  induction fs with
  | nil => simp [lookupField, mapVal]
  | cons kv rest ih =>
    obtain ⟨k, v⟩ := kv
    simp only [List.map_cons, lookupField]
    by_cases hk : k = f
    · simp [hk]
    · simp [hk, ih]

/-- a reference held by a new object is a new object or a value of the memo passed in: the copy shares nothing
    with its source except what the caller pre-mapped -/
theorem CopySpec.new_refs {h : Heap} {memo0 : Memo} {x : Nat} {c : Copied} {order : List Nat}
    (s : CopySpec h memo0 x c order) {y : Nat} (h1 : h.length ≤ y) {nd' : Node} (hy : c.heap[y]? = some nd')
    {r' : Nat} (hr : r' ∈ nd'.refs) :
    (h.length ≤ r' ∧ r' < c.heap.length) ∨ ∃ a, Memo.get? memo0 a = some r' := by
  have h2 : y < c.heap.length := by
    have := List.getElem?_eq_some_iff.mp hy
    exact this.1
  obtain ⟨z, hz, hg⟩ := s.new_is_copy h1 h2
  obtain ⟨k, nd, _, hg', hnd, hc, _⟩ := s.copy_of hz
  rw [hg] at hg'
  simp only [Option.some.injEq] at hg'
  subst hg'
  rw [hy] at hc
  simp only [Option.some.injEq] at hc
  subst hc
  obtain ⟨r, hr0, hm⟩ := mapNode_refs hr
  obtain ⟨y', hy'⟩ := s.closed z hz nd hnd r hr0
  simp only [mapVal, hy', Val.ref.injEq] at hm
  subst hm
  rcases s.memo_values hy' with ⟨a1, a2, _⟩ | ⟨_, a2⟩
  · exact Or.inl ⟨a1, a2⟩
  · exact Or.inr ⟨r, a2⟩

/-! ### the fuel of `deepcopy` always suffices -/

/-- how many objects of a heap of size `n` are not yet in the memo -/
def unvisited (n : Nat) (m : Memo) : Nat := (List.range n).countP (fun i => (Memo.get? m i).isNone)

theorem countP_lt_of_imp {α : Type} (p q : α → Bool) (l : List α) (himp : ∀ i ∈ l, p i = true → q i = true)
    (x : α) (hx : x ∈ l) (hq : q x = true) (hp : p x = false) : l.countP p < l.countP q := by
  induction l with
  | nil => simp at hx
  | cons a as ih =>
    simp only [List.countP_cons]
    simp only [mem_cons] at hx
    have hle : as.countP p ≤ as.countP q :=
      List.countP_mono_left (fun i hi => himp i (mem_cons_of_mem _ hi))
    rcases hx with rfl | hx
    · simp only [hq, hp, ↓reduceIte]
      simp
      omega
    · have := ih (fun i hi => himp i (mem_cons_of_mem _ hi)) hx
      have h1 := himp a (by simp)
      by_cases hpa : p a = true
      · simp [hpa, h1 hpa]; omega
      · simp [hpa]
        by_cases hqa : q a = true <;> simp [hqa] <;> omega

theorem unvisited_mono {n base : Nat} {memo0 : Memo} {order : List Nat} (added : List Nat) :
    unvisited n (memoOf base memo0 (added ++ order)) ≤ unvisited n (memoOf base memo0 order) := by
  unfold unvisited
  apply List.countP_mono_left
  intro i _ hi
  cases hg : Memo.get? (memoOf base memo0 order) i with
  | none => rfl
  | some y =>
    obtain ⟨y', hy'⟩ := memoOf_get_mono (base := base) (memo0 := memo0) added ⟨y, hg⟩
    simp [hy'] at hi

theorem unvisited_cons_lt {n base : Nat} {memo0 : Memo} {order : List Nat} {x : Nat} (hx : x < n)
    (hg : Memo.get? (memoOf base memo0 order) x = none) :
    unvisited n (memoOf base memo0 (x :: order)) < unvisited n (memoOf base memo0 order) := by
  unfold unvisited
  apply countP_lt_of_imp _ _ _ _ x (List.mem_range.mpr hx) (by simp [hg])
  · have : x ∈ x :: order := by simp
    unfold memoOf
    rw [Memo.get?_append]
    simp [pairs, Memo.get?]
  · intro i _ hi
    cases hg' : Memo.get? (memoOf base memo0 order) i with
    | none => rfl
    | some y =>
      obtain ⟨y', hy'⟩ := memoOf_get_mono (base := base) (memo0 := memo0) [x] ⟨y, hg'⟩
      simp at hy'
      simp [hy'] at hi

theorem visitL_total {src : Heap} {base : Nat} {memo0 : Memo} (f : Nat)
    (hrec : ∀ order x, x < src.length → OrderInv src memo0 order →
      unvisited src.length (memoOf base memo0 order) < f → ∃ order', visit src base memo0 f order x = some order') :
    ∀ rs order, (∀ r ∈ rs, r < src.length) → OrderInv src memo0 order →
      unvisited src.length (memoOf base memo0 order) < f →
      ∃ order', visitL (visit src base memo0 f) rs order = some order' := by
  intro rs
  induction rs with
  | nil => intro order _ _ _; exact ⟨order, rfl⟩
  | cons r rs ih =>
    intro order hr hinv hu
    obtain ⟨o1, h1⟩ := hrec order r (hr r (by simp)) hinv hu
    have s1 := visit_spec src base memo0 f order r o1 h1 hinv
    obtain ⟨a, e, _⟩ := s1.grows
    have hu' : unvisited src.length (memoOf base memo0 o1) < f := by
      rw [e]
      exact Nat.lt_of_le_of_lt (unvisited_mono a) hu
    obtain ⟨o2, h2⟩ := ih o1 (fun r' hr' => hr r' (mem_cons_of_mem _ hr')) s1.inv hu'
    exact ⟨o2, by simp [visitL, h1, h2]⟩

/-- on a heap without dangling references the traversal never runs out of fuel: every nesting level enters one
    more object into the memo -/
theorem visit_total {src : Heap} (hwf : WF src) (base : Nat) (memo0 : Memo) :
    ∀ f order x, x < src.length → OrderInv src memo0 order →
      unvisited src.length (memoOf base memo0 order) < f → ∃ order', visit src base memo0 f order x = some order' := by
  intro f
  induction f with
  | zero => intro order x _ _ hu; omega
  | succ f ih =>
    intro order x hx hinv hu
    simp only [visit]
    cases hg : Memo.get? (memoOf base memo0 order) x with
    | some y => exact ⟨order, rfl⟩
    | none =>
      have hlt : x < src.length := hx
      cases hs : src[x]? with
      | none =>
        have := List.getElem?_eq_none_iff.mp hs
        omega
      | some nd =>
        simp only
        have hg' := hg
        unfold memoOf at hg'
        rw [Memo.get?_append] at hg'
        have hp : Memo.get? (pairs base order) x = none := by
          cases hp : Memo.get? (pairs base order) x with
          | none => rfl
          | some y => simp [hp] at hg'
        have h0 : Memo.get? memo0 x = none := by simpa [hp] using hg'
        have hinv' : OrderInv src memo0 (x :: order) :=
          ⟨List.nodup_cons.mpr ⟨get?_pairs_none hp, hinv.nodup⟩,
            by intro z hz; simp only [mem_cons] at hz; rcases hz with rfl | hz; exact h0; exact hinv.fresh z hz,
            by intro z hz; simp only [mem_cons] at hz; rcases hz with rfl | hz; exact ⟨nd, hs⟩; exact hinv.inHeap z hz⟩
        have hdec := unvisited_cons_lt (n := src.length) (base := base) (memo0 := memo0) hx hg
        have hmem : nd ∈ src := List.mem_of_getElem? hs
        exact visitL_total f ih nd.refs (x :: order) (fun r hr => hwf nd hmem r hr) hinv' (by omega)

/-- `copy.deepcopy` of an object of a well-formed heap succeeds, whatever memo is passed in -/
theorem deepcopy_total {h : Heap} (hwf : WF h) (memo0 : Memo) {x : Nat} (hx : x < h.length) :
    ∃ c, deepcopy h memo0 x = some c := by
  have hu : unvisited h.length (memoOf h.length memo0 []) < h.length + 1 := by
    unfold unvisited
    have := List.countP_le_length (p := fun i => (Memo.get? (memoOf h.length memo0 []) i).isNone) (l := List.range h.length)
    simp only [List.length_range] at this
    omega
  obtain ⟨order, hv⟩ := visit_total hwf h.length memo0 (h.length + 1) [] x hx ⟨by simp, by simp, by simp⟩ hu
  have s := visit_spec h h.length memo0 (h.length + 1) [] x order hv ⟨by simp, by simp, by simp⟩
  obtain ⟨y, hy⟩ := s.reached x (by simp)
  refine ⟨⟨h ++ order.reverse.map (copyOf h (memoOf h.length memo0 order)), y, memoOf h.length memo0 order⟩, ?_⟩
  simp only [deepcopy, hv, hy]

end NmlVerif.PyHeap
