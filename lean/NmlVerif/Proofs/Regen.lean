import NmlVerif.Model.Regen
/-! Generic lemmas for C20 (any tables, any source type): the insertion rule, and the lifting of a
    digest-level comparison to the statement level. -/
namespace NmlVerif.Regen

variable {α σ : Type} [DecidableEq α]

/-- `match_name` holds exactly for the classes the spec names -/
theorem matchName_iff (cn : ClassNames α) (cls : α) : matchName cn cls = true ↔ cls ∈ cn.named := by
  cases cn with
  | str s => simp [matchName, ClassNames.named, eq_comm]
  | list l => simp [matchName, ClassNames.named]
  | other => simp [matchName, ClassNames.named]

theorem insertionRule_iff (spec : Spec α) (cls : α) :
    insertionRule spec cls = true ↔ cls ∈ spec.classNames.named := matchName_iff _ _

/-- a statement is written into class `cls` iff it belongs to a spec that names `cls` -/
theorem mem_regenerated (specs : List (Spec α)) (cls : α) (it : Item α) :
    it ∈ regenerated specs cls ↔ ∃ spec ∈ specs, cls ∈ spec.classNames.named ∧ it ∈ spec.items := by
  simp only [regenerated, List.mem_flatMap, List.mem_filter, insertionRule_iff]
  constructor
  · rintro ⟨s, ⟨hs, hc⟩, hi⟩; exact ⟨s, hs, hc, hi⟩
  · rintro ⟨s, hs, hc, hi⟩; exact ⟨s, ⟨hs, hc⟩, hi⟩

theorem mem_regenS (specs : List (SpecS α σ)) (cls : α) (x : σ) :
    x ∈ regenS specs cls ↔ ∃ spec ∈ specs, cls ∈ spec.classNames.named ∧ x ∈ spec.body := by
  simp only [regenS, List.mem_flatMap, List.mem_filter, matchName_iff]
  constructor
  · rintro ⟨s, ⟨hs, hc⟩, hi⟩; exact ⟨s, hs, hc, hi⟩
  · rintro ⟨s, hs, hc, hi⟩; exact ⟨s, ⟨hs, hc⟩, hi⟩

/-- a class no spec names gets no user statements -/
theorem regenerated_eq_nil (specs : List (Spec α)) (cls : α)
    (h : ∀ spec ∈ specs, cls ∉ spec.classNames.named) : regenerated specs cls = [] := by
  apply List.eq_nil_iff_forall_not_mem.mpr
  intro it hit
  obtain ⟨s, hs, hc, _⟩ := (mem_regenerated specs cls it).mp hit
  exact h s hs hc

/-- the translator's view commutes with generation: digesting what generateDS writes = generating from
    the digested specs (order kept) -/
theorem regenS_map_key (key : σ → Item α) (specs : List (SpecS α σ)) (cls : α) :
    (regenS specs cls).map key = regenerated (specs.map (SpecS.abstract key)) cls := by
  have e : ∀ sp : List (Spec α), regenerated sp cls
      = (sp.filter (fun s => matchName s.classNames cls)).flatMap (·.items) := fun _ => rfl
  rw [e]
  induction specs with
  | nil => rfl
  | cons s rest ih =>
    unfold regenS at *
    simp only [List.map_cons, List.filter_cons, SpecS.abstract]
    by_cases h : matchName s.classNames cls = true
    · simp only [h, ↓reduceIte, List.flatMap_cons, List.map_append]
      rw [ih]
    · simp only [h]
      exact ih

/-- two lists with the same key image are equal when the key separates their members -/
theorem eq_of_map_key_eq {β : Type} (f : σ → β) :
    ∀ (l₁ l₂ : List σ), l₁.map f = l₂.map f → (∀ a ∈ l₁, ∀ b ∈ l₂, f a = f b → a = b) → l₁ = l₂
  | [], [], _, _ => rfl
  | [], _ :: _, h, _ => by simp at h
  | _ :: _, [], h, _ => by simp at h
  | a :: l₁, b :: l₂, h, hinj => by
    simp only [List.map_cons, List.cons.injEq] at h
    have hab : a = b := hinj a (by simp) b (by simp) h.1
    have := eq_of_map_key_eq f l₁ l₂ h.2 (fun x hx y hy => hinj x (by simp [hx]) y (by simp [hy]))
    rw [hab, this]

/-- **Lifting lemma.** For any specs with sources and any shipped user part: if the (name, digest) list of
    the shipped user part equals the one generated from the digested specs (this is what the kernel decides on the
    extracted table) and equal digests mean equal normalised statements (no collision among the statements
    involved), then the shipped user part IS what generateDS writes, statement for statement and in order —
    regenerating the class is the identity. -/
theorem lift (key : σ → Item α) (specs : List (SpecS α σ)) (cls : α) (shipped : List σ)
    (htable : shipped.map key = regenerated (specs.map (SpecS.abstract key)) cls)
    (hinj : ∀ a ∈ shipped, ∀ b ∈ regenS specs cls, key a = key b → a = b) :
    shipped = regenS specs cls :=
  eq_of_map_key_eq key _ _ (by rw [htable, regenS_map_key]) hinj

theorem regenClass_id (key : σ → Item α) (specs : List (SpecS α σ)) (cls : α) (b : ClassBody σ)
    (htable : b.user.map key = regenerated (specs.map (SpecS.abstract key)) cls)
    (hinj : ∀ x ∈ b.user, ∀ y ∈ regenS specs cls, key x = key y → x = y) :
    regenClass specs cls b = b := by
  cases b with
  | mk g u =>
    simp only [regenClass]
    rw [← lift key specs cls u htable hinj]

/-- **Detection.** Conversely a user part that is NOT what the specs yield cannot pass the table comparison
    (no injectivity needed: equal statements have equal digests). -/
theorem table_detects (key : σ → Item α) (specs : List (SpecS α σ)) (cls : α) (shipped : List σ)
    (hkeys : shipped.map key ≠ regenerated (specs.map (SpecS.abstract key)) cls) :
    shipped ≠ regenS specs cls := by
  intro h
  apply hkeys
  rw [h, regenS_map_key]

/-- and with collision-freedom the table comparison fails whenever the statements differ -/
theorem table_complete (key : σ → Item α) (specs : List (SpecS α σ)) (cls : α) (shipped : List σ)
    (hinj : ∀ a ∈ shipped, ∀ b ∈ regenS specs cls, key a = key b → a = b)
    (hne : shipped ≠ regenS specs cls) :
    shipped.map key ≠ regenerated (specs.map (SpecS.abstract key)) cls :=
  fun h => hne (lift key specs cls shipped h hinj)

/-- two duplicate-free lists with the same members are permutations of each other (same length): a
    one-to-one correspondence -/
theorem perm_of_nodup_mutual {β : Type} {l₁ l₂ : List β} (h₁ : l₁.Nodup) (h₂ : l₂.Nodup)
    (h12 : ∀ x ∈ l₁, x ∈ l₂) (h21 : ∀ x ∈ l₂, x ∈ l₁) : l₁.Perm l₂ :=
  (List.perm_ext_iff_of_nodup h₁ h₂).mpr (fun a => ⟨h12 a, h21 a⟩)

/-! ## fast Boolean checks for the kernel (structural, `Nat.beq`) with their meaning -/

def memB (a : Nat) : List Nat → Bool
  | [] => false
  | b :: l => Nat.beq a b || memB a l

def nodupB : List Nat → Bool
  | [] => true
  | a :: l => !(memB a l) && nodupB l

def subsetB : List Nat → List Nat → Bool
  | [], _ => true
  | a :: l, l₂ => memB a l₂ && subsetB l l₂

theorem memB_iff (a : Nat) : ∀ l, memB a l = true ↔ a ∈ l
  | [] => by simp [memB]
  | b :: l => by
    simp only [memB, Bool.or_eq_true, List.mem_cons, memB_iff a l]
    constructor
    · rintro (h | h)
      · exact Or.inl (Nat.eq_of_beq_eq_true h)
      · exact Or.inr h
    · rintro (h | h)
      · exact Or.inl (by rw [h]; exact Nat.beq_refl b)
      · exact Or.inr h

theorem nodupB_sound : ∀ l, nodupB l = true → l.Nodup
  | [], _ => List.nodup_nil
  | a :: l, h => by
    simp only [nodupB, Bool.and_eq_true, Bool.not_eq_true'] at h
    refine List.nodup_cons.mpr ⟨?_, nodupB_sound l h.2⟩
    intro hm
    have := (memB_iff a l).mpr hm
    rw [h.1] at this
    cases this

theorem subsetB_sound : ∀ l₁ l₂, subsetB l₁ l₂ = true → ∀ x ∈ l₁, x ∈ l₂
  | [], _, _ => by simp
  | a :: l, l₂, h => by
    simp only [subsetB, Bool.and_eq_true] at h
    intro x hx
    rcases List.mem_cons.mp hx with rfl | hx
    · exact (memB_iff _ l₂).mp h.1
    · exact subsetB_sound l l₂ h.2 x hx

end NmlVerif.Regen
