import NmlVerif.Model.Regen
/-! Generic lemmas for C20 (any tables, any source type): the insertion rule, and the lifting of a
    digest-level comparison to the statement level. -/
namespace NmlVerif.Regen

variable {α σ : Type} [DecidableEq α]

/-- `match_name` holds exactly for the classes the spec names -/
theorem matchName_iff (cn : ClassNames α) (cls : α) : matchName cn cls = true ↔ cls ∈ cn.named := by
  cases cn with
  | str s => simp [matchName, ClassNames.named, eq_comm]
  | list l => simp [matchName, ClassNames.named]
  | other => simp [matchName, ClassNames.named]

theorem insertionRule_iff (spec : Spec α) (cls : α) :
    insertionRule spec cls = true ↔ cls ∈ spec.classNames.named := matchName_iff _ _

/-- a statement is written into class `cls` iff it belongs to (the source, interpolated for `cls`, of) a spec that
    names `cls` -/
theorem mem_regenerated (specs : List (Spec α)) (cls : α) (it : Item α) :
    it ∈ regenerated specs cls ↔ ∃ spec ∈ specs, cls ∈ spec.classNames.named ∧ it ∈ spec.itemsFor cls := by
  simp only [regenerated, List.mem_flatMap, List.mem_filter, insertionRule_iff]
  constructor
  · rintro ⟨s, ⟨hs, hc⟩, hi⟩; exact ⟨s, hs, hc, hi⟩
  · rintro ⟨s, hs, hc, hi⟩; exact ⟨s, ⟨hs, hc⟩, hi⟩

theorem mem_regenS (specs : List (SpecS α σ)) (cls : α) (x : σ) :
    x ∈ regenS specs cls ↔ ∃ spec ∈ specs, cls ∈ spec.classNames.named ∧ x ∈ spec.body cls := by
  simp only [regenS, List.mem_flatMap, List.mem_filter, matchName_iff]
  constructor
  · rintro ⟨s, ⟨hs, hc⟩, hi⟩; exact ⟨s, hs, hc, hi⟩
  · rintro ⟨s, hs, hc, hi⟩; exact ⟨s, ⟨hs, hc⟩, hi⟩

/-- a class no spec names gets no user statements -/
theorem regenerated_eq_nil (specs : List (Spec α)) (cls : α)
    (h : ∀ spec ∈ specs, cls ∉ spec.classNames.named) : regenerated specs cls = [] := by
  apply List.eq_nil_iff_forall_not_mem.mpr
  intro it hit
  obtain ⟨s, hs, hc, _⟩ := (mem_regenerated specs cls it).mp hit
  exact h s hs hc

/-- a source without `%(class_name)s` (no per-class row) yields the same statements for every class -/
theorem itemsFor_of_perClass_nil (s : Spec α) (h : s.perClass = []) (cls : α) : s.itemsFor cls = s.items := by
  simp [Spec.itemsFor, h]

/-- the per-class row, when there is one for `cls`, is what is pasted (`%(class_name)s` interpolation) -/
theorem itemsFor_head (s : Spec α) (cls : α) (l : List (Item α)) (rest : List (α × List (Item α)))
    (h : s.perClass = (cls, l) :: rest) : s.itemsFor cls = l := by
  simp [Spec.itemsFor, h]

/-- the translator's view commutes with generation: digesting what generateDS writes = generating from
    the digested specs (order kept, interpolation per class included) -/
theorem regenS_map_key (key : σ → Item α) (specsS : List (SpecS α σ)) (specs : List (Spec α)) (cls : α)
    (h : AllAbstract key specsS specs) :
    (regenS specsS cls).map key = regenerated specs cls := by
  have e : ∀ sp : List (Spec α), regenerated sp cls
      = (sp.filter (fun s => matchName s.classNames cls)).flatMap (·.itemsFor cls) := fun _ => rfl
  rw [e]
  induction h with
  | nil => rfl
  | @cons s t rest rest' hst _ ih =>
    unfold regenS at *
    obtain ⟨hcn, hbody⟩ := hst
    simp only [List.filter_cons, hcn]
    by_cases hm : matchName s.classNames cls = true
    · simp only [hm, ↓reduceIte, List.flatMap_cons, List.map_append]
      rw [ih, hbody cls]
    · simp only [hm]
      exact ih

/-- two lists with the same key image are equal when the key separates their members -/
theorem eq_of_map_key_eq {β : Type} (f : σ → β) :
    ∀ (l₁ l₂ : List σ), l₁.map f = l₂.map f → (∀ a ∈ l₁, ∀ b ∈ l₂, f a = f b → a = b) → l₁ = l₂
  | [], [], _, _ => rfl
  | [], _ :: _, h, _ => by simp at h
  | _ :: _, [], h, _ => by simp at h
  | a :: l₁, b :: l₂, h, hinj => by
    simp only [List.map_cons, List.cons.injEq] at h
    have hab : a = b := hinj a (by simp) b (by simp) h.1
    have := eq_of_map_key_eq f l₁ l₂ h.2 (fun x hx y hy => hinj x (by simp [hx]) y (by simp [hy]))
    rw [hab, this]

/-- **Lifting lemma.** For any specs with sources and any shipped user part: if the (name, digest) list of
    the shipped user part equals the one generated from the digested specs (this is what the kernel decides on the
    extracted table) and equal digests mean equal normalised statements (no collision among the statements
    involved), then the shipped user part IS what generateDS writes, statement for statement and in order —
    regenerating the class is the identity. -/
theorem lift (key : σ → Item α) (specsS : List (SpecS α σ)) (specs : List (Spec α)) (cls : α) (shipped : List σ)
    (habs : AllAbstract key specsS specs)
    (htable : shipped.map key = regenerated specs cls)
    (hinj : ∀ a ∈ shipped, ∀ b ∈ regenS specsS cls, key a = key b → a = b) :
    shipped = regenS specsS cls :=
  eq_of_map_key_eq key _ _ (by rw [htable, regenS_map_key key specsS specs cls habs]) hinj

theorem regenClass_id (key : σ → Item α) (specsS : List (SpecS α σ)) (specs : List (Spec α)) (cls : α)
    (b : ClassBody σ) (habs : AllAbstract key specsS specs)
    (htable : b.user.map key = regenerated specs cls)
    (hinj : ∀ x ∈ b.user, ∀ y ∈ regenS specsS cls, key x = key y → x = y) :
    regenClass specsS cls b = b := by
  cases b with
  | mk g u =>
    simp only [regenClass]
    rw [← lift key specsS specs cls u habs htable hinj]

/-- **Detection.** Conversely a user part that is NOT what the specs yield cannot pass the table comparison
    (no injectivity needed: equal statements have equal digests). -/
theorem table_detects (key : σ → Item α) (specsS : List (SpecS α σ)) (specs : List (Spec α)) (cls : α)
    (shipped : List σ) (habs : AllAbstract key specsS specs)
    (hkeys : shipped.map key ≠ regenerated specs cls) :
    shipped ≠ regenS specsS cls := by
  intro h
  apply hkeys
  rw [h, regenS_map_key key specsS specs cls habs]

/-- and with collision-freedom the table comparison fails whenever the statements differ -/
theorem table_complete (key : σ → Item α) (specsS : List (SpecS α σ)) (specs : List (Spec α)) (cls : α)
    (shipped : List σ) (habs : AllAbstract key specsS specs)
    (hinj : ∀ a ∈ shipped, ∀ b ∈ regenS specsS cls, key a = key b → a = b)
    (hne : shipped ≠ regenS specsS cls) :
    shipped.map key ≠ regenerated specs cls :=
  fun h => hne (lift key specsS specs cls shipped habs h hinj)

/-- the table read as sources (`σ := Item α`, `key := id`) abstracts to itself -/
def Spec.asSource (t : Spec α) : SpecS α (Item α) := ⟨t.name, t.classNames, t.itemsFor⟩

theorem abstracts_asSource : ∀ (specs : List (Spec α)), AllAbstract id (specs.map Spec.asSource) specs
  | [] => AllAbstract.nil
  | t :: rest => AllAbstract.cons ⟨rfl, fun _ => by simp [Spec.asSource]⟩ (abstracts_asSource rest)

/-- two duplicate-free lists with the same members are permutations of each other (same length): a
    one-to-one correspondence -/
theorem perm_of_nodup_mutual {β : Type} {l₁ l₂ : List β} (h₁ : l₁.Nodup) (h₂ : l₂.Nodup)
    (h12 : ∀ x ∈ l₁, x ∈ l₂) (h21 : ∀ x ∈ l₂, x ∈ l₁) : l₁.Perm l₂ :=
  (List.perm_ext_iff_of_nodup h₁ h₂).mpr (fun a => ⟨h12 a, h21 a⟩)

/-! ## fast Boolean checks for the kernel (structural, `Nat.beq`) with their meaning -/

def memB (a : Nat) : List Nat → Bool
  | [] => false
  | b :: l => Nat.beq a b || memB a l

def nodupB : List Nat → Bool
  | [] => true
  | a :: l => !(memB a l) && nodupB l

def subsetB : List Nat → List Nat → Bool
  | [], _ => true
  | a :: l, l₂ => memB a l₂ && subsetB l l₂

theorem memB_iff (a : Nat) : ∀ l, memB a l = true ↔ a ∈ l
  | [] => by simp [memB]
  | b :: l => by
    simp only [memB, Bool.or_eq_true, List.mem_cons, memB_iff a l]
    constructor
    · rintro (h | h)
      · exact Or.inl (Nat.eq_of_beq_eq_true h)
      · exact Or.inr h
    · rintro (h | h)
      · exact Or.inl (by rw [h]; exact Nat.beq_refl b)
      · exact Or.inr h

theorem nodupB_sound : ∀ l, nodupB l = true → l.Nodup
  | [], _ => List.nodup_nil
  | a :: l, h => by
    simp only [nodupB, Bool.and_eq_true, Bool.not_eq_true'] at h
    refine List.nodup_cons.mpr ⟨?_, nodupB_sound l h.2⟩
    intro hm
    have := (memB_iff a l).mpr hm
    rw [h.1] at this
    cases this

theorem subsetB_sound : ∀ l₁ l₂, subsetB l₁ l₂ = true → ∀ x ∈ l₁, x ∈ l₂
  | [], _, _ => by simp
  | a :: l, l₂, h => by
    simp only [subsetB, Bool.and_eq_true] at h
    intro x hx
    rcases List.mem_cons.mp hx with rfl | hx
    · exact (memB_iff _ l₂).mp h.1
    · exact subsetB_sound l l₂ h.2 x hx

/-! ## whole files (second pass) -/

/-- a class body splits into its schema-driven part and its user part at the boundary -/
theorem generatedPart_append_userPart (boundary : Nat) (ms : List (Item Nat)) :
    generatedPart boundary ms ++ userPart boundary ms = ms := by
  unfold generatedPart userPart
  rw [List.append_assoc, List.take_append_drop, List.takeWhile_append_dropWhile]

/-- equal class rows have equal user parts and equal schema-driven parts -/
theorem userRows_congr (boundary : Nat) {a b : List ClassRow} (h : a = b) : userRows boundary a = userRows boundary b := by
  rw [h]

/-- **whole-file lifting**: if two files have the same (name, digest) view of a class body and digests separate
    the statements involved, the class bodies are the same statement lists -/
theorem body_eq_of_rows {σ : Type} (key : σ → Item Nat) (shipped regen : List σ)
    (h : shipped.map key = regen.map key)
    (hinj : ∀ a ∈ shipped, ∀ b ∈ regen, key a = key b → a = b) : shipped = regen :=
  eq_of_map_key_eq key shipped regen h hinj

end NmlVerif.Regen
