import NmlVerif.Model.Rx
/-!
Lemmas about the regular expressions of `Model/Rx.lean`: inversion of `Matches`, and the correctness of the
executable matcher (`accepts r s = true ↔ Matches r s`).
-/
namespace NmlVerif.Rx

/-! ### inversion -/

theorem matches_none_iff (s : List Char) : Matches .none s ↔ False := by
  constructor
  · intro h; cases h
  · intro h; cases h

theorem matches_eps_iff (s : List Char) : Matches .eps s ↔ s = [] := by
  constructor
  · intro h; cases h; rfl
  · intro h; subst h; exact .eps

theorem matches_set_iff (cs : CSet) (s : List Char) : Matches (.set cs) s ↔ ∃ c, s = [c] ∧ cs.mem c = true := by
  constructor
  · intro h; cases h with | set _ c hc => exact ⟨c, rfl, hc⟩
  · rintro ⟨c, rfl, hc⟩; exact .set cs c hc

theorem matches_seq_iff (a b : Rx) (s : List Char) :
    Matches (.seq a b) s ↔ ∃ s1 s2, s = s1 ++ s2 ∧ Matches a s1 ∧ Matches b s2 := by
  constructor
  · intro h; cases h with | seq h1 h2 => exact ⟨_, _, rfl, h1, h2⟩
  · rintro ⟨s1, s2, rfl, h1, h2⟩; exact .seq h1 h2

theorem matches_alt_iff (a b : Rx) (s : List Char) : Matches (.alt a b) s ↔ Matches a s ∨ Matches b s := by
  constructor
  · intro h; cases h with
    | altL h => exact Or.inl h
    | altR h => exact Or.inr h
  · rintro (h | h)
    · exact .altL h
    · exact .altR h

theorem matches_opt_iff (a : Rx) (s : List Char) : Matches (Rx.opt a) s ↔ Matches a s ∨ s = [] := by
  unfold Rx.opt
  rw [matches_alt_iff, matches_eps_iff]

theorem chr_mem (c d : Char) : (⟨[(c.toNat, c.toNat)], false⟩ : CSet).mem d = true ↔ d = c := by
  simp only [CSet.mem, List.any_cons, List.any_nil, Bool.or_false, Bool.false_and, Bool.and_eq_true,
    decide_eq_true_eq]
  constructor
  · intro h
    have : d.toNat = c.toNat := by omega
    exact Char.toNat_inj.mp this
  · intro h; subst h; omega

theorem matches_chr_iff (c : Char) (s : List Char) : Matches (Rx.chr c) s ↔ s = [c] := by
  unfold Rx.chr
  rw [matches_set_iff]
  constructor
  · rintro ⟨d, rfl, hd⟩
    rw [(chr_mem c d).mp hd]
  · intro h; subst h
    exact ⟨c, rfl, (chr_mem c c).mpr rfl⟩

/-- `r*` is a concatenation of matches of `r` -/
theorem matches_star_iff (a : Rx) (s : List Char) :
    Matches (.star a) s ↔ ∃ l : List (List Char), s = l.flatten ∧ ∀ x ∈ l, Matches a x := by
  constructor
  · intro h
    generalize hr : Rx.star a = r at h
    induction h with
    | eps => cases hr
    | set => cases hr
    | seq => cases hr
    | altL => cases hr
    | altR => cases hr
    | starNil => exact ⟨[], rfl, by simp⟩
    | @starCons a' s1 t h1 _ _ ih2 =>
      cases hr
      obtain ⟨l, hl, hall⟩ := ih2 rfl
      refine ⟨s1 :: l, by simp [hl], ?_⟩
      intro x hx
      rcases List.mem_cons.mp hx with rfl | hx
      · exact h1
      · exact hall x hx
  · rintro ⟨l, rfl, hall⟩
    induction l with
    | nil => exact .starNil
    | cons x r ih =>
      simp only [List.flatten_cons]
      exact .starCons (hall x (by simp)) (ih (fun y hy => hall y (by simp [hy])))

/-- `[class]*` is any string over the class -/
theorem matches_star_set_iff (cs : CSet) (s : List Char) :
    Matches (.star (.set cs)) s ↔ ∀ c ∈ s, cs.mem c = true := by
  rw [matches_star_iff]
  constructor
  · rintro ⟨l, rfl, hall⟩ c hc
    rw [List.mem_flatten] at hc
    obtain ⟨x, hx, hcx⟩ := hc
    obtain ⟨d, rfl, hd⟩ := (matches_set_iff cs x).mp (hall x hx)
    simp at hcx; subst hcx; exact hd
  · intro h
    refine ⟨s.map (fun c => [c]), ?_, ?_⟩
    · induction s with
      | nil => rfl
      | cons c r ih =>
        simp only [List.map_cons, List.flatten_cons, List.singleton_append]
        rw [← ih (fun d hd => h d (by simp [hd]))]
    · intro x hx
      rw [List.mem_map] at hx
      obtain ⟨c, hc, rfl⟩ := hx
      exact .set cs c (h c hc)

/-- `[class]+` is any non-empty string over the class -/
theorem matches_plus_set_iff (cs : CSet) (s : List Char) :
    Matches (Rx.plus (.set cs)) s ↔ s ≠ [] ∧ ∀ c ∈ s, cs.mem c = true := by
  unfold Rx.plus
  rw [matches_seq_iff]
  constructor
  · rintro ⟨s1, s2, rfl, h1, h2⟩
    obtain ⟨c, rfl, hc⟩ := (matches_set_iff cs s1).mp h1
    refine ⟨by simp, ?_⟩
    intro d hd
    rcases List.mem_append.mp hd with hd | hd
    · simp at hd; subst hd; exact hc
    · exact (matches_star_set_iff cs s2).mp h2 d hd
  · rintro ⟨hne, h⟩
    cases s with
    | nil => exact absurd rfl hne
    | cons c r =>
      refine ⟨[c], r, rfl, .set cs c (h c (by simp)), ?_⟩
      exact (matches_star_set_iff cs r).mpr (fun d hd => h d (by simp [hd]))

/-- `r+` is a non-empty concatenation of matches of `r` -/
theorem matches_plus_iff (a : Rx) (s : List Char) :
    Matches (Rx.plus a) s ↔ ∃ (x : List Char) (l : List (List Char)), s = x ++ l.flatten ∧ Matches a x ∧
      ∀ y ∈ l, Matches a y := by
  unfold Rx.plus
  rw [matches_seq_iff]
  constructor
  · rintro ⟨s1, s2, rfl, h1, h2⟩
    obtain ⟨l, rfl, hall⟩ := (matches_star_iff a s2).mp h2
    exact ⟨s1, l, rfl, h1, hall⟩
  · rintro ⟨x, l, rfl, h1, hall⟩
    exact ⟨x, l.flatten, rfl, h1, (matches_star_iff a _).mpr ⟨l, rfl, hall⟩⟩

/-! ### the executable matcher is correct -/

theorem nullable_iff (r : Rx) : nullable r = true ↔ Matches r [] := by
  induction r with
  | none => simp [nullable, matches_none_iff]
  | eps => simp [nullable, matches_eps_iff]
  | set cs =>
    simp only [nullable, Bool.false_eq_true, false_iff]
    intro h
    obtain ⟨c, hc, _⟩ := (matches_set_iff cs []).mp h
    cases hc
  | seq a b iha ihb =>
    simp only [nullable, Bool.and_eq_true, iha, ihb, matches_seq_iff]
    constructor
    · rintro ⟨h1, h2⟩; exact ⟨[], [], rfl, h1, h2⟩
    · rintro ⟨s1, s2, hs, h1, h2⟩
      have : s1 = [] ∧ s2 = [] := List.append_eq_nil_iff.mp hs.symm
      rw [this.1] at h1; rw [this.2] at h2
      exact ⟨h1, h2⟩
  | alt a b iha ihb =>
    simp only [nullable, Bool.or_eq_true, iha, ihb, matches_alt_iff]
  | star a _ =>
    simp only [nullable, true_iff]
    exact .starNil

theorem matches_sSeq_iff (a b : Rx) (s : List Char) : Matches (sSeq a b) s ↔ Matches (.seq a b) s := by
  unfold sSeq
  split
  · simp [matches_seq_iff, matches_none_iff]
  · rw [matches_seq_iff]
    constructor
    · intro h; exact ⟨[], s, rfl, .eps, h⟩
    · rintro ⟨s1, s2, rfl, h1, h2⟩
      rw [(matches_eps_iff s1).mp h1]; exact h2
  · rfl

theorem matches_sAlt_iff (a b : Rx) (s : List Char) : Matches (sAlt a b) s ↔ Matches (.alt a b) s := by
  unfold sAlt
  split
  · simp [matches_alt_iff, matches_none_iff]
  · simp [matches_alt_iff, matches_none_iff]
  · rfl

/-- a match of `r*` that starts with `c` starts with a non-empty match of `r` -/
theorem star_cons_split (a : Rx) (c : Char) (s : List Char) (h : Matches (.star a) (c :: s)) :
    ∃ s1 s2, s = s1 ++ s2 ∧ Matches a (c :: s1) ∧ Matches (.star a) s2 := by
  obtain ⟨l, hl, hall⟩ := (matches_star_iff a _).mp h
  induction l with
  | nil => simp at hl
  | cons x r ih =>
    cases x with
    | nil =>
      simp only [List.flatten_cons, List.nil_append] at hl
      exact ih hl (fun y hy => hall y (by simp [hy]))
    | cons d x' =>
      simp only [List.flatten_cons, List.cons_append, List.cons.injEq] at hl
      obtain ⟨rfl, rfl⟩ := hl
      refine ⟨x', r.flatten, rfl, hall _ (by simp), ?_⟩
      exact (matches_star_iff a _).mpr ⟨r, rfl, fun y hy => hall y (by simp [hy])⟩

theorem deriv_iff (c : Char) (r : Rx) : ∀ s : List Char, Matches (deriv c r) s ↔ Matches r (c :: s) := by
  induction r with
  | none => intro s; simp [deriv, matches_none_iff]
  | eps =>
    intro s
    simp only [deriv, matches_none_iff, false_iff]
    intro h; cases h
  | set cs =>
    intro s
    simp only [deriv]
    split
    · rename_i hm
      rw [matches_eps_iff, matches_set_iff]
      constructor
      · intro h; subst h; exact ⟨c, rfl, hm⟩
      · rintro ⟨d, hd, _⟩
        simp at hd; exact hd.2
    · rename_i hm
      rw [matches_none_iff, matches_set_iff, false_iff]
      rintro ⟨d, hd, hdm⟩
      simp at hd
      rw [← hd.1] at hdm
      exact hm hdm
  | seq a b iha ihb =>
    intro s
    have key : Matches (.seq a b) (c :: s) ↔
        (∃ s1 s2, s = s1 ++ s2 ∧ Matches a (c :: s1) ∧ Matches b s2) ∨ (Matches a [] ∧ Matches b (c :: s)) := by
      rw [matches_seq_iff]
      constructor
      · rintro ⟨s1, s2, hs, h1, h2⟩
        cases s1 with
        | nil =>
          simp only [List.nil_append] at hs
          subst hs
          exact Or.inr ⟨h1, h2⟩
        | cons d s1' =>
          simp only [List.cons_append, List.cons.injEq] at hs
          obtain ⟨rfl, rfl⟩ := hs
          exact Or.inl ⟨s1', s2, rfl, h1, h2⟩
      · rintro (⟨s1, s2, rfl, h1, h2⟩ | ⟨h1, h2⟩)
        · exact ⟨c :: s1, s2, rfl, h1, h2⟩
        · exact ⟨[], c :: s, rfl, h1, h2⟩
    simp only [deriv]
    split
    · rename_i hn
      rw [matches_sAlt_iff, matches_alt_iff, matches_sSeq_iff, matches_seq_iff, key, ihb]
      constructor
      · rintro (⟨s1, s2, rfl, h1, h2⟩ | h)
        · exact Or.inl ⟨s1, s2, rfl, (iha s1).mp h1, h2⟩
        · exact Or.inr ⟨(nullable_iff a).mp hn, h⟩
      · rintro (⟨s1, s2, rfl, h1, h2⟩ | ⟨_, h⟩)
        · exact Or.inl ⟨s1, s2, rfl, (iha s1).mpr h1, h2⟩
        · exact Or.inr h
    · rename_i hn
      rw [matches_sSeq_iff, matches_seq_iff, key]
      constructor
      · rintro ⟨s1, s2, rfl, h1, h2⟩
        exact Or.inl ⟨s1, s2, rfl, (iha s1).mp h1, h2⟩
      · rintro (⟨s1, s2, rfl, h1, h2⟩ | ⟨h0, _⟩)
        · exact ⟨s1, s2, rfl, (iha s1).mpr h1, h2⟩
        · exact absurd ((nullable_iff a).mpr h0) hn
  | alt a b iha ihb =>
    intro s
    simp only [deriv]
    rw [matches_sAlt_iff, matches_alt_iff, matches_alt_iff, iha, ihb]
  | star a iha =>
    intro s
    simp only [deriv]
    rw [matches_sSeq_iff, matches_seq_iff]
    constructor
    · rintro ⟨s1, s2, rfl, h1, h2⟩
      have := Matches.starCons ((iha s1).mp h1) h2
      simpa using this
    · intro h
      obtain ⟨s1, s2, rfl, h1, h2⟩ := star_cons_split a c s h
      exact ⟨s1, s2, rfl, (iha s1).mpr h1, h2⟩

/-- **the executable matcher decides the language** -/
theorem accepts_iff (r : Rx) (s : List Char) : accepts r s = true ↔ Matches r s := by
  unfold accepts
  induction s generalizing r with
  | nil => exact nullable_iff r
  | cons c s ih =>
    simp only [derivs]
    rw [ih (deriv c r), deriv_iff]

end NmlVerif.Rx
