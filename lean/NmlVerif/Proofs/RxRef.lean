import NmlVerif.Proofs.RxTime
/-!
Lemmas for the reference-path clause of C19: what `_get_cell_id` (`getCellIdPath`) does on every slash-form string of
the schema's `Nml2PopulationReferencePath` pattern, and the pieces of a match of `refRx`.
-/
namespace NmlVerif.Rx
open NmlVerif.Acc

/-! ### small facts -/

theorem dots_split' (b : List Char) : split '/' ('.' :: '.' :: '/' :: b) = ['.', '.'] :: split '/' b := by
  have := split_append '/' ['.', '.'] b (by decide)
  simpa using this

theorem refTail_cases (more : List (List Char)) (comp : Option (List Char)) (slash : Bool) :
    refTail more comp slash = [] ∨ ∃ t, refTail more comp slash = '/' :: t := by
  cases more with
  | cons d m => right; exact ⟨_, rfl⟩
  | nil =>
    cases comp with
    | some c => right; exact ⟨_, rfl⟩
    | none =>
      cases slash with
      | true => right; exact ⟨[], rfl⟩
      | false => left; rfl

/-- `split` of a segment followed by nothing or by `/…` starts with that segment -/
theorem split_head (a T : List Char) (ha : '/' ∉ a) (hT : T = [] ∨ ∃ t, T = '/' :: t) :
    ∃ rest, split '/' (a ++ T) = a :: rest := by
  rcases hT with rfl | ⟨t, rfl⟩
  · exact ⟨[], by simpa using split_none '/' a ha⟩
  · exact ⟨split '/' t, split_append '/' a t ha⟩

theorem isSpace_of_isIdChar (c : Char) (h : isIdChar c = true) : isSpace c = false := by
  have e : c.val.toNat = c.toNat := rfl
  have eA : 'A'.val.toNat = 65 := rfl
  have eZ : 'Z'.val.toNat = 90 := rfl
  have ea : 'a'.val.toNat = 97 := rfl
  have ez : 'z'.val.toNat = 122 := rfl
  have e0 : '0'.val.toNat = 48 := rfl
  have e9 : '9'.val.toNat = 57 := rfl
  simp only [isIdChar, Char.isAlphanum, Char.isAlpha, Char.isUpper, Char.isLower, Char.isDigit, beq_us, ge_iff_le,
    UInt32.le_iff_toNat_le, Bool.or_eq_true, Bool.and_eq_true, decide_eq_true_eq, e, eA, eZ, ea, ez, e0, e9] at h
  simp only [isSpace]
  generalize c.toNat = n at *
  simp
  omega

/-- `int(<an NmlId>)` is a `ValueError`: the first character is a letter or an underscore -/
theorem intOfStr_nmlId (s : List Char) (h : isNmlId s = true) : intOfStr s = Option.none := by
  have hid := isIdChar_of_isNmlId h
  have hascii : s.map asciiDigit = s := by
    apply map_asciiDigit_id
    intro c hc
    have hc' := hid c hc
    have e : c.val.toNat = c.toNat := rfl
    have eA : 'A'.val.toNat = 65 := rfl
    have eZ : 'Z'.val.toNat = 90 := rfl
    have ea : 'a'.val.toNat = 97 := rfl
    have ez : 'z'.val.toNat = 122 := rfl
    have e0 : '0'.val.toNat = 48 := rfl
    have e9 : '9'.val.toNat = 57 := rfl
    simp only [isIdChar, Char.isAlphanum, Char.isAlpha, Char.isUpper, Char.isLower, Char.isDigit, beq_us, ge_iff_le,
      UInt32.le_iff_toNat_le, Bool.or_eq_true, Bool.and_eq_true, decide_eq_true_eq, e, eA, eZ, ea, ez, e0, e9] at hc'
    omega
  unfold intOfStr
  rw [strip_id s (fun c hc => isSpace_of_isIdChar c (hid c hc)), hascii]
  cases s with
  | nil => rfl
  | cons a r =>
    simp only [isNmlId, Bool.and_eq_true] at h
    have ha : (a.isAlpha || a == '_') = true := h.1
    have h1 : a ≠ '-' := by intro e; subst e; revert ha; decide
    have h2 : a ≠ '+' := by intro e; subst e; revert ha; decide
    simp only [h1, h2, ↓reduceIte]
    have hnn : (String.ofList (a :: r)).isNat = false := by
      cases hb : (String.ofList (a :: r)).isNat with
      | false => rfl
      | true =>
        exfalso
        have := String.isNat_iff.mp hb
        rw [String.toList_ofList] at this
        obtain ⟨_, hall, _, hhead, _⟩ := this
        rcases hall a (by simp) with hd | hu
        · -- a digit is not a letter and not an underscore
          rw [Bool.or_eq_true] at ha
          rcases ha with ha | ha
          · have e : a.val.toNat = a.toNat := rfl
            have eA : 'A'.val.toNat = 65 := rfl
            have eZ : 'Z'.val.toNat = 90 := rfl
            have ea : 'a'.val.toNat = 97 := rfl
            have ez : 'z'.val.toNat = 122 := rfl
            have e0 : '0'.val.toNat = 48 := rfl
            have e9 : '9'.val.toNat = 57 := rfl
            simp only [Char.isAlpha, Char.isUpper, Char.isLower, Char.isDigit, ge_iff_le, UInt32.le_iff_toNat_le,
              Bool.or_eq_true, Bool.and_eq_true, decide_eq_true_eq, e, eA, eZ, ea, ez, e0, e9] at ha hd
            omega
          · have : a = '_' := by simpa using ha
            subst this; revert hd; decide
        · subst hu; simp at hhead
    rw [String.toNat?_eq_none hnn]; rfl

theorem intOfStr_nil : intOfStr [] = Option.none := rfl

theorem not_mem_idChars (s : List Char) (hs : ∀ c ∈ s, isIdChar c = true) (c : Char) (hc : isIdChar c = false) :
    c ∉ s := by
  intro hm; have := hs c hm; simp [hc] at this

/-- no `[` in the tail of a slash form -/
theorem refTail_no_bracket (more : List (List Char)) (comp : Option (List Char)) (slash : Bool)
    (hm : ∀ d ∈ more, isDigits d = true) (hc : ∀ c, comp = some c → isNmlId c = true) :
    '[' ∉ refTail more comp slash := by
  induction more with
  | cons d m ih =>
    simp only [refTail, List.mem_cons, List.mem_append, not_or]
    refine ⟨by decide, not_mem_of_isDigits (hm d (by simp)) '[' (by decide), ih (fun x hx => hm x (by simp [hx]))⟩
  | nil =>
    simp only [refTail, refEnd, List.mem_append, not_or]
    constructor
    · cases comp with
      | none => simp
      | some c =>
        simp only [List.mem_cons, not_or]
        exact ⟨by decide, not_mem_of_isNmlId (hc c rfl) '[' (by decide)⟩
    · cases slash <;> simp

theorem slash_no_bracket (p : RefParts) (h : p.WF) : '[' ∉ p.text := by
  unfold RefParts.text
  simp only [List.mem_append, List.mem_cons, not_or]
  refine ⟨?_, not_mem_of_isNmlId h.pop_id '[' (by decide), by decide,
    not_mem_of_isDigits h.d1_digits '[' (by decide), refTail_no_bracket _ _ _ h.more_digits h.comp_id⟩
  cases p.dots <;> simp

/-- **what `_get_cell_id` does on every slash-form string of the reference pattern** -/
theorem getCellIdPath_slashForm {F : Type} (fs : FloatSem F) (self : Obj F) (p : RefParts) (h : p.WF) :
    getCellIdPath fs self (pstr p.text) = (match p.outcome with
      | .ok n => .ok (.int n)
      | .error e => .error e) := by
  have hpop : '/' ∉ p.pop := not_mem_of_isNmlId h.pop_id '/' (by decide)
  have hd1 : '/' ∉ p.d1 := not_mem_of_isDigits h.d1_digits '/' (by decide)
  unfold getCellIdPath pstr
  rw [pIn_str, contains_single, decide_eq_false (slash_no_bracket p h), pIfElse_false, pSplit_str]
  unfold RefParts.text RefParts.outcome
  cases hdots : p.dots with
  | true =>
    simp only [↓reduceIte, List.cons_append, List.nil_append]
    obtain ⟨rest, hrest⟩ := split_head p.d1 _ hd1 (refTail_cases p.more p.comp p.slash)
    rw [dots_split', split_append _ _ _ hpop, hrest, pIndex_succ, pIndex_succ, pIndex_zero]
    exact pInt_isDigits fs p.d1 h.d1_digits
  | false =>
    simp only [Bool.false_eq_true, ↓reduceIte, List.nil_append]
    rw [split_append _ _ _ hpop]
    cases hmore : p.more with
    | cons d2 m =>
      have hd2 : isDigits d2 = true := h.more_digits d2 (by rw [hmore]; simp)
      have hd2' : '/' ∉ d2 := not_mem_of_isDigits hd2 '/' (by decide)
      obtain ⟨rest, hrest⟩ := split_head d2 _ hd2' (refTail_cases m p.comp p.slash)
      simp only [refTail]
      rw [split_append _ _ _ hd1, hrest, pIndex_succ, pIndex_succ, pIndex_zero]
      exact pInt_isDigits fs d2 hd2
    | nil =>
      simp only [refTail, refEnd]
      cases hcomp : p.comp with
      | none =>
        cases hslash : p.slash with
        | false =>
          simp only [List.append_nil, Bool.false_eq_true, ↓reduceIte, and_self]
          rw [split_none _ _ hd1]
          rfl
        | true =>
          simp only [List.nil_append, ↓reduceIte, reduceCtorEq, and_false]
          rw [split_append _ _ _ hd1, pIndex_succ, pIndex_succ]
          show pInt fs (pIndex 0 (.ok (.strs (split '/' [])))) = _
          simp only [split, pIndex_zero, pInt, intOfStr_nil]
      | some c =>
        have hcid := h.comp_id c hcomp
        have hc' : '/' ∉ c := not_mem_of_isNmlId hcid '/' (by decide)
        simp only [reduceCtorEq, false_and, ↓reduceIte]
        obtain ⟨rest, hrest⟩ : ∃ rest, split '/' (c ++ (if p.slash = true then ['/'] else [])) = c :: rest := by
          apply split_head c _ hc'
          cases p.slash
          · left; rfl
          · right; exact ⟨[], rfl⟩
        rw [List.cons_append, split_append _ _ _ hd1, hrest, pIndex_succ, pIndex_succ, pIndex_zero]
        simp only [pInt, intOfStr_nmlId c hcid]

/-! ### the pieces of a match of `refRx` -/

theorem nmlId_piece (s : List Char) (h : Matches (.seq idHead (.star idChar)) s) : isNmlId s = true := by
  obtain ⟨s1, s2, rfl, h1, h2⟩ := (matches_seq_iff _ _ _).mp h
  obtain ⟨c, rfl, hc⟩ := (matches_set_iff _ _).mp h1
  have h2' := (matches_star_set_iff _ _).mp h2
  simp only [List.singleton_append, isNmlId, Bool.and_eq_true, List.all_eq_true]
  exact ⟨(idHead_mem c).mp hc, fun d hd => (idChar_mem d).mp (h2' d hd)⟩

theorem digits_plus_piece' (s : List Char) (h : Matches (Rx.plus digit) s) : isDigits s = true := by
  obtain ⟨hne, hall⟩ := (matches_plus_set_iff _ _).mp h
  simp only [isDigits, Bool.and_eq_true, Bool.not_eq_true', List.isEmpty_eq_false_iff, List.all_eq_true]
  exact ⟨hne, fun c hc => by have := hall c hc; rwa [digit_mem] at this⟩

theorem index_piece (s : List Char) (h : Matches (.seq (Rx.chr '/') (Rx.plus digit)) s) :
    ∃ d, s = '/' :: d ∧ isDigits d = true := by
  obtain ⟨s1, s2, rfl, h1, h2⟩ := (matches_seq_iff _ _ _).mp h
  rw [(matches_chr_iff _ _).mp h1]
  exact ⟨s2, rfl, digits_plus_piece' _ h2⟩

/-- a run of `/<digits>` segments followed by the end is a `refTail` -/
theorem indices_tail (l : List (List Char)) (hl : ∀ y ∈ l, ∃ d, y = '/' :: d ∧ isDigits d = true)
    (comp : Option (List Char)) (slash : Bool) :
    ∃ more : List (List Char), (∀ d ∈ more, isDigits d = true) ∧
      l.flatten ++ refEnd comp slash = refTail more comp slash := by
  induction l with
  | nil => exact ⟨[], by simp, rfl⟩
  | cons y r ih =>
    obtain ⟨d, rfl, hd⟩ := hl y (by simp)
    obtain ⟨more, hm, he⟩ := ih (fun z hz => hl z (by simp [hz]))
    refine ⟨d :: more, ?_, ?_⟩
    · intro x hx
      rcases List.mem_cons.mp hx with rfl | hx
      · exact hd
      · exact hm x hx
    · simp only [List.flatten_cons, List.cons_append, List.append_assoc, refTail]
      rw [he]

/-- **every string of the schema's reference pattern** is a bracket form `[../]<id>[<digits>]` or a slash form
    (`RefParts`) -/
theorem refRx_parts (s : List Char) (h : Matches refRx s) :
    (∃ (dots : Bool) (pop ds : List Char), isNmlId pop = true ∧ isDigits ds = true ∧ s = bracketPath dots pop ds) ∨
    (∃ p : RefParts, p.WF ∧ s = p.text) := by
  unfold refRx at h
  obtain ⟨a1, r1, rfl, h1, hA⟩ := (matches_seq_iff _ _ _).mp h
  obtain ⟨pop, r2, rfl, hpop, hB⟩ := (matches_seq_iff _ _ _).mp hA
  clear h hA
  have hpid := nmlId_piece _ hpop
  have hdots : ∃ dots : Bool, a1 = if dots then ['.', '.', '/'] else [] := by
    rcases (matches_opt_iff _ _).mp h1 with h1 | h1
    · obtain ⟨x1, x2, rfl, hx1, hx2⟩ := (matches_seq_iff _ _ _).mp h1
      obtain ⟨x3, x4, rfl, hx3, hx4⟩ := (matches_seq_iff _ _ _).mp hx2
      rw [(matches_chr_iff _ _).mp hx1, (matches_chr_iff _ _).mp hx3, (matches_chr_iff _ _).mp hx4]
      exact ⟨true, rfl⟩
    · exact ⟨false, h1⟩
  obtain ⟨dots, rfl⟩ := hdots
  rcases (matches_alt_iff _ _ _).mp hB with hC | hC
  · left
    obtain ⟨b1, b2, rfl, hb1, hb2⟩ := (matches_seq_iff _ _ _).mp hC
    obtain ⟨ds, b3, rfl, hds, hb3⟩ := (matches_seq_iff _ _ _).mp hb2
    rw [(matches_chr_iff _ _).mp hb1, (matches_chr_iff _ _).mp hb3]
    exact ⟨dots, pop, ds, hpid, digits_plus_piece' _ hds, by simp [bracketPath]⟩
  · right
    obtain ⟨idx, r3, rfl, hidx, hD⟩ := (matches_seq_iff _ _ _).mp hC
    obtain ⟨ct, st, rfl, hct, hst⟩ := (matches_seq_iff _ _ _).mp hD
    obtain ⟨x, l, rfl, hx, hl⟩ := (matches_plus_iff _ _).mp hidx
    obtain ⟨d1, rfl, hd1⟩ := index_piece _ hx
    have hend : ∃ (comp : Option (List Char)) (slash : Bool), (∀ c, comp = some c → isNmlId c = true) ∧
        ct ++ st = refEnd comp slash := by
      have hslash : ∃ slash : Bool, st = if slash then ['/'] else [] := by
        rcases (matches_opt_iff _ _).mp hst with hst | hst
        · exact ⟨true, (matches_chr_iff _ _).mp hst⟩
        · exact ⟨false, hst⟩
      obtain ⟨slash, rfl⟩ := hslash
      rcases (matches_opt_iff _ _).mp hct with hct | hct
      · obtain ⟨y1, y2, rfl, hy1, hy2⟩ := (matches_seq_iff _ _ _).mp hct
        rw [(matches_chr_iff _ _).mp hy1]
        exact ⟨some y2, slash, by intro c hc; cases hc; exact nmlId_piece _ hy2, rfl⟩
      · subst hct
        refine ⟨Option.none, slash, ?_, rfl⟩
        intro c hc; cases hc
    obtain ⟨comp, slash, hcid, hce⟩ := hend
    obtain ⟨more, hmore, he⟩ := indices_tail l (fun y hy => index_piece y (hl y hy)) comp slash
    refine ⟨⟨dots, pop, d1, more, comp, slash⟩, ⟨hpid, hd1, hmore, hcid⟩, ?_⟩
    simp only [RefParts.text, List.append_assoc, List.cons_append]
    rw [hce, he]

end NmlVerif.Rx
