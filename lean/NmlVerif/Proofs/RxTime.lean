import NmlVerif.Proofs.Rx
import NmlVerif.Proofs.Accessors
/-!
Lemmas for the delay clause of C19: the exact-rational `float()` of the driver (`Acc.ratOfStr`) reads every number
spelling of the schema's time pattern as the decimal number it denotes (`TimeNum.value`), and the pieces of a match of
`timeRx`.
-/
namespace NmlVerif.Rx
open NmlVerif.Acc

/-! ### character classes -/

theorem digit_mem (c : Char) : (⟨[(48, 57)], false⟩ : CSet).mem c = c.isDigit := by
  simp only [CSet.mem, List.any_cons, List.any_nil, Bool.or_false, Bool.false_and, Char.isDigit]
  have h1 : (48 ≤ c.toNat) ↔ (c.val ≥ 48) := (UInt32.le_iff_toNat_le (a := 48) (b := c.val)).symm
  have h2 : (c.toNat ≤ 57) ↔ (c.val ≤ 57) := (UInt32.le_iff_toNat_le (a := c.val) (b := 57)).symm
  simp only [h1, h2]
  rfl

theorem beq_us (c : Char) : (c == '_') = decide (c.toNat = 95) := by
  by_cases h : c = '_'
  · subst h; rfl
  · have : c.toNat ≠ 95 := fun e => h (Char.toNat_inj.mp e)
    simp [h, this]

theorem idHead_mem (c : Char) :
    (⟨[(97, 122), (65, 90), (95, 95)], false⟩ : CSet).mem c = true ↔ (c.isAlpha || c == '_') = true := by
  have e : c.val.toNat = c.toNat := rfl
  have eA : 'A'.val.toNat = 65 := rfl
  have eZ : 'Z'.val.toNat = 90 := rfl
  have ea : 'a'.val.toNat = 97 := rfl
  have ez : 'z'.val.toNat = 122 := rfl
  simp only [CSet.mem, List.any_cons, List.any_nil, Bool.or_false, Bool.false_and, Char.isAlpha, Char.isUpper,
    Char.isLower, beq_us, ge_iff_le, UInt32.le_iff_toNat_le, Bool.or_eq_true, Bool.and_eq_true, decide_eq_true_eq,
    e, eA, eZ, ea, ez]
  omega

theorem idChar_mem (c : Char) :
    (⟨[(97, 122), (65, 90), (48, 57), (95, 95)], false⟩ : CSet).mem c = true ↔ isIdChar c = true := by
  have e : c.val.toNat = c.toNat := rfl
  have eA : 'A'.val.toNat = 65 := rfl
  have eZ : 'Z'.val.toNat = 90 := rfl
  have ea : 'a'.val.toNat = 97 := rfl
  have ez : 'z'.val.toNat = 122 := rfl
  have e0 : '0'.val.toNat = 48 := rfl
  have e9 : '9'.val.toNat = 57 := rfl
  simp only [CSet.mem, List.any_cons, List.any_nil, Bool.or_false, Bool.false_and, isIdChar, Char.isAlphanum,
    Char.isAlpha, Char.isUpper, Char.isLower, Char.isDigit, beq_us, ge_iff_le, UInt32.le_iff_toNat_le,
    Bool.or_eq_true, Bool.and_eq_true, decide_eq_true_eq, e, eA, eZ, ea, ez, e0, e9]
  omega

theorem space_mem (c : Char) : (⟨[], true⟩ : CSet).mem c = isSpace c := by
  simp [CSet.mem]

theorem expMark_mem (c : Char) : (⟨[(101, 101), (69, 69)], false⟩ : CSet).mem c = true ↔ (c = 'e' ∨ c = 'E') := by
  simp only [CSet.mem, List.any_cons, List.any_nil, Bool.or_false, Bool.false_and, Bool.or_eq_true, Bool.and_eq_true,
    decide_eq_true_eq]
  constructor
  · rintro (h | h)
    · left; exact Char.toNat_inj.mp (by show c.toNat = 101; omega)
    · right; exact Char.toNat_inj.mp (by show c.toNat = 69; omega)
  · rintro (h | h) <;> subst h <;> decide

/-! ### `takeWhile` / `dropWhile` up to the first character that fails -/

theorem takeWhile_stop (p : Char → Bool) (a b : List Char) (ha : ∀ c ∈ a, p c = true)
    (hb : ∀ c ∈ b.head?, p c = false) : (a ++ b).takeWhile p = a ∧ (a ++ b).dropWhile p = b := by
  induction a with
  | nil =>
    cases b with
    | nil => simp
    | cons x r =>
      have hx : p x = false := hb x (by simp)
      simp [List.takeWhile, List.dropWhile, hx]
  | cons x r ih =>
    have hx : p x = true := ha x (by simp)
    have := ih (fun c hc => ha c (by simp [hc]))
    simp [List.takeWhile, List.dropWhile, hx, this.1, this.2]

/-! ### digit strings -/

theorem digitsVal_isDigits (ds : List Char) (h : isDigits ds = true) :
    digitsVal ds = some (decVal ds, ds.length) := by
  have hne : ds ≠ [] := ne_nil_of_isDigits h
  have hd := isDigit_of_isDigits h
  have hs : String.ofList ds ≠ "" := by
    intro e
    have : (String.ofList ds).toList = "".toList := by rw [e]
    rw [String.toList_ofList] at this
    exact hne this
  have hnat : (String.ofList ds).isNat = true :=
    String.isNat_of_isDigit hs (by rw [String.toList_ofList]; exact hd)
  have hf : ds.filter (fun c => c != '_') = ds := by
    apply List.filter_eq_self.mpr
    intro c hc
    have := hd c hc
    have : c ≠ '_' := by intro e; subst e; revert this; decide
    simp [this]
  have hf2 : ds.filter Char.isDigit = ds := List.filter_eq_self.mpr (fun c hc => hd c hc)
  unfold digitsVal
  have he : ds.isEmpty = false := by cases ds <;> simp_all
  rw [he, String.toNat?_eq_some_ofDigitChars hnat, String.toList_ofList, hf, hf2]
  rfl

theorem digitsVal_nil : digitsVal [] = Option.none := by
  simp [digitsVal]

theorem isDigits_cons_head {c : Char} {t : List Char} (h : isDigits (c :: t) = true) : c.isDigit = true :=
  isDigit_of_isDigits h c (by simp)

/-! ### `float()` of the driver on the number part of a time quantity -/

theorem digit_ne (c d : Char) (hc : c.isDigit = true) (hd : d.isDigit = false) : c ≠ d := by
  intro e; subst e; simp [hd] at hc

theorem text_eq (p : TimeNum) : p.text = (if p.neg then ['-'] else []) ++ (mantText p.ip p.fd ++ expText p.ex) := by
  rfl

theorem mantOf_text (ip : List Char) (fd : Option (List Char)) (hi : ∀ c ∈ ip, c.isDigit = true)
    (hf : ∀ d, fd = some d → isDigits d = true) :
    mantOf (mantText ip fd) =
      if ip = [] ∧ fd = Option.none then Option.none
      else some ((decVal ip : Rat) + fracOf fd) := by
  have hip : ∀ c ∈ ip, (c != '.') = true := by
    intro c hc
    have := digit_ne c '.' (hi c hc) (by decide)
    simp [this]
  unfold mantOf mantText
  cases fd with
  | none =>
    have := takeWhile_stop (fun c => c != '.') ip [] hip (by simp)
    simp only [List.append_nil] at this ⊢
    rw [this.1, this.2]
    cases ip with
    | nil => simp [digitsVal_nil]
    | cons a r =>
      have hd : isDigits (a :: r) = true := by
        simp only [isDigits, List.isEmpty_cons, Bool.not_false, Bool.true_and, List.all_eq_true]
        exact hi
      simp [digitsVal_isDigits _ hd, Rat.add_zero, fracOf]
  | some d =>
    have hd := hf d rfl
    have := takeWhile_stop (fun c => c != '.') ip ('.' :: d) hip (by simp)
    rw [this.1, this.2]
    have hdne : d.isEmpty = false := by
      have := ne_nil_of_isDigits hd
      cases d <;> simp_all
    cases ip with
    | nil =>
      have h0 : ((decVal [] : Nat) : Rat) = 0 := by rfl
      simp [digitsVal_isDigits _ hd, h0, Rat.zero_add, fracOf]
    | cons a r =>
      have hd' : isDigits (a :: r) = true := by
        simp only [isDigits, List.isEmpty_cons, Bool.not_false, Bool.true_and, List.all_eq_true]
        exact hi
      simp [digitsVal_isDigits _ hd, digitsVal_isDigits _ hd', hdne, fracOf]

theorem expDigits_text (m : Bool) (d : List Char) (hd : isDigits d = true) :
    expDigits ((if m then ['-'] else []) ++ d) = some (if m then - (decVal d : Int) else (decVal d : Int)) := by
  cases m with
  | true =>
    simp [expDigits, digitsVal_isDigits _ hd]
  | false =>
    cases d with
    | nil => simp [isDigits] at hd
    | cons c t =>
      have hc := isDigits_cons_head hd
      have h1 : c ≠ '-' := digit_ne c '-' hc (by decide)
      have h2 : c ≠ '+' := digit_ne c '+' hc (by decide)
      simp [expDigits, h1, h2, digitsVal_isDigits _ hd]

theorem mantText_notE (ip : List Char) (fd : Option (List Char)) (hi : ∀ c ∈ ip, c.isDigit = true)
    (hf : ∀ d, fd = some d → isDigits d = true) :
    ∀ c ∈ mantText ip fd, (c != 'e' && c != 'E') = true := by
  intro c hc
  have key : c.isDigit = true ∨ c = '.' := by
    unfold mantText at hc
    rcases List.mem_append.mp hc with hc | hc
    · exact Or.inl (hi c hc)
    · cases fd with
      | none => simp at hc
      | some d =>
        rcases List.mem_cons.mp hc with rfl | hc
        · exact Or.inr rfl
        · exact Or.inl (isDigit_of_isDigits (hf d rfl) c hc)
  rcases key with h | rfl
  · have h1 := digit_ne c 'e' h (by decide)
    have h2 := digit_ne c 'E' h (by decide)
    simp [h1, h2]
  · decide

/-- the unsigned part of a number spelling is read as the decimal it denotes -/
theorem ratOfUnsigned_text (p : TimeNum) (h : p.WF) :
    ratOfUnsigned (mantText p.ip p.fd ++ expText p.ex) =
      if p.ip = [] ∧ p.fd = Option.none then Option.none
      else some (((decVal p.ip : Rat) + fracOf p.fd) * pow10 p.expo) := by
  have hstop : ∀ c ∈ (expText p.ex).head?, (c != 'e' && c != 'E') = false := by
    intro c hc
    unfold expText at hc
    cases hex : p.ex with
    | none => rw [hex] at hc; simp at hc
    | some t =>
      obtain ⟨e, m, d⟩ := t
      rw [hex] at hc
      simp only [List.head?_cons, Option.mem_def, Option.some.injEq] at hc
      subst hc
      rcases (h.ex_ok e m d hex).1 with rfl | rfl <;> decide
  have hs := takeWhile_stop (fun c => c != 'e' && c != 'E') _ _ (mantText_notE p.ip p.fd h.ip_digits h.fd_digits) hstop
  unfold ratOfUnsigned
  simp only [hs.1, hs.2, mantOf_text p.ip p.fd h.ip_digits h.fd_digits]
  have hexp : expoOf (expText p.ex) = some p.expo := by
    unfold expoOf expText TimeNum.expo
    cases hex : p.ex with
    | none => rfl
    | some t =>
      obtain ⟨e, m, d⟩ := t
      simp only
      exact expDigits_text m d (h.ex_ok e m d hex).2
  rw [hexp]
  by_cases hc : p.ip = [] ∧ p.fd = Option.none
  · simp [hc]
  · simp [hc]

theorem text_chars (p : TimeNum) (h : p.WF) : ∀ c ∈ p.text, isTimeNumChar c = true := by
  intro c hc
  unfold TimeNum.text mantText expText at hc
  simp only [List.mem_append] at hc
  rcases hc with hc | (hc | hc) | hc
  · cases hn : p.neg <;> rw [hn] at hc <;> simp at hc
    subst hc; decide
  · exact isTimeNumChar_of_isDigit c (h.ip_digits c hc)
  · cases hf : p.fd with
    | none => rw [hf] at hc; simp at hc
    | some d =>
      rw [hf] at hc
      rcases List.mem_cons.mp hc with rfl | hc
      · decide
      · exact isTimeNumChar_of_isDigit c (isDigit_of_isDigits (h.fd_digits d hf) c hc)
  · cases hx : p.ex with
    | none => rw [hx] at hc; simp at hc
    | some t =>
      obtain ⟨e, m, d⟩ := t
      rw [hx] at hc
      simp only [List.mem_cons, List.mem_append] at hc
      rcases hc with rfl | hc | hc
      · rcases (h.ex_ok _ m d hx).1 with rfl | rfl <;> decide
      · cases m <;> simp at hc
        subst hc; decide
      · exact isTimeNumChar_of_isDigit c (isDigit_of_isDigits (h.ex_ok e m d hx).2 c hc)

/-- **the driver's `float()` reads every number spelling of the time pattern as the decimal number it denotes** -/
theorem ratOfStr_text (p : TimeNum) (h : p.WF) : ratOfStr p.text = p.value := by
  have hstrip : strip p.text = p.text :=
    strip_id _ (fun c hc => isSpace_of_isTimeNumChar c (text_chars p h c hc))
  have hascii : (p.text).map asciiDigit = p.text := by
    apply map_asciiDigit_id
    intro c hc
    have := text_chars p h c hc
    simp only [isTimeNumChar, Bool.or_eq_true, beq_iff_eq] at this
    rcases this with (((h1 | h1) | h1) | h1) | h1
    · exact ascii_of_isDigit c h1
    all_goals (subst h1; decide)
  unfold ratOfStr
  rw [hstrip, hascii, text_eq]
  have hu := ratOfUnsigned_text p h
  cases hn : p.neg with
  | true =>
    simp only [↓reduceIte, List.cons_append, List.nil_append]
    rw [hu]
    unfold TimeNum.value
    split <;> simp [hn]
  | false =>
    simp only [Bool.false_eq_true, ↓reduceIte, List.nil_append]
    -- the unsigned text does not start with a sign
    have hhead : ∀ c r, mantText p.ip p.fd ++ expText p.ex = c :: r → c ≠ '-' ∧ c ≠ '+' := by
      intro c r hcr
      have hc : isTimeNumChar c = true ∧ c ≠ '-' := by
        have hmem : c ∈ mantText p.ip p.fd ++ expText p.ex := by rw [hcr]; simp
        -- first character: a digit, the point, or the exponent mark
        unfold mantText expText at hcr
        cases hip : p.ip with
        | cons a t =>
          rw [hip] at hcr
          simp only [List.cons_append, List.cons.injEq] at hcr
          have := h.ip_digits a (by rw [hip]; simp)
          rw [← hcr.1]
          exact ⟨isTimeNumChar_of_isDigit a this, digit_ne a '-' this (by decide)⟩
        | nil =>
          rw [hip] at hcr
          cases hf : p.fd with
          | some d =>
            rw [hf] at hcr
            simp only [List.nil_append, List.cons_append, List.cons.injEq] at hcr
            rw [← hcr.1]; exact ⟨by decide, by decide⟩
          | none =>
            rw [hf] at hcr
            cases hx : p.ex with
            | none => rw [hx] at hcr; simp at hcr
            | some t =>
              obtain ⟨e, m, d⟩ := t
              rw [hx] at hcr
              simp only [List.nil_append, List.cons.injEq] at hcr
              rw [← hcr.1]
              rcases (h.ex_ok e m d hx).1 with rfl | rfl <;> exact ⟨by decide, by decide⟩
      refine ⟨hc.2, ?_⟩
      intro e; subst e
      have := hc.1
      revert this; decide
    cases hut : mantText p.ip p.fd ++ expText p.ex with
    | nil =>
      -- no characters at all: `float("")`
      have hip : p.ip = [] := by
        unfold mantText at hut
        cases hi : p.ip with
        | nil => rfl
        | cons a t => rw [hi] at hut; simp at hut
      have hfd : p.fd = Option.none := by
        unfold mantText at hut
        rw [hip] at hut
        cases hf : p.fd with
        | none => rfl
        | some d => rw [hf] at hut; simp at hut
      unfold TimeNum.value
      simp [hip, hfd]
    | cons c r =>
      obtain ⟨h1, h2⟩ := hhead c r hut
      simp only [h1, h2, ↓reduceIte]
      rw [← hut, hu]
      unfold TimeNum.value
      split <;> simp [hn]

end NmlVerif.Rx
