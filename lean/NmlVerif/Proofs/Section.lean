import NmlVerif.Model.Section
import Std.Data.String.ToNat
/-!
Helper lemmas for C16 (`Props/C16.lean`).  Core Lean only.

A. adjacency dictionary = children lists; `getSegment`; the implied proximal (`Implied`) and
   `actualProximal`; refinement of a segment list by making implied proximals explicit.
B. the tree an adjacency dictionary unfolds to (`Repr`), reachability, the chains `first`/`rest`.
C. `sectD` / `sectKids` on a tree: closed form of the result.
D. generated names, reorder and optimise passes, `run`.
-/
namespace NmlVerif.Section

/-! ## A. adjacency -/

/-- `none` for an empty list (a dict has no entry), `some l` otherwise -/
def enc (l : List Nat) : Option (List Nat) := if l = [] then none else some l

def isChildOf (p : Nat) (s : Seg) : Bool :=
  match s.parent with
  | some (q, _) => q == p
  | none => false

/-- ids of the segments whose parent is `p`, in document order -/
def childrenOf (segs : List Seg) (p : Nat) : List Nat := (segs.filter (isChildOf p)).map (·.id)

theorem lookup_adjInsert (adj : Adj) (p c q : Nat) :
    lookup (adjInsert adj p c) q = if q = p then some ((lookup adj p).getD [] ++ [c]) else lookup adj q := by
  induction adj with
  | nil =>
    simp only [adjInsert, lookup]
    by_cases h : q = p
    · subst h; simp
    · have : ¬ p = q := fun e => h e.symm
      simp [h, this]
  | cons e r ih =>
    obtain ⟨k, v⟩ := e
    simp only [adjInsert]
    by_cases hk : k = p
    · subst hk
      simp only [↓reduceIte, lookup]
      by_cases h : q = k
      · subst h; simp
      · have : ¬ k = q := fun e => h e.symm
        simp [h, this]
    · simp only [hk, ↓reduceIte, lookup]
      by_cases hq : k = q
      · subst hq
        have : ¬ k = p := hk
        simp [this]
      · simp only [hq, ↓reduceIte, ih]

theorem enc_append_singleton (l : List Nat) (c : Nat) : some ((enc l).getD [] ++ [c]) = enc (l ++ [c]) := by
  unfold enc
  by_cases h : l = []
  · subst h; simp
  · simp [h]

theorem lookup_foldl_adjStep (l : List Seg) : ∀ (acc : Adj) (cs0 : Nat → List Nat),
    (∀ p, lookup acc p = enc (cs0 p)) →
    ∀ p, lookup (l.foldl adjStep acc) p = enc (cs0 p ++ childrenOf l p) := by
  induction l with
  | nil => intro acc cs0 h p; simp [childrenOf, h]
  | cons s r ih =>
    intro acc cs0 h p
    simp only [List.foldl_cons]
    have key : ∀ q, lookup (adjStep acc s) q = enc (cs0 q ++ (if isChildOf q s then [s.id] else [])) := by
      intro q
      unfold adjStep isChildOf
      cases hp : s.parent with
      | none => simp [h]
      | some pf =>
        obtain ⟨pp, f⟩ := pf
        simp only [lookup_adjInsert, h]
        by_cases hq : q = pp
        · subst hq
          simp [enc_append_singleton]
        · have : ¬ pp = q := fun e => hq e.symm
          simp [hq, this]
    have := ih (adjStep acc s) (fun q => cs0 q ++ (if isChildOf q s then [s.id] else [])) key p
    rw [this]
    congr 1
    simp only [childrenOf, List.filter_cons]
    by_cases hc : isChildOf p s <;> simp [hc]

/-- the adjacency dictionary lists, for every parent id, its children in document order -/
theorem lookup_adjacency (segs : List Seg) (p : Nat) : lookup (adjacency segs) p = enc (childrenOf segs p) := by
  have := lookup_foldl_adjStep segs [] (fun _ => []) (by intro p; simp [lookup, enc]) p
  simpa [adjacency] using this

theorem mem_childrenOf {segs : List Seg} {p c : Nat} :
    c ∈ childrenOf segs p ↔ ∃ s ∈ segs, s.id = c ∧ ∃ f, s.parent = some (p, f) := by
  simp only [childrenOf, List.mem_map, List.mem_filter]
  constructor
  · rintro ⟨s, ⟨hs, hc⟩, rfl⟩
    refine ⟨s, hs, rfl, ?_⟩
    unfold isChildOf at hc
    cases hp : s.parent with
    | none => simp [hp] at hc
    | some pf =>
      obtain ⟨q, f⟩ := pf
      simp only [hp, beq_iff_eq] at hc
      subst hc
      exact ⟨f, rfl⟩
  · rintro ⟨s, hs, rfl, f, hp⟩
    exact ⟨s, ⟨hs, by simp [isChildOf, hp]⟩, rfl⟩

/-! ### `getSegment` -/

theorem getSegment_some {segs : List Seg} {i : Nat} {s : Seg} (h : getSegment segs i = some s) :
    s.id = i ∧ s ∈ segs := by
  unfold getSegment at h
  have h1 := List.find?_some h
  have h2 := List.mem_of_find?_eq_some h
  exact ⟨by simpa using h1, h2⟩

theorem getSegment_isSome_of_mem {segs : List Seg} {s : Seg} (h : s ∈ segs) : ∃ s', getSegment segs s.id = some s' := by
  unfold getSegment
  cases hf : segs.find? (fun x => x.id == s.id) with
  | some s' => exact ⟨s', rfl⟩
  | none =>
    rw [List.find?_eq_none] at hf
    have := hf s h
    simp at this

theorem getSegment_of_mem_nodup {segs : List Seg} (hnd : (segs.map (·.id)).Nodup) {s : Seg} (h : s ∈ segs) :
    getSegment segs s.id = some s := by
  induction segs with
  | nil => cases h
  | cons a r ih =>
    simp only [List.map_cons, List.nodup_cons] at hnd
    unfold getSegment
    simp only [List.find?_cons]
    by_cases e : a.id = s.id
    · simp only [e, beq_self_eq_true]
      rcases List.mem_cons.1 h with rfl | hr
      · rfl
      · exact absurd (List.mem_map.2 ⟨s, hr, e.symm⟩) hnd.1
    · have : (a.id == s.id) = false := by simpa using e
      simp only [this]
      rcases List.mem_cons.1 h with rfl | hr
      · exact absurd rfl e
      · exact ih hnd.2 hr

/-! ### the implied proximal -/

theorem lerp_one (a b : Pt) : lerp 1 a b = b := by
  cases b; simp only [lerp, Pt.mk.injEq]
  refine ⟨?_, ?_, ?_, ?_⟩ <;> grind

theorem lerp_zero (a b : Pt) : lerp 0 a b = a := by
  cases a; simp only [lerp, Pt.mk.injEq]
  refine ⟨?_, ?_, ?_, ?_⟩ <;> grind

/-- the proximal point of segment `i` as the morphology defines it: the explicit one, or the point at
    `fractionAlong` between the parent's (implied) proximal and the parent's distal -/
inductive Implied (segs : List Seg) : Nat → Pt → Prop
  | explicit {i : Nat} {s : Seg} {p : Pt} : getSegment segs i = some s → s.prox = some p → Implied segs i p
  | atEnd {i : Nat} {s : Seg} {pid : Nat} {ps : Seg} : getSegment segs i = some s → s.prox = none →
      s.parent = some (pid, 1) → getSegment segs pid = some ps → Implied segs i ps.dist
  | along {i : Nat} {s : Seg} {pid : Nat} {f : Rat} {ps : Seg} {pp : Pt} : getSegment segs i = some s →
      s.prox = none → s.parent = some (pid, f) → getSegment segs pid = some ps → Implied segs pid pp →
      Implied segs i (lerp f pp ps.dist)

theorem Implied.functional {segs : List Seg} {i : Nat} {p : Pt} (h : Implied segs i p) :
    ∀ {p'}, Implied segs i p' → p = p' := by
  induction h with
  | explicit hs hp =>
    intro p' h'
    cases h' with
    | explicit hs' hp' => rw [hs] at hs'; cases hs'; rw [hp] at hp'; cases hp'; rfl
    | atEnd hs' hp' => rw [hs] at hs'; cases hs'; rw [hp] at hp'; cases hp'
    | along hs' hp' => rw [hs] at hs'; cases hs'; rw [hp] at hp'; cases hp'
  | atEnd hs hp hpar hps =>
    intro p' h'
    cases h' with
    | explicit hs' hp' => rw [hs] at hs'; cases hs'; rw [hp] at hp'; cases hp'
    | atEnd hs' _ hpar' hps' =>
      rw [hs] at hs'; cases hs'; rw [hpar] at hpar'; cases hpar'; rw [hps] at hps'; cases hps'; rfl
    | along hs' _ hpar' hps' _ =>
      rw [hs] at hs'; cases hs'; rw [hpar] at hpar'; cases hpar'; rw [hps] at hps'; cases hps'
      rw [lerp_one]
  | along hs hp hpar hps _ ih =>
    intro p' h'
    cases h' with
    | explicit hs' hp' => rw [hs] at hs'; cases hs'; rw [hp] at hp'; cases hp'
    | atEnd hs' _ hpar' hps' =>
      rw [hs] at hs'; cases hs'; rw [hpar] at hpar'; cases hpar'; rw [hps] at hps'; cases hps'
      rw [lerp_one]
    | along hs' _ hpar' hps' hpp' =>
      rw [hs] at hs'; cases hs'; rw [hpar] at hpar'; cases hpar'; rw [hps] at hps'; cases hps'
      rw [ih hpp']

/-- `get_actual_proximal` computes the implied proximal (its special cases for 0 and 1 agree with the
    interpolation formula) -/
theorem actualProximal_sound (segs : List Seg) : ∀ (k i : Nat) (p : Pt),
    actualProximal segs k i = .ok p → Implied segs i p := by
  intro k
  induction k with
  | zero => intro i p h; simp [actualProximal] at h
  | succ k ih =>
    intro i p h
    unfold actualProximal at h
    cases hs : getSegment segs i with
    | none => simp [hs] at h
    | some s =>
      simp only [hs] at h
      cases hp : s.prox with
      | some q => simp only [hp] at h; cases h; exact .explicit hs hp
      | none =>
        simp only [hp] at h
        cases hpar : s.parent with
        | none => simp [hpar] at h
        | some pf =>
          obtain ⟨pid, f⟩ := pf
          simp only [hpar] at h
          cases hps : getSegment segs pid with
          | none => simp [hps] at h
          | some ps =>
            simp only [hps] at h
            by_cases f1 : f = 1
            · subst f1
              simp only [↓reduceIte] at h
              cases h
              exact .atEnd hs hp hpar hps
            · simp only [f1, ↓reduceIte] at h
              by_cases f0 : f = 0
              · subst f0
                simp only [↓reduceIte] at h
                have := Implied.along hs hp hpar hps (ih pid p h)
                rwa [lerp_zero] at this
              · simp only [f0, ↓reduceIte] at h
                cases hr : actualProximal segs k pid with
                | error e => simp [hr] at h
                | ok pp =>
                  simp only [hr] at h
                  cases h
                  exact .along hs hp hpar hps (ih pid pp hr)

/-- more frames never change a successful answer -/
theorem actualProximal_mono (segs : List Seg) : ∀ (k i : Nat) (p : Pt),
    actualProximal segs k i = .ok p → ∀ k', k ≤ k' → actualProximal segs k' i = .ok p := by
  intro k
  induction k with
  | zero => intro i p h; simp [actualProximal] at h
  | succ k ih =>
    intro i p h k' hk
    obtain ⟨k'', rfl⟩ : ∃ k'', k' = k'' + 1 := ⟨k' - 1, by omega⟩
    have hk2 : k ≤ k'' := by omega
    unfold actualProximal at h ⊢
    cases hs : getSegment segs i with
    | none => simp [hs] at h
    | some s =>
      simp only [hs] at h ⊢
      cases hp : s.prox with
      | some q => simpa [hp] using h
      | none =>
        simp only [hp] at h ⊢
        cases hpar : s.parent with
        | none => simp [hpar] at h
        | some pf =>
          obtain ⟨pid, f⟩ := pf
          simp only [hpar] at h ⊢
          cases hps : getSegment segs pid with
          | none => simp [hps] at h
          | some ps =>
            simp only [hps] at h ⊢
            by_cases f1 : f = 1
            · simpa [f1] using h
            · simp only [f1, ↓reduceIte] at h ⊢
              by_cases f0 : f = 0
              · simp only [f0, ↓reduceIte] at h ⊢
                exact ih pid p h k'' hk2
              · simp only [f0, ↓reduceIte] at h ⊢
                cases hr : actualProximal segs k pid with
                | error e => simp [hr] at h
                | ok pp =>
                  simp only [hr] at h
                  rw [ih pid pp hr k'' hk2]
                  exact h

/-! ### making implied proximals explicit -/

inductive Rel2 {α : Type} (R : α → α → Prop) : List α → List α → Prop
  | nil : Rel2 R [] []
  | cons {a b : α} {l l' : List α} : R a b → Rel2 R l l' → Rel2 R (a :: l) (b :: l')

/-- `s'` is `s`, possibly with its implied proximal (w.r.t. the original cell `base`) made explicit -/
def SegRel (base : List Seg) (s s' : Seg) : Prop :=
  s'.id = s.id ∧ s'.parent = s.parent ∧ s'.dist = s.dist ∧
  (s'.prox = s.prox ∨ (s.prox = none ∧ ∃ q, s'.prox = some q ∧ Implied base s.id q))

/-- `segs'` is `base`, segment by segment, with some implied proximals made explicit and nothing else
    changed: same segments in the same order, same ids, parents, fractions, distal points -/
def Refines (base segs' : List Seg) : Prop := Rel2 (SegRel base) base segs'

theorem rel2_refl (base : List Seg) : ∀ l : List Seg, Rel2 (SegRel base) l l
  | [] => .nil
  | _ :: l => .cons ⟨rfl, rfl, rfl, Or.inl rfl⟩ (rel2_refl base l)

theorem Refines.refl (base : List Seg) : Refines base base := rel2_refl base base

theorem rel2_getSegment_fwd {base : List Seg} {l l' : List Seg} (h : Rel2 (SegRel base) l l') (i : Nat) :
    ∀ s, getSegment l i = some s → ∃ s', getSegment l' i = some s' ∧ SegRel base s s' := by
  induction h with
  | nil => intro s hs; simp [getSegment] at hs
  | @cons a b l l' hab _ ih =>
    intro s hs
    unfold getSegment at hs ⊢
    simp only [List.find?_cons] at hs ⊢
    rw [hab.1]
    by_cases e : a.id = i
    · simp only [e, beq_self_eq_true] at hs ⊢
      cases hs
      exact ⟨b, rfl, hab⟩
    · have : (a.id == i) = false := by simpa using e
      simp only [this] at hs ⊢
      exact ih s hs

theorem rel2_getSegment_bwd {base : List Seg} {l l' : List Seg} (h : Rel2 (SegRel base) l l') (i : Nat) :
    ∀ s', getSegment l' i = some s' → ∃ s, getSegment l i = some s ∧ SegRel base s s' := by
  induction h with
  | nil => intro s hs; simp [getSegment] at hs
  | @cons a b l l' hab _ ih =>
    intro s' hs
    unfold getSegment at hs ⊢
    simp only [List.find?_cons] at hs ⊢
    rw [hab.1] at hs
    by_cases e : a.id = i
    · simp only [e, beq_self_eq_true] at hs ⊢
      cases hs
      exact ⟨a, rfl, hab⟩
    · have : (a.id == i) = false := by simpa using e
      simp only [this] at hs ⊢
      exact ih s' hs

theorem Refines.implied_iff {base segs' : List Seg} (h : Refines base segs') (i : Nat) (p : Pt) :
    Implied base i p ↔ Implied segs' i p := by
  constructor
  · intro hi
    induction hi with
    | @explicit i s p hs hp =>
      obtain ⟨s', hs', _, _, _, hx⟩ := rel2_getSegment_fwd h i s hs
      rcases hx with hx | ⟨hn, _⟩
      · exact .explicit hs' (by rw [hx, hp])
      · rw [hp] at hn; cases hn
    | @atEnd i s pid ps hs hp hpar hps =>
      obtain ⟨s', hs', _, hpar', _, hx⟩ := rel2_getSegment_fwd h i s hs
      obtain ⟨ps', hps', _, _, hd, _⟩ := rel2_getSegment_fwd h pid ps hps
      rcases hx with hx | ⟨_, q, hq, hiq⟩
      · have := Implied.atEnd hs' (by rw [hx, hp]) (by rw [hpar', hpar]) hps'
        rwa [hd] at this
      · rw [(getSegment_some hs).1] at hiq
        have e := (Implied.atEnd hs hp hpar hps).functional hiq
        rw [e]
        exact .explicit hs' hq
    | @along i s pid f ps pp hs hp hpar hps hpp ih =>
      obtain ⟨s', hs', _, hpar', _, hx⟩ := rel2_getSegment_fwd h i s hs
      obtain ⟨ps', hps', _, _, hd, _⟩ := rel2_getSegment_fwd h pid ps hps
      rcases hx with hx | ⟨_, q, hq, hiq⟩
      · have := Implied.along hs' (by rw [hx, hp]) (by rw [hpar', hpar]) hps' ih
        rwa [hd] at this
      · rw [(getSegment_some hs).1] at hiq
        have e := (Implied.along hs hp hpar hps hpp).functional hiq
        rw [e]
        exact .explicit hs' hq
  · intro hi
    induction hi with
    | @explicit i s' p hs' hp' =>
      obtain ⟨s, hs, _, _, _, hx⟩ := rel2_getSegment_bwd h i s' hs'
      rcases hx with hx | ⟨_, q, hq, hiq⟩
      · exact .explicit hs (by rw [← hx, hp'])
      · rw [hp'] at hq; cases hq
        rwa [(getSegment_some hs).1] at hiq
    | @atEnd i s' pid ps' hs' hp' hpar' hps' =>
      obtain ⟨s, hs, _, hpar, _, hx⟩ := rel2_getSegment_bwd h i s' hs'
      obtain ⟨ps, hps, _, _, hd, _⟩ := rel2_getSegment_bwd h pid ps' hps'
      rcases hx with hx | ⟨_, q, hq, _⟩
      · have := Implied.atEnd hs (by rw [← hx, hp']) (by rw [← hpar, hpar']) hps
        rwa [← hd] at this
      · rw [hp'] at hq; cases hq
    | @along i s' pid f ps' pp hs' hp' hpar' hps' _ ih =>
      obtain ⟨s, hs, _, hpar, _, hx⟩ := rel2_getSegment_bwd h i s' hs'
      obtain ⟨ps, hps, _, _, hd, _⟩ := rel2_getSegment_bwd h pid ps' hps'
      rcases hx with hx | ⟨_, q, hq, _⟩
      · have := Implied.along hs (by rw [← hx, hp']) (by rw [← hpar, hpar']) hps ih
        rwa [← hd] at this
      · rw [hp'] at hq; cases hq

/-- a successful `get_actual_proximal` stays successful, with the same answer and the same number of
    frames, after implied proximals were made explicit -/
theorem Refines.ap {base segs' : List Seg} (h : Refines base segs') : ∀ (k i : Nat) (p : Pt),
    actualProximal base k i = .ok p → actualProximal segs' k i = .ok p := by
  intro k
  induction k with
  | zero => intro i p hk; simp [actualProximal] at hk
  | succ k ih =>
    intro i p hk
    have hsound := actualProximal_sound base (k + 1) i p hk
    unfold actualProximal at hk ⊢
    cases hs : getSegment base i with
    | none => simp [hs] at hk
    | some s =>
      obtain ⟨s', hs', _, hpar', _, hx⟩ := rel2_getSegment_fwd h i s hs
      simp only [hs] at hk
      simp only [hs']
      rcases hx with hx | ⟨hn, q, hq, hiq⟩
      · rw [hx]
        cases hp : s.prox with
        | some q => simpa [hp] using hk
        | none =>
          simp only [hp] at hk ⊢
          rw [hpar']
          cases hpar : s.parent with
          | none => simp [hpar] at hk
          | some pf =>
            obtain ⟨pid, f⟩ := pf
            simp only [hpar] at hk ⊢
            cases hps : getSegment base pid with
            | none => simp [hps] at hk
            | some ps =>
              obtain ⟨ps', hps', _, _, hd, _⟩ := rel2_getSegment_fwd h pid ps hps
              simp only [hps] at hk
              simp only [hps', hd]
              by_cases f1 : f = 1
              · simpa [f1] using hk
              · simp only [f1, ↓reduceIte] at hk ⊢
                by_cases f0 : f = 0
                · simp only [f0, ↓reduceIte] at hk ⊢
                  exact ih pid p hk
                · simp only [f0, ↓reduceIte] at hk ⊢
                  cases hr : actualProximal base k pid with
                  | error e => simp [hr] at hk
                  | ok pp =>
                    simp only [hr] at hk
                    rw [ih pid pp hr]
                    exact hk
      · rw [(getSegment_some hs).1] at hiq
        rw [hq, hsound.functional hiq]

theorem getSegment_setProx (l : List Seg) (c x : Nat) (p : Pt) :
    getSegment (setProx l c p) x =
      if x = c then (getSegment l c).map (fun s => { s with prox := some p }) else getSegment l x := by
  induction l with
  | nil => simp [setProx, getSegment]
  | cons a r ih =>
    unfold getSegment at ih ⊢
    simp only [setProx]
    by_cases e : a.id = c
    · simp only [e, ↓reduceIte, List.find?_cons]
      by_cases hx : x = c
      · subst hx; simp [e]
      · have : (c == x) = false := by simpa using fun h => hx h.symm
        simp [hx, this]
    · simp only [e, ↓reduceIte, List.find?_cons]
      by_cases hx : x = c
      · subst hx
        have : (a.id == x) = false := by simpa using e
        simp only [this, ih, ↓reduceIte]
      · by_cases ha : a.id = x
        · simp [ha, hx]
        · have : (a.id == x) = false := by simpa using ha
          simp only [this, ih, hx, ↓reduceIte]

theorem rel2_setProx {base : List Seg} {c : Nat} {p : Pt} (hp : Implied base c p) :
    ∀ {l l1 : List Seg}, (∀ a ∈ l, getSegment base a.id = some a) → Rel2 (SegRel base) l l1 →
      Rel2 (SegRel base) l (setProx l1 c p) := by
  intro l l1 hl h
  induction h with
  | nil => exact .nil
  | @cons a b l l1 hab hr ih =>
    simp only [setProx]
    have ha := hl a (by simp)
    by_cases e : b.id = c
    · rw [if_pos e]
      refine .cons ?_ hr
      obtain ⟨hid, hpar, hd, hx⟩ := hab
      have hac : a.id = c := by rw [← hid, e]
      refine ⟨hid, hpar, hd, ?_⟩
      rcases hx with hx | ⟨hn, q, hq, hiq⟩
      · cases hpa : a.prox with
        | some q =>
          left
          have : Implied base c q := by rw [← hac]; exact .explicit ha hpa
          rw [hp.functional this]
        | none =>
          right
          exact ⟨rfl, p, rfl, by rw [hac]; exact hp⟩
      · right
        exact ⟨hn, p, rfl, by rw [hac]; exact hp⟩
    · rw [if_neg e]
      exact .cons hab (ih (fun x hx => hl x (by simp [hx])))

/-- one step of the code: `seg = get_segment(c); seg.proximal = get_actual_proximal(c)` keeps `Refines` -/
theorem Refines.step {base segs1 : List Seg} (hnd : (base.map (·.id)).Nodup) (h : Refines base segs1)
    {c k : Nat} {p : Pt} (hap : actualProximal segs1 k c = .ok p) : Refines base (setProx segs1 c p) := by
  have h1 : Implied segs1 c p := actualProximal_sound segs1 k c p hap
  have h0 : Implied base c p := (h.implied_iff c p).2 h1
  exact rel2_setProx h0 (fun a ha => getSegment_of_mem_nodup hnd ha) h

/-- segment `c` has an explicit proximal -/
def HasProx (segs : List Seg) (c : Nat) : Prop := ∃ s p, getSegment segs c = some s ∧ s.prox = some p

theorem HasProx.setProx_self {l : List Seg} {c : Nat} {s : Seg} (hs : getSegment l c = some s) (p : Pt) :
    HasProx (setProx l c p) c := by
  refine ⟨{ s with prox := some p }, p, ?_, rfl⟩
  rw [getSegment_setProx]; simp [hs]

theorem HasProx.setProx_other {l : List Seg} {x : Nat} (h : HasProx l x) (c : Nat) (p : Pt) :
    HasProx (setProx l c p) x := by
  obtain ⟨s, q, hs, hq⟩ := h
  by_cases e : x = c
  · subst e; exact HasProx.setProx_self hs p
  · exact ⟨s, q, by rw [getSegment_setProx]; simp [e, hs], hq⟩

/-! ## B. the tree an adjacency dictionary unfolds to -/

mutual
  /-- `t` is the unfolding of `adj` from `t.id`: the children of every node are exactly the dictionary entry
      of its id, in order; a leaf has no entry -/
  def Repr (adj : Adj) : Tree → Prop
    | .node i ks => lookup adj i = enc (ks.map Tree.id) ∧ ReprL adj ks
  def ReprL (adj : Adj) : List Tree → Prop
    | [] => True
    | t :: ts => Repr adj t ∧ ReprL adj ts
end

theorem reprL_mem {adj : Adj} : ∀ {ts : List Tree}, ReprL adj ts → ∀ t ∈ ts, Repr adj t
  | [], _, _, h => by cases h
  | t :: ts, h, x, hx => by
    simp only [ReprL] at h
    rcases List.mem_cons.1 hx with rfl | hx
    · exact h.1
    · exact reprL_mem h.2 x hx

theorem reprL_of_mem {adj : Adj} : ∀ {ts : List Tree}, (∀ t ∈ ts, Repr adj t) → ReprL adj ts
  | [], _ => by simp [ReprL]
  | t :: ts, h => by
    simp only [ReprL]
    exact ⟨h t (by simp), reprL_of_mem (fun x hx => h x (by simp [hx]))⟩

theorem mapOpt_build {adj : Adj} {f : Nat → Option Tree} (hf : ∀ a b, f a = some b → Repr adj b ∧ b.id = a) :
    ∀ (l : List Nat) (ks : List Tree), mapOpt f l = some ks → ks.map Tree.id = l ∧ ReprL adj ks := by
  intro l
  induction l with
  | nil => intro ks h; simp only [mapOpt, Option.some.injEq] at h; subst h; simp [ReprL]
  | cons a r ih =>
    intro ks h
    simp only [mapOpt] at h
    cases ha : f a with
    | none => simp [ha] at h
    | some b =>
      simp only [ha] at h
      cases hr : mapOpt f r with
      | none => simp [hr] at h
      | some bs =>
        simp only [hr, Option.some.injEq] at h
        subst h
        obtain ⟨h1, h2⟩ := ih bs hr
        obtain ⟨h3, h4⟩ := hf a b ha
        refine ⟨by simp [h4, h1], ?_⟩
        simp only [ReprL]
        exact ⟨h3, h2⟩

/-- whenever the driver's unfolding succeeds it yields a representation of the dictionary -/
theorem buildTree_sound (adj : Adj) : ∀ (fuel root : Nat) (t : Tree),
    buildTree adj fuel root = some t → Repr adj t ∧ t.id = root := by
  intro fuel
  induction fuel with
  | zero => intro root t h; simp [buildTree] at h
  | succ fuel ih =>
    intro root t h
    unfold buildTree at h
    cases hl : lookup adj root with
    | none =>
      simp only [hl, Option.some.injEq] at h
      subst h
      simp [Repr, ReprL, hl, enc, Tree.id]
    | some cs =>
      cases cs with
      | nil => simp [hl] at h
      | cons c cs =>
        simp only [hl] at h
        cases hm : mapOpt (buildTree adj fuel) (c :: cs) with
        | none => simp [hm] at h
        | some ks =>
          simp only [hm, Option.some.injEq] at h
          subst h
          obtain ⟨h1, h2⟩ := mapOpt_build (adj := adj) (fun a b hab => ih a b hab) (c :: cs) ks hm
          refine ⟨?_, rfl⟩
          simp only [Repr, h1, hl]
          exact ⟨by simp [enc], h2⟩

theorem mem_preorderL {x : Nat} : ∀ {ts : List Tree}, x ∈ preorderL ts ↔ ∃ t ∈ ts, x ∈ preorder t
  | [] => by simp [preorderL]
  | t :: ts => by
    simp only [preorderL, List.mem_append, List.mem_cons, exists_eq_or_imp]
    rw [mem_preorderL (ts := ts)]

theorem id_mem_preorder : ∀ t : Tree, t.id ∈ preorder t
  | .node i ks => by simp [preorder, Tree.id]

/-- reachability in the adjacency dictionary -/
inductive Reach (adj : Adj) (root : Nat) : Nat → Prop
  | refl : Reach adj root root
  | step {p c : Nat} {cs : List Nat} : Reach adj root p → lookup adj p = some cs → c ∈ cs → Reach adj root c

theorem Reach.trans {adj : Adj} {a b c : Nat} (h1 : Reach adj a b) (h2 : Reach adj b c) : Reach adj a c := by
  induction h2 with
  | refl => exact h1
  | step _ hl hc ih => exact .step ih hl hc

theorem enc_eq_some {l cs : List Nat} (h : enc l = some cs) : cs = l ∧ l ≠ [] := by
  unfold enc at h
  by_cases e : l = []
  · simp [e] at h
  · simp only [e, ↓reduceIte, Option.some.injEq] at h
    exact ⟨h.symm, e⟩

mutual
  theorem reach_of_mem_preorder {adj : Adj} : ∀ (t : Tree), Repr adj t → ∀ x ∈ preorder t, Reach adj t.id x
    | .node i ks, hr, x, hx => by
      simp only [preorder, List.mem_cons] at hx
      simp only [Repr] at hr
      rcases hx with rfl | hx
      · exact .refl
      · obtain ⟨k, hk, hkx⟩ := reach_of_mem_preorderL ks hr.2 x hx
        have hne : ks.map Tree.id ≠ [] := by
          cases ks with
          | nil => cases hk
          | cons _ _ => simp
        have hl : lookup adj i = some (ks.map Tree.id) := by rw [hr.1]; simp [enc, hne]
        exact Reach.trans (.step .refl hl (List.mem_map.2 ⟨k, hk, rfl⟩)) hkx
  theorem reach_of_mem_preorderL {adj : Adj} : ∀ (ts : List Tree), ReprL adj ts → ∀ x ∈ preorderL ts,
      ∃ t ∈ ts, Reach adj t.id x
    | [], _, x, hx => by simp [preorderL] at hx
    | t :: ts, hr, x, hx => by
      simp only [preorderL, List.mem_append] at hx
      simp only [ReprL] at hr
      rcases hx with hx | hx
      · exact ⟨t, by simp, reach_of_mem_preorder t hr.1 x hx⟩
      · obtain ⟨k, hk, hkx⟩ := reach_of_mem_preorderL ts hr.2 x hx
        exact ⟨k, by simp [hk], hkx⟩
end

mutual
  theorem preorder_closed {adj : Adj} : ∀ (t : Tree), Repr adj t → ∀ p ∈ preorder t, ∀ cs, lookup adj p = some cs →
      ∀ c ∈ cs, c ∈ preorder t
    | .node i ks, hr, p, hp, cs, hl, c, hc => by
      simp only [preorder, List.mem_cons] at hp ⊢
      simp only [Repr] at hr
      rcases hp with rfl | hp
      · rw [hr.1] at hl
        obtain ⟨rfl, _⟩ := enc_eq_some hl
        obtain ⟨k, hk, rfl⟩ := List.mem_map.1 hc
        exact Or.inr (mem_preorderL.2 ⟨k, hk, id_mem_preorder k⟩)
      · exact Or.inr (preorderL_closed ks hr.2 p hp cs hl c hc)
  theorem preorderL_closed {adj : Adj} : ∀ (ts : List Tree), ReprL adj ts → ∀ p ∈ preorderL ts, ∀ cs,
      lookup adj p = some cs → ∀ c ∈ cs, c ∈ preorderL ts
    | [], _, p, hp, _, _, _, _ => by simp [preorderL] at hp
    | t :: ts, hr, p, hp, cs, hl, c, hc => by
      simp only [preorderL, List.mem_append] at hp ⊢
      simp only [ReprL] at hr
      rcases hp with hp | hp
      · exact Or.inl (preorder_closed t hr.1 p hp cs hl c hc)
      · exact Or.inr (preorderL_closed ts hr.2 p hp cs hl c hc)
end

/-- the ids of the unfolding are exactly the ids reachable from its root -/
theorem reach_iff_mem_preorder {adj : Adj} {t : Tree} (hr : Repr adj t) (x : Nat) :
    Reach adj t.id x ↔ x ∈ preorder t := by
  constructor
  · intro h
    induction h with
    | refl => exact id_mem_preorder t
    | step _ hl hc ih => exact preorder_closed t hr _ ih _ hl _ hc
  · exact reach_of_mem_preorder t hr x

/-! ### chains -/

/-- an unbranched run of the dictionary that cannot be extended downwards: every element but the last has
    exactly one child, which is the next element; the last one is a leaf or a branch point -/
inductive GoodChain (adj : Adj) : List Nat → Prop
  | leaf {i : Nat} : lookup adj i = none → GoodChain adj [i]
  | branch {i c1 c2 : Nat} {cs : List Nat} : lookup adj i = some (c1 :: c2 :: cs) → GoodChain adj [i]
  | step {i c : Nat} {l : List Nat} : lookup adj i = some [c] → GoodChain adj (c :: l) → GoodChain adj (i :: c :: l)

theorem first_cons : ∀ t : Tree, ∃ l, first t = t.id :: l
  | .node _ [] => ⟨[], rfl⟩
  | .node _ [k] => ⟨first k, rfl⟩
  | .node _ (_ :: _ :: _) => ⟨[], rfl⟩

theorem first_good {adj : Adj} : ∀ t : Tree, Repr adj t → GoodChain adj (first t)
  | .node i [], hr => by
    simp only [Repr, List.map_nil] at hr
    exact .leaf (by simpa [enc] using hr.1)
  | .node i [k], hr => by
    simp only [Repr, ReprL, List.map_cons, List.map_nil] at hr
    obtain ⟨l, hl⟩ := first_cons k
    have := first_good k hr.2.1
    simp only [first]
    rw [hl] at this ⊢
    exact .step (by simpa [enc] using hr.1) this
  | .node i (k1 :: k2 :: ks), hr => by
    simp only [Repr, List.map_cons] at hr
    exact .branch (c1 := k1.id) (c2 := k2.id) (cs := ks.map Tree.id) (by simpa [enc] using hr.1)

theorem first_sub_preorder : ∀ t : Tree, ∀ x ∈ first t, x ∈ preorder t
  | .node i [], x, hx => by simpa [first, preorder, preorderL] using hx
  | .node i [k], x, hx => by
    simp only [first, List.mem_cons] at hx
    simp only [preorder, preorderL, List.append_nil, List.mem_cons]
    rcases hx with rfl | hx
    · exact Or.inl rfl
    · exact Or.inr (first_sub_preorder k x hx)
  | .node i (_ :: _ :: _), x, hx => by
    simp only [first, List.mem_singleton] at hx
    simp [preorder, hx]

def flat (chs : List (Nat × List Nat)) : List Nat := (chs.map (·.2)).flatten
def heads (chs : List (Nat × List Nat)) : List Nat := chs.map (·.1)

theorem flat_append (a b : List (Nat × List Nat)) : flat (a ++ b) = flat a ++ flat b := by simp [flat]
theorem heads_append (a b : List (Nat × List Nat)) : heads (a ++ b) = heads a ++ heads b := by simp [heads]

mutual
  /-- the chains, concatenated in creation order, are the pre-order listing of the tree -/
  theorem first_rest_flat : ∀ t : Tree, first t ++ flat (rest t) = preorder t
    | .node i [] => by simp [first, rest, flat, preorder, preorderL]
    | .node i [k] => by
      have := first_rest_flat k
      simp only [first, rest, preorder, preorderL, List.append_nil, List.cons_append, this]
    | .node i (k1 :: k2 :: ks) => by
      have := restL_flat (k1 :: k2 :: ks)
      simp only [first, rest, preorder, this, List.cons_append, List.nil_append]
  theorem restL_flat : ∀ ts : List Tree, flat (restL ts) = preorderL ts
    | [] => by simp [restL, flat, preorderL]
    | t :: ts => by
      have h1 := first_rest_flat t
      have h2 := restL_flat ts
      simp only [restL, preorderL, flat_append, h2, ← h1]
      simp [flat]
end

mutual
  theorem heads_sublist : ∀ t : Tree, (t.id :: heads (rest t)).Sublist (preorder t)
    | .node i [] => by simp [rest, heads, preorder, preorderL, Tree.id]
    | .node i [k] => by
      have := heads_sublist k
      simp only [rest, preorder, preorderL, List.append_nil, Tree.id]
      exact (List.sublist_of_cons_sublist this).cons_cons i
    | .node i (k1 :: k2 :: ks) => by
      have := headsL_sublist (k1 :: k2 :: ks)
      simp only [rest, preorder, Tree.id]
      exact this.cons_cons i
  theorem headsL_sublist : ∀ ts : List Tree, (heads (restL ts)).Sublist (preorderL ts)
    | [] => by simp [restL, heads, preorderL]
    | t :: ts => by
      have h1 := heads_sublist t
      have h2 := headsL_sublist ts
      simp only [restL, preorderL, heads_append]
      exact List.Sublist.append (by simpa [heads] using h1) h2
end

/-- every later chain is a `GoodChain`, starts with its recorded head, and that head is a child of a branch
    point of the tree -/
def RestOK (adj : Adj) (inTree : Nat → Prop) (ch : Nat × List Nat) : Prop :=
  GoodChain adj ch.2 ∧ (∃ l, ch.2 = ch.1 :: l) ∧
  ∃ p cs, inTree p ∧ lookup adj p = some cs ∧ 2 ≤ cs.length ∧ ch.1 ∈ cs

theorem RestOK.mono {adj : Adj} {P Q : Nat → Prop} (h : ∀ x, P x → Q x) {ch : Nat × List Nat}
    (hc : RestOK adj P ch) : RestOK adj Q ch := by
  obtain ⟨h1, h2, p, cs, hp, h3⟩ := hc
  exact ⟨h1, h2, p, cs, h p hp, h3⟩

mutual
  theorem rest_ok {adj : Adj} : ∀ t : Tree, Repr adj t → ∀ ch ∈ rest t, RestOK adj (· ∈ preorder t) ch
    | .node i [], _, ch, hc => by simp [rest] at hc
    | .node i [k], hr, ch, hc => by
      simp only [Repr, ReprL] at hr
      simp only [rest] at hc
      exact (rest_ok k hr.2.1 ch hc).mono (fun x hx => by simp [preorder, preorderL, hx])
    | .node i (k1 :: k2 :: ks), hr, ch, hc => by
      simp only [Repr] at hr
      simp only [rest] at hc
      have hl : lookup adj i = some ((k1 :: k2 :: ks).map Tree.id) := by rw [hr.1]; simp [enc]
      refine (restL_ok i _ hl (by simp) (k1 :: k2 :: ks) hr.2 (fun t ht => List.mem_map.2 ⟨t, ht, rfl⟩) ch hc).mono ?_
      intro x hx
      simp only [preorder, List.mem_cons]
      exact hx
  theorem restL_ok {adj : Adj} (par : Nat) (cs : List Nat) (hl : lookup adj par = some cs) (h2 : 2 ≤ cs.length) :
      ∀ ts : List Tree, ReprL adj ts → (∀ t ∈ ts, t.id ∈ cs) → ∀ ch ∈ restL ts,
        RestOK adj (fun x => x = par ∨ x ∈ preorderL ts) ch
    | [], _, _, ch, hc => by simp [restL] at hc
    | t :: ts, hr, hts, ch, hc => by
      simp only [ReprL] at hr
      simp only [restL, List.cons_append, List.mem_cons, List.mem_append] at hc
      rcases hc with rfl | hc | hc
      · exact ⟨first_good t hr.1, first_cons t, par, cs, Or.inl rfl, hl, h2, hts t (by simp)⟩
      · exact (rest_ok t hr.1 ch hc).mono (fun x hx => Or.inr (by simp [preorderL, hx]))
      · refine (restL_ok par cs hl h2 ts hr.2 (fun x hx => hts x (by simp [hx])) ch hc).mono ?_
        rintro x (hx | hx)
        · exact Or.inl hx
        · exact Or.inr (by simp [preorderL, hx])
end

/-! ## C. `sectD` / `sectKids` on a tree -/

theorem modifyAt_length (f : Group → Group) : ∀ (gs : List Group) (i : Nat), (modifyAt gs i f).length = gs.length
  | [], _ => rfl
  | _ :: _, 0 => rfl
  | g :: r, i + 1 => by simp [modifyAt, modifyAt_length f r i]

theorem modifyAt_append (f : Group → Group) (g : Group) (r : List Group) :
    ∀ pre : List Group, modifyAt (pre ++ g :: r) pre.length f = pre ++ f g :: r
  | [] => rfl
  | a :: pre => by simp [modifyAt, modifyAt_append f g r pre]

theorem addMemberG_new {s : Nat} {g : Group} (h : s ∉ g.members) :
    addMemberG s g = { g with members := g.members ++ [s] } := by simp [addMemberG, h]

theorem findGroup_none {gs : List Group} {name : String} (h : ∀ g ∈ gs, g.id ≠ name) : findGroup gs name = none := by
  unfold findGroup
  split
  · rfl
  · rw [List.findIdx?_eq_none_iff]
    intro g hg
    simpa using h g hg

/-- a group as `add_unbranched_segment_group` makes it, with members `ms` -/
def freshGroup (name : String) (ms : List Nat) : Group := ⟨name, some sectionNlx, ms, []⟩

theorem freshGroup_extend (name : String) (l : List Nat) :
    ({ freshGroup name [] with members := (freshGroup name []).members ++ l } : Group) = freshGroup name l := by
  simp [freshGroup]

theorem freshAt_eq (L : Nat) (ch : Nat × List Nat) : freshAt L ch = freshGroup (genName (L - 1) ch.1) ch.2 := rfl

theorem Tree.id_node (i : Nat) (ks : List Tree) : (Tree.node i ks).id = i := rfl

theorem addGroup_fresh {gs : List Group} {name : String} (h : ∀ g ∈ gs, g.id ≠ name) :
    addGroup gs name = (gs ++ [freshGroup name []], gs.length) := by
  simp [addGroup, findGroup_none h, freshGroup]

theorem actualProximal_ok_getSegment {segs : List Seg} {k i : Nat} {p : Pt} (h : actualProximal segs k i = .ok p) :
    ∃ s, getSegment segs i = some s := by
  cases k with
  | zero => simp [actualProximal] at h
  | succ k =>
    unfold actualProximal at h
    cases hs : getSegment segs i with
    | none => simp [hs] at h
    | some s => exact ⟨s, rfl⟩

/-- ids of the groups `mkFresh` makes -/
def names (L : Nat) (chs : List (Nat × List Nat)) : List String := (mkFresh L chs).map (·.id)

theorem mkFresh_append : ∀ (a b : List (Nat × List Nat)) (L : Nat),
    mkFresh L (a ++ b) = mkFresh L a ++ mkFresh (L + a.length) b
  | [], b, L => by simp [mkFresh]
  | x :: a, b, L => by
    have e : L + 1 + a.length = L + (a.length + 1) := by omega
    simp only [List.cons_append, mkFresh, mkFresh_append a b (L + 1), List.length_cons, e]

theorem mkFresh_length : ∀ (a : List (Nat × List Nat)) (L : Nat), (mkFresh L a).length = a.length
  | [], _ => rfl
  | _ :: a, L => by simp [mkFresh, mkFresh_length a (L + 1)]

theorem names_append (a b : List (Nat × List Nat)) (L : Nat) :
    names L (a ++ b) = names L a ++ names (L + a.length) b := by simp [names, mkFresh_append]

theorem names_cons (x : Nat × List Nat) (a : List (Nat × List Nat)) (L : Nat) :
    names L (x :: a) = genName (L - 1) x.1 :: names (L + 1) a := by simp [names, mkFresh, freshAt]

/-! ### the tree below the end of the first chain -/

theorem rest_eq_restL_endKids : ∀ t : Tree, rest t = restL (endKids t)
  | .node _ [] => by simp [rest, endKids, restL]
  | .node _ [k] => by simp only [rest, endKids]; exact rest_eq_restL_endKids k
  | .node _ (_ :: _ :: _) => by simp [rest, endKids]

theorem preorderL_append : ∀ a b : List Tree, preorderL (a ++ b) = preorderL a ++ preorderL b
  | [], b => by simp [preorderL]
  | t :: a, b => by simp [preorderL, preorderL_append a b]

theorem restL_append : ∀ a b : List Tree, restL (a ++ b) = restL a ++ restL b
  | [], b => by simp [restL]
  | t :: a, b => by simp [restL, restL_append a b]

theorem sizeL_append : ∀ a b : List Tree, sizeL (a ++ b) = sizeL a + sizeL b
  | [], b => by simp [sizeL]
  | t :: a, b => by simp [sizeL, sizeL_append a b]; omega

theorem reprL_append {adj : Adj} : ∀ {a b : List Tree}, ReprL adj a → ReprL adj b → ReprL adj (a ++ b)
  | [], _, _, hb => hb
  | t :: a, b, ha, hb => by
    simp only [ReprL, List.cons_append] at ha ⊢
    exact ⟨ha.1, reprL_append ha.2 hb⟩

theorem repr_endKids {adj : Adj} : ∀ t : Tree, Repr adj t → ReprL adj (endKids t)
  | .node _ [], _ => by simp [endKids, ReprL]
  | .node _ [k], hr => by
    simp only [Repr, ReprL] at hr
    simp only [endKids]
    exact repr_endKids k hr.2.1
  | .node _ (k1 :: k2 :: ks), hr => by
    simp only [Repr] at hr
    exact hr.2

/-- pre-order = the first chain, then the subtrees below its end -/
theorem preorder_first_endKids : ∀ t : Tree, preorder t = first t ++ preorderL (endKids t)
  | .node i [] => by simp [preorder, first, endKids, preorderL]
  | .node i [k] => by
    simp only [preorder, preorderL, List.append_nil, first, endKids, List.cons_append]
    rw [preorder_first_endKids k]
  | .node i (k1 :: k2 :: ks) => by simp [preorder, first, endKids]

theorem size_first_endKids : ∀ t : Tree, size t = (first t).length + sizeL (endKids t)
  | .node i [] => by simp [size, sizeL, first, endKids]
  | .node i [k] => by
    simp only [size, sizeL, first, endKids, List.length_cons]
    have := size_first_endKids k
    omega
  | .node i (k1 :: k2 :: ks) => by simp [size, first, endKids]

theorem first_length_pos (t : Tree) : 1 ≤ (first t).length := by
  obtain ⟨l, h⟩ := first_cons t
  rw [h]; simp

mutual
  theorem size_eq_length_preorder : ∀ t : Tree, size t = (preorder t).length
    | .node i ks => by simp only [size, preorder, List.length_cons, sizeL_eq_length_preorderL ks]; omega
  theorem sizeL_eq_length_preorderL : ∀ ts : List Tree, sizeL ts = (preorderL ts).length
    | [] => by simp [sizeL, preorderL]
    | t :: ts => by
      simp only [sizeL, preorderL, List.length_append, size_eq_length_preorder t, sizeL_eq_length_preorderL ts]
end

section Main
set_option linter.unusedSectionVars false
variable {adj : Adj} {base : List Seg} (hnd : (base.map (·.id)).Nodup)

/-- the `try:` block on the unfolding `t` of the dictionary, entered with the current group `g` (the last group,
    at index `|pre|`): it extends `g` by the chain `first t`, touches nothing else, and hands back the children
    of the chain's last segment (the heads of the branches still to be sectioned) -/
theorem walk_spec : ∀ (t : Tree) (fuel : Nat) (segs : List Seg) (pre : List Group) (g : Group),
    Repr adj t → (first t).length ≤ fuel → (first t).Nodup → (∀ x ∈ first t, x ∉ g.members) →
    walk adj fuel ⟨segs, pre ++ [g]⟩ t.id pre.length
      = .ok (⟨segs, pre ++ [{ g with members := g.members ++ first t }]⟩, (endKids t).map Tree.id)
  | .node i [], fuel, segs, pre, g, hr, hf, _, hmem => by
    obtain ⟨f, rfl⟩ : ∃ f, fuel = f + 1 := ⟨fuel - 1, by simp only [first, List.length_singleton] at hf; omega⟩
    simp only [Repr, List.map_nil] at hr
    have hl : lookup adj i = none := by simpa [enc] using hr.1
    have hi : i ∉ g.members := hmem i (by simp [first])
    simp only [walk, Tree.id_node, hl, St.addMember, modifyAt_append, addMemberG_new hi, first, endKids, List.map_nil]
  | .node i [k'], fuel, segs, pre, g, hr, hf, hnd', hmem => by
    obtain ⟨f, rfl⟩ : ∃ f, fuel = f + 1 := ⟨fuel - 1, by simp only [first, List.length_cons] at hf; omega⟩
    simp only [Repr, ReprL, List.map_cons, List.map_nil] at hr
    have hl : lookup adj i = some [k'.id] := by simpa [enc] using hr.1
    have hi : i ∉ g.members := hmem i (by simp [first])
    simp only [first, List.nodup_cons] at hnd'
    have hmem' : ∀ x ∈ first k', x ∉ ({ g with members := g.members ++ [i] } : Group).members := by
      intro x hx
      simp only [List.mem_append, List.mem_singleton, not_or]
      refine ⟨hmem x (by simp [first, hx]), ?_⟩
      rintro rfl
      exact hnd'.1 hx
    have h1 := walk_spec k' f segs pre { g with members := g.members ++ [i] } hr.2.1
      (by simp only [first, List.length_cons] at hf; omega) hnd'.2 hmem'
    simp only [walk, Tree.id_node, hl, St.addMember, modifyAt_append, addMemberG_new hi]
    rw [h1]
    simp [first, endKids]
  | .node i (k1 :: k2 :: ks), fuel, segs, pre, g, hr, hf, _, hmem => by
    obtain ⟨f, rfl⟩ : ∃ f, fuel = f + 1 := ⟨fuel - 1, by simp only [first, List.length_singleton] at hf; omega⟩
    simp only [Repr, List.map_cons] at hr
    have hl : lookup adj i = some (k1.id :: k2.id :: ks.map Tree.id) := by simpa [enc] using hr.1
    have hi : i ∉ g.members := hmem i (by simp [first])
    simp only [walk, Tree.id_node, hl, St.addMember, modifyAt_append, addMemberG_new hi, first, endKids, List.map_cons]

include hnd

/-- `while todo:` on a stack of branches that are the unfoldings `ts` of the dictionary, none of which has a
    group yet: it succeeds whatever the nesting of branch points, appends one fresh group per chain (in the
    order in which the recursive version created them: depth first), and only makes implied proximals explicit.
    `k` = frames within which the proximal of every chain head resolves. -/
theorem sectLoop_spec : ∀ (fuel : Nat) (ts : List Tree) (lim k : Nat) (segs : List Seg) (gs : List Group),
    ReprL adj ts → sizeL ts + 1 ≤ fuel → k ≤ lim → Refines base segs →
    (∀ ch ∈ restL ts, ∃ p, actualProximal base k ch.1 = .ok p) →
    (preorderL ts).Nodup →
    (∀ g' ∈ gs, g'.id ∉ names gs.length (restL ts)) → (names gs.length (restL ts)).Nodup →
    ∃ segs', sectLoop adj fuel lim ⟨segs, gs⟩ (ts.map (fun t => (t.id, none)))
        = .ok ⟨segs', gs ++ mkFresh gs.length (restL ts)⟩ ∧
      Refines base segs' ∧ (∀ x, HasProx segs x → HasProx segs' x) ∧ (∀ ch ∈ restL ts, HasProx segs' ch.1) := by
  intro fuel
  induction fuel with
  | zero => intro ts lim k segs gs _ hf; omega
  | succ f ih =>
    intro ts lim k segs gs hr hf hlim href hap hnd' hn1 hn2
    cases ts with
    | nil => exact ⟨segs, by simp [sectLoop, restL, mkFresh], href, fun x hx => hx, by simp [restL]⟩
    | cons t ts =>
      simp only [sizeL] at hf
      simp only [ReprL] at hr
      have hpre : preorderL (t :: ts) = first t ++ preorderL (endKids t ++ ts) := by
        simp only [preorderL, preorder_first_endKids t, preorderL_append, List.append_assoc]
      rw [hpre, List.nodup_append] at hnd'
      have hrest : restL (t :: ts) = (t.id, first t) :: restL (endKids t ++ ts) := by
        simp only [restL, restL_append, rest_eq_restL_endKids t, List.cons_append]
      rw [hrest] at hap hn1 hn2 ⊢
      rw [names_cons] at hn1 hn2
      simp only [List.nodup_cons] at hn2
      -- open the group for `t`
      obtain ⟨p, hp0⟩ := hap (t.id, first t) (by simp)
      have hp1 : actualProximal segs lim t.id = .ok p :=
        actualProximal_mono segs k t.id p (href.ap k t.id p hp0) lim hlim
      obtain ⟨s, hs⟩ := actualProximal_ok_getSegment hp1
      have hsid : s.id = t.id := (getSegment_some hs).1
      have href1 : Refines base (setProx segs t.id p) := href.step hnd hp1
      have hfresh : ∀ g' ∈ gs, g'.id ≠ genName (gs.length - 1) t.id := by
        intro g' hg' e
        exact hn1 g' hg' (by simp [e])
      -- walk down its first chain
      have hw := walk_spec (adj := adj) t f (setProx segs t.id p) gs (freshGroup (genName (gs.length - 1) t.id) [])
        hr.1 (by have := size_first_endKids t; omega) hnd'.1 (by simp [freshGroup])
      rw [freshGroup_extend] at hw
      -- the rest of the stack
      have hlen : (gs ++ [freshGroup (genName (gs.length - 1) t.id) (first t)]).length = gs.length + 1 := by simp
      obtain ⟨segs3, g1, g2, g3, g4⟩ := ih (endKids t ++ ts) lim k (setProx segs t.id p)
        (gs ++ [freshGroup (genName (gs.length - 1) t.id) (first t)])
        (reprL_append (repr_endKids t hr.1) hr.2)
        (by rw [sizeL_append]; have := size_first_endKids t; have := first_length_pos t; omega)
        hlim href1 (fun ch hc => hap ch (by simp [hc])) hnd'.2.1
        (by
          rw [hlen]
          intro g' hg' hin
          simp only [List.mem_append, List.mem_singleton] at hg'
          rcases hg' with hg' | rfl
          · exact hn1 g' hg' (by simp [hin])
          · exact hn2.1 hin)
        (by rw [hlen]; exact hn2.2)
      rw [hlen] at g1
      have g1' : sectLoop adj f lim
          ⟨setProx segs t.id p, gs ++ [freshGroup (genName (gs.length - 1) t.id) (first t)]⟩
          (((endKids t).map Tree.id).map (fun c => (c, (none : Option Nat))) ++ ts.map (fun t => (t.id, none)))
          = .ok ⟨segs3, gs ++ mkFresh gs.length ((t.id, first t) :: restL (endKids t ++ ts))⟩ := by
        rw [List.map_append] at g1
        rw [List.map_map]
        simp only [Function.comp_def]
        rw [g1]
        simp only [mkFresh, freshAt_eq, List.append_assoc, List.singleton_append]
      refine ⟨segs3, ?_, g2, ?_, ?_⟩
      · simp only [List.map_cons, sectLoop, openBranch, hs, hsid, hp1, addGroup_fresh hfresh, hw, g1']
      · intro x hx
        exact g3 x (hx.setProx_other t.id p)
      · intro ch hc
        simp only [List.mem_cons] at hc
        rcases hc with rfl | hc
        · exact g3 _ (HasProx.setProx_self hs p)
        · exact g4 ch hc

end Main

/-! ## D. generated names -/

theorem genName_toList (n i : Nat) : (genName n i).toList =
    "seg_group_".toList ++ Nat.toDigits 10 n ++ "_seg_".toList ++ Nat.toDigits 10 i := by
  unfold genName
  simp only [String.toList_append]
  congr 1
  · congr 1
    · congr 1
      exact Nat.toList_repr
  · exact Nat.toList_repr

theorem genName_ne_empty (n i : Nat) : genName n i ≠ "" := by
  intro h
  have := congrArg String.toList h
  rw [genName_toList] at this
  simp at this

theorem digits_split : ∀ (d1 d2 r1 r2 : List Char), (∀ c ∈ d1, c.isDigit = true) → (∀ c ∈ d2, c.isDigit = true) →
    d1 ++ '_' :: r1 = d2 ++ '_' :: r2 → d1 = d2 ∧ r1 = r2
  | [], [], r1, r2, _, _, h => by simpa using h
  | [], b :: d2, r1, r2, _, h2, h => by
    simp only [List.nil_append, List.cons_append, List.cons.injEq] at h
    have := h2 b (by simp)
    rw [← h.1] at this
    exact absurd this (by decide)
  | a :: d1, [], r1, r2, h1, _, h => by
    simp only [List.nil_append, List.cons_append, List.cons.injEq] at h
    have := h1 a (by simp)
    rw [h.1] at this
    exact absurd this (by decide)
  | a :: d1, b :: d2, r1, r2, h1, h2, h => by
    simp only [List.cons_append, List.cons.injEq] at h
    obtain ⟨e1, e2⟩ := digits_split d1 d2 r1 r2 (fun c hc => h1 c (by simp [hc])) (fun c hc => h2 c (by simp [hc])) h.2
    exact ⟨by rw [h.1, e1], e2⟩

theorem toDigits_inj {i j : Nat} (h : Nat.toDigits 10 i = Nat.toDigits 10 j) : i = j := by
  have e : Nat.repr i = Nat.repr j := by
    rw [Nat.repr_eq_ofList_toDigits, Nat.repr_eq_ofList_toDigits, h]
  have h1 := Nat.toNat?_repr i
  rw [e, Nat.toNat?_repr] at h1
  exact (Option.some.inj h1).symm

/-- the f-string is injective: different segment ids (or different counters) give different group names -/
theorem genName_inj {n m i j : Nat} (h : genName n i = genName m j) : n = m ∧ i = j := by
  have h' := congrArg String.toList h
  rw [genName_toList, genName_toList] at h'
  simp only [List.append_assoc] at h'
  have h1 := List.append_cancel_left h'
  have hd : ∀ k c, c ∈ Nat.toDigits 10 k → c.isDigit = true :=
    fun k c hc => Nat.isDigit_of_mem_toDigits (by decide) (by decide) hc
  have e : "_seg_".toList = '_' :: ['s', 'e', 'g', '_'] := by decide
  rw [e] at h1
  simp only [List.cons_append] at h1
  obtain ⟨e1, e2⟩ := digits_split _ _ _ _ (hd n) (hd m) h1
  exact ⟨toDigits_inj e1, toDigits_inj (by simpa using e2)⟩

theorem mem_names {s : String} : ∀ {chs : List (Nat × List Nat)} {L : Nat}, s ∈ names L chs →
    ∃ n h, h ∈ heads chs ∧ s = genName n h
  | [], _, hs => by simp [names, mkFresh] at hs
  | x :: a, L, hs => by
    rw [names_cons] at hs
    rcases List.mem_cons.1 hs with rfl | hs
    · exact ⟨L - 1, x.1, by simp [heads], rfl⟩
    · obtain ⟨n, h, hh, rfl⟩ := mem_names hs
      exact ⟨n, h, by simp only [heads, List.map_cons, List.mem_cons] at hh ⊢; exact Or.inr hh, rfl⟩

theorem names_nodup : ∀ (chs : List (Nat × List Nat)) (L : Nat), (heads chs).Nodup → (names L chs).Nodup
  | [], _, _ => by simp [names, mkFresh]
  | x :: a, L, h => by
    simp only [heads, List.map_cons, List.nodup_cons] at h
    rw [names_cons, List.nodup_cons]
    refine ⟨?_, names_nodup a (L + 1) h.2⟩
    intro hin
    obtain ⟨n, hd, hh, e⟩ := mem_names hin
    have := (genName_inj e).2
    exact h.1 (by rw [this]; exact hh)

theorem newGroups_ids (G0 : Nat) (t : Tree) :
    (newGroups G0 t).map (·.id) = genName G0 t.id :: names (G0 + 1) (rest t) := by
  simp [newGroups, names]

theorem newGroups_ids_nodup (G0 : Nat) (t : Tree) (h : (preorder t).Nodup) : ((newGroups G0 t).map (·.id)).Nodup := by
  have hs := (heads_sublist t).nodup h
  simp only [List.nodup_cons] at hs
  rw [newGroups_ids, List.nodup_cons]
  refine ⟨?_, names_nodup _ _ hs.2⟩
  intro hin
  obtain ⟨n, hd, hh, e⟩ := mem_names hin
  have := (genName_inj e).2
  exact hs.1 (by rw [this]; exact hh)

/-! ### the sectioning phase of `create_unbranched_segment_group_branches` -/

/-- no `adjacency_list` attribute on the cell, or one that is up to date -/
def FreshCache (cell : St) (cache : Option Adj) : Prop := cache = none ∨ cache = some (adjacency cell.segs)

theorem head_mem_preorder {t : Tree} {ch : Nat × List Nat} (h : ch ∈ rest t) : ch.1 ∈ preorder t := by
  have := (heads_sublist t).subset
  exact this (List.mem_cons_of_mem _ (List.mem_map.2 ⟨ch, h, rfl⟩))

theorem sectionPhase_spec (cell : St) (cache : Option Adj) (root lim fuel k : Nat) (t : Tree)
    (hc : FreshCache cell cache)
    (hnd : (cell.segs.map (·.id)).Nodup) (hr : Repr (adjacency cell.segs) t) (hroot : t.id = root)
    (hpre : (preorder t).Nodup) (hfuel : size t + 1 ≤ fuel) (hlim : k + 1 ≤ lim)
    (hap0 : ∃ p, actualProximal cell.segs k root = .ok p)
    (hap : ∀ ch ∈ rest t, ∃ p, actualProximal cell.segs k ch.1 = .ok p)
    (hclash : ∀ g ∈ cell.groups, ∀ n ∈ newGroups cell.groups.length t, g.id ≠ n.id) :
    ∃ segs', sectionPhase cell cache root lim fuel = .ok ⟨segs', cell.groups ++ newGroups cell.groups.length t⟩ ∧
      Refines cell.segs segs' ∧ HasProx segs' root ∧ ∀ ch ∈ rest t, HasProx segs' ch.1 := by
  subst hroot
  have hadj : cache.getD (adjacency cell.segs) = adjacency cell.segs := by
    rcases hc with rfl | rfl <;> rfl
  obtain ⟨p0, hp0⟩ := hap0
  obtain ⟨s, hs⟩ := actualProximal_ok_getSegment hp0
  have hsid : s.id = t.id := (getSegment_some hs).1
  obtain ⟨lim', rfl⟩ : ∃ l, lim = l + 1 := ⟨lim - 1, by omega⟩
  obtain ⟨f, rfl⟩ : ∃ f, fuel = f + 1 := ⟨fuel - 1, by omega⟩
  have hp1 : actualProximal cell.segs (lim' + 1) t.id = .ok p0 :=
    actualProximal_mono _ k t.id p0 hp0 _ (by omega)
  -- the root's proximal
  obtain ⟨segs1, he1, href1, hhp1⟩ : ∃ segs1, rootProx cell.segs (lim' + 1) s t.id = .ok segs1 ∧
      Refines cell.segs segs1 ∧ HasProx segs1 t.id := by
    unfold rootProx
    by_cases hfix : s.prox = none ∧ s.parent ≠ none
    · refine ⟨setProx cell.segs t.id p0, by simp [hfix, hsid, hp1], (Refines.refl _).step hnd hp1,
        HasProx.setProx_self hs p0⟩
    · refine ⟨cell.segs, by rw [if_neg hfix], Refines.refl _, ?_⟩
      cases hpx : s.prox with
      | some q => exact ⟨s, q, hs, hpx⟩
      | none =>
        have hpar : s.parent = none := by
          cases hpp : s.parent with
          | none => rfl
          | some _ => exact absurd ⟨hpx, by simp [hpp]⟩ hfix
        obtain ⟨k', rfl⟩ : ∃ k', k = k' + 1 := by
          cases k with
          | zero => simp [actualProximal] at hp0
          | succ k' => exact ⟨k', rfl⟩
        simp [actualProximal, hs, hpx, hpar] at hp0
  have hname : genName cell.groups.length s.id = genName cell.groups.length t.id := by rw [hsid]
  have hfresh : ∀ g ∈ cell.groups, g.id ≠ genName cell.groups.length t.id := by
    intro g hg
    exact hclash g hg ⟨genName cell.groups.length t.id, some sectionNlx, first t, []⟩ (by simp [newGroups])
  have hidsnd := newGroups_ids_nodup cell.groups.length t hpre
  rw [newGroups_ids, List.nodup_cons] at hidsnd
  have hpre' := hpre
  rw [preorder_first_endKids t, List.nodup_append] at hpre'
  -- the root's chain
  have hw := walk_spec (adj := adjacency cell.segs) t f segs1 cell.groups
    (freshGroup (genName cell.groups.length t.id) []) hr
    (by have := size_first_endKids t; omega) hpre'.1 (by simp [freshGroup])
  rw [freshGroup_extend] at hw
  -- everything below it
  have hlen : (cell.groups ++ [freshGroup (genName cell.groups.length t.id) (first t)]).length
      = cell.groups.length + 1 := by simp
  obtain ⟨segs2, h1, h2, h3, h4⟩ := sectLoop_spec hnd f (endKids t) lim' k segs1
    (cell.groups ++ [freshGroup (genName cell.groups.length t.id) (first t)])
    (repr_endKids t hr) (by have := size_first_endKids t; have := first_length_pos t; omega) (by omega) href1
    (by rw [← rest_eq_restL_endKids]; exact hap) hpre'.2.1
    (by
      rw [hlen, ← rest_eq_restL_endKids]
      intro g' hg'
      simp only [List.mem_append, List.mem_singleton] at hg'
      rcases hg' with hg' | rfl
      · intro hin
        obtain ⟨n, hn, hnid⟩ := List.mem_map.1 hin
        exact hclash g' hg' n (by simp [newGroups, hn]) hnid.symm
      · exact hidsnd.1)
    (by rw [hlen, ← rest_eq_restL_endKids]; exact hidsnd.2)
  rw [hlen, ← rest_eq_restL_endKids] at h1
  refine ⟨segs2, ?_, h2, h3 t.id hhp1, by rw [rest_eq_restL_endKids]; exact h4⟩
  unfold sectionPhase
  simp only [hadj, hs, hname, addGroup_fresh hfresh]
  rw [he1]
  simp only [sectLoop, hw, List.append_nil]
  rw [List.map_map]
  simp only [Function.comp_def]
  rw [h1]
  simp [newGroups, freshGroup]

/-! ### reorder pass -/

theorem eraseIdx_append_perm : ∀ (gs : List Group) (i : Nat) (g : Group), gs[i]? = some g →
    (gs.eraseIdx i ++ [g]).Perm gs
  | [], _, _, h => by simp at h
  | a :: r, 0, g, h => by
    simp only [List.getElem?_cons_zero, Option.some.injEq] at h
    subst h
    simp
  | a :: r, i + 1, g, h => by
    simp only [List.getElem?_cons_succ] at h
    simpa using (eraseIdx_append_perm r i g h).cons a

theorem moveToEnd_perm (gs : List Group) (name : String) : (moveToEnd gs name).Perm gs := by
  unfold moveToEnd
  cases findGroup gs name with
  | none => exact .refl _
  | some i =>
    simp only
    cases h : gs[i]? with
    | none => exact .refl _
    | some g => exact eraseIdx_append_perm gs i g h

theorem reorderGroups_perm (gs : List Group) : (reorderGroups gs).Perm gs := by
  unfold reorderGroups
  generalize defaultGroups = ds
  induction ds generalizing gs with
  | nil => exact .refl _
  | cons d ds ih => exact (ih (moveToEnd gs d)).trans (moveToEnd_perm gs d)

/-! ### optimise pass -/

/-- a group that `optimise_segment_group` leaves as it is: no includes, no repeated member -/
def Clean (g : Group) : Prop := g.includes = [] ∧ g.members.Nodup

theorem dedup_nodup : ∀ {l : List Nat}, l.Nodup → dedup l = l
  | [], _ => rfl
  | a :: l, h => by
    simp only [List.nodup_cons] at h
    simp only [dedup, dedup_nodup h.2, List.cons.injEq, true_and]
    rw [List.filter_eq_self]
    intro b hb
    simp only [bne_iff_ne, ne_eq]
    rintro rfl
    exact h.1 hb

theorem optGroup_clean (oi : List Group → Group → Group) (gs : List Group) {g : Group} (h : Clean g) :
    optGroup oi gs g = g := by
  obtain ⟨h1, h2⟩ := h
  cases g
  simp only at h1 h2
  subst h1
  simp [optGroup, dedup_nodup h2]

/-- the unmodelled part of `optimise_segment_group` (groups with includes) keeps the group's id -/
def IdPreserving (oi : List Group → Group → Group) : Prop := ∀ gs g, (oi gs g).id = g.id

def OptRel (g g' : Group) : Prop := g'.id = g.id ∧ (Clean g → g' = g)

theorem OptRel.refl (g : Group) : OptRel g g := ⟨rfl, fun _ => rfl⟩

theorem OptRel.trans {a b c : Group} (h1 : OptRel a b) (h2 : OptRel b c) : OptRel a c := by
  refine ⟨h2.1.trans h1.1, fun hc => ?_⟩
  have e := h1.2 hc
  subst e
  exact h2.2 hc

theorem optGroup_rel {oi : List Group → Group → Group} (hoi : IdPreserving oi) (gs : List Group) (g : Group) :
    OptRel g (optGroup oi gs g) := by
  refine ⟨?_, fun h => optGroup_clean oi gs h⟩
  unfold optGroup
  simp only
  split
  · rfl
  · rw [hoi]

theorem rel2_self {α : Type} {R : α → α → Prop} (hr : ∀ a, R a a) : ∀ l : List α, Rel2 R l l
  | [] => .nil
  | a :: l => .cons (hr a) (rel2_self hr l)

theorem rel2_modifyAt {R : Group → Group → Prop} (hr : ∀ g, R g g) {f : Group → Group} (hf : ∀ g, R g (f g)) :
    ∀ (gs : List Group) (i : Nat), Rel2 R gs (modifyAt gs i f)
  | [], _ => .nil
  | g :: r, 0 => .cons (hf g) (rel2_self hr r)
  | g :: r, i + 1 => .cons (hr g) (rel2_modifyAt hr hf r i)

theorem rel2_trans {α : Type} {R : α → α → Prop} (ht : ∀ a b c, R a b → R b c → R a c) :
    ∀ {a b c : List α}, Rel2 R a b → Rel2 R b c → Rel2 R a c := by
  intro a b c h1
  induction h1 generalizing c with
  | nil => intro h2; exact h2
  | cons hab _ ih =>
    intro h2
    cases h2 with
    | cons hbc hr2 => exact .cons (ht _ _ _ hab hbc) (ih hr2)

theorem rel2_mono {α : Type} {R S : α → α → Prop} (h : ∀ a b, R a b → S a b) :
    ∀ {l l' : List α}, Rel2 R l l' → Rel2 S l l' := by
  intro l l' hr
  induction hr with
  | nil => exact .nil
  | cons hab _ ih => exact .cons (h _ _ hab) ih

theorem rel2_length {α : Type} {R : α → α → Prop} {l l' : List α} (h : Rel2 R l l') : l'.length = l.length := by
  induction h with
  | nil => rfl
  | cons _ _ ih => simp [ih]

theorem rel2_ids {gs gs' : List Group} (h : Rel2 OptRel gs gs') : gs'.map (·.id) = gs.map (·.id) := by
  induction h with
  | nil => rfl
  | cons hab _ ih => simp [hab.1, ih]

theorem rel2_append_split {α : Type} {R : α → α → Prop} : ∀ (a b : List α) {l' : List α}, Rel2 R (a ++ b) l' →
    ∃ a' b', l' = a' ++ b' ∧ Rel2 R a a' ∧ Rel2 R b b'
  | [], b, l', h => ⟨[], l', rfl, .nil, h⟩
  | x :: a, b, l', h => by
    cases h with
    | cons hx hr =>
      obtain ⟨a', b', rfl, h1, h2⟩ := rel2_append_split a b hr
      exact ⟨_ :: a', b', rfl, .cons hx h1, h2⟩

theorem rel2_perm {α : Type} {R : α → α → Prop} {l1 l2 : List α} (hp : l1.Perm l2) :
    ∀ l1', Rel2 R l1 l1' → ∃ l2', Rel2 R l2 l2' ∧ l1'.Perm l2' := by
  induction hp with
  | nil => intro l1' h; cases h; exact ⟨[], .nil, .refl _⟩
  | cons x _ ih =>
    intro l1' h
    cases h with
    | cons hx hr =>
      obtain ⟨b', h1, h2⟩ := ih _ hr
      exact ⟨_ :: b', .cons hx h1, h2.cons _⟩
  | swap x y l =>
    intro l1' h
    cases h with
    | cons hy hr =>
      cases hr with
      | cons hx hr' => exact ⟨_ :: _ :: _, .cons hx (.cons hy hr'), .swap _ _ _⟩
  | trans _ _ ih1 ih2 =>
    intro l1' h
    obtain ⟨l2', h1, h2⟩ := ih1 _ h
    obtain ⟨l3', h3, h4⟩ := ih2 _ h1
    exact ⟨l3', h3, h2.trans h4⟩

theorem rel2_clean_eq : ∀ {l l' : List Group}, (∀ g ∈ l, Clean g) → Rel2 OptRel l l' → l' = l := by
  intro l l' hc h
  induction h with
  | nil => rfl
  | cons hab _ ih =>
    rw [hab.2 (hc _ (by simp)), ih (fun g hg => hc g (by simp [hg]))]

theorem findGroup_some {gs : List Group} {name : String} (hne : name ≠ "") (h : name ∈ gs.map (·.id)) :
    ∃ i, findGroup gs name = some i := by
  unfold findGroup
  rw [if_neg hne]
  cases hf : gs.findIdx? (fun g => g.id == name) with
  | some i => exact ⟨i, rfl⟩
  | none =>
    rw [List.findIdx?_eq_none_iff] at hf
    obtain ⟨g, hg, rfl⟩ := List.mem_map.1 h
    have := hf g hg
    simp at this

theorem optimiseAll_spec {oi : List Group → Group → Group} (hoi : IdPreserving oi) :
    ∀ (ns : List String) (gs : List Group), (∀ n ∈ ns, n ≠ "" ∧ n ∈ gs.map (·.id)) →
      ∃ gs', optimiseAll oi gs ns = .ok gs' ∧ Rel2 OptRel gs gs'
  | [], gs, _ => ⟨gs, rfl, rel2_self OptRel.refl gs⟩
  | n :: ns, gs, h => by
    obtain ⟨i, hi⟩ := findGroup_some (h n (by simp)).1 (h n (by simp)).2
    have h1 : Rel2 OptRel gs (modifyAt gs i (optGroup oi gs)) :=
      rel2_modifyAt OptRel.refl (optGroup_rel hoi gs) gs i
    obtain ⟨gs', h2, h3⟩ := optimiseAll_spec hoi ns (modifyAt gs i (optGroup oi gs)) (by
      intro m hm
      rw [rel2_ids h1]
      exact h m (by simp [hm]))
    refine ⟨gs', ?_, rel2_trans (R := OptRel) (fun _ _ _ hab hbc => OptRel.trans hab hbc) h1 h3⟩
    simp only [optimiseAll, optimiseOne, hi, h2]

/-! ### the new groups are clean -/

theorem flat_nodup_mem : ∀ {chs : List (Nat × List Nat)}, (flat chs).Nodup → ∀ ch ∈ chs, ch.2.Nodup
  | [], _, ch, hc => by cases hc
  | x :: a, h, ch, hc => by
    simp only [flat, List.map_cons, List.flatten_cons, List.nodup_append] at h
    rcases List.mem_cons.1 hc with rfl | hc
    · exact h.1
    · exact flat_nodup_mem (chs := a) h.2.1 ch hc

theorem mem_mkFresh {g : Group} : ∀ {chs : List (Nat × List Nat)} {L : Nat}, g ∈ mkFresh L chs →
    ∃ ch ∈ chs, ∃ L', g = freshAt L' ch
  | [], _, h => by simp [mkFresh] at h
  | x :: a, L, h => by
    simp only [mkFresh, List.mem_cons] at h
    rcases h with rfl | h
    · exact ⟨x, by simp, L, rfl⟩
    · obtain ⟨ch, hc, L', e⟩ := mem_mkFresh h
      exact ⟨ch, by simp [hc], L', e⟩

/-- members of a new group: the first chain, or one of the later chains -/
theorem newGroups_members {G0 : Nat} {t : Tree} {n : Group} (h : n ∈ newGroups G0 t) :
    n.nlx = some sectionNlx ∧ n.includes = [] ∧ (n.members = first t ∨ ∃ ch ∈ rest t, n.members = ch.2) := by
  simp only [newGroups, List.mem_cons] at h
  rcases h with rfl | h
  · exact ⟨rfl, rfl, Or.inl rfl⟩
  · obtain ⟨ch, hc, L', rfl⟩ := mem_mkFresh h
    exact ⟨rfl, rfl, Or.inr ⟨ch, hc, rfl⟩⟩

theorem newGroups_clean {G0 : Nat} {t : Tree} (hpre : (preorder t).Nodup) : ∀ n ∈ newGroups G0 t, Clean n := by
  intro n hn
  obtain ⟨_, hi, hm⟩ := newGroups_members hn
  rw [← first_rest_flat t, List.nodup_append] at hpre
  refine ⟨hi, ?_⟩
  rcases hm with hm | ⟨ch, hc, hm⟩
  · rw [hm]; exact hpre.1
  · rw [hm]; exact flat_nodup_mem hpre.2.1 ch hc

/-! ### `run` -/

/-- how a pre-existing group `g` relates to what the call leaves in its place: same id always; the very same
    group when optimisation is off, or when the group is `Clean` -/
def OldRel (optimise : Bool) (g g' : Group) : Prop := g'.id = g.id ∧ ((optimise = false ∨ Clean g) → g' = g)

theorem run_spec {oi : List Group → Group → Group} (hoi : IdPreserving oi)
    (cell : St) (cache : Option Adj) (root : Nat) (reorder optimise : Bool) (lim fuel k : Nat) (t : Tree)
    (hc : FreshCache cell cache)
    (hnd : (cell.segs.map (·.id)).Nodup) (hr : Repr (adjacency cell.segs) t) (hroot : t.id = root)
    (hpre : (preorder t).Nodup) (hfuel : size t + 1 ≤ fuel) (hlim : k + 1 ≤ lim)
    (hap0 : ∃ p, actualProximal cell.segs k root = .ok p)
    (hap : ∀ ch ∈ rest t, ∃ p, actualProximal cell.segs k ch.1 = .ok p)
    (hclash : ∀ g ∈ cell.groups, ∀ n ∈ newGroups cell.groups.length t, g.id ≠ n.id)
    (hne : ∀ g ∈ cell.groups, g.id ≠ "") :
    ∃ segs' gs' olds', run oi cell cache root reorder optimise lim fuel = .ok ⟨segs', gs'⟩ ∧
      Refines cell.segs segs' ∧ HasProx segs' root ∧ (∀ ch ∈ rest t, HasProx segs' ch.1) ∧
      Rel2 (OldRel optimise) cell.groups olds' ∧
      gs'.Perm (olds' ++ newGroups cell.groups.length t) ∧
      (reorder = false → gs' = olds' ++ newGroups cell.groups.length t) := by
  obtain ⟨segs', h1, h2, h3, h4⟩ := sectionPhase_spec cell cache root lim fuel k t hc hnd hr hroot hpre hfuel hlim hap0 hap hclash
  cases optimise with
  | false =>
    refine ⟨segs', _, cell.groups, by simp only [run, h1]; rfl, h2, h3, h4,
      rel2_self (fun g => ⟨rfl, fun _ => rfl⟩) _, ?_, ?_⟩
    · cases reorder with
      | false => exact .refl _
      | true => exact reorderGroups_perm _
    · intro hre; subst hre; rfl
  | true =>
    have hnames : ∀ gs1 : List Group, gs1.Perm (cell.groups ++ newGroups cell.groups.length t) →
        ∀ n ∈ gs1.map (·.id), n ≠ "" ∧ n ∈ gs1.map (·.id) := by
      intro gs1 hp n hn
      refine ⟨?_, hn⟩
      obtain ⟨g, hg, rfl⟩ := List.mem_map.1 hn
      have := hp.subset hg
      rcases List.mem_append.1 this with ho | hnew
      · exact hne g ho
      · have : g.id ∈ (newGroups cell.groups.length t).map (·.id) := List.mem_map.2 ⟨g, hnew, rfl⟩
        rw [newGroups_ids] at this
        rcases List.mem_cons.1 this with e | e
        · rw [e]; exact genName_ne_empty _ _
        · obtain ⟨n', h', _, e'⟩ := mem_names e
          rw [e']; exact genName_ne_empty _ _
    have hsplit : ∀ l', Rel2 OptRel (cell.groups ++ newGroups cell.groups.length t) l' →
        ∃ olds', l' = olds' ++ newGroups cell.groups.length t ∧ Rel2 (OldRel true) cell.groups olds' := by
      intro l' hl
      obtain ⟨a', b', rfl, ha, hb⟩ := rel2_append_split _ _ hl
      rw [rel2_clean_eq (newGroups_clean hpre) hb]
      exact ⟨a', rfl, rel2_mono (fun g g' hg => ⟨hg.1, fun hh => hg.2 (by simpa using hh)⟩) ha⟩
    cases reorder with
    | false =>
      obtain ⟨gs2, g1, g2⟩ := optimiseAll_spec hoi _ _ (hnames _ (.refl _))
      obtain ⟨olds', rfl, ho⟩ := hsplit gs2 g2
      refine ⟨segs', _, olds', ?_, h2, h3, h4, ho, .refl _, fun _ => rfl⟩
      simp only [run, h1, Bool.false_eq_true, ↓reduceIte, g1]
    | true =>
      have hp := reorderGroups_perm (cell.groups ++ newGroups cell.groups.length t)
      obtain ⟨gs2, g1, g2⟩ := optimiseAll_spec hoi _ _ (hnames _ hp)
      obtain ⟨l', hl1, hl2⟩ := rel2_perm hp gs2 g2
      obtain ⟨olds', rfl, ho⟩ := hsplit l' hl1
      refine ⟨segs', gs2, olds', ?_, h2, h3, h4, ho, hl2, fun hh => by cases hh⟩
      simp only [run, h1, ↓reduceIte, g1]

/-! ### the hypotheses of the C16 theorems, and their decidable form -/

/-- well-formedness of a call: what the C16 theorems assume.  `t` is the unfolding of the cell's adjacency
    dictionary from `root` (it exists for every acyclic morphology: section F), `k` the number of frames within
    which the proximal of the root and of the first segment of every later chain resolves.  The nesting of branch
    points is not restricted (the sectioniser is iterative). -/
structure Wf (cell : St) (cache : Option Adj) (root lim fuel k : Nat) (t : Tree) : Prop where
  /-- no stale `adjacency_list` cache (known finding otherwise) -/
  cache_fresh : FreshCache cell cache
  /-- segment ids are distinct -/
  ids_nodup : (cell.segs.map (·.id)).Nodup
  /-- `t` unfolds the adjacency dictionary from the root ... -/
  repr : Repr (adjacency cell.segs) t
  root_eq : t.id = root
  /-- ... and is a tree: no segment is reached twice -/
  tree : (preorder t).Nodup
  /-- model artefact: enough fuel -/
  fuel_ok : size t + 1 ≤ fuel
  /-- enough Python frames for `get_actual_proximal` (known finding otherwise) -/
  frames : k + 1 ≤ lim
  /-- the root has a proximal: explicit, or implied through its ancestors within `k` frames -/
  root_proximal : ∃ p, actualProximal cell.segs k root = .ok p
  /-- so has the first segment of every later chain (no other segment needs one) -/
  head_proximal : ∀ ch ∈ rest t, ∃ p, actualProximal cell.segs k ch.1 = .ok p
  /-- no pre-existing group carries one of the names the call generates (known finding otherwise) -/
  no_clash : ∀ g ∈ cell.groups, ∀ n ∈ newGroups cell.groups.length t, g.id ≠ n.id
  /-- pre-existing groups have non-empty ids (`get_segment_group("")` raises) -/
  ids_nonempty : ∀ g ∈ cell.groups, g.id ≠ ""

theorem nodupB_iff : ∀ {l : List Nat}, nodupB l = true ↔ l.Nodup
  | [] => by simp [nodupB]
  | a :: l => by
    simp only [nodupB, Bool.and_eq_true, Bool.not_eq_eq_eq_not, Bool.not_true, List.nodup_cons,
      nodupB_iff (l := l)]
    constructor
    · rintro ⟨h1, h2⟩
      exact ⟨by simpa using h1, h2⟩
    · rintro ⟨h1, h2⟩
      exact ⟨by simpa using h1, h2⟩

theorem isOk_iff {ε α : Type} {e : Except ε α} : isOk e = true ↔ ∃ a, e = .ok a := by
  cases e with
  | ok a => simp [isOk]
  | error _ => simp [isOk]

/-- the driver's per-case flag `hyp` is sound: when it is `true` the theorems' hypotheses hold -/
theorem hypB_sound {cell : St} {cache : Option Adj} {root lim fuel : Nat}
    (h : hypB cell cache root lim fuel = true) : ∃ t k, Wf cell cache root lim fuel k t := by
  unfold hypB at h
  cases hb : buildTree (adjacency cell.segs) (cell.segs.length + 1) root with
  | none => simp [hb] at h
  | some t =>
    simp only [hb, Bool.and_eq_true, decide_eq_true_eq, List.all_eq_true] at h
    obtain ⟨⟨⟨hc, hids⟩, _⟩, ⟨⟨⟨⟨⟨ht, hl⟩, hf⟩, hap⟩, hcl⟩, hne⟩⟩ := h
    obtain ⟨hr, hroot⟩ := buildTree_sound _ _ _ _ hb
    refine ⟨t, lim - 1, ⟨?_, nodupB_iff.1 hids, hr, hroot, nodupB_iff.1 ht, hf, by omega, ?_, ?_, ?_, ?_⟩⟩
    · cases cache with
      | none => exact Or.inl rfl
      | some a =>
        right
        simp only [decide_eq_true_eq] at hc
        rw [hc]
    · exact isOk_iff.1 (hap root (by simp))
    · intro ch hc
      exact isOk_iff.1 (hap ch.1 (List.mem_cons_of_mem _ (List.mem_map.2 ⟨ch, hc, rfl⟩)))
    · intro g hg n hn e
      have := hcl g hg
      simp only [Bool.not_eq_eq_eq_not, Bool.not_true, List.any_eq_false, beq_iff_eq] at this
      exact this n hn e.symm
    · intro g hg
      simpa using hne g hg

/-! ## E. what a `GoodChain` says about the cell -/

/-- segment `c`'s parent is `p` -/
def ParentOf (segs : List Seg) (p c : Nat) : Prop := ∃ s f, getSegment segs c = some s ∧ s.parent = some (p, f)

/-- consecutive elements are related: a parent → child path -/
def IsChain (R : Nat → Nat → Prop) : List Nat → Prop
  | [] => True
  | [_] => True
  | a :: b :: l => R a b ∧ IsChain R (b :: l)

theorem lookup_adjacency_some {segs : List Seg} {p : Nat} {cs : List Nat} (h : lookup (adjacency segs) p = some cs) :
    childrenOf segs p = cs := by
  rw [lookup_adjacency] at h
  exact (enc_eq_some h).1.symm

theorem lookup_adjacency_none {segs : List Seg} {p : Nat} (h : lookup (adjacency segs) p = none) :
    childrenOf segs p = [] := by
  rw [lookup_adjacency] at h
  unfold enc at h
  by_cases e : childrenOf segs p = []
  · exact e
  · simp [e] at h

theorem parentOf_of_child {segs : List Seg} (hnd : (segs.map (·.id)).Nodup) {p c : Nat}
    (h : c ∈ childrenOf segs p) : ParentOf segs p c := by
  obtain ⟨s, hs, rfl, f, hp⟩ := mem_childrenOf.1 h
  exact ⟨s, f, getSegment_of_mem_nodup hnd hs, hp⟩

theorem GoodChain.isChain {segs : List Seg} (hnd : (segs.map (·.id)).Nodup) {ch : List Nat}
    (h : GoodChain (adjacency segs) ch) : IsChain (ParentOf segs) ch := by
  induction h with
  | leaf _ => trivial
  | branch _ => trivial
  | @step i c l hl _ ih =>
    refine ⟨parentOf_of_child hnd ?_, ih⟩
    rw [lookup_adjacency_some hl]; simp

theorem GoodChain.inner {segs : List Seg} {ch : List Nat} (h : GoodChain (adjacency segs) ch) :
    ∀ a ∈ ch.dropLast, ∃ c, childrenOf segs a = [c] := by
  induction h with
  | leaf _ => intro a ha; simp at ha
  | branch _ => intro a ha; simp at ha
  | @step i c l hl _ ih =>
    intro a ha
    simp only [List.dropLast_cons_cons, List.mem_cons] at ha
    rcases ha with rfl | ha
    · exact ⟨c, lookup_adjacency_some hl⟩
    · exact ih a ha

theorem GoodChain.last {segs : List Seg} {ch : List Nat} (h : GoodChain (adjacency segs) ch) :
    ∀ z, ch.getLast? = some z → childrenOf segs z = [] ∨ 2 ≤ (childrenOf segs z).length := by
  induction h with
  | leaf hl =>
    intro z hz
    simp only [List.getLast?_singleton, Option.some.injEq] at hz
    subst hz
    exact Or.inl (lookup_adjacency_none hl)
  | branch hl =>
    intro z hz
    simp only [List.getLast?_singleton, Option.some.injEq] at hz
    subst hz
    right
    rw [lookup_adjacency_some hl]; simp
  | @step i c l _ _ ih =>
    intro z hz
    rw [List.getLast?_cons_cons] at hz
    exact ih z hz

theorem GoodChain.ne_nil {adj : Adj} {ch : List Nat} (h : GoodChain adj ch) : ch ≠ [] := by
  cases h <;> simp

/-- every new group's member list is a `GoodChain`; all but the first start at a child of a branch point -/
theorem newGroups_good {adj : Adj} {G0 : Nat} {t : Tree} (hr : Repr adj t) {n : Group} (hn : n ∈ newGroups G0 t) :
    GoodChain adj n.members ∧
    ((∃ l, n.members = t.id :: l) ∨
      ∃ h l p cs, n.members = h :: l ∧ p ∈ preorder t ∧ lookup adj p = some cs ∧ 2 ≤ cs.length ∧ h ∈ cs) := by
  obtain ⟨_, _, hm⟩ := newGroups_members hn
  rcases hm with hm | ⟨ch, hc, hm⟩
  · rw [hm]
    exact ⟨first_good t hr, Or.inl (first_cons t)⟩
  · obtain ⟨h1, ⟨l, h2⟩, p, cs, hp, h3, h4, h5⟩ := rest_ok t hr ch hc
    rw [hm]
    exact ⟨h1, Or.inr ⟨ch.1, l, p, cs, h2, hp, h3, h4, h5⟩⟩

theorem newGroups_flat (G0 : Nat) (t : Tree) : ((newGroups G0 t).map (·.members)).flatten = preorder t := by
  have h : ∀ (chs : List (Nat × List Nat)) (L : Nat), ((mkFresh L chs).map (·.members)).flatten = flat chs := by
    intro chs
    induction chs with
    | nil => intro L; simp [mkFresh, flat]
    | cons x a ih => intro L; simp [mkFresh, flat, freshAt, ih (L + 1)]
  simp only [newGroups, List.map_cons, List.flatten_cons, h]
  exact first_rest_flat t

/-- in a list of lists whose concatenation has no duplicates, an element of the concatenation lies in exactly
    one of the lists -/
theorem count_containing {x : Nat} : ∀ {ls : List (List Nat)}, ls.flatten.Nodup → x ∈ ls.flatten →
    (ls.filter (fun l => decide (x ∈ l))).length = 1
  | [], _, h => by simp at h
  | l :: ls, hnd, hx => by
    simp only [List.flatten_cons, List.nodup_append] at hnd
    simp only [List.flatten_cons, List.mem_append] at hx
    simp only [List.filter_cons]
    by_cases hl : x ∈ l
    · have : ls.filter (fun l => decide (x ∈ l)) = [] := by
        rw [List.filter_eq_nil_iff]
        intro l' hl' hxl'
        have hxl' : x ∈ l' := by simpa using hxl'
        exact hnd.2.2 x hl x (List.mem_flatten.2 ⟨l', hl', hxl'⟩) rfl
      simp [hl, this]
    · have hx' : x ∈ ls.flatten := by
        rcases hx with h | h
        · exact absurd h hl
        · exact h
      simp [hl, count_containing hnd.2.1 hx']

theorem rel2_oldrel_false {gs gs' : List Group} (h : Rel2 (OldRel false) gs gs') : gs' = gs := by
  induction h with
  | nil => rfl
  | cons hab _ ih => rw [hab.2 (Or.inl rfl), ih]

theorem rel2_oldrel_ids {b : Bool} {gs gs' : List Group} (h : Rel2 (OldRel b) gs gs') :
    gs'.map (·.id) = gs.map (·.id) := by
  induction h with
  | nil => rfl
  | cons hab _ ih => simp [hab.1, ih]

/-- the groups left by the call whose id did not exist before, and which carry the section NeuroLex id -/
def newSectionGroups (cell cell' : St) : List Group :=
  cell'.groups.filter (fun g => g.nlx == some sectionNlx && !cell.groups.any (fun o => o.id == g.id))

theorem newSectionGroups_perm {cell cell' : St} {optimise : Bool} {olds' new : List Group}
    (hold : Rel2 (OldRel optimise) cell.groups olds') (hperm : cell'.groups.Perm (olds' ++ new))
    (hnew : ∀ n ∈ new, n.nlx = some sectionNlx ∧ ∀ g ∈ cell.groups, g.id ≠ n.id) :
    (newSectionGroups cell cell').Perm new := by
  unfold newSectionGroups
  refine (hperm.filter _).trans ?_
  rw [List.filter_append]
  have h1 : olds'.filter (fun g => g.nlx == some sectionNlx && !cell.groups.any (fun o => o.id == g.id)) = [] := by
    rw [List.filter_eq_nil_iff]
    intro g hg
    have : g.id ∈ olds'.map (·.id) := List.mem_map.2 ⟨g, hg, rfl⟩
    rw [rel2_oldrel_ids hold] at this
    obtain ⟨o, ho, e⟩ := List.mem_map.1 this
    simp only [Bool.and_eq_true, beq_iff_eq, Bool.not_eq_eq_eq_not, Bool.not_true, List.any_eq_false, not_and]
    intro _ hall
    exact hall o ho e
  have h2 : new.filter (fun g => g.nlx == some sectionNlx && !cell.groups.any (fun o => o.id == g.id)) = new := by
    rw [List.filter_eq_self]
    intro n hn
    obtain ⟨e1, e2⟩ := hnew n hn
    simp only [e1, beq_self_eq_true, Bool.true_and, Bool.not_eq_eq_eq_not, Bool.not_true, List.any_eq_false,
      beq_iff_eq]
    exact fun o ho => e2 o ho
  rw [h1, h2]
  exact .refl _

theorem all_isOk {segs : List Seg} {k : Nat} {l : List Nat}
    (h : l.all (fun x => isOk (actualProximal segs k x)) = true) : ∀ x ∈ l, ∃ p, actualProximal segs k x = .ok p := by
  intro x hx
  exact isOk_iff.1 (List.all_eq_true.1 h x hx)

end NmlVerif.Section
