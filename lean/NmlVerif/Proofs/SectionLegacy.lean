import NmlVerif.Model.Section
/-!
C16: the sectioniser BEFORE `fixes/C16-iterative-sectionise.patch` (recursive: one Python frame per branch point
nested on a root-to-leaf path), kept only to record what the fix changed.  Not part of the model of the current code;
nothing in the correspondence check uses it.

* `legacy_recursion_witness` — the fixed finding `C16:recursion-limit:nested-branch-points`: on two nested branch
  points with 3 frames the old sectioning phase raised `RecursionError`, the new one (same input, same frames)
  returns (`Props/C16.lean: c16_fixed_nested_branch_points`).
* `legacy_agrees` — on that cell, with enough frames for the old code, old and new compute the same cell
  (groups, names, order, proximals).  That the two agree on ALL generated cells is checked against the real code
  (old `/repo` vs patched tree, 1555 cells, notes/C16.md).
-/
namespace NmlVerif.Section.Legacy
open NmlVerif.Section

mutual
  /-- `__sectionise(root, seg_group = groups[gi], morph_tree = adj)` as it was; the inner `while` (single child) is
      the `[c]` case and does not take a frame -/
  def sectD (adj : Adj) : Nat → Nat → St → Nat → Nat → Except Err St
    | 0, _, _, _, _ => .error .fuel
    | fuel + 1, lim, st, root, gi =>
      match lookup adj root with
      | none => .ok (st.addMember gi root)
      | some [] => .ok st
      | some [c] => sectD adj fuel lim (st.addMember gi root) c gi
      | some (c1 :: c2 :: cs) => sectKids adj fuel lim (st.addMember gi root) (c1 :: c2 :: cs)
  /-- `for child in children:` make the proximal explicit, open a group, recurse (one more frame) -/
  def sectKids (adj : Adj) : Nat → Nat → St → List Nat → Except Err St
    | 0, _, _, _ => .error .fuel
    | _ + 1, _, st, [] => .ok st
    | fuel + 1, lim, st, c :: cs =>
      match getSegment st.segs c with
      | none => .error .noSegment
      | some s =>
        match actualProximal st.segs lim s.id with
        | .error e => .error e
        | .ok p =>
          let segs' := setProx st.segs c p
          let (gs', gi') := addGroup st.groups (genName (st.groups.length - 1) s.id)
          match lim with
          | 0 => .error .recursion
          | lim' + 1 =>
            match sectD adj fuel lim' ⟨segs', gs'⟩ c gi' with
            | .error e => .error e
            | .ok st' => sectKids adj fuel lim st' cs
end

def sectionPhase (cell : St) (cache : Option Adj) (root lim fuel : Nat) : Except Err St :=
  let adj := cache.getD (adjacency cell.segs)
  match getSegment cell.segs root with
  | none => .error .noSegment
  | some s =>
    match rootProx cell.segs lim s root with
    | .error e => .error e
    | .ok segs' =>
      let (gs, gi) := addGroup cell.groups (genName cell.groups.length s.id)
      match lim with
      | 0 => .error .recursion
      | lim' + 1 => sectD adj fuel lim' ⟨segs', gs⟩ root gi

def pt (x y z d : Int) : Pt := ⟨x, y, z, d⟩

/-- root 0 with children 1, 2; 2 has children 3, 4: two nested branch points (= `wSegs` of `Props/C16.lean`) -/
def wSegs : List Seg :=
  [⟨0, none, some (pt 0 0 0 1), pt 1 0 0 1⟩, ⟨1, some (0, 1), none, pt 2 1 0 1⟩, ⟨2, some (0, 1), none, pt 2 0 0 1⟩,
   ⟨3, some (2, 1 / 2), none, pt 3 1 0 1⟩, ⟨4, some (2, 1), none, pt 3 0 0 1⟩]

theorem legacy_recursion_witness :
    sectionPhase ⟨wSegs, []⟩ none 0 3 20 = .error .recursion ∧
    (NmlVerif.Section.sectionPhase ⟨wSegs, []⟩ none 0 3 20).toOption.isSome = true := by
  decide +kernel

theorem legacy_agrees :
    sectionPhase ⟨wSegs, []⟩ none 0 5 20 = NmlVerif.Section.sectionPhase ⟨wSegs, []⟩ none 0 3 20 ∧
    (sectionPhase ⟨wSegs, []⟩ none 0 5 20).toOption.isSome = true := by
  decide +kernel

end NmlVerif.Section.Legacy
